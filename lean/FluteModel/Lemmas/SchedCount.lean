import FluteModel.Lemmas.SchedRRMulti
/-
  The u32 transfer counter cannot overflow: `transfer_count ≤ total_nb_transfer ≤ number of trace entries`
  (every completed transfer appended its Stop event), for objects and FDT instances, after every history.
-/
namespace Flute.Sched

theorem transferDoneFdt_fdts_eq (s : State) (k now : Nat) :
    (transferDoneFdt s k now).fdts = updF s.fdts k (fun f => transferDoneInfo f now) := by
  unfold transferDoneFdt; simp only []; split
  · split <;> rfl
  · rfl

def CntOk (n : Nat) (f : FileDesc) : Prop := f.info.count ≤ f.info.total ∧ f.info.total ≤ n

def CountInv : State → Held → Prop := fun s _ =>
  (∀ f ∈ s.objs, CntOk s.log.length f) ∧ (∀ f ∈ s.fdts, CntOk s.log.length f)

theorem CntOk.mono {n m : Nat} {f : FileDesc} (h : CntOk n f) (hnm : n ≤ m) : CntOk m f := ⟨h.1, Nat.le_trans h.2 hnm⟩

/-- descriptor update that does not increase the counters -/
def Shrinks (g : FileDesc → FileDesc) : Prop := ∀ f, (g f).info.count ≤ f.info.count ∧ (g f).info.total = f.info.total

theorem cnt_updF {l : List FileDesc} {n m : Nat} (k : Nat) (g : FileDesc → FileDesc) (hg : Shrinks g)
    (h : ∀ f ∈ l, CntOk n f) (hnm : n ≤ m) : ∀ f ∈ updF l k g, CntOk m f := by
  intro f hf
  obtain ⟨f0, hf0, rfl⟩ := mem_updF hf
  have h0 := h f0 hf0
  by_cases hk : f0.key = k
  · rw [if_pos hk]
    exact ⟨by rw [(hg f0).2]; exact Nat.le_trans (hg f0).1 h0.1, by rw [(hg f0).2]; exact Nat.le_trans h0.2 hnm⟩
  · rw [if_neg hk]; exact h0.mono hnm

theorem cnt_done {l : List FileDesc} {n : Nat} (k now : Nat)
    (h : ∀ f ∈ l, CntOk n f) : ∀ f ∈ updF l k (fun f => transferDoneInfo f now), CntOk (n + 1) f := by
  intro f hf
  obtain ⟨f0, hf0, rfl⟩ := mem_updF hf
  have h0 := h f0 hf0
  by_cases hk : f0.key = k
  · rw [if_pos hk]
    show f0.info.count + 1 ≤ f0.info.total + 1 ∧ f0.info.total + 1 ≤ n + 1
    exact ⟨by have := h0.1; omega, by have := h0.2; omega⟩
  · rw [if_neg hk]; exact h0.mono (Nat.le_succ n)

theorem shrinks_transferInit (now tk : Nat) : Shrinks (fun f => transferInit f now tk) := by
  intro f
  refine ⟨?_, rfl⟩
  show (if f.info.count == f.maxCount && f.carousel.isSome then 0 else f.info.count) ≤ f.info.count
  split
  · exact Nat.zero_le _
  · exact Nat.le_refl _

theorem shrinks_tickInfo : Shrinks tickInfo := fun f =>
  ⟨by rw [(tickInfo_fields f).1]; exact Nat.le_refl _, (tickInfo_fields f).2.1⟩

theorem shrinks_reset (ts : Option Nat) : Shrinks (fun f => resetLastTransfer f ts) := fun _ => ⟨Nat.le_refl _, rfl⟩

theorem CountInv.same {s s' : State} {L L' : Held} (h : CountInv s L) (ho : s'.objs = s.objs) (hf : s'.fdts = s.fdts)
    (hl : s.log.length ≤ s'.log.length) : CountInv s' L' := by
  unfold CountInv; rw [ho, hf]
  exact ⟨fun f hf => (h.1 f hf).mono hl, fun f hf => (h.2 f hf).mono hl⟩

theorem CountInv.publish {s : State} {L : Held} (h : CountInv s L) (now : Nat) : CountInv (Sched.publish s now) L := by
  have hl : s.log.length ≤ (Sched.publish s now).log.length := by rw [publish_log]; simp
  refine ⟨?_, ?_⟩
  · intro f hf
    rw [publish_objs, List.mem_map] at hf
    obtain ⟨f0, hf0, rfl⟩ := hf
    have := (h.1 f0 hf0).mono hl
    unfold CntOk at this ⊢
    rw [pubMark_info]; exact this
  · intro f hf
    rw [publish_fdts] at hf
    rcases List.mem_append.mp hf with hf | hf
    · exact (h.2 f hf).mono hl
    · simp only [List.mem_singleton] at hf; subst hf
      exact ⟨Nat.le_refl _, Nat.zero_le _⟩

theorem CountInv.publishTry {s : State} {L : Held} (h : CountInv s L) (now : Nat) : CountInv (Sched.publishTry s now) L :=
  publishTry_elim (P := fun x => CountInv x L) s now (h.publish now) h

theorem CountInv.closed : Closed0 CountInv where
  perm := fun _ _ _ _ h => h
  leaveFiles := fun _ _ _ h => h
  enterFiles := fun _ _ _ _ h _ _ => h
  emitRead := fun s _ now _ h _ => h.same (s' := emit s (.opRead now)) rfl rfl (by show _ ≤ (_ :: s.log).length; simp)
  emitIdle := fun s _ now _ h _ => h.same (s' := emit s (.idle now)) rfl rfl (by show _ ≤ (_ :: s.log).length; simp)
  publish := fun _ _ now _ h _ => h.publish now
  fdtAdvance := fun s L now _ h _ _ => by
    rcases fdtAdvance_cases s now with ⟨e, _⟩ | ⟨k, f, _, _, _, e⟩
    · rw [e]; exact h.same (fdtPop_objs s) (fdtPop_fdts s) (by rw [fdtPop_log]; exact Nat.le_refl _)
    · rw [e]
      have h0 : CountInv (fdtPop s) L := h.same (fdtPop_objs s) (fdtPop_fdts s) (by rw [fdtPop_log]; exact Nat.le_refl _)
      refine ⟨fun f hf => (h0.1 f hf).mono (by show _ ≤ (_ :: (fdtPop s).log).length; simp), ?_⟩
      exact cnt_updF k (fun f => transferInit f now 0) (shrinks_transferInit now 0) h0.2
        (by show _ ≤ (_ :: (fdtPop s).log).length; simp)
  fileStart := fun s L _ now tk t _ h _ _ => by
    have h1 : CountInv (fileStartStep s t now tk) L :=
      ⟨cnt_updF t (fun f => transferInit f now tk) (shrinks_transferInit now tk) h.1
          (by show _ ≤ (_ :: s.log).length; simp),
        fun f hf => (h.2 f hf).mono (by show _ ≤ (_ :: s.log).length; simp)⟩
    unfold autoPublish; split
    · exact h1.publishTry now
    · exact h1
  pkt := fun s L prio c now _ idx b _ _ h _ _ _ _ _ =>
    ⟨cnt_updF c.key tickInfo shrinks_tickInfo h.1 (by show _ ≤ (_ :: s.log).length; simp),
      fun f hf => (h.2 f hf).mono (by show _ ≤ (_ :: s.log).length; simp)⟩
  done := fun s L _ c now _ _ _ h _ _ _ => by
    unfold CountInv
    rw [transferDoneFile_objs, transferDoneFile_fdts, transferDoneFile_log]
    exact ⟨cnt_done c.key now h.1, fun f hf => (h.2 f hf).mono (by simp)⟩
  fdtPkt := fun s L c f now idx b e _ h _ _ _ _ _ =>
    ⟨fun g hg => (h.1 g hg).mono (by show _ ≤ (_ :: s.log).length; simp),
      cnt_updF c.key tickInfo shrinks_tickInfo h.2 (by show _ ≤ (_ :: s.log).length; simp)⟩
  fdtDone := fun s L c _ now _ _ h _ _ _ _ _ => by
    unfold CountInv fdtRelease
    show (∀ f ∈ (transferDoneFdt s c.key now).objs, CntOk (transferDoneFdt s c.key now).log.length f) ∧
      (∀ f ∈ (transferDoneFdt s c.key now).fdts, CntOk (transferDoneFdt s c.key now).log.length f)
    rw [transferDoneFdt_objs, transferDoneFdt_log, transferDoneFdt_fdts_eq]
    exact ⟨fun f hf => (h.1 f hf).mono (by simp), cnt_done c.key now h.2⟩

theorem CountInv.closedOps : ClosedOps0 CountInv where
  add := fun s L a _ h => by
    unfold addObject; simp only []
    split
    · exact h.same (s' := emit { s with nextToi := s.nextToi + 1 } _) rfl rfl (by show _ ≤ (_ :: s.log).length; simp)
    · split
      · exact h.same (s' := emit { s with nextToi := s.nextToi + 1 } _) rfl rfl (by show _ ≤ (_ :: s.log).length; simp)
      · refine ⟨?_, fun f hf => (h.2 f hf).mono (by show _ ≤ (_ :: s.log).length; simp)⟩
        intro f hf
        have hf' : f ∈ s.objs ++ [_] := hf
        rcases List.mem_append.mp hf' with hf' | hf'
        · exact (h.1 f hf').mono (by show _ ≤ (_ :: s.log).length; simp)
        · simp only [List.mem_singleton] at hf'; subst hf'
          exact ⟨Nat.le_refl _, Nat.zero_le _⟩
  remove := fun s L t _ h => by
    unfold removeObject; split
    · exact h.same (s' := emit s _) rfl rfl (by show _ ≤ (_ :: s.log).length; simp)
    · exact h.same (s' := emit { s with files := s.files.erase t, queue := s.queue.filter (fun x => x != t) } _) rfl rfl
        (by show _ ≤ (_ :: s.log).length; simp)
  trigger := fun s L t ts _ h => by
    unfold triggerTransferAt; split
    · exact h.same (s' := emit s _) rfl rfl (by show _ ≤ (_ :: s.log).length; simp)
    · split
      · exact h.same (s' := emit s _) rfl rfl (by show _ ≤ (_ :: s.log).length; simp)
      · exact ⟨cnt_updF t (fun f => resetLastTransfer f ts) (shrinks_reset ts) h.1
            (by show _ ≤ (_ :: s.log).length; simp),
          fun f hf => (h.2 f hf).mono (by show _ ≤ (_ :: s.log).length; simp)⟩
  publishOp := fun s L now _ h => by
    have h0 : CountInv (emit s (.opPublish now)) L :=
      h.same (s' := emit s (.opPublish now)) rfl rfl (by show _ ≤ (_ :: s.log).length; simp)
    exact h0.publishTry now
  complete := fun _ _ _ h => h

/-- after every history: `transfer_count ≤ total_nb_transfer ≤ length of the trace`, for objects and FDT instances -/
theorem count_run (cfg : Cfg) (tbl : List Nat) (ops : List Op) :
    (∀ f ∈ (run (init cfg tbl) ops).objs, CntOk (run (init cfg tbl) ops).log.length f) ∧
    (∀ f ∈ (run (init cfg tbl) ops).fdts, CntOk (run (init cfg tbl) ops).log.length f) :=
  inv_run CountInv.closed CountInv.closedOps cfg tbl ⟨by intro f hf; simp [init] at hf, by intro f hf; simp [init] at hf⟩ ops

end Flute.Sched
