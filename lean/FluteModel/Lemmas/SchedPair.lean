import FluteModel.Lemmas.SchedIdle
/-
  Start / Stop pairing, from the lifecycle checks alone: in a checked trace the StartTransfer and StopTransfer events
  of an object alternate, starting with a Start.
-/
namespace Flute.Sched
open Flute.Spec.Lifecycle

theorem starts_stops_of_checked (toi : Nat) : ∀ l : List Ev, Checked toi l →
    (LM.run toi l).starts = (LM.run toi l).stops + (if (LM.run toi l).active = true then 1 else 0) := by
  intro l
  induction l with
  | nil => intro _; rfl
  | cons e r ih =>
    intro h
    have h0 := ih h.1
    have hc := h.2
    show ((LM.run toi r).step toi e).starts = ((LM.run toi r).step toi e).stops +
      (if ((LM.run toi r).step toi e).active = true then 1 else 0)
    generalize LM.run toi r = m at h0 hc ⊢
    cases e with
    | start now t st tk =>
      unfold LM.step
      by_cases ht : t = toi
      · simp only [if_pos ht]
        have := (hc ht).1
        rw [this] at h0
        simp at h0 ⊢
        omega
      · simp only [if_neg ht]; exact h0
    | stop now t =>
      unfold LM.step
      by_cases ht : t = toi
      · simp only [if_pos ht]
        have := (hc ht).1
        rw [this] at h0
        simp at h0 ⊢
        omega
      · simp only [if_neg ht]; exact h0
    | pkt now p t i b =>
      unfold LM.step
      by_cases ht : t = toi
      · simp only [if_pos ht]; exact h0
      · simp only [if_neg ht]; exact h0
    | opAdd t a ok =>
      unfold LM.step
      by_cases ht : t = toi ∧ ok = true
      · simp only [if_pos ht]; exact h0
      · simp only [if_neg ht]; exact h0
    | opRemove t ok =>
      unfold LM.step
      by_cases ht : t = toi ∧ ok = true
      · simp only [if_pos ht]; exact h0
      · simp only [if_neg ht]; exact h0
    | opPublish _ => exact h0
    | opTrigger _ _ _ => exact h0
    | opRead _ => exact h0
    | pub _ _ _ => exact h0
    | fdtStart _ _ => exact h0
    | fdtStop _ _ => exact h0
    | fdt _ _ _ _ => exact h0
    | idle _ => exact h0

end Flute.Sched
