import FluteModel.Lemmas.SessionFdt
import FluteModel.Lemmas.SessionEmit
import FluteModel.Lemmas.SessionEmpty
/-
  From packet streams to the events one object sees, and the stream-level core of C02 / C16.
-/
namespace Flute.Lemmas.Session
open Flute.Session

/-- the symbols of object `o` among the packets `ps`, in order -/
def osyms (o : ObjCfg) (ps : List Pkt) : List Sym := (ps.filter (fun p => p.toi == o.toi)).map toSym

theorem osyms_append (o : ObjCfg) (a b : List Pkt) : osyms o (a ++ b) = osyms o a ++ osyms o b := by
  simp [osyms]

theorem mem_osyms {o : ObjCfg} {ps : List Pkt} {q : Sym} : q ∈ osyms o ps ↔ ∃ p, p ∈ ps ∧ p.toi = o.toi ∧ toSym p = q := by
  simp [osyms, and_assoc]

/-- what the object sees of an arriving packet list is exactly its own packets, in order -/
theorem events_packets (decF : (k p : Nat) → List Nat → Bool) (rc : RxCfg) (s : SessCfg) (o : ObjCfg)
    (hto : o.toi ≠ 0) : ∀ (ps : List Pkt) (st : FdtRx), pktSyms (eventsFor decF rc s o st ps) = osyms o ps := by
  intro ps
  induction ps with
  | nil => intro st; simp [eventsFor, pktSyms, osyms]
  | cons p ps ih =>
    intro st
    unfold eventsFor
    by_cases h0 : p.toi = 0
    · have hne : (p.toi == o.toi) = false := by rw [h0]; exact beq_false_of_ne (fun h => hto h.symm)
      have h0' : (p.toi == 0) = true := by rw [h0]; rfl
      rw [if_pos h0']
      have e : osyms o (p :: ps) = osyms o ps := by simp [osyms, List.filter_cons, hne]
      rw [e]
      split
      split
      · simp only [pktSyms]; exact ih _
      · exact ih _
    · have : (p.toi == 0) = false := by simpa using h0
      simp only [this, Bool.false_eq_true, ↓reduceIte]
      by_cases ht : p.toi = o.toi
      · have ht' : (p.toi == o.toi) = true := by simp [ht]
        simp only [ht', ↓reduceIte, pktSyms]
        rw [ih]
        simp [osyms, List.filter_cons, ht', toSym]
      · have ht' : (p.toi == o.toi) = false := by simpa using ht
        simp only [ht', Bool.false_eq_true, ↓reduceIte]
        rw [ih]
        simp [osyms, List.filter_cons, ht']

/-- every FDT instance of the session lists the object (FullFDT): every completion is `fdt true` -/
theorem events_all_true (decF : (k p : Nat) → List Nat → Bool) (rc : RxCfg) (s : SessCfg) (o : ObjCfg)
    (hall : ∀ f, f ∈ s.fdts → f.files.contains o.toi = true) :
    ∀ (ps : List Pkt) (st : FdtRx) (l : Bool), Ev.fdt l ∈ eventsFor decF rc s o st ps → l = true := by
  intro ps
  induction ps with
  | nil => intro st l h; simp [eventsFor] at h
  | cons p ps ih =>
    intro st l h
    unfold eventsFor at h
    by_cases h0 : (p.toi == 0) = true
    · rw [if_pos h0] at h
      cases hd : (stepFdt decF rc s st p).2 with
      | none => simp only [hd] at h; exact ih _ l h
      | some f =>
        simp only [hd, List.mem_cons, Ev.fdt.injEq] at h
        rcases h with h | h
        · -- the completed instance is one of the session's
          have hf : f ∈ s.fdts := by
            unfold stepFdt at hd
            split at hd
            · simp at hd
            · split at hd
              · simp at hd
              · rename_i f' hf'
                unfold fdtFinish at hd
                dsimp only at hd
                split at hd <;> simp at hd
                rw [← hd]
                exact List.mem_of_find?_eq_some hf'
          rw [h]; exact hall f hf
        · exact ih _ l h
    · rw [if_neg h0] at h
      split at h
      · simp only [List.mem_cons, reduceCtorEq, false_or] at h
        exact ih _ l h
      · exact ih _ l h

/-- leading FDT completions of an event list -/
theorem lead_fdts : ∀ (l : List Ev), ∃ fs rest, l = fs ++ rest ∧ (∀ e, e ∈ fs → ∃ b, e = Ev.fdt b) ∧
    (rest = [] ∨ ∃ s r, rest = Ev.pkt s :: r) := by
  intro l
  induction l with
  | nil => exact ⟨[], [], rfl, by simp, Or.inl rfl⟩
  | cons e es ih =>
    cases e with
    | pkt s => exact ⟨[], Ev.pkt s :: es, rfl, by simp, Or.inr ⟨s, es, rfl⟩⟩
    | fdt b =>
      obtain ⟨fs, rest, h1, h2, h3⟩ := ih
      refine ⟨Ev.fdt b :: fs, rest, by simp [h1], ?_, h3⟩
      intro e he
      rcases List.mem_cons.mp he with rfl | he
      · exact ⟨b, rfl⟩
      · exact h2 e he

/-- close-object flag only on trailing copies of one packet (what "B only on the very last packet of the
    last transfer" gives for any received sub-multiset, order preserved) -/
def CloseLastSyms (T : List Sym) : Prop :=
  ∀ a q b, T = a ++ q :: b → q.close = true → ∀ r, r ∈ b → r = q

theorem closeOK_of_lastSyms (c : Codec) (o : ObjCfg) : ∀ (es : List Ev) (P : List Sym),
    CloseLastSyms (pktSyms es) → AllDec c o (pktSyms es ++ P) → CloseOK c o P es := by
  intro es
  induction es with
  | nil => intro P _ _; trivial
  | cons e es ih =>
    intro P hl hd
    cases e with
    | fdt l => exact ih P hl hd
    | pkt s =>
      have htail : CloseLastSyms (pktSyms es) := by
        intro a q b hes hq r hr
        exact hl (s :: a) q b (by simp [pktSyms, hes]) hq r hr
      refine ⟨?_, ?_⟩
      · intro hs
        have hall : ∀ r, r ∈ pktSyms es → r = s := hl [] s (pktSyms es) (by simp [pktSyms]) hs
        apply allDec_mono c o _ _ _ hd
        intro q hq
        simp only [pktSyms, List.cons_append, List.mem_cons, List.mem_append] at hq
        rcases hq with rfl | hq | hq
        · exact List.mem_cons_self ..
        · rw [hall q hq]; exact List.mem_cons_self ..
        · exact List.mem_cons_of_mem _ hq
      · apply ih (s :: P) htail
        apply allDec_mono c o _ _ _ hd
        intro q hq
        simp only [pktSyms, List.cons_append, List.mem_cons, List.mem_append] at hq ⊢
        rcases hq with rfl | hq | hq
        · exact Or.inr (Or.inl rfl)
        · exact Or.inl hq
        · exact Or.inr (Or.inr hq)

/-- **Stream-level core of C02 / C16.**  The receiver is fed `ps1 ++ ps2` - ANY list of packets of the
    session.  If by the end of `ps1` an FDT instance `f` has been received whole (decodable symbols of
    each of its blocks, counted over all its copies), every instance of the session lists the object
    (FullFDT), no close-object packet of the object is in `ps1`, the object's packets are genuine,
    its close-object packets are trailing copies of one packet, and every block of the object has
    decodable symbols in `ps1 ++ ps2`, then the object writer gets `complete`. -/
theorem stream_core (cF cO : Codec) (rc : RxCfg) (s : SessCfg) (o : ObjCfg)
    (hto : o.toi ≠ 0) (hN : o.ks.isEmpty = false) (hfit : Fits rc o)
    (hall : ∀ f, f ∈ s.fdts → f.files.contains o.toi = true)
    (f : FdtCfg) (hfind : s.fdts.find? (fun x => x.id == f.id) = some f)
    (hfN : f.ks.isEmpty = false) (hflook : f.ks.size ≤ rc.maxLook)
    (hfresh : blockDone cF.canDecode f.ks s.fdtP [] 0 = false)
    (ps1 ps2 : List Pkt)
    (hgenF : ∀ p, p ∈ ps1 → p.toi = 0 → p.fdtId = f.id → Genuine (fdtObj s f) (toSym p) ∧ p.close = false)
    (hwhole : AllDec cF (fdtObj s f) (fsyms f.id ps1))
    (hnoclose : ∀ q, q ∈ osyms o ps1 → q.close = false)
    (hgenO : ∀ q, q ∈ osyms o (ps1 ++ ps2) → Genuine o q)
    (hlast : CloseLastSyms (osyms o (ps1 ++ ps2)))
    (hdec : AllDec cO o (osyms o (ps1 ++ ps2)))
    (hsome : osyms o (ps1 ++ ps2) ≠ []) :
    1 ≤ (observe cF.canDecode cO.canDecode rc s o (ps1 ++ ps2)).completes := by
  unfold observe
  rw [eventsFor_append]
  -- the FDT instance completes within ps1
  have hev := fdt_whole_completes cF rc s o f hfind hfN hflook hfresh ps1 hgenF hwhole
  have hfl : f.files.contains o.toi = true := hall f (List.mem_of_find?_eq_some hfind)
  rw [hfl] at hev
  obtain ⟨a, b, hab⟩ := List.append_of_mem hev
  generalize hE2 : eventsFor cF.canDecode rc s o (fdtState cF.canDecode rc s fdtRx0 ps1) ps2 = E2
  rw [hab, List.append_assoc, List.cons_append]
  -- the packet events are the object's packets
  have hp1 : pktSyms (a ++ Ev.fdt true :: b) = osyms o ps1 := by
    rw [← hab]; exact events_packets cF.canDecode rc s o hto ps1 _
  have hp2 : pktSyms E2 = osyms o ps2 := by
    rw [← hE2]; exact events_packets cF.canDecode rc s o hto ps2 _
  have hpall : pktSyms (a ++ Ev.fdt true :: (b ++ E2)) = osyms o (ps1 ++ ps2) := by
    have : a ++ Ev.fdt true :: (b ++ E2) = (a ++ Ev.fdt true :: b) ++ E2 := by simp
    rw [this, pktSyms_append, hp1, hp2, osyms_append]
  have hpa : ∀ q, Ev.pkt q ∈ a → q ∈ osyms o ps1 := by
    intro q hq
    rw [← hp1, mem_pktSyms]
    exact List.mem_append_left _ hq
  have htrue : ∀ l, Ev.fdt l ∈ b ++ E2 → l = true := by
    intro l hl
    rcases List.mem_append.mp hl with h | h
    · exact events_all_true cF.canDecode rc s o hall ps1 fdtRx0 l (by rw [hab]; simp [h])
    · rw [← hE2] at h; exact events_all_true cF.canDecode rc s o hall ps2 _ l h
  apply recoverable_core cO rc o hN hfit a (b ++ E2)
  · intro q hq
    apply hgenO
    rw [← hpall, mem_pktSyms]; exact hq
  · intro q hq; exact hnoclose q (hpa q hq)
  · -- attachment
    by_cases hpk : ∃ q, Ev.pkt q ∈ a
    · exact Or.inl hpk
    · right
      obtain ⟨fs, rest, h1, h2, h3⟩ := lead_fdts (b ++ E2)
      refine ⟨fs, rest, h1, h2, Or.inr ?_, ?_⟩
      · intro e he
        obtain ⟨l, rfl⟩ := h2 e he
        rw [htrue l (by rw [h1]; exact List.mem_append_left _ he)]
      · rcases h3 with h3 | h3
        · exfalso
          apply hsome
          rw [← hpall]
          have ha : pktSyms a = [] := by
            cases hx : pktSyms a with
            | nil => rfl
            | cons q _ =>
              exact absurd ⟨q, mem_pktSyms.mp (by rw [hx]; exact List.mem_cons_self ..)⟩ hpk
          rw [pktSyms_append, ha]
          simp only [pktSyms, List.nil_append]
          rw [h1, h3, List.append_nil]
          exact pktSyms_fdts fs h2
        · exact h3
  · apply closeOK_of_lastSyms cO o
    · -- the packets after the FDT completion are a suffix of the object's packets
      intro x q y hxy hq r hr
      have : osyms o (ps1 ++ ps2) = (pktSyms a ++ x) ++ q :: y := by
        rw [← hpall, pktSyms_append]
        simp only [pktSyms]
        rw [hxy]; simp
      exact hlast _ q y this hq r hr
    · apply allDec_mono cO o _ _ _ hdec
      intro q hq
      rw [← hpall, pktSyms_append] at hq
      simp only [pktSyms, List.mem_append, List.mem_reverse] at hq ⊢
      rcases hq with h | h
      · exact Or.inr h
      · exact Or.inl h
  · rw [hpall]; exact hdec

/-- number of FDT completions among the events -/
def fdtCount : List Ev → Nat
  | [] => 0
  | .fdt _ :: es => fdtCount es + 1
  | .pkt _ :: es => fdtCount es

theorem fdtCount_append (a b : List Ev) : fdtCount (a ++ b) = fdtCount a + fdtCount b := by
  induction a with
  | nil => simp [fdtCount]
  | cons e es ih => cases e <;> simp [fdtCount, ih] <;> omega

theorem fdtCount_fdts : ∀ (fs : List Ev), (∀ e, e ∈ fs → ∃ l, e = Ev.fdt l) → fdtCount fs = fs.length := by
  intro fs
  induction fs with
  | nil => intro _; rfl
  | cons e es ih =>
    intro h
    obtain ⟨l, rfl⟩ := h e (List.mem_cons_self ..)
    simp [fdtCount, ih (fun e he => h e (List.mem_cons_of_mem _ he))]

/-- the driver's `fdt=<n>` observable counts exactly these events -/
theorem fdtCount_eventsFor (dec : (k p : Nat) → List Nat → Bool) (rc : RxCfg) (s : SessCfg) (o : ObjCfg) (hto : o.toi ≠ 0) :
    ∀ (ps : List Pkt) (st : FdtRx), fdtCount (eventsFor dec rc s o st ps) = countFdt dec rc s st ps := by
  intro ps
  induction ps with
  | nil => intro st; rfl
  | cons p ps ih =>
    intro st
    unfold eventsFor countFdt
    by_cases h0 : (p.toi == 0) = true
    · simp only [h0, ↓reduceIte]
      cases hd : (stepFdt dec rc s st p).2 with
      | none => simp [hd, ih]
      | some f => simp [hd, fdtCount, ih]; omega
    · have h0' : (p.toi == 0) = false := by simpa using h0
      simp only [h0', Bool.false_eq_true, ↓reduceIte]
      split
      · simp [fdtCount, ih]
      · exact ih st

/-- `stream_core` without the FullFDT hypothesis (ObjectsBeingTransferred, objects added after a publish): the
    instance `f` received whole lists the object (`hlist`), other instances may or may not; at most 9 FDT instances
    complete in the whole reception (`hfew`; the receiver remembers the last 10, `fdt_current`), so the listing
    instance is still known when the object's next packet arrives. -/
theorem stream_core_few (cF cO : Codec) (rc : RxCfg) (s : SessCfg) (o : ObjCfg)
    (hto : o.toi ≠ 0) (hN : o.ks.isEmpty = false) (hfit : Fits rc o)
    (f : FdtCfg) (hlist : f.files.contains o.toi = true) (hfind : s.fdts.find? (fun x => x.id == f.id) = some f)
    (hfN : f.ks.isEmpty = false) (hflook : f.ks.size ≤ rc.maxLook)
    (hfresh : blockDone cF.canDecode f.ks s.fdtP [] 0 = false)
    (ps1 ps2 : List Pkt)
    (hgenF : ∀ p, p ∈ ps1 → p.toi = 0 → p.fdtId = f.id → Genuine (fdtObj s f) (toSym p) ∧ p.close = false)
    (hwhole : AllDec cF (fdtObj s f) (fsyms f.id ps1))
    (hnoclose : ∀ q, q ∈ osyms o ps1 → q.close = false)
    (hgenO : ∀ q, q ∈ osyms o (ps1 ++ ps2) → Genuine o q)
    (hlast : CloseLastSyms (osyms o (ps1 ++ ps2)))
    (hdec : AllDec cO o (osyms o (ps1 ++ ps2)))
    (hsome : osyms o (ps1 ++ ps2) ≠ [])
    (hfew : fdtCount (eventsFor cF.canDecode rc s o fdtRx0 (ps1 ++ ps2)) ≤ 9) :
    1 ≤ (observe cF.canDecode cO.canDecode rc s o (ps1 ++ ps2)).completes := by
  unfold observe
  rw [eventsFor_append] at hfew ⊢
  -- the FDT instance completes within ps1
  have hev := fdt_whole_completes cF rc s o f hfind hfN hflook hfresh ps1 hgenF hwhole
  have hfl : f.files.contains o.toi = true := hlist
  rw [hfl] at hev
  obtain ⟨a, b, hab⟩ := List.append_of_mem hev
  generalize hE2 : eventsFor cF.canDecode rc s o (fdtState cF.canDecode rc s fdtRx0 ps1) ps2 = E2
  rw [hE2, hab, List.append_assoc, List.cons_append] at hfew
  rw [hab, List.append_assoc, List.cons_append]
  -- the packet events are the object's packets
  have hp1 : pktSyms (a ++ Ev.fdt true :: b) = osyms o ps1 := by
    rw [← hab]; exact events_packets cF.canDecode rc s o hto ps1 _
  have hp2 : pktSyms E2 = osyms o ps2 := by
    rw [← hE2]; exact events_packets cF.canDecode rc s o hto ps2 _
  have hpall : pktSyms (a ++ Ev.fdt true :: (b ++ E2)) = osyms o (ps1 ++ ps2) := by
    have : a ++ Ev.fdt true :: (b ++ E2) = (a ++ Ev.fdt true :: b) ++ E2 := by simp
    rw [this, pktSyms_append, hp1, hp2, osyms_append]
  have hpa : ∀ q, Ev.pkt q ∈ a → q ∈ osyms o ps1 := by
    intro q hq
    rw [← hp1, mem_pktSyms]
    exact List.mem_append_left _ hq
  apply recoverable_core cO rc o hN hfit a (b ++ E2)
  · intro q hq
    apply hgenO
    rw [← hpall, mem_pktSyms]; exact hq
  · intro q hq; exact hnoclose q (hpa q hq)
  · -- attachment
    by_cases hpk : ∃ q, Ev.pkt q ∈ a
    · exact Or.inl hpk
    · right
      obtain ⟨fs, rest, h1, h2, h3⟩ := lead_fdts (b ++ E2)
      refine ⟨fs, rest, h1, h2, Or.inl ?_, ?_⟩
      · -- fewer than 10 FDT instances complete in the whole reception
        have hc1 : fdtCount (a ++ Ev.fdt true :: (b ++ E2)) = fdtCount a + 1 + fdtCount (b ++ E2) := by
          rw [fdtCount_append]; simp [fdtCount]; omega
        have hc2 : fdtCount (b ++ E2) = fdtCount fs + fdtCount rest := by rw [h1, fdtCount_append]
        have hc3 : fdtCount fs = fs.length := fdtCount_fdts fs h2
        omega
      · rcases h3 with h3 | h3
        · exfalso
          apply hsome
          rw [← hpall]
          have ha : pktSyms a = [] := by
            cases hx : pktSyms a with
            | nil => rfl
            | cons q _ =>
              exact absurd ⟨q, mem_pktSyms.mp (by rw [hx]; exact List.mem_cons_self ..)⟩ hpk
          rw [pktSyms_append, ha]
          simp only [pktSyms, List.nil_append]
          rw [h1, h3, List.append_nil]
          exact pktSyms_fdts fs h2
        · exact h3
  · apply closeOK_of_lastSyms cO o
    · -- the packets after the FDT completion are a suffix of the object's packets
      intro x q y hxy hq r hr
      have : osyms o (ps1 ++ ps2) = (pktSyms a ++ x) ++ q :: y := by
        rw [← hpall, pktSyms_append]
        simp only [pktSyms]
        rw [hxy]; simp
      exact hlast _ q y this hq r hr
    · apply allDec_mono cO o _ _ _ hdec
      intro q hq
      rw [← hpall, pktSyms_append] at hq
      simp only [pktSyms, List.mem_append, List.mem_reverse] at hq ⊢
      rcases hq with h | h
      · exact Or.inr h
      · exact Or.inl h
  · rw [hpall]; exact hdec

/-- the empty object (no block): delivered by its first packet after an FDT instance listing it has been
    received whole - whatever arrived before (D14 repaired) -/
theorem stream_core_empty (cF cO : Codec) (rc : RxCfg) (s : SessCfg) (o : ObjCfg)
    (hto : o.toi ≠ 0) (hE : o.ks.isEmpty = true)
    (hall : ∀ f, f ∈ s.fdts → f.files.contains o.toi = true)
    (f : FdtCfg) (hfind : s.fdts.find? (fun x => x.id == f.id) = some f)
    (hfN : f.ks.isEmpty = false) (hflook : f.ks.size ≤ rc.maxLook)
    (hfresh : blockDone cF.canDecode f.ks s.fdtP [] 0 = false)
    (ps1 ps2 : List Pkt)
    (hgenF : ∀ p, p ∈ ps1 → p.toi = 0 → p.fdtId = f.id → Genuine (fdtObj s f) (toSym p) ∧ p.close = false)
    (hwhole : AllDec cF (fdtObj s f) (fsyms f.id ps1))
    (hsome : osyms o ps2 ≠ []) :
    1 ≤ (observe cF.canDecode cO.canDecode rc s o (ps1 ++ ps2)).completes := by
  unfold observe
  rw [eventsFor_append]
  have hev := fdt_whole_completes cF rc s o f hfind hfN hflook hfresh ps1 hgenF hwhole
  have hfl : f.files.contains o.toi = true := hall f (List.mem_of_find?_eq_some hfind)
  rw [hfl] at hev
  obtain ⟨a, b, hab⟩ := List.append_of_mem hev
  generalize hE2 : eventsFor cF.canDecode rc s o (fdtState cF.canDecode rc s fdtRx0 ps1) ps2 = E2
  rw [hab, List.append_assoc, List.cons_append]
  have hp2 : pktSyms E2 = osyms o ps2 := by
    rw [← hE2]; exact events_packets cF.canDecode rc s o hto ps2 _
  have htrue : ∀ l, Ev.fdt l ∈ b ++ E2 → l = true := by
    intro l hl
    rcases List.mem_append.mp hl with h | h
    · exact events_all_true cF.canDecode rc s o hall ps1 fdtRx0 l (by rw [hab]; simp [h])
    · rw [← hE2] at h; exact events_all_true cF.canDecode rc s o hall ps2 _ l h
  obtain ⟨fs, rest, h1, h2, h3⟩ := lead_fdts (b ++ E2)
  rcases h3 with h3 | ⟨q, r, h3⟩
  · exfalso
    apply hsome
    rw [← hp2]
    have : pktSyms (b ++ E2) = [] := by rw [h1, h3, List.append_nil]; exact pktSyms_fdts fs h2
    rw [pktSyms_append] at this
    exact (List.append_eq_nil_iff.mp this).2
  · rw [h1, h3]
    apply empty_delivered cO rc o hE a fs r q h2
    right
    intro e he
    obtain ⟨l, rfl⟩ := h2 e he
    rw [htrue l (by rw [h1]; exact List.mem_append_left _ he)]

/-! ### sub-multisets of the emitted stream -/

theorem mem_applyMults : ∀ (ps : List Pkt) (ms : List Nat) (p : Pkt), p ∈ applyMults ps ms → p ∈ ps := by
  intro ps
  induction ps with
  | nil => intro ms p h; cases ms <;> simp [applyMults] at h
  | cons x xs ih =>
    intro ms p h
    cases ms with
    | nil => simp [applyMults] at h
    | cons m ms =>
      simp only [applyMults, List.mem_append, List.mem_replicate] at h
      rcases h with h | h
      · rw [h.2]; exact List.mem_cons_self ..
      · exact List.mem_cons_of_mem _ (ih ms p h)

/-- recursive form of `CloseLastSyms` -/
def CL : List Sym → Prop
  | [] => True
  | q :: t => (q.close = true → ∀ r, r ∈ t → r = q) ∧ CL t

theorem closeLast_of_CL : ∀ (T : List Sym), CL T → CloseLastSyms T := by
  intro T
  induction T with
  | nil => intro _ a q b h; simp at h
  | cons x t ih =>
    intro h a q b hab hq r hr
    cases a with
    | nil =>
      simp only [List.nil_append, List.cons.injEq] at hab
      obtain ⟨rfl, rfl⟩ := hab
      exact h.1 hq r hr
    | cons y a' =>
      simp only [List.cons_append, List.cons.injEq] at hab
      exact ih h.2 a' q b hab.2 hq r hr

theorem CL_replicate (q : Sym) (E : List Sym) (hE : q.close = true → E = []) (hcl : CL E) :
    ∀ m, CL (List.replicate m q ++ E) := by
  intro m
  induction m with
  | zero => simpa using hcl
  | succ n ih =>
    simp only [List.replicate_succ, List.cons_append, CL]
    refine ⟨?_, ih⟩
    intro hq r hr
    rw [hE hq, List.append_nil] at hr
    exact (List.mem_replicate.mp hr).2

/-- loss and duplication (order preserved) keep "close-object only on trailing copies of one packet" -/
theorem closeLast_applyMults (o : ObjCfg) : ∀ (ps : List Pkt) (ms : List Nat),
    OnlyLast (osyms o ps) → CL (osyms o (applyMults ps ms)) := by
  intro ps
  induction ps with
  | nil => intro ms _; cases ms <;> simp [applyMults, osyms, CL]
  | cons p ps ih =>
    intro ms h
    cases ms with
    | nil => simp [applyMults, osyms, CL]
    | cons m ms =>
      simp only [applyMults, osyms_append]
      by_cases ht : (p.toi == o.toi) = true
      · have e1 : osyms o (List.replicate m p) = List.replicate m (toSym p) := by
          simp [osyms, List.filter_replicate, ht]
        have e2 : osyms o (p :: ps) = toSym p :: osyms o ps := by simp [osyms, List.filter_cons, ht]
        rw [e2] at h
        rw [e1]
        apply CL_replicate _ _ _ (ih ms h.2)
        intro hq
        have : osyms o ps = [] := h.1 hq
        -- nothing of the object is left in the stream, hence in what arrives of it
        cases hx : osyms o (applyMults ps ms) with
        | nil => rfl
        | cons y _ =>
          exfalso
          have hy : y ∈ osyms o (applyMults ps ms) := by rw [hx]; exact List.mem_cons_self ..
          obtain ⟨pk, hpk, htoi, _⟩ := mem_osyms.mp hy
          have : toSym pk ∈ osyms o ps := mem_osyms.mpr ⟨pk, mem_applyMults ps ms pk hpk, htoi, rfl⟩
          rw [‹osyms o ps = []›] at this; simp at this
      · have hf : (p.toi == o.toi) = false := by simpa using ht
        have e1 : osyms o (List.replicate m p) = [] := by
          simp [osyms, List.filter_replicate, hf]
        have e2 : osyms o (p :: ps) = osyms o ps := by simp [osyms, List.filter_cons, hf]
        rw [e2] at h
        rw [e1, List.nil_append]
        exact ih ms h

end Flute.Lemmas.Session
