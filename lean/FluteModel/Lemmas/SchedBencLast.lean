import FluteModel.Lemmas.SessionEmit
/-
  "The last packet of a closable transfer carries B", on the symbol-level emission model `Session.emitLoop`
  (the listing that `Lemmas/BencSessionBridge.lean` proves equal to the `BlockEnc` transfer).  The existing facts
  (`emitTransfer_facts`) give "B ONLY on the last packet"; the converse needs the exact symbol accounting `SI.acct`
  (`srcSent + R win = prefixSrc ks next`): when nothing more is emitted the window is drained and every block was
  loaded, so every source symbol has been counted and the B-flag test of the last packet succeeds.
  Used by `Lemmas/SchedBenc.lean` to discharge the premise `LastB` of the scheduler's transfer contract.
-/
namespace Flute.SchedBencLast
open Flute.Session Flute.Lemmas.Session

/-- nothing is emitted from here on ⇒ the window is drained and every block has been loaded -/
theorem emit_nil (e : Enc) (he : EncOK e) : ∀ (fuel : Nat) (st : EncSt), SI e st →
    emitLoop e (totalSrc e.ks) fuel st = some [] →
    (∀ blk, blk ∈ st.win → blk.rest = []) ∧ st.next = e.ks.size := by
  intro fuel
  induction fuel with
  | zero => intro st _ h; simp [emitLoop] at h
  | succ n ih =>
    intro st hSI h
    unfold emitLoop at h
    obtain ⟨i1, i2, i3, i4, i5, ⟨extra, i6, i7⟩, i8⟩ := readWindow_spec e he (e.w + 1) st hSI
    have hfull := readWindow_full e (e.w + 1) st (by omega)
    generalize hst1 : readWindow e (e.w + 1) st = st1 at h i1 i2 i3 i4 i5 i6 i7 i8 hfull
    dsimp only at h
    -- a drained window after `read_window` ⇒ `read_window` loaded nothing
    have hnext : (∀ blk, blk ∈ st1.win → blk.rest = []) → st1.next ≤ st.next := by
      intro hd
      apply Classical.byContradiction
      intro hlt
      have hb : st.next < st1.next := by omega
      have hsz := i1.next_le
      have hlt2 : st.next < e.ks.size := by omega
      obtain ⟨blk, hb1, _, _, hr⟩ := i8 st.next _ (Nat.le_refl _) hb (Array.getElem?_eq_getElem hlt2)
      have h0 := hd blk hb1
      rw [hr] at h0
      have h1 := (he.blocks _ _ (Array.getElem?_eq_getElem hlt2)).1
      have h2 := le_shardsOf e.scheme e.ks[st.next] e.p
      have : (List.range' 0 (shardsOf e.scheme e.ks[st.next] e.p)).length = 0 := by rw [h0]; rfl
      simp at this; omega
    have hsub : ∀ blk, blk ∈ st.win → blk ∈ st1.win := fun blk hb => by rw [i6]; exact List.mem_append_left _ hb
    by_cases hemp : st1.win.isEmpty = true
    · have hwin : st1.win = [] := List.isEmpty_iff.mp hemp
      have hre : st1.next = e.ks.size := by
        rcases hfull with h1 | h1
        · exact i1.readEnd h1
        · rw [hwin] at h1; simp at h1; have := he.w; omega
      have hall : ∀ blk, blk ∈ st1.win → blk.rest = [] := by intro blk hb; rw [hwin] at hb; cases hb
      refine ⟨fun blk hb => hall blk (hsub blk hb), ?_⟩
      have := hnext hall
      omega
    · simp only [hemp, Bool.false_eq_true, ↓reduceIte] at h
      have hlen : 0 < st1.win.length := by
        rcases hw : st1.win with _ | ⟨a, t⟩
        · rw [hw] at hemp; simp at hemp
        · simp
      generalize hidx : (if st1.idx ≥ st1.win.length then 0 else st1.idx) = idx at h
      have hidxlt : idx < st1.win.length := by rw [← hidx]; split <;> omega
      cases hb : st1.win[idx]? with
      | none => rw [List.getElem?_eq_none_iff] at hb; omega
      | some blk =>
        simp only [hb] at h
        cases hrest : blk.rest with
        | nil =>
          simp only [hrest] at h
          have hSI2 := SI_erase e he st1 idx idx blk i1 hb hrest
          obtain ⟨q1, q2⟩ := ih _ hSI2 h
          have hall : ∀ b, b ∈ st1.win → b.rest = [] := by
            intro b hb'
            by_cases heq : b = blk
            · rw [heq]; exact hrest
            · exact q1 b (mem_eraseIdx_of_ne st1.win idx b blk hb' hb heq)
          refine ⟨fun b hb' => hall b (hsub b hb'), ?_⟩
          have := hnext hall
          have q2' : st1.next = e.ks.size := q2
          omega
        | cons esi rest =>
          simp only [hrest] at h
          cases hT' : emitLoop e (totalSrc e.ks) n
              { st1 with win := st1.win.set idx { blk with rest := rest }, idx := idx + 1,
                         srcSent := if esi < blk.k then st1.srcSent + 1 else st1.srcSent, sent := st1.sent + 1 } with
          | none => rw [hT'] at h; simp at h
          | some T' => rw [hT'] at h; simp at h

/-- **the last packet of a closable transfer carries B** (from any reachable state of the emission loop) -/
theorem emit_last_close (e : Enc) (he : EncOK e) (hc : e.closable = true) : ∀ (fuel : Nat) (st : EncSt) (T : List Sym),
    SI e st → emitLoop e (totalSrc e.ks) fuel st = some T → ∀ x, T.getLast? = some x → x.close = true := by
  intro fuel
  induction fuel with
  | zero => intro st T _ h; simp [emitLoop] at h
  | succ n ih =>
    intro st T hSI h x hx
    unfold emitLoop at h
    obtain ⟨i1, i2, i3, i4, i5, ⟨extra, i6, i7⟩, i8⟩ := readWindow_spec e he (e.w + 1) st hSI
    generalize hst1 : readWindow e (e.w + 1) st = st1 at h i1 i2 i3 i4 i5 i6 i7 i8
    dsimp only at h
    by_cases hemp : st1.win.isEmpty = true
    · simp only [hemp, ↓reduceIte] at h
      split at h
      · simp only [Option.some.injEq] at h
        subst h
        simp only [List.getLast?_singleton, Option.some.injEq] at hx
        subst hx; rfl
      · simp only [Option.some.injEq] at h
        subst h
        simp at hx
    · simp only [hemp, Bool.false_eq_true, ↓reduceIte] at h
      have hlen : 0 < st1.win.length := by
        rcases hw : st1.win with _ | ⟨a, t⟩
        · rw [hw] at hemp; simp at hemp
        · simp
      generalize hidx : (if st1.idx ≥ st1.win.length then 0 else st1.idx) = idx at h
      have hidxlt : idx < st1.win.length := by rw [← hidx]; split <;> omega
      have hidx0 : st1.sent = 0 → idx = 0 := by
        intro hs
        have := (i1.fresh hs).1
        rw [← hidx, this]; simp
      cases hb : st1.win[idx]? with
      | none => rw [List.getElem?_eq_none_iff] at hb; omega
      | some blk =>
        simp only [hb] at h
        cases hrest : blk.rest with
        | nil =>
          simp only [hrest] at h
          exact ih _ T (SI_erase e he st1 idx idx blk i1 hb hrest) h x hx
        | cons esi rest =>
          simp only [hrest] at h
          obtain ⟨hSI2, _, _, _⟩ := SI_emit e st1 idx blk esi rest i1 hb hrest hidx0
          cases hT' : emitLoop e (totalSrc e.ks) n
              { st1 with win := st1.win.set idx { blk with rest := rest }, idx := idx + 1,
                         srcSent := if esi < blk.k then st1.srcSent + 1 else st1.srcSent, sent := st1.sent + 1 } with
          | none => rw [hT'] at h; simp at h
          | some T' =>
            rw [hT'] at h
            simp only [Option.map_some, Option.some.injEq] at h
            subst h
            cases T' with
            | cons y T'' =>
              rw [List.getLast?_cons_cons] at hx
              exact ih _ (y :: T'') hSI2 hT' x hx
            | nil =>
              simp only [List.getLast?_singleton, Option.some.injEq] at hx
              subst hx
              obtain ⟨hdr, hnx⟩ := emit_nil e he n _ hSI2 hT'
              have hdr' : ∀ b, b ∈ st1.win.set idx { blk with rest := rest } → b.rest = [] := hdr
              have hnx' : st1.next = e.ks.size := hnx
              have hR := R_zero_of_drained _ hdr'
              have hacct := hSI2.acct
              simp only [hR, Nat.add_zero, hnx'] at hacct
              have hrest0 : rest = [] := hdr' _ (mem_set_self _ _ _ _ hb)
              have hall : (st1.win.set idx { blk with rest := rest }).all (fun b => b.rest.isEmpty) = true := by
                rw [List.all_eq_true]
                intro b hb'
                rw [hdr' b hb']; rfl
              have hsrc : (if esi < blk.k then st1.srcSent + 1 else st1.srcSent) ≥ totalSrc e.ks := by
                unfold totalSrc; omega
              simp only [hc, Bool.true_and, Bool.and_eq_true, decide_eq_true_eq]
              exact ⟨⟨hsrc, by rw [hrest0]; rfl⟩, hall⟩

/-- the complete listing of a closable transfer ends with a packet carrying B -/
theorem emitTransfer_last_close (e : Enc) (he : EncOK e) (hc : e.closable = true) (T : List Sym)
    (h : emitTransfer e = some T) : ∀ x, T.getLast? = some x → x.close = true := by
  unfold emitTransfer at h
  exact emit_last_close e he hc _ _ T (SI_init e) h

end Flute.SchedBencLast
