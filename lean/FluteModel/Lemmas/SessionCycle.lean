import FluteModel.Lemmas.SessionCache
import FluteModel.Lemmas.SessionLife
/-
  Carousel cycles (C16): what `Session.cycleEnd` - the function the driver and the engine use as the
  deadline "two further full cycles" - guarantees about the packets between a join offset and that deadline.
-/
namespace Flute.Lemmas.Session
open Flute.Session

/-! ### `cycleScan` -/

/-- a transfer has begun: the scan stops at the source's next (0,0) packet `p1`; all packets of the source
    before `p1` lie below the returned index -/
theorem cycleScan_some (sel : Pkt → Bool) : ∀ (ps : List Pkt) (pos e0 e : Nat), e0 ≤ pos →
    cycleScan sel ps pos (some e0) = some e →
    ∃ M p1 R, ps = M ++ p1 :: R ∧ sel p1 = true ∧ p1.isStart = true ∧
      (∀ q, q ∈ M → sel q = true → q.isStart = false) ∧
      e0 ≤ e ∧ e ≤ pos + M.length ∧ (M.take (e - pos)).filter sel = M.filter sel := by
  intro ps
  induction ps with
  | nil => intro pos e0 e _ h; simp [cycleScan] at h
  | cons p ps ih =>
    intro pos e0 e h0 h
    unfold cycleScan at h
    by_cases hs : sel p = true
    · simp only [hs, ↓reduceIte] at h
      by_cases hst : p.isStart = true
      · simp only [hst, ↓reduceIte, Option.some.injEq] at h
        subst h
        refine ⟨[], p, ps, rfl, hs, hst, by intro q hq; simp at hq, Nat.le_refl _, by simpa using h0, by simp⟩
      · have hst' : p.isStart = false := by simpa using hst
        simp only [hst', Bool.false_eq_true, ↓reduceIte] at h
        obtain ⟨M, p1, R, hps, h1, h2, h3, h4, h5, h6⟩ := ih (pos + 1) (pos + 1) e (Nat.le_refl _) h
        refine ⟨p :: M, p1, R, by rw [hps]; rfl, h1, h2, ?_, by omega, by simp only [List.length_cons]; omega, ?_⟩
        · intro q hq hq2
          rcases List.mem_cons.mp hq with rfl | hq
          · exact hst'
          · exact h3 q hq hq2
        · have : e - pos = (e - (pos + 1)) + 1 := by omega
          rw [this, List.take_succ_cons, List.filter_cons, List.filter_cons, hs]
          simp only [↓reduceIte]
          rw [h6]
    · have hs' : sel p = false := by simpa using hs
      simp only [hs', Bool.false_eq_true, ↓reduceIte] at h
      obtain ⟨M, p1, R, hps, h1, h2, h3, h4, h5, h6⟩ := ih (pos + 1) e0 e (by omega) h
      refine ⟨p :: M, p1, R, by rw [hps]; rfl, h1, h2, ?_, h4, by simp only [List.length_cons]; omega, ?_⟩
      · intro q hq hq2
        rcases List.mem_cons.mp hq with rfl | hq
        · rw [hs'] at hq2; exact absurd hq2 (by simp)
        · exact h3 q hq hq2
      · by_cases hle : e ≤ pos
        · have e1 : e - pos = 0 := by omega
          have e2 : e - (pos + 1) = 0 := by omega
          rw [e2] at h6
          rw [e1, List.filter_cons, hs']
          simp only [List.take_zero, List.filter_nil, Bool.false_eq_true, ↓reduceIte] at h6 ⊢
          exact h6
        · have : e - pos = (e - (pos + 1)) + 1 := by omega
          rw [this, List.take_succ_cons, List.filter_cons, List.filter_cons, hs']
          simp only [Bool.false_eq_true, ↓reduceIte]
          exact h6

/-- the whole scan: `ps = A ++ p0 :: M ++ p1 :: R` with `p0`, `p1` two consecutive transfer starts of the
    source, and every packet of the source in `p0 :: M` - one complete transfer - lies below the returned index -/
theorem cycleScan_none (sel : Pkt → Bool) : ∀ (ps : List Pkt) (pos e : Nat),
    cycleScan sel ps pos none = some e →
    ∃ A p0 M p1 R, ps = A ++ p0 :: (M ++ p1 :: R) ∧ sel p0 = true ∧ p0.isStart = true ∧
      sel p1 = true ∧ p1.isStart = true ∧ (∀ q, q ∈ M → sel q = true → q.isStart = false) ∧
      pos + A.length + 1 ≤ e ∧ e ≤ pos + A.length + 1 + M.length ∧
      (M.take (e - (pos + A.length + 1))).filter sel = M.filter sel := by
  intro ps
  induction ps with
  | nil => intro pos e h; simp [cycleScan] at h
  | cons p ps ih =>
    intro pos e h
    unfold cycleScan at h
    by_cases hc : (sel p && p.isStart) = true
    · simp only [hc, ↓reduceIte] at h
      obtain ⟨M, p1, R, hps, h1, h2, h3, h4, h5, h6⟩ := cycleScan_some sel ps (pos + 1) (pos + 1) e (Nat.le_refl _) h
      have hc' := Bool.and_eq_true_iff.mp hc
      refine ⟨[], p, M, p1, R, by rw [hps]; rfl, hc'.1, hc'.2, h1, h2, h3, by simpa using h4, by simpa using h5, by simpa using h6⟩
    · have hc' : (sel p && p.isStart) = false := by simpa using hc
      simp only [hc', Bool.false_eq_true, ↓reduceIte] at h
      obtain ⟨A, p0, M, p1, R, hps, h1, h2, h3, h4, h5, h6, h7, h8⟩ := ih (pos + 1) e h
      refine ⟨p :: A, p0, M, p1, R, by rw [hps]; rfl, h1, h2, h3, h4, h5, by simp only [List.length_cons]; omega,
        by simp only [List.length_cons]; omega, ?_⟩
      have : pos + (p :: A).length + 1 = pos + 1 + A.length + 1 := by simp only [List.length_cons]; omega
      rw [this]; exact h8

/-- consequence used below: the packets of the source in the complete transfer `p0 :: M` are among the first
    `e - pos` packets -/
theorem cycleScan_mem (sel : Pkt → Bool) (ps : List Pkt) (pos e : Nat) (h : cycleScan sel ps pos none = some e) :
    ∃ A p0 M p1 R, ps = A ++ p0 :: (M ++ p1 :: R) ∧ sel p0 = true ∧ p0.isStart = true ∧
      sel p1 = true ∧ p1.isStart = true ∧ (∀ q, q ∈ M → sel q = true → q.isStart = false) ∧
      pos < e ∧ ∀ q, q ∈ (p0 :: M).filter sel → q ∈ ps.take (e - pos) := by
  obtain ⟨A, p0, M, p1, R, hps, h1, h2, h3, h4, h5, h6, h7, h8⟩ := cycleScan_none sel ps pos e h
  refine ⟨A, p0, M, p1, R, hps, h1, h2, h3, h4, h5, by omega, ?_⟩
  intro q hq
  have hk : e - pos = A.length + (1 + (e - (pos + A.length + 1))) := by omega
  rw [hps, hk, List.take_append, List.take_of_length_le (Nat.le_add_right _ _)]
  simp only [Nat.add_sub_cancel_left, List.take_succ_cons, Nat.add_comm 1, List.mem_append, List.mem_cons]
  right
  rw [List.filter_cons, h1] at hq
  simp only [↓reduceIte, List.mem_cons] at hq
  rcases hq with rfl | hq
  · left; rfl
  · right
    rw [← h8] at hq
    have := (List.mem_filter.mp hq).1
    rw [List.take_append]
    exact List.mem_append_left _ this

/-! ### `cycleEnd` -/

theorem cycleEnd_fold (stream : List Pkt) (i : Nat) : ∀ (tois : List Nat) (acc : Option Nat) (d : Nat),
    tois.foldl (fun acc t =>
      match acc, cycleScan (fun p => p.toi == t) (stream.drop i) i none with
      | some e, some e' => some (max e e')
      | _, _ => none) acc = some d →
    ∃ a, acc = some a ∧ a ≤ d ∧
      ∀ t, t ∈ tois → ∃ e, cycleScan (fun p => p.toi == t) (stream.drop i) i none = some e ∧ e ≤ d := by
  intro tois
  induction tois with
  | nil => intro acc d h; simp only [List.foldl_nil] at h; exact ⟨d, h, Nat.le_refl _, by intro t ht; simp at ht⟩
  | cons t ts ih =>
    intro acc d h
    simp only [List.foldl_cons] at h
    obtain ⟨a', ha', hle, hrest⟩ := ih _ d h
    cases acc with
    | none => simp at ha'
    | some a =>
      cases hsc : cycleScan (fun p => p.toi == t) (stream.drop i) i none with
      | none => simp [hsc] at ha'
      | some e' =>
        simp only [hsc, Option.some.injEq] at ha'
        refine ⟨a, rfl, by omega, ?_⟩
        intro t' ht'
        rcases List.mem_cons.mp ht' with rfl | ht'
        · exact ⟨e', hsc, by omega⟩
        · exact hrest t' ht'

/-- **What a full cycle contains.**  `cycleEnd tois stream i = some d`: `i ≤ d`, and for every source `t` of
    `tois` the window `(stream.drop i).take (d - i)` contains every packet of one complete transfer of `t` -
    the packets of `t` from one of its (0,0) packets up to its next (0,0) packet. -/
theorem cycleEnd_spec (tois : List Nat) (stream : List Pkt) (i d : Nat) (h : cycleEnd tois stream i = some d) :
    i ≤ d ∧ ∀ t, t ∈ tois →
      ∃ A p0 M p1 R, stream.drop i = A ++ p0 :: (M ++ p1 :: R) ∧ p0.toi = t ∧ p0.isStart = true ∧
        p1.toi = t ∧ p1.isStart = true ∧ (∀ q, q ∈ M → q.toi = t → q.isStart = false) ∧
        ∀ q, q ∈ (p0 :: M).filter (fun p => p.toi == t) → q ∈ (stream.drop i).take (d - i) := by
  unfold cycleEnd at h
  obtain ⟨a, ha, hle, hall⟩ := cycleEnd_fold stream i tois (some i) d h
  simp only [Option.some.injEq] at ha
  subst ha
  refine ⟨hle, ?_⟩
  intro t ht
  obtain ⟨e, he, hed⟩ := hall t ht
  obtain ⟨A, p0, M, p1, R, hps, h1, h2, h3, h4, h5, h6, h7⟩ := cycleScan_mem _ _ _ _ he
  refine ⟨A, p0, M, p1, R, hps, by simpa using h1, h2, by simpa using h3, h4, ?_, ?_⟩
  · intro q hq ht'; exact h5 q hq (by simpa using ht')
  · intro q hq
    have := h7 q hq
    have hsub : (stream.drop i).take (e - i) = ((stream.drop i).take (d - i)).take (e - i) := by
      rw [List.take_take]; congr 1; omega
    rw [hsub] at this
    exact List.mem_of_mem_take this

/-- two consecutive windows make one -/
theorem drop_take_split (l : List Pkt) (j d1 d2 : Nat) (h1 : j ≤ d1) (h2 : d1 ≤ d2) :
    (l.drop j).take (d2 - j) = (l.drop j).take (d1 - j) ++ (l.drop d1).take (d2 - d1) := by
  have e : d2 - j = (d1 - j) + (d2 - d1) := by omega
  rw [e, List.take_add, List.drop_drop]
  congr 3
  omega

/-! ### the shape of a carousel stream -/

/-- **Transfer structure of a source in a stream**: the packets of the source (`sel`) from one of its (0,0)
    packets up to its next (0,0) packet are one complete transfer (`good`) -/
def SegsOK (sel : Pkt → Bool) (good : List Pkt → Prop) (stream : List Pkt) : Prop :=
  ∀ A p0 M p1 R, stream = A ++ p0 :: (M ++ p1 :: R) → sel p0 = true → p0.isStart = true →
    sel p1 = true → p1.isStart = true → (∀ q, q ∈ M → sel q = true → q.isStart = false) →
    good ((p0 :: M).filter sel)

/-- the transfer listing of an FDT instance: genuine packets without close-object flag, decodable -/
theorem fdt_emit_facts (c : Codec) (s : SessCfg) (f : FdtCfg) (hw : 1 ≤ s.w) (hN : f.ks.isEmpty = false)
    (hblocks : ∀ (b k : Nat), f.ks[b]? = some k → 1 ≤ k ∧ blockFails s.fdtScheme k s.fdtP = false)
    (T : List Sym) (h : emitTransfer (fdtEnc s f) = some T) :
    (∀ q, q ∈ T → Genuine (fdtObj s f) q ∧ q.close = false) ∧ AllDec c (fdtObj s f) T := by
  have hne : f.ks.size ≠ 0 := by
    intro h0
    have := Array.isEmpty_iff_size_eq_zero.mpr h0
    rw [this] at hN; exact absurd hN (by simp)
  have hok : EncOK (fdtEnc s f) := ⟨hw, by simp only [fdtEnc]; omega, hblocks⟩
  obtain ⟨q1, q2, _, _, q5⟩ := emitTransfer_facts _ hok T h
  refine ⟨fun q hq => ⟨q1 q hq, q5 rfl q hq⟩, ?_⟩
  intro b hb
  have hb' : b < f.ks.size := hb
  have hk : f.ks[b]? = some f.ks[b] := Array.getElem?_eq_getElem hb'
  refine ⟨_, hk, c.sources _ _ _ ?_⟩
  intro i hi
  obtain ⟨q, hq, hq1, hq2⟩ := q2 b _ i hk hi
  rw [mem_symsOf]
  exact ⟨q, hq, hq1, hq2⟩

end Flute.Lemmas.Session
