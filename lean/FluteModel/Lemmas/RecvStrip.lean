import FluteModel.Lemmas.RecvSkewState
/-
  C19 `check_disabled_ignores`, clock independence: with the expiry check disabled the outcome of a
  history does not depend on any receiver time.  `stripF` erases the clock fields of an instance;
  every function of the model, applied to the stripped state at ANY other time, yields the same
  result, the same events and the same state up to the clock fields.
  (The time-free lemmas below are the `shiftF` lemmas of `RecvSkewState.lean` with `stripF`.)
-/
namespace Flute.Recv
variable {σ : Type}

/-- forget the observed clock offset -/
def stripF (f : FdtRecv σ) : FdtRecv σ := { f with offset := none, late := true }

def stripS (s : State σ) : State σ :=
  { s with fdtReceivers := s.fdtReceivers.map (fun kf => (kf.1, stripF kf.2)),
           fdtCurrent := s.fdtCurrent.map stripF }

@[simp] theorem stripF_fdtId (f : FdtRecv σ) : (stripF f).fdtId = f.fdtId := rfl
@[simp] theorem stripF_st (f : FdtRecv σ) : (stripF f).st = f.st := rfl
@[simp] theorem stripF_inst (f : FdtRecv σ) : (stripF f).inst = f.inst := rfl
@[simp] theorem stripF_expires (f : FdtRecv σ) : (stripF f).expires = f.expires := rfl
@[simp] theorem stripF_utf8 (f : FdtRecv σ) : (stripF f).utf8 = f.utf8 := rfl
@[simp] theorem stripF_hasMeta (f : FdtRecv σ) : (stripF f).hasMeta = f.hasMeta := rfl
@[simp] theorem stripF_check (f : FdtRecv σ) : (stripF f).check = f.check := rfl
@[simp] theorem stripF_obj (f : FdtRecv σ) : (stripF f).obj = f.obj := rfl
theorem stripF_idem (f : FdtRecv σ) : stripF (stripF f) = stripF f := rfl

theorem stripS_idem (s : State σ) : stripS (stripS s) = stripS s := by
  simp only [stripS, List.map_map]
  rfl

/-- result of a call with the state stripped -/
def mapResS : Rs (State σ × Res × List Ev) → Rs (State σ × Res × List Ev)
  | .ok (s, r, e) => .ok (stripS s, r, e)
  | .error w => .error w

theorem coreEq_stripS (s : State σ) : CoreEq s (stripS s) := ⟨rfl, rfl, rfl, rfl, rfl⟩

/-- a function that ignores and preserves the FDT registries commutes with the shift -/
theorem strip_of_frame (s : State σ) (F : State σ → State σ × List Ev)
    (hcore : ∀ s s2 : State σ, CoreEq s s2 → CoreEq (F s).1 (F s2).1 ∧ (F s2).2 = (F s).2)
    (hfr : ∀ s : State σ, (F s).1.fdtCurrent = s.fdtCurrent ∧ (F s).1.fdtReceivers = s.fdtReceivers) :
    F (stripS s) = (stripS (F s).1, (F s).2) := by
  have h := hcore s (stripS s) (coreEq_stripS s)
  have h1 := hfr (stripS s)
  have h0 := hfr s
  apply Prod.ext
  · simp only []
    apply State.ext'
    · exact ⟨by rw [h.1.cfg]; rfl, by rw [h.1.objects]; rfl, by rw [h.1.completed]; rfl,
        by rw [h.1.errors]; rfl, by rw [h.1.ci]; rfl⟩
    · rw [h1.2]; simp only [stripS]; rw [h0.2]
    · rw [h1.1]; simp only [stripS]; rw [h0.1]
  · exact h.2


theorem attachLatest_strip (I : ObjIface σ) (s : State σ) :
    attachLatest I (stripS s) = (stripS (attachLatest I s).1, (attachLatest I s).2) := by
  cases hcur : s.fdtCurrent with
  | nil =>
    have h1 : (stripS s).fdtCurrent = [] := by simp [stripS, hcur]
    simp only [attachLatest, hcur, h1]
  | cons f r =>
    have h1 : (stripS s).fdtCurrent = stripF f :: r.map (stripF) := by simp [stripS, hcur]
    cases hinst : f.inst with
    | none =>
      have h2 : (stripF f).inst = none := by rw [stripF_inst, hinst]
      simp only [attachLatest, hcur, h1, hinst, h2]
    | some inst =>
      have h2 : (stripF f).inst = some inst := by rw [stripF_inst, hinst]
      simp only [attachLatest, hcur, h1, hinst, h2, stripF_fdtId]
      have key := strip_of_frame { s with objects := (attachAll I f.fdtId inst s.objects).1, fdtCurrent := f :: r }
        (fun st => checkObjectStates I st (attachAll I f.fdtId inst s.objects).2.1)
        (fun a b h => checkObjectStates_core I _ h)
        (fun a => ⟨(checkObjectStates_fdt I a _).1, (checkObjectStates_fdt I a _).2.1⟩)
      show ((checkObjectStates I (stripS { s with objects := (attachAll I f.fdtId inst s.objects).1, fdtCurrent := f :: r })
              (attachAll I f.fdtId inst s.objects).2.1).1,
            (attachAll I f.fdtId inst s.objects).2.2 ++
              (checkObjectStates I (stripS { s with objects := (attachAll I f.fdtId inst s.objects).1, fdtCurrent := f :: r })
                (attachAll I f.fdtId inst s.objects).2.1).2) = _
      rw [key]

theorem gcObjectCompleted_strip (s : State σ) :
    gcObjectCompleted (stripS s) = stripS (gcObjectCompleted s) := by
  cases hcur : s.fdtCurrent with
  | nil =>
    have h1 : (stripS s).fdtCurrent = [] := by simp [stripS, hcur]
    simp only [gcObjectCompleted, hcur, h1]
  | cons f r =>
    have h1 : (stripS s).fdtCurrent = stripF f :: r.map (stripF) := by simp [stripS, hcur]
    cases hinst : f.inst with
    | none =>
      have h2 : (stripF f).inst = none := by rw [stripF_inst, hinst]
      simp only [gcObjectCompleted, hcur, h1, hinst, h2]
    | some inst =>
      have h2 : (stripF f).inst = some inst := by rw [stripF_inst, hinst]
      simp only [gcObjectCompleted, hcur, h1, hinst, h2]
      cases inst.files <;> rfl

theorem updateCompletedCc_strip (s : State σ) :
    updateCompletedCc (stripS s) = (stripS (updateCompletedCc s).1, (updateCompletedCc s).2) := by
  cases hcur : s.fdtCurrent with
  | nil =>
    have h1 : (stripS s).fdtCurrent = [] := by simp [stripS, hcur]
    simp only [updateCompletedCc, hcur, h1]
  | cons f r =>
    have h1 : (stripS s).fdtCurrent = stripF f :: r.map (stripF) := by simp [stripS, hcur]
    cases hinst : f.inst with
    | none =>
      have h2 : (stripF f).inst = none := by rw [stripF_inst, hinst]
      simp only [updateCompletedCc, hcur, h1, hinst, h2]
    | some inst =>
      have h2 : (stripF f).inst = some inst := by rw [stripF_inst, hinst]
      simp only [updateCompletedCc, hcur, h1, hinst, h2]
      cases inst.files <;> rfl

theorem gateCompleted_strip (s : State σ) (p : Pkt) :
    gateCompleted (stripS s) p =
      (match gateCompleted s p with | .inl s1 => .inl (stripS s1) | .inr r => .inr r) := by
  unfold gateCompleted
  have h1 : (stripS s).completed = s.completed := rfl
  have h2 : (stripS s).cfg = s.cfg := rfl
  rw [h1, h2]
  split
  · split
    · rfl
    · cases p.pid with
      | none => rfl
      | some x =>
        obtain ⟨sbn, esi⟩ := x
        simp only []
        split <;> rfl
  · rfl

theorem gateError_strip (s : State σ) (p : Pkt) :
    gateError (stripS s) p =
      (match gateError s p with | .inl s1 => .inl (stripS s1) | .inr r => .inr r) := by
  unfold gateError
  have h1 : (stripS s).errors = s.errors := rfl
  rw [h1]
  split
  · cases p.pid with
    | none => rfl
    | some x =>
      obtain ⟨sbn, esi⟩ := x
      simp only []
      split <;> rfl
  · rfl

theorem stripF_new (I : ObjIface σ) (id : Nat) (chk : Bool) :
    stripF (FdtRecv.new I id chk) = FdtRecv.new I id chk := rfl

theorem stripF_noteFti (f : FdtRecv σ) (v : Option Fti) :
    stripF (f.noteFti v) = (stripF f).noteFti v := by
  cases f with
  | mk fdtId obj st0 expires inst utf8 offset late check hasMeta bytes fti =>
    cases fti <;> rfl

theorem fdtEntry_strip (I : ObjIface σ) (s : State σ) (id : Nat) (p : Pkt) :
    fdtEntry I (stripS s) id p = (stripS (fdtEntry I s id p).1, stripF (fdtEntry I s id p).2) := by
  unfold fdtEntry
  have h1 : (stripS s).fdtReceivers = s.fdtReceivers.map (fun kf => (kf.1, stripF kf.2)) := rfl
  have h2 : (stripS s).cfg = s.cfg := rfl
  rw [h1, h2, alookup_map]
  cases alookup id s.fdtReceivers with
  | some f =>
    simp only [Option.map_some]
    rw [stripF_noteFti]
  | none =>
    simp only [Option.map_none]
    rw [stripF_noteFti, stripF_new, ← stripF_new I id s.cfg.expCheck, ainsert_map]
    rfl

theorem stripS_aerase (a : State σ) (id : Nat) :
    stripS { a with fdtReceivers := aerase id a.fdtReceivers } =
      { stripS a with fdtReceivers := aerase id (stripS a).fdtReceivers } := by
  simp only [stripS, aerase_map]

theorem dropConflict_strip (s : State σ) (p : Pkt) :
    dropConflict (stripS s) p = stripS (dropConflict s p) := by
  unfold dropConflict
  cases p.fdtId with
  | none => rfl
  | some id =>
    simp only []
    have h1 : (stripS s).fdtReceivers = s.fdtReceivers.map (fun kf => (kf.1, stripF kf.2)) := rfl
    rw [h1, alookup_map]
    cases alookup id s.fdtReceivers with
    | none => rfl
    | some f =>
      simp only [Option.map_some]
      have hc : (stripF f).ftiConflicts p = f.ftiConflicts p := rfl
      rw [stripF_st, hc]
      split
      · simp only [stripS, aerase_map]
      · rfl


theorem prevIdCheck_strip (l : List (FdtRecv σ)) :
    prevIdCheck (l.map (stripF)) = prevIdCheck l := by
  cases l with
  | nil => rfl
  | cons a r => simp only [List.map_cons, prevIdCheck, stripF_fdtId]

theorem fdtCb_strip (f : FdtRecv σ) (id : Nat) : fdtCb (stripF f) id = fdtCb f id := by
  unfold fdtCb
  rw [stripF_utf8, stripF_hasMeta]

theorem fdtCompleted_strip (I : ObjIface σ) (s : State σ) (id : Nat) :
    fdtCompleted I (stripS s) id = mapResS (fdtCompleted I s id) := by
  unfold fdtCompleted
  have h1 : (stripS s).fdtCurrent = s.fdtCurrent.map (stripF) := rfl
  have h2 : (stripS s).fdtReceivers = s.fdtReceivers.map (fun kf => (kf.1, stripF kf.2)) := rfl
  rw [h1, prevIdCheck_strip]
  cases prevIdCheck s.fdtCurrent with
  | error w => rfl
  | ok _ =>
    simp only []
    rw [h2, alookup_map]
    cases alookup id s.fdtReceivers with
    | none => rfl
    | some f =>
      simp only [Option.map_some]
      rw [fdtCb_strip]
      cases fdtCb f id with
      | error w => rfl
      | ok e0 =>
        simp only []
        have hs0 : ({ stripS s with
              fdtReceivers := aerase id (s.fdtReceivers.map (fun kf => (kf.1, stripF kf.2))),
              fdtCurrent := stripF f :: s.fdtCurrent.map (stripF) } : State σ) =
            stripS { s with fdtReceivers := aerase id s.fdtReceivers, fdtCurrent := f :: s.fdtCurrent } := by
          simp only [stripS, aerase_map, List.map_cons]
        rw [hs0, attachLatest_strip]
        simp only []
        rw [gcObjectCompleted_strip, updateCompletedCc_strip]
        simp only []
        have hlen : (stripS (updateCompletedCc (gcObjectCompleted (attachLatest I
              { s with fdtReceivers := aerase id s.fdtReceivers, fdtCurrent := f :: s.fdtCurrent }).1)).1).fdtCurrent.length =
            (updateCompletedCc (gcObjectCompleted (attachLatest I
              { s with fdtReceivers := aerase id s.fdtReceivers, fdtCurrent := f :: s.fdtCurrent }).1)).1.fdtCurrent.length := by
          simp [stripS]
        rw [hlen]
        split
        · simp only [mapResS, stripS, map_dropLast']
        · rfl


/-! ### the expiry check disabled: time plays no role -/

/-- invariant with the check disabled -/
def NC (f : FdtRecv σ) : Prop := f.check = false ∧ f.st ≠ .expired

theorem updateExpired_nc (f : FdtRecv σ) (now : Int) (h : f.check = false) : f.updateExpired now = .ok f := by
  unfold FdtRecv.updateExpired
  split
  · rfl
  · simp [h]

theorem createScan_strip (I : ObjIface σ) (toi : Nat) (now now' : Int) :
    ∀ (l : List (FdtRecv σ)) (o : σ), (∀ f ∈ l, f.check = false) →
      createScan I toi now' o (l.map stripF) =
        (match createScan I toi now o l with
         | .ok (o', l', ev) => .ok (o', l'.map stripF, ev)
         | .error w => .error w) := by
  intro l
  induction l with
  | nil => intro o _; rfl
  | cons f r ih =>
    intro o hall
    have hf := hall f (by simp)
    have hr : ∀ g ∈ r, g.check = false := fun g hg => hall g (List.mem_cons_of_mem _ hg)
    simp only [List.map_cons]
    unfold createScan
    rw [updateExpired_nc (stripF f) now' hf, updateExpired_nc f now hf]
    simp only [stripF_st, stripF_inst, stripF_fdtId]
    have hnone : (match createScan I toi now' o (List.map stripF r) with
        | Except.error w => Except.error w
        | Except.ok (o'', r', ev') => Except.ok (o'', stripF f :: r', ev')) =
        (match (match createScan I toi now o r with
          | Except.error w => Except.error w
          | Except.ok (o'', r', ev') => Except.ok (o'', f :: r', ev')) with
         | .ok (o', l', ev) => .ok (o', l'.map stripF, ev)
         | .error w => .error w) := by
      rw [ih o hr]
      cases createScan I toi now o r with
      | error w => rfl
      | ok x => obtain ⟨o2, r2, e2⟩ := x; rfl
    by_cases hst : f.st = FdtState.complete
    · cases hinst : f.inst with
      | none => simp only [hst, ↓reduceIte]; exact hnone
      | some inst =>
        simp only [hst, ↓reduceIte]
        cases hatt : I.attachFdt o f.fdtId inst with
        | mk o1 rest =>
          obtain ⟨b, evs1⟩ := rest
          cases b with
          | true => simp only [List.map_cons]
          | false =>
            simp only []
            rw [ih o1 hr]
            cases createScan I toi now o1 r with
            | error w => rfl
            | ok x => obtain ⟨o2, r2, e2⟩ := x; rfl
    · simp only [hst, ↓reduceIte]; exact hnone

theorem createObj_strip (I : ObjIface σ) (s : State σ) (toi : Nat) (now now' : Int)
    (hall : ∀ f ∈ s.fdtCurrent, f.check = false) :
    createObj I (stripS s) toi now' =
      (match createObj I s toi now with
       | .ok (s', ev) => .ok (stripS s', ev)
       | .error w => .error w) := by
  unfold createObj
  have h1 : (stripS s).fdtCurrent = s.fdtCurrent.map (stripF) := rfl
  have h2 : (stripS s).cfg = s.cfg := rfl
  rw [h1, h2, createScan_strip I toi now now' s.fdtCurrent _ hall]
  cases createScan I toi now (I.new toi s.cfg.maxCache) s.fdtCurrent with
  | error w => rfl
  | ok x => obtain ⟨o, cur, evs⟩ := x; rfl
theorem pushObjCore_strip (I : ObjIface σ) (s : State σ) (p : Pkt) (now now' : Int)
    (hall : ∀ f ∈ s.fdtCurrent, f.check = false) :
    pushObjCore I (stripS s) p now' = mapResS (pushObjCore I s p now) := by
  unfold pushObjCore
  simp only []
  have h1 : (stripS s).objects = s.objects := rfl
  rw [h1]
  have hcreated : (if (alookup p.toi s.objects).isNone = true then createObj I (stripS s) p.toi now'
        else Except.ok (stripS s, [])) =
      (match (if (alookup p.toi s.objects).isNone = true then createObj I s p.toi now else Except.ok (s, [])) with
       | .ok (s', ev) => .ok (stripS s', ev)
       | .error w => .error w) := by
    split
    · exact createObj_strip I s p.toi now now' hall
    · rfl
  rw [hcreated]
  cases (if (alookup p.toi s.objects).isNone = true then createObj I s p.toi now else Except.ok (s, [])) with
  | error w => rfl
  | ok x =>
    obtain ⟨s1, e0⟩ := x
    simp only []
    have h2 : (stripS s1).objects = s1.objects := rfl
    rw [h2]
    cases alookup p.toi s1.objects with
    | none => rfl
    | some o =>
      simp only []
      have key := strip_of_frame { s1 with objects := ainsert p.toi (I.push o p).1 s1.objects }
        (fun st => checkObjectState I st p.toi)
        (fun a b h => checkObjectState_core I _ h)
        (fun a => ⟨(checkObjectState_fdt I a _).1, (checkObjectState_fdt I a _).2.1⟩)
      show (Except.ok ((checkObjectState I (stripS { s1 with objects := ainsert p.toi (I.push o p).1 s1.objects }) p.toi).1, Res.ok,
          e0 ++ wevs p.toi (I.push o p).2 ++
            (checkObjectState I (stripS { s1 with objects := ainsert p.toi (I.push o p).1 s1.objects }) p.toi).2) : Rs _) = _
      rw [key]
      rfl
theorem pushObj_strip (I : ObjIface σ) (s : State σ) (p : Pkt) (now now' : Int)
    (hall : ∀ f ∈ s.fdtCurrent, f.check = false) :
    pushObj I (stripS s) p now' = mapResS (pushObj I s p now) := by
  unfold pushObj
  rw [gateCompleted_strip]
  cases hg1 : gateCompleted s p with
  | inr r => rfl
  | inl s1 =>
    simp only []
    rw [gateError_strip]
    cases hg2 : gateError s1 p with
    | inr r => rfl
    | inl s2 =>
      simp only []
      have hc : s2.fdtCurrent = s.fdtCurrent := by
        rw [(gateError_fdt hg2).1, (gateCompleted_fdt hg1).1]
      exact pushObjCore_strip I s2 p now now' (by rw [hc]; exact hall)

/-! ### `FdtReceiver::push` up to the clock fields -/

theorem stripF_applyWEv (ans : FdtAns) (g : FdtRecv σ) (e : WEv) :
    stripF (g.applyWEv ans e) = (stripF g).applyWEv ans e := by
  cases e with
  | complete =>
    simp only [FdtRecv.applyWEv, stripF_st]
    by_cases h : g.st = .error
    · simp only [h, if_true]
    · simp only [h, if_false]; cases ans <;> rfl
  | write sbn len =>
    simp only [FdtRecv.applyWEv]
    have hb : (stripF g).bytes = g.bytes := rfl
    rw [hb]
    by_cases h : g.bytes + len > maxFdtSize
    · simp only [h, if_true]; rfl
    · simp only [h, if_false]; rfl
  | _ => rfl

theorem stripF_applyWEvs (ans : FdtAns) (g : FdtRecv σ) (evs : List WEv) :
    stripF (g.applyWEvs ans evs) = (stripF g).applyWEvs ans evs := by
  induction evs generalizing g with
  | nil => rfl
  | cons e r ih =>
    simp only [FdtRecv.applyWEvs, List.foldl_cons] at ih ⊢
    rw [ih, stripF_applyWEv]

theorem stripF_pushRest (I : ObjIface σ) (g : FdtRecv σ) (p : Pkt) (ans : FdtAns) :
    stripF (pushRest I g p ans) = pushRest I (stripF g) p ans := by
  unfold pushRest
  rw [stripF_obj]
  cases g.obj with
  | none => rfl
  | some o =>
    simp only []
    cases I.state (I.push o p).1 with
    | receiving =>
      simp only []
      rw [← stripF_applyWEvs]; rfl
    | completed =>
      simp only []
      rw [stripF_applyWEvs, ← stripF_applyWEvs ans g]; rfl
    | interrupted =>
      simp only []
      rw [← stripF_applyWEvs]; rfl
    | error =>
      simp only []
      rw [← stripF_applyWEvs]; rfl

theorem stripF_observeSct (f : FdtRecv σ) (sct : Option Int) (now : Int) :
    stripF (f.observeSct sct now) = stripF f := by
  unfold FdtRecv.observeSct
  cases sct with
  | none => rfl
  | some res => simp only []; split <;> rfl

/-- a push, seen without the clock fields, does not depend on the time (nor on the previous
    clock fields) -/
theorem stripF_push (I : ObjIface σ) (f : FdtRecv σ) (p : Pkt) (now : Int) (ans : FdtAns) :
    stripF (f.push I p now ans) = pushRest I (stripF f) p ans := by
  rw [push_eq_pushRest, stripF_pushRest, stripF_observeSct]

theorem nc_push (I : ObjIface σ) (f : FdtRecv σ) (p : Pkt) (now : Int) (ans : FdtAns) (h : NC f) :
    NC (f.push I p now ans) := by
  have := push_fields I f p now ans
  exact ⟨by rw [this.2.2.1]; exact h.1, this.2.2.2.2 h.2⟩

theorem nc_noteFti (f : FdtRecv σ) (v : Option Fti) (h : NC f) : NC (f.noteFti v) := by
  have hf := noteFti_fields f v
  exact ⟨by rw [hf.2.2.2.2.2.2.2.2.1]; exact h.1, by rw [hf.2.2.1]; exact h.2⟩

theorem fdtDispatch_strip (I : ObjIface σ) (a b : State σ) (id : Nat) (g' g : FdtRecv σ) (now' now : Int)
    (hab : stripS a = stripS b) (hst : g'.st = g.st) (hne : g.st ≠ .expired) :
    mapResS (fdtDispatch I a id g' now') = mapResS (fdtDispatch I b id g now) := by
  unfold fdtDispatch
  rw [hst]
  cases hs : g.st with
  | receiving => simp only [mapResS, hab]
  | error => simp only [mapResS, stripS_aerase, hab]
  | expired => exact absurd hs hne
  | complete =>
    simp only []
    rw [← fdtCompleted_strip I a id, ← fdtCompleted_strip I b id, hab]

theorem pushFdtObjP_strip (I : ObjIface σ) (s : State σ) (p : Pkt) (now now' : Int) (ans : FdtAns)
    (hcfg : s.cfg.expCheck = false) (hall : AllFdt NC s) :
    mapResS (pushFdtObj' I (stripS s) p now' ans) = mapResS (pushFdtObj' I s p now ans) := by
  unfold pushFdtObj'
  cases hid : p.fdtId with
  | none =>
    simp only []
    split
    · simp only [mapResS, stripS_idem]
    · split <;> simp only [mapResS, stripS_idem]
  | some id =>
    simp only []
    have hany : (stripS s).fdtCurrent.any (fun f => decide (f.fdtId = id)) =
        s.fdtCurrent.any (fun f => decide (f.fdtId = id)) := by
      simp only [stripS, List.any_map]
      congr 1
    have hcfg' : (stripS s).cfg = s.cfg := rfl
    rw [hany, hcfg']
    split
    · simp only [mapResS, stripS_idem]
    · rw [fdtEntry_strip]
      simp only [stripF_st]
      -- the entry is an `NC` instance
      have hentry : NC (fdtEntry I s id p).2 := by
        have := fdtEntry_all I NC s id p nc_noteFti (by rw [hcfg]; exact ⟨rfl, by simp [FdtRecv.new]⟩) hall
        exact this.2.1
      split
      · simp only [mapResS, stripS_idem]
      · have hg := nc_push I (fdtEntry I s id p).2 p now ans hentry
        have hg' := nc_push I (stripF (fdtEntry I s id p).2) p now' ans hentry
        have heq : stripF ((stripF (fdtEntry I s id p).2).push I p now' ans) =
            stripF ((fdtEntry I s id p).2.push I p now ans) := by
          rw [stripF_push, stripF_push]; rfl
        have hst : ((stripF (fdtEntry I s id p).2).push I p now' ans).st = ((fdtEntry I s id p).2.push I p now ans).st :=
          congrArg (fun x => (stripF x).st) rfl |>.trans (congrArg FdtRecv.st heq) |>.trans rfl
        have hu' : (if ((stripF (fdtEntry I s id p).2).push I p now' ans).st = FdtState.complete then
              ((stripF (fdtEntry I s id p).2).push I p now' ans).updateExpired now'
            else Except.ok ((stripF (fdtEntry I s id p).2).push I p now' ans)) =
            .ok ((stripF (fdtEntry I s id p).2).push I p now' ans) := by
          split
          · exact updateExpired_nc _ _ hg'.1
          · rfl
        have hu : (if ((fdtEntry I s id p).2.push I p now ans).st = FdtState.complete then
              ((fdtEntry I s id p).2.push I p now ans).updateExpired now
            else Except.ok ((fdtEntry I s id p).2.push I p now ans)) =
            .ok ((fdtEntry I s id p).2.push I p now ans) := by
          split
          · exact updateExpired_nc _ _ hg.1
          · rfl
        rw [hu', hu]
        simp only []
        apply fdtDispatch_strip I _ _ id _ _ now' now ?_ hst hg.2
        simp only [stripS, List.map_map]
        congr 1
        · rw [← ainsert_map, ← ainsert_map, heq]
          congr 1
          simp only [List.map_map]
          rfl

theorem pushFdtObj_strip (I : ObjIface σ) (s : State σ) (p : Pkt) (now now' : Int) (ans : FdtAns)
    (hcfg : s.cfg.expCheck = false) (hall : AllFdt NC s) :
    mapResS (pushFdtObj I (stripS s) p now' ans) = mapResS (pushFdtObj I s p now ans) := by
  unfold pushFdtObj
  rw [dropConflict_strip]
  have hd := dropConflict_all NC s p hall
  exact pushFdtObjP_strip I _ p now now' ans (by rw [hd.2]; exact hcfg) hd.1

theorem updateExpiredAll_nc (now : Int) :
    ∀ (l : List (Nat × FdtRecv σ)), (∀ kf ∈ l, kf.2.check = false) → updateExpiredAll now l = .ok l := by
  intro l
  induction l with
  | nil => intro _; rfl
  | cons a r ih =>
    intro hall
    obtain ⟨k, f⟩ := a
    unfold updateExpiredAll
    rw [updateExpired_nc f now (hall (k, f) (by simp))]
    simp only []
    rw [ih (fun x hx => hall x (List.mem_cons_of_mem _ hx))]

theorem filter_map_strip (c : Bool) (st : Nat → Bool) (l : List (Nat × FdtRecv σ)) :
    (l.map (fun kf => (kf.1, stripF kf.2))).filter
        (fun kf => decide (kf.2.st = FdtState.complete ∨
          (kf.2.st = FdtState.receiving ∧ ¬ (c = true ∧ kf.2.obj.isSome = true ∧ st kf.1 = true)))) =
      (l.filter (fun kf => decide (kf.2.st = FdtState.complete ∨
          (kf.2.st = FdtState.receiving ∧ ¬ (c = true ∧ kf.2.obj.isSome = true ∧ st kf.1 = true))))).map
        (fun kf => (kf.1, stripF kf.2)) := by
  rw [List.filter_map]
  rfl

theorem cleanup_strip (I : ObjIface σ) (s : State σ) (now now' : Int) (stale : Stale)
    (hall : ∀ kf ∈ s.fdtReceivers, kf.2.check = false) :
    cleanup I (stripS s) now' stale =
      (match cleanup I s now stale with | .ok (s', ev) => .ok (stripS s', ev) | .error w => .error w) := by
  unfold cleanup
  have key := strip_of_frame s (fun st => cleanupObjects I st stale.obj)
    (fun a b h => cleanupObjects_core I stale.obj h)
    (fun a => ⟨(cleanupObjects_fdt I a stale.obj).1, (cleanupObjects_fdt I a stale.obj).2.1⟩)
  simp only [] at key ⊢
  rw [key]
  simp only []
  unfold cleanupFdt
  have h2 : (stripS (cleanupObjects I s stale.obj).1).fdtReceivers =
      (cleanupObjects I s stale.obj).1.fdtReceivers.map (fun kf => (kf.1, stripF kf.2)) := rfl
  have h3 : (stripS (cleanupObjects I s stale.obj).1).cfg = (cleanupObjects I s stale.obj).1.cfg := rfl
  have hall1 : ∀ kf ∈ (cleanupObjects I s stale.obj).1.fdtReceivers, kf.2.check = false := by
    rw [(cleanupObjects_fdt I s stale.obj).2.1]; exact hall
  have hall2 : ∀ kf ∈ (cleanupObjects I s stale.obj).1.fdtReceivers.map (fun kf => (kf.1, stripF kf.2)),
      kf.2.check = false := by
    intro kf hkf
    obtain ⟨x, hx, rfl⟩ := List.mem_map.mp hkf
    exact hall1 x hx
  rw [h2, h3, updateExpiredAll_nc now' _ hall2, updateExpiredAll_nc now _ hall1]
  simp only []
  rw [filter_map_strip]
  rfl

/-- the same call at another receiver time -/
def Retimed : Op → Op → Prop
  | .data d _ ans, .data d' _ ans' => d = d' ∧ ans = ans'
  | .cleanup _ st, .cleanup _ st' => st = st'
  | _, _ => False

/-- One call on the stripped state, at any other time, gives the same result and events and the
    same state up to the clock fields. -/
theorem step_strip (I : ObjIface σ) (s : State σ) (op op' : Op) (hr : Retimed op op')
    (hcfg : s.cfg.expCheck = false) (hall : AllFdt NC s) :
    mapResS (step I (stripS s) op') = mapResS (step I s op) := by
  cases op with
  | data d now ans =>
    cases op' with
    | cleanup now' st => exact absurd hr (by simp [Retimed])
    | data d' now' ans' =>
      obtain ⟨rfl, rfl⟩ := hr
      simp only [step, pushData]
      cases d with
      | reject => simp only [mapResS, stripS_idem]
      | otherTsi => simp only [mapResS, stripS_idem]
      | pkt p =>
        simp only []
        unfold push
        simp only []
        have hcs : (if p.closeSession = true then ({ stripS s with closedImminent := true } : State σ) else stripS s) =
            stripS (if p.closeSession = true then { s with closedImminent := true } else s) := by
          split <;> rfl
        rw [hcs]
        have hall' : AllFdt NC (if p.closeSession = true then { s with closedImminent := true } else s) := by
          split <;> exact hall
        have hcfg' : (if p.closeSession = true then { s with closedImminent := true } else s).cfg.expCheck = false := by
          split <;> exact hcfg
        split
        · exact pushFdtObj_strip I _ p now now' ans hcfg' hall'
        · rw [pushObj_strip I _ p now now' (fun f hf => (hall'.1 f hf).1)]
          cases pushObj I (if p.closeSession = true then { s with closedImminent := true } else s) p now with
          | error w => rfl
          | ok x => obtain ⟨a, b, c⟩ := x; simp only [mapResS, stripS_idem]
  | cleanup now stale =>
    cases op' with
    | data d' now' ans' => exact absurd hr (by simp [Retimed])
    | cleanup now' stale' =>
      have hst : stale = stale' := hr
      subst hst
      simp only [step]
      rw [cleanup_strip I s now now' stale (fun kf hkf => (hall.2 kf hkf).1)]
      cases cleanup I s now stale with
      | error w => rfl
      | ok x => obtain ⟨s', ev⟩ := x; simp only [mapResS, stripS_idem]

theorem step_nc (I : ObjIface σ) (s s' : State σ) (op : Op) (r : Res) (evs : List Ev)
    (hcfg : s.cfg.expCheck = false) (h : step I s op = .ok (s', r, evs)) (hall : AllFdt NC s) :
    AllFdt NC s' ∧ s'.cfg.expCheck = false := by
  have := step_all I NC s s' op r evs nc_noteFti
    (fun p now ans id _ _ => by rw [hcfg]; exact ⟨rfl, by simp [FdtRecv.new]⟩)
    (fun p now ans _ _ _ _ f hf => nc_push I f p now ans hf)
    (fun f f' hf hu => by
      rw [updateExpired_nc f _ hf.1] at hu
      injection hu with hu; subst hu; exact hf)
    h hall
  exact ⟨this.1, by rw [this.2]; exact hcfg⟩

theorem Retimed.refl (op : Op) : Retimed op op := by
  cases op <;> simp [Retimed]

/-- histories that differ only in the receiver times -/
inductive RetimedL : List Op → List Op → Prop
  | nil : RetimedL [] []
  | cons {a b : Op} {l l' : List Op} (h : Retimed a b) (t : RetimedL l l') : RetimedL (a :: l) (b :: l')

/-- Histories that differ only in the receiver times, run from states that differ only in the clock
    fields, with the expiry check disabled: same panics, same results, same events. -/
theorem run_strip (I : ObjIface σ) :
    ∀ (ops ops' : List Op), RetimedL ops ops' →
    ∀ (a b : State σ), stripS a = stripS b → a.cfg.expCheck = false → b.cfg.expCheck = false →
      AllFdt NC a → AllFdt NC b →
      (run I a ops).map (·.2) = (run I b ops').map (·.2) := by
  intro ops ops' hf
  induction hf with
  | nil => intro a b _ _ _ _ _; rfl
  | @cons op op' tl tl' hr _ ih =>
    intro a b hab hca hcb ha hb
    have h1 := step_strip I a op op' hr hca ha
    have h2 := step_strip I b op' op' (Retimed.refl op') hcb hb
    rw [hab] at h1
    have h3 : mapResS (step I a op) = mapResS (step I b op') := h1.symm.trans h2
    simp only [run]
    cases hsa : step I a op with
    | error w =>
      cases hsb : step I b op' with
      | error w' => rfl
      | ok y => rw [hsa, hsb] at h3; obtain ⟨y1, y2, y3⟩ := y; simp [mapResS] at h3
    | ok x =>
      obtain ⟨a1, r, e⟩ := x
      cases hsb : step I b op' with
      | error w' => rw [hsa, hsb] at h3; simp [mapResS] at h3
      | ok y =>
        obtain ⟨b1, r', e'⟩ := y
        rw [hsa, hsb] at h3
        simp only [mapResS, Except.ok.injEq, Prod.mk.injEq] at h3
        obtain ⟨hs1, hr1, he1⟩ := h3
        have na := step_nc I a a1 op r e hca hsa ha
        have nb := step_nc I b b1 op' r' e' hcb hsb hb
        have := ih a1 b1 hs1 na.2 nb.2 na.1 nb.1
        simp only []
        cases hra : run I a1 tl with
        | none =>
          cases hrb : run I b1 tl' with
          | none => rfl
          | some z => rw [hra, hrb] at this; simp at this
        | some z =>
          cases hrb : run I b1 tl' with
          | none => rw [hra, hrb] at this; simp at this
          | some z' =>
            rw [hra, hrb] at this
            obtain ⟨z1, z2⟩ := z
            obtain ⟨z1', z2'⟩ := z'
            simp only [Option.map_some, Option.some.injEq] at this ⊢
            rw [hr1, he1, this]

end Flute.Recv
