import FluteModel.Partition
import FluteModel.Spec.Rfc5052
/- helper lemmas for C07 (core Lean only) -/
namespace Flute.Lemmas.Partition
open Flute Flute.Partition Flute.Spec

theorem divCeil_eq_ceilDiv (a b : Nat) (hb : 0 < b) : divCeil a b = ceilDiv a b := by
  unfold divCeil ceilDiv
  have h1 := Nat.div_add_mod a b
  have h2 := Nat.mod_lt a hb
  split
  · rename_i h
    have h3 : a + b - 1 = b * (a / b) + (b - 1) := by omega
    rw [h3, Nat.mul_add_div hb]
    have : (b - 1) / b = 0 := Nat.div_eq_of_lt (by omega)
    omega
  · rename_i h
    have h3 : a + b - 1 = b * (a / b + 1) + (a % b - 1) := by
      rw [Nat.mul_add]; omega
    rw [h3, Nat.mul_add_div hb]
    have : (a % b - 1) / b = 0 := Nat.div_eq_of_lt (by omega)
    omega

/-- characterisation of the ceiling: `a ≤ ⌈a/b⌉·b < a + b` -/
theorem divCeil_spec (a b : Nat) (hb : 0 < b) :
    a ≤ divCeil a b * b ∧ divCeil a b * b < a + b := by
  unfold divCeil
  have h1 := Nat.div_add_mod a b
  have h2 := Nat.mod_lt a hb
  have h3 : a / b * b = b * (a / b) := Nat.mul_comm _ _
  split
  · omega
  · rw [Nat.add_mul]; omega

/-- uniqueness: if `a ≤ c·b < a + b` then `c = ⌈a/b⌉` -/
theorem divCeil_unique (a b c : Nat) (hb : 0 < b) (h1 : a ≤ c * b) (h2 : c * b < a + b) :
    divCeil a b = c := by
  have ⟨s1, s2⟩ := divCeil_spec a b hb
  -- both c and d := divCeil a b satisfy a ≤ x*b < a + b; so |c - d| * b < b
  rcases Nat.lt_trichotomy (divCeil a b) c with h | h | h
  · exfalso
    have : (divCeil a b + 1) * b ≤ c * b := Nat.mul_le_mul_right b h
    rw [Nat.add_mul] at this; omega
  · exact h
  · exfalso
    have : (c + 1) * b ≤ divCeil a b * b := Nat.mul_le_mul_right b h
    rw [Nat.add_mul] at this; omega

theorem divCeil_zero_iff (a b : Nat) (hb : 0 < b) : divCeil a b = 0 ↔ a = 0 := by
  have ⟨s1, s2⟩ := divCeil_spec a b hb
  constructor
  · intro h; rw [h] at s1; omega
  · intro h; subst h
    unfold divCeil; simp

theorem divCeil_pos (a b : Nat) (hb : 0 < b) (ha : 0 < a) : 0 < divCeil a b := by
  have := (divCeil_zero_iff a b hb)
  omega

/-- number of blocks: `0 < N ≤ T ≤ N·B` for `T > 0`, `B > 0` -/
theorem nblocks_bounds (T B : Nat) (hT : 0 < T) (hB : 0 < B) :
    0 < divCeil T B ∧ divCeil T B ≤ T ∧ T ≤ divCeil T B * B := by
  have ⟨s1, s2⟩ := divCeil_spec T B hB
  refine ⟨divCeil_pos T B hB hT, ?_, s1⟩
  -- (N-1)·B < T and N-1 ≤ (N-1)·B
  have h3 : (divCeil T B - 1) * B = divCeil T B * B - B := by rw [Nat.sub_mul]; simp
  have h4 : (divCeil T B - 1) * 1 ≤ (divCeil T B - 1) * B := Nat.mul_le_mul_left _ hB
  omega

/-- `⌈T/N⌉ ≤ B` when `N = ⌈T/B⌉` -/
theorem aLarge_le_B (T B : Nat) (hT : 0 < T) (hB : 0 < B) :
    divCeil T (divCeil T B) ≤ B := by
  have ⟨hN, _, hNB⟩ := nblocks_bounds T B hT hB
  have ⟨_, s2⟩ := divCeil_spec T (divCeil T B) hN
  -- if ⌈T/N⌉ ≥ B+1 then (B+1)·N ≤ ⌈T/N⌉·N < T + N, i.e. B·N < T: contradiction with T ≤ N·B
  rcases Nat.lt_or_ge B (divCeil T (divCeil T B)) with h | h
  · exfalso
    have h5 : (B + 1) * divCeil T B ≤ divCeil T (divCeil T B) * divCeil T B := Nat.mul_le_mul_right _ h
    rw [Nat.add_mul, Nat.mul_comm B] at h5
    omega
  · exact h

/-- with `q = T / N`, `r = T % N`: `A_small = q ≥ 1`, `I = r`, `A_large = q` if `r = 0` else `q + 1` -/
theorem quad_shape (T N : Nat) (hN : 0 < N) (hNT : N ≤ T) :
    1 ≤ T / N ∧ T - T / N * N = T % N ∧
    divCeil T N = (if T % N = 0 then T / N else T / N + 1) := by
  refine ⟨(Nat.le_div_iff_mul_le hN).mpr (by omega), ?_, rfl⟩
  have h1 := Nat.div_add_mod T N
  have h2 : T / N * N = N * (T / N) := Nat.mul_comm _ _
  omega

/-- coverage: `I·A_large + (N − I)·A_small = T` -/
theorem coverage (T N : Nat) (hN : 0 < N) :
    (T % N) * (if T % N = 0 then T / N else T / N + 1) + (N - T % N) * (T / N) = T := by
  have h := Nat.div_add_mod T N
  have hr := Nat.mod_lt T hN
  split
  · rename_i h0; rw [h0]; simp; omega
  · rw [Nat.mul_add, Nat.sub_mul, Nat.mul_one]
    have : T % N * (T / N) ≤ N * (T / N) := Nat.mul_le_mul_right _ (Nat.le_of_lt hr)
    omega

theorem divCeil_le_self (l e : Nat) (he : 0 < e) : divCeil l e ≤ l := by
  have ⟨_, ht2⟩ := divCeil_spec l e he
  rcases Nat.eq_zero_or_pos l with h0 | hpos
  · subst h0; simp [divCeil]
  · have h3 : (divCeil l e - 1) * e = divCeil l e * e - e := by rw [Nat.sub_mul]; simp
    have h4 : (divCeil l e - 1) * 1 ≤ (divCeil l e - 1) * e := Nat.mul_le_mul_left _ he
    omega

/-- closed form of the Rust function for `L > 0`: with `T = ⌈L/E⌉`, `N = ⌈T/B⌉`, `q = T / N`, `r = T % N`
    it returns `(q or q+1, q, r, N)`, never overflowing. -/
theorem bp_shape (b l e : Nat) (hb : 0 < b) (he : 0 < e) (hl0 : 0 < l) (hl : l < 2^64) :
    blockPartitioning b l e =
      .ok ((if divCeil l e % divCeil (divCeil l e) b = 0 then divCeil l e / divCeil (divCeil l e) b
            else divCeil l e / divCeil (divCeil l e) b + 1),
           divCeil l e / divCeil (divCeil l e) b,
           divCeil l e % divCeil (divCeil l e) b,
           divCeil (divCeil l e) b) := by
  have hT : 0 < divCeil l e := divCeil_pos l e he hl0
  have ⟨hN, hNT, _⟩ := nblocks_bounds (divCeil l e) b hT hb
  have ⟨_, hI, hAL⟩ := quad_shape (divCeil l e) (divCeil (divCeil l e) b) hN hNT
  have hle : divCeil l e / divCeil (divCeil l e) b * divCeil (divCeil l e) b ≤ divCeil l e :=
    Nat.div_mul_le_self _ _
  have htl := divCeil_le_self l e he
  have h1 : divCeil l e / divCeil (divCeil l e) b * divCeil (divCeil l e) b < 2^64 := by omega
  unfold blockPartitioning
  simp only [Nat.ne_of_gt hb, Nat.ne_of_gt he, Nat.ne_of_gt hN, if_false]
  unfold u64mul u64sub
  simp only [h1, hle, if_true, hI, hAL]

/-! ### byte-level facts: `T = ⌈l/e⌉` symbols of `e` bytes, the object ends at `l` -/

theorem sym_lt {T l e s : Nat} (h2 : T * e < l + e) (h : s + 1 ≤ T) : s * e < l := by
  have : (s + 1) * e ≤ T * e := Nat.mul_le_mul_right e h
  rw [Nat.add_mul] at this; omega

theorem sym_ge {T l e s : Nat} (h1 : l ≤ T * e) (h : T ≤ s) : l ≤ s * e := by
  have : T * e ≤ s * e := Nat.mul_le_mul_right e h
  omega

/-- a block of `k` symbols starting at symbol `s` that is not the last one is `k·e` bytes long -/
theorem bytes_mid {T l e s k : Nat} (h2 : T * e < l + e) (h : s + k + 1 ≤ T) :
    min ((s + k) * e) l - min (s * e) l = k * e := by
  have a := sym_lt (s := s + k) h2 h
  have b := sym_lt (s := s) h2 (by omega)
  have c : (s + k) * e = s * e + k * e := Nat.add_mul _ _ _
  omega

/-- the last block (ending at symbol `T`) holds the remaining `l − s·e` bytes -/
theorem bytes_last {T l e s k : Nat} (h1 : l ≤ T * e) (h2 : T * e < l + e) (h : s + k = T) (hk : 1 ≤ k) :
    min ((s + k) * e) l - min (s * e) l = l - s * e := by
  have a := sym_ge (s := s + k) h1 (by omega)
  have b := sym_lt (s := s) h2 (by omega)
  omega

/-! ### `block_length` on a genuine partition `(aL, q, r)` of `T = N·q + r` symbols -/

/-- first symbol of block `sbn` -/
def firstSym (aL q r sbn : Nat) : Nat := if sbn ≤ r then sbn * aL else r * aL + (sbn - r) * q
/-- number of symbols of block `sbn` -/
def symsOf (aL q r sbn : Nat) : Nat := if sbn < r then aL else q

theorem u64mul_ok {a b : Nat} (h : a * b < 2^64) : u64mul a b = .ok (a * b) := by
  unfold u64mul; simp [h]
theorem u64sub_ok {a b : Nat} (h : b ≤ a) : u64sub a b = .ok (a - b) := by
  unfold u64sub; simp [h]

theorem blockLength_spec (T N q r l e sbn : Nat)
    (hq : 1 ≤ q) (hr : r < N) (hT : T = N * q + r)
    (h1 : l ≤ T * e) (h2 : T * e < l + e) (hlt : l + e < 2^64) (hs : sbn < N) :
    blockLength (if r = 0 then q else q + 1) q r l e sbn =
      .ok (min ((firstSym (if r = 0 then q else q + 1) q r sbn + symsOf (if r = 0 then q else q + 1) q r sbn) * e) l
            - min (firstSym (if r = 0 then q else q + 1) q r sbn * e) l) := by
  -- abbreviations
  generalize haL : (if r = 0 then q else q + 1) = aL
  have haL' : (r = 0 ∧ aL = q) ∨ (0 < r ∧ aL = q + 1) := by
    by_cases h : r = 0
    · left; simp [h] at haL; exact ⟨h, haL.symm⟩
    · right; simp [h] at haL; exact ⟨Nat.pos_of_ne_zero h, haL.symm⟩
  -- P = r * aL symbols in the large blocks; T = P + (N - r) * q
  have hP : r * aL + (N - r) * q = T := by
    rcases haL' with ⟨h0, h⟩ | ⟨h0, h⟩
    · subst h0; simp; omega
    · subst h
      rw [Nat.mul_add, Nat.sub_mul, Nat.mul_one]
      have : r * q ≤ N * q := Nat.mul_le_mul_right _ (Nat.le_of_lt hr)
      omega
  have hNrq : 1 * q ≤ (N - r) * q := Nat.mul_le_mul_right _ (by omega)
  have hPT : r * aL + 1 ≤ T := by omega
  have haLT : aL ≤ T := by
    rcases haL' with ⟨h0, h⟩ | ⟨h0, h⟩
    · omega
    · have : 1 * aL ≤ r * aL := Nat.mul_le_mul_right _ h0
      omega
  have hqT : q ≤ T := by omega
  have hTe : T * e < 2^64 := by omega
  have hlarge : aL * e < 2^64 := by
    have : aL * e ≤ T * e := Nat.mul_le_mul_right _ haLT
    omega
  have hsmall : q * e < 2^64 := by
    have : q * e ≤ T * e := Nat.mul_le_mul_right _ hqT
    omega
  unfold blockLength
  rw [u64mul_ok hlarge, u64mul_ok hsmall]
  simp only
  by_cases hA : sbn + 1 < r
  · -- a large block that is not the last large one
    simp only [hA, if_true]
    have hf : firstSym aL q r sbn = sbn * aL := by unfold firstSym; simp [show sbn ≤ r by omega]
    have hk : symsOf aL q r sbn = aL := by unfold symsOf; simp [show sbn < r by omega]
    rw [hf, hk]
    have h3 : (sbn + 1) * aL ≤ r * aL := Nat.mul_le_mul_right _ (by omega)
    have h4 : (sbn + 1) * aL = sbn * aL + aL := by rw [Nat.add_mul]; simp
    rw [bytes_mid h2 (by omega)]
  · simp only [hA, if_false]
    by_cases hB : sbn + 1 = r
    · -- the last large block
      simp only [hB, if_true]
      have hf : firstSym aL q r sbn = sbn * aL := by unfold firstSym; simp [show sbn ≤ r by omega]
      have hk : symsOf aL q r sbn = aL := by unfold symsOf; simp [show sbn < r by omega]
      rw [hf, hk]
      have h4 : r * aL = sbn * aL + aL := by rw [← hB, Nat.add_mul]; simp
      have h5 : r * (aL * e) = (r * aL) * e := (Nat.mul_assoc _ _ _).symm
      have h6 : (r * aL) * e < l := sym_lt h2 hPT
      rw [u64mul_ok (by omega)]
      simp only [show r * (aL * e) ≤ l by omega, if_true]
      rw [bytes_mid h2 (by omega)]
    · -- a small block
      simp only [hB, if_false]
      have hsr : r ≤ sbn := by omega
      have h5 : r * (aL * e) = (r * aL) * e := (Nat.mul_assoc _ _ _).symm
      have h6 : (r * aL) * e < l := sym_lt h2 hPT
      rw [u64mul_ok (by omega)]; dsimp only
      rw [u64sub_ok (by omega)]; dsimp only
      rw [u64sub_ok hsr]; dsimp only
      have hf : firstSym aL q r sbn = r * aL + (sbn - r) * q := by
        unfold firstSym
        by_cases h : sbn ≤ r
        · have : sbn = r := by omega
          subst this; simp
        · simp [h]
      have hk : symsOf aL q r sbn = q := by unfold symsOf; simp [show ¬ sbn < r by omega]
      rw [hf, hk]
      -- symbol-level position of the end of this block
      have h7 : (sbn - r + 1) * q ≤ (N - r) * q := Nat.mul_le_mul_right _ (by omega)
      have h8 : (sbn - r + 1) * q = (sbn - r) * q + q := by rw [Nat.add_mul]; simp
      have h9 : (sbn - r + 1) * (q * e) = ((sbn - r + 1) * q) * e := (Nat.mul_assoc _ _ _).symm
      have h10 : (sbn - r) * (q * e) = ((sbn - r) * q) * e := (Nat.mul_assoc _ _ _).symm
      have h11 : (r * aL + (sbn - r) * q + q) * e = (r * aL) * e + ((sbn - r + 1) * q) * e := by
        rw [h8, Nat.add_mul, Nat.add_mul, Nat.add_mul]; omega
      have h12 : (r * aL + (sbn - r) * q) * e = (r * aL) * e + ((sbn - r) * q) * e := Nat.add_mul _ _ _
      have h13 : ((sbn - r + 1) * q) * e = ((sbn - r) * q) * e + q * e := by rw [h8, Nat.add_mul]
      have hend : r * aL + (sbn - r) * q + q ≤ T := by omega
      have hle : (r * aL + (sbn - r) * q + q) * e ≤ T * e := Nat.mul_le_mul_right _ hend
      rw [u64mul_ok (by omega)]; dsimp only
      by_cases hlast : r * aL + (sbn - r) * q + q = T
      · -- last block of the object
        rw [bytes_last h1 h2 hlast hq]
        have hge : l ≤ (r * aL + (sbn - r) * q + q) * e := sym_ge h1 (by omega)
        have hlt' : (r * aL + (sbn - r) * q) * e < l := sym_lt h2 (by omega)
        by_cases hfit : (sbn - r + 1) * (q * e) ≤ l - r * (aL * e)
        · simp only [hfit, if_true]
          congr 1; omega
        · simp only [hfit, if_false]
          rw [u64mul_ok (by omega)]; dsimp only
          rw [u64sub_ok (by omega)]
          congr 1; omega
      · have hmid : r * aL + (sbn - r) * q + q + 1 ≤ T := by omega
        rw [bytes_mid h2 hmid]
        have hlt' : (r * aL + (sbn - r) * q + q) * e < l := sym_lt h2 hmid
        simp only [show (sbn - r + 1) * (q * e) ≤ l - r * (aL * e) by omega, if_true]

/-! ### the sequence of blocks -/

theorem firstSym_succ (aL q r sbn : Nat) :
    firstSym aL q r (sbn + 1) = firstSym aL q r sbn + symsOf aL q r sbn := by
  unfold firstSym symsOf
  by_cases h1 : sbn + 1 ≤ r
  · simp [h1, show sbn ≤ r by omega, show sbn < r by omega, Nat.add_mul]
  · by_cases h2 : sbn ≤ r
    · have h3 : sbn = r := by omega
      rw [if_neg h1, if_pos h2, if_neg (by omega), h3, show r + 1 - r = 1 by omega]
      simp
    · rw [if_neg h1, if_neg h2, if_neg (by omega), show sbn + 1 - r = sbn - r + 1 by omega, Nat.add_mul]
      omega

theorem firstSym_zero (aL q r : Nat) : firstSym aL q r 0 = 0 := by unfold firstSym; simp

theorem firstSym_N (aL q r N : Nat) (hr : r ≤ N) : firstSym aL q r N = r * aL + (N - r) * q := by
  unfold firstSym
  by_cases h : N ≤ r
  · have : N = r := by omega
    subst this; simp
  · simp [h]

/-- every block has at least one symbol, hence `first(N − d) + d ≤ first(N)` -/
theorem firstSym_room (aL q r N : Nat) (haL : 1 ≤ aL) (hq : 1 ≤ q) (d : Nat) (hd : d ≤ N) :
    firstSym aL q r (N - d) + d ≤ firstSym aL q r N := by
  induction d with
  | zero => simp
  | succ d ih =>
    have ih' := ih (by omega)
    have h1 : N - d = (N - (d + 1)) + 1 := by omega
    rw [h1, firstSym_succ] at ih'
    have : 1 ≤ symsOf aL q r (N - (d + 1)) := by unfold symsOf; split <;> assumption
    omega

theorem symsOf_pos (aL q r sbn : Nat) (haL : 1 ≤ aL) (hq : 1 ≤ q) : 1 ≤ symsOf aL q r sbn := by
  unfold symsOf; split <;> assumption

/-- byte length of block `sbn` (spec form) -/
def byteLen (aL q r l e sbn : Nat) : Nat :=
  min ((firstSym aL q r sbn + symsOf aL q r sbn) * e) l - min (firstSym aL q r sbn * e) l

/-- telescoping: the byte lengths of blocks `0..n-1` sum to `min(first(n)·e, l)` -/
theorem byteLen_sum (aL q r l e n : Nat) :
    ((List.range n).map (byteLen aL q r l e)).sum = min (firstSym aL q r n * e) l := by
  induction n with
  | zero => simp [firstSym_zero]
  | succ n ih =>
    rw [List.range_succ, List.map_append, List.sum_append, ih]
    simp only [List.map_cons, List.map_nil, List.sum_cons, List.sum_nil, Nat.add_zero]
    unfold byteLen
    rw [← firstSym_succ]
    have : firstSym aL q r n * e ≤ firstSym aL q r (n + 1) * e := by
      apply Nat.mul_le_mul_right
      rw [firstSym_succ]; omega
    omega

theorem senderBlocks_unfold (qd : Quad) (l e fuel sbn off : Nat) :
    senderBlocks qd l e (fuel + 1) sbn off =
      (if (senderBlock qd l e sbn off).2.2 = l then [senderBlock qd l e sbn off]
       else senderBlock qd l e sbn off :: senderBlocks qd l e fuel (sbn + 1) (senderBlock qd l e sbn off).2.2) := by
  rfl

/-- one block cut by the sender at the offset of its first symbol -/
theorem senderBlock_eq (aL q r n' l e sbn : Nat) :
    senderBlock (aL, q, r, n') l e sbn (firstSym aL q r sbn * e) =
      (symsOf aL q r sbn, firstSym aL q r sbn * e,
        min ((firstSym aL q r sbn + symsOf aL q r sbn) * e) l) := by
  unfold senderBlock symsOf
  simp only
  rw [Nat.add_mul]
  congr 2
  generalize firstSym aL q r sbn * e + (if sbn < r then aL else q) * e = x
  rw [Nat.min_def]
  split <;> split <;> omega

/-- The sender's slicing loop (`read_block_buffer` repeated until `read_end`) produces exactly the `N`
    blocks of the partition: block `sbn` announces `symsOf sbn` symbols and covers the byte range
    `[first·e, min((first+k)·e, l))`; it stops after block `N − 1`. -/
theorem senderBlocks_eq (aL q r N T l e : Nat) (haL : 1 ≤ aL) (hq : 1 ≤ q) (hr : r ≤ N)
    (hP : r * aL + (N - r) * q = T) (h1 : l ≤ T * e) (h2 : T * e < l + e)
    (d : Nat) (hd : d < N) (n' : Nat) (fuel : Nat) (hf : d < fuel) :
    senderBlocks (aL, q, r, n') l e fuel (N - 1 - d) (firstSym aL q r (N - 1 - d) * e) =
      (List.range' (N - 1 - d) (d + 1)).map (fun sbn =>
        (symsOf aL q r sbn, firstSym aL q r sbn * e,
          min ((firstSym aL q r sbn + symsOf aL q r sbn) * e) l)) := by
  have hN : firstSym aL q r N = T := by rw [firstSym_N _ _ _ _ hr]; exact hP
  induction d generalizing fuel with
  | zero =>
    cases fuel with
    | zero => omega
    | succ fuel =>
      have hlast : firstSym aL q r (N - 1) + symsOf aL q r (N - 1) = T := by
        rw [← firstSym_succ, show N - 1 + 1 = N by omega]; exact hN
      have hge : l ≤ (firstSym aL q r (N - 1) + symsOf aL q r (N - 1)) * e := sym_ge h1 (by omega)
      rw [Nat.sub_zero, senderBlocks_unfold, senderBlock_eq]
      simp only [show min ((firstSym aL q r (N - 1) + symsOf aL q r (N - 1)) * e) l = l by omega, if_true]
      simp [List.range']
      omega
  | succ d ih =>
    cases fuel with
    | zero => omega
    | succ fuel =>
      have hroom := firstSym_room aL q r N haL hq (d + 1) (by omega)
      have hsucc : firstSym aL q r (N - 1 - (d + 1)) + symsOf aL q r (N - 1 - (d + 1))
          = firstSym aL q r (N - 1 - d) := by
        rw [← firstSym_succ]; congr 1; omega
      have hNd : N - 1 - d = N - (d + 1) := by omega
      have hmid : firstSym aL q r (N - 1 - (d + 1)) + symsOf aL q r (N - 1 - (d + 1)) + 1 ≤ T := by
        rw [hsucc, hNd]; omega
      have hlt : (firstSym aL q r (N - 1 - (d + 1)) + symsOf aL q r (N - 1 - (d + 1))) * e < l :=
        sym_lt h2 hmid
      have ih' := ih (by omega) fuel (by omega)
      rw [senderBlocks_unfold, senderBlock_eq]
      have hmin : min ((firstSym aL q r (N - 1 - (d + 1)) + symsOf aL q r (N - 1 - (d + 1))) * e) l
          = firstSym aL q r (N - 1 - d) * e := by rw [← hsucc]; omega
      simp only [hmin]
      rw [if_neg (by rw [← hsucc]; omega)]
      conv => rhs; rw [show d + 1 + 1 = (d + 1) + 1 by rfl, List.range'_succ, List.map_cons]
      rw [show N - 1 - (d + 1) + 1 = N - 1 - d by omega, ih', hmin]

/-! ### RaptorQ / Raptor: reconstruction of `B` from `Z` -/

/-- Galois connection of the ceiling division -/
theorem divCeil_le_iff (a b c : Nat) (hb : 0 < b) : divCeil a b ≤ c ↔ a ≤ c * b := by
  have ⟨s1, s2⟩ := divCeil_spec a b hb
  constructor
  · intro h
    have : divCeil a b * b ≤ c * b := Nat.mul_le_mul_right b h
    omega
  · intro h
    rcases Nat.lt_or_ge c (divCeil a b) with h' | h'
    · exfalso
      have : (c + 1) * b ≤ divCeil a b * b := Nat.mul_le_mul_right b h'
      rw [Nat.add_mul] at this; omega
    · exact h'

theorem eq_of_le_iff {x y : Nat} (h : ∀ c, x ≤ c ↔ y ≤ c) : x = y := by
  have h1 := (h x).mp (Nat.le_refl _)
  have h2 := (h y).mpr (Nat.le_refl _)
  omega

/-- `⌈⌈l/z⌉/e⌉ = ⌈⌈l/e⌉/z⌉` -/
theorem divCeil_divCeil_comm (l z e : Nat) (hz : 0 < z) (he : 0 < e) :
    divCeil (divCeil l z) e = divCeil (divCeil l e) z := by
  apply eq_of_le_iff
  intro c
  rw [divCeil_le_iff _ _ _ he, divCeil_le_iff _ _ _ hz, divCeil_le_iff _ _ _ hz, divCeil_le_iff _ _ _ he,
    Nat.mul_assoc, Nat.mul_assoc, Nat.mul_comm e z]

/-- `⌈T/⌈T/Z⌉⌉ = Z` when `Z = ⌈T/B⌉` -/
theorem divCeil_reconstruct (T B : Nat) (hT : 0 < T) (hB : 0 < B) :
    divCeil T (divCeil T (divCeil T B)) = divCeil T B := by
  have ⟨hZ, _, hZB⟩ := nblocks_bounds T B hT hB
  have hB' : 0 < divCeil T (divCeil T B) := divCeil_pos _ _ hZ hT
  have hle : divCeil T (divCeil T B) ≤ B := aLarge_le_B T B hT hB
  apply Nat.le_antisymm
  · rw [divCeil_le_iff _ _ _ hB', Nat.mul_comm]
    exact (divCeil_spec T (divCeil T B) hZ).1
  · rw [divCeil_le_iff _ _ _ hB]
    have h1 := (divCeil_spec T (divCeil T (divCeil T B)) hB').1
    have h2 : divCeil T (divCeil T (divCeil T B)) * divCeil T (divCeil T B)
        ≤ divCeil T (divCeil T (divCeil T B)) * B := Nat.mul_le_mul_left _ hle
    omega

end Flute.Lemmas.Partition
