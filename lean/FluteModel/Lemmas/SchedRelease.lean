import FluteModel.Lemmas.SchedMono
/-
  A `read` that returns `None` releases every finished transfer whose pacing gate is open: the object's total
  transfer counter has grown by the end of the call.
-/
namespace Flute.Sched

/-- the total transfer counter of object `k` is at least `n` -/
def Inc (k n : Nat) (s : State) : Prop := ∃ g, getF s.objs k = some g ∧ n ≤ g.info.total

theorem Inc.mono {k n : Nat} {s s' : State} (hm : Mono s s') (h : Inc k n s) : Inc k n s' := by
  obtain ⟨g, hg, hn⟩ := h
  obtain ⟨g', hg', d⟩ := hm.fwd k g hg
  exact ⟨g', hg', Nat.le_trans hn d.total⟩

theorem runFile_release {k : Nat} {f : FileDesc} {P : Prop} (fuel : Nat) (s : State) (prio : Nat) (c : Cur)
    (now : Nat) (ticks : List (Nat × Nat)) (h : Kept k f P s) (hk : c.key = k) (hq : s.quiet = true)
    (hg : gateBlocked f now = false) (hfin : c.enc.stopped = true ∨ f.nPk ≤ c.enc.sent) :
    (runFile (fuel + 1) s prio (some c) now ticks).2.2 = Out.none →
    Inc k (f.info.total + 1) (runFile (fuel + 1) s prio (some c) now ticks).1 ∨
    (runFile (fuel + 1) s prio (some c) now ticks).1.fdtQueue ≠ [] := by
  by_cases hfq : s.fdtQueue = []
  · intro _
    left
    obtain ⟨f', h1, h2, h3, _⟩ := h.obj
    have henc : ∀ force, (encRead f'.nSym c.enc force).1 = none := by
      intro force
      rw [encRead_eq]
      rcases hfin with e1 | e1
      · rw [if_pos e1]
      · by_cases hs : c.enc.stopped = true
        · rw [if_pos hs]
        · rw [if_neg hs]
          have : ¬ c.enc.sent < (if f'.nSym = 0 then 1 else f'.nSym) := by
            have e : f.nPk = (if f.nSym = 0 then 1 else f.nSym) := rfl
            rw [h3, ← e]; omega
          rw [if_neg this]
    unfold runFile
    simp only [hfq, List.isEmpty_nil, Bool.not_true, Bool.false_eq_true, if_false]
    rw [hk, h1]
    simp only [gateBlocked_congr h2 now, hg, Bool.false_eq_true, if_false]
    have he := henc (canStop f' && !s.files.contains k)
    generalize encRead f'.nSym c.enc (canStop f' && !s.files.contains k) = r at he
    obtain ⟨r1, r2⟩ := r
    simp only [] at he
    subst he
    simp only []
    have hinc : Inc k (f.info.total + 1) (transferDoneFile s k now) := by
      refine ⟨transferDoneInfo f' now, ?_, ?_⟩
      · rw [transferDoneFile_objs, getF_updF s.objs k k (fun f => transferDoneInfo f now) (fun _ => rfl), if_pos rfl, h1]; rfl
      · show f.info.total + 1 ≤ f'.info.total + 1
        rw [h2]; exact Nat.le_refl _
    have hm := (runFile_inv (MonoInv.closed (transferDoneFile s k now)) fuel (transferDoneFile s k now) prio none now ticks []
      (Mono.refl _) (by rw [transferDoneFile_quiet]; exact hq)).1
    exact hinc.mono hm
  · intro _
    right
    exact (runFile_pending fuel s prio (some c) now ticks hfq).2

theorem readQueue_release {k : Nat} {f : FileDesc} {P : Prop} (ht : f.info.transferring = true) (c : Cur) (j n : Nat)
    (hk : c.key = k) (now : Nat) (hg : gateBlocked f now = false)
    (hfin : c.enc.stopped = true ∨ f.nPk ≤ c.enc.sent) (hj : j < n) :
    ∀ steps (s : State) (q : QSess) ticks, Kept k f P s → s.quiet = true → q.slots.length = n → q.index < n →
    q.slots[j]? = some (some c) →
    (∀ i c0, i ≠ j → q.slots[i]? = some (some c0) → c0.key ≠ k) →
    rrDist q.index j n < steps →
    (readQueue steps s q now ticks).2.2 = Out.none →
    Inc k (f.info.total + 1) (readQueue steps s q now ticks).1 ∨ (readQueue steps s q now ticks).1.fdtQueue ≠ [] := by
  intro steps
  induction steps with
  | zero => intro s q ticks _ _ _ _ _ _ hd; exact absurd hd (Nat.not_lt_zero _)
  | succ m ih =>
    intro s q ticks h hq hn hidx hjs hoth hd
    unfold readQueue
    split
    · rename_i hnone
      rw [List.getElem?_eq_none_iff] at hnone
      omega
    · rename_i cur hcur
      have hqr := (runFile_inv (MonoInv.closed s) runFuel s q.prio cur now ticks [] (Mono.refl s) hq).2
      by_cases hij : q.index = j
      · rw [hij, hjs] at hcur
        simp only [Option.some.injEq] at hcur
        subst hcur
        have e : runFuel = 3 + 1 := rfl
        have hr := runFile_release 3 s q.prio c now ticks h hk hq hg hfin
        rw [e] at hqr ⊢
        generalize runFile (3 + 1) s q.prio (some c) now ticks = r at hr hqr
        obtain ⟨s', cur', out⟩ := r
        simp only [] at hr hqr ⊢
        cases out with
        | none =>
          simp only []
          intro hnone
          rcases hr rfl with h1 | h1
          · left
            exact h1.mono (readQueue_inv (MonoInv.closed s') m s' _ now ticks [] (Mono.refl s') hqr).1
          · right
            exact (readQueue_pending m s' _ now ticks h1).2
        | hang => intro e'; cases e'
        | pkt a b c' d => intro e'; cases e'
        | fdt a b c' => intro e'; cases e'
      · have hne : ∀ c0, cur = some c0 → c0.key ≠ k := by
          intro c0 e; subst e
          exact hoth q.index c0 hij hcur
        have hr := runFile_other ht runFuel s q.prio cur now ticks h hne
        generalize runFile runFuel s q.prio cur now ticks = r at hr hqr
        obtain ⟨s', cur', out⟩ := r
        simp only [] at hr hqr ⊢
        cases out with
        | none =>
          simp only []
          obtain ⟨hk', hcur'⟩ := hr.2 rfl
          have hdist : rrDist (if q.index + 1 = q.slots.length then 0 else q.index + 1) j n + 1 = rrDist q.index j n := by
            unfold rrDist
            rw [hn]
            split <;> split <;> split <;> omega
          exact ih s' _ ticks hk' hqr (by simp [hn])
            (by show (if q.index + 1 = q.slots.length then 0 else q.index + 1) < n; split <;> omega)
            (by show (q.slots.set q.index cur')[j]? = _; rw [List.getElem?_set_ne hij]; exact hjs)
            (by
              intro i c0 hi hget
              have hget' : (q.slots.set q.index cur')[i]? = some (some c0) := hget
              by_cases hiq : q.index = i
              · subst hiq
                rw [List.getElem?_set_self (by omega)] at hget'
                simp only [Option.some.injEq] at hget'
                exact hcur' c0 hget'
              · rw [List.getElem?_set_ne hiq] at hget'
                exact hoth i c0 hi hget')
            (by show rrDist (if q.index + 1 = q.slots.length then 0 else q.index + 1) j n < m; omega)
        | hang => intro e'; cases e'
        | pkt a b c' d => intro e'; cases e'
        | fdt a b c' => intro e'; cases e'

theorem readQueues_release {k : Nat} {f : FileDesc} {P : Prop} (ht : f.info.transferring = true) (c : Cur) (j : Nat)
    (hk : c.key = k) (now : Nat) (hg : gateBlocked f now = false)
    (hfin : c.enc.stopped = true ∨ f.nPk ≤ c.enc.sent) (q : QSess) (post : List QSess) (ticks : List (Nat × Nat))
    (hidx : q.index < q.slots.length) (hjs : q.slots[j]? = some (some c))
    (hoth : ∀ i c0, i ≠ j → q.slots[i]? = some (some c0) → c0.key ≠ k) :
    ∀ (pre : List QSess) (s : State), Kept k f P s → s.quiet = true →
    (∀ q0 ∈ pre, ∀ cur0 ∈ q0.slots, ∀ c0, cur0 = some c0 → c0.key ≠ k) →
    (readQueues s (pre ++ q :: post) now ticks).2.2 = Out.none →
    Inc k (f.info.total + 1) (readQueues s (pre ++ q :: post) now ticks).1 ∨
    (readQueues s (pre ++ q :: post) now ticks).1.fdtQueue ≠ [] := by
  have hj : j < q.slots.length := by
    rcases Nat.lt_or_ge j q.slots.length with h | h
    · exact h
    · rw [List.getElem?_eq_none h] at hjs; cases hjs
  intro pre
  induction pre with
  | nil =>
    intro s h hq _
    simp only [List.nil_append]
    unfold readQueues
    have hr := readQueue_release ht c j q.slots.length hk now hg hfin hj q.slots.length s q ticks h hq rfl hidx hjs hoth
      (rrDist_lt _ _ _ hidx hj)
    have hqr := (readQueue_inv (MonoInv.closed s) q.slots.length s q now ticks [] (Mono.refl s) hq).2
    generalize readQueue q.slots.length s q now ticks = r at hr hqr
    obtain ⟨s', q', out⟩ := r
    simp only [] at hr hqr ⊢
    cases out with
    | none =>
      simp only []
      have hmono := (readQueues_inv (MonoInv.closed s') post s' now ticks [] (Mono.refl s') hqr).1
      have hpend := readQueues_pending post s' now ticks
      generalize readQueues s' post now ticks = r2 at hmono hpend
      obtain ⟨s2, rest2, out2⟩ := r2
      simp only [] at hmono hpend ⊢
      intro _
      rcases hr rfl with h1 | h1
      · exact Or.inl (h1.mono hmono)
      · exact Or.inr (hpend h1).2
    | hang => intro e'; cases e'
    | pkt a b c' d => intro e'; cases e'
    | fdt a b c' => intro e'; cases e'
  | cons q0 pre' ih =>
    intro s h hq hpre
    simp only [List.cons_append]
    unfold readQueues
    have hr := readQueue_other ht q0.slots.length s q0 now ticks h (hpre q0 List.mem_cons_self)
    have hqr := (readQueue_inv (MonoInv.closed s) q0.slots.length s q0 now ticks [] (Mono.refl s) hq).2
    generalize readQueue q0.slots.length s q0 now ticks = r at hr hqr
    obtain ⟨s', q0', out⟩ := r
    simp only [] at hr hqr ⊢
    cases out with
    | none =>
      simp only []
      have h2 := ih s' (hr.2 rfl) hqr (fun q1 hq1 => hpre q1 (List.mem_cons_of_mem _ hq1))
      generalize readQueues s' (pre' ++ q :: post) now ticks = r2 at h2
      obtain ⟨s2, rest2, out2⟩ := r2
      simp only [] at h2 ⊢
      exact h2
    | hang => intro e'; cases e'
    | pkt a b c' d => intro e'; cases e'
    | fdt a b c' => intro e'; cases e'

/-- in every reachable state: a finished transfer (stopped, or all packets sent) with an open pacing gate is released
    by a `read` that returns `None` - afterwards the object's total transfer counter is larger -/
theorem read_release (cfg : Cfg) (tbl : List Nat) (ops : List Op) (pre post : List QSess) (q : QSess) (j : Nat)
    (c : Cur) (f : FileDesc) (now : Nat) (ticks : List (Nat × Nat))
    (hsess : (run (init cfg tbl) ops).sessions = pre ++ q :: post)
    (hjs : q.slots[j]? = some (some c)) (hf : getF (run (init cfg tbl) ops).objs c.key = some f)
    (hg : gateBlocked f now = false) (hfin : c.enc.stopped = true ∨ f.nPk ≤ c.enc.sent) :
    (read (run (init cfg tbl) ops) now ticks).2 = Out.none →
    Inc c.key (f.info.total + 1) (read (run (init cfg tbl) ops) now ticks).1 := by
  have hwq := run_inv Wf.closed Wf.closedOps ops (init cfg tbl) (by rw [heldOf_init]; exact Wf.init cfg tbl) rfl
  have hidx := run_idx cfg tbl ops
  generalize run (init cfg tbl) ops = s at *
  obtain ⟨hw, hquiet⟩ := hwq
  have hheld : heldOf s = held pre ++ (heldQ q ++ held post) := by
    unfold heldOf; rw [hsess]; simp [held]
  have hcq : (q.prio, c) ∈ heldQ q := by
    unfold heldQ heldSlots
    exact List.mem_flatMap.mpr ⟨some c, List.mem_of_getElem? hjs, by simp [optHeld]⟩
  have hcin : (q.prio, c) ∈ heldOf s := by rw [hheld]; exact List.mem_append_right _ (List.mem_append_left _ hcq)
  obtain ⟨f0, hf0, htr, _⟩ := hw.heldObj _ hcin
  rw [hf] at hf0; cases hf0
  have hnd := hw.heldNodup
  rw [hheld, List.map_append, List.nodup_append] at hnd
  obtain ⟨_, hnd2, hnd3⟩ := hnd
  have hpre : ∀ q0 ∈ pre, ∀ cur0 ∈ q0.slots, ∀ c0, cur0 = some c0 → c0.key ≠ c.key := by
    intro q0 hq0 cur0 hcur0 c0 e
    subst e
    have h1 : c0.key ∈ (held pre).map (fun pc => pc.2.key) :=
      List.mem_map.mpr ⟨_, mem_held_of_slot hq0 hcur0, rfl⟩
    have h2 : c.key ∈ (heldQ q ++ held post).map (fun pc => pc.2.key) :=
      List.mem_map.mpr ⟨_, List.mem_append_left _ hcq, rfl⟩
    exact hnd3 _ h1 _ h2
  have hoth : ∀ i c0, i ≠ j → q.slots[i]? = some (some c0) → c0.key ≠ c.key := by
    intro i c0 hij hi
    rw [List.map_append, List.nodup_append] at hnd2
    exact heldSlots_distinct q.prio q.slots i j c0 c hnd2.1 hi hjs hij
  have hqidx : q.index < q.slots.length := hidx q (by rw [hsess]; simp)
  have hkept : Kept c.key f (c.key ∈ s.files) s := ⟨⟨f, hf, rfl, rfl, rfl⟩, Iff.rfl⟩
  unfold read
  have hw0 : Wf (emit s (.opRead now)) (heldOf s) := Wf.emit _ hw
  have hk0 : Kept c.key f (c.key ∈ s.files) (emit s (.opRead now)) := hkept.same rfl rfl
  have hk1 := Kept.runFdt runFuel (emit s (.opRead now)) now hk0
  have hw1 := runFdt_inv Wf.closed runFuel (emit s (.opRead now)) now _ hw0 hquiet
  have hs1 := runFdt_sessions runFuel (emit s (.opRead now)) now
  have ho1 := runFdt_out runFuel (emit s (.opRead now)) now
  generalize hr1 : runFdt runFuel (emit s (.opRead now)) now = r1 at hk1 hw1 hs1 ho1
  obtain ⟨s1, o1⟩ := r1
  simp only [emit_sessions] at hk1 hw1 hs1 ho1
  cases o1 with
  | hang => intro e; cases e
  | fdt a b c' => intro e; cases e
  | pkt a b c' d => exact absurd rfl (ho1 a b c' d)
  | none =>
    simp only []
    have hq1 := runFdt_none runFuel (emit s (.opRead now)) now s1 hr1
    have hw1q : Wf { s1 with quiet := true } (heldOf s) := Wf.enterFiles now hw1.1 hq1
    have hk1q : Kept c.key f (c.key ∈ s.files) { s1 with quiet := true } := hk1.same rfl rfl
    have hSsess : ({ s1 with quiet := true } : State).sessions = pre ++ q :: post := by
      show s1.sessions = _; rw [hs1, hsess]
    have hSq : ({ s1 with quiet := true } : State).quiet = true := rfl
    generalize ({ s1 with quiet := true } : State) = S at hw1q hk1q hSsess hSq ⊢
    unfold readMid
    simp only []
    rw [hSsess]
    have hrel := readQueues_release htr c j rfl now hg hfin q post ticks hqidx hjs hoth pre S hk1q hSq hpre
    have hwq2 := readQueues_inv Wf.closed (pre ++ q :: post) S now ticks []
      (by simpa [heldOf, hsess] using hw1q) hSq
    generalize readQueues S (pre ++ q :: post) now ticks = r2 at hrel hwq2
    obtain ⟨s2, qs, o2⟩ := r2
    simp only [List.append_nil] at hrel hwq2 ⊢
    cases o2 with
    | hang => intro e; cases e
    | fdt a b c' => intro e; cases e
    | pkt a b c' d => intro e; cases e
    | none =>
      simp only []
      have hw2 : Wf { s2 with sessions := qs, quiet := false } (held qs) := Wf.leaveFiles qs hwq2.1
      have hsess2 : ({ s2 with sessions := qs, quiet := false } : State).fdtSess = none := hwq2.1.quiet hwq2.2
      rcases hrel rfl with hinc | hfq
      · intro _
        have hinc2 : Inc c.key (f.info.total + 1) ({ s2 with sessions := qs, quiet := false } : State) := hinc
        have hm := (readTail_inv (MonoInv.closed ({ s2 with sessions := qs, quiet := false } : State))
          ({ s2 with sessions := qs, quiet := false } : State) now (Mono.refl _) rfl).1
        exact hinc2.mono hm
      · unfold readTail
        have e : runFuel = 3 + 1 := rfl
        obtain ⟨k', id, i', he⟩ := runFdt_emits_pending 3 now hw2 hsess2 hfq
        rw [e]
        generalize runFdt (3 + 1) ({ s2 with sessions := qs, quiet := false } : State) now = r3 at he
        obtain ⟨s3, o3⟩ := r3
        simp only [] at he
        subst he
        intro e; cases e

end Flute.Sched
