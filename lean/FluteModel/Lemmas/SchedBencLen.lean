import FluteModel.Lemmas.SchedBencInv
/-
  The packet count `N` of the transfer contract (`Lemmas/SchedBenc.lean`) is the number of source symbols of the object:
  for a codec without repair symbols (`parity = 0`: FEC No-Code as the sender configures it) the complete unforced
  transfer has exactly `⌈len / E⌉` packets - the `nSym` the scheduler model is given for such an object.
-/
namespace Flute.SchedBenc
open Flute Flute.Fec Flute.BlockEnc Flute.BencArith Flute.BencBlocks Flute.BencInv Flute.BencTrace Flute.BencShape Flute.BencPsi

/-- `Σ_{k<n} f k` -/
def S (n : Nat) (f : Nat → Nat) : Nat := ((List.range n).map f).sum

theorem S_zero (f : Nat → Nat) : S 0 f = 0 := rfl

theorem S_succ (n : Nat) (f : Nat → Nat) : S (n + 1) f = S n f + f n := by
  unfold S
  rw [List.range_succ, List.map_append, List.sum_append]
  simp

theorem S_add (n : Nat) (f g : Nat → Nat) : S n (fun k => f k + g k) = S n f + S n g := by
  induction n with
  | zero => rfl
  | succ n ih => rw [S_succ, S_succ, S_succ, ih]; omega

theorem S_congr (n : Nat) (f g : Nat → Nat) (h : ∀ k, k < n → f k = g k) : S n f = S n g := by
  induction n with
  | zero => rfl
  | succ n ih => rw [S_succ, S_succ, ih (fun k hk => h k (by omega)), h n (by omega)]

theorem S_ind (a : Nat) : ∀ n, S n (fun k => if a = k then 1 else 0) = if a < n then 1 else 0 := by
  intro n
  induction n with
  | zero => rfl
  | succ n ih =>
    rw [S_succ, ih]
    by_cases h1 : a < n
    · have : ¬ a = n := by omega
      simp [h1, this]; omega
    · by_cases h2 : a = n
      · simp [h2]
      · have : ¬ a < n + 1 := by omega
        simp [h1, h2, this]

/-- a trace whose packets all have an SBN below `n` is the disjoint union of its per-block projections -/
theorem length_eq_S_proj (n : Nat) : ∀ (tr : List Pkt), (∀ p, p ∈ tr → p.sbn < n) →
    tr.length = S n (fun k => (proj tr k).length) := by
  intro tr
  induction tr with
  | nil =>
    intro _
    have : S n (fun k => (proj [] k).length) = S n (fun _ => 0) := S_congr n _ _ (fun k _ => rfl)
    rw [this]
    have z : ∀ m, S m (fun _ => 0) = 0 := by
      intro m
      induction m with
      | zero => rfl
      | succ m ih => rw [S_succ, ih]
    rw [z]; rfl
  | cons p t ih =>
    intro h
    have hp := h p (by simp)
    have ht := ih (fun q hq => h q (List.mem_cons_of_mem _ hq))
    have : S n (fun k => (proj (p :: t) k).length) =
        S n (fun k => (proj t k).length + (if p.sbn = k then 1 else 0)) := by
      apply S_congr
      intro k _
      unfold proj
      by_cases hk : p.sbn = k
      · simp [hk]
      · simp [hk]
    rw [this, S_add, S_ind, ← ht]
    simp [hp]

theorem S_A_eq_cum (aL aS nL : Nat) : ∀ n, S n (A aL aS nL) = cum aL aS nL n := by
  intro n
  induction n with
  | zero => rw [S_zero, cum_zero]
  | succ n ih => rw [S_succ, ih, cum_succ]

variable {P : Params} {c : Bytes} {aL aS nL n : Nat} {closable : Bool}

/-- **`N = ⌈len / E⌉`** for a codec without repair symbols: the complete unforced transfer has as many packets as the
    object has source symbols -/
theorem complete_length_no_repair {s0 : Enc} (h0 : Run P c aL aS nL n closable [] s0) (hp : P.p = 0)
    {trC : List (Bool × Pkt)} (hC : Complete P c closable trC) : trC.length = divCeil c.length P.e := by
  obtain ⟨s0', sC, hnew, hr, hend⟩ := hC.run
  have hrun : Run P c aL aS nL n closable trC sC := { h0 with reads := ⟨s0', hnew, hr⟩ }
  have htp := Props.C08.transfer_per_block hrun hC.unforced hend
  have hsbn : ∀ p, p ∈ pkts trC → p.sbn < n := by
    intro p hp'
    apply Classical.byContradiction
    intro hge
    have h1 := htp.2 p.sbn (by omega)
    have h2 : pview p ∈ proj (pkts trC) p.sbn := by
      unfold proj
      exact List.mem_map_of_mem (List.mem_filter.mpr ⟨hp', by simp⟩)
    rw [h1] at h2; cases h2
  have hlen : trC.length = (pkts trC).length := by simp [pkts]
  rw [hlen, length_eq_S_proj n (pkts trC) hsbn]
  have hk : ∀ k, k < n → (proj (pkts trC) k).length = A aL aS nL k := by
    intro k hk
    obtain ⟨r, hr', he⟩ := Props.C08.esis_per_block hrun hC.unforced hend k hk
    have := congrArg List.length he
    simp only [List.length_map, List.length_range] at this
    omega
  rw [S_congr n _ _ hk, S_A_eq_cum]
  exact (Props.C08.blocks_tile hrun).2.2

/-- **every FEC No-Code object (no repair symbols) is described with `N = ⌈len / E⌉`** - the hypothesis of
    `slot_is_run` / `pkt_event_is_real` for an object the scheduler model is given with `nSym = ⌈len / E⌉` -/
theorem describes_nocode_divCeil {cl0 : Bool} {s0 : Enc} (h0 : Run P c aL aS nL n cl0 [] s0)
    (hc : P.codec = noCode) (hp : P.p = 0) : Describes P c aL aS nL n (divCeil c.length P.e) := by
  obtain ⟨N, _, hd⟩ := describes_nocode h0 hc
  obtain ⟨s1, trC, hrun, hC, _, hN⟩ := hd.transfer true
  have := complete_length_no_repair hrun hp hC
  rw [← this, hN]
  exact hd

end Flute.SchedBenc
