import FluteModel.Lemmas.BencShape
/-
  The empty object (`transfer_length = 0`): one packet, empty payload, SBN 0 / ESI 0, B set whatever
  `closabled_object` says, then `None`.
-/
namespace Flute.BencEmpty
open Flute Flute.Fec Flute.BlockEnc Flute.BencInv Flute.BencTrace Flute.BencShape

theorem partition_empty (b e : Nat) : Partition.blockPartitioning b 0 e = .ok (0, 0, 0, 0) := by
  unfold Partition.blockPartitioning
  by_cases hb : b = 0
  · simp [hb]
  · by_cases he : e = 0
    · simp [hb, he]
    · have h1 : divCeil 0 e = 0 := by simp [divCeil]
      have h2 : divCeil 0 b = 0 := by simp [divCeil]
      simp [hb, he, h1, h2]

theorem rwa_end {P : Params} {s : Enc} (h : s.readEnd = true) : ∀ m, readWindowAux P m s = s := by
  intro m; cases m with
  | zero => rfl
  | succ m => simp [readWindowAux, h]

/-- the state after the window was (not) filled for an empty object: nothing open, nothing sent, `read_end` -/
structure Drained (s : Enc) : Prop where
  blocks : s.blocks = []
  readEnd : s.readEnd = true
  nbPkt : s.nbPkt = 0

/-- from a drained state of an empty object: the lone packet, then `None` forever -/
theorem drained_reads (P : Params) (hl : P.len = 0) {s : Enc} (hd : Drained s) (hst : s.stopped = false) (f : Bool) :
    ∃ s1, BlockEnc.read P s f = (.pkt emptyPkt, s1) ∧ ∀ f', (BlockEnc.read P s1 f').1 = .none := by
  have key : ∀ (s' : Enc), Drained s' → ∀ force fuel, 0 < fuel → readLoop P force fuel s' = (.pkt emptyPkt, { s' with nbPkt := 1 }) := by
    intro s' hd' force fuel hf
    obtain ⟨fuel, rfl⟩ : ∃ k, fuel = k + 1 := ⟨fuel - 1, by omega⟩
    unfold readLoop
    simp only [readWindow, rwa_end hd'.readEnd, hd'.blocks, List.isEmpty_nil, if_true, hd'.nbPkt, hl]
    simp
  have after : ∀ (s' : Enc), s'.blocks = [] → s'.readEnd = true → s'.nbPkt = 1 → ∀ f', (BlockEnc.read P s' f').1 = .none := by
    intro s' h1 h2 h3 f'
    unfold BlockEnc.read
    split
    · rfl
    · have : ∀ (s'' : Enc), s''.blocks = [] → s''.readEnd = true → s''.nbPkt = 1 → ∀ force fuel, 0 < fuel →
          (readLoop P force fuel s'').1 = .none := by
        intro s'' g1 g2 g3 force fuel hf
        obtain ⟨fuel, rfl⟩ : ∃ k, fuel = k + 1 := ⟨fuel - 1, by omega⟩
        unfold readLoop
        simp [readWindow, rwa_end g2, g1, g3]
      cases f' with
      | true => simp only [if_true]; unfold readFuel; refine this { s' with stopped := true } h1 h2 h3 _ _ ?_; omega
      | false => simp only [Bool.false_eq_true, if_false]; unfold readFuel; refine this _ h1 h2 h3 _ _ ?_; omega
  unfold BlockEnc.read
  simp only [hst, Bool.false_eq_true, if_false]
  cases f with
  | true =>
    simp only [if_true]
    unfold readFuel
    have hk := key { s with stopped := true } ⟨hd.blocks, hd.readEnd, hd.nbPkt⟩ true
      (({ s with stopped := true } : Enc).blocks.length + P.len + P.window + 2) (by omega)
    exact ⟨_, hk, after _ hd.blocks hd.readEnd rfl⟩
  | false =>
    simp only [Bool.false_eq_true, if_false]
    unfold readFuel
    have hk := key s hd false (s.blocks.length + P.len + P.window + 2) (by omega)
    exact ⟨_, hk, after _ hd.blocks hd.readEnd rfl⟩

/-- after the lone packet: `None` forever -/
theorem none_after (P : Params) {s : Enc} (h1 : s.blocks = []) (h2 : s.readEnd = true) (h3 : s.nbPkt = 1) (f : Bool) :
    (BlockEnc.read P s f).1 = .none := by
  unfold BlockEnc.read
  split
  · rfl
  · have : ∀ (s'' : Enc), s''.blocks = [] → s''.readEnd = true → s''.nbPkt = 1 → ∀ force fuel, 0 < fuel →
        (readLoop P force fuel s'').1 = .none := by
      intro s'' g1 g2 g3 force fuel hf
      obtain ⟨fuel, rfl⟩ : ∃ k, fuel = k + 1 := ⟨fuel - 1, by omega⟩
      unfold readLoop
      simp [readWindow, rwa_end g2, g1, g3]
    cases f with
    | true => simp only [if_true]; unfold readFuel; refine this { s with stopped := true } h1 h2 h3 _ _ ?_; omega
    | false => simp only [Bool.false_eq_true, if_false]; unfold readFuel; refine this s h1 h2 h3 _ _ ?_; omega

/-- the loop on a state whose window, once (not) filled, is empty or holds one block without shards -/
theorem loop_lone (P : Params) (hl : P.len = 0) (force : Bool) (s : Enc) (fuel : Nat) (hf : 2 ≤ fuel)
    (hre : (readWindow P s).readEnd = true) (hnb : (readWindow P s).nbPkt = 0)
    (hb : (readWindow P s).blocks = [] ∨ ∃ blk, (readWindow P s).blocks = [blk] ∧ blk.shards = []) :
    ∃ s2, readLoop P force fuel s = (.pkt emptyPkt, s2) ∧ s2.blocks = [] ∧ s2.readEnd = true ∧ s2.nbPkt = 1 := by
  obtain ⟨fuel, rfl⟩ : ∃ k, fuel = k + 2 := ⟨fuel - 2, by omega⟩
  have key : ∀ (s' : Enc), s'.blocks = [] → s'.readEnd = true → s'.nbPkt = 0 → ∀ fuel,
      readLoop P force (fuel + 1) s' = (.pkt emptyPkt, { s' with nbPkt := 1 }) := by
    intro s' g1 g2 g3 fuel
    unfold readLoop
    simp only [readWindow, rwa_end g2, g1, List.isEmpty_nil, if_true, g3, hl]
    simp
  rcases hb with hb | ⟨blk, hb, hsh⟩
  · unfold readLoop
    simp only [hb, List.isEmpty_nil, if_true, hnb, hl, ne_eq, not_true_eq_false, if_false]
    exact ⟨_, rfl, rfl, hre, rfl⟩
  · unfold readLoop
    simp only [hb, List.isEmpty_cons, Bool.false_eq_true, if_false, List.length_singleton]
    have hidx : (if (readWindow P s).idx ≥ 1 then 0 else (readWindow P s).idx) = 0 := by split <;> omega
    simp only [hidx, List.getElem?_cons_zero, Block.read, hsh, List.getElem?_nil, List.eraseIdx_cons_zero]
    exact ⟨_, key { readWindow P s with idx := 0, blocks := [] } rfl hre hnb fuel, rfl, hre, rfl⟩

/-- the lone empty-object packet: B set whatever `closabled_object` says; then `None` for ever -/
theorem lone_packet (P : Params) (hl : P.len = 0) (s : Enc) (hst : s.stopped = false)
    (h : ∀ b : Bool, (readWindow P { s with stopped := b }).readEnd = true ∧ (readWindow P { s with stopped := b }).nbPkt = 0 ∧
      ((readWindow P { s with stopped := b }).blocks = [] ∨
        ∃ blk, (readWindow P { s with stopped := b }).blocks = [blk] ∧ blk.shards = [])) (f : Bool) :
    ∃ s2, BlockEnc.read P s f = (.pkt emptyPkt, s2) ∧ ∀ f', (BlockEnc.read P s2 f').1 = .none := by
  unfold BlockEnc.read
  simp only [hst, Bool.false_eq_true, if_false]
  cases f with
  | true =>
    simp only [if_true]
    obtain ⟨h1, h2, h3⟩ := h true
    obtain ⟨s2, e, g1, g2, g3⟩ := loop_lone P hl true { s with stopped := true } (readFuel P { s with stopped := true })
      (by unfold readFuel; omega) h1 h2 h3
    exact ⟨s2, e, none_after P g1 g2 g3⟩
  | false =>
    simp only [Bool.false_eq_true, if_false]
    obtain ⟨h1, h2, h3⟩ := h false
    have hs : ({ s with stopped := false } : Enc) = s := by cases s; simp_all
    rw [hs] at h1 h2 h3
    obtain ⟨s2, e, g1, g2, g3⟩ := loop_lone P hl false s (readFuel P s) (by unfold readFuel; omega) h1 h2 h3
    exact ⟨s2, e, none_after P g1 g2 g3⟩

/-- the encoder of an empty object right after `BlockEncoder::new` (`block_partitioning` = zeros) -/
def fresh (src : Source) (readEnd stopped closable : Bool) : Enc :=
  { src := src, off := 0, sbn := 0, aL := 0, aS := 0, nL := 0, nB := 0, blocks := [], idx := 0, readEnd := readEnd, srcSent := 0, nbPkt := 0, stopped := stopped, closable := closable }

/-- a stream source holding no byte: whatever the codec, the lone packet -/
theorem empty_stream (P : Params) (hnl : P.legacy = false) (hl : P.len = 0) (hw : 1 ≤ P.window)
    (st : BlockEnc.Stream) (hb : st.bytes = [])
    (closable : Bool) (f : Bool) :
    ∃ s0 s2, Enc.new P (.stream st) closable = .ok s0 ∧ BlockEnc.read P s0 f = (.pkt emptyPkt, s2) ∧
      ∀ f', (BlockEnc.read P s2 f').1 = .none := by
  obtain ⟨w, hw'⟩ : ∃ w, P.window = w + 1 := ⟨P.window - 1, by omega⟩
  have hnew : Enc.new P (.stream st) closable = .ok (fresh (.stream st.rewind) false false closable) := by
    unfold Enc.new fresh; simp only [hl, partition_empty]
  have hrb : ∀ b : Bool, readBlock P (fresh (.stream st.rewind) false b closable) = fresh (.stream st.rewind) true b closable := by
    intro b
    unfold readBlock readBlockStream fresh
    simp [hnl, Enc.blockLength, fill]
  have hrw : ∀ b : Bool, readWindow P (fresh (.stream st.rewind) false b closable) = fresh (.stream st.rewind) true b closable := by
    intro b
    unfold readWindow
    rw [hw']
    have h1 : (fresh (.stream st.rewind) false b closable).readEnd = false := rfl
    have h2 : (fresh (.stream st.rewind) false b closable).blocks.length < P.window := by rw [hw']; exact Nat.succ_pos _
    rw [Flute.BencInv.rwa_succ_cut h1 h2, hrb b, rwa_end rfl]
  obtain ⟨s2, e, h2⟩ := lone_packet P hl (fresh (.stream st.rewind) false false closable) rfl
    (fun b => by
      have : ({ fresh (.stream st.rewind) false false closable with stopped := b } : Enc) = fresh (.stream st.rewind) false b closable := rfl
      rw [this, hrw b]; exact ⟨rfl, rfl, Or.inl rfl⟩) f
  exact ⟨_, s2, hnew, e, h2⟩

/-- a buffer source holding no byte, with a codec that yields no shard for the empty buffer (creation refused, or
    zero source symbols and zero repair symbols): the lone packet -/
theorem empty_buffer (P : Params) (hl : P.len = 0) (hw : 1 ≤ P.window)
    (hq : Block.new P 0 [] = none ∨ ∃ blk, Block.new P 0 [] = some blk ∧ blk.shards = [])
    (closable : Bool) (f : Bool) :
    ∃ s0 s2, Enc.new P (.buffer []) closable = .ok s0 ∧ BlockEnc.read P s0 f = (.pkt emptyPkt, s2) ∧
      ∀ f', (BlockEnc.read P s2 f').1 = .none := by
  obtain ⟨w, hw'⟩ : ∃ w, P.window = w + 1 := ⟨P.window - 1, by omega⟩
  have hnew : Enc.new P (.buffer []) closable = .ok (fresh (.buffer []) false false closable) := by
    unfold Enc.new fresh; simp only [hl, partition_empty]
  have h1 : ∀ b, (fresh (.buffer []) false b closable).readEnd = false := fun _ => rfl
  have h2 : ∀ b, (fresh (.buffer []) false b closable).blocks.length < P.window := by
    intro b; rw [hw']; exact Nat.succ_pos _
  have hst : ∀ b, ({ fresh (.buffer []) false false closable with stopped := b } : Enc) = fresh (.buffer []) false b closable :=
    fun _ => rfl
  rcases hq with hq | ⟨blk, hq, hsh⟩
  · have hrb : ∀ b : Bool, readBlock P (fresh (.buffer []) false b closable) = fresh (.buffer []) true b closable := by
      intro b
      unfold readBlock readBlockBuffer fresh
      simp [Enc.blockLength, hq]
    obtain ⟨s2, e, h3⟩ := lone_packet P hl (fresh (.buffer []) false false closable) rfl
      (fun b => by
        rw [hst b]; unfold readWindow
        rw [hw', Flute.BencInv.rwa_succ_cut (h1 b) (h2 b), hrb b, rwa_end rfl]; exact ⟨rfl, rfl, Or.inl rfl⟩) f
    exact ⟨_, s2, hnew, e, h3⟩
  · have hrb : ∀ b : Bool, readBlock P (fresh (.buffer []) false b closable) =
        { fresh (.buffer []) true b closable with blocks := [blk], sbn := 1 } := by
      intro b
      unfold readBlock readBlockBuffer fresh
      simp [Enc.blockLength, hq]
    obtain ⟨s2, e, h3⟩ := lone_packet P hl (fresh (.buffer []) false false closable) rfl
      (fun b => by
        rw [hst b]; unfold readWindow
        rw [hw', Flute.BencInv.rwa_succ_cut (h1 b) (h2 b), hrb b, rwa_end rfl]
        exact ⟨rfl, rfl, Or.inr ⟨blk, rfl, hsh⟩⟩) f
    exact ⟨_, s2, hnew, e, h3⟩

/-- the codec yields no shard for the empty buffer -/
def Quiet (P : Params) : Prop := Block.new P 0 [] = none ∨ ∃ blk, Block.new P 0 [] = some blk ∧ blk.shards = []

theorem noCode_quiet (P : Params) (h : P.codec = noCode) : Quiet P := by
  unfold Quiet Block.new
  by_cases he : P.e = 0
  · left; simp [he]
  · right
    simp [he, h, Codec.encode, noCode, chunks, divCeil, number]

theorem reedSolomon_quiet (P : Params) (rep) (h : P.codec = reedSolomon rep) : Quiet P := by
  unfold Quiet Block.new
  left
  by_cases he : P.e = 0
  · simp [he]
  · simp [he, h, Codec.encode, reedSolomon, divCeil]

end Flute.BencEmpty
