import FluteModel.Lemmas.SchedFrame
/-
  `Wf`: the structural part of the scheduler invariant `SInv` (DESIGN §9 (i), (v), (vi)):
  descriptor stores, waiting queue ⊆ files, slots hold distinct objects that are `transferring`,
  shape and freshness of FDT descriptors, FDT session = current FDT instance.
-/
namespace Flute.Sched

theorem getF_append_some {l r : List FileDesc} {k : Nat} {f : FileDesc} (h : getF l k = some f) :
    getF (l ++ r) k = some f := by
  unfold getF at *; rw [List.find?_append, h]; rfl

theorem getF_append_none {l r : List FileDesc} {k : Nat} (h : getF l k = none) :
    getF (l ++ r) k = getF r k := by
  unfold getF at *; rw [List.find?_append, h]; rfl

theorem getF_none_of_keys {l : List FileDesc} {k : Nat} (h : ∀ f ∈ l, f.key ≠ k) : getF l k = none := by
  unfold getF; rw [List.find?_eq_none]; intro f hf; simpa using h f hf

theorem getF_single (fd : FileDesc) (k : Nat) : getF [fd] k = if fd.key = k then some fd else none := by
  rw [getF_cons]; rfl

theorem mem_updF {l : List FileDesc} {k : Nat} {g : FileDesc → FileDesc} {f : FileDesc} (h : f ∈ updF l k g) :
    ∃ f0 ∈ l, f = if f0.key = k then g f0 else f0 := by
  unfold updF at h
  rw [List.mem_map] at h
  obtain ⟨f0, h0, rfl⟩ := h
  refine ⟨f0, h0, ?_⟩
  by_cases hk : f0.key = k <;> simp [hk]

/-- shape of an FDT descriptor (`Fdt::publish`) -/
structure FdtShape (tbl : List Nat) (f : FileDesc) : Prop where
  isFdt : f.isFdt = true
  target : f.target = none
  nextTs : f.info.nextTs = none
  prio : f.prio = 0
  published : f.published = true
  startTime : f.info.startTime = none
  maxCount : f.maxCount = 1
  carousel : f.carousel.isSome = true
  nSym : f.nSym = tblGet tbl f.key

def Fresh (f : FileDesc) : Prop := f.info.transferring = false ∧ f.info.count = 0 ∧ f.info.total = 0

structure Wf (s : State) (L : Held) : Prop where
  queueFiles : ∀ t ∈ s.queue, t ∈ s.files
  queueObj : ∀ t ∈ s.queue, ∃ f, getF s.objs t = some f ∧ f.info.transferring = false
  heldObj : ∀ pc ∈ L, ∃ f, getF s.objs pc.2.key = some f ∧ f.info.transferring = true ∧ f.prio = pc.1
  heldNodup : (L.map (fun pc => pc.2.key)).Nodup
  transHeld : ∀ f ∈ s.objs, f.info.transferring = true → ∃ pc ∈ L, pc.2.key = f.key
  objKeys : ∀ f ∈ s.objs, f.isFdt = false ∧ 0 < f.key ∧ f.key < s.nextToi
  filesKeys : ∀ t ∈ s.files, t < s.nextToi
  fdtKeys : ∀ f ∈ s.fdts, f.key < s.fdts.length ∧ FdtShape s.fdtPkts f
  fdtQueue : ∀ k ∈ s.fdtQueue, ∃ f, getF s.fdts k = some f ∧ Fresh f
  fdtSessSome : ∀ c, s.fdtSess = some c → s.curFdt = some c.key ∧ c.enc.stopped = false ∧
    ∃ f, getF s.fdts c.key = some f ∧ f.info.transferring = true ∧ c.enc.sent ≤ f.nPk
  fdtSessNone : s.fdtSess = none → fdtBusy s = false
  curFdt : ∀ k, s.curFdt = some k → ∃ f, getF s.fdts k = some f
  quiet : s.quiet = true → s.fdtSess = none
  queueNodup : s.queue.Nodup
  fdtQueueNodup : s.fdtQueue.Nodup
  curNotQueued : ∀ k, s.curFdt = some k → k ∉ s.fdtQueue
  nextToiPos : 0 < s.nextToi

theorem gate_of_shape {tbl : List Nat} {f : FileDesc} (h : FdtShape tbl f) (now : Nat) : gateBlocked f now = false := by
  unfold gateBlocked; rw [h.nextTs]

theorem Wf.perm {s : State} {L L' : Held} (p : L.Perm L') (h : Wf s L) : Wf s L' :=
  { h with
    heldObj := fun pc hpc => h.heldObj pc (p.mem_iff.mpr hpc)
    heldNodup := (p.map _).nodup_iff.mp h.heldNodup
    transHeld := fun f hf ht => by
      obtain ⟨pc, hpc, e⟩ := h.transHeld f hf ht
      exact ⟨pc, p.mem_iff.mp hpc, e⟩ }

theorem Wf.leaveFiles {s : State} {L : Held} (qs : List QSess) (h : Wf s L) :
    Wf { s with sessions := qs, quiet := false } L :=
  { queueFiles := h.queueFiles, queueObj := h.queueObj, heldObj := h.heldObj, heldNodup := h.heldNodup,
    transHeld := h.transHeld, objKeys := h.objKeys, filesKeys := h.filesKeys, fdtKeys := h.fdtKeys,
    fdtQueue := h.fdtQueue, fdtSessSome := h.fdtSessSome, fdtSessNone := h.fdtSessNone, curFdt := h.curFdt,
    queueNodup := h.queueNodup, fdtQueueNodup := h.fdtQueueNodup, curNotQueued := h.curNotQueued,
    nextToiPos := h.nextToiPos,
    quiet := fun hq => by simp at hq }

theorem Wf.enterFiles {s : State} {L : Held} (now : Nat) (h : Wf s L) (q : FdtQuiet s now) :
    Wf { s with quiet := true } L :=
  { queueFiles := h.queueFiles, queueObj := h.queueObj, heldObj := h.heldObj, heldNodup := h.heldNodup,
    transHeld := h.transHeld, objKeys := h.objKeys, filesKeys := h.filesKeys, fdtKeys := h.fdtKeys,
    fdtQueue := h.fdtQueue, fdtSessSome := h.fdtSessSome, fdtSessNone := h.fdtSessNone, curFdt := h.curFdt,
    queueNodup := h.queueNodup, fdtQueueNodup := h.fdtQueueNodup, curNotQueued := h.curNotQueued,
    nextToiPos := h.nextToiPos,
    quiet := fun _ => by
      rcases q with ⟨hn, _⟩ | ⟨c, hc, hb⟩
      · exact hn
      · obtain ⟨_, _, f, hf, _, _⟩ := h.fdtSessSome c hc
        rcases hb with hb | ⟨f', hf', hg⟩
        · rw [hf] at hb; simp at hb
        · rw [hf] at hf'; cases hf'
          rw [gate_of_shape (h.fdtKeys f (getF_mem hf)).2] at hg; simp at hg }

theorem Wf.emit {s : State} {L : Held} (e : Ev) (h : Wf s L) : Wf (emit s e) L :=
  { queueFiles := h.queueFiles, queueObj := h.queueObj, heldObj := h.heldObj, heldNodup := h.heldNodup,
    transHeld := h.transHeld, objKeys := h.objKeys, filesKeys := h.filesKeys, fdtKeys := h.fdtKeys,
    fdtQueue := h.fdtQueue, fdtSessSome := h.fdtSessSome, fdtSessNone := h.fdtSessNone, curFdt := h.curFdt,
    queueNodup := h.queueNodup, fdtQueueNodup := h.fdtQueueNodup, curNotQueued := h.curNotQueued,
    nextToiPos := h.nextToiPos,
    quiet := h.quiet }

/-- what `publish` does to an object descriptor -/
def pubMark (files : List Nat) (f : FileDesc) : FileDesc :=
  if files.contains f.key then { f with published := true } else f

@[simp] theorem pubMark_key (fs : List Nat) (f : FileDesc) : (pubMark fs f).key = f.key := by
  unfold pubMark; split <;> rfl
@[simp] theorem pubMark_info (fs : List Nat) (f : FileDesc) : (pubMark fs f).info = f.info := by
  unfold pubMark; split <;> rfl
@[simp] theorem pubMark_prio (fs : List Nat) (f : FileDesc) : (pubMark fs f).prio = f.prio := by
  unfold pubMark; split <;> rfl
@[simp] theorem pubMark_isFdt (fs : List Nat) (f : FileDesc) : (pubMark fs f).isFdt = f.isFdt := by
  unfold pubMark; split <;> rfl

theorem publish_objs (s : State) (now : Nat) : (publish s now).objs = s.objs.map (pubMark s.files) := rfl

theorem publish_getF_objs (s : State) (now t : Nat) :
    getF (publish s now).objs t = (getF s.objs t).map (pubMark s.files) := by
  rw [publish_objs]; exact getF_map _ _ (pubMark_key _) _

/-- the descriptor created by the `k`-th publication -/
def pubDesc (s : State) : FileDesc :=
  { key := s.fdts.length, isFdt := true, fdtId := s.fdtid % 1048576,
    content := (match s.cfg.mode with | .full => s.files | .being => s.files.filter (isTransferring s)),
    prio := 0, nSym := tblGet s.fdtPkts s.fdts.length, maxCount := 1, carousel := some s.cfg.fdtCarousel,
    target := none, allowStop := false, published := true, info := {} }

theorem publish_fdts (s : State) (now : Nat) : (publish s now).fdts = s.fdts ++ [pubDesc s] := rfl
theorem publish_fdtQueue (s : State) (now : Nat) : (publish s now).fdtQueue = s.fdtQueue ++ [s.fdts.length] := rfl

theorem pubDesc_shape (s : State) : FdtShape s.fdtPkts (pubDesc s) :=
  ⟨rfl, rfl, rfl, rfl, rfl, rfl, rfl, rfl, rfl⟩

theorem Wf.getF_new {s : State} {L : Held} (h : Wf s L) : getF s.fdts s.fdts.length = none :=
  getF_none_of_keys (fun f hf => Nat.ne_of_lt (h.fdtKeys f hf).1)

theorem Wf.publish {s : State} {L : Held} (now : Nat) (h : Wf s L) : Wf (publish s now) L where
  queueFiles := h.queueFiles
  queueObj := fun t ht => by
    obtain ⟨f, hf, htr⟩ := h.queueObj t ht
    exact ⟨pubMark s.files f, by rw [publish_getF_objs, hf]; rfl, by simpa using htr⟩
  heldObj := fun pc hpc => by
    obtain ⟨f, hf, htr, hp⟩ := h.heldObj pc hpc
    exact ⟨pubMark s.files f, by rw [publish_getF_objs, hf]; rfl, by simpa using htr, by simpa using hp⟩
  heldNodup := h.heldNodup
  transHeld := fun f hf htr => by
    rw [publish_objs, List.mem_map] at hf
    obtain ⟨f0, hf0, rfl⟩ := hf
    obtain ⟨pc, hpc, e⟩ := h.transHeld f0 hf0 (by simpa using htr)
    exact ⟨pc, hpc, by simpa using e⟩
  objKeys := fun f hf => by
    rw [publish_objs, List.mem_map] at hf
    obtain ⟨f0, hf0, rfl⟩ := hf
    have := h.objKeys f0 hf0
    exact ⟨by simpa using this.1, by simpa using this.2.1, by simpa using (show f0.key < (Sched.publish s now).nextToi from this.2.2)⟩
  filesKeys := h.filesKeys
  fdtKeys := fun f hf => by
    rw [publish_fdts, List.mem_append] at hf
    rw [publish_fdts, List.length_append]
    rcases hf with hf | hf
    · exact ⟨Nat.lt_succ_of_lt (h.fdtKeys f hf).1, (h.fdtKeys f hf).2⟩
    · simp only [List.mem_singleton] at hf; subst hf
      exact ⟨Nat.lt_succ_self _, pubDesc_shape s⟩
  fdtQueue := fun k hk => by
    rw [publish_fdtQueue, List.mem_append] at hk
    rw [publish_fdts]
    rcases hk with hk | hk
    · obtain ⟨f, hf, hfr⟩ := h.fdtQueue k hk
      exact ⟨f, getF_append_some hf, hfr⟩
    · simp only [List.mem_singleton] at hk; subst hk
      refine ⟨pubDesc s, ?_, rfl, rfl, rfl⟩
      rw [getF_append_none h.getF_new, getF_single]; simp [pubDesc]
  fdtSessSome := fun c hc => by
    obtain ⟨h1, h2, f, hf, h3⟩ := h.fdtSessSome c hc
    exact ⟨h1, h2, f, by rw [publish_fdts]; exact getF_append_some hf, h3⟩
  fdtSessNone := fun hn => by
    have hb := h.fdtSessNone hn
    unfold fdtBusy at hb ⊢
    show (match s.curFdt with
      | some k => (match getF (Sched.publish s now).fdts k with | some f => f.info.transferring | none => false)
      | none => false) = false
    cases hk : s.curFdt with
    | none => rfl
    | some k =>
      obtain ⟨f, hf⟩ := h.curFdt k hk
      simp only [hk, hf] at hb
      simp only [publish_fdts, getF_append_some hf]
      exact hb
  curFdt := fun k hk => by
    obtain ⟨f, hf⟩ := h.curFdt k hk
    exact ⟨f, by rw [publish_fdts]; exact getF_append_some hf⟩
  quiet := h.quiet
  queueNodup := h.queueNodup
  nextToiPos := h.nextToiPos
  fdtQueueNodup := by
    rw [publish_fdtQueue]
    refine List.nodup_append.mpr ⟨h.fdtQueueNodup, by simp, ?_⟩
    intro a ha b hb
    simp only [List.mem_singleton] at hb; subst hb
    obtain ⟨f, hf, _⟩ := h.fdtQueue a ha
    have := (h.fdtKeys f (getF_mem hf)).1
    rw [getF_key hf] at this
    omega
  curNotQueued := fun k hk => by
    rw [publish_fdtQueue, List.mem_append]
    rintro (hq | hq)
    · exact h.curNotQueued k hk hq
    · simp only [List.mem_singleton] at hq
      obtain ⟨f, hf⟩ := h.curFdt k hk
      have := (h.fdtKeys f (getF_mem hf)).1
      rw [getF_key hf] at this
      omega

theorem Wf.publishTry {s : State} {L : Held} (now : Nat) (h : Wf s L) : Wf (Sched.publishTry s now) L := by
  rcases publishTry_cases s now with e | e
  · rw [e]; exact Wf.publish now h
  · rw [e]; exact h

/-! ### descriptor updates -/

@[simp] theorem transferInit_key (f : FileDesc) (now tk : Nat) : (transferInit f now tk).key = f.key := rfl
@[simp] theorem transferInit_prio (f : FileDesc) (now tk : Nat) : (transferInit f now tk).prio = f.prio := rfl
@[simp] theorem transferInit_isFdt (f : FileDesc) (now tk : Nat) : (transferInit f now tk).isFdt = f.isFdt := rfl
@[simp] theorem transferInit_transferring (f : FileDesc) (now tk : Nat) :
    (transferInit f now tk).info.transferring = true := rfl
@[simp] theorem transferInit_nSym (f : FileDesc) (now tk : Nat) : (transferInit f now tk).nSym = f.nSym := rfl
@[simp] theorem transferInit_nPk (f : FileDesc) (now tk : Nat) : (transferInit f now tk).nPk = f.nPk := rfl

@[simp] theorem tickInfo_key (f : FileDesc) : (tickInfo f).key = f.key := rfl
@[simp] theorem tickInfo_prio (f : FileDesc) : (tickInfo f).prio = f.prio := rfl
@[simp] theorem tickInfo_isFdt (f : FileDesc) : (tickInfo f).isFdt = f.isFdt := rfl
@[simp] theorem tickInfo_nSym (f : FileDesc) : (tickInfo f).nSym = f.nSym := rfl
@[simp] theorem tickInfo_transferring (f : FileDesc) : (tickInfo f).info.transferring = f.info.transferring := by
  unfold tickInfo FileDesc.updInfo; simp only []; split <;> rfl

theorem tickInfo_of_nextTs_none {f : FileDesc} (h : f.info.nextTs = none) : tickInfo f = f := by
  unfold tickInfo FileDesc.updInfo
  simp only []
  split
  · rename_i t n h1 h2; rw [h] at h2; cases h2
  · rfl

@[simp] theorem doneInfo_key (f : FileDesc) (now : Nat) : (transferDoneInfo f now).key = f.key := rfl
@[simp] theorem doneInfo_prio (f : FileDesc) (now : Nat) : (transferDoneInfo f now).prio = f.prio := rfl
@[simp] theorem doneInfo_isFdt (f : FileDesc) (now : Nat) : (transferDoneInfo f now).isFdt = f.isFdt := rfl
@[simp] theorem doneInfo_transferring (f : FileDesc) (now : Nat) :
    (transferDoneInfo f now).info.transferring = false := rfl

@[simp] theorem reset_key (f : FileDesc) (ts : Option Nat) : (resetLastTransfer f ts).key = f.key := rfl
@[simp] theorem reset_prio (f : FileDesc) (ts : Option Nat) : (resetLastTransfer f ts).prio = f.prio := rfl
@[simp] theorem reset_isFdt (f : FileDesc) (ts : Option Nat) : (resetLastTransfer f ts).isFdt = f.isFdt := rfl
@[simp] theorem reset_transferring (f : FileDesc) (ts : Option Nat) :
    (resetLastTransfer f ts).info.transferring = f.info.transferring := rfl

theorem wantsTick_of_target_none {f : FileDesc} (h : f.target = none) : wantsTick f = false := by
  unfold wantsTick; rw [h]

theorem transferInit_shape {tbl : List Nat} {f : FileDesc} (h : FdtShape tbl f) (now tk : Nat) :
    FdtShape tbl (transferInit f now tk) := by
  refine ⟨h.isFdt, h.target, ?_, h.prio, h.published, h.startTime, h.maxCount, h.carousel, h.nSym⟩
  show (if (if wantsTick f then some tk else none : Option Nat).isSome then some now else f.info.nextTs) = none
  rw [wantsTick_of_target_none h.target]
  simpa using h.nextTs

theorem doneInfo_shape {tbl : List Nat} {f : FileDesc} (h : FdtShape tbl f) (now : Nat) :
    FdtShape tbl (transferDoneInfo f now) :=
  ⟨h.isFdt, h.target, h.nextTs, h.prio, h.published, h.startTime, h.maxCount, h.carousel, h.nSym⟩

theorem isExpired_of_shape {tbl : List Nat} {f : FileDesc} (h : FdtShape tbl f) : isExpired f = false := by
  unfold isExpired
  split
  · rfl
  · cases hc : f.carousel with
    | none => have := h.carousel; rw [hc] at this; simp at this
    | some c => rfl

theorem length_updF (l : List FileDesc) (k : Nat) (g : FileDesc → FileDesc) : (updF l k g).length = l.length := by
  simp [updF]

/-! ### the encoder abstraction -/

theorem encRead_false_some {n : Nat} {e e' : Enc} {idx : Nat} {b : Bool}
    (h : encRead n e false = (some (idx, b), e')) (hs : e.stopped = false) :
    idx = e.sent ∧ e' = { e with sent := e.sent + 1 } ∧ e.sent < (if n = 0 then 1 else n) := by
  unfold encRead at h
  simp only [hs, Bool.false_eq_true, if_false] at h
  split at h
  · rename_i hn
    split at h
    · rename_i h0
      simp only [Prod.mk.injEq, Option.some.injEq] at h
      obtain ⟨⟨h1, _⟩, h2⟩ := h
      simp only [hn, if_true]
      exact ⟨by omega, by rw [← h2, h0, hs], by omega⟩
    · simp at h
  · rename_i hn
    split at h
    · rename_i hlt
      simp only [Prod.mk.injEq, Option.some.injEq] at h
      obtain ⟨⟨h1, _⟩, h2⟩ := h
      simp only [hn, if_false]
      exact ⟨h1.symm, by rw [← h2, hs], hlt⟩
    · simp at h

theorem encRead_false_none {n : Nat} {e e' : Enc}
    (h : encRead n e false = (none, e')) (hs : e.stopped = false) :
    (if n = 0 then 1 else n) ≤ e.sent := by
  unfold encRead at h
  simp only [hs, Bool.false_eq_true, if_false] at h
  split at h
  · rename_i hn
    split at h
    · simp at h
    · simp only [hn, if_true]; omega
  · rename_i hn
    split at h
    · simp at h
    · simp only [hn, if_false]; omega

/-! ### FDT session primitives -/

theorem Wf.fdtPop {s : State} {L : Held} {k : Nat} {rest : List Nat} (h : Wf s L)
    (hs : s.fdtSess = none) (hq : s.fdtQueue = k :: rest) :
    Wf { s with curFdt := some k, fdtQueue := rest } L := by
  have hk : k ∈ s.fdtQueue := by rw [hq]; simp
  have hnd : (k :: rest).Nodup := hq ▸ h.fdtQueueNodup
  obtain ⟨f, hf, hfr⟩ := h.fdtQueue k hk
  exact
  { queueFiles := h.queueFiles, queueObj := h.queueObj, heldObj := h.heldObj, heldNodup := h.heldNodup,
    transHeld := h.transHeld, objKeys := h.objKeys, filesKeys := h.filesKeys, fdtKeys := h.fdtKeys,
    queueNodup := h.queueNodup, nextToiPos := h.nextToiPos, quiet := h.quiet,
    fdtQueue := fun k' hk' => h.fdtQueue k' (by rw [hq]; exact List.mem_cons_of_mem _ hk')
    fdtSessSome := fun c hc => by simp [hs] at hc
    fdtSessNone := fun _ => by
      show fdtBusy { s with curFdt := some k, fdtQueue := rest } = false
      unfold fdtBusy; simp only [hf]; exact hfr.1
    curFdt := fun k' hk' => by
      simp only [Option.some.injEq] at hk'; subst hk'; exact ⟨f, hf⟩
    fdtQueueNodup := (List.nodup_cons.mp hnd).2
    curNotQueued := fun k' hk' => by
      simp only [Option.some.injEq] at hk'; subst hk'; exact (List.nodup_cons.mp hnd).1 }

theorem Wf.fdtStart {s : State} {L : Held} {k : Nat} {f : FileDesc} (now : Nat) (h : Wf s L)
    (hqt : s.quiet = false) (hk : s.curFdt = some k) (hf : getF s.fdts k = some f) :
    Wf { fdtStartStep s k now with fdtSess := some (startFdtCur k) } L := by
  have hkey : ∀ g : FileDesc, (transferInit g now 0).key = g.key := fun _ => rfl
  exact
  { queueFiles := h.queueFiles, queueObj := h.queueObj, heldObj := h.heldObj, heldNodup := h.heldNodup,
    transHeld := h.transHeld, objKeys := h.objKeys, filesKeys := h.filesKeys,
    queueNodup := h.queueNodup, nextToiPos := h.nextToiPos,
    fdtQueueNodup := h.fdtQueueNodup, curNotQueued := h.curNotQueued,
    quiet := fun hq => by
      have : s.quiet = true := hq
      rw [hqt] at this; cases this
    fdtKeys := fun f' hf' => by
      show f'.key < (updF s.fdts k _).length ∧ _
      rw [length_updF]
      obtain ⟨f0, hf0, rfl⟩ := mem_updF hf'
      split
      · exact ⟨(h.fdtKeys f0 hf0).1, transferInit_shape (h.fdtKeys f0 hf0).2 now 0⟩
      · exact h.fdtKeys f0 hf0
    fdtQueue := fun k' hk' => by
      obtain ⟨f', hf', hfr⟩ := h.fdtQueue k' hk'
      have hne : k' ≠ k := fun e => h.curNotQueued k hk (e ▸ hk')
      refine ⟨f', ?_, hfr⟩
      show getF (updF s.fdts k _) k' = some f'
      rw [getF_updF _ _ _ _ hkey, if_neg hne]; exact hf'
    fdtSessSome := fun c hc => by
      have : c = startFdtCur k := by
        have : some (startFdtCur k) = some c := hc
        exact (Option.some.inj this).symm
      subst this
      refine ⟨hk, rfl, transferInit f now 0, ?_, rfl, Nat.zero_le _⟩
      show getF (updF s.fdts k _) k = _
      rw [getF_updF _ _ _ _ hkey, if_pos rfl, hf]; rfl
    fdtSessNone := fun hn => by
      have : some (startFdtCur k) = none := hn
      cases this
    curFdt := fun k' hk' => by
      have hk'' : s.curFdt = some k' := hk'
      rw [hk] at hk''; cases hk''
      refine ⟨transferInit f now 0, ?_⟩
      show getF (updF s.fdts k _) k = _
      rw [getF_updF _ _ _ _ hkey, if_pos rfl, hf]; rfl }

theorem Wf.fdtPop' {s : State} {L : Held} (h : Wf s L) (hs : s.fdtSess = none) : Wf (Sched.fdtPop s) L := by
  unfold Sched.fdtPop
  split
  · rename_i k rest hq; exact Wf.fdtPop h hs hq
  · exact h

theorem Wf.fdtAdvance {s : State} {L : Held} (now : Nat) (h : Wf s L)
    (hqt : s.quiet = false) (hs : s.fdtSess = none) : Wf (Sched.fdtAdvance s now) L := by
  have h1 := Wf.fdtPop' h hs
  have hq1 : (Sched.fdtPop s).quiet = false := by rw [fdtPop_quiet, hqt]
  rcases fdtAdvance_cases s now with ⟨e, _⟩ | ⟨k, f, hk, hf, _, e⟩
  · rw [e]; exact h1
  · rw [e]; exact Wf.fdtStart now h1 hq1 hk hf

theorem updF_tick_fdts {s : State} {L : Held} (h : Wf s L) (k : Nat) : updF s.fdts k tickInfo = s.fdts := by
  unfold updF
  conv => rhs; rw [← List.map_id s.fdts]
  apply List.map_congr_left
  intro f hf
  split
  · exact tickInfo_of_nextTs_none (h.fdtKeys f hf).2.nextTs
  · rfl

theorem Wf.fdtPkt {s : State} {L : Held} {c : Cur} {f : FileDesc} {now idx : Nat} {b : Bool} {e : Enc}
    (h : Wf s L) (hqt : s.quiet = false) (hc : s.fdtSess = some c) (hf : getF s.fdts c.key = some f)
    (he : encRead f.nSym c.enc false = (some (idx, b), e)) :
    Wf (fdtStep s c e f.fdtId now idx) L := by
  obtain ⟨h1, h2, f', hf', h3, h4⟩ := h.fdtSessSome c hc
  rw [hf] at hf'; cases hf'
  obtain ⟨e1, e2, e3⟩ := encRead_false_some he h2
  have hfd : (fdtStep s c e f.fdtId now idx).fdts = s.fdts := updF_tick_fdts h c.key
  exact
  { queueFiles := h.queueFiles, queueObj := h.queueObj, heldObj := h.heldObj, heldNodup := h.heldNodup,
    transHeld := h.transHeld, objKeys := h.objKeys, filesKeys := h.filesKeys,
    queueNodup := h.queueNodup, nextToiPos := h.nextToiPos,
    fdtQueueNodup := h.fdtQueueNodup, curNotQueued := h.curNotQueued,
    quiet := fun hq => by
      have : s.quiet = true := hq
      rw [hqt] at this; cases this
    fdtKeys := by rw [hfd]; exact h.fdtKeys
    fdtQueue := by rw [hfd]; exact h.fdtQueue
    fdtSessSome := fun c' hc' => by
      have : c' = { c with enc := e } := by
        have : some ({ c with enc := e } : Cur) = some c' := hc'
        exact (Option.some.inj this).symm
      subst this
      refine ⟨h1, by rw [e2]; exact h2, f, by rw [hfd]; exact hf, h3, ?_⟩
      rw [e2]; show c.enc.sent + 1 ≤ f.nPk
      unfold FileDesc.nPk; omega
    fdtSessNone := fun hn => by
      have : some ({ c with enc := e } : Cur) = none := hn
      cases this
    curFdt := by rw [hfd]; exact h.curFdt }

theorem Wf.fdtDone {s : State} {L : Held} {c : Cur} {f : FileDesc} (now : Nat)
    (h : Wf s L) (hqt : s.quiet = false) (hc : s.fdtSess = some c) (hf : getF s.fdts c.key = some f) :
    Wf (fdtRelease s c.key now) L := by
  obtain ⟨h1, h2, f', hf', h3, h4⟩ := h.fdtSessSome c hc
  rw [hf] at hf'; cases hf'
  have hkey : ∀ g : FileDesc, (transferDoneInfo g now).key = g.key := fun _ => rfl
  have hsh := (h.fdtKeys f (getF_mem hf)).2
  have hget : getF (updF s.fdts c.key (fun f => transferDoneInfo f now)) c.key = some (transferDoneInfo f now) := by
    rw [getF_updF _ _ _ _ hkey, if_pos rfl, hf]; rfl
  -- the state after release
  have hst : fdtRelease s c.key now =
      { s with fdts := updF s.fdts c.key (fun f => transferDoneInfo f now),
               log := Ev.fdtStop now c.key :: s.log, fdtSess := none } := by
    unfold fdtRelease transferDoneFdt Sched.emit
    simp only [hget, isExpired_of_shape (doneInfo_shape hsh now)]
    rfl
  rw [hst]
  exact
  { queueFiles := h.queueFiles, queueObj := h.queueObj, heldObj := h.heldObj, heldNodup := h.heldNodup,
    transHeld := h.transHeld, objKeys := h.objKeys, filesKeys := h.filesKeys,
    queueNodup := h.queueNodup, nextToiPos := h.nextToiPos,
    fdtQueueNodup := h.fdtQueueNodup, curNotQueued := h.curNotQueued,
    quiet := fun _ => rfl
    fdtKeys := fun f' hf' => by
      show f'.key < (updF s.fdts c.key _).length ∧ _
      rw [length_updF]
      obtain ⟨f0, hf0, rfl⟩ := mem_updF hf'
      split
      · exact ⟨(h.fdtKeys f0 hf0).1, doneInfo_shape (h.fdtKeys f0 hf0).2 now⟩
      · exact h.fdtKeys f0 hf0
    fdtQueue := fun k' hk' => by
      obtain ⟨f', hf', hfr⟩ := h.fdtQueue k' hk'
      have hne : k' ≠ c.key := fun e => h.curNotQueued c.key h1 (e ▸ hk')
      refine ⟨f', ?_, hfr⟩
      show getF (updF s.fdts c.key _) k' = some f'
      rw [getF_updF _ _ _ _ hkey, if_neg hne]; exact hf'
    fdtSessSome := fun c' hc' => by
      have : (none : Option Cur) = some c' := hc'
      cases this
    fdtSessNone := fun _ => by
      unfold fdtBusy
      simp only [h1, hget]; rfl
    curFdt := fun k' hk' => by
      have hk'' : s.curFdt = some k' := hk'
      rw [h1] at hk''; cases hk''
      exact ⟨_, hget⟩ }

/-! ### file session primitives -/

theorem findNext_spec (s : State) (prio now : Nat) : ∀ (l : List Nat) (t : Nat), findNext s prio now l = some t →
    ∃ pre post, l = pre ++ t :: post ∧
      (∀ u ∈ pre, ∀ f, getF s.objs u = some f → shouldTransferNow f prio s.cfg.mode now = false) ∧
      ∃ f, getF s.objs t = some f ∧ shouldTransferNow f prio s.cfg.mode now = true := by
  intro l
  induction l with
  | nil => intro t h; simp [findNext] at h
  | cons a r ih =>
    intro t h
    unfold findNext at h
    split at h
    · rename_i f hf
      split at h
      · rename_i hst
        simp only [Option.some.injEq] at h; subst h
        exact ⟨[], r, rfl, by simp, f, hf, hst⟩
      · rename_i hst
        obtain ⟨pre, post, e, h1, h2⟩ := ih t h
        refine ⟨a :: pre, post, by rw [e]; rfl, ?_, h2⟩
        intro u hu g hg
        rcases List.mem_cons.mp hu with rfl | hu
        · rw [hf] at hg; cases hg; simpa using hst
        · exact h1 u hu g hg
    · rename_i hf
      obtain ⟨pre, post, e, h1, h2⟩ := ih t h
      refine ⟨a :: pre, post, by rw [e]; rfl, ?_, h2⟩
      intro u hu g hg
      rcases List.mem_cons.mp hu with rfl | hu
      · rw [hf] at hg; cases hg
      · exact h1 u hu g hg

theorem shouldTransferNow_true {f : FileDesc} {prio now : Nat} {mode : Mode}
    (h : shouldTransferNow f prio mode now = true) :
    f.prio = prio ∧ f.info.transferring = false ∧ (mode = .full → f.published = true) ∧
    (∀ st, f.info.startTime = some st → st ≤ now) := by
  unfold shouldTransferNow at h
  by_cases h1 : (f.prio != prio) = true
  · rw [if_pos h1] at h; cases h
  · rw [if_neg h1] at h
    by_cases h2 : (mode == Mode.full && !f.published) = true
    · rw [if_pos h2] at h; cases h
    · rw [if_neg h2] at h
      by_cases h3 : beforeStart f now = true
      · rw [if_pos h3] at h; cases h
      · rw [if_neg h3] at h
        by_cases h4 : f.info.transferring = true
        · rw [if_pos h4] at h; cases h
        · refine ⟨by simpa using h1, by simpa using h4, ?_, ?_⟩
          · intro hm; subst hm; simpa using h2
          · intro st hst; unfold beforeStart at h3; rw [hst] at h3; simpa using h3

theorem Wf.fileStartStep {s : State} {L : Held} {prio now t : Nat} (tk : Nat) (c : Cur) (hck : c.key = t)
    (h : Wf s L) (hfn : findNext s prio now s.queue = some t) :
    Wf (Sched.fileStartStep s t now tk) ((prio, c) :: L) := by
  obtain ⟨pre, post, hq, _, f, hf, hst⟩ := findNext_spec s prio now s.queue t hfn
  have htq : t ∈ s.queue := by rw [hq]; simp
  obtain ⟨hp, htr, _, _⟩ := shouldTransferNow_true hst
  have hkey : ∀ g : FileDesc, (transferInit g now tk).key = g.key := fun _ => rfl
  have hget : ∀ k, getF (Sched.fileStartStep s t now tk).objs k =
      if k = t then (getF s.objs k).map (fun g => transferInit g now tk) else getF s.objs k := by
    intro k; exact getF_updF _ _ _ _ hkey
  -- held objects differ from t
  have hne : ∀ pc ∈ L, pc.2.key ≠ t := by
    intro pc hpc e
    obtain ⟨g, hg, hgt, _⟩ := h.heldObj pc hpc
    rw [e, hf] at hg; cases hg
    rw [htr] at hgt; cases hgt
  exact
  { filesKeys := h.filesKeys, fdtKeys := h.fdtKeys, fdtQueue := h.fdtQueue, fdtSessSome := h.fdtSessSome,
    fdtSessNone := h.fdtSessNone, curFdt := h.curFdt, quiet := h.quiet,
    fdtQueueNodup := h.fdtQueueNodup, curNotQueued := h.curNotQueued, nextToiPos := h.nextToiPos,
    queueNodup := h.queueNodup.erase t
    queueFiles := fun u hu => h.queueFiles u (List.mem_of_mem_erase hu)
    queueObj := fun u hu => by
      have hu' := (h.queueNodup.mem_erase_iff).mp hu
      obtain ⟨g, hg, hgt⟩ := h.queueObj u hu'.2
      exact ⟨g, by rw [hget, if_neg hu'.1]; exact hg, hgt⟩
    heldObj := fun pc hpc => by
      rcases List.mem_cons.mp hpc with rfl | hpc
      · refine ⟨transferInit f now tk, ?_, rfl, hp⟩
        show getF _ c.key = _
        rw [hck, hget, if_pos rfl, hf]; rfl
      · obtain ⟨g, hg, hgt, hgp⟩ := h.heldObj pc hpc
        exact ⟨g, by rw [hget, if_neg (hne pc hpc)]; exact hg, hgt, hgp⟩
    heldNodup := by
      simp only [List.map_cons, List.nodup_cons]
      refine ⟨?_, h.heldNodup⟩
      intro hm
      obtain ⟨pc, hpc, e⟩ := List.mem_map.mp hm
      exact hne pc hpc (by rw [e, hck])
    transHeld := fun g hg hgt => by
      obtain ⟨g0, hg0, rfl⟩ := mem_updF hg
      by_cases hk : g0.key = t
      · exact ⟨(prio, c), List.mem_cons_self, by simp [hk, hck]⟩
      · simp only [hk, if_false] at hgt ⊢
        obtain ⟨pc, hpc, e⟩ := h.transHeld g0 hg0 hgt
        exact ⟨pc, List.mem_cons_of_mem _ hpc, e⟩
    objKeys := fun g hg => by
      obtain ⟨g0, hg0, rfl⟩ := mem_updF hg
      have := h.objKeys g0 hg0
      split <;> exact this }

theorem startCur_key (s : State) (t : Nat) : (startCur s t).key = t := rfl

theorem Wf.fileStart' {s : State} {L : Held} {prio now t : Nat} (tk : Nat) (c : Cur) (hck : c.key = t)
    (h : Wf s L) (hfn : findNext s prio now s.queue = some t) :
    Wf (autoPublish (Sched.fileStartStep s t now tk) now) ((prio, c) :: L) := by
  have := Wf.fileStartStep tk c hck h hfn
  unfold autoPublish
  split
  · exact Wf.publishTry now this
  · exact this

theorem Wf.fileStart {s : State} {L : Held} {prio now t : Nat} (tk : Nat)
    (h : Wf s L) (hfn : findNext s prio now s.queue = some t) :
    Wf (autoPublish (Sched.fileStartStep s t now tk) now)
      ((prio, startCur (autoPublish (Sched.fileStartStep s t now tk) now) t) :: L) :=
  Wf.fileStart' tk _ rfl h hfn

/-- `Wf` is insensitive to updates of an object descriptor that keep key, priority, kind and the
    `transferring` flag -/
theorem Wf.updObj {s : State} {L : Held} (k : Nat) (g : FileDesc → FileDesc) (h : Wf s L)
    (hg : ∀ f, (g f).key = f.key ∧ (g f).prio = f.prio ∧ (g f).isFdt = f.isFdt ∧
      (g f).info.transferring = f.info.transferring) :
    Wf { s with objs := updF s.objs k g } L := by
  have hget : ∀ t, getF (updF s.objs k g) t = if t = k then (getF s.objs t).map g else getF s.objs t :=
    fun t => getF_updF _ _ _ _ (fun f => (hg f).1)
  exact
  { queueFiles := h.queueFiles, filesKeys := h.filesKeys, fdtKeys := h.fdtKeys, fdtQueue := h.fdtQueue,
    fdtSessSome := h.fdtSessSome, fdtSessNone := h.fdtSessNone, curFdt := h.curFdt, quiet := h.quiet,
    fdtQueueNodup := h.fdtQueueNodup, curNotQueued := h.curNotQueued, nextToiPos := h.nextToiPos,
    queueNodup := h.queueNodup, heldNodup := h.heldNodup
    queueObj := fun u hu => by
      obtain ⟨f, hf, hft⟩ := h.queueObj u hu
      show ∃ f, getF (updF s.objs k g) u = some f ∧ _
      rw [hget, hf]
      split
      · exact ⟨g f, rfl, by rw [(hg f).2.2.2]; exact hft⟩
      · exact ⟨f, rfl, hft⟩
    heldObj := fun pc hpc => by
      obtain ⟨f, hf, hft, hfp⟩ := h.heldObj pc hpc
      show ∃ f, getF (updF s.objs k g) pc.2.key = some f ∧ _
      rw [hget, hf]
      split
      · exact ⟨g f, rfl, by rw [(hg f).2.2.2]; exact hft, by rw [(hg f).2.1]; exact hfp⟩
      · exact ⟨f, rfl, hft, hfp⟩
    transHeld := fun f hf hft => by
      obtain ⟨f0, hf0, rfl⟩ := mem_updF hf
      split at hft
      · rw [(hg f0).2.2.2] at hft
        obtain ⟨pc, hpc, e⟩ := h.transHeld f0 hf0 hft
        exact ⟨pc, hpc, by rename_i hk; simp [hk, (hg f0).1, e]⟩
      · obtain ⟨pc, hpc, e⟩ := h.transHeld f0 hf0 hft
        exact ⟨pc, hpc, by rename_i hk; simp [hk, e]⟩
    objKeys := fun f hf => by
      obtain ⟨f0, hf0, rfl⟩ := mem_updF hf
      have := h.objKeys f0 hf0
      split
      · rw [(hg f0).1, (hg f0).2.2.1]; exact this
      · exact this }

theorem Wf.pkt {s : State} {L : Held} {prio : Nat} {c : Cur} (now idx : Nat) (b : Bool) (e : Enc)
    (h : Wf s ((prio, c) :: L)) :
    Wf (pktStep s prio c.key now idx b) ((prio, { c with enc := e }) :: L) := by
  have h1 : Wf { s with objs := updF s.objs c.key tickInfo } ((prio, c) :: L) :=
    Wf.updObj c.key tickInfo h (fun f => ⟨rfl, rfl, rfl, tickInfo_transferring f⟩)
  have h2 : Wf (pktStep s prio c.key now idx b) ((prio, c) :: L) := Wf.emit _ h1
  exact
  { h2 with
    heldObj := fun pc hpc => by
      rcases List.mem_cons.mp hpc with rfl | hpc
      · exact h2.heldObj (prio, c) List.mem_cons_self
      · exact h2.heldObj pc (List.mem_cons_of_mem _ hpc)
    heldNodup := by simpa using h2.heldNodup
    transHeld := fun f hf hft => by
      obtain ⟨pc, hpc, e'⟩ := h2.transHeld f hf hft
      rcases List.mem_cons.mp hpc with rfl | hpc
      · exact ⟨_, List.mem_cons_self, e'⟩
      · exact ⟨pc, List.mem_cons_of_mem _ hpc, e'⟩ }

/-- the state after `TransferInfo::done` + `StopTransfer` event, before requeue / expiry -/
def doneStep (s : State) (t now : Nat) : State :=
  { s with objs := updF s.objs t (fun f => transferDoneInfo f now), log := Ev.stop now t :: s.log }

theorem transferDoneFile_eq (s : State) (t now : Nat) :
    transferDoneFile s t now =
      if !s.files.contains t then doneStep s t now else
      match getF (doneStep s t now).objs t with
      | some f =>
        if !isExpired f then { doneStep s t now with queue := s.queue ++ [t] }
        else { doneStep s t now with files := s.files.erase t }
      | none => doneStep s t now := rfl

theorem Wf.doneStep {s : State} {L : Held} {prio : Nat} {c : Cur} (now : Nat)
    (h : Wf s ((prio, c) :: L)) :
    Wf (Sched.doneStep s c.key now) L ∧ c.key ∉ s.queue ∧
    ∃ f, getF (Sched.doneStep s c.key now).objs c.key = some f ∧ f.info.transferring = false := by
  obtain ⟨f, hf, hft, _⟩ := h.heldObj (prio, c) List.mem_cons_self
  have hkey : ∀ g : FileDesc, (transferDoneInfo g now).key = g.key := fun _ => rfl
  have hget : ∀ k, getF (Sched.doneStep s c.key now).objs k =
      if k = c.key then (getF s.objs k).map (fun g => transferDoneInfo g now) else getF s.objs k :=
    fun k => getF_updF _ _ _ _ hkey
  have hnq : c.key ∉ s.queue := by
    intro hq
    obtain ⟨g, hg, hgt⟩ := h.queueObj c.key hq
    rw [hf] at hg; cases hg; rw [hft] at hgt; cases hgt
  have hnd := h.heldNodup
  simp only [List.map_cons, List.nodup_cons] at hnd
  have hne : ∀ pc ∈ L, pc.2.key ≠ c.key := by
    intro pc hpc e
    exact hnd.1 (List.mem_map.mpr ⟨pc, hpc, e⟩)
  refine ⟨?_, hnq, transferDoneInfo f now, by rw [hget, if_pos rfl, hf]; rfl, rfl⟩
  exact
  { queueFiles := h.queueFiles, filesKeys := h.filesKeys, fdtKeys := h.fdtKeys, fdtQueue := h.fdtQueue,
    fdtSessSome := h.fdtSessSome, fdtSessNone := h.fdtSessNone, curFdt := h.curFdt, quiet := h.quiet,
    fdtQueueNodup := h.fdtQueueNodup, curNotQueued := h.curNotQueued, nextToiPos := h.nextToiPos,
    queueNodup := h.queueNodup, heldNodup := hnd.2
    queueObj := fun u hu => by
      obtain ⟨g, hg, hgt⟩ := h.queueObj u hu
      have : u ≠ c.key := fun e => hnq (e ▸ hu)
      exact ⟨g, by rw [hget, if_neg this]; exact hg, hgt⟩
    heldObj := fun pc hpc => by
      obtain ⟨g, hg, hgt, hgp⟩ := h.heldObj pc (List.mem_cons_of_mem _ hpc)
      exact ⟨g, by rw [hget, if_neg (hne pc hpc)]; exact hg, hgt, hgp⟩
    transHeld := fun g hg hgt => by
      obtain ⟨g0, hg0, rfl⟩ := mem_updF hg
      by_cases hk : g0.key = c.key
      · simp [hk] at hgt
      · simp only [hk, if_false] at hgt ⊢
        obtain ⟨pc, hpc, e⟩ := h.transHeld g0 hg0 hgt
        rcases List.mem_cons.mp hpc with rfl | hpc
        · exact absurd e.symm hk
        · exact ⟨pc, hpc, e⟩
    objKeys := fun g hg => by
      obtain ⟨g0, hg0, rfl⟩ := mem_updF hg
      have := h.objKeys g0 hg0
      split <;> exact this }

theorem Wf.done {s : State} {L : Held} {prio : Nat} {c : Cur} (now : Nat)
    (h : Wf s ((prio, c) :: L)) : Wf (transferDoneFile s c.key now) L := by
  obtain ⟨h1, hnq, f', hf', hft'⟩ := Wf.doneStep now h
  rw [transferDoneFile_eq]
  split
  · exact h1
  · rename_i hcont
    have hmem : c.key ∈ s.files := by simpa using hcont
    rw [hf']
    simp only []
    split
    · -- requeue
      exact
      { h1 with
        queueFiles := fun u hu => by
          rcases List.mem_append.mp hu with hu | hu
          · exact h1.queueFiles u hu
          · simp only [List.mem_singleton] at hu; subst hu; exact hmem
        queueObj := fun u hu => by
          rcases List.mem_append.mp hu with hu | hu
          · exact h1.queueObj u hu
          · simp only [List.mem_singleton] at hu; subst hu; exact ⟨f', hf', hft'⟩
        queueNodup := by
          refine List.nodup_append.mpr ⟨h1.queueNodup, by simp, ?_⟩
          intro a ha b hb
          simp only [List.mem_singleton] at hb; subst hb
          intro e; exact hnq (e ▸ ha) }
    · -- expired: removed from the files
      exact
      { h1 with
        queueFiles := fun u hu => by
          have : u ≠ c.key := fun e => hnq (e ▸ hu)
          exact (List.mem_erase_of_ne this).mpr (h1.queueFiles u hu)
        filesKeys := fun u hu => h1.filesKeys u (List.mem_of_mem_erase hu) }

/-! ### API calls -/

theorem Wf.add {s : State} {L : Held} (a : AddArgs) (h : Wf s L) : Wf (addObject s a).1 L := by
  have hfail : ∀ e : Ev, Wf (Sched.emit { s with nextToi := s.nextToi + 1 } e) L := fun e =>
    { queueFiles := h.queueFiles, queueObj := h.queueObj, heldObj := h.heldObj, heldNodup := h.heldNodup,
      transHeld := h.transHeld, fdtKeys := h.fdtKeys, fdtQueue := h.fdtQueue, fdtSessSome := h.fdtSessSome,
      fdtSessNone := h.fdtSessNone, curFdt := h.curFdt, quiet := h.quiet, queueNodup := h.queueNodup,
      fdtQueueNodup := h.fdtQueueNodup, curNotQueued := h.curNotQueued,
      nextToiPos := Nat.succ_pos _
      objKeys := fun f hf => by
        have := h.objKeys f hf
        exact ⟨this.1, this.2.1, Nat.lt_succ_of_lt this.2.2⟩
      filesKeys := fun t ht => Nat.lt_succ_of_lt (h.filesKeys t ht) }
  unfold addObject
  simp only []
  split
  · exact hfail _
  · split
    · exact hfail _
    · -- success
      have hnone : getF s.objs s.nextToi = none :=
        getF_none_of_keys (fun f hf => Nat.ne_of_lt (h.objKeys f hf).2.2)
      have hnq : s.nextToi ∉ s.queue := fun hq => Nat.lt_irrefl _ (h.filesKeys _ (h.queueFiles _ hq))
      refine Wf.emit _ ?_
      exact
      { fdtKeys := h.fdtKeys, fdtQueue := h.fdtQueue, fdtSessSome := h.fdtSessSome,
        fdtSessNone := h.fdtSessNone, curFdt := h.curFdt, quiet := h.quiet,
        fdtQueueNodup := h.fdtQueueNodup, curNotQueued := h.curNotQueued, heldNodup := h.heldNodup,
        nextToiPos := Nat.succ_pos _
        queueFiles := fun t ht => by
          rcases List.mem_append.mp ht with ht | ht
          · exact List.mem_append_left _ (h.queueFiles t ht)
          · exact List.mem_append_right _ ht
        queueObj := fun t ht => by
          rcases List.mem_append.mp ht with ht | ht
          · obtain ⟨f, hf, hft⟩ := h.queueObj t ht
            exact ⟨f, getF_append_some hf, hft⟩
          · simp only [List.mem_singleton] at ht; subst ht
            have hg : ∀ fd : FileDesc, fd.key = s.nextToi → getF (s.objs ++ [fd]) s.nextToi = some fd := by
              intro fd hk; rw [getF_append_none hnone, getF_single, if_pos hk]
            exact ⟨_, hg _ rfl, rfl⟩
        heldObj := fun pc hpc => by
          obtain ⟨f, hf, hft, hfp⟩ := h.heldObj pc hpc
          exact ⟨f, getF_append_some hf, hft, hfp⟩
        transHeld := fun f hf hft => by
          rcases List.mem_append.mp hf with hf | hf
          · exact h.transHeld f hf hft
          · simp only [List.mem_singleton] at hf; subst hf; cases hft
        objKeys := fun f hf => by
          rcases List.mem_append.mp hf with hf | hf
          · have := h.objKeys f hf
            exact ⟨this.1, this.2.1, Nat.lt_succ_of_lt this.2.2⟩
          · simp only [List.mem_singleton] at hf; subst hf
            exact ⟨rfl, h.nextToiPos, Nat.lt_succ_self _⟩
        filesKeys := fun t ht => by
          rcases List.mem_append.mp ht with ht | ht
          · exact Nat.lt_succ_of_lt (h.filesKeys t ht)
          · simp only [List.mem_singleton] at ht; subst ht; exact Nat.lt_succ_self _
        queueNodup := by
          refine List.nodup_append.mpr ⟨h.queueNodup, by simp, ?_⟩
          intro x hx b hb
          simp only [List.mem_singleton] at hb; subst hb
          intro e; exact hnq (e ▸ hx) }

theorem Wf.remove {s : State} {L : Held} (t : Nat) (h : Wf s L) : Wf (removeObject s t).1 L := by
  unfold removeObject
  split
  · exact Wf.emit _ h
  · refine Wf.emit _ ?_
    exact
    { h with
      queueFiles := fun u hu => by
        have hu' := List.mem_filter.mp hu
        have : u ≠ t := by simpa using hu'.2
        exact (List.mem_erase_of_ne this).mpr (h.queueFiles u hu'.1)
      queueObj := fun u hu => h.queueObj u (List.mem_filter.mp hu).1
      filesKeys := fun u hu => h.filesKeys u (List.mem_of_mem_erase hu)
      queueNodup := h.queueNodup.filter _ }

theorem Wf.trigger {s : State} {L : Held} (t : Nat) (ts : Option Nat) (h : Wf s L) :
    Wf (triggerTransferAt s t ts).1 L := by
  unfold triggerTransferAt
  split
  · exact Wf.emit _ h
  · split
    · exact Wf.emit _ h
    · exact Wf.emit _ (Wf.updObj t _ h (fun f => ⟨rfl, rfl, rfl, rfl⟩))

theorem Wf.complete {s : State} {L : Held} (h : Wf s L) : Wf { s with complete := true } L :=
  { queueFiles := h.queueFiles, queueObj := h.queueObj, heldObj := h.heldObj, heldNodup := h.heldNodup,
    transHeld := h.transHeld, objKeys := h.objKeys, filesKeys := h.filesKeys, fdtKeys := h.fdtKeys,
    fdtQueue := h.fdtQueue, fdtSessSome := h.fdtSessSome, fdtSessNone := h.fdtSessNone, curFdt := h.curFdt,
    queueNodup := h.queueNodup, fdtQueueNodup := h.fdtQueueNodup, curNotQueued := h.curNotQueued,
    nextToiPos := h.nextToiPos, quiet := h.quiet }

theorem Wf.init (cfg : Cfg) (tbl : List Nat) : Wf (Sched.init cfg tbl) [] where
  queueFiles := fun t ht => by simp [Sched.init] at ht
  queueObj := fun t ht => by simp [Sched.init] at ht
  heldObj := fun pc hpc => by simp at hpc
  heldNodup := by simp
  transHeld := fun f hf => by simp [Sched.init] at hf
  objKeys := fun f hf => by simp [Sched.init] at hf
  filesKeys := fun t ht => by simp [Sched.init] at ht
  fdtKeys := fun f hf => by simp [Sched.init] at hf
  fdtQueue := fun k hk => by simp [Sched.init] at hk
  fdtSessSome := fun c hc => by simp [Sched.init] at hc
  fdtSessNone := fun _ => rfl
  curFdt := fun k hk => by simp [Sched.init] at hk
  quiet := fun _ => rfl
  queueNodup := by simp [Sched.init]
  fdtQueueNodup := by simp [Sched.init]
  curNotQueued := fun k hk => by simp [Sched.init] at hk
  nextToiPos := by simp [Sched.init]

theorem Wf.closed : Closed0 Wf where
  perm := fun _ _ _ p h => Wf.perm p h
  leaveFiles := fun _ _ qs h => Wf.leaveFiles qs h
  enterFiles := fun _ _ now _ h _ q => Wf.enterFiles now h q
  emitRead := fun _ _ _ _ h _ => Wf.emit _ h
  emitIdle := fun _ _ _ _ h _ => Wf.emit _ h
  publish := fun _ _ now _ h _ => Wf.publish now h
  fdtAdvance := fun _ _ now _ h hq hs => Wf.fdtAdvance now h hq hs
  fileStart := fun _ _ _ _ tk _ _ h _ hfn => Wf.fileStart tk h hfn
  pkt := fun _ _ _ _ now _ idx b e _ h _ _ _ _ _ => Wf.pkt now idx b e h
  done := fun _ _ _ _ now _ _ _ h _ _ _ => Wf.done now h
  fdtPkt := fun _ _ _ _ _ _ _ _ _ h hq hc hf _ he => Wf.fdtPkt h hq hc hf he
  fdtDone := fun _ _ _ _ now _ _ h hq hc hf _ _ => Wf.fdtDone now h hq hc hf

theorem Wf.closedOps : ClosedOps0 Wf where
  add := fun _ _ a _ h => Wf.add a h
  remove := fun _ _ t _ h => Wf.remove t h
  trigger := fun _ _ t ts _ h => Wf.trigger t ts h
  publishOp := fun _ _ now _ h => Wf.publishTry now (Wf.emit _ h)
  complete := fun _ _ _ h => Wf.complete h

/-- the structural invariant holds after every operation history -/
theorem wf_run (cfg : Cfg) (tbl : List Nat) (ops : List Op) :
    Wf (run (Sched.init cfg tbl) ops) (heldOf (run (Sched.init cfg tbl) ops)) :=
  inv_run Wf.closed Wf.closedOps cfg tbl (Wf.init cfg tbl) ops

end Flute.Sched
