import FluteModel.Lemmas.BencNoPanic
import FluteModel.Lemmas.BencPsi
import FluteModel.Lemmas.SessionEmit
/-
  Bridge between the two models of blockencoder.rs: `Flute.Session.emitTransfer` (e2e's compact model at the
  level of (SBN, ESI, B), the sender side of the end-to-end theorems C01 / C02 / C16) and `Flute.BlockEnc`
  (the model the `benc` correspondence ties to the code).  For ALL object bytes, symbol size, partition, parity,
  window ≥ 1, closable flag and any codec with the scheme's shard count whose blocks are all accepted:
  `emitTransfer e = some l` where `l` = the (SBN, ESI, B) projection of the packets of the complete BlockEnc
  transfer.
-/
namespace Flute.BencSessionBridge
open Flute Flute.Fec Flute.BlockEnc Flute.BencArith Flute.BencBlocks Flute.BencInv Flute.BencLoop Flute.BencTrace
open Flute.BencShape Flute.BencPsi Flute.BencNoPanic Flute.BencTerm
open Flute.Session (Sym WBlk EncSt Scheme shardsOf blockFails)

/-- projection of a BlockEnc packet to e2e's `Sym` -/
def sym (p : Pkt) : Sym := { sbn := p.sbn, esi := p.esi, close := p.closeObject }

/-- an open block as e2e's model sees it: SBN, `nb_source_symbols`, the ESIs not yet read -/
def wblk (b : Block) : WBlk := { sbn := b.sbn, k := b.nbSource, rest := (b.shards.drop b.readIndex).map (·.esi) }

/-- the source symbols of a block cover its bytes (true for E-byte slices, padded or not) -/
def SrcCover (cd : Codec) : Prop := ∀ e d, 0 < e → d.length ≤ ((cd.split e d).map List.length).sum

/-- bytes of the source shards not yet read (the source shards are the first `nbSource` shards) -/
def pendB (b : Block) : Nat := (((b.shards.take b.nbSource).drop b.readIndex).map (fun sh => sh.data.length)).sum
def pendBs (l : List Block) : Nat := (l.map pendB).sum

/-- lower byte accounting: what was counted as sent plus what is still pending in open blocks covers the bytes cut -/
def PhiLo (P : Params) (aL aS nL : Nat) (s : Enc) : Prop :=
  off P aL aS nL s.sbn ≤ s.srcSent + pendBs s.blocks

theorem pendBs_erase : ∀ (l : List Block) (i : Nat) (x : Block), l[i]? = some x →
    pendBs (l.eraseIdx i) + pendB x = pendBs l := by
  intro l
  induction l with
  | nil => intro i x h; simp at h
  | cons a t ih =>
    intro i x h
    cases i with
    | zero =>
      simp only [List.getElem?_cons_zero, Option.some.injEq] at h; subst h
      simp [pendBs]; omega
    | succ i =>
      simp only [List.getElem?_cons_succ] at h
      have := ih i x h
      simp only [pendBs, List.eraseIdx_cons_succ, List.map_cons, List.sum_cons] at this ⊢
      omega

theorem pendBs_set : ∀ (l : List Block) (i : Nat) (x y : Block), l[i]? = some x →
    pendBs (l.set i y) + pendB x = pendBs l + pendB y := by
  intro l
  induction l with
  | nil => intro i x y h; simp at h
  | cons a t ih =>
    intro i x y h
    cases i with
    | zero =>
      simp only [List.getElem?_cons_zero, Option.some.injEq] at h; subst h
      simp [pendBs]; omega
    | succ i =>
      simp only [List.getElem?_cons_succ] at h
      have := ih i x y h
      simp only [pendBs, List.set_cons_succ, List.map_cons, List.sum_cons] at this ⊢
      omega

variable {P : Params} {c : Bytes} {aL aS nL n : Nat}

/-- the parameters of e2e's encoder for this transfer -/
structure Link (P : Params) (aL aS nL n : Nat) (closable : Bool) (e : Flute.Session.Enc) : Prop where
  ks_size : e.ks.size = n
  ks_get : ∀ k, k < n → e.ks[k]? = some (A aL aS nL k)
  p : e.p = P.p
  w : e.w = P.window
  closable : e.closable = closable
  /-- the codec produces the scheme's number of shards -/
  shards : ∀ k, k + P.codec.nRepair k P.p = shardsOf e.scheme k P.p
  /-- e2e's "block creation fails" is false on every block of the object (⇔ `Accepts` for the concrete codecs) -/
  noFail : ∀ k, k < n → blockFails e.scheme (A aL aS nL k) e.p = false

/-- state correspondence -/
structure Rel (aL aS nL : Nat) (s : Enc) (st : EncSt) : Prop where
  next : st.next = s.sbn
  readEnd : st.readEnd = s.readEnd
  idx : st.idx = s.idx
  sent : st.sent = s.nbPkt
  win : st.win = s.blocks.map wblk
  cnt : st.srcSent + psum 1 s.blocks = cum aL aS nL s.sbn

/-- ESIs of a genuine block -/
theorem block_esi_list (hS : Setup P c aL aS nL n) {k : Nat} (hk : k < n) {b0 : Block}
    (h : blockAt P c aL aS nL k = some b0) :
    b0.shards.map (·.esi) = List.range (A aL aS nL k + P.codec.nRepair (A aL aS nL k) P.p) ∧
    b0.nbSource = A aL aS nL k ∧ b0.sbn = k ∧ b0.readIndex = 0 := by
  obtain ⟨h1, h2⟩ := blockAt_shape hS hk h
  obtain ⟨h3, h4⟩ := blockAt_fields h
  refine ⟨?_, h1, h3, h4⟩
  have hK := bufAt_nsym hS hk (c := c)
  unfold Codec.encode at h2
  simp only at h2
  split at h2
  · simp only [Option.some.injEq] at h2
    rw [← h2, hK]
    have hsl := P.codec.split_length P.e (bufAt P c aL aS nL k) hS.e_pos
    rw [hK] at hsl
    apply List.ext_getElem?
    intro i
    simp only [List.map_append, List.map_map]
    by_cases hi : i < A aL aS nL k
    · rw [List.getElem?_append_left (by simp [number_length, hsl]; exact hi), List.getElem?_map, number_getElem?,
        List.getElem?_eq_getElem (by rw [hsl]; exact hi), List.getElem?_range (by omega)]
      simp
    · rw [List.getElem?_append_right (by simp [number_length, hsl]; omega)]
      simp only [List.length_map, number_length, hsl]
      by_cases hi2 : i - A aL aS nL k < P.codec.nRepair (A aL aS nL k) P.p
      · rw [List.getElem?_map, List.getElem?_range hi2, List.getElem?_range (by omega)]
        simp; omega
      · rw [List.getElem?_eq_none_iff.mpr (by simp; omega), List.getElem?_eq_none_iff.mpr (by simp; omega)]
  · cases h2

/-- bytes of the source shards of a genuine block cover its buffer -/
theorem block_pendB (hS : Setup P c aL aS nL n) (hcov : SrcCover P.codec) {k : Nat} (hk : k < n) {b0 : Block}
    (h : blockAt P c aL aS nL k = some b0) : off P aL aS nL (k + 1) - off P aL aS nL k ≤ pendB b0 := by
  obtain ⟨h1, h2⟩ := blockAt_shape hS hk h
  obtain ⟨_, h4⟩ := blockAt_fields h
  have hK := bufAt_nsym hS hk (c := c)
  unfold Codec.encode at h2
  simp only at h2
  split at h2
  · simp only [Option.some.injEq] at h2
    have hsl := P.codec.split_length P.e (bufAt P c aL aS nL k) hS.e_pos
    unfold pendB
    rw [h4, List.drop_zero, ← h2, h1, ← hK, List.take_left' (by rw [number_length, hsl])]
    have : (number 0 (P.codec.split P.e (bufAt P c aL aS nL k))).map (fun sh => sh.data.length) =
        (P.codec.split P.e (bufAt P c aL aS nL k)).map List.length := by
      generalize P.codec.split P.e (bufAt P c aL aS nL k) = l
      generalize 0 = m
      induction l generalizing m with
      | nil => rfl
      | cons d r ih => simp [number, ih]
    rw [this, ← bufAt_length hS hk (c := c)]
    exact hcov P.e _ hS.e_pos
  · cases h2

/-- everything the simulation carries -/
structure BInv (P : Params) (c : Bytes) (aL aS nL n : Nat) (tr : List Pkt) (s : Enc) (st : EncSt) : Prop where
  inv : Inv P c aL aS nL n s
  tinv : TInv P c aL aS nL tr s
  psi : Psi P aL aS nL s
  philo : PhiLo P aL aS nL s
  np : NP s
  rel : Rel aL aS nL s st

theorem off_mono_succ (hS : Setup P c aL aS nL n) {k : Nat} (hk : k < n) :
    off P aL aS nL k ≤ off P aL aS nL (k + 1) := Nat.le_of_lt (off_succ_gt hS hk)

/-- `read_window` on both sides (e2e's loop gets one more unit of fuel, which it never uses) -/
theorem bridge_readWindow (hS : Setup P c aL aS nL n) (hA : Accepts P c aL aS nL n) (hcov : SrcCover P.codec)
    {closable : Bool} {e : Flute.Session.Enc} (hL : Link P aL aS nL n closable e) (tr : List Pkt) :
    ∀ (m : Nat) (s : Enc) (st : EncSt), BInv P c aL aS nL n tr s st → P.window ≤ s.blocks.length + m →
      BInv P c aL aS nL n tr (readWindowAux P m s) (Flute.Session.readWindow e (m + 1) st) := by
  intro m
  induction m with
  | zero =>
    intro s st h hw
    have : (st.readEnd || decide (st.win.length ≥ e.w)) = true := by
      rw [h.rel.win, List.length_map, hL.w]; simp; right; omega
    rw [rwa_zero]
    unfold Flute.Session.readWindow
    simp only [this, if_true]
    exact h
  | succ m ih =>
    intro s st h hw
    by_cases hre : s.readEnd = true
    · rw [rwa_succ_end hre]
      unfold Flute.Session.readWindow
      have : (st.readEnd || decide (st.win.length ≥ e.w)) = true := by rw [h.rel.readEnd, hre]; rfl
      simp only [this, if_true]
      exact h
    · have hre' : s.readEnd = false := by simpa using hre
      by_cases hwin : s.blocks.length < P.window
      · rw [rwa_succ_cut hre' hwin]
        have hlt : s.sbn < n := by
          have := h.inv.sbn_le
          have h2 : ¬ s.sbn = n := fun h3 => by have := h.inv.readEnd_iff.mpr h3; simp [hre'] at this
          omega
        obtain ⟨b0, hb0, heq⟩ := readBlock_eq hS hA h.inv hre'
        obtain ⟨hI', hT'⟩ := inv_cut hS h.inv h.tinv hre' hwin hb0
        obtain ⟨hesi, hns, hsbn, hri⟩ := block_esi_list hS hlt hb0
        have hpsi' := psi_readWindowAux hS hA tr 1 s h.inv h.tinv h.psi
        have hnp' := np_readWindowAux hS hA tr 1 s h.inv h.tinv h.np
        rw [rwa_succ_cut hre' hwin, rwa_zero] at hpsi' hnp'
        rw [heq] at hpsi' hnp' ⊢
        -- e2e's side: one step
        have hcond : (st.readEnd || decide (st.win.length ≥ e.w)) = false := by
          rw [h.rel.readEnd, hre', h.rel.win, List.length_map, hL.w]; simp; omega
        have hks : e.ks[st.next]? = some (A aL aS nL s.sbn) := by rw [h.rel.next]; exact hL.ks_get _ hlt
        have hnf : blockFails e.scheme (A aL aS nL s.sbn) e.p = false := hL.noFail _ hlt
        have hstep : Flute.Session.readWindow e (m + 1 + 1) st =
            Flute.Session.readWindow e (m + 1)
              { st with win := st.win ++ [{ sbn := st.next, k := A aL aS nL s.sbn, rest := List.range (shardsOf e.scheme (A aL aS nL s.sbn) e.p) }],
                        next := st.next + 1, readEnd := st.next + 1 == e.ks.size } := by
          conv => lhs; unfold Flute.Session.readWindow
          simp only [hcond, Bool.false_eq_true, if_false, hks, hnf]
        rw [hstep]
        apply ih
        · refine ⟨hI', hT', hpsi', ?_, hnp', ?_⟩
          · -- PhiLo
            have h1 := h.philo
            have h2 := block_pendB hS hcov hlt hb0
            have h3 := off_mono_succ hS hlt
            unfold PhiLo at h1 ⊢
            show off P aL aS nL (s.sbn + 1) ≤ s.srcSent + pendBs (s.blocks ++ [b0])
            have : pendBs (s.blocks ++ [b0]) = pendBs s.blocks + pendB b0 := by simp [pendBs]
            omega
          · refine ⟨by show st.next + 1 = s.sbn + 1; rw [h.rel.next], ?_, h.rel.idx, h.rel.sent, ?_, ?_⟩
            · show (st.next + 1 == e.ks.size) = decide (s.sbn + 1 = n)
              rw [h.rel.next, hL.ks_size]
              by_cases hq : s.sbn + 1 = n <;> simp [hq]
            · show st.win ++ [_] = (s.blocks ++ [b0]).map wblk
              rw [List.map_append, h.rel.win]
              congr 1
              simp only [List.map_cons, List.map_nil, wblk, hri, List.drop_zero, hesi, hns, hsbn, h.rel.next]
              rw [hL.shards, hL.p]
            · show st.srcSent + psum 1 (s.blocks ++ [b0]) = cum aL aS nL (s.sbn + 1)
              have : psum 1 (s.blocks ++ [b0]) = psum 1 s.blocks + A aL aS nL s.sbn := by
                simp [psum, pend, hns, hri]
              rw [this, cum_succ]
              have := h.rel.cnt
              omega
        · show P.window ≤ (s.blocks ++ [b0]).length + m
          simp; omega
      · rw [rwa_succ_full hre' hwin]
        unfold Flute.Session.readWindow
        have : (st.readEnd || decide (st.win.length ≥ e.w)) = true := by
          rw [h.rel.win, List.length_map, hL.w]; simp; right; omega
        simp only [this, if_true]
        exact h

theorem map_eraseIdx {α β : Type} (f : α → β) : ∀ (l : List α) (i : Nat), (l.map f).eraseIdx i = (l.eraseIdx i).map f := by
  intro l
  induction l with
  | nil => intro i; rfl
  | cons a t ih =>
    intro i
    cases i with
    | zero => rfl
    | succ i => simp [ih]

/-- an open block is genuine: ESIs `0, 1, …`, at least its source symbols -/
theorem genuine (hS : Setup P c aL aS nL n) {s : Enc} (hI : Inv P c aL aS nL n s) {b : Block} (hb : b ∈ s.blocks) :
    b.shards.map (·.esi) = List.range b.shards.length ∧ b.nbSource = A aL aS nL b.sbn ∧ b.nbSource ≤ b.shards.length ∧
    1 ≤ b.nbSource ∧ b.readIndex ≤ b.shards.length ∧ b.sbn < n := by
  obtain ⟨hlt, hok, hri⟩ := hI.blocks_ok b hb
  have hltn : b.sbn < n := by have := hI.sbn_le; omega
  obtain ⟨h1, h2, _, _⟩ := block_esi_list hS hltn hok
  simp only at h1 h2
  have hlen : b.shards.length = A aL aS nL b.sbn + P.codec.nRepair (A aL aS nL b.sbn) P.p := by
    have := congrArg List.length h1
    simpa using this
  have hA := A_pos aL aS nL b.sbn hS.good.aS_pos hS.good.aS_le
  exact ⟨by rw [h1, hlen], h2, by omega, by omega, hri, hltn⟩

theorem genuine_esi (hS : Setup P c aL aS nL n) {s : Enc} (hI : Inv P c aL aS nL n s) {b : Block} (hb : b ∈ s.blocks)
    {sh : Shard} (hsh : b.shards[b.readIndex]? = some sh) : sh.esi = b.readIndex := by
  obtain ⟨h1, _⟩ := genuine hS hI hb
  have hr : b.readIndex < b.shards.length := (List.getElem?_eq_some_iff.mp hsh).1
  have := congrArg (fun l => l[b.readIndex]?) h1
  simp only [List.getElem?_map, hsh, Option.map_some, List.getElem?_range hr] at this
  exact Option.some.inj this

/-- removing a drained block: both sides -/
theorem binv_erase (hS : Setup P c aL aS nL n) {tr : List Pkt} {s : Enc} {st : EncSt} {idx : Nat} {blk : Block}
    (h : BInv P c aL aS nL n tr s st) (hget : s.blocks[idx]? = some blk) (hsh : blk.shards[blk.readIndex]? = none) :
    BInv P c aL aS nL n tr { s with idx := idx, blocks := s.blocks.eraseIdx idx }
      { st with win := st.win.eraseIdx idx, idx := idx } := by
  have hblk : blk ∈ s.blocks := List.mem_iff_getElem?.mpr ⟨idx, hget⟩
  obtain ⟨_, _, hks, hk1, hri, _⟩ := genuine hS h.inv hblk
  have hdr : blk.readIndex = blk.shards.length := by
    have h2 := List.getElem?_eq_none_iff.mp hsh; omega
  obtain ⟨hI2, hT2⟩ := inv_erase h.inv h.tinv hget hdr
  refine ⟨hI2, hT2, ?_, ?_, ?_, ?_⟩
  · have := psum_erase P.e s.blocks idx blk hget
    have h1 := h.psi
    unfold Psi at h1 ⊢
    show s.srcSent + psum P.e (s.blocks.eraseIdx idx) ≤ cum aL aS nL s.sbn * P.e
    omega
  · have := pendBs_erase s.blocks idx blk hget
    have h0 : pendB blk = 0 := by
      unfold pendB
      rw [List.drop_eq_nil_iff.mpr (by simp; omega)]; rfl
    have h1 := h.philo
    unfold PhiLo at h1 ⊢
    show off P aL aS nL s.sbn ≤ s.srcSent + pendBs (s.blocks.eraseIdx idx)
    omega
  · intro h0
    exfalso
    have h0' : s.nbPkt = 0 := h0
    have := (h.np h0').2 blk hblk
    omega
  · refine ⟨h.rel.next, h.rel.readEnd, rfl, h.rel.sent, ?_, ?_⟩
    · show st.win.eraseIdx idx = (s.blocks.eraseIdx idx).map wblk
      rw [h.rel.win, map_eraseIdx]
    · show st.srcSent + psum 1 (s.blocks.eraseIdx idx) = cum aL aS nL s.sbn
      have := psum_erase 1 s.blocks idx blk hget
      have h0 : pend 1 blk = 0 := by unfold pend; rw [hdr]; simp; omega
      have := h.rel.cnt
      omega

/-- emitting the next shard of the block at `idx`: both sides -/
theorem binv_emit (hS : Setup P c aL aS nL n) (hle : SymLe P.codec) {tr : List Pkt} {s : Enc} {st : EncSt} {idx : Nat}
    {blk : Block} {sh : Shard}
    (h : BInv P c aL aS nL n tr s st) (hget : s.blocks[idx]? = some blk) (hsh : blk.shards[blk.readIndex]? = some sh)
    (p : Pkt) (hp1 : p.sbn = blk.sbn) (hp2 : p.esi = sh.esi) (hp3 : p.payload = sh.data) :
    BInv P c aL aS nL n (tr ++ [p])
      { s with idx := idx + 1, blocks := s.blocks.set idx { blk with readIndex := blk.readIndex + 1 },
               srcSent := (if decide (sh.esi < blk.nbSource) = true then s.srcSent + sh.data.length else s.srcSent),
               nbPkt := s.nbPkt + 1 }
      { st with win := st.win.set idx (wblk { blk with readIndex := blk.readIndex + 1 }), idx := idx + 1,
                srcSent := (if sh.esi < blk.nbSource then st.srcSent + 1 else st.srcSent), sent := st.sent + 1 } := by
  have hblk : blk ∈ s.blocks := List.mem_iff_getElem?.mpr ⟨idx, hget⟩
  obtain ⟨_, hns, hks, hk1, hri, hltn⟩ := genuine hS h.inv hblk
  have hesi := genuine_esi hS h.inv hblk hsh
  have hr : blk.readIndex < blk.shards.length := (List.getElem?_eq_some_iff.mp hsh).1
  obtain ⟨hI2, hT2⟩ := inv_emit h.inv h.tinv hget hsh p hp1 hp2 hp3
    (if decide (sh.esi < blk.nbSource) = true then s.srcSent + sh.data.length else s.srcSent) (s.nbPkt + 1)
  have hps := psum_set P.e s.blocks idx blk { blk with readIndex := blk.readIndex + 1 } hget
  have hps1 := psum_set 1 s.blocks idx blk { blk with readIndex := blk.readIndex + 1 } hget
  have hpb := pendBs_set s.blocks idx blk { blk with readIndex := blk.readIndex + 1 } hget
  refine ⟨hI2, hT2, ?_, ?_, ?_, ?_⟩
  · -- Psi
    have h1 := h.psi
    unfold Psi at h1 ⊢
    show (if decide (sh.esi < blk.nbSource) = true then s.srcSent + sh.data.length else s.srcSent) +
      psum P.e (s.blocks.set idx { blk with readIndex := blk.readIndex + 1 }) ≤ cum aL aS nL s.sbn * P.e
    by_cases hsrc : sh.esi < blk.nbSource
    · simp only [hsrc, decide_true, if_true]
      obtain ⟨_, hok, _⟩ := h.inv.blocks_ok blk hblk
      obtain ⟨_, henc⟩ := blockAt_shape hS hltn hok
      simp only at henc
      obtain ⟨_, _, _, _, hsrcs⟩ := encode_shape _ _ _ _ _ hS.e_pos henc
      have hK := bufAt_nsym hS hltn (c := c)
      obtain ⟨s2, hs2, hd2⟩ := hsrcs blk.readIndex (by rw [hK, ← hns, ← hesi]; exact hsrc)
      rw [hsh] at hs2; cases hs2
      have hlen3 : sh.data.length ≤ P.e := hle P.e _ _ hS.e_pos (List.mem_of_getElem? hd2)
      have hp1' : pend P.e blk = pend P.e { blk with readIndex := blk.readIndex + 1 } + P.e := by
        unfold pend
        simp only
        have : blk.nbSource - blk.readIndex = (blk.nbSource - (blk.readIndex + 1)) + 1 := by omega
        rw [this, Nat.add_mul]; omega
      omega
    · simp only [hsrc, decide_false, Bool.false_eq_true, if_false]
      have hp1' : pend P.e { blk with readIndex := blk.readIndex + 1 } ≤ pend P.e blk := by
        unfold pend; simp only
        exact Nat.mul_le_mul_right _ (by omega)
      omega
  · -- PhiLo
    have h1 := h.philo
    unfold PhiLo at h1 ⊢
    show off P aL aS nL s.sbn ≤ (if decide (sh.esi < blk.nbSource) = true then s.srcSent + sh.data.length else s.srcSent) +
      pendBs (s.blocks.set idx { blk with readIndex := blk.readIndex + 1 })
    by_cases hsrc : sh.esi < blk.nbSource
    · simp only [hsrc, decide_true, if_true]
      have hrk : blk.readIndex < (blk.shards.take blk.nbSource).length := by simp; omega
      have : pendB blk = sh.data.length + pendB { blk with readIndex := blk.readIndex + 1 } := by
        unfold pendB
        simp only
        rw [List.drop_eq_getElem_cons hrk]
        have : (blk.shards.take blk.nbSource)[blk.readIndex] = sh := by
          have h2 := List.getElem?_eq_some_iff.mp hsh
          rw [List.getElem_take]; exact h2.2
        rw [this]; simp
      omega
    · simp only [hsrc, decide_false, Bool.false_eq_true, if_false]
      have h0 : pendB blk = 0 := by
        unfold pendB; rw [List.drop_eq_nil_iff.mpr (by simp; omega)]; rfl
      have h0' : pendB { blk with readIndex := blk.readIndex + 1 } = 0 := by
        unfold pendB; simp only; rw [List.drop_eq_nil_iff.mpr (by simp; omega)]; rfl
      omega
  · intro h0; exact absurd h0 (Nat.succ_ne_zero _)
  · refine ⟨h.rel.next, h.rel.readEnd, rfl, ?_, ?_, ?_⟩
    · show st.sent + 1 = s.nbPkt + 1
      rw [h.rel.sent]
    · show st.win.set idx _ = (s.blocks.set idx _).map wblk
      rw [h.rel.win, List.map_set]
    · show (if sh.esi < blk.nbSource then st.srcSent + 1 else st.srcSent) +
        psum 1 (s.blocks.set idx { blk with readIndex := blk.readIndex + 1 }) = cum aL aS nL s.sbn
      have hc := h.rel.cnt
      by_cases hsrc : sh.esi < blk.nbSource
      · simp only [hsrc, if_true]
        have : pend 1 blk = pend 1 { blk with readIndex := blk.readIndex + 1 } + 1 := by
          unfold pend; simp only; omega
        omega
      · simp only [hsrc, if_false]
        have h0 : pend 1 blk = 0 := by unfold pend; simp; omega
        have h0' : pend 1 { blk with readIndex := blk.readIndex + 1 } = 0 := by unfold pend; simp; omega
        omega

theorem prefixSrc_eq {closable : Bool} {e : Flute.Session.Enc} (hL : Link P aL aS nL n closable e) :
    ∀ k, k ≤ n → Flute.Session.prefixSrc e.ks k = cum aL aS nL k := by
  intro k
  induction k with
  | zero => intro _; simp [Flute.Session.prefixSrc, cum_zero]
  | succ k ih =>
    intro hk
    have h1 := hL.ks_get k (by omega)
    have : e.ks.getD k 0 = A aL aS nL k := by
      simp [Array.getD_eq_getD_getElem?, h1]
    simp only [Flute.Session.prefixSrc, ih (by omega), this, cum_succ]

theorem all_drained_zero (hS : Setup P c aL aS nL n) {s : Enc} (hI : Inv P c aL aS nL n s)
    (hD : ∀ b, b ∈ s.blocks → b.isEmpty = true) : psum 1 s.blocks = 0 ∧ pendBs s.blocks = 0 := by
  have key : ∀ l : List Block, (∀ b, b ∈ l → b ∈ s.blocks) → psum 1 l = 0 ∧ pendBs l = 0 := by
    intro l
    induction l with
    | nil => intro _; exact ⟨rfl, rfl⟩
    | cons a t ih =>
      intro hm
      obtain ⟨i1, i2⟩ := ih (fun b hb => hm b (List.mem_cons_of_mem _ hb))
      have ha := hm a (by simp)
      obtain ⟨_, _, hks, _, _, _⟩ := genuine hS hI ha
      have hd : a.readIndex = a.shards.length := by have := hD a ha; simpa [Block.isEmpty] using this
      have h1 : pend 1 a = 0 := by unfold pend; simp; omega
      have h2 : pendB a = 0 := by unfold pendB; rw [List.drop_eq_nil_iff.mpr (by simp; omega)]; rfl
      simp only [psum, pendBs, List.map_cons, List.sum_cons] at i1 i2 ⊢
      omega
  exact key s.blocks (fun _ h => h)

/-- the two B-flag decisions agree (e2e counts source SYMBOLS, the code counts source BYTES) -/
theorem flag_agree (hS : Setup P c aL aS nL n) {closable : Bool} {e : Flute.Session.Enc} (hL : Link P aL aS nL n closable e)
    {tr : List Pkt} {s : Enc} {st : EncSt} (h : BInv P c aL aS nL n tr s st) :
    st.win.all (fun b => b.rest.isEmpty) = s.blocks.all Block.isEmpty ∧
    (s.blocks.all Block.isEmpty = true →
      decide (st.srcSent ≥ Flute.Session.totalSrc e.ks) = decide (s.srcSent ≥ P.len)) := by
  constructor
  · rw [h.rel.win, List.all_map]
    have pw : ∀ b, b ∈ s.blocks → ((fun b : WBlk => b.rest.isEmpty) ∘ wblk) b = b.isEmpty := by
      intro b hb
      obtain ⟨_, _, _, _, hri, _⟩ := genuine hS h.inv hb
      simp only [Function.comp, wblk, Block.isEmpty]
      by_cases hq : b.readIndex = b.shards.length
      · simp [hq]
      · have : ¬ b.shards.length ≤ b.readIndex := by omega
        have h2 : (List.map (fun x => x.esi) (List.drop b.readIndex b.shards)) ≠ [] := by
          intro h3
          have := List.map_eq_nil_iff.mp h3
          have := List.drop_eq_nil_iff.mp this; omega
        cases hm : List.map (fun x => x.esi) (List.drop b.readIndex b.shards) with
        | nil => exact absurd hm h2
        | cons a t => simp [hq]
    apply Bool.eq_iff_iff.mpr
    rw [List.all_eq_true, List.all_eq_true]
    constructor
    · intro hx b hb; rw [← pw b hb]; exact hx b hb
    · intro hx b hb; rw [pw b hb]; exact hx b hb
  · intro hD
    have hD' := List.all_eq_true.mp hD
    obtain ⟨z1, z2⟩ := all_drained_zero hS h.inv hD'
    have hcnt := h.rel.cnt
    have hpsi := h.psi
    have hphi := h.philo
    unfold Psi at hpsi
    unfold PhiLo at hphi
    have hz : psum P.e s.blocks ≥ 0 := Nat.zero_le _
    have htot : Flute.Session.totalSrc e.ks = cum aL aS nL n := by
      unfold Flute.Session.totalSrc; rw [hL.ks_size]; exact prefixSrc_eq hL n (Nat.le_refl _)
    rw [htot]
    have hle := h.inv.sbn_le
    by_cases hsn : s.sbn = n
    · -- everything cut and drained: both true
      have h1 : st.srcSent ≥ cum aL aS nL n := by rw [← hsn]; omega
      have h2 : s.srcSent ≥ P.len := by
        have := off_n hS
        rw [hsn] at hphi; omega
      simp [h1, h2]
    · have hlt : s.sbn < n := by omega
      have h1 : ¬ st.srcSent ≥ cum aL aS nL n := by
        have := cum_mono_strict aL aS nL hS.good.aS_pos hS.good.aS_le s.sbn n hle
        omega
      have h2 : ¬ s.srcSent ≥ P.len := by
        have := cum_lt_of_lt hS.good hS.e_pos hS.l_pos s.sbn hlt
        omega
      simp [h1, h2]

/-- the listing `T` is what consecutive unforced `BlockEncoder::read` calls return from state `s`, and then `None` -/
inductive Match (P : Params) : List Sym → Enc → Prop
  | done {s : Enc} (h : ∀ F, drained s < F → (readLoop P false F s).1 = .none) : Match P [] s
  | step {s s' : Enc} {p : Pkt} {T : List Sym}
      (h : ∀ F, drained s < F → readLoop P false F s = (.pkt p, s')) (hst : s'.stopped = s.stopped)
      (m : Match P T s') : Match P (sym p :: T) s

/-- a `continue` of the loop (drained block removed) does not change what follows -/
theorem match_of_continue {T : List Sym} {s s2 : Enc}
    (hstep : ∀ F, readLoop P false (F + 1) s = readLoop P false F s2) (hd : drained s2 + 1 ≤ drained s)
    (hst : s2.stopped = s.stopped) (m : Match P T s2) : Match P T s := by
  cases m with
  | done h =>
    refine Match.done (fun F hF => ?_)
    obtain ⟨F', rfl⟩ : ∃ k, F = k + 1 := ⟨F - 1, by omega⟩
    rw [hstep]; exact h F' (by omega)
  | step h hs m' =>
    refine Match.step (fun F hF => ?_) (by rw [hs, hst]) m'
    obtain ⟨F', rfl⟩ : ∃ k, F = k + 1 := ⟨F - 1, by omega⟩
    rw [hstep]; exact h F' (by omega)

theorem drained_readWindow (hS : Setup P c aL aS nL n) (hA : Accepts P c aL aS nL n) {tr : List Pkt} {s : Enc}
    (hI : Inv P c aL aS nL n s) (hT : TInv P c aL aS nL tr s) : drained (readWindow P s) = drained s := by
  obtain ⟨_, _, _, _, _, _, _, _, l, hl, hl2⟩ := inv_readWindowAux hS hA tr P.window s hI hT
  unfold drained readWindow
  rw [hl, List.countP_append]
  have : l.countP Block.isEmpty = 0 := by
    rw [List.countP_eq_zero]
    intro b hb
    obtain ⟨h1, h2⟩ := hl2 b hb
    simp [Block.isEmpty, h1]; omega
  omega

/-- the packet / states of one emission, as the two loops build them -/
def emitPkt (P : Params) (s1 : Enc) (idx : Nat) (blk : Block) (sh : Shard) : Pkt :=
  { sbn := blk.sbn, esi := sh.esi, payload := sh.data, closeObject := false || (s1.closable && isLastPacket P (if decide (sh.esi < blk.nbSource) = true then s1.srcSent + sh.data.length else s1.srcSent) ({ blk with readIndex := blk.readIndex + 1 } : Block).isEmpty (s1.blocks.set idx { blk with readIndex := blk.readIndex + 1 })), sbl := blk.nbSource, isSource := decide (sh.esi < blk.nbSource) }

def emitEnc (s1 : Enc) (idx : Nat) (blk : Block) (sh : Shard) : Enc :=
  { s1 with idx := idx + 1, blocks := s1.blocks.set idx { blk with readIndex := blk.readIndex + 1 }, srcSent := (if decide (sh.esi < blk.nbSource) = true then s1.srcSent + sh.data.length else s1.srcSent), nbPkt := s1.nbPkt + 1 }

def emitSt (st1 : EncSt) (idx : Nat) (blk : Block) (sh : Shard) : EncSt :=
  { st1 with win := st1.win.set idx (wblk { blk with readIndex := blk.readIndex + 1 }), idx := idx + 1, srcSent := (if sh.esi < blk.nbSource then st1.srcSent + 1 else st1.srcSent), sent := st1.sent + 1 }

def emitSym (e : Flute.Session.Enc) (st1 : EncSt) (idx : Nat) (blk : Block) (sh : Shard) : Sym :=
  { sbn := blk.sbn, esi := sh.esi, close := e.closable && (decide ((if sh.esi < blk.nbSource then st1.srcSent + 1 else st1.srcSent) ≥ Flute.Session.totalSrc e.ks) && ((blk.shards.drop (blk.readIndex + 1)).map (·.esi)).isEmpty && (st1.win.set idx (wblk { blk with readIndex := blk.readIndex + 1 })).all (fun b => b.rest.isEmpty)) }

/-- **the loops agree**: whatever e2e's `emitLoop` lists from a related state is what the BlockEnc reads return -/
theorem bridge_loop (hS : Setup P c aL aS nL n) (hA : Accepts P c aL aS nL n) (hcov : SrcCover P.codec)
    (hle : SymLe P.codec) (hw : 1 ≤ P.window) {closable : Bool} {e : Flute.Session.Enc} (hL : Link P aL aS nL n closable e) :
    ∀ (fuel : Nat) (st : EncSt) (s : Enc) (tr : List Pkt) (T : List Sym), BInv P c aL aS nL n tr s st →
      s.closable = closable →
      Flute.Session.emitLoop e (Flute.Session.totalSrc e.ks) fuel st = some T → Match P T s := by
  intro fuel
  induction fuel with
  | zero => intro st s tr T _ _ h; simp [Flute.Session.emitLoop] at h
  | succ fuel ih =>
    intro st s tr T h hcl hT
    have h1 := bridge_readWindow hS hA hcov hL tr P.window s st h (by omega)
    obtain ⟨_, _, hfull, _, _, _, hcl1, hst1, _⟩ := inv_readWindowAux hS hA tr P.window s h.inv h.tinv
    have hdr1 := drained_readWindow hS hA h.inv h.tinv
    unfold Flute.Session.emitLoop at hT
    simp only [hL.w] at hT
    generalize hst1' : Flute.Session.readWindow e (P.window + 1) st = st1 at hT h1
    have hs1def : readWindow P s = readWindowAux P P.window s := rfl
    rw [hs1def] at hdr1
    generalize hs1' : readWindowAux P P.window s = s1 at h1 hfull hcl1 hst1 hdr1
    have hrw : readWindow P s = s1 := hs1'
    have hwinlen : st1.win.length = s1.blocks.length := by rw [h1.rel.win, List.length_map]
    by_cases hemp : s1.blocks.isEmpty = true
    · -- nothing open: the transfer is over (the window cannot be empty before the first packet)
      have hnil : s1.blocks = [] := List.isEmpty_iff.mp hemp
      have hwnil : st1.win.isEmpty = true := by rw [h1.rel.win, hnil]; rfl
      have hn0 : ¬ s1.nbPkt = 0 := by
        intro hn0
        obtain ⟨q1, _⟩ := h1.np hn0
        rw [hnil] at q1
        rcases hfull (by omega) with hq | hq
        · have := h1.inv.readEnd_iff.mp hq
          have := hS.good.n_pos
          simp at q1; omega
        · rw [hnil] at hq; simp at hq; omega
      have hsent : (st1.sent == 0) = false := by rw [h1.rel.sent]; simp [hn0]
      simp only [hwnil, if_true, hsent, Bool.false_and, Bool.false_eq_true, if_false, Option.some.injEq] at hT
      subst hT
      refine Match.done (fun F hF => ?_)
      obtain ⟨F', rfl⟩ : ∃ k, F = k + 1 := ⟨F - 1, by omega⟩
      unfold readLoop
      simp [hrw, hemp, hn0]
    · have hwne : st1.win.isEmpty = false := by
        rw [h1.rel.win]
        cases hb : s1.blocks with
        | nil => rw [hb] at hemp; simp at hemp
        | cons a t => rfl
      have hne : s1.blocks ≠ [] := fun hq => hemp (List.isEmpty_iff.mpr hq)
      have hlen : 0 < s1.blocks.length := List.length_pos_iff.mpr hne
      simp only [hwne, Bool.false_eq_true, if_false, hwinlen, h1.rel.idx] at hT
      generalize hidx' : (if s1.idx ≥ s1.blocks.length then 0 else s1.idx) = idx at hT
      have hidxlt : idx < s1.blocks.length := by rw [← hidx']; split <;> omega
      have hget : s1.blocks[idx]? = some s1.blocks[idx] := List.getElem?_eq_getElem hidxlt
      generalize s1.blocks[idx] = blk at hget
      have hwget : st1.win[idx]? = some (wblk blk) := by rw [h1.rel.win, List.getElem?_map, hget]; rfl
      rw [hwget] at hT
      simp only at hT
      have hblk : blk ∈ s1.blocks := List.mem_iff_getElem?.mpr ⟨idx, hget⟩
      cases hsh : blk.shards[blk.readIndex]? with
      | none =>
        have hrest : (wblk blk).rest = [] := by
          unfold wblk; simp only
          rw [List.drop_eq_nil_iff.mpr (List.getElem?_eq_none_iff.mp hsh)]; rfl
        rw [hrest] at hT
        simp only at hT
        have hb2 := binv_erase hS h1 hget hsh
        have hm := ih _ _ tr T hb2 (by show s1.closable = closable; rw [hcl1]; exact hcl) hT
        have hdr : blk.readIndex = blk.shards.length := by
          obtain ⟨_, _, _, _, hri, _⟩ := genuine hS h1.inv hblk
          have h2 := List.getElem?_eq_none_iff.mp hsh; omega
        refine match_of_continue (s2 := { s1 with idx := idx, blocks := s1.blocks.eraseIdx idx }) ?_ ?_ (by show s1.stopped = s.stopped; exact hst1) hm
        · intro F
          conv => lhs; unfold readLoop
          simp only [hrw, hemp, Bool.false_eq_true, if_false, hidx', hget, Block.read, hsh]
        · have := countP_eraseIdx (p := Block.isEmpty) s1.blocks idx blk hget (by simp [Block.isEmpty, hdr])
          unfold drained at hdr1 ⊢
          show (s1.blocks.eraseIdx idx).countP Block.isEmpty + 1 ≤ _
          omega
      | some sh =>
        have hr : blk.readIndex < blk.shards.length := (List.getElem?_eq_some_iff.mp hsh).1
        have hrest : (wblk blk).rest = sh.esi :: (blk.shards.drop (blk.readIndex + 1)).map (·.esi) := by
          unfold wblk; simp only
          rw [List.drop_eq_getElem_cons hr]
          have := (List.getElem?_eq_some_iff.mp hsh).2
          rw [this]; rfl
        rw [hrest] at hT
        simp only at hT
        have hT' : (Flute.Session.emitLoop e (Flute.Session.totalSrc e.ks) fuel (emitSt st1 idx blk sh)).map (emitSym e st1 idx blk sh :: ·) = some T := hT
        have hb2 : BInv P c aL aS nL n (tr ++ [emitPkt P s1 idx blk sh]) (emitEnc s1 idx blk sh) (emitSt st1 idx blk sh) :=
          binv_emit hS hle h1 hget hsh (emitPkt P s1 idx blk sh) rfl rfl rfl
        cases hrec : Flute.Session.emitLoop e (Flute.Session.totalSrc e.ks) fuel (emitSt st1 idx blk sh) with
        | none => rw [hrec] at hT'; simp at hT'
        | some T' =>
          rw [hrec] at hT'
          simp only [Option.map_some, Option.some.injEq] at hT'
          subst hT'
          have hm := ih _ _ _ T' hb2 (by show s1.closable = closable; rw [hcl1]; exact hcl) hrec
          -- the flags agree
          obtain ⟨fa, fb⟩ := flag_agree hS hL hb2
          have hecl : e.closable = s1.closable := by rw [hL.closable, hcl1, hcl]
          have hsym : emitSym e st1 idx blk sh = sym (emitPkt P s1 idx blk sh) := by
            unfold sym emitSym emitPkt isLastPacket
            simp only [hS.notLegacy, Bool.false_or, hecl]
            congr 1
            have fa' : (st1.win.set idx (wblk { blk with readIndex := blk.readIndex + 1 })).all (fun b => b.rest.isEmpty) =
                (s1.blocks.set idx { blk with readIndex := blk.readIndex + 1 }).all Block.isEmpty := fa
            rw [fa']
            cases hD : (s1.blocks.set idx { blk with readIndex := blk.readIndex + 1 }).all Block.isEmpty with
            | false => simp
            | true =>
              have hD' := List.all_eq_true.mp hD
              have hmem : ({ blk with readIndex := blk.readIndex + 1 } : Block) ∈ s1.blocks.set idx { blk with readIndex := blk.readIndex + 1 } :=
                List.mem_iff_getElem?.mpr ⟨idx, List.getElem?_set_self hidxlt⟩
              have hlast := hD' _ hmem
              have hlast' : blk.readIndex + 1 = blk.shards.length := by simpa [Block.isEmpty] using hlast
              have htail : ((blk.shards.drop (blk.readIndex + 1)).map (·.esi)).isEmpty = true := by
                rw [List.drop_eq_nil_iff.mpr (by omega)]; rfl
              have fb' : decide ((if sh.esi < blk.nbSource then st1.srcSent + 1 else st1.srcSent) ≥ Flute.Session.totalSrc e.ks) =
                  decide ((if decide (sh.esi < blk.nbSource) = true then s1.srcSent + sh.data.length else s1.srcSent) ≥ P.len) := fb hD
              rw [htail, hlast, fb']
          rw [hsym]
          refine Match.step (s' := emitEnc s1 idx blk sh) (fun F hF => ?_) (by show s1.stopped = s.stopped; exact hst1) hm
          obtain ⟨F', rfl⟩ : ∃ k, F = k + 1 := ⟨F - 1, by omega⟩
          unfold readLoop
          simp only [hrw, hemp, Bool.false_eq_true, if_false, hidx', hget, Block.read, hsh]
          rfl

theorem drained_lt_fuel (s : Enc) : drained s < readFuel P s := by
  unfold drained readFuel
  have := List.countP_le_length (p := Block.isEmpty) (l := s.blocks)
  omega

/-- what `Match` means for the executable run and for `Reads` -/
theorem match_run {T : List Sym} {s : Enc} (m : Match P T s) (hst : s.stopped = false) :
    (∀ G, T.length < G → (runAll P G s).map sym = T) ∧
    ∃ tr s', Reads P s tr s' ∧ (∀ x, x ∈ tr → x.1 = false) ∧ (pkts tr).map sym = T ∧ (BlockEnc.read P s' false).1 = .none := by
  induction m with
  | @done s h =>
    have hr : (BlockEnc.read P s false).1 = .none := by
      unfold BlockEnc.read; simp only [hst, Bool.false_eq_true, if_false]; exact h _ (drained_lt_fuel s)
    refine ⟨fun G hG => ?_, [], s, Reads.nil s, (by intro x hx; cases hx), rfl, hr⟩
    obtain ⟨G', rfl⟩ : ∃ k, G = k + 1 := ⟨G - 1, by omega⟩
    unfold runAll
    generalize BlockEnc.read P s false = r at hr
    obtain ⟨o, s'⟩ := r
    simp only at hr; subst hr; rfl
  | @step s s' p T h hs m ih =>
    have hr : BlockEnc.read P s false = (.pkt p, s') := by
      unfold BlockEnc.read; simp only [hst, Bool.false_eq_true, if_false]; exact h _ (drained_lt_fuel s)
    obtain ⟨i1, tr, s2, i2, i3, i4, i5⟩ := ih (by rw [hs]; exact hst)
    refine ⟨fun G hG => ?_, (false, p) :: tr, s2, Reads.cons hr i2, ?_, ?_, i5⟩
    · obtain ⟨G', rfl⟩ : ∃ k, G = k + 1 := ⟨G - 1, by omega⟩
      unfold runAll
      rw [hr]
      simp only [List.map_cons, List.length_cons] at hG ⊢
      rw [i1 G' (by omega)]
    · intro x hx
      rcases List.mem_cons.mp hx with h1 | h1
      · rw [h1]
      · exact i3 x h1
    · simp only [pkts, List.map_cons] at i4 ⊢
      rw [i4]

theorem binv_init (hS : Setup P c aL aS nL n) (closable : Bool) :
    BInv P c aL aS nL n []
      { src := .buffer c, off := 0, sbn := 0, aL := aL, aS := aS, nL := nL, nB := n, blocks := [], idx := 0, readEnd := false, srcSent := 0, nbPkt := 0, stopped := false, closable := closable }
      Flute.Session.encInit := by
  obtain ⟨hI0, hT0⟩ := inv_init hS closable
  refine ⟨hI0, hT0, ?_, ?_, ?_, ?_⟩
  · simp [Psi, psum, cum_zero]
  · simp [PhiLo, pendBs, off_zero]
  · intro _; exact ⟨rfl, by intro b hb; cases hb⟩
  · exact ⟨rfl, rfl, rfl, rfl, rfl, by simp [psum, cum_zero, Flute.Session.encInit]⟩

/-- `EncOK` (e2e's hypothesis of all its sender facts) follows from the link -/
theorem encOK_of_link (hS : Setup P c aL aS nL n) (hw : 1 ≤ P.window) {closable : Bool} {e : Flute.Session.Enc}
    (hL : Link P aL aS nL n closable e) : Flute.Lemmas.Session.EncOK e := by
  refine ⟨by rw [hL.w]; exact hw, by rw [hL.ks_size]; exact hS.good.n_pos, ?_⟩
  intro b k hk
  have hb : b < n := by
    have := (Array.getElem?_eq_some_iff.mp hk).1
    rw [hL.ks_size] at this; exact this
  rw [hL.ks_get b hb] at hk
  cases hk
  exact ⟨A_pos aL aS nL b hS.good.aS_pos hS.good.aS_le, hL.noFail b hb⟩

/-- **emitTransfer = the BlockEnc transfer.**  For all object bytes `c` (non-empty), `E, B > 0`, the partition
    `(aL, aS, nL, n)`, parity, window ≥ 1, closable flag, a codec accepting every block, with source symbols of at most
    `E` bytes that cover the block, and e2e's encoder parameters `e` linked to these (`Link`): `emitTransfer e = some T`
    where `T` is the `(SBN, ESI, B)` projection of the packets of the complete unforced BlockEnc transfer - as the
    executable `runAll` (any fuel > |T|) and as a `Run` (so that every C08 theorem applies to `T`). -/
theorem emitTransfer_eq_blockenc (hS : Setup P c aL aS nL n) (hb : 0 < P.b) (hA : Accepts P c aL aS nL n)
    (hcov : SrcCover P.codec) (hle : SymLe P.codec) (hw : 1 ≤ P.window) {closable : Bool} {e : Flute.Session.Enc}
    (hL : Link P aL aS nL n closable e)
    (hq : Partition.blockPartitioning P.b P.len P.e = .ok (aL, aS, nL, n)) :
    ∃ T s0, Flute.Session.emitTransfer e = some T ∧ Enc.new P (.buffer c) closable = .ok s0 ∧
      (∀ G, T.length < G → (runAll P G s0).map sym = T) ∧
      ∃ tr s, Run P c aL aS nL n closable tr s ∧ (∀ x, x ∈ tr → x.1 = false) ∧
        (BlockEnc.read P s false).1 = .none ∧ (pkts tr).map sym = T := by
  obtain ⟨T, hT⟩ := Flute.Lemmas.Session.emit_terminates e (encOK_of_link hS hw hL)
  have hnew : Enc.new P (.buffer c) closable = .ok
      { src := .buffer c, off := 0, sbn := 0, aL := aL, aS := aS, nL := nL, nB := n, blocks := [], idx := 0, readEnd := false, srcSent := 0, nbPkt := 0, stopped := false, closable := closable } := by
    unfold Enc.new; simp only [hq]
  have hm := bridge_loop hS hA hcov hle hw hL _ _ _ [] T (binv_init hS closable) rfl hT
  obtain ⟨m1, tr, s, m2, m3, m4, m5⟩ := match_run hm rfl
  refine ⟨T, _, hT, hnew, m1, tr, s, ?_, m3, m5, m4⟩
  exact ⟨hS.notLegacy, hS.e_pos, hb, hS.len_eq, by have := hS.l_pos; rw [hS.len_eq] at this; exact this, hw, hq, hA,
    ⟨_, hnew, m2⟩⟩

/-! ### the link for the concrete codecs / schemes the two drivers run -/

/-- e2e's encoder parameters for an object with this partition -/
def encOf (sch : Scheme) (P : Params) (aL aS nL n : Nat) (closable : Bool) : Flute.Session.Enc :=
  { scheme := sch, ks := ((List.range n).map (A aL aS nL)).toArray, p := P.p, w := P.window, closable := closable }

theorem link_of (sch : Scheme) (closable : Bool)
    (hsh : ∀ k, k + P.codec.nRepair k P.p = shardsOf sch k P.p)
    (hnf : ∀ k, k < n → blockFails sch (A aL aS nL k) P.p = false) :
    Link P aL aS nL n closable (encOf sch P aL aS nL n closable) := by
  refine ⟨by simp [encOf], ?_, rfl, rfl, rfl, hsh, hnf⟩
  intro k hk
  simp [encOf, hk]

theorem link_nocode (closable : Bool) (hc : P.codec = noCode) :
    Link P aL aS nL n closable (encOf .nocode P aL aS nL n closable) :=
  link_of .nocode closable (by intro k; rw [hc]; rfl) (by intro k _; rfl)

/-- `A k ≤ aL` -/
theorem A_le_aL (hS : Setup P c aL aS nL n) (k : Nat) : A aL aS nL k ≤ aL := by
  unfold A; split
  · exact Nat.le_refl _
  · exact hS.good.aS_le

/-- RaptorQ: blocks of at most 56403 symbols (`add_object` refuses larger ones since /repo 29615e2) -/
theorem link_raptorq (hS : Setup P c aL aS nL n) (rep) (closable : Bool) (hc : P.codec = raptorQ rep) (hmax : aL ≤ 56403) :
    Link P aL aS nL n closable (encOf .raptorq P aL aS nL n closable) :=
  link_of .raptorq closable (by intro k; rw [hc]; rfl) (by
    intro k _
    have := A_le_aL hS k
    first
      | rfl
      | (simp only [blockFails, Flute.Session.kMax, decide_eq_false_iff_not]; omega)
      | (simp [blockFails, Flute.Session.kMax]; omega))

/-- Reed-Solomon (both FEC IDs): e2e's `blockFails` is false exactly under the repaired `add_object` checks -/
theorem link_rs (hS : Setup P c aL aS nL n) (rep) (closable : Bool) (us : Bool) (hc : P.codec = reedSolomon rep)
    (hp : 1 ≤ P.p) (hk : aL + P.p ≤ 256) :
    Link P aL aS nL n closable (encOf (if us then .rsus else .rs) P aL aS nL n closable) := by
  apply link_of
  · intro k; rw [hc]; cases us <;> rfl
  · intro k _
    have h2 := A_pos aL aS nL k hS.good.aS_pos hS.good.aS_le
    have h3 : A aL aS nL k ≤ aL := by unfold A; split; exact Nat.le_refl _; exact hS.good.aS_le
    have e1 : (P.p == 0) = false := by rw [beq_eq_false_iff_ne]; omega
    have e2 : (A aL aS nL k == 0) = false := by rw [beq_eq_false_iff_ne]; omega
    have e3 : decide (A aL aS nL k + P.p > 256) = false := decide_eq_false (by omega)
    cases us <;> simp [blockFails, e1, e2, e3]

/-- Raptor as the crate is: no block of 2 or 3 symbols, at most 8192 symbols per block (`add_object` refuses larger
    ones since /repo 29615e2) -/
theorem link_raptor (hS : Setup P c aL aS nL n) (rep) (closable : Bool) (hc : P.codec = raptorLegacy rep)
    (hk : ∀ k, k < n → A aL aS nL k ≠ 2 ∧ A aL aS nL k ≠ 3) (hmax : aL ≤ 8192) :
    Link P aL aS nL n closable (encOf .raptor P aL aS nL n closable) := by
  apply link_of
  · intro k; rw [hc]; rfl
  · intro k hkn
    obtain ⟨h2, h3⟩ := hk k hkn
    have := A_le_aL hS k
    first
      | (simp [blockFails, Flute.Session.kMax, h2, h3]; done)
      | (simp [blockFails, Flute.Session.kMax, h2, h3]; omega)

theorem sum_length_flatten (L : List Bytes) : (L.map List.length).sum = L.flatten.length := by
  induction L with
  | nil => rfl
  | cons a t ih => simp only [List.map_cons, List.sum_cons, List.flatten_cons, List.length_append, ih]

theorem noCode_srcCover : SrcCover noCode := by
  intro e d he
  show d.length ≤ ((chunks e d).map List.length).sum
  rw [sum_length_flatten]
  have := slices_rebuild e d he (divCeil d.length e)
  have h2 : (chunks e d).flatten = d.take (divCeil d.length e * e) := this
  rw [h2, List.take_of_length_le (divCeil_mul_ge d.length e he)]
  exact Nat.le_refl _

theorem padded_srcCover (e : Nat) (d : Bytes) (he : 0 < e) : d.length ≤ ((chunksPadded e d).map List.length).sum := by
  have h1 := noCode_srcCover e d he
  have h1' : d.length ≤ ((chunks e d).map List.length).sum := h1
  have mono : ∀ L : List Bytes, (L.map List.length).sum ≤ ((L.map (padTo e)).map List.length).sum := by
    intro L
    induction L with
    | nil => exact Nat.le_refl _
    | cons a t ih => simp [padTo] at ih ⊢; omega
  exact Nat.le_trans h1' (mono _)

theorem reedSolomon_srcCover (rep) : SrcCover (reedSolomon rep) := fun e d he => padded_srcCover e d he
theorem raptorQ_srcCover (rep) : SrcCover (raptorQ rep) := fun e d he => padded_srcCover e d he

end Flute.BencSessionBridge
