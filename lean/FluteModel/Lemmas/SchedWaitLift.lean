import FluteModel.Lemmas.SchedWait
/-
  Lift of `readQueue_wait` to `Sender::read`: the FDT session and the file sessions of the OTHER priority queues do
  not take a ready waiting object of priority `P` away (they only touch objects of their own priority, and a
  publication can only make more objects eligible).
-/
namespace Flute.Sched

/-- what `should_transfer_now` and the pacing gate read of a descriptor; `published` may only grow -/
structure PView (g' g : FileDesc) : Prop where
  prio : g'.prio = g.prio
  info : g'.info = g.info
  maxCount : g'.maxCount = g.maxCount
  carousel : g'.carousel = g.carousel
  target : g'.target = g.target
  nSym : g'.nSym = g.nSym
  pub : g.published = true → g'.published = true
  faults : g'.faults = g.faults

theorem PView.refl (g : FileDesc) : PView g g := ⟨rfl, rfl, rfl, rfl, rfl, rfl, id, rfl⟩

theorem PView.trans {g2 g1 g0 : FileDesc} (h1 : PView g2 g1) (h0 : PView g1 g0) : PView g2 g0 :=
  ⟨h1.prio.trans h0.prio, h1.info.trans h0.info, h1.maxCount.trans h0.maxCount, h1.carousel.trans h0.carousel,
   h1.target.trans h0.target, h1.nSym.trans h0.nSym, fun h => h1.pub (h0.pub h), h1.faults.trans h0.faults⟩

theorem PView.wants {g' g : FileDesc} (h : PView g' g) : wantsTick g' = wantsTick g := by
  unfold wantsTick; rw [h.target, h.nSym]

theorem PView.should {g' g : FileDesc} (h : PView g' g) (P now : Nat) (mode : Mode)
    (hs : shouldTransferNow g P mode now = true) : shouldTransferNow g' P mode now = true := by
  unfold shouldTransferNow beforeStart gapElapsed at hs ⊢
  rw [h.prio, h.info, h.maxCount, h.carousel]
  by_cases hp : g.published = true
  · rw [h.pub hp]; rw [hp] at hs; exact hs
  · have hp' : g.published = false := by cases hq : g.published <;> simp_all
    rw [hp'] at hs
    cases mode with
    | being => simp only [show (Mode.being == Mode.full) = false from rfl, Bool.false_and] at hs ⊢; exact hs
    | full =>
      exfalso
      simp only [show (Mode.full == Mode.full) = true from rfl, Bool.true_and, Bool.not_false, if_true] at hs
      split at hs <;> cases hs

theorem pubMark_pview (fs : List Nat) (g : FileDesc) : PView (pubMark fs g) g := by
  unfold pubMark; split
  · exact ⟨rfl, rfl, rfl, rfl, rfl, rfl, fun _ => rfl, rfl⟩
  · exact PView.refl g

/-- relation between two states of one `read`, seen from priority `P` -/
structure Rel (P : Nat) (s s' : State) : Prop where
  mode : s'.cfg.mode = s.cfg.mode
  fwd : ∀ u ∈ s.queue, ∀ g, getF s.objs u = some g → g.prio = P →
    u ∈ s'.queue ∧ ∃ g', getF s'.objs u = some g' ∧ PView g' g
  bwd : ∀ u ∈ s'.queue, ∀ g', getF s'.objs u = some g' → g'.prio = P →
    u ∈ s.queue ∧ ∃ g, getF s.objs u = some g ∧ PView g' g
  pbwd : ∀ k g', getF s'.objs k = some g' → ∃ g, getF s.objs k = some g ∧ g.prio = g'.prio
  pfwd : ∀ k g, getF s.objs k = some g → ∃ g', getF s'.objs k = some g' ∧ g'.prio = g.prio
  ofwd : ∀ k g, getF s.objs k = some g → g.prio = P → ∃ g', getF s'.objs k = some g' ∧ PView g' g

theorem Rel.refl (P : Nat) (s : State) : Rel P s s :=
  ⟨rfl, fun _ hu g hg _ => ⟨hu, g, hg, PView.refl g⟩, fun _ hu g hg _ => ⟨hu, g, hg, PView.refl g⟩,
   fun _ g hg => ⟨g, hg, rfl⟩, fun _ g hg => ⟨g, hg, rfl⟩, fun _ g hg _ => ⟨g, hg, PView.refl g⟩⟩

theorem Rel.trans {P : Nat} {s0 s1 s2 : State} (h0 : Rel P s0 s1) (h1 : Rel P s1 s2) : Rel P s0 s2 where
  mode := h1.mode.trans h0.mode
  fwd := fun u hu g hg hp => by
    obtain ⟨hu1, g1, hg1, v1⟩ := h0.fwd u hu g hg hp
    obtain ⟨hu2, g2, hg2, v2⟩ := h1.fwd u hu1 g1 hg1 (v1.prio.trans hp)
    exact ⟨hu2, g2, hg2, v2.trans v1⟩
  bwd := fun u hu g2 hg2 hp => by
    obtain ⟨hu1, g1, hg1, v2⟩ := h1.bwd u hu g2 hg2 hp
    obtain ⟨hu0, g0, hg0, v1⟩ := h0.bwd u hu1 g1 hg1 (v2.prio.symm.trans hp)
    exact ⟨hu0, g0, hg0, v2.trans v1⟩
  pbwd := fun k g2 hg2 => by
    obtain ⟨g1, hg1, e1⟩ := h1.pbwd k g2 hg2
    obtain ⟨g0, hg0, e0⟩ := h0.pbwd k g1 hg1
    exact ⟨g0, hg0, e0.trans e1⟩
  pfwd := fun k g0 hg0 => by
    obtain ⟨g1, hg1, e1⟩ := h0.pfwd k g0 hg0
    obtain ⟨g2, hg2, e2⟩ := h1.pfwd k g1 hg1
    exact ⟨g2, hg2, e2.trans e1⟩
  ofwd := fun k g0 hg0 hp => by
    obtain ⟨g1, hg1, v1⟩ := h0.ofwd k g0 hg0 hp
    obtain ⟨g2, hg2, v2⟩ := h1.ofwd k g1 hg1 (v1.prio.trans hp)
    exact ⟨g2, hg2, v2.trans v1⟩

theorem Rel.of_same {P : Nat} {s s' : State} (ho : s'.objs = s.objs) (hq : s'.queue = s.queue) (hc : s'.cfg = s.cfg) :
    Rel P s s' :=
  ⟨by rw [hc], fun _ hu g hg _ => ⟨by rw [hq]; exact hu, g, by rw [ho]; exact hg, PView.refl g⟩,
   fun _ hu g hg _ => ⟨by rw [← hq]; exact hu, g, by rw [← ho]; exact hg, PView.refl g⟩,
   fun _ g hg => ⟨g, by rw [← ho]; exact hg, rfl⟩, fun _ g hg => ⟨g, by rw [ho]; exact hg, rfl⟩,
   fun _ g hg _ => ⟨g, by rw [ho]; exact hg, PView.refl g⟩⟩

theorem Rel.publish (P : Nat) (s : State) (now : Nat) : Rel P s (publish s now) where
  mode := rfl
  fwd := fun u hu g hg _ => ⟨hu, pubMark s.files g, by rw [publish_getF_objs, hg]; rfl, pubMark_pview _ g⟩
  bwd := fun u hu g' hg' _ => by
    rw [publish_getF_objs] at hg'
    cases hg : getF s.objs u with
    | none => rw [hg] at hg'; cases hg'
    | some g =>
      rw [hg] at hg'; simp only [Option.map_some, Option.some.injEq] at hg'
      exact ⟨hu, g, rfl, hg' ▸ pubMark_pview _ g⟩
  pbwd := fun k g' hg' => by
    rw [publish_getF_objs] at hg'
    cases hg : getF s.objs k with
    | none => rw [hg] at hg'; cases hg'
    | some g =>
      rw [hg] at hg'; simp only [Option.map_some, Option.some.injEq] at hg'
      exact ⟨g, rfl, by rw [← hg']; exact (pubMark_prio _ g).symm⟩
  pfwd := fun k g hg => ⟨pubMark s.files g, by rw [publish_getF_objs, hg]; rfl, pubMark_prio _ g⟩
  ofwd := fun k g hg _ => ⟨pubMark s.files g, by rw [publish_getF_objs, hg]; rfl, pubMark_pview _ g⟩

theorem Rel.publishTry (P : Nat) (s : State) (now : Nat) : Rel P s (publishTry s now) :=
  publishTry_elim (P := fun x => Rel P s x) s now (Rel.publish P s now) (Rel.refl P s)

theorem Rel.autoPublish (P : Nat) (s : State) (now : Nat) : Rel P s (autoPublish s now) := by
  unfold Sched.autoPublish; split
  · exact Rel.publishTry P s now
  · exact Rel.refl P s

/-- one descriptor of another priority is updated; the waiting queue changes at most at its key -/
theorem Rel.upd {P : Nat} {s s' : State} (k : Nat) (gf : FileDesc → FileDesc)
    (hg : ∀ x, (gf x).key = x.key ∧ (gf x).prio = x.prio)
    (hk : ∀ g, getF s.objs k = some g → g.prio ≠ P) (ho : s'.objs = updF s.objs k gf) (hc : s'.cfg = s.cfg)
    (hqf : ∀ u ∈ s.queue, u ≠ k → u ∈ s'.queue) (hqb : ∀ u ∈ s'.queue, u ≠ k → u ∈ s.queue) : Rel P s s' := by
  have hget : ∀ u, getF s'.objs u = if u = k then (getF s.objs u).map gf else getF s.objs u := by
    intro u; rw [ho]; exact getF_updF s.objs k u gf (fun x => (hg x).1)
  refine ⟨by rw [hc], ?_, ?_, ?_, ?_, ?_⟩
  · intro u hu g hgu hp
    have hne : u ≠ k := fun e => hk g (e ▸ hgu) hp
    exact ⟨hqf u hu hne, g, by rw [hget, if_neg hne]; exact hgu, PView.refl g⟩
  · intro u hu g' hgu hp
    by_cases hne : u = k
    · exfalso
      rw [hget, if_pos hne] at hgu
      cases hg0 : getF s.objs u with
      | none => rw [hg0] at hgu; cases hgu
      | some g =>
        rw [hg0] at hgu; simp only [Option.map_some, Option.some.injEq] at hgu
        exact hk g (hne ▸ hg0) (by rw [← (hg g).2, hgu]; exact hp)
    · rw [hget, if_neg hne] at hgu
      exact ⟨hqb u hu hne, g', hgu, PView.refl g'⟩
  · intro u g' hgu
    by_cases hne : u = k
    · rw [hget, if_pos hne] at hgu
      cases hg0 : getF s.objs u with
      | none => rw [hg0] at hgu; cases hgu
      | some g =>
        rw [hg0] at hgu; simp only [Option.map_some, Option.some.injEq] at hgu
        exact ⟨g, rfl, by rw [← hgu]; exact (hg g).2.symm⟩
    · rw [hget, if_neg hne] at hgu
      exact ⟨g', hgu, rfl⟩
  · intro u g hgu
    by_cases hne : u = k
    · exact ⟨gf g, by rw [hget, if_pos hne, hgu]; rfl, (hg g).2⟩
    · exact ⟨g, by rw [hget, if_neg hne]; exact hgu, rfl⟩
  · intro u g hgu hp
    have hne : u ≠ k := fun e => hk g (e ▸ hgu) hp
    exact ⟨g, by rw [hget, if_neg hne]; exact hgu, PView.refl g⟩

/-- fault-freeness where it matters for what a FRESH transfer of queue `P` does: the objects WAITING for a slot of
    queue `P` have buffer sources (objects of other queues, and objects already in transfer, may be faulty) -/
def QueueFaultFree (s : State) (P : Nat) : Prop :=
  ∀ u ∈ s.queue, ∀ g, getF s.objs u = some g → g.prio = P → g.faults = []

/-- some waiting object of priority `P` is ready, and no waiting object of priority `P` carries a stale pacing
    timestamp -/
structure WRP (P now : Nat) (s : State) : Prop where
  ex : ∃ t, findNext s P now s.queue = some t
  stale : ∀ u ∈ s.queue, ∀ g, getF s.objs u = some g → g.prio = P → wantsTick g = false → g.info.nextTs = none
  /-- the sources of the waiting objects of priority `P` do not fail -/
  nofault : ∀ u ∈ s.queue, ∀ g, getF s.objs u = some g → g.prio = P → g.faults = []

theorem findNext_some_of_exists {s : State} {P now : Nat} : ∀ (l : List Nat),
    (∃ u ∈ l, ∃ g, getF s.objs u = some g ∧ shouldTransferNow g P s.cfg.mode now = true) →
    ∃ t, findNext s P now l = some t := by
  intro l
  induction l with
  | nil => intro ⟨u, hu, _⟩; cases hu
  | cons a r ih =>
    intro ⟨u, hu, g, hg, hs⟩
    unfold findNext
    split
    · rename_i f hf
      split
      · exact ⟨a, rfl⟩
      · rename_i hns
        rcases List.mem_cons.mp hu with e | hr
        · subst e; rw [hf] at hg; cases hg; exact absurd hs hns
        · exact ih ⟨u, hr, g, hg, hs⟩
    · rename_i hf
      rcases List.mem_cons.mp hu with e | hr
      · subst e; rw [hf] at hg; cases hg
      · exact ih ⟨u, hr, g, hg, hs⟩

theorem WRP.of_rel {P now : Nat} {s s' : State} (hr : Rel P s s') (h : WRP P now s) : WRP P now s' := by
  obtain ⟨t, ht⟩ := h.ex
  obtain ⟨_, _, _, _, g, hg, hs⟩ := findNext_spec s P now s.queue t ht
  have hp : g.prio = P := (shouldTransferNow_true hs).1
  obtain ⟨hu', g', hg', v⟩ := hr.fwd t (findNext_mem ht) g hg hp
  refine ⟨findNext_some_of_exists _ ⟨t, hu', g', hg', by rw [hr.mode]; exact v.should P now _ hs⟩, ?_, ?_⟩
  · intro u hu g2 hg2 hp2 hw
    obtain ⟨hu0, g0, hg0, v0⟩ := hr.bwd u hu g2 hg2 hp2
    rw [v0.info]
    exact h.stale u hu0 g0 hg0 (v0.prio.symm.trans hp2) (by rw [← v0.wants]; exact hw)
  · intro u hu g2 hg2 hp2
    obtain ⟨hu0, g0, hg0, v0⟩ := hr.bwd u hu g2 hg2 hp2
    rw [v0.faults]
    exact h.nofault u hu0 g0 hg0 (v0.prio.symm.trans hp2)

theorem WRP.ready {P now : Nat} {s : State} (h : WRP P now s) : ∃ t f, WaitReady s P now t f := by
  obtain ⟨t, ht⟩ := h.ex
  obtain ⟨_, _, _, _, g, hg, hs⟩ := findNext_spec s P now s.queue t ht
  exact ⟨t, g, ht, hg, h.stale t (findNext_mem ht) g hg (shouldTransferNow_true hs).1,
    h.nofault t (findNext_mem ht) g hg (shouldTransferNow_true hs).1⟩

/-! ### the FDT session -/

theorem Rel.fdtAdvance (P : Nat) (s : State) (now : Nat) : Rel P s (Sched.fdtAdvance s now) := by
  rcases fdtAdvance_cases s now with ⟨e, _⟩ | ⟨k', f', _, _, _, e⟩
  · rw [e]; exact Rel.of_same (fdtPop_objs s) (fdtPop_queue s) (fdtPop_cfg s)
  · rw [e]; exact Rel.of_same (fdtPop_objs s) (fdtPop_queue s) (fdtPop_cfg s)

theorem Rel.fdtGetNext (P : Nat) (s : State) (now : Nat) : Rel P s (Sched.fdtGetNext s now) := by
  unfold Sched.fdtGetNext
  split
  · exact Rel.refl P s
  · refine Rel.trans ?_ (Rel.fdtAdvance P _ now)
    unfold fdtMaybePublish
    split
    · exact Rel.publishTry P s now
    · exact Rel.refl P s

theorem Rel.runFdt (P : Nat) : ∀ fuel (s : State) now, Rel P s (Sched.runFdt fuel s now).1 := by
  intro fuel
  induction fuel with
  | zero => intro s now; exact Rel.refl P s
  | succ n ih =>
    intro s now
    unfold Sched.runFdt
    have key : ∀ s1 : State, Rel P s s1 →
        Rel P s (match s1.fdtSess with
          | none => (s1, Out.none)
          | some c =>
            match getF s1.fdts c.key with
            | none => (s1, Out.none)
            | some f =>
              if gateBlocked f now then (s1, Out.none) else
              match encRead f.nSym c.enc false with
              | (none, _) => Sched.runFdt n (fdtRelease s1 c.key now) now
              | (some (idx, _), e) => (fdtStep s1 c e f.fdtId now idx, Out.fdt c.key f.fdtId idx)).1 := by
      intro s1 h1
      split
      · exact h1
      · rename_i c _
        split
        · exact h1
        · split
          · exact h1
          · split
            · refine (h1.trans ?_).trans (ih (fdtRelease s1 c.key now) now)
              exact Rel.of_same (by unfold fdtRelease; exact transferDoneFdt_objs s1 c.key now)
                (by unfold fdtRelease; exact transferDoneFdt_queue s1 c.key now)
                (by unfold fdtRelease; exact transferDoneFdt_cfg s1 c.key now)
            · exact h1.trans (Rel.of_same rfl rfl rfl)
    cases hs : s.fdtSess with
    | some c => simp only []; exact key s (Rel.refl P s)
    | none => simp only []; exact key _ (Rel.fdtGetNext P s now)

/-! ### a file session of another priority -/

theorem Rel.getNextFile {P p0 now : Nat} {s s' : State} {ticks : List (Nat × Nat)} {r : Option Nat} (hp : p0 ≠ P)
    (hg : getNextFile s p0 now ticks = (s', r)) :
    Rel P s s' ∧ ∀ t0, r = some t0 → ∀ g', getF s'.objs t0 = some g' → g'.prio = p0 := by
  unfold Sched.getNextFile at hg
  split at hg
  · simp only [Prod.mk.injEq] at hg
    obtain ⟨e1, e2⟩ := hg
    subst e1; subst e2
    exact ⟨Rel.refl P s, fun _ e => by cases e⟩
  · rename_i t' hf
    simp only [Prod.mk.injEq] at hg
    obtain ⟨e1, e2⟩ := hg
    subst e2
    obtain ⟨_, _, _, _, g, hgg, hst⟩ := findNext_spec s p0 now s.queue t' hf
    have hgp : g.prio = p0 := (shouldTransferNow_true hst).1
    have h1 : Rel P s (fileStartStep s t' now (tkGet ticks t')) :=
      Rel.upd t' (fun g => transferInit g now (tkGet ticks t')) (fun _ => ⟨rfl, rfl⟩)
        (fun g0 hg0 => by rw [hgg] at hg0; cases hg0; rw [hgp]; exact hp) rfl rfl
        (fun u hu hne => (List.mem_erase_of_ne hne).mpr hu) (fun u hu _ => List.mem_of_mem_erase hu)
    have h2 : Rel P s s' := by rw [← e1]; exact h1.trans (Rel.autoPublish P _ now)
    refine ⟨h2, ?_⟩
    intro t0 e g' hg'
    simp only [Option.some.injEq] at e; subst e
    obtain ⟨g0, hg0, ep⟩ := h2.pbwd _ g' hg'
    rw [hgg] at hg0; cases hg0
    rw [← ep]; exact hgp

theorem runFile_otherprio {P p0 : Nat} (hp : p0 ≠ P) (now : Nat) (ticks : List (Nat × Nat)) :
    ∀ fuel (s : State) (cur : Option Cur),
    (∀ c, cur = some c → ∀ g, getF s.objs c.key = some g → g.prio = p0) →
    Rel P s (runFile fuel s p0 cur now ticks).1 ∧
    (∀ c, (runFile fuel s p0 cur now ticks).2.1 = some c →
      ∀ g, getF (runFile fuel s p0 cur now ticks).1.objs c.key = some g → g.prio = p0) ∧
    (∀ p t i b, (runFile fuel s p0 cur now ticks).2.2 = Out.pkt p t i b → p = p0) := by
  intro fuel
  induction fuel with
  | zero => intro s cur hc; exact ⟨Rel.refl P s, hc, fun _ _ _ _ e => (by cases e)⟩
  | succ n ih =>
    intro s cur hc
    have key : ∀ (fr : Bool) (s1 : State) (cur1 : Option Cur), Rel P s s1 →
        (∀ c, cur1 = some c → ∀ g, getF s1.objs c.key = some g → g.prio = p0) →
        let r := (if !s1.fdtQueue.isEmpty then (s1, cur1, Out.none) else
          match cur1 with
          | none => (s1, none, Out.none)
          | some c =>
            match getF s1.objs c.key with
            | none => (s1, cur1, Out.none)
            | some f =>
              if gateBlocked f now then (s1, cur1, Out.none) else
              match encRead f.nSym c.enc (canStop f && !s1.files.contains c.key) with
              | (none, _) =>

                if fr then (transferDoneFile s1 c.key now, none, Out.none)

                else runFile n (transferDoneFile s1 c.key now) p0 none now ticks
              | (some (idx, b), e) => (pktStep s1 p0 c.key now idx b, some { c with enc := e }, Out.pkt p0 c.key idx b))
        Rel P s r.1 ∧ (∀ c, r.2.1 = some c → ∀ g, getF r.1.objs c.key = some g → g.prio = p0) ∧
          (∀ p t i b, r.2.2 = Out.pkt p t i b → p = p0) := by
      intro fr s1 cur1 h1 hc1
      simp only []
      split
      · exact ⟨h1, hc1, fun _ _ _ _ e => (by cases e)⟩
      · cases cur1 with
        | none => exact ⟨h1, hc1, fun _ _ _ _ e => (by cases e)⟩
        | some c =>
          simp only []
          split
          · exact ⟨h1, hc1, fun _ _ _ _ e => (by cases e)⟩
          · split
            · exact ⟨h1, hc1, fun _ _ _ _ e => (by cases e)⟩
            · have hkp : ∀ g, getF s1.objs c.key = some g → g.prio ≠ P :=
                fun g hg => by rw [hc1 c rfl g hg]; exact hp
              split
              · have hd : Rel P s1 (transferDoneFile s1 c.key now) :=
                  Rel.upd c.key (fun g => transferDoneInfo g now) (fun _ => ⟨rfl, rfl⟩) hkp
                    (transferDoneFile_objs s1 c.key now) (transferDoneFile_cfg s1 c.key now)
                    (fun u hu _ => by
                      rcases transferDoneFile_queue_cases s1 c.key now with e | e <;> rw [e]
                      · exact hu
                      · exact List.mem_append_left _ hu)
                    (fun u hu hne => by
                      rcases transferDoneFile_queue_cases s1 c.key now with e | e <;> rw [e] at hu
                      · exact hu
                      · rcases List.mem_append.mp hu with h | h
                        · exact h
                        · simp at h; exact absurd h hne)
                cases fr with
                | true =>
                  simp only [if_true]
                  exact ⟨h1.trans hd, fun _ e => (by cases e), fun _ _ _ _ e => (by cases e)⟩
                | false =>
                  simp only [Bool.false_eq_true, if_false]
                  obtain ⟨r1, r2, r3⟩ := ih (transferDoneFile s1 c.key now) none (fun _ e => by cases e)
                  exact ⟨(h1.trans hd).trans r1, r2, r3⟩
              · have hk : ∀ idx b, Rel P s1 (pktStep s1 p0 c.key now idx b) := fun idx b =>
                  Rel.upd c.key tickInfo (fun _ => ⟨rfl, rfl⟩) hkp rfl rfl (fun _ hu _ => hu) (fun _ hu _ => hu)
                refine ⟨h1.trans (hk _ _), ?_, ?_⟩
                · intro c' e' g hg
                  simp only [Option.some.injEq] at e'
                  rw [← e'] at hg
                  obtain ⟨g0, hg0, ep⟩ := (hk _ _).pbwd c.key g hg
                  rw [← ep]; exact hc1 c rfl g0 hg0
                · intro p t i b e'
                  simp only [Out.pkt.injEq] at e'
                  exact e'.1.symm
    unfold runFile
    cases cur with
    | some c => exact key false s (some c) (Rel.refl P s) hc
    | none =>
      simp only []
      cases hg : getNextFile s p0 now ticks with
      | mk s' r =>
        obtain ⟨h1, h2⟩ := Rel.getNextFile hp hg
        cases r with
        | none => exact key true s' none h1 (fun _ e => by cases e)
        | some t =>
          simp only []
          cases ho : openFailed true s' (some (startCur s' t)) with
          | none =>
            exact key true s' (some (startCur s' t)) h1 (fun c e g hg' => by
              simp only [Option.some.injEq] at e
              rw [← e] at hg'
              exact h2 t rfl g hg')
          | some kf =>
            obtain ⟨k', f'⟩ := kf
            obtain ⟨_, c, e1, e2, _, _⟩ := openFailed_some ho
            simp only [Option.some.injEq] at e1
            subst e1
            have hk : k' = t := e2.symm
            subst hk
            simp only []
            have hd : Rel P s' (transferDoneFile s' k' now) :=
              Rel.upd k' (fun g => transferDoneInfo g now) (fun _ => ⟨rfl, rfl⟩)
                (fun g hg => by rw [h2 k' rfl g hg]; exact hp)
                (transferDoneFile_objs s' k' now) (transferDoneFile_cfg s' k' now)
                (fun u hu _ => by
                  rcases transferDoneFile_queue_cases s' k' now with e | e <;> rw [e]
                  · exact hu
                  · exact List.mem_append_left _ hu)
                (fun u hu hne => by
                  rcases transferDoneFile_queue_cases s' k' now with e | e <;> rw [e] at hu
                  · exact hu
                  · rcases List.mem_append.mp hu with h | h
                    · exact h
                    · simp at h; exact absurd h hne)
            exact ⟨h1.trans hd, fun _ e => (by cases e), fun _ _ _ _ e => (by cases e)⟩

theorem readQueue_otherprio {P : Nat} (now : Nat) (ticks : List (Nat × Nat)) :
    ∀ k (s : State) (q0 : QSess), q0.prio ≠ P →
    (∀ cur ∈ q0.slots, ∀ c, cur = some c → ∀ g, getF s.objs c.key = some g → g.prio = q0.prio) →
    Rel P s (readQueue k s q0 now ticks).1 ∧
    (∀ p t i b, (readQueue k s q0 now ticks).2.2 = Out.pkt p t i b → p = q0.prio) := by
  intro k
  induction k with
  | zero => intro s q0 _ _; exact ⟨Rel.refl P s, fun _ _ _ _ e => (by cases e)⟩
  | succ m ih =>
    intro s q0 hp hsl
    unfold readQueue
    split
    · exact ⟨Rel.refl P s, fun _ _ _ _ e => (by cases e)⟩
    · rename_i cur hcur
      have hr := runFile_otherprio hp now ticks runFuel s cur (hsl cur (List.mem_of_getElem? hcur))
      generalize runFile runFuel s q0.prio cur now ticks = r at hr
      obtain ⟨s', cur', out⟩ := r
      simp only [] at hr ⊢
      obtain ⟨h1, h2, h3⟩ := hr
      cases out with
      | none =>
        simp only []
        have hsl' : ∀ cur0 ∈ (q0.slots.set q0.index cur'), ∀ c, cur0 = some c →
            ∀ g, getF s'.objs c.key = some g → g.prio = q0.prio := by
          intro cur0 hm c e g hg
          rcases List.mem_or_eq_of_mem_set hm with hm' | hm'
          · obtain ⟨g0, hg0, ep⟩ := h1.pbwd c.key g hg
            rw [← ep]; exact hsl cur0 hm' c e g0 hg0
          · subst hm'; exact h2 c e g hg
        obtain ⟨r1, r2⟩ := ih s' { q0 with slots := q0.slots.set q0.index cur', index := (if q0.index + 1 = q0.slots.length then 0 else q0.index + 1) } hp hsl'
        exact ⟨h1.trans r1, r2⟩
      | hang => exact ⟨h1, fun _ _ _ _ e => (by cases e)⟩
      | pkt a b c d => exact ⟨h1, fun p t i b' e => (by rw [← h3 a b c d rfl]; cases e; rfl)⟩
      | fdt a b c => exact ⟨h1, fun _ _ _ _ e => (by cases e)⟩

/-! ### the loop over the priority queues -/

/-- the slots of the queues visited before `q` hold objects of those queues' priorities -/
def PreOk (P : Nat) (pre : List QSess) (s : State) : Prop :=
  ∀ q0 ∈ pre, q0.prio ≠ P ∧ ∀ cur ∈ q0.slots, ∀ c, cur = some c → ∀ g, getF s.objs c.key = some g → g.prio = q0.prio

/-- the transfers in the slots of `q` are objects of priority `P` that are not in the waiting queue -/
def HeldOk (P : Nat) (q : QSess) (s : State) : Prop :=
  ∀ (i : Nat) (c0 : Cur), q.slots[i]? = some (some c0) → c0.key ∉ s.queue ∧ ∃ g, getF s.objs c0.key = some g ∧ g.prio = P

theorem PreOk.of_rel {P : Nat} {pre : List QSess} {s s' : State} (hr : Rel P s s') (h : PreOk P pre s) : PreOk P pre s' := by
  intro q0 hq0
  refine ⟨(h q0 hq0).1, ?_⟩
  intro cur hcur c e g hg
  obtain ⟨g0, hg0, ep⟩ := hr.pbwd c.key g hg
  rw [← ep]; exact (h q0 hq0).2 cur hcur c e g0 hg0

theorem HeldOk.of_rel {P : Nat} {q : QSess} {s s' : State} (hr : Rel P s s') (h : HeldOk P q s) : HeldOk P q s' := by
  intro i c0 hi
  obtain ⟨hnq, g, hg, hp⟩ := h i c0 hi
  obtain ⟨g', hg', ep⟩ := hr.pfwd c0.key g hg
  refine ⟨?_, g', hg', ep.trans hp⟩
  intro hmem
  exact hnq (hr.bwd c0.key hmem g' hg' (ep.trans hp)).1

theorem Avail.of_rel {P now : Nat} {q : QSess} {s s' : State} {curj : Option Cur} {j : Nat} (hr : Rel P s s')
    (hq : HeldOk P q s) (hjs : q.slots[j]? = some curj) (h : Avail s now curj) : Avail s' now curj := by
  rcases h with h | ⟨c, g, h1, h2, h3, h4⟩
  · exact Or.inl h
  · subst h1
    obtain ⟨_, g0, hg0, hp⟩ := hq j c hjs
    rw [h2] at hg0; cases hg0
    obtain ⟨g', hg', v⟩ := hr.ofwd c.key g h2 hp
    refine Or.inr ⟨c, g', rfl, hg', by rw [gateBlocked_congr v.info]; exact h3, ?_⟩
    have : g'.nPk = g.nPk := by unfold FileDesc.nPk; rw [v.nSym]
    rw [this]; exact h4

theorem readQueues_wait (now : Nat) (ticks : List (Nat × Nat)) (q : QSess) (post : List QSess) (j : Nat)
    (curj : Option Cur) (hidx : q.index < q.slots.length) (hfree : q.slots[j]? = some curj) :
    ∀ (pre : List QSess) (s : State), WRP q.prio now s → PreOk q.prio pre s → HeldOk q.prio q s → Avail s now curj →
    (∀ p t i b, (readQueues s (pre ++ q :: post) now ticks).2.2 = Out.pkt p t i b →
      p ∈ (pre ++ [q]).map (fun x => x.prio)) ∧
    ((readQueues s (pre ++ q :: post) now ticks).2.2 = Out.none →
      (readQueues s (pre ++ q :: post) now ticks).1.fdtQueue ≠ []) := by
  have hj : j < q.slots.length := by
    rcases Nat.lt_or_ge j q.slots.length with h | h
    · exact h
    · rw [List.getElem?_eq_none h] at hfree; cases hfree
  intro pre
  induction pre with
  | nil =>
    intro s h _ hq hav
    obtain ⟨t, f, hw⟩ := h.ready
    simp only [List.nil_append]
    unfold readQueues
    have hr := readQueue_wait now ticks t f j q.slots.length hj q.slots.length s q curj hw rfl hidx hfree hav
      (fun i c0 hi => (hq i c0 hi).1) (rrDist_lt _ _ _ hidx hj)
    generalize readQueue q.slots.length s q now ticks = r at hr
    obtain ⟨s', q', out⟩ := r
    simp only [] at hr ⊢
    rcases hr with ⟨t', i, b, e⟩ | ⟨e1, e2⟩
    · subst e
      exact ⟨fun p t i b' e => (by cases e; simp), fun e => (by cases e)⟩
    · subst e1
      simp only []
      have hp := readQueues_pending post s' now ticks e2
      generalize readQueues s' post now ticks = r2 at hp
      obtain ⟨s2, rest2, out2⟩ := r2
      simp only [] at hp ⊢
      exact ⟨fun p t i b e => (by rw [hp.1] at e; cases e), fun _ => hp.2⟩
  | cons q0 pre' ih =>
    intro s h hpre hq hav
    simp only [List.cons_append]
    unfold readQueues
    have hr := readQueue_otherprio (P := q.prio) now ticks q0.slots.length s q0 (hpre q0 List.mem_cons_self).1
      (hpre q0 List.mem_cons_self).2
    generalize readQueue q0.slots.length s q0 now ticks = r at hr
    obtain ⟨s', q0', out⟩ := r
    simp only [] at hr ⊢
    obtain ⟨h1, h3⟩ := hr
    cases out with
    | none =>
      simp only []
      have h2 := ih s' (h.of_rel h1)
        (PreOk.of_rel h1 (fun q1 hq1 => hpre q1 (List.mem_cons_of_mem _ hq1))) (hq.of_rel h1)
        (Avail.of_rel h1 hq hfree hav)
      generalize readQueues s' (pre' ++ q :: post) now ticks = r2 at h2
      obtain ⟨s2, rest2, out2⟩ := r2
      simp only [] at h2 ⊢
      exact ⟨fun p t i b e => List.mem_cons_of_mem _ (h2.1 p t i b e), h2.2⟩
    | hang => exact ⟨fun _ _ _ _ e => (by cases e), fun e => (by cases e)⟩
    | pkt a b c' d =>
      exact ⟨fun p t i b' e => (by
        have := h3 a b c' d rfl
        cases e; simp [this]), fun e => (by cases e)⟩
    | fdt a b c' => exact ⟨fun _ _ _ _ e => (by cases e), fun e => (by cases e)⟩

theorem prio_ne_of_sorted (cfg : Cfg) (tbl : List Nat) (ops : List Op) (pre post : List QSess) (q : QSess)
    (hsorted : (cfg.queues.map (fun x => x.1)).Pairwise (fun a b => a < b))
    (hsess : (run (init cfg tbl) ops).sessions = pre ++ q :: post) :
    ∀ q0 ∈ pre, q0.prio ≠ q.prio := by
  have hsh := run_shape cfg tbl ops
  rw [hsess] at hsh
  have hp : (pre ++ q :: post).map (fun x => x.prio) = cfg.queues.map (fun x => x.1) := by
    have := congrArg (List.map (fun x : Nat × Nat => x.1)) hsh
    simp only [shape, List.map_map] at this
    exact this
  rw [← hp, List.map_append, List.pairwise_append] at hsorted
  obtain ⟨_, _, h3⟩ := hsorted
  intro q0 hq0
  exact Nat.ne_of_lt (h3 q0.prio (List.mem_map.mpr ⟨q0, hq0, rfl⟩) q.prio (by simp))

/-- Strict priority / progress for a WAITING object, for every reachable state: if priority queue `q` has a free slot
    and `get_next_file_transfer(q.prio)` would start some object now, then `read` does not return `None`, and an
    object packet it returns belongs to `q` or to a queue visited before `q`. -/
theorem read_wait (cfg : Cfg) (tbl : List Nat) (ops : List Op) (pre post : List QSess) (q : QSess) (j t : Nat)
    (now : Nat) (ticks : List (Nat × Nat))
    (hsorted : (cfg.queues.map (fun x => x.1)).Pairwise (fun a b => a < b))
    (hsess : (run (init cfg tbl) ops).sessions = pre ++ q :: post)
    (curj : Option Cur) (hfree : q.slots[j]? = some curj) (hav : Avail (run (init cfg tbl) ops) now curj)
    (hfind : findNext (run (init cfg tbl) ops) q.prio now (run (init cfg tbl) ops).queue = some t)
    (hstale : ∀ u ∈ (run (init cfg tbl) ops).queue, ∀ g, getF (run (init cfg tbl) ops).objs u = some g →
      g.prio = q.prio → wantsTick g = false → g.info.nextTs = none)
    (hnf : ∀ u ∈ (run (init cfg tbl) ops).queue, ∀ g, getF (run (init cfg tbl) ops).objs u = some g →
      g.prio = q.prio → g.faults = []) :
    (read (run (init cfg tbl) ops) now ticks).2 ≠ Out.none ∧
    ∀ p t i b, (read (run (init cfg tbl) ops) now ticks).2 = Out.pkt p t i b →
      p ∈ (pre ++ [q]).map (fun x => x.prio) := by
  have hwq := run_inv Wf.closed Wf.closedOps ops (init cfg tbl) (by rw [heldOf_init]; exact Wf.init cfg tbl) rfl
  have hidx := run_idx cfg tbl ops
  have hne := prio_ne_of_sorted cfg tbl ops pre post q hsorted hsess
  generalize run (init cfg tbl) ops = s at *
  obtain ⟨hw, hquiet⟩ := hwq
  have hheld : heldOf s = held pre ++ (heldQ q ++ held post) := by
    unfold heldOf; rw [hsess]; simp [held]
  have hwrp : WRP q.prio now s := ⟨⟨t, hfind⟩, hstale, hnf⟩
  have hpre : PreOk q.prio pre s := by
    intro q0 hq0
    refine ⟨hne q0 hq0, ?_⟩
    intro cur hcur c e g hg
    subst e
    have hin : (q0.prio, c) ∈ heldOf s := by rw [hheld]; exact List.mem_append_left _ (mem_held_of_slot hq0 hcur)
    obtain ⟨f0, hf0, _, hp0⟩ := hw.heldObj _ hin
    rw [hg] at hf0; cases hf0; exact hp0
  have hq : HeldOk q.prio q s := by
    intro i c0 hi
    have hcq : (q.prio, c0) ∈ heldQ q := by
      unfold heldQ heldSlots
      exact List.mem_flatMap.mpr ⟨some c0, List.mem_of_getElem? hi, by simp [optHeld]⟩
    have hin : (q.prio, c0) ∈ heldOf s := by rw [hheld]; exact List.mem_append_right _ (List.mem_append_left _ hcq)
    obtain ⟨f0, hf0, htr, hp0⟩ := hw.heldObj _ hin
    refine ⟨?_, f0, hf0, hp0⟩
    intro hmem
    obtain ⟨f1, hf1, hnt⟩ := hw.queueObj _ hmem
    rw [hf0] at hf1; cases hf1
    rw [htr] at hnt; cases hnt
  have hqidx : q.index < q.slots.length := hidx q (by rw [hsess]; simp)
  -- first poll of the FDT session
  unfold read
  have hw0 : Wf (emit s (.opRead now)) (heldOf s) := Wf.emit _ hw
  have hr0 : Rel q.prio s (emit s (.opRead now)) := Rel.of_same rfl rfl rfl
  have hr1 := hr0.trans (Rel.runFdt q.prio runFuel (emit s (.opRead now)) now)
  have hw1 := runFdt_inv Wf.closed runFuel (emit s (.opRead now)) now _ hw0 hquiet
  have hs1 := runFdt_sessions runFuel (emit s (.opRead now)) now
  have ho1 := runFdt_out runFuel (emit s (.opRead now)) now
  generalize hrr : runFdt runFuel (emit s (.opRead now)) now = r1 at hr1 hw1 hs1 ho1
  obtain ⟨s1, o1⟩ := r1
  simp only [emit_sessions] at hr1 hw1 hs1 ho1
  cases o1 with
  | hang => exact ⟨by simp, fun _ _ _ _ e => (by cases e)⟩
  | fdt a b c' => exact ⟨by simp, fun _ _ _ _ e => (by cases e)⟩
  | pkt a b c' d => exact absurd rfl (ho1 a b c' d)
  | none =>
    simp only []
    have hq1 := runFdt_none runFuel (emit s (.opRead now)) now s1 hrr
    have hw1q : Wf { s1 with quiet := true } (heldOf s) := Wf.enterFiles now hw1.1 hq1
    have hrS : Rel q.prio s { s1 with quiet := true } := hr1.trans (Rel.of_same rfl rfl rfl)
    have hSsess : ({ s1 with quiet := true } : State).sessions = pre ++ q :: post := by
      show s1.sessions = _; rw [hs1, hsess]
    have hSq : ({ s1 with quiet := true } : State).quiet = true := rfl
    generalize ({ s1 with quiet := true } : State) = S at hw1q hrS hSsess hSq ⊢
    unfold readMid
    simp only []
    rw [hSsess]
    have hdue := readQueues_wait now ticks q post j curj hqidx hfree pre S (hwrp.of_rel hrS) (hpre.of_rel hrS) (hq.of_rel hrS)
      (Avail.of_rel hrS hq hfree hav)
    have hwq2 := readQueues_inv Wf.closed (pre ++ q :: post) S now ticks []
      (by simpa [heldOf, hsess] using hw1q) hSq
    generalize readQueues S (pre ++ q :: post) now ticks = r2 at hdue hwq2
    obtain ⟨s2, qs, o2⟩ := r2
    simp only [List.append_nil] at hdue hwq2 ⊢
    cases o2 with
    | hang => exact ⟨by simp, fun _ _ _ _ e => (by cases e)⟩
    | fdt a b c' => exact ⟨by simp, fun _ _ _ _ e => (by cases e)⟩
    | pkt a b c' d => exact ⟨by simp, fun p t i b' e => (by cases e; exact hdue.1 a b c' d rfl)⟩
    | none =>
      simp only []
      have hfq := hdue.2 rfl
      have hw2 : Wf { s2 with sessions := qs, quiet := false } (held qs) := Wf.leaveFiles qs hwq2.1
      have hsess2 : ({ s2 with sessions := qs, quiet := false } : State).fdtSess = none := hwq2.1.quiet hwq2.2
      unfold readTail
      have e : runFuel = 3 + 1 := rfl
      obtain ⟨k', id, i', he⟩ := runFdt_emits_pending 3 now hw2 hsess2 hfq
      rw [e]
      generalize runFdt (3 + 1) ({ s2 with sessions := qs, quiet := false } : State) now = r3 at he
      obtain ⟨s3, o3⟩ := r3
      simp only [] at he
      subst he
      exact ⟨by simp, fun _ _ _ _ e => (by cases e)⟩

/-! ### an object that is not paced never carries a pacing timestamp (the target acquisition is immutable) -/

def StaleInv : State → Held → Prop := fun s _ => ∀ f ∈ s.objs, wantsTick f = false → f.info.nextTs = none

theorem StaleInv.same {s : State} {L : Held} (h : StaleInv s L) (s' : State) (L' : Held) (ho : s'.objs = s.objs) :
    StaleInv s' L' := by
  unfold StaleInv; rw [ho]; exact h

theorem StaleInv.updF {s : State} {L : Held} (h : StaleInv s L) (s' : State) (L' : Held) (k : Nat)
    (g : FileDesc → FileDesc)
    (hg : ∀ f, wantsTick (g f) = wantsTick f ∧ (wantsTick f = false → f.info.nextTs = none → (g f).info.nextTs = none))
    (ho : s'.objs = Sched.updF s.objs k g) : StaleInv s' L' := by
  intro f hf hw
  rw [ho] at hf
  obtain ⟨f0, hf0, rfl⟩ := mem_updF hf
  by_cases hk : f0.key = k
  · rw [if_pos hk] at hw ⊢
    rw [(hg f0).1] at hw; exact (hg f0).2 hw (h f0 hf0 hw)
  · rw [if_neg hk] at hw ⊢
    exact h f0 hf0 hw

theorem StaleInv.publish {s : State} {L : Held} (h : StaleInv s L) (now : Nat) : StaleInv (publish s now) L := by
  intro f hf hw
  rw [publish_objs, List.mem_map] at hf
  obtain ⟨f0, hf0, rfl⟩ := hf
  have v := pubMark_pview s.files f0
  rw [v.wants] at hw
  rw [v.info]; exact h f0 hf0 hw

theorem stale_transferInit (now tk : Nat) (f : FileDesc) :
    wantsTick (transferInit f now tk) = wantsTick f ∧
    (wantsTick f = false → f.info.nextTs = none → (transferInit f now tk).info.nextTs = none) := by
  refine ⟨rfl, ?_⟩
  intro hw hn
  unfold transferInit FileDesc.updInfo
  simp [hw, hn]

theorem stale_tickInfo (f : FileDesc) :
    wantsTick (tickInfo f) = wantsTick f ∧
    (wantsTick f = false → f.info.nextTs = none → (tickInfo f).info.nextTs = none) := by
  refine ⟨rfl, ?_⟩
  intro _ hn
  unfold tickInfo FileDesc.updInfo
  simp only [hn]
  split <;> simp_all

theorem StaleInv.closed : Closed0 StaleInv where
  perm := fun _ _ _ _ h => h
  leaveFiles := fun _ _ _ h => h
  enterFiles := fun _ _ _ _ h _ _ => h
  emitRead := fun _ _ _ _ h _ => h
  emitIdle := fun _ _ _ _ h _ => h
  publish := fun _ _ now _ h _ => h.publish now
  fdtAdvance := fun s L now _ h _ _ => by
    rcases fdtAdvance_cases s now with ⟨e, _⟩ | ⟨k, f, _, _, _, e⟩
    · rw [e]; exact h.same _ _ (fdtPop_objs s)
    · rw [e]; exact h.same _ _ (fdtPop_objs s)
  fileStart := fun s L _ now tk t _ h _ _ => by
    have h1 : StaleInv (fileStartStep s t now tk) L :=
      h.updF _ _ t (fun f => transferInit f now tk) (stale_transferInit now tk) rfl
    unfold autoPublish; split
    · exact publishTry_elim (P := fun x => StaleInv x L) _ now (h1.publish now) h1
    · exact h1
  pkt := fun s L _ c _ _ _ _ _ _ h _ _ _ _ _ => h.updF _ _ c.key tickInfo stale_tickInfo rfl
  done := fun s L _ c now _ _ _ h _ _ _ =>
    h.updF _ _ c.key (fun f => transferDoneInfo f now) (fun _ => ⟨rfl, fun _ hn => hn⟩) (transferDoneFile_objs s c.key now)
  fdtPkt := fun _ _ _ _ _ _ _ _ _ h _ _ _ _ _ => h
  fdtDone := fun s L c _ now _ _ h _ _ _ _ _ =>
    h.same _ _ (by unfold fdtRelease; exact transferDoneFdt_objs s c.key now)

theorem StaleInv.closedOps : ClosedOps0 StaleInv where
  add := fun s L a _ h => by
    unfold addObject; simp only []
    split
    · exact h
    · split
      · exact h
      · intro f hf hw
        have hf' : f ∈ s.objs ++ [_] := hf
        rcases List.mem_append.mp hf' with hf' | hf'
        · exact h f hf' hw
        · simp only [List.mem_singleton] at hf'; subst hf'; rfl
  remove := fun s L t _ h => by unfold removeObject; split <;> exact h
  trigger := fun s L t ts _ h => by
    unfold triggerTransferAt; split
    · exact h
    · split
      · exact h
      · exact h.updF _ _ t (fun f => resetLastTransfer f ts) (fun _ => ⟨rfl, fun _ hn => hn⟩) rfl
  publishOp := fun s L now _ h =>
    publishTry_elim (P := fun x => StaleInv x L) (emit s (.opPublish now)) now
      (StaleInv.publish (s := emit s (.opPublish now)) h now) h
  complete := fun _ _ _ h => h

theorem stale_run (cfg : Cfg) (tbl : List Nat) (ops : List Op) :
    ∀ f ∈ (run (init cfg tbl) ops).objs, wantsTick f = false → f.info.nextTs = none :=
  inv_run StaleInv.closed StaleInv.closedOps cfg tbl (by intro f hf; simp [init] at hf) ops

end Flute.Sched
