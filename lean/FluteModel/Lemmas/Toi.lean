/-
  Helper lemmas for C15 about `FluteModel/Toi.lean` (allocator part): invariant preservation,
  the skip loop finds a free value (pigeonhole), and loops for ever when there is none.
  Core Lean only.
-/
import FluteModel.Toi
namespace Flute.Toi

theorem mem_iff (x : Nat) (l : List Nat) : mem x l = true ↔ x ∈ l := by
  induction l with
  | nil => simp [mem]
  | cons y r ih =>
    unfold mem
    by_cases h : x = y
    · simp [h]
    · simp [h, ih]

theorem mem_false_iff (x : Nat) (l : List Nat) : mem x l = false ↔ x ∉ l := by
  rw [← mem_iff]; cases mem x l <;> simp

theorem Width.modulus_ge (w : Width) : 2 ^ 16 ≤ w.modulus := by
  cases w <;> simp [Width.modulus, Width.bits]

theorem Width.modulus_le (w : Width) : w.modulus ≤ 2 ^ 112 := by
  cases w <;> simp [Width.modulus, Width.bits]

/-- the allocator invariant -/
structure Inv (s : State) : Prop where
  next_ne : s.next ≠ 0
  next_lt : s.next < s.w.modulus
  next_free : s.next ∉ s.reserved
  zero_free : 0 ∉ s.reserved
  res_lt : ∀ r ∈ s.reserved, r < s.w.modulus
  nodup : s.reserved.Nodup

theorem new_inv (w : Width) (init : Nat) : Inv (new w init) := by
  have h1 := w.modulus_ge
  have h2 : init % w.modulus < w.modulus := Nat.mod_lt _ (by omega)
  unfold new toMaxLength
  by_cases h : init % w.modulus = 0
  · simp only [h, ↓reduceIte]
    exact ⟨by simp, by simp; omega, by simp, by simp, by simp, by simp⟩
  · simp only [h, ↓reduceIte]
    exact ⟨h, h2, by simp, by simp, by simp, by simp⟩

/-- the candidate computed by one loop iteration, as a total function on in-range values -/
def succM (m t : Nat) : Nat := if (t + 1) % m = 0 then 1 else (t + 1) % m

theorem nextCand_eq (w : Width) (t : Nat) (ht : t < w.modulus) :
    nextCand w t = .ok (succM w.modulus t) := by
  have := w.modulus_le
  unfold nextCand toMaxLength succM
  have : t + 1 < 2 ^ 128 := by omega
  simp [this]

theorem succM_range (m t : Nat) (hm : 2 ≤ m) : succM m t ≠ 0 ∧ succM m t < m := by
  unfold succM
  have := Nat.mod_lt (t + 1) (show 0 < m by omega)
  split <;> omega

/-- what `skip` returns when it returns -/
theorem skip_ok (w : Width) (res : List Nat) :
    ∀ (fuel t v : Nat), t < w.modulus → skip w res fuel t = .ok v →
      v ∉ res ∧ v ≠ 0 ∧ v < w.modulus := by
  intro fuel
  induction fuel with
  | zero => intro t v _ h; simp [skip] at h
  | succ n ih =>
    intro t v ht h
    have hm := w.modulus_ge
    have hr := succM_range w.modulus t (by omega)
    rw [skip, nextCand_eq w t ht] at h
    simp only at h
    by_cases hc : mem (succM w.modulus t) res = true
    · rw [if_pos hc] at h
      exact ih _ _ hr.2 h
    · rw [if_neg hc] at h
      injection h with h
      subst h
      exact ⟨by rw [← mem_iff]; exact hc, hr.1, hr.2⟩

theorem skip_no_panic (w : Width) (res : List Nat) :
    ∀ (fuel t : Nat) (e : String), t < w.modulus → skip w res fuel t ≠ .panic e := by
  intro fuel
  induction fuel with
  | zero => intro t e _ h; simp [skip] at h
  | succ n ih =>
    intro t e ht h
    have hm := w.modulus_ge
    have hr := succM_range w.modulus t (by omega)
    rw [skip, nextCand_eq w t ht] at h
    simp only at h
    by_cases hc : mem (succM w.modulus t) res = true
    · rw [if_pos hc] at h
      exact ih _ _ hr.2 h
    · rw [if_neg hc] at h
      cases h

theorem allocate_ok {s : State} (hi : Inv s) {v : Nat} {s' : State} (h : allocate s = .ok (v, s')) :
    v = s.next ∧ s'.reserved = v :: s.reserved ∧ s'.w = s.w ∧ Inv s' := by
  unfold allocate at h
  have hf : mem s.next s.reserved = false := (mem_false_iff _ _).2 hi.next_free
  simp only [hf, Bool.false_eq_true, ↓reduceIte] at h
  split at h
  · rename_i t ht
    injection h with h
    injection h with h1 h2
    subst h1; subst h2
    have hs := skip_ok s.w (s.next :: s.reserved) _ _ _ hi.next_lt ht
    refine ⟨rfl, rfl, rfl, ?_⟩
    constructor
    · exact hs.2.1
    · exact hs.2.2
    · exact hs.1
    · simp only [List.mem_cons, not_or]
      exact ⟨fun h => hi.next_ne h.symm, hi.zero_free⟩
    · intro r hr
      simp only [List.mem_cons] at hr
      rcases hr with rfl | hr
      · exact hi.next_lt
      · exact hi.res_lt r hr
    · exact List.nodup_cons.2 ⟨hi.next_free, hi.nodup⟩
  · cases h
  · cases h

theorem allocate_no_panic {s : State} (hi : Inv s) (e : String) : allocate s ≠ .panic e := by
  intro h
  unfold allocate at h
  have hf : mem s.next s.reserved = false := (mem_false_iff _ _).2 hi.next_free
  simp only [hf, Bool.false_eq_true, ↓reduceIte] at h
  split at h
  · cases h
  · cases h
  · rename_i e' he
    exact skip_no_panic _ _ _ _ _ hi.next_lt he

theorem release_ok {s : State} (hi : Inv s) {v : Nat} {s' : State} (h : release s v = .ok s') :
    s'.reserved = (if v = 0 then s.reserved else s.reserved.erase v) ∧ s'.w = s.w ∧
      s'.next = s.next ∧ Inv s' := by
  unfold release at h
  by_cases hv : v = 0
  · simp only [hv, ↓reduceIte] at h
    injection h with h; subst h
    simp [hv, hi]
  · simp only [hv, ↓reduceIte] at h
    split at h
    · injection h with h; subst h
      refine ⟨by simp [hv], rfl, rfl, ?_⟩
      constructor
      · exact hi.next_ne
      · exact hi.next_lt
      · exact fun h => hi.next_free (List.mem_of_mem_erase h)
      · exact fun h => hi.zero_free (List.mem_of_mem_erase h)
      · exact fun r hr => hi.res_lt r (List.mem_of_mem_erase hr)
      · exact hi.nodup.erase v
    · cases h

theorem release_live_ok {s : State} {v : Nat} (hv : v ∈ s.reserved) :
    ∃ s', release s v = .ok s' := by
  unfold release
  by_cases h0 : v = 0
  · simp [h0]
  · simp [h0, (mem_iff v s.reserved).2 hv]

/-! ### the skip loop terminates iff a free value exists -/

/-- a list shorter than the number of non-zero values misses one of them -/
theorem free_exists : ∀ (m : Nat) (l : List Nat), l.length + 1 < m → ∃ f, 1 ≤ f ∧ f < m ∧ f ∉ l := by
  intro m
  induction m with
  | zero => intro l h; omega
  | succ m ih =>
    intro l h
    by_cases hm : m ∈ l
    · have hl : (l.erase m).length = l.length - 1 := List.length_erase_of_mem hm
      have hpos : 0 < l.length := List.length_pos_of_mem hm
      obtain ⟨f, h1, h2, h3⟩ := ih (l.erase m) (by omega)
      refine ⟨f, h1, by omega, ?_⟩
      intro hf
      exact h3 ((List.mem_erase_of_ne (by omega)).2 hf)
    · exact ⟨m, by omega, by omega, hm⟩

/-- pigeonhole: a duplicate-free list of non-zero values below `m` has at most `m - 1` elements -/
theorem nodup_length_le : ∀ (m : Nat) (l : List Nat), l.Nodup → (∀ x ∈ l, 1 ≤ x ∧ x < m) →
    l.length ≤ m - 1 := by
  intro m
  induction m with
  | zero =>
    intro l _ h
    cases l with
    | nil => simp
    | cons a r => have := h a (by simp); omega
  | succ m ih =>
    intro l hn h
    by_cases hm : m ∈ l
    · have hl : (l.erase m).length = l.length - 1 := List.length_erase_of_mem hm
      have := h m hm
      have := ih (l.erase m) (hn.erase m) (by
        intro x hx
        have hx' := (hn.mem_erase_iff).1 hx
        have := h x hx'.2
        omega)
      omega
    · have := ih l hn (by
        intro x hx
        have := h x hx
        have : x ≠ m := fun e => hm (e ▸ hx)
        omega)
      omega

/-- a duplicate-free list of `m - 1` non-zero values below `m` contains all of them -/
theorem full_of_length (m : Nat) (l : List Nat) (hn : l.Nodup) (h : ∀ x ∈ l, 1 ≤ x ∧ x < m)
    (hl : l.length + 1 = m) : ∀ x, 1 ≤ x → x < m → x ∈ l := by
  intro x h1 h2
  refine Classical.byContradiction fun hx => ?_
  have := nodup_length_le m (x :: l) (List.nodup_cons.2 ⟨hx, hn⟩) (by
    intro y hy
    simp only [List.mem_cons] at hy
    rcases hy with rfl | hy
    · exact ⟨h1, h2⟩
    · exact h y hy)
  simp only [List.length_cons] at this
  omega

def iter (m : Nat) : Nat → Nat → Nat
  | 0, t => t
  | d + 1, t => iter m d (succM m t)

theorem iter_add (m : Nat) : ∀ (a b t : Nat), iter m (a + b) t = iter m b (iter m a t) := by
  intro a
  induction a with
  | zero => intro b t; simp [iter]
  | succ a ih =>
    intro b t
    have : a + 1 + b = (a + b) + 1 := by omega
    rw [this, iter, iter, ih]

theorem iter_lin (m : Nat) : ∀ (d t : Nat), t + d < m → iter m d t = t + d := by
  intro d
  induction d with
  | zero => intro t _; simp [iter]
  | succ d ih =>
    intro t h
    have h1 : (t + 1) % m = t + 1 := Nat.mod_eq_of_lt (by omega)
    have : succM m t = t + 1 := by unfold succM; rw [h1]; simp
    rw [iter, this, ih (t + 1) (by omega)]
    omega

/-- every non-zero value is reached from every non-zero value in 1 … m-1 steps of the loop -/
theorem reach (m t f : Nat) (ht1 : 1 ≤ t) (ht : t < m) (hf1 : 1 ≤ f) (hf : f < m) :
    ∃ d, d + 1 ≤ m - 1 ∧ iter m (d + 1) t = f := by
  by_cases h : t < f
  · refine ⟨f - t - 1, by omega, ?_⟩
    have : f - t - 1 + 1 = f - t := by omega
    rw [this, iter_lin m (f - t) t (by omega)]
    omega
  · -- up to m-1, one step to 1, up to f
    refine ⟨m - 1 - t + (f - 1), by omega, ?_⟩
    have e : m - 1 - t + (f - 1) + 1 = (m - 1 - t) + (1 + (f - 1)) := by omega
    rw [e, iter_add, iter_lin m (m - 1 - t) t (by omega), iter_add]
    have h2 : t + (m - 1 - t) = m - 1 := by omega
    rw [h2]
    have h3 : iter m 1 (m - 1) = 1 := by
      have : (m - 1 + 1) % m = 0 := by
        have : m - 1 + 1 = m := by omega
        rw [this]; exact Nat.mod_self m
      simp [iter, succM, this]
    rw [h3, iter_lin m (f - 1) 1 (by omega)]
    omega

theorem skip_finds (w : Width) (res : List Nat) :
    ∀ (d fuel t : Nat), t < w.modulus → d + 1 ≤ fuel → iter w.modulus (d + 1) t ∉ res →
      ∃ v, skip w res fuel t = .ok v := by
  intro d
  induction d with
  | zero =>
    intro fuel t ht hfu hfree
    obtain ⟨n, rfl⟩ : ∃ n, fuel = n + 1 := ⟨fuel - 1, by omega⟩
    rw [skip, nextCand_eq w t ht]
    simp only [iter] at hfree
    have : mem (succM w.modulus t) res = false := (mem_false_iff _ _).2 hfree
    simp [this]
  | succ d ih =>
    intro fuel t ht hfu hfree
    obtain ⟨n, rfl⟩ : ∃ n, fuel = n + 1 := ⟨fuel - 1, by omega⟩
    have hm := w.modulus_ge
    have hr := succM_range w.modulus t (by omega)
    rw [skip, nextCand_eq w t ht]
    simp only
    by_cases hc : mem (succM w.modulus t) res = true
    · rw [if_pos hc]
      rw [iter] at hfree
      exact ih n _ hr.2 (by omega) hfree
    · rw [if_neg hc]; exact ⟨_, rfl⟩

/-- `allocate` returns whenever one more non-zero value stays free after this allocation -/
theorem allocate_returns {s : State} (hi : Inv s) (hlen : s.reserved.length + 2 < s.w.modulus) :
    ∃ v s', allocate s = .ok (v, s') := by
  have hm := s.w.modulus_ge
  obtain ⟨f, hf1, hf2, hf3⟩ := free_exists s.w.modulus (s.next :: s.reserved) (by simp; omega)
  obtain ⟨d, hd, hit⟩ := reach s.w.modulus s.next f (by have := hi.next_ne; omega) hi.next_lt hf1 hf2
  obtain ⟨t, ht⟩ := skip_finds s.w (s.next :: s.reserved) d s.w.modulus s.next hi.next_lt (by omega)
    (by rw [hit]; exact hf3)
  unfold allocate
  have hfree : mem s.next s.reserved = false := (mem_false_iff _ _).2 hi.next_free
  simp only [hfree, Bool.false_eq_true, ↓reduceIte, ht]
  exact ⟨_, _, rfl⟩

theorem skip_hangs (w : Width) (res : List Nat)
    (hall : ∀ x, 1 ≤ x → x < w.modulus → x ∈ res) :
    ∀ (fuel t : Nat), t < w.modulus → skip w res fuel t = .hang := by
  intro fuel
  induction fuel with
  | zero => intro t _; simp [skip]
  | succ n ih =>
    intro t ht
    have hm := w.modulus_ge
    have hr := succM_range w.modulus t (by omega)
    rw [skip, nextCand_eq w t ht]
    simp only
    have : mem (succM w.modulus t) res = true :=
      (mem_iff _ _).2 (hall _ (by omega) hr.2)
    rw [if_pos this]
    exact ih _ hr.2

/-- … and never returns when this allocation takes the last free non-zero value (D19) -/
theorem allocate_hangs {s : State} (hi : Inv s) (hlen : s.reserved.length + 2 = s.w.modulus) :
    allocate s = .hang := by
  have hall := full_of_length s.w.modulus (s.next :: s.reserved)
    (List.nodup_cons.2 ⟨hi.next_free, hi.nodup⟩) (by
      intro x hx
      simp only [List.mem_cons] at hx
      rcases hx with rfl | hx
      · have := hi.next_ne; have := hi.next_lt; omega
      · have := hi.res_lt x hx
        have : x ≠ 0 := fun e => hi.zero_free (e ▸ hx)
        omega) (by simp; omega)
  unfold allocate
  have hfree : mem s.next s.reserved = false := (mem_false_iff _ _).2 hi.next_free
  simp only [hfree, Bool.false_eq_true, ↓reduceIte,
    skip_hangs s.w _ hall s.w.modulus s.next hi.next_lt]

end Flute.Toi
