import FluteModel.Lemmas.SessionRun
/-
  Exact counting on a clean channel (C01): one `complete` per transfer (per object with
  receive-once), no `error` / `interrupted`, one writer per delivery.
-/
namespace Flute.Lemmas.Session
open Flute.Session

variable (c : Codec)

/-- between two deliveries: no live object, `k` deliveries so far, each with its own writer, no
    error; the newest FDT instance lists the object -/
structure Idle (k : Nat) (st : OState) : Prop where
  obj : st.obj = none
  completes : st.completes = k
  opens : st.opens = k
  errors : st.errors = 0
  interrupts : st.interrupts = 0
  age : st.age = some 0
  completed : st.completed = decide (0 < k)

/-- during the (k+1)-th delivery: an attached live object holding the packets `P` -/
structure Track (o : ObjCfg) (k : Nat) (P : List Sym) (st : OState) : Prop where
  inv : Inv c o P st
  att : ∃ rx, st.obj = some rx ∧ rx.attached = true
  completes : st.completes = k
  opens : st.opens = k + 1
  errors : st.errors = 0
  interrupts : st.interrupts = 0
  age : st.age = some 0

theorem idle_fdt (rc : RxCfg) (o : ObjCfg) (k : Nat) (st : OState) (h : Idle k st) :
    Idle k (stepObj c.canDecode rc o st (.fdt true)) := by
  have : stepObj c.canDecode rc o st (.fdt true) =
      { st with completed := st.completed && true, age := ageStep st.age true } := by
    simp only [stepObj, fdtEv, h.obj]
  rw [this]
  exact ⟨h.obj, h.completes, h.opens, h.errors, h.interrupts, by simp [ageStep], by simp [h.completed]⟩

theorem track_fdt (rc : RxCfg) (o : ObjCfg) (k : Nat) (P : List Sym) (st : OState) (h : Track c o k P st) :
    Track c o k P (stepObj c.canDecode rc o st (.fdt true)) := by
  obtain ⟨rx, hobj, hatt⟩ := h.att
  have : stepObj c.canDecode rc o st (.fdt true) =
      { st with completed := st.completed && true, age := ageStep st.age true } := by
    simp only [stepObj, fdtEv, hobj, hatt, Bool.not_true, Bool.and_false, Bool.false_eq_true, ↓reduceIte]
  rw [this]
  refine ⟨⟨by simp [h.inv.notDone], ?_⟩, ⟨rx, hobj, hatt⟩, h.completes, h.opens, h.errors, h.interrupts, by simp [ageStep]⟩
  have := h.inv.obj
  simpa using this

/-- a packet that the completed registry swallows -/
theorem idle_pkt_ignored (rc : RxCfg) (o : ObjCfg) (k : Nat) (st : OState) (s : Sym) (h : Idle k st)
    (hk : 0 < k) (hig : rc.receiveOnce = true ∨ ¬ (s.sbn = 0 ∧ s.esi = 0)) :
    stepObj c.canDecode rc o st (.pkt s) = st := by
  have hc : st.completed = true := by rw [h.completed]; simpa using hk
  simp only [stepObj, hc, ↓reduceIte]
  rcases hig with hro | hns
  · simp [hro]
  · by_cases hro : rc.receiveOnce = true
    · simp [hro]
    · have : (s.sbn == 0 && s.esi == 0) = false := by
        simp only [Bool.and_eq_false_iff, beq_eq_false_iff_ne]
        by_cases h1 : s.sbn = 0
        · right; intro h2; exact hns ⟨h1, h2⟩
        · left; exact h1
      simp [hro, this]

/-- the effect of one packet on an attached live object, with exact counters -/
theorem track_pkt (rc : RxCfg) (o : ObjCfg) (hN : o.ks.isEmpty = false) (hfit : Fits rc o) (hnc : o.noCache = false)
    (k : Nat) (P : List Sym) (st : OState) (s : Sym) (h : Track c o k P st)
    (hgen : Genuine o s) (hcl : s.close = true → AllDec c o (s :: P)) :
    Track c o k (s :: P) (stepObj c.canDecode rc o st (.pkt s)) ∨ Idle (k + 1) (stepObj c.canDecode rc o st (.pkt s)) := by
  obtain ⟨rx, hobj, hatt⟩ := h.att
  have hnd := h.inv.notDone
  have hob := h.inv.obj
  simp only [hobj] at hob
  obtain ⟨Pb, hcov, hmem, hcache, hai, hknown⟩ := hob
  have hk := (hknown hatt).1
  have hce := (hknown hatt).2
  have hstep : stepObj c.canDecode rc o st (.pkt s) = finish o st (pushSym c.canDecode rc o rx s) := by
    simp only [stepObj, hnd, Bool.false_eq_true, ↓reduceIte, pushNew, hobj, pushObj, hk, Bool.not_true, Bool.false_and]
  rw [hstep]
  -- what pushSym does
  have hres : ((pushSym c.canDecode rc o rx s).term = .receiving ∧ Cov c o (pushSym c.canDecode rc o rx s).rx (s :: Pb) ∧
        AttInv c o (pushSym c.canDecode rc o rx s).rx) ∨ (pushSym c.canDecode rc o rx s).term = .completed := by
    by_cases hclose : s.close = true
    · right
      have hdec' : AllDec c o (s :: Pb) := by
        apply allDec_mono c o _ _ _ (hcl hclose)
        intro q hq
        rcases List.mem_cons.mp hq with rfl | hq
        · exact List.mem_cons_self ..
        · rcases hmem q hq with h | h
          · rw [hce] at h; simp at h
          · exact List.mem_cons_of_mem _ h
      exact (pushSym_close c rc o rx s Pb hN hgen hfit hcov hai hatt hdec').1
    · rw [pushSym_noclose c rc o rx s (by simpa using hclose)]
      obtain ⟨h1, _, _, h4⟩ := pushCore_spec c rc o rx s Pb hN hgen hfit hcov _ rfl
      rcases h1 with h1 | h1
      · left; exact ⟨h1, (h4 h1).1, (h4 h1).2 hai⟩
      · right; exact h1
  have hfl : (pushSym c.canDecode rc o rx s).rx.attached = true := by rw [pushSym_attached]; exact hatt
  have hfl2 : (pushSym c.canDecode rc o rx s).rx.otiKnown = true ∧ (pushSym c.canDecode rc o rx s).rx.cache = [] := by
    have := (pushCore_spec c rc o rx s Pb hN hgen hfit hcov _ rfl).2.1
    have e : (pushSym c.canDecode rc o rx s).rx = (pushCore c.canDecode rc o rx s).rx := by
      unfold pushSym; dsimp only; split <;> rfl
    rw [e, this.2.1, this.2.2]; exact ⟨hk, hce⟩
  rcases hres with ⟨h1, hc, ha⟩ | h1
  · left
    rw [finish_receiving o st _ h1]
    refine ⟨⟨hnd, ?_⟩, ⟨_, rfl, hfl⟩, h.completes, h.opens, h.errors, h.interrupts, h.age⟩
    simp only
    refine ⟨s :: Pb, hc, ?_, ?_, ha, fun _ => hfl2⟩
    · intro q hq
      right
      rcases List.mem_cons.mp hq with rfl | hq
      · exact List.mem_cons_self ..
      · rcases hmem q hq with h | h
        · rw [hce] at h; simp at h
        · exact List.mem_cons_of_mem _ h
    · intro q hq; rw [hfl2.2] at hq; simp at hq
  · right
    have : finish o st (pushSym c.canDecode rc o rx s) =
        { st with obj := none, completes := st.completes + 1, completed := true } := by
      unfold finish; simp [h1, hfl, hnc]
    rw [this]
    exact ⟨rfl, by simp [h.completes], by simp [h.opens], h.errors, h.interrupts, h.age, by simp⟩

/-- the first packet (SBN 0, ESI 0) of a transfer meets no live object: the object is created,
    attached to the newest FDT instance, a writer is opened -/
theorem idle_start (rc : RxCfg) (o : ObjCfg) (hN : o.ks.isEmpty = false) (hfit : Fits rc o) (hnc : o.noCache = false)
    (k : Nat) (st : OState) (s : Sym) (h : Idle k st)
    (hgo : k = 0 ∨ (rc.receiveOnce = false ∧ s.sbn = 0 ∧ s.esi = 0))
    (hgen : Genuine o s) (hcl : s.close = true → AllDec c o [s]) :
    Track c o k [s] (stepObj c.canDecode rc o st (.pkt s)) ∨ Idle (k + 1) (stepObj c.canDecode rc o st (.pkt s)) := by
  -- after the completed-registry test and create_obj + attach_fdt we are in a `Track` state with no packet
  have ha := attach_spec c rc o hN hfit rx0 [] (by intro q hq; simp [rx0] at hq) (by intro q hq; simp at hq) _ rfl
  obtain ⟨h1, h2, h3, h4⟩ := ha
  have hst : stepObj c.canDecode rc o st (.pkt s) =
      (if (attach c.canDecode rc o rx0).term != .receiving
        then finish o { st with completed := false, opens := st.opens + 1 } (attach c.canDecode rc o rx0)
        else pushObj c.canDecode rc o { st with completed := false, opens := st.opens + 1 } (attach c.canDecode rc o rx0).rx s) := by
    rcases hgo with hk0 | ⟨hro, hs1, hs2⟩
    · have hc : st.completed = false := by rw [h.completed]; simp [hk0]
      simp only [stepObj, hc, Bool.false_eq_true, ↓reduceIte, pushNew, h.obj, h.age, Option.isSome_some]
    · by_cases hc : st.completed = true
      · simp only [stepObj, hc, hro, hs1, hs2, beq_self_eq_true, Bool.and_self, ↓reduceIte, Bool.false_eq_true,
          pushNew, h.obj, h.age, Option.isSome_some]
      · have hc' : st.completed = false := by simpa using hc
        simp only [stepObj, hc', Bool.false_eq_true, ↓reduceIte, pushNew, h.obj, h.age, Option.isSome_some]
  rw [hst]
  rcases h1 with h1 | h1
  · simp only [h1, bne_self_eq_false, Bool.false_eq_true, ↓reduceIte]
    obtain ⟨hc, hai, hce⟩ := h4 h1
    -- a Track state with P = [] ...
    have htr : Track c o k [] { st with completed := false, opens := st.opens + 1, obj := some (attach c.canDecode rc o rx0).rx } := by
      refine ⟨⟨rfl, ?_⟩, ⟨_, rfl, h2⟩, h.completes, by simp [h.opens], h.errors, h.interrupts, h.age⟩
      simp only
      exact ⟨rx0.cache ++ [], hc, by intro q hq; simp at hq, by intro q hq; rw [hce] at hq; simp at hq, hai, fun _ => ⟨h3, hce⟩⟩
    have := track_pkt c rc o hN hfit hnc k [] _ s htr hgen hcl
    -- ... and pushing the packet into it is what pushObj does
    have e : stepObj c.canDecode rc o { st with completed := false, opens := st.opens + 1, obj := some (attach c.canDecode rc o rx0).rx } (.pkt s) =
        pushObj c.canDecode rc o { st with completed := false, opens := st.opens + 1 } (attach c.canDecode rc o rx0).rx s := by
      simp only [stepObj, Bool.false_eq_true, ↓reduceIte, pushNew, pushObj, h3, Bool.not_true, Bool.false_and]
      unfold finish
      split <;> simp
    rw [e] at this
    exact this
  · have hne : ((attach c.canDecode rc o rx0).term != Term.receiving) = true := by rw [h1]; rfl
    simp only [hne, ↓reduceIte]
    right
    have : finish o { st with completed := false, opens := st.opens + 1 } (attach c.canDecode rc o rx0) =
        { st with obj := none, opens := st.opens + 1, completes := st.completes + 1, completed := true } := by
      unfold finish; simp [h1, h2, hnc]
    rw [this]
    exact ⟨rfl, by simp [h.completes], by simp [h.opens], h.errors, h.interrupts, h.age, by simp⟩

theorem track_not_alldec (o : ObjCfg) (k : Nat) (P : List Sym) (st : OState) (h : Track c o k P st)
    (hdec : AllDec c o P) : False := by
  obtain ⟨rx, hobj, hatt⟩ := h.att
  have hob := h.inv.obj
  simp only [hobj] at hob
  obtain ⟨Pb, hcov, hmem, _, hai, hknown⟩ := hob
  have hce := (hknown hatt).2
  apply not_stuck c o rx Pb hcov hatt hai
  apply allDec_mono c o _ _ _ hdec
  intro q hq
  rcases hmem q hq with h | h
  · rw [hce] at h; simp at h
  · exact h

/-- what the receiver needs of one transfer's packet listing `T` (facts about the sender):
    genuine packets, (SBN 0, ESI 0) first and only there, decodable symbols of every block (e.g. all
    source symbols), close-object flag on the last packet only -/
structure TransferOK (o : ObjCfg) (T : List Sym) : Prop where
  gen : ∀ s, s ∈ T → Genuine o s
  first : ∃ s rest, T = s :: rest ∧ s.sbn = 0 ∧ s.esi = 0 ∧ ∀ q, q ∈ rest → ¬ (q.sbn = 0 ∧ q.esi = 0)
  dec : AllDec c o T
  close : ∀ a s b, T = a ++ s :: b → s.close = true → b = []

/-- the rest of a transfer, once its first packet has been processed -/
theorem seg_run (rc : RxCfg) (o : ObjCfg) (hN : o.ks.isEmpty = false) (hfit : Fits rc o) (hnc : o.noCache = false)
    (k : Nat) (T : List Sym) (hdec : AllDec c o T) :
    ∀ (es : List Ev) (st : OState) (P : List Sym),
      (Track c o k P st ∨ Idle (k + 1) st) →
      (∀ l, Ev.fdt l ∈ es → l = true) →
      (∀ s, Ev.pkt s ∈ es → Genuine o s ∧ ¬ (s.sbn = 0 ∧ s.esi = 0)) →
      (∀ a s b, pktSyms es = a ++ s :: b → s.close = true → b = []) →
      (∀ q, q ∈ T → q ∈ P ∨ q ∈ pktSyms es) →
      (∃ P', Track c o k P' (runObj c.canDecode rc o st es) ∧ ∀ q, q ∈ T → q ∈ P') ∨
        Idle (k + 1) (runObj c.canDecode rc o st es) := by
  intro es
  induction es with
  | nil =>
    intro st P h _ _ _ hcov
    simp only [runObj]
    rcases h with h | h
    · left
      refine ⟨P, h, ?_⟩
      intro q hq
      rcases hcov q hq with h | h
      · exact h
      · simp [pktSyms] at h
    · exact Or.inr h
  | cons e es ih =>
    intro st P h hfd hpk hcl hcov
    unfold runObj
    cases e with
    | fdt l =>
      have hl : l = true := hfd l (List.mem_cons_self ..)
      subst hl
      apply ih _ P _ (fun l hl => hfd l (List.mem_cons_of_mem _ hl)) (fun s hs => hpk s (List.mem_cons_of_mem _ hs)) hcl hcov
      rcases h with h | h
      · exact Or.inl (track_fdt c rc o k P st h)
      · exact Or.inr (idle_fdt c rc o (k + 1) st h)
    | pkt s =>
      have hs := hpk s (List.mem_cons_self ..)
      have hcl' : ∀ a s' b, pktSyms es = a ++ s' :: b → s'.close = true → b = [] := by
        intro a s' b hes hs'
        exact hcl (s :: a) s' b (by simp [pktSyms, hes]) hs'
      rcases h with h | h
      · have hclose : s.close = true → AllDec c o (s :: P) := by
          intro hsc
          have hb : pktSyms es = [] := hcl [] s (pktSyms es) (by simp [pktSyms]) hsc
          apply allDec_mono c o _ _ _ hdec
          intro q hq
          rcases hcov q hq with h | h
          · exact List.mem_cons_of_mem _ h
          · simp only [pktSyms, hb, List.mem_cons, List.not_mem_nil, or_false] at h
            rw [h]; exact List.mem_cons_self ..
        have hstep := track_pkt c rc o hN hfit hnc k P st s h hs.1 hclose
        apply ih _ (s :: P) hstep (fun l hl => hfd l (List.mem_cons_of_mem _ hl))
          (fun q hq => hpk q (List.mem_cons_of_mem _ hq)) hcl'
        intro q hq
        rcases hcov q hq with h | h
        · exact Or.inl (List.mem_cons_of_mem _ h)
        · simp only [pktSyms, List.mem_cons] at h
          rcases h with rfl | h
          · exact Or.inl (List.mem_cons_self ..)
          · exact Or.inr h
      · rw [idle_pkt_ignored c rc o (k + 1) st s h (by omega) (Or.inr hs.2)]
        apply ih _ (s :: P) (Or.inr h) (fun l hl => hfd l (List.mem_cons_of_mem _ hl))
          (fun q hq => hpk q (List.mem_cons_of_mem _ hq)) hcl'
        intro q hq
        rcases hcov q hq with h | h
        · exact Or.inl (List.mem_cons_of_mem _ h)
        · simp only [pktSyms, List.mem_cons] at h
          rcases h with rfl | h
          · exact Or.inl (List.mem_cons_self ..)
          · exact Or.inr h

/-- one whole transfer on a clean channel, starting with no live object: exactly one delivery -/
theorem transfer_once (rc : RxCfg) (o : ObjCfg) (hN : o.ks.isEmpty = false) (hfit : Fits rc o) (hnc : o.noCache = false)
    (k : Nat) (hgo : k = 0 ∨ rc.receiveOnce = false) :
    ∀ (seg : List Ev) (st : OState), Idle k st → TransferOK c o (pktSyms seg) → (∀ l, Ev.fdt l ∈ seg → l = true) →
      Idle (k + 1) (runObj c.canDecode rc o st seg) := by
  intro seg
  induction seg with
  | nil =>
    intro st _ hT _
    obtain ⟨s, rest, h, _⟩ := hT.first
    simp [pktSyms] at h
  | cons e es ih =>
    intro st hidle hT hfd
    unfold runObj
    cases e with
    | fdt l =>
      have hl : l = true := hfd l (List.mem_cons_self ..)
      subst hl
      exact ih _ (idle_fdt c rc o k st hidle) (by simpa [pktSyms] using hT) (fun l hl => hfd l (List.mem_cons_of_mem _ hl))
    | pkt s =>
      obtain ⟨s0, rest, hTe, hs1, hs2, hrest⟩ := hT.first
      simp only [pktSyms, List.cons.injEq] at hTe
      obtain ⟨rfl, hrest_eq⟩ := hTe
      have hgen : ∀ q, q ∈ pktSyms (Ev.pkt s :: es) → Genuine o q := hT.gen
      have hstart := idle_start c rc o hN hfit hnc k st s hidle
        (by rcases hgo with h | h; exact Or.inl h; exact Or.inr ⟨h, hs1, hs2⟩)
        (hgen s (by simp [pktSyms]))
        (by
          intro hsc
          have := hT.close [] s (pktSyms es) (by simp [pktSyms]) hsc
          apply allDec_mono c o _ _ _ hT.dec
          intro q hq
          simpa [pktSyms, this] using hq)
      have hrun := seg_run c rc o hN hfit hnc k (pktSyms (Ev.pkt s :: es)) hT.dec es _ [s] hstart
        (fun l hl => hfd l (List.mem_cons_of_mem _ hl))
        (fun q hq => ⟨hgen q (by simp [pktSyms, mem_pktSyms, hq]), hrest q (by rw [← hrest_eq]; exact mem_pktSyms.mpr hq)⟩)
        (fun a s' b hes hs' => hT.close (s :: a) s' b (by simp [pktSyms, hes]) hs')
        (by intro q hq; simpa [pktSyms] using hq)
      rcases hrun with ⟨P', htr, hcov⟩ | h
      · exfalso
        exact track_not_alldec c o k P' _ htr (allDec_mono c o _ _ hcov hT.dec)
      · exact h

/-- a further transfer under receive-once: swallowed whole by the completed registry -/
theorem transfer_ignored (rc : RxCfg) (o : ObjCfg) (k : Nat) (hk : 0 < k) (hro : rc.receiveOnce = true) :
    ∀ (seg : List Ev) (st : OState), Idle k st → (∀ l, Ev.fdt l ∈ seg → l = true) →
      Idle k (runObj c.canDecode rc o st seg) := by
  intro seg
  induction seg with
  | nil => intro st h _; simpa [runObj] using h
  | cons e es ih =>
    intro st h hfd
    unfold runObj
    cases e with
    | fdt l =>
      have hl : l = true := hfd l (List.mem_cons_self ..)
      subst hl
      exact ih _ (idle_fdt c rc o k st h) (fun l hl => hfd l (List.mem_cons_of_mem _ hl))
    | pkt s =>
      rw [idle_pkt_ignored c rc o k st s h hk (Or.inl hro)]
      exact ih _ h (fun l hl => hfd l (List.mem_cons_of_mem _ hl))

/-- number of deliveries after `n` further transfers -/
def expect (ro : Bool) (k n : Nat) : Nat := if ro then (if k = 0 then min 1 n else k) else k + n

theorem clean_run (rc : RxCfg) (o : ObjCfg) (hN : o.ks.isEmpty = false) (hfit : Fits rc o) (hnc : o.noCache = false) :
    ∀ (segs : List (List Ev)) (k : Nat) (st : OState), Idle k st →
      (∀ seg, seg ∈ segs → TransferOK c o (pktSyms seg) ∧ ∀ l, Ev.fdt l ∈ seg → l = true) →
      Idle (expect rc.receiveOnce k segs.length) (runObj c.canDecode rc o st segs.flatten) := by
  intro segs
  induction segs with
  | nil =>
    intro k st h _
    have : expect rc.receiveOnce k 0 = k := by
      unfold expect; by_cases hro : rc.receiveOnce = true <;> by_cases hk : k = 0 <;> simp [hro, hk]
    simpa [runObj, this] using h
  | cons seg segs ih =>
    intro k st h hsegs
    have hseg := hsegs seg (List.mem_cons_self ..)
    have hrest : ∀ s, s ∈ segs → TransferOK c o (pktSyms s) ∧ ∀ l, Ev.fdt l ∈ s → l = true :=
      fun s hs => hsegs s (List.mem_cons_of_mem _ hs)
    simp only [List.flatten_cons, runObj_append, List.length_cons]
    by_cases hig : rc.receiveOnce = true ∧ 0 < k
    · have h1 := transfer_ignored c rc o k hig.2 hig.1 seg st h hseg.2
      have := ih k _ h1 hrest
      have e : expect rc.receiveOnce k (segs.length + 1) = expect rc.receiveOnce k segs.length := by
        have hk : k ≠ 0 := by have := hig.2; omega
        unfold expect; simp [hig.1, hk]
      rw [e]; exact this
    · have hgo : k = 0 ∨ rc.receiveOnce = false := by
        by_cases hro : rc.receiveOnce = true
        · left
          by_cases hk : 0 < k
          · exact absurd ⟨hro, hk⟩ hig
          · omega
        · right; simpa using hro
      have h1 := transfer_once c rc o hN hfit hnc k hgo seg st h hseg.1 hseg.2
      have := ih (k + 1) _ h1 hrest
      have e : expect rc.receiveOnce k (segs.length + 1) = expect rc.receiveOnce (k + 1) segs.length := by
        unfold expect
        rcases hgo with hk | hro
        · subst hk; by_cases hro : rc.receiveOnce = true <;> simp [hro] <;> omega
        · simp [hro]; omega
      rw [e]; exact this

/-- FDT instances completing while there is no live object do not touch the writer counters -/
theorem tail_counters (rc : RxCfg) (o : ObjCfg) : ∀ (es : List Ev) (st : OState), st.obj = none → pktSyms es = [] →
    (runObj c.canDecode rc o st es).completes = st.completes ∧ (runObj c.canDecode rc o st es).opens = st.opens ∧
    (runObj c.canDecode rc o st es).errors = st.errors ∧ (runObj c.canDecode rc o st es).interrupts = st.interrupts := by
  intro es
  induction es with
  | nil => intro st _ _; simp [runObj]
  | cons e es ih =>
    intro st hobj hp
    cases e with
    | pkt s => simp [pktSyms] at hp
    | fdt l =>
      unfold runObj
      have : stepObj c.canDecode rc o st (.fdt l) = { st with completed := st.completed && l, age := ageStep st.age l } := by
        simp only [stepObj, fdtEv, hobj]
      rw [this]
      have := ih { st with completed := st.completed && l, age := ageStep st.age l } (by simp [hobj]) (by simpa [pktSyms] using hp)
      simpa using this

/-- FDT instances completing before the object's first packet: still no object, nothing delivered -/
theorem fdts_keep_none (rc : RxCfg) (o : ObjCfg) : ∀ (es : List Ev) (st : OState), st.obj = none → st.completed = false →
    pktSyms es = [] →
    (runObj c.canDecode rc o st es).obj = none ∧ (runObj c.canDecode rc o st es).completed = false ∧
    (runObj c.canDecode rc o st es).completes = st.completes ∧ (runObj c.canDecode rc o st es).opens = st.opens ∧
    (runObj c.canDecode rc o st es).errors = st.errors ∧ (runObj c.canDecode rc o st es).interrupts = st.interrupts := by
  intro es
  induction es with
  | nil => intro st h1 h2 _; simp [runObj, h1, h2]
  | cons e es ih =>
    intro st hobj hc hp
    cases e with
    | pkt s => simp [pktSyms] at hp
    | fdt l =>
      unfold runObj
      have : stepObj c.canDecode rc o st (.fdt l) = { st with completed := st.completed && l, age := ageStep st.age l } := by
        simp only [stepObj, fdtEv, hobj]
      rw [this]
      have := ih { st with completed := st.completed && l, age := ageStep st.age l } (by simp [hobj]) (by simp [hc])
        (by simpa [pktSyms] using hp)
      simpa using this

/-- the announcing FDT instance, after any FDT instances that do not concern the object -/
theorem idle_after_announce (rc : RxCfg) (o : ObjCfg) (pre : List Ev) (hpre : pktSyms pre = []) :
    Idle 0 (stepObj c.canDecode rc o (runObj c.canDecode rc o {} pre) (.fdt true)) := by
  obtain ⟨h1, h2, h3, h4, h5, h6⟩ := fdts_keep_none c rc o pre {} rfl rfl hpre
  have : stepObj c.canDecode rc o (runObj c.canDecode rc o {} pre) (.fdt true) =
      { (runObj c.canDecode rc o {} pre) with
          completed := (runObj c.canDecode rc o {} pre).completed && true,
          age := ageStep (runObj c.canDecode rc o {} pre).age true } := by
    simp only [stepObj, fdtEv, h1]
  rw [this]
  exact ⟨h1, by simpa using h3, by simpa using h4, by simpa using h5, by simpa using h6, by simp [ageStep], by simp [h2]⟩

end Flute.Lemmas.Session
