import FluteModel.Lemmas.BencSim
/-
  Bridge to C07: the two models of the sender's slicing agree.  `Partition.senderBlocks` (Partition.lean, the list
  of `(number of symbols, byte start, byte end)` C07's theorems are about) is, block for block, what
  `BlockEnc.readBlockBuffer` cuts (and, by `BencSim.readBlockStream…`/`stream_eq_buffer`, what the stream path cuts).
  Both models compute offsets in unbounded `Nat`; the Rust `as usize` / `u64` products of `read_block_buffer`
  (`block_length * encoding_symbol_length`) are not range-checked in either model (they are < 2^64 whenever
  `block_partitioning` itself did not overflow and `L < 2^48`, C07 `partition_no_overflow`).
-/
namespace Flute.BencBridge
open Flute Flute.Fec Flute.BlockEnc Flute.BencArith Flute.BencBlocks Flute.BencInv Flute.BencSim

variable {P : Params} {c : Bytes} {aL aS nL n : Nat}

/-- `Partition.senderBlocks` from block `k` on = the closed form `(A j, off j, off (j+1))`, `j = k … n-1` -/
theorem senderBlocks_from (hS : Setup P c aL aS nL n) :
    ∀ (fuel k : Nat), k < n → n - k ≤ fuel →
      Partition.senderBlocks (aL, aS, nL, n) P.len P.e fuel k (off P aL aS nL k) =
        (List.range' k (n - k)).map (fun j => (A aL aS nL j, off P aL aS nL j, off P aL aS nL (j + 1))) := by
  intro fuel
  induction fuel with
  | zero => intro k hk hf; omega
  | succ fuel ih =>
    intro k hk hf
    have hoff := off_succ hS hk
    have hsb : Partition.senderBlock (aL, aS, nL, n) P.len P.e k (off P aL aS nL k) =
        (A aL aS nL k, off P aL aS nL k, off P aL aS nL (k + 1)) := by
      unfold Partition.senderBlock
      simp only
      have hA' : (if k < nL then aL else aS) = A aL aS nL k := rfl
      rw [hA', hoff]
      congr 2
      generalize A aL aS nL k * P.e = x
      split <;> omega
    unfold Partition.senderBlocks
    rw [hsb]
    simp only
    have hiff := off_succ_eq_len_iff hS hk
    by_cases hlast : k + 1 = n
    · have : off P aL aS nL (k + 1) = P.len := hiff.mpr hlast
      simp only [this, if_true]
      have : n - k = 1 := by omega
      rw [this]; simp [List.range', ‹off P aL aS nL (k + 1) = P.len›]
    · have hne : ¬ off P aL aS nL (k + 1) = P.len := fun h => hlast (hiff.mp h)
      simp only [hne, if_false]
      rw [ih (k + 1) (by omega) (by omega)]
      have : n - k = (n - (k + 1)) + 1 := by omega
      rw [this, List.range'_succ]
      simp

/-- **bridge C07 ↔ C08.**  (1) `Partition.senderBlocks` of the whole object is the list `(A k, off k, off (k+1))`, `k < N`;
    (2) the block `read_block_buffer` cuts in ANY reachable encoder state is the block of the next entry of that list: SBN
    `s.sbn`, `A s.sbn` source symbols, built by `Block::new_from_buffer` from exactly the bytes `[off s.sbn, off (s.sbn+1))`. -/
theorem sender_slicing_eq_senderBlocks (hS : Setup P c aL aS nL n) (hA : Accepts P c aL aS nL n) :
    Partition.senderBlocks (aL, aS, nL, n) P.len P.e n 0 0 =
      (List.range n).map (fun k => (A aL aS nL k, off P aL aS nL k, off P aL aS nL (k + 1))) ∧
    ∀ s : Enc, Inv P c aL aS nL n s → s.readEnd = false →
      ∃ b0, readBlockBuffer P s c = some { s with blocks := s.blocks ++ [b0], sbn := s.sbn + 1, readEnd := decide (s.sbn + 1 = n), off := off P aL aS nL (s.sbn + 1) } ∧
        b0.sbn = s.sbn ∧ b0.nbSource = A aL aS nL s.sbn ∧
        Block.new P s.sbn ((c.drop (off P aL aS nL s.sbn)).take (off P aL aS nL (s.sbn + 1) - off P aL aS nL s.sbn)) = some b0 := by
  constructor
  · have h := senderBlocks_from hS n 0 hS.good.n_pos (by omega)
    rw [off_zero] at h
    rw [h, Nat.sub_zero, List.range_eq_range']
  · intro s hI hre
    have hlt : s.sbn < n := by
      have := hI.sbn_le
      have h2 : ¬ s.sbn = n := fun h => by have := hI.readEnd_iff.mpr h; simp [hre] at this
      omega
    obtain ⟨b0, hb0, heq⟩ := readBlockBuffer_eq hS hA (s := s) hI.qaL hI.qaS hI.qnL hI.off_eq hlt
    exact ⟨b0, heq, (blockAt_fields hb0).1, (Flute.BencShape.blockAt_shape hS hlt hb0).1, hb0⟩

end Flute.BencBridge
