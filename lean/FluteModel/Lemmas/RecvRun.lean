import FluteModel.Lemmas.RecvInv
import FluteModel.Lemmas.RecvSilent
/-
  Histories: induction principle for `runT`, field-preservation facts of `FdtReceiver::push`.
-/
namespace Flute.Recv
variable {σ : Type}

theorem runT_ind (I : ObjIface σ) (Inv : State σ → Prop) (H Q : Op → State σ → Res → List Ev → Prop)
    (hstep : ∀ s op s' r evs, Inv s → step I s op = .ok (s', r, evs) → H op s' r evs →
      Inv s' ∧ Q op s' r evs) :
    ∀ (ops : List Op) (s : State σ) (tr : List (Op × State σ × Res × List Ev)),
      Inv s → runT I s ops = some tr → (∀ e ∈ tr, H e.1 e.2.1 e.2.2.1 e.2.2.2) →
      ∀ e ∈ tr, Q e.1 e.2.1 e.2.2.1 e.2.2.2 := by
  intro ops
  induction ops with
  | nil =>
    intro s tr _ h _ e he
    simp [runT] at h; subst h; simp at he
  | cons op ops ih =>
    intro s tr hinv h hH e he
    unfold runT at h
    split at h
    · cases h
    · rename_i s' r ev hs
      split at h
      · cases h
      · rename_i t ht
        injection h with h; subst h
        have h0 := hstep s op s' r ev hinv hs (hH (op, s', r, ev) (by simp))
        rcases List.mem_cons.mp he with he | he
        · subst he; exact h0.2
        · exact ih s' t h0.1 ht (fun x hx => hH x (List.mem_cons_of_mem _ hx)) e he

/-- invariant-only version: the state after every call satisfies `Inv` -/
theorem runT_inv (I : ObjIface σ) (Inv : State σ → Prop) (G : Op → Prop)
    (hstep : ∀ s op s' r evs, Inv s → G op → step I s op = .ok (s', r, evs) → Inv s') :
    ∀ (ops : List Op) (s : State σ) (tr : List (Op × State σ × Res × List Ev)),
      Inv s → (∀ op ∈ ops, G op) → runT I s ops = some tr → ∀ e ∈ tr, Inv e.2.1 := by
  intro ops
  induction ops with
  | nil =>
    intro s tr _ _ h e he
    simp [runT] at h; subst h; simp at he
  | cons op ops ih =>
    intro s tr hinv hG h e he
    unfold runT at h
    split at h
    · cases h
    · rename_i s' r ev hs
      split at h
      · cases h
      · rename_i t ht
        injection h with h; subst h
        have h0 := hstep s op s' r ev hinv (hG op (by simp)) hs
        rcases List.mem_cons.mp he with he | he
        · subst he; exact h0
        · exact ih s' t h0 (fun x hx => hG x (List.mem_cons_of_mem _ hx)) ht e he

/-! ### what `FdtReceiver::push` does to the individual fields -/

theorem applyWEv_fields (ans : FdtAns) (f : FdtRecv σ) (e : WEv) :
    (f.applyWEv ans e).offset = f.offset ∧ (f.applyWEv ans e).late = f.late ∧
    (f.applyWEv ans e).check = f.check ∧ (f.applyWEv ans e).fdtId = f.fdtId ∧
    (f.applyWEv ans e).obj = f.obj ∧ (f.applyWEv ans e).hasMeta = f.hasMeta ∧
    (f.st ≠ .expired → (f.applyWEv ans e).st ≠ .expired) := by
  cases e with
  | complete =>
    simp only [FdtRecv.applyWEv]
    split
    · exact ⟨rfl, rfl, rfl, rfl, rfl, rfl, fun h => h⟩
    · cases ans <;> simp
  | write sbn len =>
    simp only [FdtRecv.applyWEv]
    split <;> simp
  | _ => simp [FdtRecv.applyWEv]

theorem applyWEvs_fields (ans : FdtAns) (f : FdtRecv σ) (evs : List WEv) :
    (f.applyWEvs ans evs).offset = f.offset ∧ (f.applyWEvs ans evs).late = f.late ∧
    (f.applyWEvs ans evs).check = f.check ∧ (f.applyWEvs ans evs).fdtId = f.fdtId ∧
    (f.applyWEvs ans evs).obj = f.obj ∧ (f.applyWEvs ans evs).hasMeta = f.hasMeta ∧
    (f.st ≠ .expired → (f.applyWEvs ans evs).st ≠ .expired) := by
  induction evs generalizing f with
  | nil => simp [FdtRecv.applyWEvs]
  | cons e r ih =>
    have h1 := applyWEv_fields ans f e
    have h2 := ih (f.applyWEv ans e)
    simp only [FdtRecv.applyWEvs, List.foldl_cons] at h2 ⊢
    refine ⟨by rw [h2.1, h1.1], by rw [h2.2.1, h1.2.1], by rw [h2.2.2.1, h1.2.2.1],
      by rw [h2.2.2.2.1, h1.2.2.2.1], by rw [h2.2.2.2.2.1, h1.2.2.2.2.1],
      by rw [h2.2.2.2.2.2.1, h1.2.2.2.2.2.1], fun h => h2.2.2.2.2.2.2 (h1.2.2.2.2.2.2 h)⟩

theorem observeSct_fields (f : FdtRecv σ) (sct : Option Int) (now : Int) :
    (f.observeSct sct now).check = f.check ∧ (f.observeSct sct now).fdtId = f.fdtId ∧
    (f.observeSct sct now).st = f.st ∧ (f.observeSct sct now).obj = f.obj ∧
    (f.observeSct sct now).expires = f.expires ∧ (f.observeSct sct now).inst = f.inst ∧
    (f.observeSct sct now).hasMeta = f.hasMeta ∧ (f.observeSct sct now).utf8 = f.utf8 := by
  unfold FdtRecv.observeSct
  split
  · split <;> simp
  · simp

/-- clock fields, check flag and id after a push; the state never becomes `Expired` by a push -/
theorem push_fields (I : ObjIface σ) (f : FdtRecv σ) (p : Pkt) (now : Int) (ans : FdtAns) :
    (f.push I p now ans).offset = (f.observeSct p.sct now).offset ∧
    (f.push I p now ans).late = (f.observeSct p.sct now).late ∧
    (f.push I p now ans).check = f.check ∧
    (f.push I p now ans).fdtId = f.fdtId ∧
    (f.st ≠ .expired → (f.push I p now ans).st ≠ .expired) := by
  have ho := observeSct_fields f p.sct now
  unfold FdtRecv.push
  simp only []
  split
  · exact ⟨rfl, rfl, ho.1, ho.2.1, fun h => by rw [ho.2.2.1]; exact h⟩
  · rename_i o _
    have ha := applyWEvs_fields ans (f.observeSct p.sct now) (I.push o p).2
    have hst : f.st ≠ .expired → ((f.observeSct p.sct now).applyWEvs ans (I.push o p).2).st ≠ .expired :=
      fun h => ha.2.2.2.2.2.2 (by rw [ho.2.2.1]; exact h)
    split
    · exact ⟨ha.1, ha.2.1, by simp only []; rw [ha.2.2.1, ho.1], by simp only []; rw [ha.2.2.2.1, ho.2.1], hst⟩
    · have hb := applyWEvs_fields ans
        ({ (f.observeSct p.sct now).applyWEvs ans (I.push o p).2 with hasMeta := true, obj := none } : FdtRecv σ)
        (I.drop (I.push o p).1)
      simp only [] at hb
      refine ⟨by rw [hb.1, ha.1], by rw [hb.2.1, ha.2.1], by rw [hb.2.2.1, ha.2.2.1, ho.1],
        by rw [hb.2.2.2.1, ha.2.2.2.1, ho.2.1], fun h => hb.2.2.2.2.2.2 (hst h)⟩
    · exact ⟨ha.1, ha.2.1, by simp only []; rw [ha.2.2.1, ho.1], by simp only []; rw [ha.2.2.2.1, ho.2.1],
        fun _ => by simp⟩
    · exact ⟨ha.1, ha.2.1, by simp only []; rw [ha.2.2.1, ho.1], by simp only []; rw [ha.2.2.2.1, ho.2.1],
        fun _ => by simp⟩

end Flute.Recv
