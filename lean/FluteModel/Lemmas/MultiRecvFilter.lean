import FluteModel.Lemmas.TsiFilter
import FluteModel.Lemmas.MultiRecv
/- the filter inside the receiver model is the filter module run on the history's listen operations -/
namespace Flute.MultiRecv
open Flute Flute.TsiFilter Flute.Spec Flute.Spec.RefCount

/-- the filter operations of a receiver history -/
def fops {π : Type} : List (MultiRecv.Op π) → List FOp
  | [] => []
  | .addListen ep tsi :: r => .add ep tsi :: fops r
  | .removeListen ep tsi :: r => .remove ep tsi :: fops r
  | .addAll ep :: r => .addAll ep :: fops r
  | .removeAll ep :: r => .removeAll ep :: fops r
  | _ :: r => fops r

theorem fops_length_le {π : Type} (ops : List (MultiRecv.Op π)) : (fops ops).length ≤ ops.length := by
  induction ops with
  | nil => simp [fops]
  | cons op r ih => cases op <;> simp [fops] <;> omega

theorem run_filter {σ π Out : Type} (M : Machine σ π Out) (ops : List (MultiRecv.Op π))
    (s : State σ Out) (c : Endpoint × Nat → Nat) (b : Endpoint → Nat)
    (h : FRep s.filter c b) (hc : ∀ x, c x + (fops ops).length < 2 ^ 64)
    (hb : ∀ x, b x + (fops ops).length < 2 ^ 64) :
    TsiFilter.run s.filter (fops ops) = .ok (MultiRecv.run M s ops).filter := by
  induction ops generalizing s c b with
  | nil => rfl
  | cons op r ih =>
    have hctl := ctl_step M s op
    cases op with
    | addListen ep tsi =>
      simp only [fops, List.length_cons] at hc hb
      obtain ⟨f', hf', hrep'⟩ := add_frep s.filter c b ep tsi h (by have := hc (ep, tsi); omega)
      simp only [fops, TsiFilter.run, applyOp, hf', MultiRecv.run, MultiRecv.step]
      refine ih { s with filter := f' } (RefCount.step c (.add (ep, tsi))) b hrep' ?_ ?_
      · intro x; have := hc x; simp only [RefCount.step]; split <;> omega
      · intro x; have := hb x; omega
    | removeListen ep tsi =>
      simp only [fops, List.length_cons] at hc hb
      simp only [fops, TsiFilter.run, applyOp, MultiRecv.run, MultiRecv.step]
      refine ih { s with filter := remove s.filter ep tsi } (RefCount.step c (.remove (ep, tsi))) b (remove_frep s.filter c b ep tsi h) ?_ ?_
      · intro x; have := hc x; simp only [RefCount.step]; split <;> omega
      · intro x; have := hb x; omega
    | addAll ep =>
      simp only [fops, List.length_cons] at hc hb
      obtain ⟨f', hf', hrep'⟩ := addBypass_frep s.filter c b ep h (by have := hb ep; omega)
      simp only [fops, TsiFilter.run, applyOp, hf', MultiRecv.run, MultiRecv.step]
      refine ih { s with filter := f' } c (RefCount.step b (.add ep)) hrep' ?_ ?_
      · intro x; have := hc x; omega
      · intro x; have := hb x; simp only [RefCount.step]; split <;> omega
    | removeAll ep =>
      simp only [fops, List.length_cons] at hc hb
      simp only [fops, TsiFilter.run, applyOp, MultiRecv.run, MultiRecv.step]
      refine ih { s with filter := removeEndpointBypass s.filter ep } c (RefCount.step b (.remove ep)) (removeBypass_frep s.filter c b ep h) ?_ ?_
      · intro x; have := hc x; omega
      · intro x; have := hb x; simp only [RefCount.step]; split <;> omega
    | push ep p =>
      have hf : (MultiRecv.step M s (.push ep p)).1.filter = s.filter := congrArg Ctl.filter hctl
      have := ih (MultiRecv.step M s (.push ep p)).1 c b (by rw [hf]; exact h) hc hb
      rw [hf] at this
      simpa only [fops, MultiRecv.run] using this
    | tick d =>
      have hf : (MultiRecv.step M s (.tick d)).1.filter = s.filter := congrArg Ctl.filter hctl
      have := ih (MultiRecv.step M s (.tick d)).1 c b (by rw [hf]; exact h) hc hb
      rw [hf] at this
      simpa only [fops, MultiRecv.run] using this
    | cleanup now =>
      have hf : (MultiRecv.step M s (.cleanup now)).1.filter = s.filter := congrArg Ctl.filter hctl
      have := ih (MultiRecv.step M s (.cleanup now)).1 c b (by rw [hf]; exact h) hc hb
      rw [hf] at this
      simpa only [fops, MultiRecv.run] using this
    | setFiltering x =>
      have hf : (MultiRecv.step M s (.setFiltering x)).1.filter = s.filter := congrArg Ctl.filter hctl
      have := ih (MultiRecv.step M s (.setFiltering x)).1 c b (by rw [hf]; exact h) hc hb
      rw [hf] at this
      simpa only [fops, MultiRecv.run] using this
    | addListener =>
      have hf : (MultiRecv.step M s .addListener).1.filter = s.filter := congrArg Ctl.filter hctl
      have := ih (MultiRecv.step M s .addListener).1 c b (by rw [hf]; exact h) hc hb
      rw [hf] at this
      simpa only [fops, MultiRecv.run] using this
    | removeListener id =>
      have hf : (MultiRecv.step M s (.removeListener id)).1.filter = s.filter := congrArg Ctl.filter hctl
      have := ih (MultiRecv.step M s (.removeListener id)).1 c b (by rw [hf]; exact h) hc hb
      rw [hf] at this
      simpa only [fops, MultiRecv.run] using this
    | drop i =>
      have hf : (MultiRecv.step M s (.drop i)).1.filter = s.filter := congrArg Ctl.filter hctl
      have := ih (MultiRecv.step M s (.drop i)).1 c b (by rw [hf]; exact h) hc hb
      rw [hf] at this
      simpa only [fops, MultiRecv.run] using this

theorem run_append {σ π Out : Type} (M : Machine σ π Out) (xs ys : List (MultiRecv.Op π)) (s : State σ Out) :
    MultiRecv.run M s (xs ++ ys) = MultiRecv.run M (MultiRecv.run M s xs) ys := by
  induction xs generalizing s with
  | nil => rfl
  | cons x r ih => simp [MultiRecv.run, ih]

end Flute.MultiRecv
