import FluteModel.Lemmas.ObjRecvWritten
import FluteModel.Lemmas.DrainObj
/-
  Totality (no Rust panic, no hang) of the WRITE PATH of the ObjectReceiver model - `decoder_read`, `decode_write_pkt`,
  `BlockWriter::write` - for every state, every writer behaviour, every decompressor meeting path's `DzContract` with measure below
  the inner fuel.  Building block of `push_total` (Props/C04Obj.lean).
-/
namespace Flute.ObjRecv
open Flute Flute.FecDec Flute.Lemmas.DrainObj

/-- the decompressor contract plus adequacy of the model's inner fuel FUNCTION: at every call of `decoder_read` the fuel the model
    passes exceeds the measure of the BlockWriter at that call.  (A constant fuel cannot work: the measure of an inflater grows with
    the bytes waiting in the ring - reviewer batch 3, `dzok_unsat`.)  Satisfiable for every contract: `DzOK.ofContract`. -/
structure DzOK (P : Params) where
  C : DzContract P
  fuel : ∀ w : BW, bwMu C w < P.dzFuel w

/-- every contract is met by SOME fuel function (the measure + 1): the fuel is a modelling device, the content is the contract -/
def DzOK.ofContract (P : Params) (C : DzContract P) (h : ∀ w, P.dzFuel w = bwMu C w + 1) : DzOK P :=
  ⟨C, fun w => by rw [h w]; exact Nat.lt_succ_self _⟩

/-- a decompressor that never hands out data (always `Err` / `WouldBlock` / ...) meets the contract with measure 0 and any
    positive fuel -/
def DzOK.ofNoData (P : Params) (h : ∀ c hist call out, (P.dzRead c hist call).res ≠ .data out) (hf : ∀ w, 0 < P.dzFuel w) : DzOK P :=
  ⟨⟨fun _ _ _ => 0, fun c hist call out hres => absurd hres (h c hist call out)⟩,
   fun w => by unfold bwMu; cases w.dz <;> exact hf w⟩

/-- `decoder_read` on a BlockWriter that has a decoder: returns, and the decoder is still there -/
theorem decoderRead_ok (P : Params) (fuel : Nat) (st : St) (w : BW) (hdz : w.dz.isSome = true) :
    decoderRead P fuel st w = .error .hang ∨
    ∃ st' w' b, decoderRead P fuel st w = .ok (st', w', b) ∧ w'.dz.isSome = true := by
  induction fuel generalizing st w with
  | zero => left; simp [decoderRead]
  | succ n ih =>
    unfold decoderRead
    cases hd : w.dz with
    | none => simp [hd] at hdz
    | some dz =>
      dsimp only
      split
      · exact .inr ⟨_, _, _, rfl, rfl⟩
      · exact .inr ⟨_, _, _, rfl, rfl⟩
      · split
        · exact .inr ⟨_, _, _, rfl, rfl⟩
        · split
          · exact ih _ _ rfl
          · split
            · exact .inr ⟨_, _, _, rfl, rfl⟩
            · exact ih _ _ rfl

theorem decoderRead_total (P : Params) (D : DzOK P) (st : St) (w : BW) (hdz : w.dz.isSome = true) :
    ∃ st' w' b, decoderRead P (P.dzFuel w) st w = .ok (st', w', b) ∧ w'.dz.isSome = true := by
  cases decoderRead_ok P (P.dzFuel w) st w hdz with
  | inr h => exact h
  | inl h => exact absurd h (decoderRead_no_hang P D.C (P.dzFuel w) st w (D.fuel w))

/-- the `loop` of `decode_write_pkt` -/
theorem dwLoop_total (P : Params) (D : DzOK P) (pkt : Bytes) :
    ∀ (fuel off : Nat) (stalled : Bool) (st : St) (w : BW), w.dz.isSome = true → off ≤ pkt.length →
      2 * (pkt.length - off) + (if stalled then 1 else 2) ≤ fuel →
      ∃ st' w' b, dwLoop P fuel st w pkt off stalled = .ok (st', w', b) := by
  intro fuel
  induction fuel with
  | zero => intro off stalled st w _ _ hf; split at hf <;> omega
  | succ n ih =>
    intro off stalled st w hdz hoff hf
    unfold dwLoop
    cases hd : w.dz with
    | none => simp [hd] at hdz
    | some dz =>
      dsimp only
      obtain ⟨st1, w1, b1, h1, hdz1⟩ := decoderRead_total P D st
        { w with dz := some { dz with ring := dz.ring ++ (pkt.drop off).take (min (dz.cap - 1 - dz.ring.length) (pkt.length - off)) } } rfl
      rw [h1]
      cases b1 with
      | false => exact ⟨_, _, _, rfl⟩
      | true =>
        dsimp only
        split
        · exact ⟨_, _, _, rfl⟩
        · split
          · exact ⟨_, _, _, rfl⟩
          · rename_i hne hst
            apply ih _ _ _ _ hdz1 (by omega)
            by_cases hs : min (dz.cap - 1 - dz.ring.length) (pkt.length - off) = 0
            · have : stalled = false := by
                cases stalled with
                | false => rfl
                | true => exact absurd ⟨hs, rfl⟩ hst
              subst this
              simp [hs] at hf ⊢
              omega
            · simp [hs]
              split at hf <;> omega

theorem decodeWritePkt_total (P : Params) (D : DzOK P) (st : St) (w : BW) (pkt : Bytes) :
    ∃ st' w' b, decodeWritePkt P st w pkt = .ok (st', w', b) := by
  unfold decodeWritePkt
  cases hd : w.dz with
  | none =>
    dsimp only
    obtain ⟨a, b, c, h, _⟩ := decoderRead_total P D st
      { w with dz := some { cap := 2 * pkt.length, ring := pkt.drop (P.dzRead w.cenc [] { avail := pkt, fin := false, buflen := 0 }).take,
                            fin := false, hist := [{ avail := pkt, fin := false, buflen := 0 }] }, bufLen := pkt.length } rfl
    exact ⟨a, b, c, h⟩
  | some dz =>
    dsimp only
    exact dwLoop_total P D pkt _ 0 false st w (by simp [hd]) (by omega) (by simp)

theorem bwData_total (P : Params) (D : DzOK P) (st : St) (w : BW) (data : Bytes) :
    ∃ st' w' b, bwData P st w data = .ok (st', w', b) := by
  unfold bwData
  split
  · exact ⟨_, _, _, rfl⟩
  · exact decodeWritePkt_total P D st w data

theorem bwFinish_total (P : Params) (D : DzOK P) (st : St) (w : BW) :
    ∃ st' w' b, bwFinish P st w = .ok (st', w', b) := by
  unfold bwFinish
  cases hd : w.dz with
  | none => exact ⟨_, _, _, rfl⟩
  | some dz =>
    dsimp only
    obtain ⟨a, b, c, h, _⟩ := decoderRead_total P D st { w with dz := some { dz with fin := true } } rfl
    exact ⟨a, b, c, h⟩

/-- **`BlockWriter::write` is total** whenever a BlockWriter exists -/
theorem bwWrite_total (P : Params) (D : DzOK P) (st : St) (sbn : Nat) (blk : Block) (hbw : st.bw.isSome = true) :
    ∃ st' r, bwWrite P st sbn blk = .ok (st', r) := by
  unfold bwWrite
  cases hb : st.bw with
  | none => simp [hb] at hbw
  | some w =>
    dsimp only
    split
    · exact ⟨_, _, rfl⟩
    · cases hs : blk.sourceBlock with
      | none => exact ⟨_, _, rfl⟩
      | some data =>
        dsimp only
        obtain ⟨st1, w1, b1, h1⟩ := bwData_total P D st w (trimTo w.bytesLeft data)
        rw [h1]
        cases b1 with
        | false => exact ⟨_, _, rfl⟩
        | true =>
          dsimp only
          split
          · obtain ⟨st2, w2, b2, h2⟩ := bwFinish_total P D st1
              { w1 with bytesLeft := w1.bytesLeft - (trimTo w.bytesLeft data).length, sbn := w1.sbn + 1 }
            rw [h2]
            cases b2 <;> exact ⟨_, _, rfl⟩
          · exact ⟨_, _, rfl⟩

end Flute.ObjRecv
