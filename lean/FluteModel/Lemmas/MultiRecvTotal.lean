import FluteModel.MultiRecvWire
import FluteModel.Lemmas.MultiRecvFilter
import FluteModel.Lemmas.MultiRecvListeners
import FluteModel.Lemmas.RecvTotal
import FluteModel.Lemmas.RecvWire
/- no call into the MultiReceiver model panics (C04 at the entry point `MultiReceiver::push` / `cleanup`) -/
namespace Flute.MultiRecv
open Flute Flute.TsiFilter
set_option linter.unusedSimpArgs false

variable {σ π Out : Type}

/-- totality contract of a session machine: from states satisfying `Inv`, with environment inputs satisfying `EnvOK`,
    no entry point produces an output classified as a panic, and `Inv` is kept -/
structure Machine.Total (M : Machine σ π Out) (Inv : σ → Prop) (EnvOK : π → Prop) (NoPanic : Out → Prop) : Prop where
  init : ∀ t k, Inv (M.init t k)
  push : ∀ t s (p : Pkt π), Inv s → EnvOK p.body → Inv (M.push t s p).1 ∧ NoPanic (M.push t s p).2
  cleanup : ∀ t i s, Inv s → EnvOK i → Inv (M.cleanup t i s).1 ∧ NoPanic (M.cleanup t i s).2
  fini : ∀ t i s, Inv s → EnvOK i → NoPanic (M.fini t i s)

/-- the environment inputs of an operation are admissible -/
def OpEnvOK (EnvOK : π → Prop) : Op π → Prop
  | .push _ (some p) => EnvOK p.body
  | .cleanup i => EnvOK i
  | .drop i => EnvOK i
  | _ => True

/-- every session of the table satisfies the machine's invariant, no logged output is a panic -/
def TInv (Inv : σ → Prop) (NoPanic : Out → Prop) (s : State σ Out) : Prop :=
  (∀ e ∈ s.table, Inv e.2) ∧ (∀ o ∈ s.outs, NoPanic o.2)

theorem tinv_new (Inv : σ → Prop) (NoPanic : Out → Prop) (b : Bool) : TInv Inv NoPanic (State.new b : State σ Out) := by
  constructor <;> intro x hx <;> simp [State.new] at hx

theorem tinv_step (M : Machine σ π Out) (Inv : σ → Prop) (EnvOK : π → Prop) (NoPanic : Out → Prop)
    (hT : M.Total Inv EnvOK NoPanic) (s : State σ Out) (op : Op π) (hop : OpEnvOK EnvOK op)
    (h : TInv Inv NoPanic s) : TInv Inv NoPanic (step M s op).1 := by
  obtain ⟨h1, h2⟩ := h
  cases op with
  | push ep p =>
    cases p with
    | none => exact ⟨h1, h2⟩
    | some pkt =>
      have henv : EnvOK pkt.body := hop
      simp only [step, push]
      split
      · exact ⟨h1, h2⟩
      · split
        · split
          · rename_i st hg
            have hst : Inv st := h1 _ (AL.mem_of_get _ _ _ hg)
            have hp := hT.push s.clock st pkt hst henv
            constructor
            · intro e he; exact h1 e (mem_del_sub _ _ _ he)
            · intro o ho
              simp only [List.mem_append, List.mem_cons, List.not_mem_nil, or_false] at ho
              rcases ho with ho | ho | ho
              · exact h2 o ho
              · subst ho; exact hp.2
              · subst ho; exact hT.fini _ _ _ hp.1 henv
          · exact ⟨h1, h2⟩
        · split
          · rename_i st hg
            have hst : Inv st := h1 _ (AL.mem_of_get _ _ _ hg)
            have hp := hT.push s.clock st pkt hst henv
            constructor
            · intro e he
              rcases mem_set_cases _ _ _ _ he with he | he
              · exact h1 e he
              · subst he; exact hp.1
            · intro o ho
              simp only [List.mem_append, List.mem_singleton] at ho
              rcases ho with ho | ho
              · exact h2 o ho
              · subst ho; exact hp.2
          · have hp := hT.push s.clock (M.init s.clock ⟨ep, pkt.tsi⟩) pkt (hT.init _ _) henv
            constructor
            · intro e he
              rcases mem_set_cases _ _ _ _ he with he | he
              · exact h1 e he
              · subst he; exact hp.1
            · intro o ho
              simp only [List.mem_append, List.mem_singleton] at ho
              rcases ho with ho | ho
              · exact h2 o ho
              · subst ho; exact hp.2
  | tick d => exact ⟨h1, h2⟩
  | cleanup i =>
    have henv : EnvOK i := hop
    simp only [step, cleanup]
    constructor
    · intro e he
      simp only [List.mem_map, List.mem_filter] at he
      obtain ⟨e0, ⟨hm, _⟩, rfl⟩ := he
      exact (hT.cleanup _ _ _ (h1 e0 hm) henv).1
    · intro o ho
      simp only [List.mem_append, List.mem_map, List.mem_filter] at ho
      rcases ho with (ho | ⟨e0, ⟨hm, _⟩, rfl⟩) | ⟨e0, ⟨hm, _⟩, rfl⟩
      · exact h2 o ho
      · exact hT.fini _ _ _ (h1 e0 hm) henv
      · exact (hT.cleanup _ _ _ (h1 e0 hm) henv).2
  | addListen ep tsi => simp only [step]; split <;> exact ⟨h1, h2⟩
  | removeListen ep tsi => exact ⟨h1, h2⟩
  | addAll ep => simp only [step]; split <;> exact ⟨h1, h2⟩
  | removeAll ep => exact ⟨h1, h2⟩
  | setFiltering b => exact ⟨h1, h2⟩
  | addListener => exact ⟨h1, h2⟩
  | removeListener id => exact ⟨h1, h2⟩
  | drop i =>
    have henv : EnvOK i := hop
    simp only [step, drop]
    constructor
    · intro e he; simp at he
    · intro o ho
      simp only [List.mem_append, List.mem_map] at ho
      rcases ho with ho | ⟨e0, hm, rfl⟩
      · exact h2 o ho
      · exact hT.fini _ _ _ (h1 e0 hm) henv

theorem tinv_run (M : Machine σ π Out) (Inv : σ → Prop) (EnvOK : π → Prop) (NoPanic : Out → Prop)
    (hT : M.Total Inv EnvOK NoPanic) (ops : List (Op π)) (s : State σ Out) (hops : ∀ op ∈ ops, OpEnvOK EnvOK op)
    (h : TInv Inv NoPanic s) : TInv Inv NoPanic (run M s ops) := by
  induction ops generalizing s with
  | nil => exact h
  | cons op r ih =>
    exact ih _ (fun o ho => hops o (List.mem_cons_of_mem _ ho)) (tinv_step M Inv EnvOK NoPanic hT s op (hops op (by simp)) h)

theorem fops_append (xs ys : List (Op π)) : fops (xs ++ ys) = fops xs ++ fops ys := by
  induction xs with
  | nil => rfl
  | cons x r ih => cases x <;> simp [fops, ih]

/-- the only panic of the demultiplexer itself is the overflow of a filter counter: below 2^64 operations no call
    returns `Res.panic` -/
theorem step_res_ne_panic (M : Machine σ π Out) (b : Bool) (ops : List (Op π)) (op : Op π)
    (hlen : ops.length + 1 < 2 ^ 64) : (step M (run M (State.new b) ops) op).2 ≠ .panic := by
  have hl := fops_length_le (ops ++ [op])
  have hl0 := fops_length_le ops
  simp only [List.length_append, List.length_cons, List.length_nil] at hl
  have hrun : TsiFilter.run Filter.new (fops ops) = .ok (run M (State.new b) ops).filter :=
    run_filter M ops (State.new b) (fun _ => 0) (fun _ => 0) frep_new (by intro x; omega) (by intro x; omega)
  have hrun2 : TsiFilter.run Filter.new (fops (ops ++ [op])) = .ok (run M (State.new b) (ops ++ [op])).filter :=
    run_filter M (ops ++ [op]) (State.new b) (fun _ => 0) (fun _ => 0) frep_new (by intro x; omega) (by intro x; omega)
  rw [fops_append, TsiFilter.run_append, hrun] at hrun2
  cases op with
  | push ep p =>
    cases p with
    | none => simp [step, push]
    | some pkt =>
      simp only [step, push]
      split
      · simp
      · split
        · split <;> simp
        · split <;> simp
  | addListen ep tsi =>
    simp only [fops, TsiFilter.run, applyOp] at hrun2
    simp only [step]
    cases ha : TsiFilter.add (run M (State.new b) ops).filter ep tsi with
    | ok f => simp
    | error w => rw [ha] at hrun2; simp at hrun2
  | addAll ep =>
    simp only [fops, TsiFilter.run, applyOp] at hrun2
    simp only [step]
    cases ha : TsiFilter.addEndpointBypass (run M (State.new b) ops).filter ep with
    | ok f => simp
    | error w => rw [ha] at hrun2; simp at hrun2
  | tick d => simp [step]
  | cleanup i => simp [step]
  | removeListen ep tsi => simp [step]
  | removeAll ep => simp [step]
  | setFiltering x => simp [step]
  | addListener => simp [step]
  | removeListener id => simp [step]
  | drop i => simp [step]

/-! ### the receiver model `Flute.Recv` satisfies the contract -/

variable {τ : Type}

/-- admissible environment of a call into the receiver model: the `now` argument is a sane time and the packet's fields
    are in the ranges the parser guarantees (`Recv.Pkt.WF`, proved of every parsed datagram: `Recv.ofAlc_wf`) -/
def REnvOK (i : REnv) : Prop := Recv.TimeSane i.now ∧ i.pkt.WF

theorem recvMachine_total (I : Recv.ObjIface τ) (hI : I.CompleteSound) (cfg : Recv.Config) (timeout : Nat) :
    (recvMachine I cfg timeout).Total (fun s => Recv.AllFdt Recv.Good s.st) REnvOK (fun o => o.res ≠ none) where
  init := by
    intro t k
    constructor <;> (intro f hf; simp [recvMachine, Recv.State.init] at hf)
  push := by
    intro t s p hs henv
    have hwf : ({ p.body.pkt with closeSession := p.close } : Recv.Pkt).WF := henv.2
    have hop : Recv.OpOK (.data (.pkt { p.body.pkt with closeSession := p.close }) p.body.now p.body.ans) :=
      ⟨henv.1, fun q hq => by injection hq with hq; subst hq; exact hwf⟩
    obtain ⟨x, hx⟩ := Recv.step_total I hI s.st _ hop hs
    obtain ⟨s', r, evs⟩ := x
    have hgood := Recv.step_good I hI s.st s' _ r evs hop hx hs
    have hx' : Recv.push I s.st { p.body.pkt with closeSession := p.close } p.body.now p.body.ans = .ok (s', r, evs) := hx
    simp only [recvMachine, hx']
    exact ⟨hgood, by simp⟩
  cleanup := by
    intro t i s hs henv
    have hop : Recv.OpOK (.cleanup i.now (i.stale s.key)) := henv.1
    obtain ⟨x, hx⟩ := Recv.cleanup_total I s.st i.now (i.stale s.key) henv.1 hs
    obtain ⟨s', evs⟩ := x
    have hstep : Recv.step I s.st (.cleanup i.now (i.stale s.key)) = .ok (s', .ok, evs) := by
      simp only [Recv.step, hx]
    have hgood := Recv.step_good I hI s.st s' _ .ok evs hop hstep hs
    simp only [recvMachine, hx]
    exact ⟨hgood, by simp⟩
  fini := by
    intro t i s _ _
    simp [recvMachine]

theorem benv_ok (b : BOp) (hb : ∀ ep d now ans, b = .push ep d now ans → Recv.TimeSane now)
    (hc : ∀ now st, b = .cleanup now st → Recv.TimeSane now) (hd : ∀ now, b = .drop now → Recv.TimeSane now) :
    OpEnvOK REnvOK b.abs := by
  have hdef : (default : Recv.Pkt).WF := by
    constructor <;> intro x hx <;> cases hx
  cases b with
  | push ep d now ans =>
    simp only [BOp.abs, parsedOf]
    cases hp : Alc.parseAlcPkt (d.map UInt8.toNat) with
    | panic w => simp [OpEnvOK]
    | err => simp [OpEnvOK]
    | ok p =>
      simp only [OpEnvOK, recvEnv]
      exact ⟨hb _ _ _ _ rfl, Recv.ofAlc_wf d p hp⟩
  | cleanup now st => exact ⟨hc _ _ rfl, hdef⟩
  | drop now => exact ⟨hd _ rfl, hdef⟩
  | tick dt => trivial
  | addListen ep tsi => trivial
  | removeListen ep tsi => trivial
  | addAll ep => trivial
  | removeAll ep => trivial
  | setFiltering b => trivial
  | addListener => trivial
  | removeListener id => trivial

end Flute.MultiRecv
