import FluteModel.Lemmas.RecvD16
/-
  C17: what traffic CAN grow.  With no object time-out configured nothing ever releases an object:
  `n` datagrams for `n` distinct TOIs leave `n` entries in `objects`, for every `n`.
-/
namespace Flute.Recv
open Flute.Recv.Toy

/-- one packet of object `i + 1` (no FDT known) -/
def objPkt (i : Nat) : Pkt :=
  { toi := i + 1, closeObject := false, closeSession := false, fdtId := none, sct := none,
    fti := none, pid := some (0, 0), plen := 16, dlen := 32 }

def objOps : Nat → List Op
  | 0 => []
  | n + 1 => objOps n ++ [Op.data (.pkt (objPkt n)) 0 .err]

def ObjInv (n : Nat) (s : State Toy.Obj) : Prop :=
  s.fdtCurrent = [] ∧ s.completed = [] ∧ s.errors = [] ∧ s.objects.length = n ∧
  ∀ kv ∈ s.objects, kv.1 < n + 1

theorem obj_step (n : Nat) (s : State Toy.Obj) (h : ObjInv n s) :
    ∃ s', step Toy.iface s (Op.data (.pkt (objPkt n)) 0 .err) = .ok (s', .ok, []) ∧ ObjInv (n + 1) s' := by
  obtain ⟨hcur, hcomp, herr, hlen, hall⟩ := h
  have hnone : alookup (n + 1) s.objects = none := alookup_none_of_lt (n + 1) s.objects hall
  have hins : ainsert (n + 1) (⟨n + 1, false⟩ : Toy.Obj) s.objects = s.objects ++ [(n + 1, ⟨n + 1, false⟩)] :=
    ainsert_append_of_lt (n + 1) _ _ hall
  refine ⟨{ s with objects := s.objects ++ [(n + 1, ⟨n + 1, false⟩)] }, ?_, ?_⟩
  · have htoi : (objPkt n).toi = n + 1 := rfl
    simp only [step, pushData, push, htoi]
    rw [if_neg (by omega)]
    have hcs : (objPkt n).closeSession = false := rfl
    simp only [hcs, Bool.false_eq_true, ↓reduceIte]
    unfold pushObj gateCompleted
    simp only [htoi, hcomp, alookup, Option.isSome_none, Bool.false_eq_true, ↓reduceIte]
    unfold gateError
    simp only [htoi, herr, List.contains_nil, Bool.false_eq_true, ↓reduceIte]
    unfold pushObjCore
    simp only [htoi, hnone, Option.isNone_none, ↓reduceIte]
    unfold createObj
    simp only [hcur, createScan]
    have hnew : Toy.iface.new (n + 1) s.cfg.maxCache = (⟨n + 1, false⟩ : Toy.Obj) := rfl
    rw [hnew, hins]
    have hl : alookup (n + 1) (s.objects ++ [(n + 1, (⟨n + 1, false⟩ : Toy.Obj))]) = some ⟨n + 1, false⟩ := by
      rw [← hins]; exact alookup_ainsert_self _ _ _
    simp only [hl]
    simp only [Toy.iface, Bool.false_eq_true, ↓reduceIte]
    rw [ainsert_replace_last (n + 1) _ _ _ hall]
    unfold checkObjectState
    simp only [hl, wevs, List.map_nil, List.append_nil, hcomp, herr]
  · refine ⟨hcur, hcomp, herr, by simp [hlen], ?_⟩
    intro kv hkv
    simp only [] at hkv
    rcases List.mem_append.mp hkv with hkv | hkv
    · exact Nat.lt_succ_of_lt (hall kv hkv)
    · simp only [List.mem_singleton] at hkv
      subst hkv
      exact Nat.lt_succ_self _

theorem obj_run (cfg : Config) (n : Nat) :
    ∃ s out, run Toy.iface (State.init cfg) (objOps n) = some (s, out) ∧ ObjInv n s := by
  induction n with
  | zero => exact ⟨State.init cfg, [], rfl, rfl, rfl, rfl, rfl, by intro kv h; simp [State.init] at h⟩
  | succ n ih =>
    obtain ⟨s, out, hr, hinv⟩ := ih
    obtain ⟨s', hs', hinv'⟩ := obj_step n s hinv
    refine ⟨s', out ++ [(Res.ok, [])], ?_, hinv'⟩
    simp only [objOps]
    rw [run_append, hr]
    simp only [run, hs']

end Flute.Recv
