import FluteModel.Session
/-
  The decoders the model driver runs satisfy the `Codec` contract:
  No-Code / Raptor / RaptorQ = "all k source symbols present", Reed-Solomon = "k distinct of k+p".
-/
namespace Flute.Lemmas.Session
open Flute.Session

theorem allBelow_iff (k : Nat) (l : List Nat) : allBelow k l = true ↔ ∀ i, i < k → i ∈ l := by
  unfold allBelow
  simp [List.all_eq_true]

theorem countDistinctBelow_mono (n : Nat) (a b : List Nat) (h : ∀ x, x ∈ a → x ∈ b) :
    countDistinctBelow n a ≤ countDistinctBelow n b := by
  unfold countDistinctBelow
  apply List.countP_mono_left
  intro x _ hx
  simp only [List.contains_eq_mem, decide_eq_true_eq] at hx ⊢
  exact h x hx

theorem countDistinctBelow_sources (k p : Nat) (a : List Nat) (h : ∀ i, i < k → i ∈ a) :
    k ≤ countDistinctBelow (k + p) a := by
  unfold countDistinctBelow
  have h1 : List.range (k + p) = List.range k ++ (List.range' k p) := by
    rw [List.range_eq_range', List.range_eq_range']
    have := (List.range'_append_1 (s := 0) (m := k) (n := p)).symm
    simpa using this
  rw [h1, List.countP_append]
  have h2 : List.countP (fun i => a.contains i) (List.range k) = k := by
    have : List.countP (fun i => a.contains i) (List.range k) = (List.range k).length := by
      rw [List.countP_eq_length]
      intro x hx
      simp only [List.mem_range] at hx
      simp only [List.contains_eq_mem, decide_eq_true_eq]
      exact h x hx
    simpa using this
  omega

/-- the decoder the driver runs for a scheme, as an instance of the contract -/
def codecOf (s : Scheme) : Codec where
  canDecode := canDecodeOf s
  mono := by
    intro k p a b hab h
    cases s <;> simp only [canDecodeOf] at h ⊢
    all_goals first
      | (rw [allBelow_iff] at h ⊢; exact fun i hi => hab i (h i hi))
      | (simp only [decide_eq_true_eq] at h ⊢
         exact Nat.le_trans h (countDistinctBelow_mono _ a b hab))
  sources := by
    intro k p a h
    cases s <;> simp only [canDecodeOf]
    all_goals first
      | (rw [allBelow_iff]; exact h)
      | (simp only [decide_eq_true_eq]; exact countDistinctBelow_sources k p a h)

theorem codecOf_canDecode (s : Scheme) : (codecOf s).canDecode = canDecodeOf s := rfl

/-- Reed-Solomon (MDS): any k distinct symbols of the k + p decode -/
theorem rs_any_k (k p : Nat) (a : List Nat) (h : k ≤ countDistinctBelow (k + p) a) :
    canDecodeOf .rs k p a = true ∧ canDecodeOf .rsus k p a = true := by
  simp [canDecodeOf, h]

end Flute.Lemmas.Session
