import FluteModel.Lemmas.ObjRecvProto
/-
  Packet-cache accounting over all histories: the cached bytes never exceed the accounted `cache_size`, and `cache_size` is
  0 or below `max_size + (largest datagram pushed)`.
-/
namespace Flute.ObjRecv
open Flute Flute.FecDec

def cacheBytes (st : St) : Nat := (st.cache.map (·.dataLen)).sum

/-- cache and its accounting are unchanged, or both reset -/
structure CR (st st' : St) : Prop where
  maxSize : st'.maxSize = st.maxSize
  c : (st'.cache = st.cache ∧ st'.cacheSize = st.cacheSize) ∨ (st'.cache = [] ∧ st'.cacheSize = 0)

theorem CR.refl (st : St) : CR st st := ⟨rfl, .inl ⟨rfl, rfl⟩⟩
theorem CR.trans {a b c : St} (h1 : CR a b) (h2 : CR b c) : CR a c := by
  refine ⟨h2.maxSize.trans h1.maxSize, ?_⟩
  cases h2.c with
  | inr x => exact .inr x
  | inl x =>
    cases h1.c with
    | inl y => exact .inl ⟨x.1.trans y.1, x.2.trans y.2⟩
    | inr y => exact .inr ⟨x.1.trans y.1, x.2.trans y.2⟩

theorem CR.ofQuiet {st st' : St} (q : Quiet st st') : CR st st' := ⟨q.maxSize, .inl ⟨q.cache, q.cacheSize⟩⟩
theorem CR.ofWr {st st' : St} (w : Wr st st') : CR st st' := ⟨w.same.maxSize, .inl ⟨w.cache, w.same.cacheSize⟩⟩

theorem cr_complete (st : St) : CR st (complete st) := by
  refine ⟨?_, .inr ⟨by simp, ?_⟩⟩ <;> (unfold complete; cases st.writer <;> simp)
theorem cr_error (st : St) (i : Bool) : CR st (error st i) := by
  refine ⟨?_, .inr ⟨by simp, ?_⟩⟩ <;> (unfold error; cases st.writer <;> simp)

theorem cr_error_of (st s : St) (i : Bool) (hm : s.maxSize = st.maxSize) : CR st (error s i) := by
  refine ⟨?_, .inr ⟨by simp, ?_⟩⟩
  · rw [← hm]; unfold error; cases s.writer <;> simp
  · unfold error; cases s.writer <;> simp

/-- the cache invariant, `M` = an upper bound of the datagram lengths pushed so far -/
structure CB (M : Nat) (st : St) : Prop where
  acc : cacheBytes st ≤ st.cacheSize
  bound : st.cacheSize = 0 ∨ st.cacheSize < st.maxSize + M

theorem CB.cr {M : Nat} {st st' : St} (h : CB M st) (r : CR st st') : CB M st' := by
  cases r.c with
  | inl x => exact ⟨by unfold cacheBytes; rw [x.1, x.2]; exact h.acc, by rw [x.2, r.maxSize]; exact h.bound⟩
  | inr x => exact ⟨by unfold cacheBytes; rw [x.1, x.2]; simp, .inl x.2⟩

theorem cr_popBlock (st : St) (off : Nat) (blk : Block) : CR st (popBlock st off blk) := by
  unfold popBlock; dsimp only; split <;> exact ⟨rfl, .inl ⟨rfl, rfl⟩⟩

theorem cr_finishObject (st : St) (w : BW) : CR st (finishObject st w) := by
  unfold finishObject; split
  · exact cr_error _ _
  · split
    · exact cr_complete _
    · exact cr_error _ _

theorem cr_writeLoop (P : Params) (fuel : Nat) (st : St) (sbn : Nat) {st' : St} {b : Bool}
    (h : writeLoop P fuel st sbn = .ok (st', b)) : CR st st' := by
  induction fuel generalizing st sbn with
  | zero => simp [writeLoop] at h
  | succ n ih =>
    unfold writeLoop at h
    split at h
    · simp at h; rw [← h.1]; exact CR.refl _
    · split at h
      · simp at h; rw [← h.1]; exact CR.refl _
      · split at h
        · simp at h; rw [← h.1]; exact CR.refl _
        · split at h
          · simp at h
          · rename_i heq; simp at h; rw [← h.1]; exact CR.ofWr (wr_bwWrite _ _ _ _ heq)
          · rename_i heq; simp at h; rw [← h.1]; exact CR.ofWr (wr_bwWrite _ _ _ _ heq)
          · rename_i heq
            have c1 := CR.ofWr (wr_bwWrite _ _ _ _ heq)
            split at h
            · simp at h
            · split at h
              · simp at h
              · split at h
                · simp at h
                · split at h
                  · simp at h; rw [← h.1]
                    exact (c1.trans (cr_popBlock _ _ _)).trans (cr_finishObject _ _)
                  · exact (c1.trans (cr_popBlock _ _ _)).trans (ih _ _ h)

theorem cr_writeBlocks (P : Params) (st : St) (sbn : Nat) {st' : St} {b : Bool}
    (h : writeBlocks P st sbn = .ok (st', b)) : CR st st' := by
  unfold writeBlocks at h
  split at h
  · simp at h; rw [← h.1]; exact CR.refl _
  · split at h
    · simp at h; rw [← h.1]; exact CR.refl _
    · split at h
      · simp at h; rw [← h.1]; exact CR.refl _
      · exact cr_writeLoop _ _ _ _ h

theorem cr_pushToBlock2 (P : Params) (st : St) (p : Pkt) {st' : St} {b : Bool}
    (h : pushToBlock2 P st p = .ok (st', b)) : CR st st' := by
  unfold pushToBlock2 at h
  split at h
  · split at h
    · simp at h
    · simp at h; rw [← h.1]; exact CR.refl _
    · split at h
      · split at h
        · simp at h
        · simp at h; rw [← h.1]; split
          · split
            · exact cr_complete _
            · exact cr_error _ _
          · exact CR.refl _
      · split at h
        · simp at h; rw [← h.1]; exact CR.refl _
        · split at h
          · simp at h; rw [← h.1]; exact CR.refl _
          · split at h
            · simp at h; rw [← h.1]; exact CR.ofQuiet (quiet_setError _)
            · have q0 := quiet_growBlocks st (‹PayloadId›.sbn - st.blocksOffset)
              split at h
              · simp at h
              · split at h
                · simp at h; rw [← h.1]; exact CR.ofQuiet q0
                · split at h
                  · simp at h
                  · rename_i heq
                    simp at h; rw [← h.1]
                    exact CR.ofQuiet (q0.trans (quiet_allocBlock _ _ _ _ _ _ heq))
                  · rename_i heq
                    have q1 := q0.trans (quiet_allocBlock _ _ _ _ _ _ heq)
                    split at h
                    · simp at h
                    · have q2 : Quiet st { ‹St› with blocks := (‹St›).blocks.set (‹PayloadId›.sbn - st.blocksOffset) ‹Block› } :=
                        q1.trans ⟨rfl, rfl, rfl, rfl, rfl, rfl, .inl rfl, rfl, rfl, rfl⟩
                      split at h
                      · exact (CR.ofQuiet q2).trans (cr_writeBlocks _ _ _ h)
                      · simp at h; rw [← h.1]; exact CR.ofQuiet q2
  · simp at h

theorem cr_pushToBlock (P : Params) (st : St) (p : Pkt) {st' : St} {b : Bool}
    (h : pushToBlock P st p = .ok (st', b)) : CR st st' := by
  unfold pushToBlock at h
  split at h
  · simp at h
  · rename_i heq; simp at h; rw [← h.1]; exact cr_pushToBlock2 _ _ _ heq
  · rename_i heq
    split at h
    · simp at h; rw [← h.1]; exact (cr_pushToBlock2 _ _ _ heq).trans (cr_error _ _)
    · simp at h; rw [← h.1]; exact cr_pushToBlock2 _ _ _ heq

/-- the replay loop only shrinks the cache; with enough fuel it empties it -/
theorem cb_cacheLoop (P : Params) (M : Nat) (fuel : Nat) (st : St) {st' : St}
    (hc : CB M st) (hf : st.cache.length ≤ fuel) (h : cacheLoop P fuel st = .ok st') :
    CB M st' ∧ st'.cache = [] ∧ st'.maxSize = st.maxSize := by
  induction fuel generalizing st with
  | zero =>
    simp [cacheLoop] at h; rw [← h]
    exact ⟨hc, List.eq_nil_of_length_eq_zero (by omega), rfl⟩
  | succ n ih =>
    unfold cacheLoop at h
    split at h
    · rename_i hnil; simp at h; rw [← h]; exact ⟨hc, hnil, rfl⟩
    · rename_i pk rest hcons
      have hc1 : CB M { st with cache := rest } := by
        refine ⟨?_, hc.bound⟩
        have := hc.acc
        unfold cacheBytes at this ⊢
        rw [hcons] at this
        simp at this ⊢
        omega
      split at h
      · simp at h
      · rename_i heq
        simp at h; rw [← h]
        have r := (cr_pushToBlock _ _ _ heq).trans (cr_error _ false)
        exact ⟨hc1.cr r, by simp, r.maxSize⟩
      · rename_i st2 heq
        have r := cr_pushToBlock _ _ _ heq
        have hlen : st2.cache.length ≤ n := by
          cases r.c with
          | inl x => rw [x.1]; simp; rw [hcons] at hf; simp at hf; omega
          | inr x => rw [x.1]; simp
        have := ih _ (hc1.cr r) hlen h
        exact ⟨this.1, this.2.1, this.2.2.trans r.maxSize⟩

theorem cb_pushFromCache (P : Params) (M : Nat) (st : St) {st' : St}
    (hc : CB M st) (h : pushFromCache P st = .ok st') : CB M st' ∧ st'.maxSize = st.maxSize := by
  unfold pushFromCache at h
  split at h
  · simp at h; rw [← h]; exact ⟨hc, rfl⟩
  · split at h
    · simp at h
    · rename_i heq
      simp at h; rw [← h]
      have := cb_cacheLoop P M _ st hc (Nat.le_refl _) heq
      refine ⟨⟨?_, .inl rfl⟩, this.2.2⟩
      unfold cacheBytes; simp [this.2.1]

theorem cr_initBlocksPartitioning (st : St) {st' : St} (h : initBlocksPartitioning st = .ok st') : CR st st' :=
  CR.ofQuiet (inv_initBlocksPartitioning_quiet st h)
where
  inv_initBlocksPartitioning_quiet (st : St) {st' : St} (h : initBlocksPartitioning st = .ok st') : Quiet st st' := by
    unfold initBlocksPartitioning at h
    split at h
    · simp at h; rw [← h]; exact Quiet.refl _
    · split at h
      · split at h
        · simp at h
        · simp at h; subst h; exact ⟨rfl, rfl, rfl, rfl, rfl, rfl, .inl rfl, rfl, rfl, rfl⟩
      · simp at h; rw [← h]; exact Quiet.refl _

theorem cr_initObjectWriter (P : Params) (st : St) {st' : St} (h : initObjectWriter P st = .ok st') : CR st st' := by
  unfold initObjectWriter at h
  split at h
  · simp at h; rw [← h]; exact CR.refl _
  · split at h
    · dsimp only at h
      split at h
      · simp at h; subst h; exact ⟨rfl, .inl ⟨rfl, rfl⟩⟩
      · simp at h; subst h; exact ⟨rfl, .inl ⟨rfl, rfl⟩⟩
      · unfold openWriter at h
        dsimp only at h
        split at h
        · simp at h
        · split at h
          · simp at h; subst h
            exact cr_error_of _ _ _ rfl
          · simp at h; subst h; exact ⟨rfl, .inl ⟨rfl, rfl⟩⟩
    · simp at h; rw [← h]; exact CR.refl _

theorem cb_cachePkt (M : Nat) (st : St) (p : Pkt) (hc : CB M st) (hp : p.dataLen ≤ M) :
    CB M (cachePkt st p).1 ∧ (cachePkt st p).1.maxSize = st.maxSize := by
  unfold cachePkt
  split
  · exact ⟨hc, rfl⟩
  · split
    · exact ⟨hc, rfl⟩
    · refine ⟨⟨?_, .inr ?_⟩, rfl⟩
      · have := hc.acc; unfold cacheBytes at this ⊢; simp at this ⊢; omega
      · simp only; omega

theorem cb_push (P : Params) (M : Nat) (st : St) (p : Pkt) {st' : St}
    (hc : CB M st) (hp : p.dataLen ≤ M) (h : push P st p = .ok st') : CB M st' ∧ st'.maxSize = st.maxSize := by
  unfold push at h
  split at h
  · simp at h; rw [← h]; exact ⟨hc, rfl⟩
  · split at h
    · simp at h
    · rename_i st1 h1
      have r1 : CR st st1 :=
        (CR.ofQuiet ((quiet_setCencFromPkt st p).trans (quiet_setOtiFromPkt _ p))).trans (cr_initBlocksPartitioning _ h1)
      split at h
      · simp at h
      · rename_i st2 h2
        have r2 := r1.trans (cr_initObjectWriter _ _ h2)
        split at h
        · simp at h
        · rename_i st3 h3
          have c3 := cb_pushFromCache P M _ (hc.cr r2) h3
          have m3 : st3.maxSize = st.maxSize := c3.2.trans r2.maxSize
          split at h
          · simp at h; rw [← h]; exact ⟨c3.1, m3⟩
          · split at h
            · have cc := cb_cachePkt M st3 p c3.1 hp
              split at h
              · rename_i heq
                simp at h; rw [← h]
                rw [heq] at cc; exact ⟨cc.1, cc.2.trans m3⟩
              · rename_i heq
                simp at h; rw [← h]
                rw [heq] at cc
                have r := cr_error ‹St› false
                exact ⟨cc.1.cr r, (r.maxSize.trans cc.2).trans m3⟩
            · split at h
              · simp at h
              · rename_i heq
                simp at h; rw [← h]
                have r := cr_pushToBlock _ _ _ heq
                exact ⟨c3.1.cr r, r.maxSize.trans m3⟩
              · rename_i heq
                simp at h; rw [← h]
                have r := (cr_pushToBlock _ _ _ heq).trans (cr_error _ false)
                exact ⟨c3.1.cr r, r.maxSize.trans m3⟩

theorem cb_attachFdtOld (P : Params) (M : Nat) (st : St) (fdtId : Nat) (file : Option FileEntry) {st' : St} {b : Bool}
    (hc : CB M st) (h : attachFdtOld P st fdtId file = .ok (st', b)) : CB M st' ∧ st'.maxSize = st.maxSize := by
  unfold attachFdtOld attachCore at h
  split at h
  · simp at h; rw [← h.1]; exact ⟨hc, rfl⟩
  · split at h
    · simp at h; rw [← h.1]; exact ⟨hc, rfl⟩
    · split at h
      · simp at h
      · rename_i st1 h1
        have r1 : CR st st1 := by
          unfold attachMeta at h1
          dsimp only at h1
          split at h1
          · simp at h1
          · simp at h1; subst h1; exact ⟨rfl, .inl ⟨rfl, rfl⟩⟩
        split at h
        · simp at h
        · rename_i st2 h2
          have r2 := r1.trans (cr_initBlocksPartitioning _ h2)
          split at h
          · simp at h
          · rename_i st3 h3
            have r3 := r2.trans (cr_initObjectWriter _ _ h3)
            split at h
            · simp at h
            · rename_i st4 h4
              have c4 := cb_pushFromCache P M _ (hc.cr r3) h4
              split at h
              · simp at h
              · rename_i st5 ok h5
                have r5 := cr_writeBlocks _ _ _ h5
                have r6 : CR st5 (if ok = true then st5 else error st5 false) := by
                  cases ok
                  · simpa using cr_error st5 false
                  · simpa using CR.refl st5
                split at h
                · simp at h
                · rename_i st6 h6
                  simp at h; rw [← h.1]
                  have c6 := cb_pushFromCache P M _ ((c4.1.cr r5).cr r6) h6
                  exact ⟨c6.1, ((c6.2.trans r6.maxSize).trans r5.maxSize).trans (c4.2.trans r3.maxSize)⟩


theorem cb_reset {M : Nat} {st : St} (hc : CB M st) : CB M (resetOti st) := ⟨hc.acc, hc.bound⟩

theorem cb_attachFdt (P : Params) (M : Nat) (st : St) (fdtId : Nat) (file : Option FileEntry) {st' : St} {b : Bool}
    (hc : CB M st) (h : attachFdt P st fdtId file = .ok (st', b)) : CB M st' ∧ st'.maxSize = st.maxSize := by
  rcases attachFdt_cases h with h0 | ⟨f, rfl, _, _, h1⟩
  · exact cb_attachFdtOld P M st fdtId file hc h0
  · exact cb_attachFdtOld P M (resetOti st) fdtId _ (cb_reset hc) h1

/-- the datagrams of a history are at most `M` bytes long -/
def OpsLe (M : Nat) (ops : List Op) : Prop := ∀ p, Op.push p ∈ ops → p.dataLen ≤ M

theorem cb_run (P : Params) (M : Nat) (st : St) (ops : List Op) {st' : St}
    (hc : CB M st) (hops : OpsLe M ops) (h : run P st ops = .ok st') : CB M st' ∧ st'.maxSize = st.maxSize := by
  induction ops generalizing st with
  | nil => simp [run] at h; rw [← h]; exact ⟨hc, rfl⟩
  | cons op r ih =>
    simp only [run] at h
    split at h
    · simp at h
    · rename_i st1 heq
      have h1 : CB M st1 ∧ st1.maxSize = st.maxSize := by
        cases op with
        | push p => exact cb_push _ _ _ _ hc (hops p (by simp)) heq
        | attach id f =>
          simp only [step] at heq
          split at heq
          · simp at heq
          · rename_i heq2
            simp at heq; rw [← heq]
            exact cb_attachFdt _ _ _ _ _ hc heq2
      have := ih _ h1.1 (fun p hp => hops p (by simp [hp])) h
      exact ⟨this.1, this.2.trans h1.2⟩

end Flute.ObjRecv
