import FluteModel.Lemmas.SessionObjRecv
/-
  `write_blocks`  ~  `Session.settle` / `advance`: the flush of the completed leading blocks, and completion.
  Extra invariants of the ObjRecv side (`SimF`): per block `completed` = `dec` on the held ESIs and a completed block has the genuine
  source block; the BlockWriter is at `blocks_offset` with `bytes_left + |first sbn blocks| = |T|`.
-/
namespace Flute.Link
open Flute Flute.FecDec Flute.ObjRecv

theorem mem_blkEsis_iff_holds (st : St) (i : Nat) (blk : Block) (h : st.blocks[i]? = some blk) (e : Nat) :
    e ∈ blkEsis blk ↔ holds st (st.blocksOffset + i) e := by
  unfold holds blkEsis
  constructor
  · intro he
    cases hd : blk.dec with
    | none => simp [hd] at he
    | some d =>
      simp [hd] at he
      exact ⟨Nat.le_add_right _ _, blk, d, by simpa using h, hd, he⟩
  · rintro ⟨_, blk', d, hb, hd, he⟩
    have : blk' = blk := by
      have : st.blocksOffset + i - st.blocksOffset = i := by omega
      rw [this, h] at hb; cases hb; rfl
    subst this
    simp [hd, he]

/-- `BlockWriter::write` of the completed head block of a genuine object with an all-accepting writer: the block goes out -/
theorem bwWrite_head (Z : Setting) (hZ : Z.OK) (st : St) (w : BW) (blk : Block) (D : Bytes) (hbw : st.bw = some w)
    (hw : BwOK Z st w) (hsrc : blk.sourceBlock = some D) :
    ∃ st1 w1, bwWrite Z.P st st.blocksOffset blk = .ok (st1, some true) ∧ st1.bw = some w1 ∧
      w1.sbn = w.sbn + 1 ∧ w1.bytesLeft = w.bytesLeft - (trimTo w.bytesLeft D).length ∧ w1.cenc = .null ∧ w1.cl = w.cl ∧
      w1.nbWritten = w.nbWritten + (trimTo w.bytesLeft D).length ∧ w1.discarded = false ∧ w1.dz = none ∧
      st1.out = .write w.sbn (trimTo w.bytesLeft D) true :: st.out := by
  have hok : ∀ k j, (Z.P.env.plan k).writeOk j = true := fun k j => (hZ.env k).2.2 j
  unfold bwWrite
  rw [hbw]
  simp only [hw.sbn, ne_eq, not_true_eq_false, if_false, hsrc]
  unfold bwData
  simp only [hw.cenc, if_true, wWrite, hok]
  split
  · -- the last block: finish
    unfold bwFinish
    simp only [hw.dz]
    exact ⟨_, _, rfl, rfl, by simp [hw.sbn], rfl, rfl, rfl, by simp, hw.disc, by simp [hw.dz], by simp [hw.sbn]⟩
  · exact ⟨_, _, rfl, rfl, by simp [hw.sbn], rfl, rfl, rfl, by simp, hw.disc, by simp [hw.dz], by simp [hw.sbn]⟩

/-! ### `advance` -/

theorem advance_step (dec : (k p : Nat) → List Nat → Bool) (ks : Array Nat) (p : Nat) (got : List (Nat × Nat)) (f w : Nat)
    (h1 : w < ks.size) (h2 : Session.blockDone dec ks p got w = true) :
    Session.advance dec ks p got (f + 1) w = Session.advance dec ks p got f (w + 1) := by
  simp [Session.advance, h1, h2]

theorem advance_stop (dec : (k p : Nat) → List Nat → Bool) (ks : Array Nat) (p : Nat) (got : List (Nat × Nat)) (f w : Nat)
    (h : w < ks.size → Session.blockDone dec ks p got w = false) : Session.advance dec ks p got f w = w := by
  cases f with
  | zero => rfl
  | succ n =>
    simp only [Session.advance]
    by_cases h1 : w < ks.size
    · simp [h1, h h1]
    · simp [h1]

/-- `blockDone` on the Session side is `completed` of the corresponding block (or `false` when the deque has no such block) -/
theorem blockDone_head (Z : Setting) (hZ : Z.OK) (st : St) (got : List (Nat × Nat))
    (hgot : ∀ b e, st.blocksOffset ≤ b → ((b, e) ∈ got ↔ holds st b e)) (hoff : st.blocksOffset < Z.S.n) :
    Session.blockDone Z.dec Z.oc.ks Z.oc.p got st.blocksOffset =
      (match st.blocks[0]? with
       | some blk => Z.dec (Z.S.K st.blocksOffset) Z.oc.p (blkEsis blk)
       | none => false) := by
  unfold Session.blockDone
  rw [hZ.ks _ hoff]
  dsimp only
  cases hb : st.blocks[0]? with
  | none =>
    dsimp only
    rw [← hZ.decNil _ hoff]
    apply hZ.decExt
    intro x
    simp only [Session.esisOf, List.mem_map, List.mem_filter, List.not_mem_nil, iff_false]
    rintro ⟨⟨b, e⟩, ⟨hm, hbe⟩, rfl⟩
    have hbe' : b = st.blocksOffset := by simpa using hbe
    subst hbe'
    have := (hgot _ e (Nat.le_refl _)).mp hm
    obtain ⟨_, blk, d, hblk, _⟩ := this
    simp [hb] at hblk
  | some blk =>
    dsimp only
    apply hZ.decExt
    intro x
    rw [show st.blocksOffset = st.blocksOffset + 0 from rfl, mem_blkEsis_iff_holds st 0 blk hb x]
    simp only [Session.esisOf, List.mem_map, List.mem_filter, Nat.add_zero]
    constructor
    · rintro ⟨⟨b, e⟩, ⟨hm, hbe⟩, rfl⟩
      have hbe' : b = st.blocksOffset := by simpa using hbe
      subst hbe'
      exact (hgot _ e (Nat.le_refl _)).mp hm
    · intro hh
      exact ⟨(st.blocksOffset, x), ⟨(hgot _ x (Nat.le_refl _)).mpr hh, by simp⟩, rfl⟩

/-- popping the head block: the symbols of the later blocks are held as before -/
theorem holds_pop (st st2 : St) (hoff : st2.blocksOffset = st.blocksOffset + 1) (hbl : st2.blocks = st.blocks.tail) (b e : Nat)
    (hb : st.blocksOffset + 1 ≤ b) : holds st2 b e ↔ holds st b e := by
  unfold holds
  rw [hoff, hbl]
  have hidx : b - st.blocksOffset = (b - (st.blocksOffset + 1)) + 1 := by omega
  constructor
  · rintro ⟨_, blk, d, h1, h2, h3⟩
    refine ⟨by omega, blk, d, ?_, h2, h3⟩
    rw [hidx]
    cases hl : st.blocks with
    | nil => rw [hl] at h1; simp at h1
    | cons x r => rw [hl] at h1; simpa using h1
  · rintro ⟨_, blk, d, h1, h2, h3⟩
    refine ⟨hb, blk, d, ?_, h2, h3⟩
    rw [hidx] at h1
    cases hl : st.blocks with
    | nil => rw [hl] at h1; simp at h1
    | cons x r => rw [hl] at h1; simpa using h1

/-! ### the loop of `write_blocks` from the head of the deque -/

/-- fields the flush does not touch -/
structure Frame (st st1 : St) : Prop where
  oti : st1.oti = st.oti
  fdtId : st1.fdtId = st.fdtId
  writer : st1.writer = st.writer
  maxSize : st1.maxSize = st.maxSize
  md5 : st1.md5 = st.md5
  cache : st1.cache = st.cache
  cacheSize : st1.cacheSize = st.cacheSize
  aLarge : st1.aLarge = st.aLarge
  aSmall : st1.aSmall = st.aSmall
  nbALarge : st1.nbALarge = st.nbALarge
  nbBlocks : st1.nbBlocks = st.nbBlocks
  tl : st1.tl = st.tl
  cl : st1.cl = st.cl

theorem Frame.refl (st : St) : Frame st st := ⟨rfl, rfl, rfl, rfl, rfl, rfl, rfl, rfl, rfl, rfl, rfl, rfl, rfl⟩
theorem Frame.trans {a b c : St} (h1 : Frame a b) (h2 : Frame b c) : Frame a c :=
  ⟨h2.oti.trans h1.oti, h2.fdtId.trans h1.fdtId, h2.writer.trans h1.writer, h2.maxSize.trans h1.maxSize, h2.md5.trans h1.md5,
   h2.cache.trans h1.cache, h2.cacheSize.trans h1.cacheSize, h2.aLarge.trans h1.aLarge, h2.aSmall.trans h1.aSmall,
   h2.nbALarge.trans h1.nbALarge, h2.nbBlocks.trans h1.nbBlocks, h2.tl.trans h1.tl, h2.cl.trans h1.cl⟩

/-- the object is still receiving after the flush: `wF` blocks are with the writer -/
structure Flushed (Z : Setting) (st st1 : St) (wF : Nat) : Prop where
  state : st1.state = .receiving
  ge : st.blocksOffset ≤ wF
  off : st1.blocksOffset = wF
  blocks : st1.blocks = st.blocks.drop (wF - st.blocksOffset)
  simf : SimF Z st1
  bw : st1.bw.isSome = true
  frame : Frame st st1
  cnt : ∀ g : WCall → Bool, (∀ s d o, g (.write s d o) = false) → cnt g st1.out = cnt g st.out
  /-- the flush went on until the head was no completed block -/
  head : ∀ blk, st1.blocks[0]? = some blk → blk.completed = false

/-- all blocks went to the writer: `complete()` -/
structure Completed (st st1 : St) : Prop where
  state : st1.state = .completed
  cache : st1.cache = []
  blocks : st1.blocks = []
  cnt : ∀ g : WCall → Bool, (∀ s d o, g (.write s d o) = false) →
    cnt g st1.out = (if g .complete then 1 else 0) + cnt g st.out

theorem flush_loop (Z : Setting) (hZ : Z.OK) :
    ∀ (fuel : Nat) (st st1 : St) (ok : Bool) (got : List (Nat × Nat)) (f : Nat),
      st.blocks.length ≤ fuel → st.state = .receiving → st.writer = some .opened → st.md5 = none →
      SimF Z st → (∃ w, st.bw = some w) →
      (∀ i blk, st.blocks[i]? = some blk → BOK Z.S (st.blocksOffset + i) blk) →
      (∀ b e, st.blocksOffset ≤ b → ((b, e) ∈ got ↔ holds st b e)) → st.blocksOffset + st.blocks.length ≤ Z.S.n →
      Z.S.n - st.blocksOffset + 1 ≤ f →
      writeLoop Z.P (fuel + 1) st st.blocksOffset = .ok (st1, ok) →
      ok = true ∧
      ((Session.advance Z.dec Z.oc.ks Z.oc.p got f st.blocksOffset < Z.S.n ∧
          Flushed Z st st1 (Session.advance Z.dec Z.oc.ks Z.oc.p got f st.blocksOffset)) ∨
       (Session.advance Z.dec Z.oc.ks Z.oc.p got f st.blocksOffset = Z.S.n ∧ Completed st st1)) := by
  intro fuel
  induction fuel with
  | zero =>
    intro st st1 ok got f hlen hrec hwr hmd5 hF hbw hbok hgot hroom hf h
    obtain ⟨w, hw⟩ := hbw
    have hW := hF.bw w hw
    have hb0 : st.blocks = [] := List.eq_nil_of_length_eq_zero (by omega)
    have hoffn : st.blocksOffset < Z.S.n := by
      apply Classical.byContradiction
      intro hc
      have : st.blocksOffset = Z.S.n := by rw [hb0] at hroom; simp at hroom; omega
      have h1 := hW.left; have h2 := hW.pos
      rw [hW.sbn, this, hZ.laws.preN] at h1
      omega
    unfold writeLoop at h
    simp [hb0] at h
    obtain ⟨rfl, rfl⟩ := h
    have hstop : Session.advance Z.dec Z.oc.ks Z.oc.p got f st.blocksOffset = st.blocksOffset := by
      apply advance_stop
      intro _
      rw [blockDone_head Z hZ st got hgot hoffn, hb0]; rfl
    rw [hstop]
    exact ⟨rfl, .inl ⟨hoffn, hrec, Nat.le_refl _, rfl, by simp, hF, by simp [hw], Frame.refl _, fun _ _ => rfl,
      fun blk hb => by rw [hb0] at hb; simp at hb⟩⟩
  | succ n ih =>
    intro st st1 ok got f hlen hrec hwr hmd5 hF hbw hbok hgot hroom hf h
    obtain ⟨w, hw⟩ := hbw
    have hW := hF.bw w hw
    have hoffn : st.blocksOffset < Z.S.n := by
      apply Classical.byContradiction
      intro hc
      have : st.blocksOffset = Z.S.n := by omega
      have h1 := hW.left; have h2 := hW.pos
      rw [hW.sbn, this, hZ.laws.preN] at h1
      omega
    have hstopres : ∀ (hs : Session.advance Z.dec Z.oc.ks Z.oc.p got f st.blocksOffset = st.blocksOffset)
        (hhd : ∀ blk, st.blocks[0]? = some blk → blk.completed = false),
        (true = true) ∧
        ((Session.advance Z.dec Z.oc.ks Z.oc.p got f st.blocksOffset < Z.S.n ∧
            Flushed Z st st (Session.advance Z.dec Z.oc.ks Z.oc.p got f st.blocksOffset)) ∨
         (Session.advance Z.dec Z.oc.ks Z.oc.p got f st.blocksOffset = Z.S.n ∧ Completed st st)) := by
      intro hs hhd
      rw [hs]
      exact ⟨rfl, .inl ⟨hoffn, hrec, Nat.le_refl _, rfl, by simp, hF, by simp [hw], Frame.refl _, fun _ _ => rfl, hhd⟩⟩
    unfold writeLoop at h
    rw [if_neg (by omega)] at h
    simp only [Nat.sub_self] at h
    cases hb : st.blocks[0]? with
    | none =>
      rw [hb] at h
      simp at h
      obtain ⟨rfl, rfl⟩ := h
      refine hstopres ?_ (fun blk hb' => by rw [hb] at hb'; cases hb')
      apply advance_stop
      intro _
      rw [blockDone_head Z hZ st got hgot hoffn, hb]
    | some blk =>
      rw [hb] at h
      dsimp only at h
      have hBlk : BlkOK Z st.blocksOffset blk := by simpa using hF.blk 0 blk hb
      by_cases hcomp : blk.completed = true
      · -- the head block is complete: it goes to the writer
        rw [if_neg (by simp [hcomp])] at h
        obtain ⟨D, hD⟩ := Option.isSome_iff_exists.mp (hBlk.src hcomp)
        have hDD : D = Z.S.D st.blocksOffset := by
          have := blockOK_sourceBlock (hbok 0 blk hb) D hD
          simpa using this
        obtain ⟨s1, w1, e1, hbw1, k1, k2, k3, k4, k5, k6, k7, k8⟩ := bwWrite_head Z hZ st w blk D hw hW hD
        have hwr1 := wr_bwWrite _ _ _ _ e1
        rw [e1] at h
        dsimp only at h
        split at h
        · cases h
        · split at h
          · cases h
          · rw [hbw1] at h
            dsimp only at h
            -- the lengths
            have hpre := hZ.laws.preS _ hoffn
            have hleft := hW.left
            rw [hW.sbn] at hleft
            have hdata : trimTo (Z.S.T.length - (Z.S.pre st.blocksOffset).length) (Z.S.D st.blocksOffset) = trimTo w.bytesLeft D := by
              rw [hDD]; congr 1; omega
            have hlen1 : (Z.S.pre (st.blocksOffset + 1)).length = (Z.S.pre st.blocksOffset).length + (trimTo w.bytesLeft D).length := by
              rw [hpre, hdata]; simp
            have hle := trimTo_length_le w.bytesLeft D
            have hdone : Session.blockDone Z.dec Z.oc.ks Z.oc.p got st.blocksOffset = true := by
              rw [blockDone_head Z hZ st got hgot hoffn, hb]
              dsimp only
              rw [← hBlk.comp]; exact hcomp
            obtain ⟨f', rfl⟩ : ∃ f', f = f' + 1 := ⟨f - 1, by omega⟩
            rw [advance_step _ _ _ _ _ _ (by rw [hZ.nblocks]; exact hoffn) hdone]
            -- the state after the pop
            have hpop : popBlock s1 0 blk = { s1 with totalAlloc := s1.totalAlloc - blk.blockSize, nbAlloc := s1.nbAlloc - 1, blocksOffset := s1.blocksOffset + 1, blocks := s1.blocks.tail } := by
              unfold popBlock; simp
            have hoff1 : s1.blocksOffset = st.blocksOffset := hwr1.off
            have hbl1 : s1.blocks = st.blocks := hwr1.same.blocks
            have hframe : Frame st (popBlock s1 0 blk) := by
              rw [hpop]
              exact ⟨hwr1.same.oti, hwr1.fdt, hwr1.writer, hwr1.same.maxSize, hwr1.same.md5, hwr1.cache, hwr1.same.cacheSize,
                hwr1.same.aLarge, hwr1.same.aSmall, hwr1.same.nbALarge, hwr1.same.nbBlocks, hwr1.same.tl, hwr1.same.cl⟩
            have hcnt1 : ∀ g : WCall → Bool, (∀ s d o, g (.write s d o) = false) → cnt g (popBlock s1 0 blk).out = cnt g st.out := by
              intro g hg
              rw [hpop]
              show cnt g s1.out = _
              rw [k8, cnt_cons, hg]; simp
            split at h
            · -- bytes_left = 0: the object is complete
              rename_i hz
              simp at h
              obtain ⟨rfl, rfl⟩ := h
              have hn1 : st.blocksOffset + 1 = Z.S.n := by
                apply Classical.byContradiction
                intro hc
                have := hZ.preLt (st.blocksOffset + 1) (by omega)
                rw [k2] at hz
                omega
              have hadv : Session.advance Z.dec Z.oc.ks Z.oc.p got f' (st.blocksOffset + 1) = Z.S.n := by
                rw [hn1]; apply advance_stop; intro hh; rw [hZ.nblocks] at hh; omega
              refine ⟨rfl, .inr ⟨hadv, ?_⟩⟩
              -- Content-Length and MD5 pass
              have hck : w1.checkCl = true := by
                unfold BW.checkCl
                rw [k4, hW.cl]
                cases hF.cl with
                | inl hc => rw [hc]
                | inr hc =>
                  rw [hc]
                  simp only [k5, k6, hW.nbw, hW.sbn]
                  rw [k2] at hz
                  have : (Z.S.pre st.blocksOffset).length + (trimTo w.bytesLeft D).length = Z.S.T.length := by omega
                  simp [this]
              have hmv : md5Valid (popBlock s1 0 blk) w1 = true := by
                unfold md5Valid; rw [hframe.md5, hmd5]
              unfold finishObject
              rw [if_neg (by simp [hck]), if_pos hmv]
              refine ⟨by simp, by simp, by simp, ?_⟩
              intro g hg
              have hws : (popBlock s1 0 blk).writer.isSome = true := by rw [hframe.writer, hwr]; rfl
              rw [complete_out, if_pos hws, cnt_cons, hcnt1 g hg]
            · -- more to come: the loop goes on with the next block
              rename_i hnz
              have hlt : st.blocksOffset + 1 < Z.S.n := by
                apply Classical.byContradiction
                intro hc
                have : st.blocksOffset + 1 = Z.S.n := by omega
                have h2 := hZ.laws.preN
                rw [← this] at h2
                rw [k2] at hnz
                rw [h2] at hlen1
                omega
              have hst2off : (popBlock s1 0 blk).blocksOffset = st.blocksOffset + 1 := by rw [hpop]; simp [hoff1]
              have hst2bl : (popBlock s1 0 blk).blocks = st.blocks.tail := by rw [hpop]; simp [hbl1]
              have hidx : ∀ i, st.blocks.tail[i]? = st.blocks[i + 1]? := by
                intro i; cases st.blocks <;> simp
              have hF2 : SimF Z (popBlock s1 0 blk) := by
                refine ⟨?_, ?_, by rw [hframe.cl]; exact hF.cl, by rw [hst2bl]; have := hF.len; simp; omega⟩
                · intro i b hib
                  rw [hst2bl, hidx] at hib
                  rw [hst2off]
                  have := hF.blk (i + 1) b hib
                  rw [show st.blocksOffset + 1 + i = st.blocksOffset + (i + 1) by omega]
                  exact this
                · intro w' hw'
                  have : (popBlock s1 0 blk).bw = some w1 := by rw [hpop]; exact hbw1
                  rw [this] at hw'; cases hw'
                  refine ⟨by rw [k1, hW.sbn, hst2off], ?_, by rw [k2] at hnz; rw [k2]; exact hnz, k3, by rw [k4, hW.cl, hframe.cl], ?_, k6, k7⟩
                  · rw [k1, hW.sbn, k2, hlen1]; omega
                  · rw [k5, k1, hW.sbn, hW.nbw, hW.sbn, hlen1]
              have := ih (popBlock s1 0 blk) st1 ok got f'
                (by rw [hst2bl]; simp; omega) (by rw [hpop]; exact hwr1.state.trans hrec) (by rw [hframe.writer]; exact hwr)
                (by rw [hframe.md5]; exact hmd5) hF2 ⟨w1, by rw [hpop]; exact hbw1⟩
                (by
                  intro i b hib
                  rw [hst2bl, hidx] at hib
                  rw [hst2off, show st.blocksOffset + 1 + i = st.blocksOffset + (i + 1) by omega]
                  exact hbok (i + 1) b hib)
                (by
                  intro b e hb'
                  rw [hst2off] at hb'
                  rw [holds_pop st _ hst2off hst2bl b e hb']
                  exact hgot b e (by omega))
                (by rw [hst2off, hst2bl]; simp; omega) (by rw [hst2off]; omega) (by rw [hst2off]; exact h)
              rw [hst2off] at this
              obtain ⟨hok, hres⟩ := this
              refine ⟨hok, ?_⟩
              rcases hres with ⟨hl, hfl⟩ | ⟨hl, hco⟩
              · refine .inl ⟨hl, hfl.state, by have := hfl.ge; rw [hst2off] at this; omega, hfl.off, ?_, hfl.simf, hfl.bw,
                  hframe.trans hfl.frame, fun g hg => (hfl.cnt g hg).trans (hcnt1 g hg), hfl.head⟩
                rw [hfl.blocks, hst2bl, hst2off]
                have hge := hfl.ge
                rw [hst2off] at hge
                rw [List.drop_tail]
                congr 1
                omega
              · exact .inr ⟨hl, hco.state, hco.cache, hco.blocks, fun g hg => by rw [hco.cnt g hg, hcnt1 g hg]⟩
      · -- the head block is not complete: nothing to write
        have hcomp' : blk.completed = false := by simpa using hcomp
        rw [if_pos (by simp [hcomp'])] at h
        simp at h
        obtain ⟨rfl, rfl⟩ := h
        refine hstopres ?_ (fun blk' hb' => by rw [hb] at hb'; cases hb'; exact hcomp')
        apply advance_stop
        intro _
        rw [blockDone_head Z hZ st got hgot hoffn, hb]
        dsimp only
        rw [← hBlk.comp]; exact hcomp'

/-! ### `write_blocks(0)` at attach  ~  `Session.settle` - the hypothesis `Steps.flush0_step`, DISCHARGED -/

theorem holds_drop (st st1 : St) (k : Nat) (hoff : st1.blocksOffset = st.blocksOffset + k) (hbl : st1.blocks = st.blocks.drop k)
    (b e : Nat) : holds st1 b e ↔ (holds st b e ∧ st.blocksOffset + k ≤ b) := by
  unfold holds
  rw [hoff, hbl]
  constructor
  · rintro ⟨h0, blk, d, h1, h2, h3⟩
    refine ⟨⟨by omega, blk, d, ?_, h2, h3⟩, h0⟩
    rw [List.getElem?_drop] at h1
    rw [show b - st.blocksOffset = k + (b - (st.blocksOffset + k)) by omega]
    exact h1
  · rintro ⟨⟨_, blk, d, h1, h2, h3⟩, h0⟩
    refine ⟨h0, blk, d, ?_, h2, h3⟩
    rw [List.getElem?_drop]
    rw [show b - st.blocksOffset = k + (b - (st.blocksOffset + k)) by omega] at h1
    exact h1

/-- from the outcome of the loop of `write_blocks` to the step relation with `Session.settle` -/
theorem stepout_of_flush (Z : Setting) (hZ : Z.OK) (st st1 : St) (os : Session.OState) (rx : Session.ORx)
    (hr : RelB Z st os) (hsim : SimB Z st rx) (hatt : rx.attached = true)
    (hres : (Session.advance Z.dec Z.oc.ks Z.oc.p rx.got (Z.oc.ks.size + 1) st.blocksOffset < Z.S.n ∧
          Flushed Z st st1 (Session.advance Z.dec Z.oc.ks Z.oc.p rx.got (Z.oc.ks.size + 1) st.blocksOffset)) ∨
       (Session.advance Z.dec Z.oc.ks Z.oc.p rx.got (Z.oc.ks.size + 1) st.blocksOffset = Z.S.n ∧ Completed st st1)) :
    StepOut Z st st1 (Session.finish Z.oc os (Session.settle Z.dec Z.oc rx)) := by
  have hwrit : rx.written = st.blocksOffset := hsim.written
  generalize hwF : Session.advance Z.dec Z.oc.ks Z.oc.p rx.got (Z.oc.ks.size + 1) st.blocksOffset = wF at hres
  have hS : Session.settle Z.dec Z.oc rx =
      { rx := { rx with written := wF, got := rx.got.filter (fun x => wF ≤ x.1) },
        term := if wF ≥ Z.oc.ks.size then .completed else .receiving } := by
    rw [← hwF]; simp [Session.settle, hatt, hwrit]
  rw [hS]
  have gO : ∀ s d o, isOpenOk (.write s d o) = false := fun _ _ _ => rfl
  have gC : ∀ s d o, isComplete (.write s d o) = false := fun _ _ _ => rfl
  have gE : ∀ s d o, isError (.write s d o) = false := fun _ _ _ => rfl
  have gI : ∀ s d o, isInterrupted (.write s d o) = false := fun _ _ _ => rfl
  have hsz := hZ.nblocks
  rcases hres with ⟨hlt, hfl⟩ | ⟨heq, hco⟩
  · -- still receiving
    have hterm : ¬ (wF ≥ Z.oc.ks.size) := by omega
    rw [if_neg hterm]
    have hge := hfl.ge
    have hoff1 : st1.blocksOffset = st.blocksOffset + (wF - st.blocksOffset) := by rw [hfl.off]; omega
    refine ⟨⟨fun _ => ⟨{ rx with written := wF, got := rx.got.filter (fun x => wF ≤ x.1) }, by simp [Session.finish], ?_⟩,
        fun hh => absurd hfl.state hh, ?_, ?_, ?_, ?_⟩,
      fun _ => ⟨hfl.frame.cache, hfl.frame.cacheSize⟩, fun hh => absurd hfl.state hh,
      fun _ _ => hfl.head⟩
    · refine ⟨by rw [hfl.frame.oti]; exact hsim.oti, by rw [hfl.frame.fdtId]; exact hsim.att,
        fun hh => by rw [hfl.frame.writer]; rw [hfl.frame.fdtId] at hh; exact hsim.wr hh, hfl.off.symm, ?_,
        hsim.nodup.sublist List.filter_sublist, by rw [hfl.frame.maxSize]; exact hsim.maxSz,
        fun hh => by rw [hfl.frame.oti]; rw [hfl.frame.fdtId] at hh; exact hsim.attOti hh, ?_, ?_,
        by rw [hfl.frame.md5]; exact hsim.md5, hfl.simf⟩
      · intro b e
        rw [holds_drop st st1 (wF - st.blocksOffset) hoff1 hfl.blocks b e, ← hsim.got b e]
        simp only [List.mem_filter, decide_eq_true_eq]
        constructor
        · rintro ⟨h1, h2⟩; exact ⟨h1, by omega⟩
        · rintro ⟨h1, h2⟩; exact ⟨h1, by omega⟩
      · intro ho hn'
        rw [hfl.frame.oti] at ho
        have := hsim.tbl ho hn'
        unfold St.nbBlock at this ⊢
        rw [hfl.off, hfl.blocks, List.length_drop]
        omega
      · intro ho
        rw [hfl.frame.oti] at ho
        rw [hfl.frame.aLarge, hfl.frame.aSmall, hfl.frame.nbALarge, hfl.frame.nbBlocks]
        exact hsim.quad ho
    · simp [Session.finish, hfl.cnt _ gO, hr.opens]
    · simp [Session.finish, hfl.cnt _ gC, hr.completes]
    · simp [Session.finish, hfl.cnt _ gE, hr.errors]
    · simp [Session.finish, hfl.cnt _ gI, hr.interrupts]
  · -- all blocks written: complete
    have hterm : wF ≥ Z.oc.ks.size := by omega
    rw [if_pos hterm]
    have hns : st1.state ≠ .receiving := by rw [hco.state]; simp
    refine ⟨⟨fun hh => absurd hh hns, fun _ => by simp [Session.finish], ?_, ?_, ?_, ?_⟩,
      fun hh => absurd hh hns, fun _ => ⟨hco.cache, hco.blocks⟩, fun hh => absurd hh hns⟩
    · simp [Session.finish, hco.cnt _ gO, isOpenOk, hr.opens]
    · simp [Session.finish, hco.cnt _ gC, isComplete, hr.completes, hatt]; omega
    · simp [Session.finish, hco.cnt _ gE, isError, hr.errors]
    · simp [Session.finish, hco.cnt _ gI, isInterrupted, hr.interrupts]


theorem flush0_thm (Z : Setting) (hZ : Z.OK) (st st1 : St) (ok : Bool) (os : Session.OState) (rx : Session.ORx)
    (hg : Good Z st) (hr : RelB Z st os) (hrec : st.state = .receiving) (hobj : os.obj = some rx) (hsim : SimB Z st rx)
    (hatt : rx.attached = true) (hn : Z.S.n ≠ 0) (hc : st.cache = []) (hoff : st.blocksOffset = 0 ∨ Head st)
    (h : writeBlocks Z.P st 0 = .ok (st1, ok)) :
    StepOut Z st (if ok then st1 else error st1 false) (Session.finish Z.oc os (Session.settle Z.dec Z.oc rx)) := by
  have hfd : st.fdtId.isSome = true := by rw [← hsim.att]; exact hatt
  have hwr : st.writer = some .opened := hsim.wr hfd
  have hTl : Z.S.T.length ≠ 0 := by have := hZ.preLt 0 (by omega); omega
  obtain ⟨w, hw⟩ : ∃ w, st.bw = some w := by
    obtain ⟨T, C, h1, _, _, h4⟩ := (hg.jinv.opened hwr).ex
    have hT : T = Z.S.T.length := by
      cases hg.ginv.tl with
      | inl h2 => rw [h2] at h1; cases h1
      | inr h2 => rw [h2] at h1; cases h1; rfl
    obtain ⟨w, hw, _⟩ := h4 (by rw [hT]; exact hTl)
    exact ⟨w, hw⟩
  have hW := hsim.f.bw w hw
  have hoffn : st.blocksOffset < Z.S.n := by
    apply Classical.byContradiction
    intro hcn
    have hroom := hg.ginv.room
    have : st.blocksOffset = Z.S.n := by omega
    have h1 := hW.left; have h2 := hW.pos
    rw [hW.sbn, this, hZ.laws.preN] at h1
    omega
  -- the flush itself
  have hmain : ok = true ∧
      ((Session.advance Z.dec Z.oc.ks Z.oc.p rx.got (Z.oc.ks.size + 1) st.blocksOffset < Z.S.n ∧
          Flushed Z st st1 (Session.advance Z.dec Z.oc.ks Z.oc.p rx.got (Z.oc.ks.size + 1) st.blocksOffset)) ∨
       (Session.advance Z.dec Z.oc.ks Z.oc.p rx.got (Z.oc.ks.size + 1) st.blocksOffset = Z.S.n ∧ Completed st st1)) := by
    unfold writeBlocks at h
    simp only [hwr, hw] at h
    rw [if_neg (by simp)] at h
    by_cases h0 : st.blocksOffset = 0
    · have h' : writeLoop Z.P (st.blocks.length + 1) st st.blocksOffset = .ok (st1, ok) := by rw [h0]; exact h
      exact flush_loop Z hZ st.blocks.length st st1 ok rx.got (Z.oc.ks.size + 1) (Nat.le_refl _) hrec hwr hsim.md5 hsim.f ⟨w, hw⟩
        hg.ginv.blocks (fun b e _ => hsim.got b e) hg.ginv.room (by rw [hZ.nblocks]; omega) h'
    · have hhd : Head st := hoff.resolve_left h0
      unfold writeLoop at h
      rw [if_pos (by omega)] at h
      simp at h
      obtain ⟨rfl, rfl⟩ := h
      have hstop : Session.advance Z.dec Z.oc.ks Z.oc.p rx.got (Z.oc.ks.size + 1) st.blocksOffset = st.blocksOffset := by
        apply advance_stop
        intro _
        rw [blockDone_head Z hZ st rx.got (fun b e _ => hsim.got b e) hoffn]
        cases hb : st.blocks[0]? with
        | none => rfl
        | some blk =>
          dsimp only
          have := (hsim.f.blk 0 blk hb).comp
          rw [Nat.add_zero] at this
          rw [← this]; exact hhd hwr blk hb
      rw [hstop]
      exact ⟨rfl, .inl ⟨hoffn, hrec, Nat.le_refl _, rfl, by simp, hsim.f, by simp [hw], Frame.refl _, fun _ _ => rfl, hhd hwr⟩⟩
  obtain ⟨rfl, hres⟩ := hmain
  simp only [if_true]
  exact stepout_of_flush Z hZ st st1 os rx hr hsim hatt hres

/-! ### the step lemmas from the block path (itself a theorem: `blockStep_of_contract`, Lemmas/SessionBlock.lean) -/

/-- the block path `push_to_block2 ~ pushCore` (statement of `Steps.block2B_step`); PROVED under the codec contract `CodecDec`:
    `blockStep_of_contract` (Lemmas/SessionBlock.lean) -/
def BlockStep (Z : Setting) : Prop :=
  ∀ (st st1 : St) (b : Bool) (os : Session.OState) (rx : Session.ORx) (p : Pkt) (s : Session.Sym),
    Good Z st → RelB Z st os → st.state = .receiving → os.obj = some rx → SimB Z st rx → Head st → GenEv Z p s →
    st.oti.isSome = true → Z.S.n ≠ 0 → pushToBlock2 Z.P st p = .ok (st1, b) →
    StepOut Z st (if b then st1 else error st1 false) (Session.finish Z.oc os (Session.pushCore Z.dec Z.rc Z.oc rx s))

theorem steps_of_block (Z : Setting) (hZ : Z.OK) (hb : BlockStep Z) : Steps Z :=
  ⟨hb, fun st st1 ok os rx hg hr hrec hobj hsim hatt hn hc hoff h =>
    flush0_thm Z hZ st st1 ok os rx hg hr hrec hobj hsim hatt hn hc hoff h⟩

end Flute.Link
