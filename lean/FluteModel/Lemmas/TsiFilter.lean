import FluteModel.Lemmas.AL
import FluteModel.Spec.RefCount
/- refinement: the two-level counted maps of `TSIFilter` represent the saturating reference counters -/
namespace Flute.TsiFilter
open Flute Flute.Spec.RefCount

/-- a counter value as stored in a counted map: absent iff 0 -/
def toOpt (n : Nat) : Option Nat := if n = 0 then none else some n

theorem toOpt_eq_none {n : Nat} : toOpt n = none ↔ n = 0 := by
  unfold toOpt; split <;> simp_all

theorem toOpt_eq_some {n c : Nat} : toOpt n = some c ↔ (n = c ∧ c ≠ 0) := by
  unfold toOpt; split <;> simp_all <;> omega

theorem toOpt_isSome {n : Nat} : (toOpt n).isSome = true ↔ n > 0 := by
  unfold toOpt; split <;> simp_all; omega

/-- the counted map `m` represents the counter family `c` -/
def Rep {κ : Type} [DecidableEq κ] (m : List (κ × Nat)) (c : κ → Nat) : Prop :=
  ∀ x, AL.get m x = toOpt (c x)

theorem rep_nil {κ : Type} [DecidableEq κ] : Rep ([] : List (κ × Nat)) (fun _ => 0) := by
  intro x; simp [toOpt]

theorem cmAdd_rep {κ : Type} [DecidableEq κ] (m : List (κ × Nat)) (c : κ → Nat) (k : κ)
    (h : Rep m c) (hb : c k + 1 < 2 ^ 64) :
    ∃ m', cmAdd m k = .ok m' ∧ Rep m' (step c (.add k)) := by
  unfold cmAdd
  have hk := h k
  cases hg : AL.get m k with
  | none =>
    refine ⟨_, rfl, ?_⟩
    rw [hg] at hk
    have hc : c k = 0 := toOpt_eq_none.1 hk.symm
    intro x
    rw [AL.get_set]
    simp only [step]
    by_cases hx : x = k
    · subst hx; simp [hc, toOpt]
    · simp [hx, h x]
  | some v =>
    rw [hg] at hk
    have hc := toOpt_eq_some.1 hk.symm
    have hlt : v + 1 < 2 ^ 64 := by omega
    simp only [hlt, ↓reduceIte]
    refine ⟨_, rfl, ?_⟩
    intro x
    rw [AL.get_set]
    simp only [step]
    by_cases hx : x = k
    · subst hx; simp [hc.1, toOpt]
    · simp [hx, h x]

theorem cmRemove_rep {κ : Type} [DecidableEq κ] (m : List (κ × Nat)) (c : κ → Nat) (k : κ)
    (h : Rep m c) : Rep (cmRemove m k) (step c (.remove k)) := by
  unfold cmRemove
  have hk := h k
  cases hg : AL.get m k with
  | none =>
    rw [hg] at hk
    have hc : c k = 0 := toOpt_eq_none.1 hk.symm
    intro x
    simp only [step]
    by_cases hx : x = k
    · subst hx; simp [hc, hg, toOpt]
    · simp [hx, h x]
  | some v =>
    rw [hg] at hk
    have hc := toOpt_eq_some.1 hk.symm
    simp only
    split
    · rename_i hv
      intro x
      rw [AL.get_set]
      simp only [step]
      by_cases hx : x = k
      · subst hx
        have : ¬ v - 1 = 0 := by omega
        simp [hc.1, toOpt, this]
      · simp [hx, h x]
    · rename_i hv
      intro x
      rw [AL.get_del]
      simp only [step]
      by_cases hx : x = k
      · subst hx
        have : c x - 1 = 0 := by omega
        simp [toOpt, this]
      · simp [hx, h x]

/-- two-level lookup `tsi ↦ endpoint ↦ count` -/
def lookup2 (f : Filter) (tsi : Nat) (ep : Endpoint) : Option Nat :=
  match AL.get f.tsi tsi with
  | some t => AL.get t ep
  | none => none

/-- the filter represents the two counter families -/
def FRep (f : Filter) (c : Endpoint × Nat → Nat) (b : Endpoint → Nat) : Prop :=
  Rep f.bypass b ∧ ∀ tsi ep, lookup2 f tsi ep = toOpt (c (ep, tsi))

theorem frep_new : FRep Filter.new (fun _ => 0) (fun _ => 0) := by
  refine ⟨rep_nil, ?_⟩
  intro tsi ep; simp [lookup2, Filter.new, toOpt]

theorem add_frep (f : Filter) (c : Endpoint × Nat → Nat) (b : Endpoint → Nat) (ep : Endpoint) (tsi : Nat)
    (h : FRep f c b) (hb : c (ep, tsi) + 1 < 2 ^ 64) :
    ∃ f', add f ep tsi = .ok f' ∧ FRep f' (step c (.add (ep, tsi))) b := by
  unfold add
  cases hg : AL.get f.tsi tsi with
  | none =>
    refine ⟨_, rfl, h.1, ?_⟩
    intro tsi' ep'
    have h2 := h.2 tsi' ep'
    simp only [lookup2, AL.get_set] at h2 ⊢
    simp only [step]
    by_cases ht : tsi' = tsi
    · subst ht
      rw [hg] at h2
      have hc : c (ep', tsi') = 0 := toOpt_eq_none.1 h2.symm
      by_cases he : ep' = ep
      · subst he; simp [AL.get, hc, toOpt]
      · have : ¬ ep = ep' := fun x => he x.symm
        simp [AL.get, he, this, hc, toOpt]
    · have : ¬ (ep', tsi') = (ep, tsi) := by simp [ht]
      simp only [ht, ↓reduceIte, this]
      exact h2
  | some t =>
    have hrep : Rep t (fun e => c (e, tsi)) := by
      intro e
      have := h.2 tsi e
      simp only [lookup2, hg] at this
      exact this
    obtain ⟨t', ht', hrep'⟩ := cmAdd_rep t (fun e => c (e, tsi)) ep hrep hb
    simp only [ht']
    refine ⟨_, rfl, h.1, ?_⟩
    intro tsi' ep'
    have h2 := h.2 tsi' ep'
    simp only [lookup2, AL.get_set] at h2 ⊢
    by_cases ht : tsi' = tsi
    · subst ht
      simp only [↓reduceIte]
      rw [hrep' ep']
      simp only [step]
      by_cases he : ep' = ep
      · subst he; simp
      · simp [he]
    · have : ¬ (ep', tsi') = (ep, tsi) := by simp [ht]
      simp only [ht, ↓reduceIte, step, this]
      exact h2

theorem remove_frep (f : Filter) (c : Endpoint × Nat → Nat) (b : Endpoint → Nat) (ep : Endpoint) (tsi : Nat)
    (h : FRep f c b) : FRep (remove f ep tsi) (step c (.remove (ep, tsi))) b := by
  unfold remove
  cases hg : AL.get f.tsi tsi with
  | none =>
    refine ⟨h.1, ?_⟩
    intro tsi' ep'
    have h2 := h.2 tsi' ep'
    simp only [step]
    by_cases hk : (ep', tsi') = (ep, tsi)
    · simp only [Prod.mk.injEq] at hk
      obtain ⟨he, ht⟩ := hk; subst he; subst ht
      simp only [lookup2, hg] at h2 ⊢
      have hc : c (ep', tsi') = 0 := toOpt_eq_none.1 h2.symm
      simp [hc, toOpt]
    · simp only [hk, ↓reduceIte]; exact h2
  | some t =>
    have hrep : Rep t (fun e => c (e, tsi)) := by
      intro e
      have := h.2 tsi e
      simp only [lookup2, hg] at this
      exact this
    have hrep' := cmRemove_rep t (fun e => c (e, tsi)) ep hrep
    simp only
    split
    · rename_i hemp
      refine ⟨h.1, ?_⟩
      intro tsi' ep'
      have h2 := h.2 tsi' ep'
      simp only [lookup2, AL.get_del] at h2 ⊢
      by_cases ht : tsi' = tsi
      · subst ht
        simp only [↓reduceIte]
        have h3 := hrep' ep'
        have hnil : cmRemove t ep = [] := by simpa using hemp
        rw [hnil] at h3
        simp only [AL.get_nil] at h3
        rw [h3]
        simp only [step]
        by_cases he : ep' = ep
        · subst he; simp
        · simp [he]
      · have : ¬ (ep', tsi') = (ep, tsi) := by simp [ht]
        simp only [ht, ↓reduceIte, step, this]
        exact h2
    · refine ⟨h.1, ?_⟩
      intro tsi' ep'
      have h2 := h.2 tsi' ep'
      simp only [lookup2, AL.get_set] at h2 ⊢
      by_cases ht : tsi' = tsi
      · subst ht
        simp only [↓reduceIte]
        rw [hrep' ep']
        simp only [step]
        by_cases he : ep' = ep
        · subst he; simp
        · simp [he]
      · have : ¬ (ep', tsi') = (ep, tsi) := by simp [ht]
        simp only [ht, ↓reduceIte, step, this]
        exact h2

theorem addBypass_frep (f : Filter) (c : Endpoint × Nat → Nat) (b : Endpoint → Nat) (ep : Endpoint)
    (h : FRep f c b) (hb : b ep + 1 < 2 ^ 64) :
    ∃ f', addEndpointBypass f ep = .ok f' ∧ FRep f' c (step b (.add ep)) := by
  unfold addEndpointBypass
  obtain ⟨m', hm', hrep'⟩ := cmAdd_rep f.bypass b ep h.1 hb
  simp only [hm']
  exact ⟨_, rfl, hrep', h.2⟩

theorem removeBypass_frep (f : Filter) (c : Endpoint × Nat → Nat) (b : Endpoint → Nat) (ep : Endpoint)
    (h : FRep f c b) : FRep (removeEndpointBypass f ep) c (step b (.remove ep)) :=
  ⟨cmRemove_rep f.bypass b ep h.1, h.2⟩

theorem isValid_frep (f : Filter) (c : Endpoint × Nat → Nat) (b : Endpoint → Nat) (h : FRep f c b)
    (ep : Endpoint) (tsi : Nat) :
    isValid f ep tsi = true ↔ (b ep > 0 ∨ c (ep, tsi) > 0 ∨ c (ep.noSrc, tsi) > 0) := by
  unfold isValid
  have hb := h.1 ep
  have h1 := h.2 tsi ep
  have h2 := h.2 tsi ep.noSrc
  simp only [lookup2] at h1 h2
  rw [hb]
  by_cases hbe : b ep > 0
  · have : (toOpt (b ep)).isSome = true := toOpt_isSome.2 hbe
    simp [this, hbe]
  · have hb0 : b ep = 0 := by omega
    have : (toOpt (b ep)).isSome = false := by simp [hb0, toOpt]
    simp only [this, Bool.false_eq_true, ↓reduceIte, hbe, false_or]
    cases hg : AL.get f.tsi tsi with
    | none =>
      rw [hg] at h1 h2
      have := toOpt_eq_none.1 h1.symm
      have := toOpt_eq_none.1 h2.symm
      simp; omega
    | some t =>
      rw [hg] at h1 h2
      simp only [tsiIsValid, h1, h2]
      have e1 := @toOpt_isSome (c (ep, tsi))
      have e2 := @toOpt_isSome (c (ep.noSrc, tsi))
      by_cases hc1 : c (ep, tsi) > 0
      · simp [e1.2 hc1, hc1]
      · have : (toOpt (c (ep, tsi))).isSome = false := by
          have : c (ep, tsi) = 0 := by omega
          simp [this, toOpt]
        simp only [this, Bool.false_eq_true, ↓reduceIte, hc1, false_or]
        exact e2

/-- counters grow by at most one per operation -/
theorem cntFrom_le {κ : Type} [DecidableEq κ] (ops : List (Op κ)) (c : κ → Nat) (x : κ) :
    cntFrom c ops x ≤ c x + ops.length := by
  induction ops generalizing c with
  | nil => simp [cntFrom]
  | cons op r ih =>
    have := ih (step c op)
    simp only [cntFrom, List.length_cons]
    cases op with
    | add k => simp only [step] at this ⊢; split at this <;> omega
    | remove k => simp only [step] at this ⊢; split at this <;> omega

theorem run_frep (ops : List FOp) (f : Filter) (c : Endpoint × Nat → Nat) (b : Endpoint → Nat)
    (h : FRep f c b) (hc : ∀ x, c x + ops.length < 2 ^ 64) (hb : ∀ x, b x + ops.length < 2 ^ 64) :
    ∃ f', run f ops = .ok f' ∧ FRep f' (cntFrom c (tsiOps ops)) (cntFrom b (bypassOps ops)) := by
  induction ops generalizing f c b with
  | nil => exact ⟨f, rfl, h⟩
  | cons op r ih =>
    simp only [List.length_cons] at hc hb
    cases op with
    | add ep tsi =>
      obtain ⟨f', hf', hrep'⟩ := add_frep f c b ep tsi h (by have := hc (ep, tsi); omega)
      simp only [run, applyOp, hf', tsiOps, bypassOps, cntFrom]
      apply ih f' _ b hrep'
      · intro x; have := hc x; simp only [step]; split <;> omega
      · intro x; have := hb x; omega
    | remove ep tsi =>
      have hrep' := remove_frep f c b ep tsi h
      simp only [run, applyOp, tsiOps, bypassOps, cntFrom]
      apply ih _ _ b hrep'
      · intro x; have := hc x; simp only [step]; split <;> omega
      · intro x; have := hb x; omega
    | addAll ep =>
      obtain ⟨f', hf', hrep'⟩ := addBypass_frep f c b ep h (by have := hb ep; omega)
      simp only [run, applyOp, hf', tsiOps, bypassOps, cntFrom]
      apply ih f' c _ hrep'
      · intro x; have := hc x; omega
      · intro x; have := hb x; simp only [step]; split <;> omega
    | removeAll ep =>
      have hrep' := removeBypass_frep f c b ep h
      simp only [run, applyOp, tsiOps, bypassOps, cntFrom]
      apply ih _ c _ hrep'
      · intro x; have := hc x; omega
      · intro x; have := hb x; simp only [step]; split <;> omega

end Flute.TsiFilter

namespace Flute.TsiFilter
open Flute Flute.Spec.RefCount

/-- a counter that has reached `u64::MAX` makes the next `add` panic -/
theorem add_overflow (f : Filter) (c : Endpoint × Nat → Nat) (b : Endpoint → Nat) (ep : Endpoint) (tsi : Nat)
    (h : FRep f c b) (hc : c (ep, tsi) = 2 ^ 64 - 1) : add f ep tsi = .error "add overflow" := by
  have h2 := h.2 tsi ep
  rw [hc] at h2
  unfold add
  simp only [lookup2] at h2
  cases hg : AL.get f.tsi tsi with
  | none => rw [hg] at h2; simp [toOpt] at h2
  | some t =>
    rw [hg] at h2
    simp only [toOpt] at h2
    simp only [cmAdd, h2]
    simp

theorem run_append (f : Filter) (xs ys : List FOp) :
    run f (xs ++ ys) = match run f xs with
      | .ok f' => run f' ys
      | .error w => .error w := by
  induction xs generalizing f with
  | nil => simp [run]
  | cons x r ih =>
    simp only [List.cons_append, run]
    cases applyOp f x with
    | ok f' => exact ih f'
    | error w => rfl

theorem cntFrom_replicate_add {κ : Type} [DecidableEq κ] (n : Nat) (c : κ → Nat) (k : κ) :
    cntFrom c (List.replicate n (Op.add k)) k = c k + n := by
  induction n generalizing c with
  | zero => simp [cntFrom]
  | succ m ih =>
    simp only [List.replicate_succ, cntFrom]
    rw [ih]; simp [step]; omega

theorem tsiOps_replicate_add (n : Nat) (ep : Endpoint) (tsi : Nat) :
    tsiOps (List.replicate n (FOp.add ep tsi)) = List.replicate n (Op.add (ep, tsi)) := by
  induction n with
  | zero => rfl
  | succ m ih => simp [List.replicate_succ, tsiOps, ih]

/-- `n + 1 = 2^64` adds of the same target: the last one overflows -/
theorem run_replicate_add_overflow (n : Nat) (hn : n = 2 ^ 64 - 1) (ep : Endpoint) (tsi : Nat) :
    run Filter.new (List.replicate (n + 1) (FOp.add ep tsi)) = .error "add overflow" := by
  rw [List.replicate_succ', run_append]
  obtain ⟨f, hf, hrep⟩ := run_frep (List.replicate n (FOp.add ep tsi)) Filter.new (fun _ => 0) (fun _ => 0)
    frep_new (by intro x; rw [List.length_replicate]; omega) (by intro x; rw [List.length_replicate]; omega)
  rw [hf]
  have hc : cntFrom (fun _ => 0) (tsiOps (List.replicate n (FOp.add ep tsi))) (ep, tsi) = 2 ^ 64 - 1 := by
    rw [tsiOps_replicate_add, cntFrom_replicate_add]; omega
  simp only [run, applyOp, add_overflow f _ _ ep tsi hrep hc]

end Flute.TsiFilter
