import FluteModel.Lemmas.BencSession
import FluteModel.Lemmas.BencSim
/-
  Source independence at SESSION level (the function the driver runs, `Session.runLoop`): a session whose object is
  supplied as a stream (any position, any schedule) and the session with the same bytes in a buffer return the same
  results call by call, through transfer ends, new transfers (each with its own `closabled_object`), forced stops,
  removals and clock advances.
-/
namespace Flute.BencSessionSim
open Flute Flute.Fec Flute.BlockEnc Flute.BencBlocks Flute.BencInv Flute.BencTrace Flute.BencShape Flute.BencSim
open Flute.BencSession

/-- buffer session `xb` ~ stream session `xs` -/
structure SSim (c : Bytes) (xb xs : Session) : Prop where
  P : xs.P = xb.P
  srcb : xb.src = .buffer c
  srcs : ∃ st, xs.src = .stream st ∧ st.bytes = c
  maxtc : xs.maxtc = xb.maxtc
  carousel : xs.carousel = xb.carousel
  allowStop : xs.allowStop = xb.allowStop
  count : xs.count = xb.count
  total : xs.total = xb.total
  added : xs.added = xb.added
  queued : xs.queued = xb.queued
  now : xs.now = xb.now
  lastEnd : xs.lastEnd = xb.lastEnd
  enc : (xb.enc = none ∧ xs.enc = none) ∨ ∃ eb es, xb.enc = some eb ∧ xs.enc = some es ∧ Sim c eb es

variable {c : Bytes} {aL aS nL n : Nat}

/-- closes the field goals of an `SSim` between two updated sessions from an `SSim` of the sessions they were built from -/
macro "ssim_fields" h:ident : tactic => `(tactic|
  (first | rfl | exact ($h).P | exact ($h).srcb | exact ($h).srcs | exact ($h).maxtc | exact ($h).carousel
         | exact ($h).allowStop | exact ($h).count | exact ($h).total | exact ($h).added | exact ($h).queued
         | exact ($h).now | exact ($h).lastEnd | exact ($h).enc))

theorem ssim_derived {xb xs : Session} (h : SSim c xb xs) :
    xs.shouldTransferNow = xb.shouldTransferNow ∧ xs.mustStop = xb.mustStop ∧ xs.isLastTransfer = xb.isLastTransfer ∧
    xs.isExpired = xb.isExpired := by
  unfold Session.shouldTransferNow Session.mustStop Session.isLastTransfer Session.isExpired
  rw [h.maxtc, h.count, h.carousel, h.lastEnd, h.now, h.allowStop, h.total, h.added]
  exact ⟨rfl, rfl, rfl, rfl⟩

theorem ssim_start {xb xs : Session} (h : SSim c xb xs) : SSim c xb.start xs.start := by
  have hcs : (xs.count == xs.maxtc && xs.carousel) = (xb.count == xb.maxtc && xb.carousel) := by
    rw [h.count, h.maxtc, h.carousel]
  unfold Session.start
  simp only [hcs]
  by_cases hc : (xb.count == xb.maxtc && xb.carousel) = true
  · simp only [hc, if_true]
    constructor <;> ssim_fields h
  · simp only [hc, Bool.false_eq_true, if_false]
    constructor <;> ssim_fields h

/-- `get_next` on both sides -/
theorem ssim_getNext {xb xs : Session} (h : SSim c xb xs) (hg : SGood c aL aS nL n xb) :
    (∃ w, xb.getNext = .error w ∧ xs.getNext = .error w) ∨
    ∃ yb ys, xb.getNext = .ok yb ∧ xs.getNext = .ok ys ∧ SSim c yb ys := by
  unfold Session.getNext
  rcases h.enc with ⟨h1, h2⟩ | ⟨eb, es, h1, h2, _⟩
  · rw [h1, h2]
    simp only
    obtain ⟨d1, _, d3, _⟩ := ssim_derived h
    rw [h.queued, d1]
    by_cases hq : (xb.queued && xb.shouldTransferNow) = true
    · simp only [hq, if_true]
      have hs := ssim_start h
      obtain ⟨_, _, d3', _⟩ := ssim_derived hs
      rw [hs.P, d3']
      obtain ⟨st, hst, hbytes⟩ := hs.srcs
      rw [hs.srcb, hst]
      cases hb : Enc.new xb.start.P (.buffer c) xb.start.isLastTransfer with
      | error w =>
        left
        have : Enc.new xb.start.P (.stream st) xb.start.isLastTransfer = .error w := by
          unfold Enc.new at hb ⊢
          simp only at hb ⊢
          cases hp : Partition.blockPartitioning xb.start.P.b xb.start.P.len xb.start.P.e with
          | error w' => rw [hp] at hb; simp only at hb ⊢; exact hb
          | ok q => rw [hp] at hb; obtain ⟨a1, a2, a3, a4⟩ := q; cases hb
        rw [this]; exact ⟨w, rfl, rfl⟩
      | ok eb =>
        right
        have hex : ∃ es, Enc.new xb.start.P (.stream st) xb.start.isLastTransfer = .ok es := by
          unfold Enc.new at hb ⊢
          simp only at hb ⊢
          cases hp : Partition.blockPartitioning xb.start.P.b xb.start.P.len xb.start.P.e with
          | error w' => rw [hp] at hb; cases hb
          | ok q => obtain ⟨a1, a2, a3, a4⟩ := q; exact ⟨_, rfl⟩
        obtain ⟨es, hes⟩ := hex
        rw [hes]
        have hsim := sim_init hbytes hb hes
        refine ⟨_, _, rfl, rfl, ?_⟩
        constructor
        case enc => exact Or.inr ⟨eb, es, rfl, rfl, hsim⟩
        case srcs => exact ⟨st, rfl, hbytes⟩
        all_goals ssim_fields hs
    · simp only [hq, Bool.false_eq_true, if_false]
      exact Or.inr ⟨xb, xs, rfl, rfl, h⟩
  · rw [h1, h2]
    exact Or.inr ⟨xb, xs, rfl, rfl, h⟩

/-- `Sender::read` on both sides: same result, related sessions -/
theorem ssim_runLoop : ∀ (fuel : Nat) (xb xs : Session), SSim c xb xs → SGood c aL aS nL n xb →
    (Session.runLoop fuel xb).1 = (Session.runLoop fuel xs).1 ∧
    SSim c (Session.runLoop fuel xb).2 (Session.runLoop fuel xs).2 := by
  intro fuel
  induction fuel with
  | zero => intro xb xs h _; exact ⟨rfl, h⟩
  | succ fuel ih =>
    intro xb xs h hg
    unfold Session.runLoop
    rcases ssim_getNext h hg with ⟨w, e1, e2⟩ | ⟨yb, ys, e1, e2, hy⟩
    · rw [e1, e2]; exact ⟨rfl, h⟩
    · rw [e1, e2]
      simp only
      have hgy := getNext_good hg e1
      rcases hy.enc with ⟨h1, h2⟩ | ⟨eb, es, h1, h2, hsim⟩
      · rw [h1, h2]; exact ⟨rfl, hy⟩
      · rw [h1, h2]
        simp only
        obtain ⟨tr, hrun⟩ := hgy.enc eb h1
        obtain ⟨hI, hT, _, _⟩ := hrun.inv
        obtain ⟨_, d2, _, _⟩ := ssim_derived hy
        rw [hy.P, d2]
        obtain ⟨r1, r2⟩ := sim_read hrun.setup hrun.accepts (tr := pkts tr) yb.mustStop hsim hI hT
        have hnp := Flute.BencNoPanic.run_no_panic hrun yb.mustStop
        have hnh := Flute.BencTerm.read_no_hang hrun.setup hrun.accepts yb.mustStop hI hT
        have hsrcb : ∀ o eb', BlockEnc.read yb.P eb yb.mustStop = (o, eb') → (o = .none) → eb'.src = .buffer c := by
          intro o eb' hrd ho
          obtain ⟨q1, q2⟩ := read_spec hrun.setup hrun.accepts (tr := pkts tr) yb.mustStop hI hT
          by_cases hs : eb.stopped = true
          · rw [q1 hs] at hrd; cases hrd; exact hI.src
          · have hs' : eb.stopped = false := by simpa using hs
            have := q2 hs'
            rw [hrd] at this
            subst ho
            exact this.1.src
        revert r1 r2 hnp hnh hsrcb
        generalize BlockEnc.read yb.P eb yb.mustStop = rb
        generalize BlockEnc.read yb.P es yb.mustStop = rs
        intro r1 r2 hnp hnh hsrcb
        obtain ⟨ob, eb'⟩ := rb
        obtain ⟨os, es'⟩ := rs
        simp only at r1 r2 hnp hnh
        subst r1
        cases ob with
        | panic => exact absurd rfl hnp
        | hang => exact absurd rfl hnh
        | pkt q =>
          refine ⟨rfl, ?_⟩
          constructor
          case enc => exact Or.inr ⟨eb', es', rfl, rfl, r2⟩
          all_goals ssim_fields hy
        | none =>
          simp only
          have hb' := hsrcb .none eb' rfl rfl
          obtain ⟨st', hst', hbytes', _⟩ := r2.srcs
          have hrel : SSim c (yb.release eb') (ys.release es') := by
            have hadd : (!ys.added) = (!yb.added) := by rw [hy.added]
            have hexp : (!({ ys with src := es'.src, enc := none, count := ys.count + 1, total := ys.total + 1, lastEnd := some ys.now } : Session).isExpired) =
                (!({ yb with src := eb'.src, enc := none, count := yb.count + 1, total := yb.total + 1, lastEnd := some yb.now } : Session).isExpired) := by
              unfold Session.isExpired; simp only; rw [hy.maxtc, hy.carousel, hy.count]
            unfold Session.release
            simp only [hadd, hexp]
            have hcnt : ys.count + 1 = yb.count + 1 := by rw [hy.count]
            have htot : ys.total + 1 = yb.total + 1 := by rw [hy.total]
            have hle : some ys.now = some yb.now := by rw [hy.now]
            split
            · constructor
              case srcb => exact hb'
              case srcs => exact ⟨st', hst', hbytes'⟩
              case enc => exact Or.inl ⟨rfl, rfl⟩
              case count => exact hcnt
              case total => exact htot
              case lastEnd => exact hle
              all_goals ssim_fields hy
            · split
              · constructor
                case srcb => exact hb'
                case srcs => exact ⟨st', hst', hbytes'⟩
                case enc => exact Or.inl ⟨rfl, rfl⟩
                case count => exact hcnt
                case total => exact htot
                case lastEnd => exact hle
                all_goals ssim_fields hy
              · constructor
                case srcb => exact hb'
                case srcs => exact ⟨st', hst', hbytes'⟩
                case enc => exact Or.inl ⟨rfl, rfl⟩
                case count => exact hcnt
                case total => exact htot
                case lastEnd => exact hle
                all_goals ssim_fields hy
          have hgrel : SGood c aL aS nL n (yb.release eb') := by
            unfold Session.release
            simp only
            split
            · exact sgood_of_eq hgy hb' rfl (by intro e2 he2; cases he2) (by intro h; cases h)
            · split
              · exact sgood_of_eq hgy hb' rfl (by intro e2 he2; cases he2) (by intro h; cases h)
              · exact sgood_of_eq hgy hb' rfl (by intro e2 he2; cases he2) (by intro h; cases h)
          have hfr : xs.enc.isNone = xb.enc.isNone := by
            rcases h.enc with ⟨q1, q2⟩ | ⟨_, _, q1, q2, _⟩ <;> rw [q1, q2] <;> rfl
          rw [hfr]
          by_cases hfresh : xb.enc.isNone = true
          · simp only [hfresh, if_true]; exact ⟨trivial, hrel⟩
          · simp only [hfresh, Bool.false_eq_true, if_false]; exact ih _ _ hrel hgrel

/-- one API call on both sides -/
theorem ssim_step {xb xs : Session} (h : SSim c xb xs) (hg : SGood c aL aS nL n xb) (op : Op) :
    (sstep xb op).1 = (sstep xs op).1 ∧ SSim c (sstep xb op).2 (sstep xs op).2 := by
  cases op with
  | read =>
    obtain ⟨h1, h2⟩ := ssim_runLoop 4 xb xs h hg
    exact ⟨by show some _ = some _; rw [show xb.read.1 = xs.read.1 from h1], h2⟩
  | remove =>
    refine ⟨rfl, ?_⟩
    unfold sstep Session.remove
    simp only
    have hadd : xs.added = xb.added := h.added
    simp only [hadd]
    split
    · constructor <;> ssim_fields h
    · exact h
  | tick secs =>
    refine ⟨rfl, ?_⟩
    show SSim c (xb.tick secs) (xs.tick secs)
    unfold Session.tick
    constructor
    case now => show xs.now + secs = xb.now + secs; rw [h.now]
    all_goals ssim_fields h

/-- **whole histories**: everything `Sender::read` returns over ANY history of reads, removals and clock advances is the
    same for the stream session and the buffer session -/
theorem ssim_run : ∀ (ops : List Op) (xb xs : Session), SSim c xb xs → SGood c aL aS nL n xb →
    (srun ops xb).1 = (srun ops xs).1 := by
  intro ops
  induction ops with
  | nil => intro xb xs _ _; rfl
  | cons op ops ih =>
    intro xb xs h hg
    obtain ⟨h1, h2⟩ := ssim_step h hg op
    have hg' := step_good hg op
    unfold srun
    rw [← h1]
    cases (sstep xb op).1 with
    | some o => simp only; rw [ih _ _ h2 hg']
    | none => simp only; exact ih _ _ h2 hg'

end Flute.BencSessionSim
