import FluteModel.SchedM
import FluteModel.Lemmas.SchedOut
/-
  Every `StartTransfer` event appended by `read s now ticks` carries the tick looked up in `ticks` (when the object is
  paced), and with the model's own table (`readM` / `runM`, FluteModel/SchedM.lean) that tick is `tickOf` of the object:
  `start_tick_is_tickOf`.  Proved by following `read` through its stages (`runFdt`, `readQueues`, `readQueue`,
  `runFile`, `getNextFile`) with the relation `SR` (what a stage may append to the log, objects keep target and size).
-/
namespace Flute.Sched

/-- what decides whether and how an object is paced -/
def tcore (f : FileDesc) : Nat × Option Target := (f.nSym, f.target)

theorem wantsTick_tcore {f g : FileDesc} (h : tcore f = tcore g) : wantsTick f = wantsTick g := by
  unfold tcore at h
  simp only [Prod.mk.injEq] at h
  unfold wantsTick
  rw [h.1, h.2]

theorem tickOf_tcore {f g : FileDesc} (h : tcore f = tcore g) (now : Nat) : tickOf f now = tickOf g now := by
  unfold tcore at h
  simp only [Prod.mk.injEq] at h
  unfold tickOf
  rw [h.1, h.2]

/-- the tick field a `StartTransfer` event of object `f` carries when its transfer starts with tick `tk` -/
def startTick (f : FileDesc) (tk : Nat) : Option Nat := if wantsTick f then some tk else none

/-- stage relation: objects keep `tcore`; the log grows; every new `StartTransfer` event is at `now`, of an object of the
    pre-state, with the tick of the table -/
structure SR (now : Nat) (ticks : List (Nat × Nat)) (s s' : State) : Prop where
  core : ∀ k, (getF s'.objs k).map tcore = (getF s.objs k).map tcore
  log : ∃ new, s'.log = new ++ s.log ∧ ∀ now' t st tick, Ev.start now' t st tick ∈ new →
    now' = now ∧ ∃ f, getF s.objs t = some f ∧ tick = startTick f (tkGet ticks t)

variable {now : Nat} {ticks : List (Nat × Nat)}

theorem SR.refl (s : State) : SR now ticks s s :=
  ⟨fun _ => rfl, [], rfl, by intro _ _ _ _ h; cases h⟩

theorem SR.trans {a b c : State} (h1 : SR now ticks a b) (h2 : SR now ticks b c) : SR now ticks a c := by
  refine ⟨fun k => (h2.core k).trans (h1.core k), ?_⟩
  obtain ⟨n1, e1, p1⟩ := h1.log
  obtain ⟨n2, e2, p2⟩ := h2.log
  refine ⟨n2 ++ n1, by rw [e2, e1, List.append_assoc], ?_⟩
  intro now' t st tick hm
  rcases List.mem_append.mp hm with hm | hm
  · obtain ⟨q1, f, hf, q2⟩ := p2 now' t st tick hm
    have := h1.core t
    rw [hf] at this
    cases hfa : getF a.objs t with
    | none => rw [hfa] at this; cases this
    | some fa =>
      rw [hfa] at this
      simp only [Option.map_some, Option.some.injEq] at this
      refine ⟨q1, fa, rfl, ?_⟩
      rw [q2]; unfold startTick; rw [wantsTick_tcore this]
  · exact p1 now' t st tick hm

/-- a stage that appends one event which is not a `StartTransfer` -/
theorem SR.one {s s' : State} (e : Ev) (he : ∀ n t st tk, e ≠ Ev.start n t st tk)
    (hc : ∀ k, (getF s'.objs k).map tcore = (getF s.objs k).map tcore) (hl : s'.log = e :: s.log) :
    SR now ticks s s' :=
  ⟨hc, [e], hl, by
    intro now' t st tick hm
    simp only [List.mem_singleton] at hm
    exact absurd hm.symm (he _ _ _ _)⟩

theorem SR.same {s s' : State} (hc : s'.objs = s.objs) (hl : s'.log = s.log) : SR now ticks s s' :=
  ⟨fun k => by rw [hc], [], by rw [hl]; rfl, by intro _ _ _ _ h; cases h⟩

theorem core_of_objs {s s' : State} (h : s'.objs = s.objs) :
    ∀ k, (getF s'.objs k).map tcore = (getF s.objs k).map tcore := fun k => by rw [h]

theorem core_map {s s' : State} (g : FileDesc → FileDesc) (hk : ∀ f, (g f).key = f.key)
    (hn : ∀ f, tcore (g f) = tcore f) (h : s'.objs = s.objs.map g) :
    ∀ k, (getF s'.objs k).map tcore = (getF s.objs k).map tcore := by
  intro k
  rw [h, getF_map _ _ hk]
  cases getF s.objs k with
  | none => rfl
  | some f => simp [hn]

theorem core_updF {s s' : State} (k0 : Nat) (g : FileDesc → FileDesc) (hk : ∀ f, (g f).key = f.key)
    (hn : ∀ f, tcore (g f) = tcore f) (h : s'.objs = Sched.updF s.objs k0 g) :
    ∀ k, (getF s'.objs k).map tcore = (getF s.objs k).map tcore := by
  intro k
  rw [h, getF_updF _ _ _ _ hk]
  split
  · cases getF s.objs k with
    | none => rfl
    | some f => simp [hn]
  · rfl

theorem pubMark_tcoreEq (fs : List Nat) (f : FileDesc) : tcore (pubMark fs f) = tcore f := by
  unfold pubMark; split <;> rfl

theorem sr_publishTry (s : State) (n : Nat) : SR now ticks s (publishTry s n) :=
  publishTry_elim (P := fun x => SR now ticks s x) s n
    (SR.one (Ev.pub n s.fdts.length (pubDesc s).content) (by intro _ _ _ _ h; cases h)
      (core_map (pubMark s.files) (pubMark_key _) (pubMark_tcoreEq _) (publish_objs s n)) (publish_log s n))
    (SR.refl s)

theorem fdtTryStart_objs' (s : State) (n : Nat) : (fdtTryStart s n).1.objs = s.objs := by
  unfold fdtTryStart
  split
  · rfl
  · split
    · rfl
    · split <;> rfl

theorem sr_fdtAdvance (s : State) (n : Nat) : SR now ticks s (fdtAdvance s n) := by
  rcases fdtAdvance_cases s n with ⟨e, _⟩ | ⟨k, f, _, _, _, e⟩
  · rw [e]; exact SR.same (fdtPop_objs s) (fdtPop_log s)
  · rw [e]
    exact (SR.same (fdtPop_objs s) (fdtPop_log s)).trans
      (SR.one (Ev.fdtStart n k) (by intro _ _ _ _ h; cases h) (core_of_objs rfl) rfl)

theorem sr_fdtGetNext (s : State) (n : Nat) : SR now ticks s (fdtGetNext s n) := by
  unfold fdtGetNext
  split
  · exact SR.refl s
  · refine SR.trans ?_ (sr_fdtAdvance _ n)
    unfold fdtMaybePublish
    split
    · exact sr_publishTry s n
    · exact SR.refl s

theorem sr_fdtRelease (s : State) (k n : Nat) : SR now ticks s (fdtRelease s k n) :=
  SR.one (Ev.fdtStop n k) (by intro _ _ _ _ h; cases h)
    (core_of_objs (by show (transferDoneFdt s k n).objs = s.objs; exact transferDoneFdt_objs s k n))
    (by unfold fdtRelease; exact transferDoneFdt_log s k n)

theorem sr_done (s : State) (t n : Nat) : SR now ticks s (transferDoneFile s t n) :=
  SR.one (Ev.stop n t) (by intro _ _ _ _ h; cases h)
    (core_updF t (fun f => transferDoneInfo f n) (fun _ => rfl) (fun _ => rfl) (transferDoneFile_objs s t n))
    (transferDoneFile_log s t n)

/-- the one stage that appends `StartTransfer` -/
theorem sr_getNextFile {s s' : State} {prio : Nat} {r : Option Nat}
    (hg : getNextFile s prio now ticks = (s', r)) : SR now ticks s s' := by
  unfold getNextFile at hg
  split at hg
  · simp only [Prod.mk.injEq] at hg; rw [← hg.1]; exact SR.refl s
  · rename_i t hfn
    simp only [Prod.mk.injEq] at hg
    rw [← hg.1]
    obtain ⟨_, _, _, _, f, hf, _⟩ := findNext_spec s prio now s.queue t hfn
    have h1 : SR now ticks s (fileStartStep s t now (tkGet ticks t)) := by
      refine ⟨core_updF t (fun f => transferInit f now (tkGet ticks t)) (fun _ => rfl) (fun _ => rfl) rfl,
        [Ev.start now t (match getF s.objs t with | some f => f.info.startTime | none => none)
          (match getF s.objs t with | some f => (if wantsTick f then some (tkGet ticks t) else none) | none => none)],
        rfl, ?_⟩
      intro now' t' st tick hm
      simp only [List.mem_singleton, Ev.start.injEq] at hm
      obtain ⟨rfl, rfl, _, h4⟩ := hm
      refine ⟨rfl, f, hf, ?_⟩
      rw [h4, hf]; rfl
    unfold autoPublish
    split
    · exact h1.trans (sr_publishTry _ now)
    · exact h1

theorem runFdt_sr : ∀ fuel s n, SR now ticks s (runFdt fuel s n).1 := by
  intro fuel
  induction fuel with
  | zero => intro s n; exact SR.refl s
  | succ m ih =>
    intro s n
    unfold runFdt
    have key : ∀ s1 : State, SR now ticks s s1 →
        let r := (match s1.fdtSess with
          | none => (s1, Out.none)
          | some c =>
            match getF s1.fdts c.key with
            | none => (s1, Out.none)
            | some f =>
              if gateBlocked f n then (s1, Out.none) else
              match encRead f.nSym c.enc false with
              | (none, _) => runFdt m (fdtRelease s1 c.key n) n
              | (some (idx, _), e) => (fdtStep s1 c e f.fdtId n idx, Out.fdt c.key f.fdtId idx))
        SR now ticks s r.1 := by
      intro s1 h1
      simp only []
      split
      · exact h1
      · rename_i c _
        split
        · exact h1
        · split
          · exact h1
          · split
            · exact (h1.trans (sr_fdtRelease s1 c.key n)).trans (ih _ n)
            · exact h1.trans (SR.one (Ev.fdt n c.key _ _) (by intro _ _ _ _ h; cases h) (core_of_objs rfl) rfl)
    cases hs : s.fdtSess with
    | some c => simp only []; exact key s (SR.refl s)
    | none => simp only []; exact key _ (sr_fdtGetNext s n)

theorem runFile_sr : ∀ fuel s prio cur,
    SR now ticks s (runFile fuel s prio cur now ticks).1 := by
  intro fuel
  induction fuel with
  | zero => intro s prio cur; exact SR.refl s
  | succ n ih =>
    intro s prio cur
    have key : ∀ (fr : Bool) (s1 : State) (cur1 : Option Cur), SR now ticks s s1 →
        let r := (if !s1.fdtQueue.isEmpty then (s1, cur1, Out.none) else
          match cur1 with
          | none => (s1, none, Out.none)
          | some c =>
            match getF s1.objs c.key with
            | none => (s1, cur1, Out.none)
            | some f =>
              if gateBlocked f now then (s1, cur1, Out.none) else
              match encRead f.nSym c.enc (canStop f && !s1.files.contains c.key) with
              | (none, _) =>
                if fr then (transferDoneFile s1 c.key now, none, Out.none)
                else runFile n (transferDoneFile s1 c.key now) prio none now ticks
              | (some (idx, b), e) => (pktStep s1 prio c.key now idx b, some { c with enc := e }, Out.pkt prio c.key idx b))
        SR now ticks s r.1 := by
      intro fr s1 cur1 h1
      simp only []
      split
      · exact h1
      · cases cur1 with
        | none => exact h1
        | some c =>
          simp only []
          split
          · exact h1
          · split
            · exact h1
            · split
              · cases fr with
                | true => simp only [if_true]; exact h1.trans (sr_done s1 c.key now)
                | false =>
                  simp only [Bool.false_eq_true, if_false]
                  exact (h1.trans (sr_done s1 c.key now)).trans (ih _ prio none)
              · exact h1.trans (SR.one (Ev.pkt now prio c.key _ _) (by intro _ _ _ _ h; cases h)
                  (core_updF c.key tickInfo tickInfo_key (fun _ => rfl) rfl) rfl)
    unfold runFile
    cases cur with
    | some c => exact key false s (some c) (SR.refl s)
    | none =>
      simp only []
      cases hg : getNextFile s prio now ticks with
      | mk s' r =>
        have hq := sr_getNextFile hg
        cases r with
        | none => exact key true s' none hq
        | some t =>
          simp only []
          cases ho : openFailed true s' (some (startCur s' t)) with
          | none => exact key true s' (some (startCur s' t)) hq
          | some kf =>
            obtain ⟨k', f'⟩ := kf
            simp only []
            exact hq.trans (sr_done s' k' now)

theorem readQueue_sr : ∀ k s q, SR now ticks s (readQueue k s q now ticks).1 := by
  intro k
  induction k with
  | zero => intro s q; exact SR.refl s
  | succ n ih =>
    intro s q
    unfold readQueue
    split
    · exact SR.refl s
    · rename_i cur _
      have h := runFile_sr (now := now) (ticks := ticks) runFuel s q.prio cur
      generalize runFile runFuel s q.prio cur now ticks = r at h
      obtain ⟨s', cur', out⟩ := r
      simp only [] at h ⊢
      cases out with
      | none => exact h.trans (ih _ _)
      | hang => exact h
      | pkt a b c d => exact h
      | fdt a b c => exact h

theorem readQueues_sr : ∀ qs s, SR now ticks s (readQueues s qs now ticks).1 := by
  intro qs
  induction qs with
  | nil => intro s; exact SR.refl s
  | cons q rest ih =>
    intro s
    unfold readQueues
    have h := readQueue_sr (now := now) (ticks := ticks) q.slots.length s q
    generalize readQueue q.slots.length s q now ticks = r at h
    obtain ⟨s', q', out⟩ := r
    simp only [] at h ⊢
    cases out with
    | none =>
      simp only []
      have h2 := ih s'
      generalize readQueues s' rest now ticks = r2 at h2
      obtain ⟨s2, rest2, out2⟩ := r2
      exact h.trans h2
    | hang => exact h
    | pkt a b c d => exact h
    | fdt a b c => exact h

/-- `Sender::read`: every `StartTransfer` it appends carries the tick of the table it was given -/
theorem read_sr (s : State) : SR now ticks s (read s now ticks).1 := by
  unfold read
  have h0 : SR now ticks s (emit s (.opRead now)) :=
    SR.one (Ev.opRead now) (by intro _ _ _ _ h; cases h) (core_of_objs rfl) rfl
  have h1 := runFdt_sr (now := now) (ticks := ticks) runFuel (emit s (.opRead now)) now
  generalize runFdt runFuel (emit s (.opRead now)) now = r1 at h1
  obtain ⟨s1, o1⟩ := r1
  have h01 : SR now ticks s s1 := h0.trans h1
  cases o1 with
  | hang => exact h01
  | pkt a b c d => exact h01
  | fdt a b c => exact h01
  | none =>
    simp only []
    have h1q : SR now ticks s { s1 with quiet := true } := h01.trans (SR.same rfl rfl)
    unfold readMid
    have h2 := readQueues_sr (now := now) (ticks := ticks) s1.sessions { s1 with quiet := true }
    generalize readQueues { s1 with quiet := true } s1.sessions now ticks = r2 at h2
    obtain ⟨s2, qs, o2⟩ := r2
    simp only [] at h2 ⊢
    have h2' : SR now ticks s ({ s2 with sessions := qs, quiet := false } : State) :=
      (h1q.trans h2).trans (SR.same rfl rfl)
    cases o2 with
    | hang => exact h2'
    | pkt a b c d => exact h2'
    | fdt a b c => exact h2'
    | none =>
      simp only []
      unfold readTail
      have h3 := runFdt_sr (now := now) (ticks := ticks) runFuel ({ s2 with sessions := qs, quiet := false } : State) now
      generalize runFdt runFuel ({ s2 with sessions := qs, quiet := false } : State) now = r3 at h3
      obtain ⟨s3, o3⟩ := r3
      have h23 := h2'.trans h3
      cases o3 with
      | hang => exact h23
      | pkt a b c d => exact h23
      | fdt a b c => exact h23
      | none =>
        exact h23.trans (SR.one (Ev.idle now) (by intro _ _ _ _ h; cases h) (core_of_objs rfl) rfl)

/-! ### histories whose reads use the model's own ticks -/

theorem runM_eq_run : ∀ (ops : List Op) (s : State), runM s ops = run s (retick s ops) := by
  intro ops
  induction ops with
  | nil => intro s; rfl
  | cons op rest ih =>
    intro s
    cases op with
    | read n tk =>
      show runM (stepM s (.read n tk)) rest = run (step s (.read n (ticksAll s n))) (retick (stepM s (.read n tk)) rest)
      rw [ih]; rfl
    | add a => show runM (stepM s (.add a)) rest = run (step s (.add a)) (retick (stepM s (.add a)) rest); rw [ih]; rfl
    | publish n => show runM (stepM s (.publish n)) rest = run (step s (.publish n)) (retick (stepM s (.publish n)) rest); rw [ih]; rfl
    | remove t => show runM (stepM s (.remove t)) rest = run (step s (.remove t)) (retick (stepM s (.remove t)) rest); rw [ih]; rfl
    | trigger t ts => show runM (stepM s (.trigger t ts)) rest = run (step s (.trigger t ts)) (retick (stepM s (.trigger t ts)) rest); rw [ih]; rfl
    | setComplete => show runM (stepM s .setComplete) rest = run (step s .setComplete) (retick (stepM s .setComplete) rest); rw [ih]; rfl

theorem runM_append (s : State) (a b : List Op) : runM s (a ++ b) = runM (runM s a) b := by
  unfold runM; rw [List.foldl_append]

/-- the table of `readM` holds `tickOf` for every object of the sender -/
theorem tkGet_ticksAll {s : State} {t : Nat} {f : FileDesc} (now : Nat) (hf : getF s.objs t = some f) :
    tkGet (ticksAll s now) t = tickOf f now := by
  unfold tkGet ticksAll
  rw [List.find?_map]
  have : (s.objs.find? ((fun p : Nat × Nat => p.1 == t) ∘ fun f => (f.key, tickOf f now))) = getF s.objs t := rfl
  rw [this, hf]
  rfl

/-- operations other than `read` append no `StartTransfer` -/
theorem step_no_start (s : State) (op : Op) (hop : ∀ n tk, op ≠ .read n tk) {n t : Nat} {st tick : Option Nat}
    (hm : Ev.start n t st tick ∈ (step s op).log) : Ev.start n t st tick ∈ s.log := by
  have one : ∀ (s' : State) (e : Ev), s'.log = e :: s.log → (∀ n t st tk, e ≠ Ev.start n t st tk) →
      Ev.start n t st tick ∈ s'.log → Ev.start n t st tick ∈ s.log := by
    intro s' e hl he h
    rw [hl] at h
    rcases List.mem_cons.mp h with h | h
    · exact absurd h.symm (he _ _ _ _)
    · exact h
  cases op with
  | read n' tk => exact absurd rfl (hop n' tk)
  | add a =>
    revert hm
    show Ev.start n t st tick ∈ (addObject s a).1.log → _
    unfold addObject
    simp only
    split
    · exact one _ _ rfl (by intro _ _ _ _ h; cases h)
    · split
      · exact one _ _ rfl (by intro _ _ _ _ h; cases h)
      · exact one _ _ rfl (by intro _ _ _ _ h; cases h)
  | publish n' =>
    revert hm
    show Ev.start n t st tick ∈ (publishTry (emit s (.opPublish n')) n').log → _
    intro hm
    have h1 : Ev.start n t st tick ∈ (emit s (.opPublish n')).log := by
      revert hm
      refine publishTry_elim (P := fun x => Ev.start n t st tick ∈ x.log → Ev.start n t st tick ∈ (emit s (.opPublish n')).log)
        _ n' ?_ (fun h => h)
      intro h
      rw [publish_log] at h
      rcases List.mem_cons.mp h with h | h
      · cases h
      · exact h
    exact one _ _ rfl (by intro _ _ _ _ h; cases h) h1
  | remove t' =>
    revert hm
    show Ev.start n t st tick ∈ (removeObject s t').1.log → _
    unfold removeObject
    split
    · exact one _ _ rfl (by intro _ _ _ _ h; cases h)
    · exact one _ _ rfl (by intro _ _ _ _ h; cases h)
  | trigger t' ts =>
    revert hm
    show Ev.start n t st tick ∈ (triggerTransferAt s t' ts).1.log → _
    unfold triggerTransferAt
    split
    · exact one _ _ rfl (by intro _ _ _ _ h; cases h)
    · split
      · exact one _ _ rfl (by intro _ _ _ _ h; cases h)
      · exact one _ _ rfl (by intro _ _ _ _ h; cases h)
  | setComplete => exact hm

/-- **the model's own tick.**  In a history whose reads use the model's own tick table (`runM`: what the driver
    executes), every `StartTransfer` event of the trace was appended by a `read(now)` of the history, its object `f`
    was in the sender when that call was made, and the tick it carries is `tickOf f now` - `target / n`, exact integer
    division - when the object is paced (`wantsTick`), `none` otherwise. -/
theorem start_tick_is_tickOf : ∀ (ops : List Op) (s0 : State) {n t : Nat} {st tick : Option Nat},
    Ev.start n t st tick ∈ (runM s0 ops).log →
    Ev.start n t st tick ∈ s0.log ∨
    ∃ pre x rest f, ops = pre ++ Op.read n x :: rest ∧ getF (runM s0 pre).objs t = some f ∧
      tick = startTick f (tickOf f n) := by
  intro ops
  induction ops with
  | nil => intro s0 n t st tick h; exact Or.inl h
  | cons op rest ih =>
    intro s0 n t st tick h
    have h' : Ev.start n t st tick ∈ (runM (stepM s0 op) rest).log := h
    rcases ih (stepM s0 op) h' with h1 | ⟨pre, x, rest', f, e1, e2, e3⟩
    · -- appended by `op`, or older
      by_cases hop : ∃ n' tk, op = .read n' tk
      · obtain ⟨n', tk, rfl⟩ := hop
        have hsr := read_sr (now := n') (ticks := ticksAll s0 n') s0
        obtain ⟨new, el, pl⟩ := hsr.log
        have h1' : Ev.start n t st tick ∈ (read s0 n' (ticksAll s0 n')).1.log := h1
        rw [el] at h1'
        rcases List.mem_append.mp h1' with hm | hm
        · obtain ⟨q1, f, hf, q2⟩ := pl n t st tick hm
          subst q1
          right
          exact ⟨[], tk, rest, f, rfl, hf, by rw [q2, tkGet_ticksAll n hf]⟩
        · exact Or.inl hm
      · left
        have hop' : ∀ n' tk, op ≠ .read n' tk := fun n' tk h => hop ⟨n', tk, h⟩
        have : stepM s0 op = step s0 op := by
          cases op with
          | read n' tk => exact absurd rfl (hop' n' tk)
          | _ => rfl
        rw [this] at h1
        exact step_no_start s0 op hop' h1
    · right
      exact ⟨op :: pre, x, rest', f, by rw [e1]; rfl, e2, e3⟩

end Flute.Sched
