import FluteModel.Lemmas.SchedRRAll
/-
  A waiting object keeps its descriptor (transfer bookkeeping, count, carousel mode) as long as no transfer of it
  starts and it is neither removed nor re-triggered; hence an eligible waiting object of an unpaced sender is
  started when an instant is polled.
-/
namespace Flute.Sched

/-- events after which the waiting object `a` may have changed: a transfer of `a` starts, `a` is removed or triggered -/
def badEv2 (a : Nat) : Ev → Bool
  | .start _ t _ _ => t == a
  | .opRemove t ok => t == a && ok
  | .opTrigger t _ ok => t == a && ok
  | _ => false

/-- `a` waits with the descriptor view `f0` -/
def Waits (a : Nat) (f0 : FileDesc) (s : State) : Prop :=
  a ∈ s.queue ∧ ∃ f, getF s.objs a = some f ∧ PView f f0

def WaitInv (a n0 : Nat) (f0 : FileDesc) : State → Held → Prop := fun s _ =>
  n0 ≤ s.log.length ∧ ((s.log.take (s.log.length - n0)).any (badEv2 a) = false → Waits a f0 s)

theorem WaitInv.step {a n0 : Nat} {f0 : FileDesc} {s s' : State} {L L' : Held} (h : WaitInv a n0 f0 s L)
    (new : List Ev) (hlog : s'.log = new ++ s.log)
    (hq : new.any (badEv2 a) = false → Waits a f0 s → Waits a f0 s') : WaitInv a n0 f0 s' L' := by
  obtain ⟨hn, hi⟩ := h
  refine ⟨by rw [hlog, List.length_append]; omega, ?_⟩
  intro hany
  have e : (s'.log.take (s'.log.length - n0)) = new ++ s.log.take (s.log.length - n0) := by
    rw [hlog, List.length_append]
    have : new.length + s.log.length - n0 = new.length + (s.log.length - n0) := by omega
    rw [this, List.take_length_add_append]
  rw [e, List.any_append, Bool.or_eq_false_iff] at hany
  exact hq hany.1 (hi hany.2)

theorem Waits.same {a : Nat} {f0 : FileDesc} {s s' : State} (h : Waits a f0 s) (ho : s'.objs = s.objs)
    (hq : ∀ x ∈ s.queue, x ∈ s'.queue) : Waits a f0 s' := by
  obtain ⟨h1, f, h2, h3⟩ := h
  exact ⟨hq a h1, f, by rw [ho]; exact h2, h3⟩

theorem Waits.updOther {a : Nat} {f0 : FileDesc} {s s' : State} (h : Waits a f0 s) (k : Nat) (gf : FileDesc → FileDesc)
    (hg : ∀ x, (gf x).key = x.key) (hk : k ≠ a) (ho : s'.objs = updF s.objs k gf)
    (hq : ∀ x ∈ s.queue, x ≠ k → x ∈ s'.queue) : Waits a f0 s' := by
  obtain ⟨h1, f, h2, h3⟩ := h
  exact ⟨hq a h1 (fun e => hk e.symm), f, by rw [ho, getF_updF s.objs k a gf hg, if_neg (fun e => hk e.symm)]; exact h2, h3⟩

theorem Waits.publish {a : Nat} {f0 : FileDesc} {s : State} (h : Waits a f0 s) (now : Nat) :
    Waits a f0 (Sched.publish s now) := by
  obtain ⟨h1, f, h2, h3⟩ := h
  exact ⟨h1, pubMark s.files f, by rw [publish_getF_objs, h2]; rfl, (pubMark_pview _ f).trans h3⟩

theorem WaitInv.publish {a n0 : Nat} {f0 : FileDesc} {s : State} {L : Held} (h : WaitInv a n0 f0 s L) (now : Nat) :
    WaitInv a n0 f0 (Sched.publish s now) L :=
  h.step [_] (publish_log s now) (fun _ hw => hw.publish now)

theorem WaitInv.publishTry {a n0 : Nat} {f0 : FileDesc} {s : State} {L : Held} (h : WaitInv a n0 f0 s L) (now : Nat) :
    WaitInv a n0 f0 (Sched.publishTry s now) L :=
  publishTry_elim (P := fun x => WaitInv a n0 f0 x L) s now (h.publish now) h

/-- a transfer in a slot is not the waiting object -/
theorem held_ne_waiting {a : Nat} {f0 : FileDesc} {s : State} {L : Held} {prio : Nat} {c : Cur}
    (hw : Wf s ((prio, c) :: L)) (h : Waits a f0 s) : c.key ≠ a := by
  intro e
  obtain ⟨f1, hf1, htr, _⟩ := hw.heldObj (prio, c) List.mem_cons_self
  obtain ⟨f2, hf2, hnt⟩ := hw.queueObj a h.1
  rw [e, hf2] at hf1; cases hf1
  rw [htr] at hnt; cases hnt

theorem WaitInv.closed (a n0 : Nat) (f0 : FileDesc) : Closed Wf (WaitInv a n0 f0) where
  perm := fun _ _ _ _ h => h
  leaveFiles := fun _ _ _ h => h
  enterFiles := fun _ _ _ _ h _ _ => h
  emitRead := fun s _ now _ h _ => h.step (s' := emit s (.opRead now)) [_] rfl (fun _ hw => hw.same rfl (fun _ hx => hx))
  emitIdle := fun s _ now _ h _ => h.step (s' := emit s (.idle now)) [_] rfl (fun _ hw => hw.same rfl (fun _ hx => hx))
  publish := fun _ _ now _ h _ => h.publish now
  fdtAdvance := fun s L now _ h _ _ => by
    rcases fdtAdvance_cases s now with ⟨e, _⟩ | ⟨k, f, _, _, _, e⟩
    · rw [e]; exact h.step [] (by rw [fdtPop_log]; rfl)
        (fun _ hw => hw.same (fdtPop_objs s) (fun _ hx => by rw [fdtPop_queue]; exact hx))
    · rw [e]
      exact h.step [Ev.fdtStart now k] (by show _ :: (fdtPop s).log = _; rw [fdtPop_log]; rfl)
        (fun _ hw => hw.same (s' := { fdtStartStep (fdtPop s) k now with fdtSess := some (startFdtCur k) })
          (fdtPop_objs s) (fun _ hx => by show _ ∈ (fdtPop s).queue; rw [fdtPop_queue]; exact hx))
  fileStart := fun s L _ now tk t _ h _ _ => by
    have h1 : WaitInv a n0 f0 (fileStartStep s t now tk) L := by
      refine h.step [Ev.start now t _ _] rfl ?_
      intro hany hw
      have hta : t ≠ a := by
        intro e; subst e
        simp [badEv2] at hany
      exact hw.updOther t (fun f => transferInit f now tk) (fun _ => rfl) hta rfl
        (fun x hx hne => (List.mem_erase_of_ne hne).mpr hx)
    unfold autoPublish; split
    · exact h1.publishTry now
    · exact h1
  pkt := fun s L prio c now _ idx b _ hb h _ _ _ _ _ =>
    h.step (s' := pktStep s prio c.key now idx b) [_] rfl
      (fun _ hw => hw.updOther c.key tickInfo (fun _ => rfl) (held_ne_waiting hb hw) rfl (fun _ hx _ => hx))
  done := fun s L _ c now _ _ hb h _ _ _ => by
    refine h.step [Ev.stop now c.key] (transferDoneFile_log s c.key now) ?_
    intro _ hw
    refine hw.updOther c.key (fun f => transferDoneInfo f now) (fun _ => rfl) (held_ne_waiting hb hw)
      (transferDoneFile_objs s c.key now) ?_
    intro x hx _
    rcases transferDoneFile_queue_cases s c.key now with e | e <;> rw [e]
    · exact hx
    · exact List.mem_append_left _ hx
  fdtPkt := fun s L c f now idx b e _ h _ _ _ _ _ =>
    h.step (s' := fdtStep s c e f.fdtId now idx) [_] rfl (fun _ hw => hw.same rfl (fun _ hx => hx))
  fdtDone := fun s L c _ now _ _ h _ _ _ _ _ =>
    h.step [Ev.fdtStop now c.key] (by unfold fdtRelease; exact transferDoneFdt_log s c.key now)
      (fun _ hw => hw.same (by unfold fdtRelease; exact transferDoneFdt_objs s c.key now)
        (fun _ hx => by unfold fdtRelease; show _ ∈ (transferDoneFdt s c.key now).queue; rw [transferDoneFdt_queue]; exact hx))

/-- one `read` from a reachable state: either a transfer of `a` started, or `a` still waits unchanged -/
theorem read_waits (cfg : Cfg) (tbl : List Nat) (ops : List Op) (a : Nat) (f0 : FileDesc) (N : Nat)
    (tk : List (Nat × Nat)) (hw0 : Waits a f0 (run (init cfg tbl) ops))
    (hclean : ((read (run (init cfg tbl) ops) N tk).1.log.take
      ((read (run (init cfg tbl) ops) N tk).1.log.length - (run (init cfg tbl) ops).log.length)).any (badEv2 a) = false) :
    Waits a f0 (read (run (init cfg tbl) ops) N tk).1 := by
  have hw := run_inv Wf.closed Wf.closedOps ops (init cfg tbl) (by rw [heldOf_init]; exact Wf.init cfg tbl) rfl
  generalize run (init cfg tbl) ops = s at *
  have h := read_inv (Closed.and Wf.closed (WaitInv.closed a s.log.length f0)) s N tk
    ⟨hw.1, Nat.le_refl _, fun _ => hw0⟩ hw.2
  exact h.1.2.2 hclean

/-- no read of the sequence appends a StartTransfer of `a` (nor a removal / trigger of `a`) -/
def CleanSeq (a N : Nat) : State → List (List (Nat × Nat)) → Prop
  | _, [] => True
  | s, tk :: r =>
    ((read s N tk).1.log.take ((read s N tk).1.log.length - s.log.length)).any (badEv2 a) = false ∧
    CleanSeq a N (read s N tk).1 r

/-- the hypotheses on the state the polling starts from: nothing is paced, `a` waits and may transfer at `N` -/
structure WaitsEligible (s0 : State) (a N : Nat) (f0 : FileDesc) : Prop where
  waits : Waits a f0 s0
  elig : f0.maxCount > f0.info.count ∨ gapElapsed f0 N = true
  pub : s0.cfg.mode = .full → f0.published = true
  start : ∀ st, f0.info.startTime = some st → st ≤ N
  all : ∀ k g, getF s0.objs k = some g → wantsTick g = false
  /-- no source fails (buffer sources) -/
  nofault : FaultFree s0

theorem busy_while_waiting (cfg : Cfg) (tbl : List Nat) (hsorted : (cfg.queues.map (fun x => x.1)).Pairwise (fun a b => a < b))
    (s0 : State) (a N : Nat) (f0 : FileDesc) (he : WaitsEligible s0 a N f0)
    (hprio : f0.prio ∈ cfg.queues.map (fun x => x.1)) :
    ∀ (tks : List (List (Nat × Nat))) (ops : List Op), Mono s0 (run (init cfg tbl) ops) →
    Waits a f0 (run (init cfg tbl) ops) → CleanSeq a N (run (init cfg tbl) ops) tks →
    busyReads N (run (init cfg tbl) ops) tks = tks.length := by
  intro tks
  induction tks with
  | nil => intro _ _ _ _; rfl
  | cons tk rest ih =>
    intro ops hm hw hclean
    obtain ⟨hc1, hc2⟩ := hclean
    have hwq := run_inv Wf.closed Wf.closedOps ops (init cfg tbl) (by rw [heldOf_init]; exact Wf.init cfg tbl) rfl
    have hsh := run_shape cfg tbl ops
    have hstale := stale_run cfg tbl ops
    have hw' := read_waits cfg tbl ops a f0 N tk hw hc1
    have hm' : Mono s0 (run (init cfg tbl) (ops ++ [.read N tk])) := by
      rw [run_snoc_read]; exact hm.trans (mono_read _ N tk hwq.2)
    have hrest := ih (ops ++ [.read N tk]) hm' (by rw [run_snoc_read]; exact hw') (by rw [run_snoc_read]; exact hc2)
    rw [run_snoc_read] at hrest
    -- this read returns something
    have hne : (read (run (init cfg tbl) ops) N tk).2 ≠ Out.none := by
      intro hout
      obtain ⟨hq, f, hf, v⟩ := hw
      have hgate : ∀ k g, getF (run (init cfg tbl) ops).objs k = some g → gateBlocked g N = false := by
        intro k g hg
        obtain ⟨g0, hg0, dg⟩ := hm.bwd k g hg
        have hw0 : wantsTick g = false := by
          have := he.all k g0 hg0
          unfold wantsTick at this ⊢
          rw [dg.target, dg.nSym]; exact this
        unfold gateBlocked
        rw [hstale g (getF_mem hg) hw0]
      obtain ⟨pm, hpm, hp1⟩ := List.mem_map.mp hprio
      have : (pm.1, slotsOf pm.2) ∈ shape (run (init cfg tbl) ops).sessions := by
        rw [hsh]; exact List.mem_map.mpr ⟨pm, hpm, rfl⟩
      unfold shape at this
      obtain ⟨q, hq1, hq2⟩ := List.mem_map.mp this
      simp only [Prod.mk.injEq] at hq2
      have hlen : 0 < q.slots.length := by rw [hq2.2]; unfold slotsOf; split <;> omega
      have helig : f.maxCount > f.info.count ∨ gapElapsed f N = true := by
        rcases he.elig with h1 | h1
        · left; rw [v.maxCount, v.info]; exact h1
        · right
          unfold gapElapsed at h1 ⊢
          rw [v.carousel, v.info]; exact h1
      obtain ⟨c, g, _, hg, hb⟩ := idle_waiting cfg tbl ops N tk hsorted hout a f hq hf helig
        (fun hmode => v.pub (he.pub (by rw [← hm.cfg]; exact hmode)))
        (fun st hst => he.start st (by rw [← v.info]; exact hst))
        (fun k _ g hg _ => by
          obtain ⟨g0, hg0, dg⟩ := hm.bwd k g hg
          rw [dg.faults]; exact he.nofault k g0 hg0)
        q hq1 (by rw [hq2.1, hp1, v.prio]) 0 q.slots[0] (by simp [hlen])
      rw [hgate c.key g hg] at hb; cases hb
    show (match (read (run (init cfg tbl) ops) N tk).2 with | .none => 0 | _ => 1) +
      busyReads N (read (run (init cfg tbl) ops) N tk).1 rest = rest.length + 1
    rw [hrest]
    cases hout : (read (run (init cfg tbl) ops) N tk).2 with
    | none => exact absurd hout hne
    | hang => simp only []; omega
    | pkt _ _ _ _ => simp only []; omega
    | fdt _ _ _ => simp only []; omega

/-- polling one instant at which a waiting object may transfer: within `mu + 1` calls one of them starts it -/
theorem starts_within (cfg : Cfg) (tbl : List Nat)
    (hsorted : (cfg.queues.map (fun x => x.1)).Pairwise (fun a b => a < b)) (ops : List Op) (a N : Nat) (f0 : FileDesc)
    (he : WaitsEligible (run (init cfg tbl) ops) a N f0) (hprio : f0.prio ∈ cfg.queues.map (fun x => x.1))
    (tks : List (List (Nat × Nat))) (hlen : mu N tbl (run (init cfg tbl) ops) + 1 ≤ tks.length) :
    ¬ CleanSeq a N (run (init cfg tbl) ops) tks := by
  intro hclean
  have h1 := busy_while_waiting cfg tbl hsorted _ a N f0 he hprio tks ops (Mono.refl _) he.waits hclean
  have h2 := busy_reads_bounded cfg tbl ops N tks
  omega

end Flute.Sched
