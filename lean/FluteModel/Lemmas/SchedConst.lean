import FluteModel.Lemmas.SchedAnnounce
/- the configuration and the FDT packet table never change -/
namespace Flute.Sched

def ConstInv (cfg : Cfg) (tbl : List Nat) : State → Held → Prop := fun s _ => s.fdtPkts = tbl ∧ s.cfg = cfg

theorem transferDoneFdt_fdtPkts (s : State) (k now : Nat) : (transferDoneFdt s k now).fdtPkts = s.fdtPkts := by
  unfold transferDoneFdt; simp only []; split
  · split <;> rfl
  · rfl
theorem transferDoneFdt_cfg (s : State) (k now : Nat) : (transferDoneFdt s k now).cfg = s.cfg := by
  unfold transferDoneFdt; simp only []; split
  · split <;> rfl
  · rfl

theorem ConstInv.closed (cfg : Cfg) (tbl : List Nat) : Closed0 (ConstInv cfg tbl) where
  perm := fun _ _ _ _ h => h
  leaveFiles := fun _ _ _ h => h
  enterFiles := fun _ _ _ _ h _ _ => h
  emitRead := fun _ _ _ _ h _ => h
  emitIdle := fun _ _ _ _ h _ => h
  publish := fun _ _ _ _ h _ => h
  fdtAdvance := fun s _ now _ h _ _ => by
    rcases fdtAdvance_cases s now with ⟨e, _⟩ | ⟨k, f, _, _, _, e⟩
    · rw [e]; exact ⟨by rw [fdtPop_fdtPkts]; exact h.1, by rw [fdtPop_cfg]; exact h.2⟩
    · rw [e]
      exact ⟨by show (fdtPop s).fdtPkts = tbl; rw [fdtPop_fdtPkts]; exact h.1,
             by show (fdtPop s).cfg = cfg; rw [fdtPop_cfg]; exact h.2⟩
  fileStart := fun s _ _ now tk t _ h _ _ => by
    unfold autoPublish; split
    · exact publishTry_elim (P := fun x => x.fdtPkts = tbl ∧ x.cfg = cfg) _ now h h
    · exact h
  pkt := fun _ _ _ _ _ _ _ _ _ _ h _ _ _ _ _ => h
  done := fun s _ _ c now _ _ _ h _ _ _ =>
    ⟨by rw [transferDoneFile_fdtPkts]; exact h.1, by rw [transferDoneFile_cfg]; exact h.2⟩
  fdtPkt := fun _ _ _ _ _ _ _ _ _ h _ _ _ _ _ => h
  fdtDone := fun s _ c _ now _ _ h _ _ _ _ _ => by
    unfold fdtRelease
    exact ⟨by show (transferDoneFdt s c.key now).fdtPkts = tbl; rw [transferDoneFdt_fdtPkts]; exact h.1,
           by show (transferDoneFdt s c.key now).cfg = cfg; rw [transferDoneFdt_cfg]; exact h.2⟩

theorem ConstInv.closedOps (cfg : Cfg) (tbl : List Nat) : ClosedOps0 (ConstInv cfg tbl) where
  add := fun s _ a _ h => by
    unfold addObject; simp only []; split
    · exact h
    · split <;> exact h
  remove := fun s _ t _ h => by unfold removeObject; split <;> exact h
  trigger := fun s _ t ts _ h => by
    unfold triggerTransferAt; split
    · exact h
    · split <;> exact h
  publishOp := fun s _ now _ h =>
    publishTry_elim (P := fun x => x.fdtPkts = tbl ∧ x.cfg = cfg) (emit s (.opPublish now)) now h h
  complete := fun _ _ _ h => h

theorem const_run (cfg : Cfg) (tbl : List Nat) (ops : List Op) :
    (run (init cfg tbl) ops).fdtPkts = tbl ∧ (run (init cfg tbl) ops).cfg = cfg :=
  inv_run (ConstInv.closed cfg tbl) (ConstInv.closedOps cfg tbl) cfg tbl ⟨rfl, rfl⟩ ops

/-- the ordered stream of everything the sender did in a history (newest first) -/
def trace (cfg : Cfg) (tbl : List Nat) (ops : List Op) : List Ev := (run (init cfg tbl) ops).log

open Flute.Spec.Announce in
theorem holds_mono {npk : Nat → Nat} {P Q : Mon → Nat → Prop} (hpq : ∀ m t, P m t → Q m t) :
    ∀ l, Holds npk P l → Holds npk Q l := by
  intro l
  induction l with
  | nil => intro _; trivial
  | cons e r ih =>
    intro h
    refine ⟨ih h.1, ?_⟩
    have := h.2
    cases e <;> first | trivial | exact hpq _ _ this

open Flute.Spec.Announce in
theorem trace_holds (cfg : Cfg) (tbl : List Nat) (ops : List Op) (hfit : cfg.mode = .being → cfg.fdtFits = true) :
    Holds (npkOf tbl) AnnP (trace cfg tbl ops) := by
  have h := (ann_run cfg tbl ops hfit).2.holds
  rw [(const_run cfg tbl ops).1] at h
  exact h

end Flute.Sched
