import FluteModel.Lemmas.SessionBuild
/-
  Cutting the event list of a clean reception into one segment per transfer, and the stream-level
  form of the clean-channel theorem.
-/
namespace Flute.Lemmas.Session
open Flute.Session

theorem split_pkts : ∀ (A B : List Sym) (L : List Ev), pktSyms L = A ++ B →
    ∃ L1 L2, L = L1 ++ L2 ∧ pktSyms L1 = A ∧ pktSyms L2 = B := by
  intro A
  induction A with
  | nil => intro B L h; exact ⟨[], L, rfl, rfl, by simpa using h⟩
  | cons a t ih =>
    intro B L
    induction L with
    | nil => intro h; simp [pktSyms] at h
    | cons e es ihL =>
      intro h
      cases e with
      | fdt l =>
        simp only [pktSyms] at h
        obtain ⟨L1, L2, h1, h2, h3⟩ := ihL h
        exact ⟨Ev.fdt l :: L1, L2, by simp [h1], by simpa [pktSyms] using h2, h3⟩
      | pkt s =>
        simp only [pktSyms, List.cons_append, List.cons.injEq] at h
        obtain ⟨L1, L2, h1, h2, h3⟩ := ih B es h.2
        exact ⟨Ev.pkt s :: L1, L2, by simp [h1], by simp [pktSyms, h2, h.1], h3⟩

/-- one segment per transfer -/
theorem segments : ∀ (Ts : List (List Sym)) (L : List Ev), pktSyms L = Ts.flatten →
    ∃ (segs : List (List Ev)) (tail : List Ev), L = segs.flatten ++ tail ∧ segs.map pktSyms = Ts ∧ pktSyms tail = [] := by
  intro Ts
  induction Ts with
  | nil => intro L h; exact ⟨[], L, by simp, rfl, by simpa using h⟩
  | cons T Ts ih =>
    intro L h
    simp only [List.flatten_cons] at h
    obtain ⟨L1, L2, h1, h2, h3⟩ := split_pkts T Ts.flatten L h
    obtain ⟨segs, tail, g1, g2, g3⟩ := ih L2 h3
    exact ⟨L1 :: segs, tail, by simp [h1, g1], by simp [h2, g2], g3⟩

/-- the transfers of a non-carousel object, one listing each -/
def transfersOf (tr trLast : List Sym) (m : Nat) : List (List Sym) := List.replicate (m - 1) tr ++ [trLast]

theorem life_eq_flatten (tr trLast : List Sym) (m : Nat) : life tr trLast m = (transfersOf tr trLast m).flatten := by
  simp [life, transfersOf]

/-- **Clean channel, stream level.**  The receiver is fed `ps1 ++ ps2` in order, nothing lost:
    `ps1` holds no packet of the object and an FDT instance `f` received whole (announce before send),
    every instance of the session lists the object (FullFDT), the object's packets in `ps2` are its
    whole life - `m` transfers, each `TransferOK` - in order.  Then: `m` deliveries (one with
    receive-once), as many writers, no error, no interruption. -/
theorem clean_stream (cF cO : Codec) (rc : RxCfg) (s : SessCfg) (o : ObjCfg)
    (hto : o.toi ≠ 0) (hN : o.ks.isEmpty = false) (hfit : Fits rc o) (hnc : o.noCache = false)
    (hall : ∀ f, f ∈ s.fdts → f.files.contains o.toi = true)
    (f : FdtCfg) (hfind : s.fdts.find? (fun x => x.id == f.id) = some f)
    (hfN : f.ks.isEmpty = false) (hflook : f.ks.size ≤ rc.maxLook)
    (hfresh : blockDone cF.canDecode f.ks s.fdtP [] 0 = false)
    (ps1 ps2 : List Pkt)
    (hgenF : ∀ p, p ∈ ps1 → p.toi = 0 → p.fdtId = f.id → Genuine (fdtObj s f) (toSym p) ∧ p.close = false)
    (hwhole : AllDec cF (fdtObj s f) (fsyms f.id ps1))
    (hannounce : osyms o ps1 = [])
    (Ts : List (List Sym)) (hTs : ∀ T, T ∈ Ts → TransferOK cO o T)
    (hlife : osyms o ps2 = Ts.flatten) :
    let st := observe cF.canDecode cO.canDecode rc s o (ps1 ++ ps2)
    st.completes = (if rc.receiveOnce then min 1 Ts.length else Ts.length) ∧
    st.opens = st.completes ∧ st.errors = 0 ∧ st.interrupts = 0 := by
  intro st
  have hst : st = runObj cO.canDecode rc o {} (eventsFor cF.canDecode rc s o fdtRx0 (ps1 ++ ps2)) := rfl
  rw [eventsFor_append] at hst
  -- the events of ps1: completions of FDT instances only, all listing the object, at least one
  have hev := fdt_whole_completes cF rc s o f hfind hfN hflook hfresh ps1 hgenF hwhole
  have hfl : f.files.contains o.toi = true := hall f (List.mem_of_find?_eq_some hfind)
  rw [hfl] at hev
  have hp1 : pktSyms (eventsFor cF.canDecode rc s o fdtRx0 ps1) = [] := by
    rw [events_packets cF.canDecode rc s o hto]; exact hannounce
  have hall1 : ∀ e, e ∈ eventsFor cF.canDecode rc s o fdtRx0 ps1 → e = Ev.fdt true := by
    intro e he
    cases e with
    | pkt q =>
      have : q ∈ pktSyms (eventsFor cF.canDecode rc s o fdtRx0 ps1) := mem_pktSyms.mpr he
      rw [hp1] at this; simp at this
    | fdt l => rw [events_all_true cF.canDecode rc s o hall ps1 fdtRx0 l he]
  generalize hE1 : eventsFor cF.canDecode rc s o fdtRx0 ps1 = E1 at hst hev hp1 hall1
  generalize hE2 : eventsFor cF.canDecode rc s o (fdtState cF.canDecode rc s fdtRx0 ps1) ps2 = E2 at hst
  have hp2 : pktSyms E2 = Ts.flatten := by
    rw [← hE2, events_packets cF.canDecode rc s o hto]; exact hlife
  have htrue2 : ∀ l, Ev.fdt l ∈ E2 → l = true := by
    intro l hl; rw [← hE2] at hl; exact events_all_true cF.canDecode rc s o hall ps2 _ l hl
  cases E1 with
  | nil => simp at hev
  | cons e1 rest1 =>
    have he1 : e1 = Ev.fdt true := hall1 e1 (List.mem_cons_self ..)
    subst he1
    -- cut the rest into one segment per transfer
    have hpl : pktSyms (rest1 ++ E2) = Ts.flatten := by
      rw [pktSyms_append, hp2]
      have : pktSyms rest1 = [] := by simpa [pktSyms] using hp1
      rw [this, List.nil_append]
    obtain ⟨segs, tail, g1, g2, g3⟩ := segments Ts (rest1 ++ E2) hpl
    have htrueL : ∀ l, Ev.fdt l ∈ rest1 ++ E2 → l = true := by
      intro l hl
      rcases List.mem_append.mp hl with h | h
      · have := hall1 _ (List.mem_cons_of_mem _ h); simpa using this
      · exact htrue2 l h
    have hsegs : ∀ seg, seg ∈ segs → TransferOK cO o (pktSyms seg) ∧ ∀ l, Ev.fdt l ∈ seg → l = true := by
      intro seg hseg
      have hT : pktSyms seg ∈ Ts := by rw [← g2]; exact List.mem_map_of_mem hseg
      refine ⟨hTs _ hT, ?_⟩
      intro l hl
      apply htrueL l
      rw [g1]
      exact List.mem_append_left _ (List.mem_flatten.mpr ⟨seg, hseg, hl⟩)
    have hlen : segs.length = Ts.length := by rw [← g2]; simp
    have key := clean_run cO rc o hN hfit hnc segs 0 (stepObj cO.canDecode rc o {} (.fdt true))
      (by simp only [stepObj, fdtEv, ageStep]; exact ⟨rfl, rfl, rfl, rfl, rfl, rfl, rfl⟩) hsegs
    have h2 := tail_counters cO rc o tail _ key.obj g3
    have e : st = runObj cO.canDecode rc o (runObj cO.canDecode rc o (stepObj cO.canDecode rc o {} (.fdt true)) segs.flatten) tail := by
      rw [hst, List.cons_append, g1]
      simp only [runObj, runObj_append]
    have hx : expect rc.receiveOnce 0 segs.length = (if rc.receiveOnce then min 1 Ts.length else Ts.length) := by
      unfold expect; rw [hlen]; split <;> simp
    rw [e, h2.1, h2.2.1, h2.2.2.1, h2.2.2.2, key.completes, key.opens, key.errors, key.interrupts, hx]
    exact ⟨rfl, rfl, rfl, rfl⟩

end Flute.Lemmas.Session
