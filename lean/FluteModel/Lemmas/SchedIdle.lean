import FluteModel.Lemmas.SchedRRLift
/-
  What `read(now) = None` says about every single object still in the sender (liveness, contrapositive form).
-/
namespace Flute.Sched

theorem eligible_of_waiting {f : FileDesc} {mode : Mode} {now : Nat} (htr : f.info.transferring = false)
    (hcar : f.maxCount > f.info.count ∨ gapElapsed f now = true) (hpub : mode = .full → f.published = true)
    (hst : ∀ st, f.info.startTime = some st → st ≤ now) : shouldTransferNow f f.prio mode now = true := by
  have h1 : (f.prio != f.prio) = false := by simp
  have h2 : (mode == Mode.full && !f.published) = false := by
    cases mode with
    | being => rfl
    | full => rw [hpub rfl]; rfl
  have h3 : beforeStart f now = false := by
    unfold beforeStart
    cases hs : f.info.startTime with
    | none => rfl
    | some st => have := hst st hs; simp; omega
  unfold shouldTransferNow
  rw [h1, h2, h3, htr]
  rcases hcar with h | h
  · simp [h]
  · simp [h]

/-- a transfer in a slot, while `read(now)` returns `None`: its pacing gate is closed, or it is finished (stopped /
    drained: this very call releases it) -/
theorem idle_held (cfg : Cfg) (tbl : List Nat) (ops : List Op) (now : Nat) (ticks : List (Nat × Nat))
    (hnone : (read (run (init cfg tbl) ops) now ticks).2 = Out.none) :
    ∀ pc ∈ heldOf (run (init cfg tbl) ops), ∀ f, getF (run (init cfg tbl) ops).objs pc.2.key = some f →
      gateBlocked f now = true ∨ pc.2.enc.stopped = true ∨ f.nPk ≤ pc.2.enc.sent := by
  intro pc hpc f hf
  unfold heldOf held at hpc
  obtain ⟨q, hq, hpq⟩ := List.mem_flatMap.mp hpc
  unfold heldQ heldSlots at hpq
  obtain ⟨cur, hcur, hpo⟩ := List.mem_flatMap.mp hpq
  cases cur with
  | none => simp [optHeld] at hpo
  | some c =>
    simp only [optHeld, List.mem_singleton] at hpo
    subst hpo
    obtain ⟨pre, post, hsess⟩ := List.append_of_mem hq
    obtain ⟨j, hj⟩ := List.getElem?_of_mem hcur
    cases hg : gateBlocked f now with
    | true => exact Or.inl rfl
    | false =>
      cases hs : c.enc.stopped with
      | true => exact Or.inr (Or.inl rfl)
      | false =>
        right; right
        rcases Nat.lt_or_ge c.enc.sent f.nPk with hlt | hge
        · exact absurd hnone (read_due cfg tbl ops pre post q j c f now ticks hsess hj hf hg hs hlt).1
        · exact hge

/-- a waiting object whose count / carousel gap allows a transfer, that is published and past its start time,
    while `read(now)` returns `None`: every slot of its priority queue holds a transfer whose pacing gate is closed -/
theorem idle_waiting (cfg : Cfg) (tbl : List Nat) (ops : List Op) (now : Nat) (ticks : List (Nat × Nat))
    (hsorted : (cfg.queues.map (fun x => x.1)).Pairwise (fun a b => a < b))
    (hnone : (read (run (init cfg tbl) ops) now ticks).2 = Out.none)
    (t : Nat) (f : FileDesc) (hq : t ∈ (run (init cfg tbl) ops).queue)
    (hf : getF (run (init cfg tbl) ops).objs t = some f)
    (hcar : f.maxCount > f.info.count ∨ gapElapsed f now = true)
    (hpub : (run (init cfg tbl) ops).cfg.mode = .full → f.published = true)
    (hst : ∀ st, f.info.startTime = some st → st ≤ now)
    (hff : QueueFaultFree (run (init cfg tbl) ops) f.prio) :
    ∀ q ∈ (run (init cfg tbl) ops).sessions, q.prio = f.prio → ∀ (j : Nat) (curj : Option Cur),
      q.slots[j]? = some curj →
      ∃ c g, curj = some c ∧ getF (run (init cfg tbl) ops).objs c.key = some g ∧ gateBlocked g now = true := by
  intro q hqs hp j curj hjs
  have hw := wf_run cfg tbl ops
  obtain ⟨f1, hf1, htr⟩ := hw.queueObj t hq
  rw [hf] at hf1; cases hf1
  have hel := eligible_of_waiting (mode := (run (init cfg tbl) ops).cfg.mode) (now := now) htr hcar hpub hst
  obtain ⟨t', ht'⟩ := findNext_some_of_exists (s := run (init cfg tbl) ops) (P := q.prio) (now := now)
    (run (init cfg tbl) ops).queue ⟨t, hq, f, hf, by rw [hp]; exact hel⟩
  obtain ⟨pre, post, hsess⟩ := List.append_of_mem hqs
  have hnav : ¬ Avail (run (init cfg tbl) ops) now curj := fun hav =>
    absurd hnone (read_wait cfg tbl ops pre post q j t' now ticks hsorted hsess curj hjs hav ht'
      (fun u _ g hg _ hw' => stale_run cfg tbl ops g (getF_mem hg) hw') (fun u hu g hg hgp => hff u hu g hg (hgp.trans hp))).1
  cases curj with
  | none => exact absurd (Or.inl rfl) hnav
  | some c =>
    have hin : (q.prio, c) ∈ heldOf (run (init cfg tbl) ops) := by
      unfold heldOf held
      refine List.mem_flatMap.mpr ⟨q, hqs, ?_⟩
      unfold heldQ heldSlots
      exact List.mem_flatMap.mpr ⟨some c, List.mem_of_getElem? hjs, by simp [optHeld]⟩
    obtain ⟨g, hg, _, _⟩ := hw.heldObj _ hin
    refine ⟨c, g, rfl, hg, ?_⟩
    cases hgate : gateBlocked g now with
    | true => rfl
    | false =>
      exfalso
      rcases idle_held cfg tbl ops now ticks hnone (q.prio, c) hin g hg with h1 | h1 | h1
      · rw [hgate] at h1; cases h1
      · exact hnav (Or.inr ⟨c, g, rfl, hg, hgate, Or.inl h1⟩)
      · exact hnav (Or.inr ⟨c, g, rfl, hg, hgate, Or.inr h1⟩)

end Flute.Sched
