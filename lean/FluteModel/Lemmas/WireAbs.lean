import FluteModel.Lemmas.Total
import FluteModel.WireAbs
/- range facts of what the parser returns (core Lean only) -/
namespace Flute.Fti
open Flute Flute.Bytes Flute.Lct Flute.Alc

/-- field ranges of an `(oti, transfer_length)` decoded from an EXT_FTI of scheme `fec` -/
structure FtiRange (fec : Nat) (o : Oti) (tl : Nat) : Prop where
  fec_eq : o.fecId = fec
  tl_lt : tl < 2^48
  e_lt : o.esl < 2^16
  b_lt : o.maxSbl < 2^32
  parity_lt : o.parity < 2^16
  inst_lt : o.inst < 2^16
  inband : o.inbandFti = true
  ss_ok : match o.ss with
    | .none => fec = 0 ∨ fec = 5 ∨ fec = 129
    | .rs m g => fec = 2 ∧ 1 ≤ m ∧ m < 256 ∧ 1 ≤ g ∧ g < 256
    | .raptorq z n al => fec = 6 ∧ tl < 2^40 ∧ 1 ≤ z ∧ z < 2^8 ∧ n < 2^16 ∧ 1 ≤ al ∧ al < 2^8 ∧ 1 ≤ o.esl ∧ o.esl % al = 0
    | .raptor z n al => fec = 1 ∧ 1 ≤ z ∧ z < 2^16 ∧ n < 2^8 ∧ 1 ≤ al ∧ al < 2^8 ∧ 1 ≤ o.esl ∧ o.esl % al = 0

theorem idx_lt (w : List Nat) (hw : Wf w) (i : Nat) (h : i < w.length) : ∃ v, idx w i = .ok v ∧ v < 256 :=
  ⟨w[i], idx_ok w i h, hw _ (List.getElem_mem h)⟩

theorem fld_bind_inv {β} (w : List Nat) (hw : Wf w) (i j : Nat) (f : Nat → Out β) (r : β) (h1 : i ≤ j) (h2 : j ≤ w.length)
    (h : (fld w i j).bind f = .ok r) : ∃ v, v < 256 ^ (j - i) ∧ f v = .ok r := by
  obtain ⟨v, hv, hlt⟩ := fld_lt w hw i j h1 h2
  rw [hv, Out.bind_ok] at h
  exact ⟨v, hlt, h⟩

theorem idx_bind_inv {β} (w : List Nat) (hw : Wf w) (i : Nat) (f : Nat → Out β) (r : β) (h1 : i < w.length)
    (h : (idx w i).bind f = .ok r) : ∃ v, v < 256 ∧ f v = .ok r := by
  obtain ⟨v, hv, hlt⟩ := idx_lt w hw i h1
  rw [hv, Out.bind_ok] at h
  exact ⟨v, hlt, h⟩

theorem getFtiNoCode_range (w : List Nat) (hw : Wf w) (o : Oti) (tl : Nat) (h : getFtiNoCode w = .ok (o, tl)) :
    FtiRange 0 o tl := by
  unfold getFtiNoCode at h
  split at h
  · cases h
  rename_i hl
  obtain ⟨l, _, h⟩ := idx_bind_inv w hw 1 _ _ (by omega) h
  split at h
  · cases h
  obtain ⟨t, ht, h⟩ := fld_bind_inv w hw 2 10 _ _ (by omega) (by omega) h
  obtain ⟨e, he, h⟩ := fld_bind_inv w hw 10 12 _ _ (by omega) (by omega) h
  obtain ⟨b, hb, h⟩ := fld_bind_inv w hw 12 16 _ _ (by omega) (by omega) h
  simp only [Out.ok.injEq, Prod.mk.injEq] at h
  obtain ⟨rfl, rfl⟩ := h
  simp only [Nat.reducePow, Nat.reduceSub] at *
  constructor <;> (try dsimp only) <;> (try simp only [NOCODE, RS28, RS28US, RS2M, RAPTORQ, RAPTOR, Nat.reducePow]) <;>
    first
    | omega | rfl | trivial | exact Or.inl trivial | exact Or.inr (Or.inl trivial) | exact Or.inr (Or.inr trivial)
    | (repeat' apply And.intro) <;> first | rfl | trivial | omega | (split <;> omega)


theorem getFtiRs28_range (w : List Nat) (hw : Wf w) (o : Oti) (tl : Nat) (h : getFtiRs28 w = .ok (o, tl)) :
    FtiRange 5 o tl := by
  unfold getFtiRs28 at h
  split at h
  · cases h
  rename_i hl
  obtain ⟨l, hl, h⟩ := idx_bind_inv w hw 1 _ _ (by omega) h
  split at h
  · cases h
  obtain ⟨t, ht, h⟩ := fld_bind_inv w hw 0 8 _ _ (by omega) (by omega) h
  obtain ⟨e, he, h⟩ := fld_bind_inv w hw 8 10 _ _ (by omega) (by omega) h
  obtain ⟨b, hb, h⟩ := idx_bind_inv w hw 10 _ _ (by omega) h
  obtain ⟨n, hn, h⟩ := idx_bind_inv w hw 11 _ _ (by omega) h
  simp only [Out.ok.injEq, Prod.mk.injEq] at h
  obtain ⟨rfl, rfl⟩ := h
  simp only [Nat.reducePow, Nat.reduceSub] at *
  constructor <;> (try dsimp only) <;> (try simp only [NOCODE, RS28, RS28US, RS2M, RAPTORQ, RAPTOR, Nat.reducePow]) <;>
    first
    | omega | rfl | trivial | exact Or.inl trivial | exact Or.inr (Or.inl trivial) | exact Or.inr (Or.inr trivial)
    | (repeat' apply And.intro) <;> first | rfl | trivial | omega | (split <;> omega)

theorem getFtiRs28Us_range (w : List Nat) (hw : Wf w) (o : Oti) (tl : Nat) (h : getFtiRs28Us w = .ok (o, tl)) :
    FtiRange 129 o tl := by
  unfold getFtiRs28Us at h
  split at h
  · cases h
  rename_i hl
  obtain ⟨l, hl, h⟩ := idx_bind_inv w hw 1 _ _ (by omega) h
  split at h
  · cases h
  obtain ⟨t, ht, h⟩ := fld_bind_inv w hw 2 10 _ _ (by omega) (by omega) h
  obtain ⟨i, hi, h⟩ := fld_bind_inv w hw 8 10 _ _ (by omega) (by omega) h
  obtain ⟨e, he, h⟩ := fld_bind_inv w hw 10 12 _ _ (by omega) (by omega) h
  obtain ⟨b, hb, h⟩ := fld_bind_inv w hw 12 14 _ _ (by omega) (by omega) h
  obtain ⟨n, hn, h⟩ := fld_bind_inv w hw 14 16 _ _ (by omega) (by omega) h
  simp only [Out.ok.injEq, Prod.mk.injEq] at h
  obtain ⟨rfl, rfl⟩ := h
  simp only [Nat.reducePow, Nat.reduceSub] at *
  constructor <;> (try dsimp only) <;> (try simp only [NOCODE, RS28, RS28US, RS2M, RAPTORQ, RAPTOR, Nat.reducePow]) <;>
    first
    | omega | rfl | trivial | exact Or.inl trivial | exact Or.inr (Or.inl trivial) | exact Or.inr (Or.inr trivial)
    | (repeat' apply And.intro) <;> first | rfl | trivial | omega | (split <;> omega)

theorem getFtiRs2m_range (w : List Nat) (hw : Wf w) (o : Oti) (tl : Nat) (h : getFtiRs2m w = .ok (o, tl)) :
    FtiRange 2 o tl := by
  unfold getFtiRs2m at h
  split at h
  · cases h
  rename_i hl
  obtain ⟨l, hl, h⟩ := idx_bind_inv w hw 1 _ _ (by omega) h
  split at h
  · cases h
  obtain ⟨t, ht, h⟩ := fld_bind_inv w hw 0 8 _ _ (by omega) (by omega) h
  obtain ⟨m, hm, h⟩ := idx_bind_inv w hw 8 _ _ (by omega) h
  obtain ⟨g, hg, h⟩ := idx_bind_inv w hw 9 _ _ (by omega) h
  obtain ⟨e, he, h⟩ := fld_bind_inv w hw 10 12 _ _ (by omega) (by omega) h
  obtain ⟨b, hb, h⟩ := fld_bind_inv w hw 12 14 _ _ (by omega) (by omega) h
  obtain ⟨n, hn, h⟩ := fld_bind_inv w hw 14 16 _ _ (by omega) (by omega) h
  simp only [Out.ok.injEq, Prod.mk.injEq] at h
  obtain ⟨rfl, rfl⟩ := h
  simp only [Nat.reducePow, Nat.reduceSub] at *
  constructor <;> (try dsimp only) <;> (try simp only [NOCODE, RS28, RS28US, RS2M, RAPTORQ, RAPTOR, Nat.reducePow]) <;>
    first
    | omega | rfl | trivial | exact Or.inl trivial | exact Or.inr (Or.inl trivial) | exact Or.inr (Or.inr trivial)
    | (repeat' apply And.intro) <;> first | rfl | trivial | omega | (split <;> omega)

theorem getFtiRaptorQ_range (w : List Nat) (hw : Wf w) (o : Oti) (tl : Nat) (h : getFtiRaptorQ w = .ok (o, tl)) :
    FtiRange 6 o tl := by
  unfold getFtiRaptorQ at h
  split at h
  · cases h
  rename_i hl
  obtain ⟨t, ht, h⟩ := fld_bind_inv w hw 2 10 _ _ (by omega) (by omega) h
  obtain ⟨e, he, h⟩ := fld_bind_inv w hw 8 10 _ _ (by omega) (by omega) h
  obtain ⟨z, hz, h⟩ := idx_bind_inv w hw 10 _ _ (by omega) h
  obtain ⟨n, hn, h⟩ := fld_bind_inv w hw 11 13 _ _ (by omega) (by omega) h
  obtain ⟨a, ha, h⟩ := idx_bind_inv w hw 13 _ _ (by omega) h
  split at h
  · cases h
  split at h
  · cases h
  split at h
  · cases h
  split at h
  · cases h
  simp only [Out.ok.injEq, Prod.mk.injEq] at h
  obtain ⟨rfl, rfl⟩ := h
  have hd1 := Nat.mod_lt (divCeil (divCeil (t / 2 ^ 24) z) e) (show 0 < 2^32 by decide)
  simp only [Nat.reducePow, Nat.reduceSub] at *
  constructor <;> (try dsimp only) <;> (try simp only [NOCODE, RS28, RS28US, RS2M, RAPTORQ, RAPTOR, Nat.reducePow]) <;>
    first
    | omega | rfl | trivial | exact Or.inl trivial | exact Or.inr (Or.inl trivial) | exact Or.inr (Or.inr trivial)
    | (repeat' apply And.intro) <;> first | rfl | trivial | omega | (split <;> omega)

theorem getFtiRaptor_range (w : List Nat) (hw : Wf w) (o : Oti) (tl : Nat) (h : getFtiRaptor w = .ok (o, tl)) :
    FtiRange 1 o tl := by
  unfold getFtiRaptor at h
  split at h
  · cases h
  rename_i hl
  obtain ⟨t, ht, h⟩ := fld_bind_inv w hw 2 10 _ _ (by omega) (by omega) h
  obtain ⟨e, he, h⟩ := fld_bind_inv w hw 10 12 _ _ (by omega) (by omega) h
  obtain ⟨z, hz, h⟩ := fld_bind_inv w hw 12 14 _ _ (by omega) (by omega) h
  obtain ⟨n, hn, h⟩ := idx_bind_inv w hw 14 _ _ (by omega) h
  obtain ⟨a, ha, h⟩ := idx_bind_inv w hw 15 _ _ (by omega) h
  split at h
  · cases h
  split at h
  · cases h
  split at h
  · cases h
  split at h
  · cases h
  simp only [Out.ok.injEq, Prod.mk.injEq] at h
  obtain ⟨rfl, rfl⟩ := h
  have hd1 := Nat.mod_lt (divCeil (divCeil (t / 2 ^ 16) z) e) (show 0 < 2^32 by decide)
  simp only [Nat.reducePow, Nat.reduceSub] at *
  constructor <;> (try dsimp only) <;> (try simp only [NOCODE, RS28, RS28US, RS2M, RAPTORQ, RAPTOR, Nat.reducePow]) <;>
    first
    | omega | rfl | trivial | exact Or.inl trivial | exact Or.inr (Or.inl trivial) | exact Or.inr (Or.inr trivial)
    | (repeat' apply And.intro) <;> first | rfl | trivial | omega | (split <;> omega)

theorem getFtiBytes_range (fec : Nat) (w : List Nat) (hw : Wf w) (o : Oti) (tl : Nat)
    (h : getFtiBytes fec w = .ok (o, tl)) : FtiRange fec o tl := by
  unfold getFtiBytes at h
  split at h
  · rename_i hf; rw [hf]; exact getFtiNoCode_range w hw o tl h
  split at h
  · rename_i hf; rw [hf]; exact getFtiRs28_range w hw o tl h
  split at h
  · rename_i hf; rw [hf]; exact getFtiRs28Us_range w hw o tl h
  split at h
  · rename_i hf; rw [hf]; exact getFtiRs2m_range w hw o tl h
  split at h
  · rename_i hf; rw [hf]; exact getFtiRaptorQ_range w hw o tl h
  split at h
  · rename_i hf; rw [hf]; exact getFtiRaptor_range w hw o tl h
  · cases h

end Flute.Fti

namespace Flute.Alc
open Flute Flute.Bytes Flute.Lct Flute.Fti Flute.Ntp

theorem getFti_range (fec : Nat) (d : List Nat) (hw : Wf d) (l : LctHeader) (hinv : HdrInv d l) (o : Oti) (tl : Nat)
    (h : getFti fec d l = .ok (some (o, tl))) : FtiRange fec o tl := by
  unfold getFti at h
  rcases getExt_cases d l EXT_FTI hinv with he | he | ⟨r, he, hr⟩
  · rw [he] at h; cases h
  · rw [he] at h; cases h
  · rw [he, Out.bind_ok] at h
    simp only [] at h
    cases hg : getFtiBytes fec r with
    | ok v =>
      rw [hg, Out.bind_ok] at h
      simp only [Out.ok.injEq, Option.some.injEq] at h
      subst h
      exact getFtiBytes_range fec r (fun b hb => hw b (hr.sub b hb)) o tl hg
    | err => rw [hg] at h; cases h
    | panic w => rw [hg] at h; cases h

theorem parseCenc_range (ext : List Nat) (c : Nat) (h : parseCenc ext = .ok c) : c ≤ 3 := by
  unfold parseCenc at h
  split at h
  · cases h
  · rename_i hl
    rw [idx_ok ext 1 (by omega), Out.bind_ok] at h
    split at h
    · rename_i hc; simp only [Out.ok.injEq] at h; omega
    · cases h

theorem cencOf_range (ce : Option (List Nat)) (c : Nat) (h : cencOf ce = .ok (some c)) : c ≤ 3 := by
  unfold cencOf at h
  cases ce with
  | none => cases h
  | some ext =>
    simp only [] at h
    cases hp : parseCenc ext with
    | ok v =>
      rw [hp] at h
      simp only [Out.ok.injEq, Option.some.injEq] at h
      subst h
      exact parseCenc_range ext v hp
    | err => rw [hp] at h; cases h
    | panic w => rw [hp] at h; cases h

theorem fdtInfoOf_range (d : List Nat) (l : LctHeader) (hinv : HdrInv d l) (v i : Nat)
    (h : fdtInfoOf d l = .ok (some (v, i))) : v < 16 ∧ i < 2^20 ∧ l.toi = 0 := by
  unfold fdtInfoOf at h
  split at h
  · rename_i ht
    rcases getExt_cases d l EXT_FDT hinv with he | he | ⟨r, he, _⟩
    · rw [he] at h; cases h
    · rw [he] at h; cases h
    · rw [he, Out.bind_ok] at h
      simp only [] at h
      unfold parseExtFdt at h
      split at h
      · cases h
      · simp only [Out.ok.injEq, Option.some.injEq, Prod.mk.injEq] at h
        obtain ⟨rfl, rfl⟩ := h
        exact ⟨Nat.mod_lt _ (by decide), Nat.mod_lt _ (by decide), ht⟩
  · cases h

theorem ntpToSystemTime_range (n t : Nat) (hn : n < 2^64) (h : ntpToSystemTime n = .ok t) : t < 4294967296 * 1000000 := by
  unfold ntpToSystemTime at h
  simp only [Nat.reducePow] at h hn
  split at h
  · cases h
  · split at h
    · simp only [Out.ok.injEq] at h; omega
    · cases h

theorem parseSct_range (ext : List Nat) (hw : Wf ext) (t : Nat) (h : parseSct ext = .ok (some t)) :
    t < 4294967296 * 1000000 := by
  unfold parseSct at h
  split at h
  · cases h
  rename_i h4
  rw [idx_ok ext 2 (by omega), Out.bind_ok] at h
  simp only [] at h
  split at h
  · cases h
  rename_i hl
  split at h
  · cases h
  rename_i hhi
  obtain ⟨secs, hs, h⟩ := fld_bind_inv ext hw 4 8 _ _ (by omega) (by omega) h
  simp only [Nat.reducePow, Nat.reduceSub] at hs
  have key : ∀ frac, frac < 4294967296 →
      ((ntpToSystemTime (secs * 2 ^ 32 + frac)).bind fun t => Out.ok (some t)) = Out.ok (some t) →
      t < 4294967296 * 1000000 := by
    intro frac hf hh
    cases hn : ntpToSystemTime (secs * 2 ^ 32 + frac) with
    | ok v =>
      rw [hn, Out.bind_ok] at hh
      simp only [Out.ok.injEq, Option.some.injEq] at hh
      subst hh
      exact ntpToSystemTime_range _ _ (by simp only [Nat.reducePow]; omega) hn
    | err => rw [hn] at hh; cases hh
    | panic w => rw [hn] at hh; cases hh
  split at h
  · rename_i hlo
    obtain ⟨frac, hfr, h⟩ := fld_bind_inv ext hw 8 12 _ _ (by omega) (by omega) h
    simp only [Nat.reducePow, Nat.reduceSub] at hfr
    exact key frac hfr h
  · rw [Out.bind_ok] at h
    exact key 0 (by decide) h

end Flute.Alc

namespace Flute.Lct
open Flute Flute.Bytes

theorem beVal_slice_lt (d : List Nat) (hw : Wf d) (k i n m : Nat) (hn : n ≤ m) :
    beVal (List.replicate k 0 ++ List.take n (List.drop i d)) < 256 ^ m := by
  rw [beVal_replicate_zero]
  have h1 := beVal_lt _ (wf_take (wf_drop hw i) n)
  have h2 : (List.take n (List.drop i d)).length ≤ m := by
    have := List.length_take_le n (List.drop i d); omega
  exact Nat.lt_of_lt_of_le h1 (Nat.pow_le_pow_right (by decide) h2)

/-- value ranges of an accepted LCT header -/
theorem parseLctHeader_range (d : List Nat) (hw : Wf d) (l : LctHeader) (h : parseLctHeader d = .ok l) :
    l.cci < 2^128 ∧ l.tsi < 2^48 ∧ l.toi < 2^112 ∧ l.cp < 256 ∧ d[3]? = some l.cp := by
  unfold parseLctHeader at h
  split at h
  · cases h
  rename_i v hv
  simp only [] at h
  split at h
  · cases h
  rename_i h1
  have h4 : 4 ≤ d.length := by omega
  rw [idx_ok d 3 (by omega), idx_ok d 0 (by omega), idx_ok d 1 (by omega)] at h
  simp only [Out.bind_ok] at h
  split at h
  · cases h
  split at h
  · cases h
  split at h
  · cases h
  rename_i h2 h3
  rw [slice_ok _ _ _ (by omega) (by omega), slice_ok _ _ _ (by omega) (by omega),
      slice_ok _ _ _ (by omega) (by omega)] at h
  simp only [Out.bind_ok, Out.ok.injEq] at h
  subst h
  refine ⟨?_, ?_, ?_, hw _ (List.getElem_mem _), List.getElem?_eq_getElem (by omega)⟩
  · have := beVal_slice_lt d hw (16 - (d[0] / 4 % 4 + 1) * 4) 4 (4 + (d[0] / 4 % 4 + 1) * 4 - 4) 16 (by omega)
    rw [show (2:Nat)^128 = 256^16 by decide]; exact this
  · rw [show (2:Nat)^48 = 256^6 by decide]
    exact beVal_slice_lt d hw _ _ _ 6 (by omega)
  · rw [show (2:Nat)^112 = 256^14 by decide]
    exact beVal_slice_lt d hw _ _ _ 14 (by omega)

end Flute.Lct

namespace Flute.Fti
open Flute Flute.Bytes

theorem pidOfBytes_range (oti : Oti) (W : List Nat) (hW : Wf W) (pid : PayloadId) (h : pidOfBytes oti W = .ok pid) :
    pid.sbn < 2^32 ∧ pid.esi < 2^32 ∧ ∀ s, pid.sbl = some s → s < 2^16 := by
  have hv := beVal_lt W hW
  unfold pidOfBytes at h
  split at h
  · split at h
    · cases h
    rename_i hl
    have hl' : W.length = 8 := by omega
    rw [hl'] at hv
    simp only [Out.ok.injEq] at h; subst h
    simp only [Nat.reducePow] at hv ⊢
    refine ⟨by omega, by omega, ?_⟩
    intro s hs; simp only [Option.some.injEq] at hs; omega
  · split at h
    · cases h
    rename_i hl
    have hl' : W.length = 4 := by omega
    rw [hl'] at hv
    have hv' : beVal W < 2 ^ 32 := by rw [show (2:Nat)^32 = 256^4 by decide]; exact hv
    repeat' split at h
    all_goals first
      | (simp only [Out.ok.injEq] at h; subst h
         exact ⟨Nat.lt_of_le_of_lt (Nat.div_le_self _ _) hv', Nat.lt_of_le_of_lt (Nat.mod_le _ _) hv',
           fun s hs => by cases hs⟩)
      | (simp only [] at h
         split at h
         · cases h
         · simp only [Out.ok.injEq] at h; subst h
           exact ⟨Nat.lt_of_le_of_lt (Nat.div_le_self _ _) hv', Nat.lt_of_le_of_lt (Nat.mod_le _ _) hv',
             fun s hs => by cases hs⟩)
      | cases h

end Flute.Fti

namespace Flute.WireAbs
open Flute Flute.Bytes Flute.Lct Flute.Fti Flute.Alc

/-- range facts of an OTI + transfer length in the object model's vocabulary -/
def ObjFtiFacts (cp : FecDec.Scheme) (o : FecDec.Oti) (tl : Nat) : Prop :=
  o.scheme = cp ∧ tl < 2^48 ∧ o.e < 2^16 ∧ o.b < 2^32 ∧ o.parity < 2^16 ∧
  match o.ss with
  | none => cp = .noCode ∨ cp = .rs28 ∨ cp = .rs28us
  | some (.rs m g) => cp = .rs2m ∧ 1 ≤ m ∧ m < 256 ∧ 1 ≤ g ∧ g < 256
  | some (.rq z n al) => cp = .raptorQ ∧ tl < 2^40 ∧ 1 ≤ z ∧ z < 2^8 ∧ n < 2^16 ∧ 1 ≤ al ∧ al < 2^8 ∧ 1 ≤ o.e ∧ o.e % al = 0
  | some (.r z n al) => cp = .raptor ∧ 1 ≤ z ∧ z < 2^16 ∧ n < 2^8 ∧ 1 ≤ al ∧ al < 2^8 ∧ 1 ≤ o.e ∧ o.e % al = 0

/-- what the object model may assume of a packet handed to `ObjectReceiver::push` -/
structure ObjPktFacts (d : List Nat) (q : ObjRecv.Pkt) : Prop where
  toi_lt : q.toi < 2^112
  fti : ∀ o tl, q.fti = some (o, tl) → ObjFtiFacts q.cp o tl
  pid_len : q.pid.length = (if q.cp = .rs28us then 8 else 4)
  /-- header, payload id, payload are consecutive slices of the datagram: `poff ≤ data.len()`, nothing overlaps -/
  split : ∃ hdr, d = hdr ++ (q.pid ++ q.payload) ∧ 4 ≤ hdr.length ∧ hdr.length % 4 = 0
  data_len : q.dataLen = d.length
  pid_bytes : Wf q.pid
  payload_bytes : Wf q.payload

/-- what the session model may assume beyond `Recv.Pkt.WF` -/
structure RecvPktFacts (d : List Nat) (r : Recv.Pkt) : Prop where
  toi_lt : r.toi < 2^112
  fti : ∀ f, r.fti = some f → f.len < 2^48 ∧ f.oti.esl < 2^16 ∧ f.oti.msbl < 2^32 ∧ f.oti.fec < 256
  pid : ∀ sbn esi, r.pid = some (sbn, esi) → sbn < 2^32 ∧ esi < 2^32
  plen_le : r.plen ≤ r.dlen
  dlen_eq : r.dlen = d.length
  raw_eq : r.raw = d

theorem schemeOf_facts (cp : Nat) (hk : knownFec cp = true) :
    (cp = 0 → schemeOf cp = .noCode) ∧ (cp = 1 → schemeOf cp = .raptor) ∧ (cp = 2 → schemeOf cp = .rs2m) ∧
    (cp = 5 → schemeOf cp = .rs28) ∧ (cp = 6 → schemeOf cp = .raptorQ) ∧ (cp = 129 → schemeOf cp = .rs28us) ∧
    ((schemeOf cp = .rs28us) ↔ cp = 129) := by
  simp only [knownFec, decide_eq_true_eq] at hk
  rcases hk with h | h | h | h | h | h <;> subst h <;> simp [schemeOf]


end Flute.WireAbs
