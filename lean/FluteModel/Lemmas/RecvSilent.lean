import FluteModel.Lemmas.RecvExpiry
/-
  C19 `expired_only_is_silent`: an object that is never attached to an FDT instance causes no writer
  call at all.  This needs a contract on the object implementation (`ObjIface.Law`): an object makes
  writer calls only after a successful `attach_fdt`, and `attach_fdt` succeeds only for an instance
  that lists its TOI.  (`ObjectReceiver::init_object_writer` requires `fdt_instance_id.is_some()`,
  which for TOI ≠ 0 is set only by `attach_fdt`.)
-/
namespace Flute.Recv
variable {σ : Type}

/-- Contract of an object implementation, for packets of TOI ≠ 0. -/
structure ObjIface.Law (I : ObjIface σ) where
  /-- ghost: the object has been attached to an FDT instance -/
  attached : σ → Bool
  /-- ghost: the TOI the object was created for -/
  toi : σ → Nat
  new_attached : ∀ t mc, attached (I.new t mc) = false
  new_toi : ∀ t mc, toi (I.new t mc) = t
  push_toi : ∀ o p, toi (I.push o p).1 = toi o
  push_attached : ∀ o p, p.toi ≠ 0 → attached (I.push o p).1 = attached o
  push_silent : ∀ o p, p.toi ≠ 0 → attached o = false → (I.push o p).2 = []
  attach_toi : ∀ o id fdt, toi (I.attachFdt o id fdt).1 = toi o
  attach_fail : ∀ o id fdt, (I.attachFdt o id fdt).2.1 = false → attached o = false →
    attached (I.attachFdt o id fdt).1 = false ∧ (I.attachFdt o id fdt).2.2 = []
  attach_lists : ∀ o id fdt, (I.attachFdt o id fdt).2.1 = true → (fdt.getFile (toi o)).isSome
  drop_silent : ∀ o, attached o = false → I.drop o = []

variable {I : ObjIface σ}

/-- every object registered under key `t` was created for `t`; the one for `toi` is unattached -/
def InvT (L : I.Law) (toi : Nat) (objs : List (Nat × σ)) : Prop :=
  ∀ k o, (k, o) ∈ objs → L.toi o = k ∧ (k = toi → L.attached o = false)

/-- no writer call of TOI `toi` in the list -/
def Silent (toi : Nat) (evs : List Ev) : Prop := ∀ e, Ev.w toi e ∉ evs

theorem Silent.nil {toi : Nat} : Silent toi [] := by intro e; simp

theorem Silent.append {toi : Nat} {a b : List Ev} (ha : Silent toi a) (hb : Silent toi b) :
    Silent toi (a ++ b) := by
  intro e h
  rcases List.mem_append.mp h with h | h
  · exact ha e h
  · exact hb e h

theorem silent_wevs_ne {toi t : Nat} (l : List WEv) (h : t ≠ toi) : Silent toi (wevs t l) := by
  intro e hm
  simp [wevs] at hm
  exact h hm.2

theorem silent_wevs_nil {toi : Nat} (t : Nat) : Silent toi (wevs t []) := by
  intro e hm; simp [wevs] at hm

theorem InvT.aerase {L : I.Law} {toi k : Nat} {objs : List (Nat × σ)} (h : InvT L toi objs) :
    InvT L toi (aerase k objs) := fun k' o hm => h k' o (mem_aerase hm)

theorem InvT.ainsert {L : I.Law} {toi k : Nat} {o : σ} {objs : List (Nat × σ)} (h : InvT L toi objs)
    (ho : L.toi o = k ∧ (k = toi → L.attached o = false)) : InvT L toi (ainsert k o objs) := by
  intro k' o' hm
  rcases mem_ainsert hm with hm | hm
  · injection hm with h1 h2; subst h1; subst h2; exact ho
  · exact h k' o' hm

theorem removeObject_silent (L : I.Law) (toi : Nat) (s : State σ) (t : Nat)
    (h : InvT L toi s.objects) :
    InvT L toi (removeObject I s t).1.objects ∧ Silent toi (removeObject I s t).2 := by
  unfold removeObject
  split
  · exact ⟨h, Silent.nil⟩
  · rename_i o ho
    refine ⟨h.aerase, ?_⟩
    by_cases ht : t = toi
    · have := (h t o (alookup_mem ho)).2 ht
      rw [L.drop_silent o this]; exact silent_wevs_nil t
    · exact silent_wevs_ne _ ht

theorem gcObjectError_silent (L : I.Law) (toi : Nat) (fuel : Nat) (s : State σ)
    (h : InvT L toi s.objects) :
    InvT L toi (gcObjectError I fuel s).1.objects ∧ Silent toi (gcObjectError I fuel s).2 := by
  induction fuel generalizing s with
  | zero => simp [gcObjectError]; exact ⟨h, Silent.nil⟩
  | succ n ih =>
    unfold gcObjectError
    split
    · split
      · exact ⟨h, Silent.nil⟩
      · rename_i t rest _
        have h1 := removeObject_silent L toi { s with errors := rest } t h
        have h2 := ih (removeObject I { s with errors := rest } t).1 h1.1
        exact ⟨h2.1, h1.2.append h2.2⟩
    · exact ⟨h, Silent.nil⟩

theorem checkObjectState_silent (L : I.Law) (toi : Nat) (s : State σ) (t : Nat)
    (h : InvT L toi s.objects) :
    InvT L toi (checkObjectState I s t).1.objects ∧ Silent toi (checkObjectState I s t).2 := by
  unfold checkObjectState
  split
  · exact ⟨h, Silent.nil⟩
  · split
    · exact ⟨h, Silent.nil⟩
    · apply removeObject_silent
      split <;> exact h
    all_goals
      have h2 := gcObjectError_silent L toi (sinsert t s.errors).length { s with errors := sinsert t s.errors } h
      have h3 := removeObject_silent L toi (gcObjectError I (sinsert t s.errors).length { s with errors := sinsert t s.errors }).1 t h2.1
      exact ⟨h3.1, h2.2.append h3.2⟩

theorem checkObjectStates_silent (L : I.Law) (toi : Nat) (s : State σ) (l : List Nat)
    (h : InvT L toi s.objects) :
    InvT L toi (checkObjectStates I s l).1.objects ∧ Silent toi (checkObjectStates I s l).2 := by
  induction l generalizing s with
  | nil => simp [checkObjectStates]; exact ⟨h, Silent.nil⟩
  | cons t ts ih =>
    simp only [checkObjectStates]
    have h1 := checkObjectState_silent L toi s t h
    have h2 := ih (checkObjectState I s t).1 h1.1
    exact ⟨h2.1, h1.2.append h2.2⟩

/-- the attach loop: if it emits no attach event for `toi`, the object of `toi` stays unattached and silent -/
theorem attachAll_silent (L : I.Law) (toi id : Nat) (inst : FdtAbs) (objs : List (Nat × σ))
    (h : InvT L toi objs) (hna : ∀ i, Ev.attach toi i ∉ (attachAll I id inst objs).2.2) :
    InvT L toi (attachAll I id inst objs).1 ∧ Silent toi (attachAll I id inst objs).2.2 := by
  induction objs with
  | nil => simp [attachAll]; exact ⟨h, Silent.nil⟩
  | cons a r ih =>
    obtain ⟨k, o⟩ := a
    simp only [attachAll] at hna ⊢
    have hr : InvT L toi r := fun k' o' hm => h k' o' (List.mem_cons_of_mem _ hm)
    have hko := h k o (by simp)
    have hna_r : ∀ i, Ev.attach toi i ∉ (attachAll I id inst r).2.2 := by
      intro i hm
      exact hna i (List.mem_append_right _ hm)
    have ihr := ih hr hna_r
    by_cases hk : k = toi
    · subst hk
      -- the attempt on this object failed (otherwise an attach event for `toi` is emitted)
      have hfail : (I.attachFdt o id inst).2.1 = false := by
        cases hsucc : (I.attachFdt o id inst).2.1 with
        | false => rfl
        | true =>
          exfalso
          apply hna id
          apply List.mem_append_left
          apply List.mem_append_right
          simp [hsucc]
      have hf := L.attach_fail o id inst hfail (hko.2 rfl)
      refine ⟨?_, ?_⟩
      · intro k' o' hm
        rcases List.mem_cons.mp hm with hm | hm
        · injection hm with h1 h2; subst h1; subst h2
          exact ⟨by rw [L.attach_toi]; exact hko.1, fun _ => hf.1⟩
        · exact ihr.1 k' o' hm
      · rw [hf.2, hfail]
        simp only [Bool.false_eq_true, ↓reduceIte, List.append_nil]
        exact (silent_wevs_nil _).append ihr.2
    · refine ⟨?_, ?_⟩
      · intro k' o' hm
        rcases List.mem_cons.mp hm with hm | hm
        · injection hm with h1 h2; subst h1; subst h2
          exact ⟨by rw [L.attach_toi]; exact hko.1, fun h => absurd h hk⟩
        · exact ihr.1 k' o' hm
      · refine ((silent_wevs_ne _ hk).append ?_).append ihr.2
        intro e hm
        split at hm <;> simp at hm


theorem attachLatest_silent (L : I.Law) (toi : Nat) (s : State σ) (h : InvT L toi s.objects)
    (hna : ∀ i, Ev.attach toi i ∉ (attachLatest I s).2) :
    InvT L toi (attachLatest I s).1.objects ∧ Silent toi (attachLatest I s).2 := by
  cases hcur : s.fdtCurrent with
  | nil => simp only [attachLatest, hcur]; exact ⟨h, Silent.nil⟩
  | cons f r =>
    cases hinst : f.inst with
    | none => simp only [attachLatest, hcur, hinst]; exact ⟨h, Silent.nil⟩
    | some inst =>
      simp only [attachLatest, hcur, hinst] at hna ⊢
      have hna1 : ∀ i, Ev.attach toi i ∉ (attachAll I f.fdtId inst s.objects).2.2 :=
        fun i hm => hna i (List.mem_append_left _ hm)
      have h1 := attachAll_silent L toi f.fdtId inst s.objects h hna1
      have h2 := checkObjectStates_silent L toi
        { s with objects := (attachAll I f.fdtId inst s.objects).1, fdtCurrent := f :: r } (attachAll I f.fdtId inst s.objects).2.1 h1.1
      exact ⟨h2.1, h1.2.append h2.2⟩

theorem createScan_silent (L : I.Law) (toi t : Nat) (now : Int) :
    ∀ (l : List (FdtRecv σ)) (o o' : σ) (l' : List (FdtRecv σ)) (evs : List Ev),
      createScan I t now o l = .ok (o', l', evs) → L.toi o = t →
      L.toi o' = t ∧
      (t = toi → L.attached o = false → (∀ i, Ev.attach toi i ∉ evs) →
        L.attached o' = false ∧ Silent toi evs) ∧
      (t ≠ toi → Silent toi evs) := by
  intro l
  induction l with
  | nil =>
    intro o o' l' evs h ht
    simp [createScan] at h
    obtain ⟨rfl, _, rfl⟩ := h
    exact ⟨ht, fun _ ha _ => ⟨ha, Silent.nil⟩, fun _ => Silent.nil⟩
  | cons f r ih =>
    intro o o' l' evs h ht
    unfold createScan at h
    split at h
    · cases h
    · rename_i f' hup
      simp only [] at h
      split at h
      · -- success
        rename_i o1 evs1 hatt
        simp only [Except.ok.injEq, Prod.mk.injEq] at h
        obtain ⟨rfl, _, rfl⟩ := h
        have ho1 : ∃ inst, I.attachFdt o f'.fdtId inst = (o1, true, evs1) := by
          split at hatt
          · split at hatt
            · rename_i inst _
              exact ⟨inst, by simpa using hatt⟩
            · cases hatt
          · cases hatt
        obtain ⟨inst, ho1⟩ := ho1
        have htoi1 : L.toi o1 = t := by
          have := L.attach_toi o f'.fdtId inst
          rw [ho1] at this; rw [this]; exact ht
        refine ⟨htoi1, ?_, ?_⟩
        · intro hteq _ hna
          exfalso
          apply hna f'.fdtId
          subst hteq
          simp
        · intro hne
          refine (silent_wevs_ne _ hne).append ?_
          intro e hm; simp at hm
      · -- failed attempt, go on
        rename_i o1 evs1 hatt
        split at h
        · cases h
        · rename_i o2 r2 ev2 hrec
          simp only [Except.ok.injEq, Prod.mk.injEq] at h
          obtain ⟨rfl, _, rfl⟩ := h
          have ho1 : ∃ inst, I.attachFdt o f'.fdtId inst = (o1, false, evs1) := by
            split at hatt
            · split at hatt
              · rename_i inst _
                exact ⟨inst, by simpa using hatt⟩
              · cases hatt
            · cases hatt
          obtain ⟨inst, ho1⟩ := ho1
          have htoi1 : L.toi o1 = t := by
            have := L.attach_toi o f'.fdtId inst
            rw [ho1] at this; rw [this]; exact ht
          obtain ⟨hto2, hsil, hne⟩ := ih _ _ _ _ hrec htoi1
          refine ⟨hto2, ?_, ?_⟩
          · intro hteq ha hna
            have hfail := L.attach_fail o f'.fdtId inst (by rw [ho1]) ha
            rw [ho1] at hfail
            simp only [] at hfail
            have hna2 : ∀ i, Ev.attach toi i ∉ ev2 := fun i hm => hna i (List.mem_append_right _ hm)
            obtain ⟨ha2, hs2⟩ := hsil hteq hfail.1 hna2
            refine ⟨ha2, ?_⟩
            rw [hfail.2]
            exact (silent_wevs_nil _).append hs2
          · intro hneq
            exact (silent_wevs_ne _ hneq).append (hne hneq)
      · split at h
        · cases h
        · rename_i o2 r2 ev2 hrec
          simp only [Except.ok.injEq, Prod.mk.injEq] at h
          obtain ⟨rfl, _, rfl⟩ := h
          exact ih _ _ _ _ hrec ht

theorem createObj_silent (L : I.Law) (toi t : Nat) (s s' : State σ) (now : Int) (evs : List Ev)
    (h : createObj I s t now = .ok (s', evs)) (hinv : InvT L toi s.objects)
    (hna : ∀ i, Ev.attach toi i ∉ evs) :
    InvT L toi s'.objects ∧ Silent toi evs := by
  unfold createObj at h
  split at h
  · cases h
  · rename_i o cur ev hscan
    simp only [Except.ok.injEq, Prod.mk.injEq] at h
    obtain ⟨rfl, rfl⟩ := h
    obtain ⟨hto, hsil, hne⟩ := createScan_silent L toi t now _ _ _ _ _ hscan (L.new_toi _ _)
    by_cases ht : t = toi
    · obtain ⟨ha, hs⟩ := hsil ht (L.new_attached _ _) hna
      exact ⟨hinv.ainsert ⟨hto, fun _ => ha⟩, hs⟩
    · exact ⟨hinv.ainsert ⟨hto, fun h => absurd h ht⟩, hne ht⟩


/-- shared conclusion -/
def StepSilent (L : I.Law) (toi : Nat) (s' : State σ) (evs : List Ev) : Prop :=
  InvT L toi s'.objects ∧ Silent toi evs

theorem pushObjCore_silent (L : I.Law) (toi : Nat) (s s' : State σ) (p : Pkt) (now : Int) (r : Res)
    (evs : List Ev) (h : pushObjCore I s p now = .ok (s', r, evs)) (hp : p.toi ≠ 0)
    (hinv : InvT L toi s.objects) (hna : ∀ i, Ev.attach toi i ∉ evs) : StepSilent L toi s' evs := by
  unfold pushObjCore at h
  simp only [] at h
  split at h
  · cases h
  · rename_i s1 e0 hc
    have hs1 : (∀ i, Ev.attach toi i ∉ e0) → StepSilent L toi s1 e0 := by
      intro hna0
      split at hc
      · exact createObj_silent L toi _ _ _ _ _ hc hinv hna0
      · simp only [Except.ok.injEq, Prod.mk.injEq] at hc
        obtain ⟨rfl, rfl⟩ := hc
        exact ⟨hinv, Silent.nil⟩
    split at h
    · simp only [Except.ok.injEq, Prod.mk.injEq] at h
      obtain ⟨rfl, _, rfl⟩ := h
      exact hs1 hna
    · rename_i o ho
      simp only [Except.ok.injEq, Prod.mk.injEq] at h
      obtain ⟨rfl, _, rfl⟩ := h
      have hna0 : ∀ i, Ev.attach toi i ∉ e0 :=
        fun i hm => hna i (List.mem_append_left _ (List.mem_append_left _ hm))
      obtain ⟨hi1, hsil0⟩ := hs1 hna0
      have hko := hi1 p.toi o (alookup_mem ho)
      have hins : InvT L toi (ainsert p.toi (I.push o p).1 s1.objects) := by
        apply hi1.ainsert
        refine ⟨by rw [L.push_toi]; exact hko.1, fun ht => ?_⟩
        rw [L.push_attached o p hp]; exact hko.2 ht
      have hc := checkObjectState_silent L toi { s1 with objects := ainsert p.toi (I.push o p).1 s1.objects } p.toi hins
      refine ⟨hc.1, (hsil0.append ?_).append hc.2⟩
      by_cases ht : p.toi = toi
      · rw [L.push_silent o p hp (hko.2 ht)]; exact silent_wevs_nil _
      · exact silent_wevs_ne _ ht

theorem gateCompleted_objects {s s1 : State σ} {p : Pkt} (h : gateCompleted s p = .inl s1) :
    s1.objects = s.objects := by
  unfold gateCompleted at h
  split at h
  · split at h
    · cases h
    · split at h
      · cases h
      · split at h
        · injection h with h; subst h; simp
        · cases h
  · injection h with h; subst h; simp

theorem gateError_objects {s s1 : State σ} {p : Pkt} (h : gateError s p = .inl s1) :
    s1.objects = s.objects := by
  unfold gateError at h
  split at h
  · split at h
    · cases h
    · split at h
      · injection h with h; subst h; simp
      · cases h
  · injection h with h; subst h; simp

theorem pushObj_silent (L : I.Law) (toi : Nat) (s s' : State σ) (p : Pkt) (now : Int) (r : Res)
    (evs : List Ev) (h : pushObj I s p now = .ok (s', r, evs)) (hp : p.toi ≠ 0)
    (hinv : InvT L toi s.objects) (hna : ∀ i, Ev.attach toi i ∉ evs) : StepSilent L toi s' evs := by
  unfold pushObj at h
  split at h
  · simp only [Except.ok.injEq, Prod.mk.injEq] at h
    obtain ⟨rfl, _, rfl⟩ := h
    exact ⟨hinv, Silent.nil⟩
  · rename_i s1 hg1
    split at h
    · simp only [Except.ok.injEq, Prod.mk.injEq] at h
      obtain ⟨rfl, _, rfl⟩ := h
      exact ⟨by rw [gateCompleted_objects hg1]; exact hinv, Silent.nil⟩
    · rename_i s2 hg2
      refine pushObjCore_silent L toi s2 s' p now r evs h hp ?_ hna
      rw [gateError_objects hg2, gateCompleted_objects hg1]; exact hinv

theorem gcObjectCompleted_objects (s : State σ) : (gcObjectCompleted s).objects = s.objects := by
  unfold gcObjectCompleted
  split
  · rfl
  · split
    · rfl
    · split <;> rfl

theorem updateCcLoop_silent (toi : Nat) (e : Option Int) (fs : List FileAbs) (c : List (Nat × CacheControl)) :
    Silent toi (updateCcLoop e fs c).2 := by
  induction fs generalizing c with
  | nil => simp [updateCcLoop]; exact Silent.nil
  | cons x xs ih =>
    unfold updateCcLoop
    simp only []
    split
    · split
      · intro ev h
        simp at h
        exact ih _ ev h
      · exact ih _
    · exact ih _

theorem updateCompletedCc_silent (toi : Nat) (s : State σ) :
    (updateCompletedCc s).1.objects = s.objects ∧ Silent toi (updateCompletedCc s).2 := by
  unfold updateCompletedCc
  split
  · exact ⟨rfl, Silent.nil⟩
  · split
    · exact ⟨rfl, Silent.nil⟩
    · split
      · exact ⟨rfl, Silent.nil⟩
      · exact ⟨rfl, updateCcLoop_silent _ _ _ _⟩

theorem fdtCompleted_silent (L : I.Law) (toi : Nat) (s s' : State σ) (id : Nat) (r : Res)
    (evs : List Ev) (h : fdtCompleted I s id = .ok (s', r, evs))
    (hinv : InvT L toi s.objects) (hna : ∀ i, Ev.attach toi i ∉ evs) : StepSilent L toi s' evs := by
  unfold fdtCompleted at h
  simp only [] at h
  split at h
  · cases h
  · split at h
    · simp only [Except.ok.injEq, Prod.mk.injEq] at h
      obtain ⟨rfl, _, rfl⟩ := h
      exact ⟨hinv, Silent.nil⟩
    · rename_i f hf
      split at h
      · cases h
      · rename_i e0 hcb
        simp only [Except.ok.injEq, Prod.mk.injEq] at h
        obtain ⟨rfl, _, rfl⟩ := h
        have he0 : Silent toi e0 := by
          unfold fdtCb at hcb
          split at hcb
          · split at hcb
            · injection hcb with hcb; subst hcb; intro e hm; simp at hm
            · cases hcb
          · injection hcb with hcb; subst hcb; exact Silent.nil
        generalize hs0 : ({ s with fdtReceivers := aerase id s.fdtReceivers, fdtCurrent := f :: s.fdtCurrent } : State σ) = s0 at hna ⊢
        have hinv0 : InvT L toi s0.objects := by subst hs0; exact hinv
        have hna1 : ∀ i, Ev.attach toi i ∉ (attachLatest I s0).2 :=
          fun i hm => hna i (List.mem_append_left _ (List.mem_append_right _ hm))
        have h1 := attachLatest_silent L toi s0 hinv0 hna1
        have h3 := updateCompletedCc_silent toi (gcObjectCompleted (attachLatest I s0).1)
        refine ⟨?_, (he0.append h1.2).append h3.2⟩
        have hobj : (updateCompletedCc (gcObjectCompleted (attachLatest I s0).1)).1.objects = (attachLatest I s0).1.objects := by
          rw [h3.1, gcObjectCompleted_objects]
        split
        · simp only []; rw [hobj]; exact h1.1
        · rw [hobj]; exact h1.1


theorem fdtEntry_objects (I : ObjIface σ) (s : State σ) (id : Nat) :
    (fdtEntry I s id p).1.objects = s.objects := by
  unfold fdtEntry
  split <;> rfl

theorem fdtDispatch_silent (L : I.Law) (toi : Nat) (s s' : State σ) (id : Nat) (f : FdtRecv σ)
    (now : Int) (r : Res) (evs : List Ev) (h : fdtDispatch I s id f now = .ok (s', r, evs))
    (hinv : InvT L toi s.objects) (hna : ∀ i, Ev.attach toi i ∉ evs) : StepSilent L toi s' evs := by
  unfold fdtDispatch at h
  split at h
  · simp only [Except.ok.injEq, Prod.mk.injEq] at h
    obtain ⟨rfl, _, rfl⟩ := h; exact ⟨hinv, Silent.nil⟩
  · simp only [Except.ok.injEq, Prod.mk.injEq] at h
    obtain ⟨rfl, _, rfl⟩ := h; exact ⟨hinv, Silent.nil⟩
  · split at h
    · cases h
    · split at h
      · cases h
      · split at h
        · cases h
        · simp only [Except.ok.injEq, Prod.mk.injEq] at h
          obtain ⟨rfl, _, rfl⟩ := h; exact ⟨hinv, Silent.nil⟩
  · exact fdtCompleted_silent L toi s s' id r evs h hinv hna

theorem pushFdtObjP_silent (L : I.Law) (toi : Nat) (s s' : State σ) (p : Pkt) (now : Int)
    (ans : FdtAns) (r : Res) (evs : List Ev) (h : pushFdtObj' I s p now ans = .ok (s', r, evs))
    (hinv : InvT L toi s.objects) (hna : ∀ i, Ev.attach toi i ∉ evs) : StepSilent L toi s' evs := by
  unfold pushFdtObj' at h
  split at h
  · split at h
    · simp only [Except.ok.injEq, Prod.mk.injEq] at h
      obtain ⟨rfl, _, rfl⟩ := h; exact ⟨hinv, Silent.nil⟩
    · split at h <;>
      · simp only [Except.ok.injEq, Prod.mk.injEq] at h
        obtain ⟨rfl, _, rfl⟩ := h; exact ⟨hinv, Silent.nil⟩
  · rename_i id _
    split at h
    · simp only [Except.ok.injEq, Prod.mk.injEq] at h
      obtain ⟨rfl, _, rfl⟩ := h; exact ⟨hinv, Silent.nil⟩
    · simp only [] at h
      split at h
      · simp only [Except.ok.injEq, Prod.mk.injEq] at h
        obtain ⟨rfl, _, rfl⟩ := h
        exact ⟨by rw [fdtEntry_objects]; exact hinv, Silent.nil⟩
      · split at h
        · cases h
        · rename_i f hupd
          refine fdtDispatch_silent L toi _ s' id f now r evs h ?_ hna
          simp only []
          rw [fdtEntry_objects]; exact hinv

theorem pushFdtObj_silent (L : I.Law) (toi : Nat) (s s' : State σ) (p : Pkt) (now : Int)
    (ans : FdtAns) (r : Res) (evs : List Ev) (h : pushFdtObj I s p now ans = .ok (s', r, evs))
    (hinv : InvT L toi s.objects) (hna : ∀ i, Ev.attach toi i ∉ evs) : StepSilent L toi s' evs :=
  pushFdtObjP_silent L toi (dropConflict s p) s' p now ans r evs h
    (by rw [(dropConflict_frame s p).1]; exact hinv) hna

theorem push_silent (L : I.Law) (toi : Nat) (s s' : State σ) (p : Pkt) (now : Int)
    (ans : FdtAns) (r : Res) (evs : List Ev) (h : push I s p now ans = .ok (s', r, evs))
    (hinv : InvT L toi s.objects) (hna : ∀ i, Ev.attach toi i ∉ evs) : StepSilent L toi s' evs := by
  unfold push at h
  simp only [] at h
  split at h
  · refine pushFdtObj_silent L toi _ s' p now ans r evs h ?_ hna
    split <;> exact hinv
  · rename_i hp
    refine pushObj_silent L toi _ s' p now r evs h hp ?_ hna
    split <;> exact hinv

theorem removeObjects_silent (L : I.Law) (toi : Nat) (s : State σ) (l : List Nat)
    (h : InvT L toi s.objects) :
    InvT L toi (removeObjects I s l).1.objects ∧ Silent toi (removeObjects I s l).2 := by
  induction l generalizing s with
  | nil => simp [removeObjects]; exact ⟨h, Silent.nil⟩
  | cons t ts ih =>
    simp only [removeObjects]
    have h1 := removeObject_silent L toi { s with errors := s.errors.filter (· ≠ t) } t h
    have h2 := ih (removeObject I { s with errors := s.errors.filter (· ≠ t) } t).1 h1.1
    exact ⟨h2.1, h1.2.append h2.2⟩

theorem cleanupFdt_objects {s s' : State σ} {now : Int} {st : Nat → Bool} (h : cleanupFdt s now st = .ok s') :
    s'.objects = s.objects := by
  unfold cleanupFdt at h
  split at h
  · cases h
  · injection h with h; subst h; rfl

theorem cleanup_silent (L : I.Law) (toi : Nat) (s s' : State σ) (now : Int) (stale : Stale)
    (evs : List Ev) (h : cleanup I s now stale = .ok (s', evs)) (hinv : InvT L toi s.objects) :
    StepSilent L toi s' evs := by
  unfold cleanup at h
  simp only [] at h
  split at h
  · cases h
  · rename_i s2 hc
    simp only [Except.ok.injEq, Prod.mk.injEq] at h
    obtain ⟨rfl, rfl⟩ := h
    have h1 : InvT L toi (cleanupObjects I s stale.obj).1.objects ∧ Silent toi (cleanupObjects I s stale.obj).2 := by
      unfold cleanupObjects
      split
      · exact ⟨hinv, Silent.nil⟩
      · exact removeObjects_silent L toi s _ hinv
    exact ⟨by rw [cleanupFdt_objects hc]; exact h1.1, h1.2⟩

/-- One call: if it emits no attach event for `toi`, it makes no writer call for `toi`, and the
    object registered for `toi` (if any) stays unattached. -/
theorem step_silent (L : I.Law) (toi : Nat) (s s' : State σ) (op : Op) (r : Res) (evs : List Ev)
    (h : step I s op = .ok (s', r, evs)) (hinv : InvT L toi s.objects)
    (hna : ∀ i, Ev.attach toi i ∉ evs) : StepSilent L toi s' evs := by
  cases op with
  | data d now ans =>
    simp only [step, pushData] at h
    split at h
    · simp only [Except.ok.injEq, Prod.mk.injEq] at h
      obtain ⟨rfl, _, rfl⟩ := h; exact ⟨hinv, Silent.nil⟩
    · simp only [Except.ok.injEq, Prod.mk.injEq] at h
      obtain ⟨rfl, _, rfl⟩ := h; exact ⟨hinv, Silent.nil⟩
    · exact push_silent L toi s s' _ now ans r evs h hinv hna
  | cleanup now stale =>
    simp only [step] at h
    split at h
    · cases h
    · rename_i s1 ev hc
      simp only [Except.ok.injEq, Prod.mk.injEq] at h
      obtain ⟨rfl, _, rfl⟩ := h
      exact cleanup_silent L toi s _ now stale _ hc hinv


/-! ### from "every usable instance does not list the TOI" to "no attach event for the TOI" -/

/-- the instance does not list `toi` -/
def NotListed (toi : Nat) (f : FdtRecv σ) : Prop := ∀ inst, f.inst = some inst → inst.getFile toi = none

/-- every instance of the list that is usable at `now` does not list `toi` -/
def Hexp (toi : Nat) (now : Int) (cur : List (FdtRecv σ)) : Prop :=
  ∀ f ∈ cur, f.Usable now → NotListed toi f

theorem attachAll_na (L : I.Law) (toi id : Nat) (inst : FdtAbs) (objs : List (Nat × σ))
    (h : InvT L toi objs) (hnl : inst.getFile toi = none) :
    ∀ i, Ev.attach toi i ∉ (attachAll I id inst objs).2.2 := by
  induction objs with
  | nil => intro i hm; simp [attachAll] at hm
  | cons a r ih =>
    obtain ⟨k, o⟩ := a
    intro i hm
    simp only [attachAll] at hm
    have hr : InvT L toi r := fun k' o' hm => h k' o' (List.mem_cons_of_mem _ hm)
    rcases List.mem_append.mp hm with hm | hm
    · rcases List.mem_append.mp hm with hm | hm
      · exact absurd hm (noAttach_wevs _ _ toi i)
      · split at hm
        · rename_i hok
          simp at hm
          obtain ⟨hk, _⟩ := hm
          have hl := L.attach_lists o id inst hok
          rw [(h k o (by simp)).1, ← hk, hnl] at hl
          simp at hl
        · simp at hm
    · exact ih hr i hm

theorem attachLatest_na (L : I.Law) (toi : Nat) (s : State σ) (h : InvT L toi s.objects)
    (hnl : ∀ f r, s.fdtCurrent = f :: r → NotListed toi f) :
    ∀ i, Ev.attach toi i ∉ (attachLatest I s).2 := by
  intro i hm
  cases hcur : s.fdtCurrent with
  | nil => simp [attachLatest, hcur] at hm
  | cons f r =>
    cases hinst : f.inst with
    | none => simp [attachLatest, hcur, hinst] at hm
    | some inst =>
      simp only [attachLatest, hcur, hinst] at hm
      rcases List.mem_append.mp hm with hm | hm
      · exact attachAll_na L toi f.fdtId inst s.objects h (hnl f r hcur inst hinst) i hm
      · exact absurd hm (checkObjectStates_noAttach _ _ _ toi i)

theorem createScan_na (L : I.Law) (toi : Nat) (now : Int) :
    ∀ (l : List (FdtRecv σ)) (o o' : σ) (l' : List (FdtRecv σ)) (evs : List Ev),
      createScan I toi now o l = .ok (o', l', evs) → L.toi o = toi → Hexp toi now l' →
      ∀ i, Ev.attach toi i ∉ evs := by
  intro l
  induction l with
  | nil =>
    intro o o' l' evs h _ _ i hm
    simp [createScan] at h
    obtain ⟨_, _, rfl⟩ := h
    simp at hm
  | cons f r ih =>
    intro o o' l' evs h ht hexp i hm
    unfold createScan at h
    split at h
    · cases h
    · rename_i f' hup
      simp only [] at h
      split at h
      · rename_i o1 evs1 hatt
        simp only [Except.ok.injEq, Prod.mk.injEq] at h
        obtain ⟨rfl, rfl, rfl⟩ := h
        -- a successful attempt contradicts `Hexp`
        exfalso
        by_cases hst : f'.st = .complete
        · simp only [hst, ↓reduceIte] at hatt
          split at hatt
          · rename_i inst hinst
            have hus := (updateExpired_complete hup hst).2
            have hnl := hexp f' (by simp) hus inst hinst
            have hok : (I.attachFdt o f'.fdtId inst).2.1 = true := by
              injection hatt with hatt; rw [hatt]
            have hl := L.attach_lists o f'.fdtId inst hok
            rw [ht, hnl] at hl
            simp at hl
          · cases hatt
        · simp [hst] at hatt
      · rename_i o1 evs1 hatt
        split at h
        · cases h
        · rename_i o2 r2 ev2 hrec
          simp only [Except.ok.injEq, Prod.mk.injEq] at h
          obtain ⟨rfl, rfl, rfl⟩ := h
          have ho1 : ∃ inst, I.attachFdt o f'.fdtId inst = (o1, false, evs1) := by
            split at hatt
            · split at hatt
              · rename_i inst _
                exact ⟨inst, by simpa using hatt⟩
              · cases hatt
            · cases hatt
          obtain ⟨inst, ho1⟩ := ho1
          have htoi1 : L.toi o1 = toi := by
            have := L.attach_toi o f'.fdtId inst
            rw [ho1] at this; rw [this]; exact ht
          rcases List.mem_append.mp hm with hm | hm
          · exact absurd hm (noAttach_wevs _ _ toi i)
          · exact ih _ _ _ _ hrec htoi1 (fun g hg => hexp g (List.mem_cons_of_mem _ hg)) i hm
      · split at h
        · cases h
        · rename_i o2 r2 ev2 hrec
          simp only [Except.ok.injEq, Prod.mk.injEq] at h
          obtain ⟨rfl, rfl, rfl⟩ := h
          exact ih _ _ _ _ hrec ht (fun g hg => hexp g (List.mem_cons_of_mem _ hg)) i hm

theorem createObj_na (L : I.Law) (toi t : Nat) (s s' : State σ) (now : Int) (evs : List Ev)
    (h : createObj I s t now = .ok (s', evs)) (hexp : Hexp toi now s'.fdtCurrent) :
    ∀ i, Ev.attach toi i ∉ evs := by
  unfold createObj at h
  split at h
  · cases h
  · rename_i o cur ev hscan
    simp only [Except.ok.injEq, Prod.mk.injEq] at h
    obtain ⟨rfl, rfl⟩ := h
    by_cases ht : t = toi
    · subst ht
      exact createScan_na L t now _ _ _ _ _ hscan (L.new_toi _ _) hexp
    · intro i hm
      exact ht (createScan_attach I t now _ _ _ _ _ hscan toi i hm).1.symm

theorem pushObjCore_na (L : I.Law) (toi : Nat) (s s' : State σ) (p : Pkt) (now : Int) (r : Res)
    (evs : List Ev) (h : pushObjCore I s p now = .ok (s', r, evs))
    (hexp : Hexp toi now s'.fdtCurrent) : ∀ i, Ev.attach toi i ∉ evs := by
  unfold pushObjCore at h
  simp only [] at h
  split at h
  · cases h
  · rename_i s1 e0 hc
    have hs1 : Hexp toi now s1.fdtCurrent → ∀ i, Ev.attach toi i ∉ e0 := by
      intro hx
      split at hc
      · exact createObj_na L toi _ _ _ _ _ hc hx
      · simp only [Except.ok.injEq, Prod.mk.injEq] at hc
        obtain ⟨rfl, rfl⟩ := hc
        intro i hm; simp at hm
    split at h
    · simp only [Except.ok.injEq, Prod.mk.injEq] at h
      obtain ⟨rfl, _, rfl⟩ := h
      exact hs1 hexp
    · rename_i o ho
      simp only [Except.ok.injEq, Prod.mk.injEq] at h
      obtain ⟨rfl, _, rfl⟩ := h
      have hfr := checkObjectState_fdt I { s1 with objects := ainsert p.toi (I.push o p).1 s1.objects } p.toi
      simp only [] at hfr
      rw [hfr.1] at hexp
      intro i hm
      rcases List.mem_append.mp hm with hm | hm
      · rcases List.mem_append.mp hm with hm | hm
        · exact hs1 hexp i hm
        · exact absurd hm (noAttach_wevs _ _ toi i)
      · exact absurd hm (checkObjectState_noAttach _ _ _ toi i)

theorem pushObj_na (L : I.Law) (toi : Nat) (s s' : State σ) (p : Pkt) (now : Int) (r : Res)
    (evs : List Ev) (h : pushObj I s p now = .ok (s', r, evs))
    (hexp : Hexp toi now s'.fdtCurrent) : ∀ i, Ev.attach toi i ∉ evs := by
  unfold pushObj at h
  split at h
  · simp only [Except.ok.injEq, Prod.mk.injEq] at h
    obtain ⟨_, _, rfl⟩ := h
    intro i hm; simp at hm
  · split at h
    · simp only [Except.ok.injEq, Prod.mk.injEq] at h
      obtain ⟨_, _, rfl⟩ := h
      intro i hm; simp at hm
    · exact pushObjCore_na L toi _ s' p now r evs h hexp

theorem fdtCompleted_mem (I : ObjIface σ) (s s' : State σ) (id : Nat) (r : Res) (evs : List Ev)
    (f : FdtRecv σ) (hf : alookup id s.fdtReceivers = some f)
    (h : fdtCompleted I s id = .ok (s', r, evs)) : f ∈ s'.fdtCurrent := by
  unfold fdtCompleted at h
  simp only [] at h
  split at h
  · cases h
  · rw [hf] at h
    simp only [] at h
    split at h
    · cases h
    · simp only [Except.ok.injEq, Prod.mk.injEq] at h
      obtain ⟨rfl, _, _⟩ := h
      generalize hs0 : ({ s with fdtReceivers := aerase id s.fdtReceivers, fdtCurrent := f :: s.fdtCurrent } : State σ) = s0
      have hcur0 : s0.fdtCurrent = f :: s.fdtCurrent := by subst hs0; rfl
      have h1 := attachLatest_fdt I s0
      have h2 := gcObjectCompleted_fdt (attachLatest I s0).1
      have h3 := updateCompletedCc_fdt (gcObjectCompleted (attachLatest I s0).1)
      have hcur3 : (updateCompletedCc (gcObjectCompleted (attachLatest I s0).1)).1.fdtCurrent = f :: s.fdtCurrent := by
        rw [h3.1, h2.1, h1.1, hcur0]
      split
      · rename_i hlen
        simp only []
        rw [hcur3] at hlen ⊢
        exact mem_dropLast_head _ _ hlen
      · rw [hcur3]; simp

theorem fdtCompleted_na (L : I.Law) (toi : Nat) (s s' : State σ) (id : Nat) (now : Int) (r : Res)
    (evs : List Ev) (f : FdtRecv σ) (hf : alookup id s.fdtReceivers = some f) (hu : f.Usable now)
    (h : fdtCompleted I s id = .ok (s', r, evs)) (hinv : InvT L toi s.objects)
    (hexp : Hexp toi now s'.fdtCurrent) : ∀ i, Ev.attach toi i ∉ evs := by
  have hnl : NotListed toi f := hexp f (fdtCompleted_mem I s s' id r evs f hf h) hu
  unfold fdtCompleted at h
  simp only [] at h
  split at h
  · cases h
  · rw [hf] at h
    simp only [] at h
    split at h
    · cases h
    · rename_i e0 hcb
      simp only [Except.ok.injEq, Prod.mk.injEq] at h
      obtain ⟨_, _, rfl⟩ := h
      have he0 : NoAttach e0 := by
        unfold fdtCb at hcb
        split at hcb
        · split at hcb
          · injection hcb with hcb; subst hcb; intro t i hm; simp at hm
          · cases hcb
        · injection hcb with hcb; subst hcb; exact NoAttach.nil
      intro i hm
      rcases List.mem_append.mp hm with hm | hm
      · rcases List.mem_append.mp hm with hm | hm
        · exact he0 toi i hm
        · refine attachLatest_na L toi
            { s with fdtReceivers := aerase id s.fdtReceivers, fdtCurrent := f :: s.fdtCurrent } hinv ?_ i hm
          intro g r' hg
          injection hg with hg _
          subst hg; exact hnl
      · exact updateCompletedCc_noAttach _ toi i hm

theorem fdtDispatch_na (L : I.Law) (toi : Nat) (s s' : State σ) (id : Nat) (f : FdtRecv σ) (now : Int)
    (r : Res) (evs : List Ev) (hf : alookup id s.fdtReceivers = some f)
    (hu : f.st = .complete → f.Usable now)
    (h : fdtDispatch I s id f now = .ok (s', r, evs)) (hinv : InvT L toi s.objects)
    (hexp : Hexp toi now s'.fdtCurrent) : ∀ i, Ev.attach toi i ∉ evs := by
  unfold fdtDispatch at h
  split at h
  · simp only [Except.ok.injEq, Prod.mk.injEq] at h
    obtain ⟨_, _, rfl⟩ := h; intro i hm; simp at hm
  · simp only [Except.ok.injEq, Prod.mk.injEq] at h
    obtain ⟨_, _, rfl⟩ := h; intro i hm; simp at hm
  · split at h
    · cases h
    · split at h
      · cases h
      · split at h
        · cases h
        · simp only [Except.ok.injEq, Prod.mk.injEq] at h
          obtain ⟨_, _, rfl⟩ := h; intro i hm; simp at hm
  · rename_i hst
    exact fdtCompleted_na L toi s s' id now r evs f hf (hu hst) h hinv hexp

theorem pushFdtObjP_na (L : I.Law) (toi : Nat) (s s' : State σ) (p : Pkt) (now : Int) (ans : FdtAns)
    (r : Res) (evs : List Ev) (h : pushFdtObj' I s p now ans = .ok (s', r, evs))
    (hinv : InvT L toi s.objects) (hexp : Hexp toi now s'.fdtCurrent) :
    ∀ i, Ev.attach toi i ∉ evs := by
  unfold pushFdtObj' at h
  split at h
  · split at h
    · simp only [Except.ok.injEq, Prod.mk.injEq] at h
      obtain ⟨_, _, rfl⟩ := h; intro i hm; simp at hm
    · split at h <;>
      · simp only [Except.ok.injEq, Prod.mk.injEq] at h
        obtain ⟨_, _, rfl⟩ := h; intro i hm; simp at hm
  · rename_i id _
    split at h
    · simp only [Except.ok.injEq, Prod.mk.injEq] at h
      obtain ⟨_, _, rfl⟩ := h; intro i hm; simp at hm
    · simp only [] at h
      split at h
      · simp only [Except.ok.injEq, Prod.mk.injEq] at h
        obtain ⟨_, _, rfl⟩ := h; intro i hm; simp at hm
      · split at h
        · cases h
        · rename_i f hupd
          refine fdtDispatch_na L toi _ s' id f now r evs (alookup_ainsert_self _ _ _) ?_ h ?_ hexp
          · intro hst
            split at hupd
            · exact (updateExpired_complete hupd hst).2
            · rename_i hne
              injection hupd with hupd
              subst hupd
              exact absurd hst hne
          · simp only []
            rw [fdtEntry_objects]; exact hinv

/-- One call: if every instance of `fdt_current` (after the call) that is usable at the call's time
    does not list `toi`, the call attaches nothing to `toi` and makes no writer call for it. -/
theorem pushFdtObj_na (L : I.Law) (toi : Nat) (s s' : State σ) (p : Pkt) (now : Int) (ans : FdtAns)
    (r : Res) (evs : List Ev) (h : pushFdtObj I s p now ans = .ok (s', r, evs))
    (hinv : InvT L toi s.objects) (hexp : Hexp toi now s'.fdtCurrent) :
    ∀ i, Ev.attach toi i ∉ evs :=
  pushFdtObjP_na L toi (dropConflict s p) s' p now ans r evs h
    (by rw [(dropConflict_frame s p).1]; exact hinv) hexp

theorem step_quiet (L : I.Law) (toi : Nat) (s s' : State σ) (op : Op) (r : Res) (evs : List Ev)
    (h : step I s op = .ok (s', r, evs)) (hinv : InvT L toi s.objects)
    (hexp : Hexp toi op.now s'.fdtCurrent) :
    InvT L toi s'.objects ∧ Silent toi evs ∧ ∀ i, Ev.attach toi i ∉ evs := by
  have hna : ∀ i, Ev.attach toi i ∉ evs := by
    cases op with
    | data d now ans =>
      simp only [step, pushData] at h
      split at h
      · simp only [Except.ok.injEq, Prod.mk.injEq] at h
        obtain ⟨_, _, rfl⟩ := h; intro i hm; simp at hm
      · simp only [Except.ok.injEq, Prod.mk.injEq] at h
        obtain ⟨_, _, rfl⟩ := h; intro i hm; simp at hm
      · unfold push at h
        simp only [] at h
        split at h
        · refine pushFdtObj_na L toi _ s' _ now ans r evs h ?_ hexp
          split <;> exact hinv
        · exact pushObj_na L toi _ s' _ now r evs h hexp
    | cleanup now stale =>
      simp only [step] at h
      split at h
      · cases h
      · rename_i s1 ev hc
        simp only [Except.ok.injEq, Prod.mk.injEq] at h
        obtain ⟨_, _, rfl⟩ := h
        exact fun i => cleanup_noAttach I _ _ _ _ _ hc toi i
  obtain ⟨h1, h2⟩ := step_silent L toi s s' op r evs h hinv hna
  exact ⟨h1, h2, hna⟩

end Flute.Recv
