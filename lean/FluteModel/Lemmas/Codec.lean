import FluteModel.Lemmas.SpecLct
import FluteModel.Spec.Fti
import FluteModel.Alc
/- reading fields out of `beBytes n X`, and the spec encoder as `beBytes` (core Lean only) -/
namespace Flute.Bytes
open Flute

/-- 3-way split of a big-endian number at byte positions `i ≤ j ≤ n` -/
theorem beBytes_split3 (n X i j : Nat) (h1 : i ≤ j) (h2 : j ≤ n) :
    beBytes n X = beBytes i (X / 256 ^ (n - i)) ++ (beBytes (j - i) (X / 256 ^ (n - j)) ++ beBytes (n - j) X) := by
  have e1 : n = i + (n - i) := by omega
  have e2 : n - i = (j - i) + (n - j) := by omega
  conv => lhs; rw [e1, beBytes_add, e2, beBytes_add]
  have : n - (i + (j - i + (n - j))) = 0 := by omega
  have e3 : j - i + (n - j) = n - i := by omega
  rw [e3]

theorem slice_beBytes (n X i j : Nat) (h1 : i ≤ j) (h2 : j ≤ n) :
    slice (beBytes n X) i j = .ok (beBytes (j - i) (X / 256 ^ (n - j))) := by
  rw [beBytes_split3 n X i j h1 h2]
  apply Flute.Lct.slice_mid
  · rw [length_beBytes]
  · rw [length_beBytes, length_beBytes]; omega

theorem idx_beBytes (n X i : Nat) (h : i < n) : idx (beBytes n X) i = .ok (X / 256 ^ (n - 1 - i) % 256) := by
  have hs := slice_beBytes n X i (i + 1) (by omega) (by omega)
  unfold slice at hs
  rw [if_pos ⟨by omega, by rw [length_beBytes]; omega⟩] at hs
  have e : i + 1 - i = 1 := by omega
  rw [e] at hs
  simp only [beBytes, Nat.pow_zero, Nat.div_one, Out.ok.injEq] at hs
  unfold idx
  have hl : i < (beBytes n X).length := by rw [length_beBytes]; exact h
  rw [List.getElem?_eq_getElem hl]
  show Out.ok _ = Out.ok _
  have h2 : (List.take 1 (List.drop i (beBytes n X))) = [(beBytes n X)[i]] := by
    rw [List.drop_eq_getElem_cons hl]; rfl
  rw [h2] at hs
  have e2 : n - (i + 1) = n - 1 - i := by omega
  rw [e2] at hs
  rw [(List.cons.inj hs).1]

end Flute.Bytes

namespace Flute.Fti
open Flute Flute.Bytes

/-- the `Oti` flute's parser reconstructs from an EXT_FTI (`inband_fti = true`) -/
def otiOf (fec inst B E parity : Nat) (ss : SchemeSpecific) : Oti :=
  { fecId := fec, inst := inst, maxSbl := B, esl := E, parity := parity, ss := ss, inbandFti := true }

theorem fld_beBytes (n X i j : Nat) (h1 : i ≤ j) (h2 : j ≤ n) :
    fld (beBytes n X) i j = .ok (X / 256 ^ (n - j) % 256 ^ (j - i)) := by
  unfold fld
  rw [slice_beBytes n X i j h1 h2, Out.bind_ok, beVal_beBytes]

end Flute.Fti

namespace Flute.Spec
open Flute Flute.Bytes

theorem spec_encode_eq (fs : List Field) : Spec.encode fs = beBytes (width fs / 8) (pack fs) := by
  unfold Spec.encode; rw [octets_eq_beBytes]

theorem sub_congr {a b c d : Nat} (h1 : a = c) (h2 : b = d) : a - b = c - d := by rw [h1, h2]

theorem cons_congr {a b : Nat} {r s : List Nat} (h1 : a = b) (h2 : r = s) : a :: r = b :: s := by
  rw [h1, h2]

end Flute.Spec

namespace Flute
open Flute.Bytes Flute.Fti Flute.Spec

/-- explicit byte lists on both sides, then one linear-arithmetic goal per byte -/
macro "bytes_eq" : tactic => `(tactic|
  (simp only [beBytes, List.cons_append, List.nil_append, Nat.reducePow, Nat.pow_zero, Nat.div_one]
   repeat (refine Flute.Spec.cons_congr (by omega) ?_)
   exact rfl))

/-- a spec diagram with literal widths as `beBytes n (linear expression)` -/
macro "spec_bytes" : tactic => `(tactic|
  (rewrite [Flute.Spec.spec_encode_eq]
   simp only [ftiNoCode, ftiSmallBlock, ftiRs28, ftiRs2m, ftiRaptorQ, ftiRaptor, fpidNoCode, fpidSmallBlock, fpidRs28,
     fpidRaptorQ, fpidRaptor, extFdtDiagram, extCencDiagram, extTimeSctDiagram, HET_FDT, HET_CENC, HET_TIME,
     width, pack, HET_FTI, Nat.reduceAdd, Nat.reduceDiv, Nat.reducePow, Nat.zero_mul, Nat.add_zero, Nat.mul_one]))

/-- run a parser of the model on `beBytes n X` -/
macro "parse_bebytes" : tactic => `(tactic|
  (simp only [length_beBytes, ne_eq, not_true_eq_false, if_false, Nat.reduceEqDiff, Nat.reduceLT]
   repeat (first
     | rewrite [idx_beBytes _ _ _ (by omega)]
     | rewrite [fld_beBytes _ _ _ _ (by omega) (by omega)]
     | rewrite [Out.bind_ok])
   simp only [Nat.reduceSub, Nat.reducePow, Nat.pow_zero, Nat.div_one, Nat.pow_one]))

/-- close `Out.ok (structure, value) = Out.ok (structure, value)` by linear arithmetic on the fields -/
macro "fields_eq" : tactic => `(tactic|
  (simp only [Out.ok.injEq, Prod.mk.injEq, Oti.mk.injEq, PayloadId.mk.injEq, SchemeSpecific.rs.injEq,
     SchemeSpecific.raptorq.injEq, SchemeSpecific.raptor.injEq, Option.some.injEq,
     NOCODE, RS28, RS28US, RS2M, RAPTORQ, RAPTOR, true_and, and_true]
   repeat' apply And.intro
   all_goals first | omega | (apply Flute.Spec.sub_congr <;> omega)))

end Flute
