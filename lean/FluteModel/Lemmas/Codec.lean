import FluteModel.Lemmas.SpecLct
import FluteModel.Spec.Fti
import FluteModel.Alc
import FluteModel.Lemmas.Ntp
/- reading fields out of `beBytes n X`, and the spec encoder as `beBytes` (core Lean only) -/
namespace Flute.Bytes
open Flute

/-- 3-way split of a big-endian number at byte positions `i ≤ j ≤ n` -/
theorem beBytes_split3 (n X i j : Nat) (h1 : i ≤ j) (h2 : j ≤ n) :
    beBytes n X = beBytes i (X / 256 ^ (n - i)) ++ (beBytes (j - i) (X / 256 ^ (n - j)) ++ beBytes (n - j) X) := by
  have e1 : n = i + (n - i) := by omega
  have e2 : n - i = (j - i) + (n - j) := by omega
  conv => lhs; rw [e1, beBytes_add, e2, beBytes_add]
  have : n - (i + (j - i + (n - j))) = 0 := by omega
  have e3 : j - i + (n - j) = n - i := by omega
  rw [e3]

theorem slice_beBytes (n X i j : Nat) (h1 : i ≤ j) (h2 : j ≤ n) :
    slice (beBytes n X) i j = .ok (beBytes (j - i) (X / 256 ^ (n - j))) := by
  rw [beBytes_split3 n X i j h1 h2]
  apply Flute.Lct.slice_mid
  · rw [length_beBytes]
  · rw [length_beBytes, length_beBytes]; omega

theorem idx_beBytes (n X i : Nat) (h : i < n) : idx (beBytes n X) i = .ok (X / 256 ^ (n - 1 - i) % 256) := by
  have hs := slice_beBytes n X i (i + 1) (by omega) (by omega)
  unfold slice at hs
  rw [if_pos ⟨by omega, by rw [length_beBytes]; omega⟩] at hs
  have e : i + 1 - i = 1 := by omega
  rw [e] at hs
  simp only [beBytes, Nat.pow_zero, Nat.div_one, Out.ok.injEq] at hs
  unfold idx
  have hl : i < (beBytes n X).length := by rw [length_beBytes]; exact h
  rw [List.getElem?_eq_getElem hl]
  show Out.ok _ = Out.ok _
  have h2 : (List.take 1 (List.drop i (beBytes n X))) = [(beBytes n X)[i]] := by
    rw [List.drop_eq_getElem_cons hl]; rfl
  rw [h2] at hs
  have e2 : n - (i + 1) = n - 1 - i := by omega
  rw [e2] at hs
  rw [(List.cons.inj hs).1]

end Flute.Bytes

namespace Flute.Fti
open Flute Flute.Bytes

/-- the `Oti` flute's parser reconstructs from an EXT_FTI (`inband_fti = true`) -/
def otiOf (fec inst B E parity : Nat) (ss : SchemeSpecific) : Oti :=
  { fecId := fec, inst := inst, maxSbl := B, esl := E, parity := parity, ss := ss, inbandFti := true }

theorem fld_beBytes (n X i j : Nat) (h1 : i ≤ j) (h2 : j ≤ n) :
    fld (beBytes n X) i j = .ok (X / 256 ^ (n - j) % 256 ^ (j - i)) := by
  unfold fld
  rw [slice_beBytes n X i j h1 h2, Out.bind_ok, beVal_beBytes]

end Flute.Fti

namespace Flute.Spec
open Flute Flute.Bytes

theorem spec_encode_eq (fs : List Field) : Spec.encode fs = beBytes (width fs / 8) (pack fs) := by
  unfold Spec.encode; rw [octets_eq_beBytes]

theorem sub_congr {a b c d : Nat} (h1 : a = c) (h2 : b = d) : a - b = c - d := by rw [h1, h2]

theorem cons_congr {a b : Nat} {r s : List Nat} (h1 : a = b) (h2 : r = s) : a :: r = b :: s := by
  rw [h1, h2]

end Flute.Spec

namespace Flute
open Flute.Bytes Flute.Fti Flute.Spec

/-- explicit byte lists on both sides, then one linear-arithmetic goal per byte -/
macro "bytes_eq" : tactic => `(tactic|
  (simp only [beBytes, List.cons_append, List.nil_append, Nat.reducePow, Nat.pow_zero, Nat.div_one]
   repeat (refine Flute.Spec.cons_congr (by omega) ?_)
   exact rfl))

/-- a spec diagram with literal widths as `beBytes n (linear expression)` -/
macro "spec_bytes" : tactic => `(tactic|
  (rewrite [Flute.Spec.spec_encode_eq]
   simp only [ftiNoCode, ftiSmallBlock, ftiRs28, ftiRs2m, ftiRaptorQ, ftiRaptor, fpidNoCode, fpidSmallBlock, fpidRs28,
     fpidRaptorQ, fpidRaptor, extFdtDiagram, extCencDiagram, extTimeSctDiagram, HET_FDT, HET_CENC, HET_TIME,
     width, pack, HET_FTI, Nat.reduceAdd, Nat.reduceDiv, Nat.reducePow, Nat.zero_mul, Nat.add_zero, Nat.mul_one]))

/-- run a parser of the model on `beBytes n X` -/
macro "parse_bebytes" : tactic => `(tactic|
  (simp only [length_beBytes, ne_eq, not_true_eq_false, if_false, Nat.reduceEqDiff, Nat.reduceLT]
   repeat (first
     | rewrite [idx_beBytes _ _ _ (by omega)]
     | rewrite [fld_beBytes _ _ _ _ (by omega) (by omega)]
     | rewrite [Out.bind_ok])
   simp only [Nat.reduceSub, Nat.reducePow, Nat.pow_zero, Nat.div_one, Nat.pow_one]))

/-- close `Out.ok (structure, value) = Out.ok (structure, value)` by linear arithmetic on the fields -/
macro "fields_eq" : tactic => `(tactic|
  (simp only [Out.ok.injEq, Prod.mk.injEq, Oti.mk.injEq, PayloadId.mk.injEq, SchemeSpecific.rs.injEq,
     SchemeSpecific.raptorq.injEq, SchemeSpecific.raptor.injEq, Option.some.injEq,
     NOCODE, RS28, RS28US, RS2M, RAPTORQ, RAPTOR, true_and, and_true]
   repeat' apply And.intro
   all_goals first | omega | (apply Flute.Spec.sub_congr <;> omega)))

end Flute

namespace Flute.Fti
open Flute Flute.Bytes Flute.Lct Flute.Fti Flute.Alc Flute.Spec

/-- what `AlcRaptorQ::get_fti` / `AlcRaptor::get_fti` do with the decoded values -/
def raptorCheck (fec : Nat) (ss : SchemeSpecific) (F T Z Al : Nat) : Out (Oti × Nat) :=
  if T = 0 then .err else
  if Z = 0 then .err else
  if Al = 0 then .err else
  if T % Al ≠ 0 then .err else
  .ok (otiOf fec 0 (divCeil (divCeil F Z) T % 2^32) T 0 ss, F)

theorem getFtiRaptorQ_core (X F T Z N Al : Nat)
    (h0 : X / 2^48 % 2^64 / 2^24 = F) (h1 : X / 2^48 % 2^16 = T) (h2 : X / 2^40 % 2^8 = Z)
    (h3 : X / 2^24 % 2^16 = N) (h4 : X / 2^16 % 2^8 = Al) :
    getFtiRaptorQ (beBytes 16 X) = raptorCheck 6 (.raptorq Z N Al) F T Z Al := by
  unfold getFtiRaptorQ raptorCheck otiOf
  parse_bebytes
  simp only [Nat.reducePow] at h0 h1 h2 h3 h4
  rewrite [h0, h1, h2, h3, h4]
  rfl

theorem getFtiRaptor_core (X F T Z N Al : Nat)
    (h0 : X / 2^48 % 2^64 / 2^16 = F) (h1 : X / 2^32 % 2^16 = T) (h2 : X / 2^16 % 2^16 = Z)
    (h3 : X / 2^8 % 2^8 = N) (h4 : X % 2^8 = Al) :
    getFtiRaptor (beBytes 16 X) = raptorCheck 1 (.raptor Z N Al) F T Z Al := by
  unfold getFtiRaptor raptorCheck otiOf
  parse_bebytes
  simp only [Nat.reducePow] at h0 h1 h2 h3 h4
  rewrite [h0, h1, h2, h3, h4]
  rfl
end Flute.Fti

namespace Flute.Fti
open Flute Flute.Bytes Flute.Lct Flute.Fti Flute.Alc Flute.Spec

/-- `get_fec_payload_id` looks only at the payload-id window of the datagram -/
theorem getPayloadId_window (oti : Oti) (pre w post : List Nat) :
    getPayloadId oti (pre ++ (w ++ post)) pre.length (pre.length + w.length) = pidOfBytes oti w := by
  unfold getPayloadId
  rw [Flute.Lct.slice_mid pre w post _ _ rfl rfl, Out.bind_ok]

theorem pidOfBytes_beBytes4 (oti : Oti) (X : Nat) (h : oti.fecId ≠ RS28US) :
    pidOfBytes oti (beBytes 4 X) =
      (let v := X % 2^32
       if oti.fecId = NOCODE then .ok { sbn := v / 2^16, esi := v % 2^16, sbl := none }
       else if oti.fecId = RS28 then .ok { sbn := v / 2^8, esi := v % 2^8, sbl := none }
       else if oti.fecId = RS2M then
         (if rsM oti ≥ 32 then .err else .ok { sbn := v / 2^(rsM oti), esi := v % 2^(rsM oti), sbl := none })
       else if oti.fecId = RAPTORQ then .ok { sbn := v / 2^24, esi := v % 2^24, sbl := none }
       else if oti.fecId = RAPTOR then .ok { sbn := v / 2^16, esi := v % 2^16, sbl := none }
       else .panic "not a FECEncodingID") := by
  unfold pidOfBytes
  rw [if_neg h, length_beBytes, if_neg (by omega), beVal_beBytes]

theorem pidOfBytes_beBytes8 (oti : Oti) (X : Nat) (h : oti.fecId = RS28US) :
    pidOfBytes oti (beBytes 8 X) =
      .ok { sbn := X % 2^64 / 2^32 % 2^32, esi := X % 2^64 % 2^16, sbl := some (X % 2^64 / 2^16 % 2^16) } := by
  unfold pidOfBytes
  rw [if_pos h, length_beBytes, if_neg (by omega), beVal_beBytes]

theorem encode_fpidRs2m (m sbn esi : Nat) (hm : m ≤ 32) :
    Spec.encode (fpidRs2m m sbn esi) = beBytes 4 (sbn * 2 ^ m + esi) := by
  rw [spec_encode_eq]
  simp only [fpidRs2m, width, pack, Nat.add_zero, Nat.pow_zero, Nat.mul_one]
  have : (32 - m + m) / 8 = 4 := by omega
  rw [this]

end Flute.Fti

namespace Flute.Alc
open Flute Flute.Bytes Flute.Lct Flute.Fti Flute.Alc Flute.Spec Flute.Ntp

theorem fdt_word (v id : Nat) (hv : v < 16) (hid : id < 2 ^ 20) :
    (192 <<< 24) ||| (v <<< 20) ||| id = 192 * 2 ^ 24 + v * 2 ^ 20 + id := by
  rw [Nat.or_comm, Nat.or_comm (192 <<< 24), ← Nat.or_assoc, or_shl _ _ 20 hid,
      or_shl _ _ 24 (by omega)]
  omega

end Flute.Alc

namespace Flute.Alc
open Flute Flute.Bytes Flute.Lct Flute.Fti Flute.Alc Flute.Spec Flute.Ntp

/-- `parse_sct` on a 12-byte extension given as a number -/
theorem parseSct_core (X secs frac : Nat) (hu : X / 2^72 % 256 = 192) (h1 : X / 2^32 % 2^32 = secs)
    (h2 : X % 2^32 = frac) :
    parseSct (beBytes 12 X) = (ntpToSystemTime (secs * 2^32 + frac)).bind fun t => .ok (some t) := by
  unfold parseSct
  simp only [Nat.reducePow] at hu h1 h2 ⊢
  rewrite [length_beBytes, if_neg (by omega), idx_beBytes _ _ _ (by omega), Out.bind_ok]
  simp only [Nat.reduceSub, Nat.reducePow]
  rewrite [hu]
  simp only [Nat.reduceDiv, Nat.reduceMod, Nat.reduceAdd, Nat.reduceMul, ne_eq, not_true_eq_false, if_false,
    Nat.reduceEqDiff, if_true]
  rewrite [fld_beBytes _ _ _ _ (by omega) (by omega), Out.bind_ok,
    fld_beBytes _ _ _ _ (by omega) (by omega), Out.bind_ok]
  simp only [Nat.reduceSub, Nat.reducePow, Nat.pow_zero, Nat.div_one]
  rewrite [h1, h2]
  rfl
end Flute.Alc

namespace Flute.Alc
open Flute Flute.Bytes Flute.Lct Flute.Fti Flute.Alc Flute.Spec Flute.Ntp

theorem append_congr {a b c d : List Nat} (h1 : a = c) (h2 : b = d) : a ++ b = c ++ d := by rw [h1, h2]
theorem pushSct_eq (data : List Nat) (us ntp : Nat) (h1 : systemTimeToNtp us = .ok ntp)
    (h2 : ntp < 18446744073709551616) :
    pushSct data us = extendInc data (Spec.encode (extTimeSctDiagram (ntp / 4294967296) (ntp % 4294967296))) 3 := by
  unfold pushSct
  rewrite [h1, rsBind_ok]
  simp only [Nat.reducePow]
  spec_bytes
  rewrite [Nat.div_add_mod' ntp 4294967296]
  refine congrArg (fun x => extendInc data x 3) ?_
  rewrite [beBytes_add 4 8]
  apply append_congr
  · apply beBytes_congr; simp only [Nat.reducePow]; omega
  · apply beBytes_congr; simp only [Nat.reducePow]; omega


end Flute.Alc
