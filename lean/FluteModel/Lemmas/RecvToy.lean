import FluteModel.Lemmas.RecvSilent
/-
  A minimal object implementation satisfying `ObjIface.Law` (non-vacuity of the contract used by
  C19 `expired_only_is_silent`): it writes only after a successful attach, and attaches only to an
  instance that lists its TOI.
-/
namespace Flute.Recv.Toy
open Flute Flute.Recv

structure Obj where
  toi : Nat
  att : Bool
  deriving DecidableEq, Repr

def iface : ObjIface Obj :=
  { new := fun t _ => ⟨t, false⟩
    push := fun o p => (o, if o.att then [WEv.write 0 p.plen] else [])
    attachFdt := fun o _ fdt =>
      if o.att then (o, false, [])
      else if (fdt.getFile o.toi).isSome then (⟨o.toi, true⟩, true, [WEv.new .noCache, WEv.opened])
      else (o, false, [])
    state := fun _ => .receiving
    cacheControl := fun _ => none
    drop := fun o => if o.att then [WEv.error] else [] }

def law : iface.Law :=
  { attached := fun o => o.att
    toi := fun o => o.toi
    new_attached := fun _ _ => rfl
    new_toi := fun _ _ => rfl
    push_toi := fun _ _ => rfl
    push_attached := fun _ _ _ => rfl
    push_silent := fun o p _ h => by simp [iface, h]
    attach_toi := fun o id fdt => by
      simp only [iface]
      split
      · rfl
      · split <;> rfl
    attach_fail := fun o id fdt hf ha => by
      simp only [iface] at hf ⊢
      simp only [ha, Bool.false_eq_true, ↓reduceIte] at hf ⊢
      split
      · rename_i h; simp [h] at hf
      · exact ⟨ha, rfl⟩
    attach_lists := fun o id fdt hs => by
      simp only [iface] at hs ⊢
      split at hs
      · simp at hs
      · split at hs
        · rename_i h; exact h
        · simp at hs
    drop_silent := fun o h => by simp [iface, h] }

end Flute.Recv.Toy
