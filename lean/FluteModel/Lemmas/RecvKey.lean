import FluteModel.Lemmas.RecvGrowth
/-
  Every entry of `fdt_receivers` is registered under its own instance id, and an instance is only ever
  pushed packets of its own id.  Gives the per-instance form of invariants (`step_allK`).
-/
namespace Flute.Recv
variable {σ : Type}

def KeyInv (s : State σ) : Prop := ∀ kf ∈ s.fdtReceivers, kf.2.fdtId = kf.1

theorem fdtEntry_key (I : ObjIface σ) (s : State σ) (id : Nat) (p : Pkt) (h : KeyInv s) :
    KeyInv (fdtEntry I s id p).1 ∧ (fdtEntry I s id p).2.fdtId = id := by
  unfold fdtEntry
  split
  · rename_i f hf
    exact ⟨h, by simp only []; rw [(noteFti_fields f p.fti).1]; exact h (id, f) (alookup_mem hf)⟩
  · refine ⟨?_, by simp only []; rw [(noteFti_fields _ p.fti).1]; rfl⟩
    intro kf hkf
    rcases mem_ainsert hkf with hkf | hkf
    · subst hkf; rfl
    · exact h kf hkf

theorem fdtCompleted_receivers (I : ObjIface σ) (s s' : State σ) (id : Nat) (r : Res) (evs : List Ev)
    (h : fdtCompleted I s id = .ok (s', r, evs)) : ∀ kf ∈ s'.fdtReceivers, kf ∈ s.fdtReceivers := by
  unfold fdtCompleted at h
  split at h
  · cases h
  · split at h
    · simp only [Except.ok.injEq, Prod.mk.injEq] at h
      obtain ⟨rfl, _, _⟩ := h; exact fun kf h => h
    · rename_i f hf
      simp only [] at h
      split at h
      · cases h
      · simp only [Except.ok.injEq, Prod.mk.injEq] at h
        obtain ⟨rfl, _, _⟩ := h
        generalize hs0 : ({ s with fdtReceivers := aerase id s.fdtReceivers, fdtCurrent := f :: s.fdtCurrent } : State σ) = s0
        have h1 := attachLatest_fdt I s0
        have h2 := gcObjectCompleted_fdt (attachLatest I s0).1
        have h3 := updateCompletedCc_fdt (gcObjectCompleted (attachLatest I s0).1)
        have hr : (updateCompletedCc (gcObjectCompleted (attachLatest I s0).1)).1.fdtReceivers = aerase id s.fdtReceivers := by
          rw [h3.2.1, h2.2.1, h1.2.1]; subst hs0; rfl
        intro kf hkf
        have : kf ∈ aerase id s.fdtReceivers := by
          split at hkf
          · simp only [] at hkf; rw [hr] at hkf; exact hkf
          · rw [hr] at hkf; exact hkf
        exact mem_aerase this

theorem fdtDispatch_receivers (I : ObjIface σ) (s s' : State σ) (id : Nat) (f : FdtRecv σ) (now : Int)
    (r : Res) (evs : List Ev) (h : fdtDispatch I s id f now = .ok (s', r, evs)) :
    ∀ kf ∈ s'.fdtReceivers, kf ∈ s.fdtReceivers := by
  unfold fdtDispatch at h
  split at h
  · simp only [Except.ok.injEq, Prod.mk.injEq] at h
    obtain ⟨rfl, _, _⟩ := h; exact fun kf h => h
  · simp only [Except.ok.injEq, Prod.mk.injEq] at h
    obtain ⟨rfl, _, _⟩ := h; exact fun kf h => mem_aerase h
  · split at h
    · cases h
    · split at h
      · cases h
      · split at h
        · cases h
        · simp only [Except.ok.injEq, Prod.mk.injEq] at h
          obtain ⟨rfl, _, _⟩ := h; exact fun kf h => mem_aerase h
  · exact fdtCompleted_receivers I s s' id r evs h

/-- keyed version of `pushFdtObj_all`: the pushed instance is the one registered under the packet's id -/
theorem pushFdtObjP_allK (I : ObjIface σ) (P : FdtRecv σ → Prop) (s s' : State σ) (p : Pkt) (now : Int)
    (ans : FdtAns) (r : Res) (evs : List Ev)
    (hnote : ∀ f v, P f → P (f.noteFti v))
    (hnew : ∀ id, p.fdtId = some id → P (FdtRecv.new I id s.cfg.expCheck))
    (hpush : ∀ id, p.fdtId = some id → ∀ f, f.fdtId = id → P f → P (f.push I p now ans))
    (hupd : ∀ f f', P f → f.updateExpired now = .ok f' → P f')
    (h : pushFdtObj' I s p now ans = .ok (s', r, evs)) (hall : AllFdt P s) (hk : KeyInv s) :
    (AllFdt P s' ∧ s'.cfg = s.cfg) ∧ KeyInv s' := by
  unfold pushFdtObj' at h
  split at h
  · split at h
    · simp only [Except.ok.injEq, Prod.mk.injEq] at h
      obtain ⟨rfl, _, _⟩ := h; exact ⟨⟨hall, rfl⟩, hk⟩
    · split at h <;>
      · simp only [Except.ok.injEq, Prod.mk.injEq] at h
        obtain ⟨rfl, _, _⟩ := h; exact ⟨⟨hall, rfl⟩, hk⟩
  · rename_i id hid
    split at h
    · simp only [Except.ok.injEq, Prod.mk.injEq] at h
      obtain ⟨rfl, _, _⟩ := h; exact ⟨⟨hall, rfl⟩, hk⟩
    · have he := fdtEntry_all I P s id p hnote (hnew id hid) hall
      have hke := fdtEntry_key I s id p hk
      simp only [] at h
      split at h
      · simp only [Except.ok.injEq, Prod.mk.injEq] at h
        obtain ⟨rfl, _, _⟩ := h
        exact ⟨⟨he.1, he.2.2⟩, hke.1⟩
      · split at h
        · cases h
        · rename_i f hupd'
          have hpushed := hpush id hid _ hke.2 he.2.1
          have hidp : ((fdtEntry I s id p).2.push I (p) now ans).fdtId = id := by
            rw [(push_fields I _ p now ans).2.2.2.1]; exact hke.2
          have hPf : P f ∧ f.fdtId = id := by
            split at hupd'
            · exact ⟨hupd _ _ hpushed hupd', by rw [(updateExpired_fields hupd').1]; exact hidp⟩
            · injection hupd' with hupd'; subst hupd'; exact ⟨hpushed, hidp⟩
          have hall2 : AllFdt P ({ (fdtEntry I s id p).1 with
              fdtReceivers := ainsert id f (fdtEntry I s id p).1.fdtReceivers } : State σ) :=
            ⟨he.1.1, by
              intro kf hkf
              simp only [] at hkf
              rcases mem_ainsert hkf with hkf | hkf
              · subst hkf; exact hPf.1
              · exact he.1.2 kf hkf⟩
          have hk2 : KeyInv ({ (fdtEntry I s id p).1 with
              fdtReceivers := ainsert id f (fdtEntry I s id p).1.fdtReceivers } : State σ) := by
            intro kf hkf
            simp only [] at hkf
            rcases mem_ainsert hkf with hkf | hkf
            · subst hkf; exact hPf.2
            · exact hke.1 kf hkf
          have := fdtDispatch_all I P _ s' id f now r evs h hall2
          refine ⟨⟨this.1, by rw [this.2]; exact he.2.2⟩, ?_⟩
          intro kf hkf
          exact hk2 kf (fdtDispatch_receivers I _ s' id f now r evs h kf hkf)

theorem pushFdtObj_allK (I : ObjIface σ) (P : FdtRecv σ → Prop) (s s' : State σ) (p : Pkt) (now : Int)
    (ans : FdtAns) (r : Res) (evs : List Ev)
    (hnote : ∀ f v, P f → P (f.noteFti v))
    (hnew : ∀ id, p.fdtId = some id → P (FdtRecv.new I id s.cfg.expCheck))
    (hpush : ∀ id, p.fdtId = some id → ∀ f, f.fdtId = id → P f → P (f.push I p now ans))
    (hupd : ∀ f f', P f → f.updateExpired now = .ok f' → P f')
    (h : pushFdtObj I s p now ans = .ok (s', r, evs)) (hall : AllFdt P s) (hk : KeyInv s) :
    (AllFdt P s' ∧ s'.cfg = s.cfg) ∧ KeyInv s' := by
  have hd := dropConflict_all P s p hall
  have hkd : KeyInv (dropConflict s p) := fun kf hkf => hk kf ((dropConflict_frame s p).2.2.2.2.2.2 kf hkf)
  have := pushFdtObjP_allK I P (dropConflict s p) s' p now ans r evs hnote
    (fun id hid => by rw [hd.2]; exact hnew id hid) hpush hupd h hd.1 hkd
  exact ⟨⟨this.1.1, by rw [this.1.2, hd.2]⟩, this.2⟩

theorem updateExpiredAll_key (now : Int) :
    ∀ (l l' : List (Nat × FdtRecv σ)), updateExpiredAll now l = .ok l' →
      (∀ kf ∈ l, kf.2.fdtId = kf.1) → ∀ kf ∈ l', kf.2.fdtId = kf.1 := by
  intro l
  induction l with
  | nil => intro l' h _ kf hkf; simp [updateExpiredAll] at h; subst h; simp at hkf
  | cons a r ih =>
    intro l' h hall kf hkf
    obtain ⟨k, f⟩ := a
    unfold updateExpiredAll at h
    split at h
    · cases h
    · rename_i f' hf'
      split at h
      · cases h
      · rename_i r' hr'
        injection h with h; subst h
        rcases List.mem_cons.mp hkf with hkf | hkf
        · subst hkf
          simp only []
          rw [(updateExpired_fields hf').1]; exact hall (k, f) (by simp)
        · exact ih r' hr' (fun x hx => hall x (List.mem_cons_of_mem _ hx)) kf hkf

/-- keyed generic step lemma: `hpush` only has to be shown for the instance of the packet's own id -/
theorem step_allK (I : ObjIface σ) (P : FdtRecv σ → Prop) (s s' : State σ) (op : Op) (r : Res)
    (evs : List Ev)
    (hnote : ∀ f v, P f → P (f.noteFti v))
    (hnew : ∀ p now ans id, op = .data (.pkt p) now ans → p.fdtId = some id → P (FdtRecv.new I id s.cfg.expCheck))
    (hpush : ∀ p now ans, op = .data (.pkt p) now ans → p.toi = 0 → ∀ id, p.fdtId = some id →
      ∀ f, f.fdtId = id → P f → P (f.push I p now ans))
    (hupd : ∀ f f', P f → f.updateExpired op.now = .ok f' → P f')
    (h : step I s op = .ok (s', r, evs)) (hall : AllFdt P s) (hk : KeyInv s) :
    (AllFdt P s' ∧ s'.cfg = s.cfg) ∧ KeyInv s' := by
  cases op with
  | data d now ans =>
    cases d with
    | reject =>
      simp only [step, pushData, Except.ok.injEq, Prod.mk.injEq] at h
      obtain ⟨rfl, _, _⟩ := h; exact ⟨⟨hall, rfl⟩, hk⟩
    | otherTsi =>
      simp only [step, pushData, Except.ok.injEq, Prod.mk.injEq] at h
      obtain ⟨rfl, _, _⟩ := h; exact ⟨⟨hall, rfl⟩, hk⟩
    | pkt p =>
      simp only [step, pushData] at h
      unfold push at h
      simp only [] at h
      have hcfg : (if p.closeSession then { s with closedImminent := true } else s).cfg = s.cfg := by
        split <;> rfl
      have hall' : AllFdt P (if p.closeSession then { s with closedImminent := true } else s) := by
        split <;> exact hall
      have hk' : KeyInv (if p.closeSession then { s with closedImminent := true } else s) := by
        split <;> exact hk
      split at h
      · rename_i htoi
        have := pushFdtObj_allK I P _ s' p now ans r evs hnote
          (fun id hid => by rw [hcfg]; exact hnew p now ans id rfl hid)
          (hpush p now ans rfl htoi) hupd h hall' hk'
        exact ⟨⟨this.1.1, by rw [this.1.2, hcfg]⟩, this.2⟩
      · have h1 := pushObj_all I P _ s' p now r evs hupd h hall'
        have h2 := pushObj_nObj I _ s' p now r evs h
        refine ⟨⟨h1.1, by rw [h1.2, hcfg]⟩, ?_⟩
        intro kf hkf
        rw [h2.2] at hkf
        exact hk' kf hkf
  | cleanup now stale =>
    have h0 := h
    simp only [step] at h
    split at h
    · cases h
    · rename_i s1 ev hc
      simp only [Except.ok.injEq, Prod.mk.injEq] at h
      obtain ⟨rfl, _, _⟩ := h
      refine ⟨cleanup_all I P s _ now stale _ hupd hc hall, ?_⟩
      unfold cleanup at hc
      simp only [] at hc
      split at hc
      · cases hc
      · rename_i s2 hc2
        simp only [Except.ok.injEq, Prod.mk.injEq] at hc
        obtain ⟨rfl, _⟩ := hc
        unfold cleanupFdt at hc2
        split at hc2
        · cases hc2
        · rename_i l hl
          injection hc2 with hc2; subst hc2
          intro kf hkf
          simp only [] at hkf
          exact updateExpiredAll_key now _ _ hl
            (by rw [(cleanupObjects_fdt I s stale.obj).2.1]; exact hk) kf (List.mem_filter.mp hkf).1

end Flute.Recv
