import FluteModel.Lemmas.Packet
/- spec-internal consistency: Spec decoders invert Spec encoders (core Lean only) -/
namespace Flute.Spec
open Flute Flute.Bytes Flute.Lct

theorem bitsAt_prefix (a b : List Nat) (pos w : Nat) (h : pos + w ≤ 8 * a.length) (hb : Wf b) :
    bitsAt (a ++ b) pos w = bitsAt a pos w := by
  rw [bitsAt_eq, bitsAt_eq, beVal_append, List.length_append]
  have hB := beVal_lt b hb
  have e : 8 * (a.length + b.length) - pos - w = (8 * a.length - pos - w) + 8 * b.length := by omega
  rw [e, Nat.pow_add, show (2:Nat) ^ (8 * b.length) = 256 ^ b.length by rw [Nat.pow_mul]]
  rw [Nat.mul_comm (2 ^ (8 * a.length - pos - w)), ← Nat.div_div_eq_div_mul]
  congr 2
  rw [Nat.add_comm, Nat.add_mul_div_right _ _ (Nat.pow_pos (by decide)), Nat.div_eq_of_lt hB, Nat.zero_add]

theorem bitsAt_suffix (a b : List Nat) (pos w : Nat) (h : pos + w ≤ 8 * b.length) :
    bitsAt (a ++ b) (8 * a.length + pos) w = bitsAt b pos w := by
  rw [bitsAt_eq, bitsAt_eq, beVal_append, List.length_append]
  have e : 8 * (a.length + b.length) - (8 * a.length + pos) - w = 8 * b.length - pos - w := by omega
  rw [e]
  have e2 : (256:Nat) ^ b.length = 2 ^ (pos + w) * 2 ^ (8 * b.length - pos - w) := by
    rw [← Nat.pow_add, show pos + w + (8 * b.length - pos - w) = 8 * b.length by omega, Nat.pow_mul]
  rw [e2, ← Nat.mul_assoc, Nat.add_comm, Nat.add_mul_div_right _ _ (Nat.pow_pos (by decide))]
  rw [Nat.pow_add, ← Nat.mul_assoc, Nat.add_mul_mod_self_right]


theorem bitsAt_beBytes (n P pos w : Nat) (hP : P < 256 ^ n) :
    bitsAt (beBytes n P) pos w = P / 2 ^ (8 * n - pos - w) % 2 ^ w := by
  rw [bitsAt_eq, length_beBytes, beVal_beBytes_of_lt hP]

theorem bitsAt_single (x : Nat) (hx : x < 256) : bitsAt [x] 0 8 = x := by
  rw [bitsAt_eq]; simp [beVal]; omega

theorem bitsAt_pair (x y : Nat) (hy : y < 256) : bitsAt [x, y] 8 8 = y := by
  rw [bitsAt_eq]; simp [beVal]; omega

theorem wf_ext_encode (e : Ext) (hv : e.Valid) : Wf e.encode := by
  rw [Ext.encode_eq e hv]
  obtain ⟨hb, h⟩ := hv
  intro x hx
  split at hx
  · rename_i hlt; rw [if_pos hlt] at h
    simp only [List.mem_cons] at hx
    rcases hx with rfl | rfl | hx
    · omega
    · omega
    · exact hb x hx
  · rename_i hlt; rw [if_neg hlt] at h
    simp only [List.mem_cons] at hx
    rcases hx with rfl | hx
    · omega
    · exact hb x hx

theorem wf_encodeExts (exts : List Ext) (hv : ∀ e ∈ exts, e.Valid) : Wf (encodeExts exts) := by
  induction exts with
  | nil => intro x hx; simp [encodeExts] at hx
  | cons e r ih =>
    exact wf_append (wf_ext_encode e (hv e (by simp))) (ih (fun x hx => hv x (by simp [hx])))

/-- canonical form of an extension value: `hel` is 0 for fixed-length extensions (the field does not exist) -/
def Ext.Canon (e : Ext) : Prop := e.het ≥ 128 → e.hel = 0

/-- **spec-internal round trip, extension list** -/
theorem decodeExts_encodeExts (exts : List Ext) (hv : ∀ e ∈ exts, e.Valid) (hc : ∀ e ∈ exts, e.Canon) (fuel : Nat)
    (hf : (encodeExts exts).length ≤ fuel) : decodeExts fuel (encodeExts exts) = some exts := by
  induction exts generalizing fuel with
  | nil => cases fuel <;> simp [decodeExts, encodeExts]
  | cons e r ih =>
    have hve := hv e (by simp)
    have hvr : ∀ x ∈ r, x.Valid := fun x hx => hv x (by simp [hx])
    have hcr : ∀ x ∈ r, x.Canon := fun x hx => hc x (by simp [hx])
    have hce := hc e (by simp)
    have hle := Ext.length_encode e hve
    have hR := wf_encodeExts r hvr
    simp only [encodeExts, List.length_append] at hf ⊢
    generalize hRR : encodeExts r = R at *
    obtain ⟨hbody, hform⟩ := hve
    have henc := Ext.encode_eq e ⟨hbody, hform⟩
    by_cases hlt : e.het < 128
    · rw [if_pos hlt] at hform henc
      obtain ⟨hh1, hh2, hbl⟩ := hform
      have hwords : e.words = e.hel := by unfold Ext.words; rw [if_pos hlt]
      rw [hwords] at hle
      cases fuel with
      | zero => omega
      | succ fuel =>
        have hD : e.encode ++ R = [e.het, e.hel] ++ (e.body ++ R) := by rw [henc]; rfl
        have hD1 : e.encode ++ R = [e.het] ++ (e.hel :: (e.body ++ R)) := by rw [henc]; rfl
        have wfrest : Wf (e.body ++ R) := wf_append hbody hR
        have hhet : bitsAt (e.encode ++ R) 0 8 = e.het := by
          rw [hD1, bitsAt_prefix _ _ 0 8 (by simp) (by
            intro x hx; simp only [List.mem_cons] at hx
            rcases hx with rfl | hx
            · omega
            · exact wfrest x hx), bitsAt_single _ (by omega)]
        have hhel : bitsAt (e.encode ++ R) 8 8 = e.hel := by
          rw [hD, bitsAt_prefix _ _ 8 8 (by simp) wfrest, bitsAt_pair _ _ (by omega)]
        unfold decodeExts
        rw [if_neg (by intro h; have := congrArg List.length h; rw [List.length_append, List.length_nil] at this; omega)]
        rw [if_neg (by simp only [List.length_append]; omega)]
        simp only [hhet, hhel, if_pos hlt]
        rw [if_neg (by simp only [List.length_append]; omega)]
        have hdrop : List.drop (4 * e.hel) (e.encode ++ R) = R := by
          rw [← hle, List.drop_left]
        rw [hdrop, ih hvr hcr fuel (by omega)]
        simp only []
        have hoct : octetsAt (e.encode ++ R) 2 (4 * e.hel - 2) = e.body := by
          unfold octetsAt
          rw [hD]
          rw [show List.drop 2 ([e.het, e.hel] ++ (e.body ++ R)) = e.body ++ R from rfl, ← hbl, List.take_left]
        rw [hoct]
    · rw [if_neg hlt] at hform henc
      obtain ⟨hh1, hbl⟩ := hform
      have hwords : e.words = 1 := by unfold Ext.words; rw [if_neg hlt]
      rw [hwords] at hle
      have hhel0 : e.hel = 0 := hce (by omega)
      cases fuel with
      | zero => omega
      | succ fuel =>
        have hD1 : e.encode ++ R = [e.het] ++ (e.body ++ R) := by rw [henc]; rfl
        have wfrest : Wf (e.body ++ R) := wf_append hbody hR
        have hhet : bitsAt (e.encode ++ R) 0 8 = e.het := by
          rw [hD1, bitsAt_prefix _ _ 0 8 (by simp) wfrest, bitsAt_single _ hh1]
        unfold decodeExts
        rw [if_neg (by intro h; have := congrArg List.length h; rw [List.length_append, List.length_nil] at this; omega)]
        rw [if_neg (by simp only [List.length_append]; omega)]
        simp only [hhet, if_neg hlt]
        have hdrop : List.drop 4 (e.encode ++ R) = R := by
          have : 4 = e.encode.length := by omega
          rw [this, List.drop_left]
        rw [hdrop, ih hvr hcr fuel (by omega)]
        simp only []
        have hoct : octetsAt (e.encode ++ R) 1 3 = e.body := by
          unfold octetsAt
          rw [hD1, show List.drop 1 ([e.het] ++ (e.body ++ R)) = e.body ++ R from rfl, ← hbl, List.take_left]
        rw [hoct, ← hhel0]


theorem bitsAt_firstword (w0 w1 w2 w3 : Nat) (rest : List Nat) (hr : Wf rest) (pos w : Nat) (h : pos + w ≤ 32) :
    bitsAt ([w0, w1, w2, w3] ++ rest) pos w = (w0 * 2^24 + w1 * 2^16 + w2 * 2^8 + w3) / 2 ^ (32 - pos - w) % 2 ^ w := by
  have hb : beVal [w0, w1, w2, w3] = w0 * 2^24 + w1 * 2^16 + w2 * 2^8 + w3 := by
    simp only [beVal, List.length_cons, List.length_nil, Nat.reduceAdd, Nat.reducePow]; omega
  rw [bitsAt_prefix _ _ pos w (by simp only [List.length_cons, List.length_nil]; omega) hr, bitsAt_eq, hb]
  simp only [List.length_cons, List.length_nil, Nat.reduceAdd, Nat.reduceMul]

theorem bitsAt_field (P Q : List Nat) (k v pos w : Nat) (hv : v < 256 ^ k) (hQ : Wf Q) (hpos : pos = 8 * P.length)
    (hw : w = 8 * k) : bitsAt (P ++ (beBytes k v ++ Q)) pos w = v := by
  subst hpos hw
  have := bitsAt_suffix P (beBytes k v ++ Q) 0 (8 * k) (by simp only [List.length_append, length_beBytes]; omega)
  rw [Nat.add_zero] at this
  rw [this, bitsAt_prefix _ _ 0 (8 * k) (by rw [length_beBytes]; omega) hQ, bitsAt_beBytes _ _ _ _ hv]
  have : 8 * k - 0 - 8 * k = 0 := by omega
  rw [this, Nat.pow_zero, Nat.div_one, Nat.pow_mul]
  exact Nat.mod_eq_of_lt hv

/-- **spec-internal round trip, LCT header**: the spec decoder on the spec encoding of any valid header (in
    canonical form), followed by any octets, returns the header and its length -/
theorem decodeLct_encode (f : LctFields) (hv : f.Valid) (hc : ∀ e ∈ f.exts, e.Canon) (payload : List Nat)
    (hp : Wf payload) : decodeLct (f.encode ++ payload) = some (f, 4 * f.hdrLen) := by
  have hv' := hv
  obtain ⟨h1, hc4, hpsi, hs, ho, hh, ha, hb, hcp, hcci, htsi, htoi, hhl, hexts⟩ := hv'
  have hcci' : f.cci < 256 ^ ((f.c + 1) * 4) := by
    have : f.cciBits = 8 * ((f.c + 1) * 4) := by unfold LctFields.cciBits; omega
    rw [this, Nat.pow_mul] at hcci; exact hcci
  have htsi' : f.tsi < 256 ^ (f.s * 4 + f.h * 2) := by
    have : f.tsiBits = 8 * (f.s * 4 + f.h * 2) := by unfold LctFields.tsiBits; omega
    rw [this, Nat.pow_mul] at htsi; exact htsi
  have htoi' : f.toi < 256 ^ (f.o * 4 + f.h * 2) := by
    have : f.toiBits = 8 * (f.o * 4 + f.h * 2) := by unfold LctFields.toiBits; omega
    rw [this, Nat.pow_mul] at htoi; exact htoi
  have hX := wf_encodeExts f.exts hexts
  have hXl := length_encodeExts f.exts hexts
  have hlen := Flute.Alc.length_encode f hv
  have henc : f.encode = [f.v * 16 + f.c * 4 + f.psi, f.s * 128 + f.o * 32 + f.h * 16 + 0 * 4 + f.a * 2 + f.b, f.hdrLen, f.cp]
        ++ (beBytes ((f.c + 1) * 4) f.cci ++ (beBytes (f.s * 4 + f.h * 2) f.tsi ++ (beBytes (f.o * 4 + f.h * 2) f.toi
        ++ encodeExts f.exts))) := by
    unfold LctFields.encode; rw [LctFields.encode_diagram f hv]; simp only [List.append_assoc]
  generalize hA : beBytes ((f.c + 1) * 4) f.cci = A at henc
  generalize hB : beBytes (f.s * 4 + f.h * 2) f.tsi = B at henc
  generalize hC : beBytes (f.o * 4 + f.h * 2) f.toi = C at henc
  generalize hXX : encodeExts f.exts = X at henc hX hXl
  have lA : A.length = (f.c + 1) * 4 := by rw [← hA, length_beBytes]
  have lB : B.length = f.s * 4 + f.h * 2 := by rw [← hB, length_beBytes]
  have lC : C.length = f.o * 4 + f.h * 2 := by rw [← hC, length_beBytes]
  have wA : Wf A := by rw [← hA]; exact wf_beBytes _ _
  have wB : Wf B := by rw [← hB]; exact wf_beBytes _ _
  have wC : Wf C := by rw [← hC]; exact wf_beBytes _ _
  have hfw : ∀ pos w, pos + w ≤ 32 → bitsAt (f.encode ++ payload) pos w =
      ((f.v * 16 + f.c * 4 + f.psi) * 2^24 + (f.s * 128 + f.o * 32 + f.h * 16 + 0 * 4 + f.a * 2 + f.b) * 2^16
        + f.hdrLen * 2^8 + f.cp) / 2 ^ (32 - pos - w) % 2 ^ w := by
    intro pos w h
    rw [henc, List.append_assoc]
    exact bitsAt_firstword _ _ _ _ _ (wf_append (wf_append wA (wf_append wB (wf_append wC hX))) hp) pos w h
  unfold decodeLct
  rw [if_neg (by rw [List.length_append, hlen]; unfold LctFields.hdrLen; omega)]
  simp only [hfw 0 4 (by omega), hfw 4 2 (by omega), hfw 6 2 (by omega), hfw 8 1 (by omega), hfw 9 2 (by omega),
    hfw 11 1 (by omega), hfw 14 1 (by omega), hfw 15 1 (by omega), hfw 16 8 (by omega), hfw 24 8 (by omega)]
  simp only [Nat.reduceSub, Nat.reducePow, Nat.pow_zero, Nat.div_one, Nat.pow_one]
  have v0 : ((f.v * 16 + f.c * 4 + f.psi) * 16777216 + (f.s * 128 + f.o * 32 + f.h * 16 + 0 * 4 + f.a * 2 + f.b) * 65536 + f.hdrLen * 256 + f.cp) / 268435456 % 16 = f.v := by omega
  have v1 : ((f.v * 16 + f.c * 4 + f.psi) * 16777216 + (f.s * 128 + f.o * 32 + f.h * 16 + 0 * 4 + f.a * 2 + f.b) * 65536 + f.hdrLen * 256 + f.cp) / 67108864 % 4 = f.c := by omega
  have v2 : ((f.v * 16 + f.c * 4 + f.psi) * 16777216 + (f.s * 128 + f.o * 32 + f.h * 16 + 0 * 4 + f.a * 2 + f.b) * 65536 + f.hdrLen * 256 + f.cp) / 16777216 % 4 = f.psi := by omega
  have v3 : ((f.v * 16 + f.c * 4 + f.psi) * 16777216 + (f.s * 128 + f.o * 32 + f.h * 16 + 0 * 4 + f.a * 2 + f.b) * 65536 + f.hdrLen * 256 + f.cp) / 8388608 % 2 = f.s := by omega
  have v4 : ((f.v * 16 + f.c * 4 + f.psi) * 16777216 + (f.s * 128 + f.o * 32 + f.h * 16 + 0 * 4 + f.a * 2 + f.b) * 65536 + f.hdrLen * 256 + f.cp) / 2097152 % 4 = f.o := by omega
  have v5 : ((f.v * 16 + f.c * 4 + f.psi) * 16777216 + (f.s * 128 + f.o * 32 + f.h * 16 + 0 * 4 + f.a * 2 + f.b) * 65536 + f.hdrLen * 256 + f.cp) / 1048576 % 2 = f.h := by omega
  have v6 : ((f.v * 16 + f.c * 4 + f.psi) * 16777216 + (f.s * 128 + f.o * 32 + f.h * 16 + 0 * 4 + f.a * 2 + f.b) * 65536 + f.hdrLen * 256 + f.cp) / 131072 % 2 = f.a := by omega
  have v7 : ((f.v * 16 + f.c * 4 + f.psi) * 16777216 + (f.s * 128 + f.o * 32 + f.h * 16 + 0 * 4 + f.a * 2 + f.b) * 65536 + f.hdrLen * 256 + f.cp) / 65536 % 2 = f.b := by omega
  have v8 : ((f.v * 16 + f.c * 4 + f.psi) * 16777216 + (f.s * 128 + f.o * 32 + f.h * 16 + 0 * 4 + f.a * 2 + f.b) * 65536 + f.hdrLen * 256 + f.cp) / 256 % 256 = f.hdrLen := by omega
  have v9 : ((f.v * 16 + f.c * 4 + f.psi) * 16777216 + (f.s * 128 + f.o * 32 + f.h * 16 + 0 * 4 + f.a * 2 + f.b) * 65536 + f.hdrLen * 256 + f.cp) % 256 = f.cp := by omega
  simp only [v0, v1, v2, v3, v4, v5, v6, v7, v8, v9]
  rw [if_neg (by omega)]
  rw [if_neg (by rw [List.length_append, hlen]; unfold LctFields.hdrLen; omega)]
  have htake : List.take (4 * f.hdrLen) (f.encode ++ payload) = f.encode := by rw [← hlen, List.take_left]
  simp only [htake]
  -- the three variable-width fields and the extension area, read from the header
  have c1 : bitsAt f.encode 32 (32 * (f.c + 1)) = f.cci := by
    rw [henc, ← hA]
    exact bitsAt_field _ _ _ _ _ _ hcci' (wf_append wB (wf_append wC hX)) (by simp) (by omega)
  have c2 : bitsAt f.encode (32 + 32 * (f.c + 1)) (32 * f.s + 16 * f.h) = f.tsi := by
    rw [henc, ← List.append_assoc, ← hB]
    exact bitsAt_field _ _ _ _ _ _ htsi' (wf_append wC hX) (by simp [lA]; omega) (by omega)
  have c3 : bitsAt f.encode (32 + 32 * (f.c + 1) + (32 * f.s + 16 * f.h)) (32 * f.o + 16 * f.h) = f.toi := by
    rw [henc, ← List.append_assoc, ← List.append_assoc, ← hC]
    exact bitsAt_field _ _ _ _ _ _ htoi' hX (by simp [lA, lB]; omega) (by omega)
  have c4 : List.drop ((32 + 32 * (f.c + 1) + (32 * f.s + 16 * f.h) + (32 * f.o + 16 * f.h)) / 8) f.encode = X := by
    rw [henc, ← List.append_assoc, ← List.append_assoc, ← List.append_assoc]
    have : (32 + 32 * (f.c + 1) + (32 * f.s + 16 * f.h) + (32 * f.o + 16 * f.h)) / 8 =
        ([f.v * 16 + f.c * 4 + f.psi, f.s * 128 + f.o * 32 + f.h * 16 + 0 * 4 + f.a * 2 + f.b, f.hdrLen, f.cp] ++ A ++ B ++ C).length := by
      simp [lA, lB, lC]; omega
    rw [this, List.drop_left]
  rw [c1, c2, c3, c4, ← hXX, decodeExts_encodeExts f.exts hexts hc _ (Nat.le_refl _)]


theorem decodeFti_core16 (fec X : Nat) (hX : X < 256 ^ 16) (h0 : X / 2^120 % 2^8 = 64) (h1 : X / 2^112 % 2^8 = 4)
    (hf : fec = 0 ∨ fec = 129 ∨ fec = 2 ∨ fec = 6 ∨ fec = 1) :
    decodeFti fec (beBytes 16 X) =
      if fec = 0 then some [X / 2^64 % 2^48, X / 2^32 % 2^16, X % 2^32]
      else if fec = 129 then some [X / 2^64 % 2^48, X / 2^48 % 2^16, X / 2^32 % 2^16, X / 2^16 % 2^16, X % 2^16]
      else if fec = 2 then some [X / 2^64 % 2^48, X / 2^56 % 2^8, X / 2^48 % 2^8, X / 2^32 % 2^16, X / 2^16 % 2^16, X % 2^16]
      else if fec = 6 then some [X / 2^72 % 2^40, X / 2^48 % 2^16, X / 2^40 % 2^8, X / 2^24 % 2^16, X / 2^16 % 2^8]
      else some [X / 2^64 % 2^48, X / 2^32 % 2^16, X / 2^16 % 2^16, X / 2^8 % 2^8, X % 2^8] := by
  unfold decodeFti
  simp only [bitsAt_beBytes _ _ _ _ hX, length_beBytes, HET_FTI, Nat.reduceMul, Nat.reduceSub, h0, h1, Nat.reduceLT,
    ne_eq, not_true_eq_false, false_or, if_false, if_true, Nat.pow_zero, Nat.div_one]
  rcases hf with h | h | h | h | h <;> subst h <;> simp only [Nat.reduceEqDiff, if_true, if_false]

theorem decodeFti_core12 (X : Nat) (hX : X < 256 ^ 12) (h0 : X / 2^88 % 2^8 = 64) (h1 : X / 2^80 % 2^8 = 3) :
    decodeFti 5 (beBytes 12 X) = some [X / 2^32 % 2^48, X / 2^16 % 2^16, X / 2^8 % 2^8, X % 2^8] := by
  unfold decodeFti
  simp only [bitsAt_beBytes _ _ _ _ hX, length_beBytes, HET_FTI, Nat.reduceMul, Nat.reduceSub, h0, h1, Nat.reduceLT,
    ne_eq, not_true_eq_false, false_or, if_false, if_true, Nat.pow_zero, Nat.div_one, Nat.reduceEqDiff]


theorem decodeFti_nocode (L E B : Nat) (hL : L < 2^48) (hE : E < 2^16) (hB : B < 2^32) :
    decodeFti 0 (Spec.encode (ftiNoCode L E B)) = some [L, E, B] := by
  spec_bytes
  simp only [Nat.reducePow] at hL hE hB
  rewrite [decodeFti_core16 0 _ (by simp only [Nat.reducePow]; omega) (by simp only [Nat.reducePow]; omega) (by simp only [Nat.reducePow]; omega) (by decide)]
  simp only [Nat.reduceEqDiff, if_true, if_false, Option.some.injEq, List.cons.injEq, and_true]
  simp only [Nat.reducePow]
  repeat' apply And.intro
  all_goals omega

theorem decodeFti_smallblock (L inst E B maxN : Nat) (hL : L < 2^48) (hI : inst < 2^16) (hE : E < 2^16) (hB : B < 2^16) (hN : maxN < 2^16) :
    decodeFti 129 (Spec.encode (ftiSmallBlock L inst E B maxN)) = some [L, inst, E, B, maxN] := by
  spec_bytes
  simp only [Nat.reducePow] at hL hI hE hB hN
  rewrite [decodeFti_core16 129 _ (by simp only [Nat.reducePow]; omega) (by simp only [Nat.reducePow]; omega) (by simp only [Nat.reducePow]; omega) (by decide)]
  simp only [Nat.reduceEqDiff, if_true, if_false, Option.some.injEq, List.cons.injEq, and_true]
  simp only [Nat.reducePow]
  repeat' apply And.intro
  all_goals omega

theorem decodeFti_rs28 (L E B maxN : Nat) (hL : L < 2^48) (hE : E < 2^16) (hB : B < 2^8) (hN : maxN < 2^8) :
    decodeFti 5 (Spec.encode (ftiRs28 L E B maxN)) = some [L, E, B, maxN] := by
  spec_bytes
  simp only [Nat.reducePow] at hL hE hB hN
  rewrite [decodeFti_core12 _ (by simp only [Nat.reducePow]; omega) (by simp only [Nat.reducePow]; omega) (by simp only [Nat.reducePow]; omega)]
  simp only [Nat.reduceEqDiff, if_true, if_false, Option.some.injEq, List.cons.injEq, and_true]
  simp only [Nat.reducePow]
  repeat' apply And.intro
  all_goals omega

theorem decodeFti_rs2m (L m G E B maxN : Nat) (hL : L < 2^48) (hm : m < 2^8) (hG : G < 2^8) (hE : E < 2^16) (hB : B < 2^16) (hN : maxN < 2^16) :
    decodeFti 2 (Spec.encode (ftiRs2m L m G E B maxN)) = some [L, m, G, E, B, maxN] := by
  spec_bytes
  simp only [Nat.reducePow] at hL hm hG hE hB hN
  rewrite [decodeFti_core16 2 _ (by simp only [Nat.reducePow]; omega) (by simp only [Nat.reducePow]; omega) (by simp only [Nat.reducePow]; omega) (by decide)]
  simp only [Nat.reduceEqDiff, if_true, if_false, Option.some.injEq, List.cons.injEq, and_true]
  simp only [Nat.reducePow]
  repeat' apply And.intro
  all_goals omega

theorem decodeFti_raptorq (F T Z N Al : Nat) (hF : F < 2^40) (hT : T < 2^16) (hZ : Z < 2^8) (hN : N < 2^16) (hAl : Al < 2^8) :
    decodeFti 6 (Spec.encode (ftiRaptorQ F T Z N Al)) = some [F, T, Z, N, Al] := by
  spec_bytes
  simp only [Nat.reducePow] at hF hT hZ hN hAl
  rewrite [decodeFti_core16 6 _ (by simp only [Nat.reducePow]; omega) (by simp only [Nat.reducePow]; omega) (by simp only [Nat.reducePow]; omega) (by decide)]
  simp only [Nat.reduceEqDiff, if_true, if_false, Option.some.injEq, List.cons.injEq, and_true]
  simp only [Nat.reducePow]
  repeat' apply And.intro
  all_goals omega

theorem decodeFti_raptor (F T Z N Al : Nat) (hF : F < 2^48) (hT : T < 2^16) (hZ : Z < 2^16) (hN : N < 2^8) (hAl : Al < 2^8) :
    decodeFti 1 (Spec.encode (ftiRaptor F T Z N Al)) = some [F, T, Z, N, Al] := by
  spec_bytes
  simp only [Nat.reducePow] at hF hT hZ hN hAl
  rewrite [decodeFti_core16 1 _ (by simp only [Nat.reducePow]; omega) (by simp only [Nat.reducePow]; omega) (by simp only [Nat.reducePow]; omega) (by decide)]
  simp only [Nat.reduceEqDiff, if_true, if_false, Option.some.injEq, List.cons.injEq, and_true]
  simp only [Nat.reducePow]
  repeat' apply And.intro
  all_goals omega

/-! payload ids -/
theorem decodeFpid_core4 (fec m X : Nat) (hX : X < 256 ^ 4) (hf : fec = 0 ∨ fec = 1 ∨ fec = 5 ∨ fec = 6) :
    decodeFpid fec m (beBytes 4 X) =
      if fec = 0 ∨ fec = 1 then some (X / 2^16 % 2^16, X % 2^16, none)
      else if fec = 5 then some (X / 2^8 % 2^24, X % 2^8, none)
      else some (X / 2^24 % 2^8, X % 2^24, none) := by
  unfold decodeFpid fpidOctets
  rcases hf with h | h | h | h <;> subst h <;>
    simp only [bitsAt_beBytes _ _ _ _ hX, length_beBytes, Nat.reduceMul, Nat.reduceSub, Nat.reduceEqDiff, if_true, if_false,
      ne_eq, not_true_eq_false, or_false, false_or, Nat.pow_zero, Nat.div_one, or_true, true_or]

theorem decodeFpid_nocode (sbn esi : Nat) (h1 : sbn < 2^16) (h2 : esi < 2^16) :
    decodeFpid 0 8 (Spec.encode (fpidNoCode sbn esi)) = some (sbn, esi, none) := by
  spec_bytes
  simp only [Nat.reducePow] at h1 h2
  rewrite [decodeFpid_core4 0 8 _ (by simp only [Nat.reducePow]; omega) (by decide)]
  simp only [true_or, if_true, Option.some.injEq, Prod.mk.injEq, and_true, Nat.reducePow]
  constructor <;> omega

theorem decodeFpid_raptor (sbn esi : Nat) (h1 : sbn < 2^16) (h2 : esi < 2^16) :
    decodeFpid 1 8 (Spec.encode (fpidRaptor sbn esi)) = some (sbn, esi, none) := by
  spec_bytes
  simp only [Nat.reducePow] at h1 h2
  rewrite [decodeFpid_core4 1 8 _ (by simp only [Nat.reducePow]; omega) (by decide)]
  simp only [or_true, if_true, Option.some.injEq, Prod.mk.injEq, and_true, Nat.reducePow]
  constructor <;> omega

theorem decodeFpid_rs28 (sbn esi : Nat) (h1 : sbn < 2^24) (h2 : esi < 2^8) :
    decodeFpid 5 8 (Spec.encode (fpidRs28 sbn esi)) = some (sbn, esi, none) := by
  spec_bytes
  simp only [Nat.reducePow] at h1 h2
  rewrite [decodeFpid_core4 5 8 _ (by simp only [Nat.reducePow]; omega) (by decide)]
  simp only [Nat.reduceEqDiff, or_self, if_false, if_true, Option.some.injEq, Prod.mk.injEq, and_true, Nat.reducePow]
  constructor <;> omega

theorem decodeFpid_raptorq (sbn esi : Nat) (h1 : sbn < 2^8) (h2 : esi < 2^24) :
    decodeFpid 6 8 (Spec.encode (fpidRaptorQ sbn esi)) = some (sbn, esi, none) := by
  spec_bytes
  simp only [Nat.reducePow] at h1 h2
  rewrite [decodeFpid_core4 6 8 _ (by simp only [Nat.reducePow]; omega) (by decide)]
  simp only [Nat.reduceEqDiff, or_self, if_false, Option.some.injEq, Prod.mk.injEq, and_true, Nat.reducePow]
  constructor <;> omega

theorem decodeFpid_smallblock (sbn sbl esi : Nat) (h1 : sbn < 2^32) (h2 : sbl < 2^16) (h3 : esi < 2^16) :
    decodeFpid 129 8 (Spec.encode (fpidSmallBlock sbn sbl esi)) = some (sbn, esi, some sbl) := by
  spec_bytes
  simp only [Nat.reducePow] at h1 h2 h3
  have hX : sbn * 4294967296 + (sbl * 65536 + esi) < 256 ^ 8 := by simp only [Nat.reducePow]; omega
  unfold decodeFpid fpidOctets
  simp only [bitsAt_beBytes _ _ _ _ hX, length_beBytes, Nat.reduceMul, Nat.reduceSub, Nat.reduceEqDiff, if_true, if_false,
    ne_eq, not_true_eq_false, or_self, Nat.pow_zero, Nat.div_one, Option.some.injEq, Prod.mk.injEq, Nat.reducePow]
  refine ⟨?_, ?_, ?_⟩ <;> omega

theorem decodeFpid_rs2m (m sbn esi : Nat) (hm : m ≤ 32) (h1 : sbn < 2^(32 - m)) (h2 : esi < 2^m) :
    decodeFpid 2 m (Spec.encode (fpidRs2m m sbn esi)) = some (sbn, esi, none) := by
  rewrite [Flute.Fti.encode_fpidRs2m m sbn esi hm]
  have hlt : sbn * 2 ^ m + esi < 256 ^ 4 := by
    have e : (256:Nat) ^ 4 = 2 ^ (32 - m) * 2 ^ m := by
      rw [← Nat.pow_add, show 32 - m + m = 32 by omega]
    have : (sbn + 1) * 2 ^ m ≤ 2 ^ (32 - m) * 2 ^ m := Nat.mul_le_mul_right _ h1
    rw [e]; rw [Nat.add_mul] at this; omega
  unfold decodeFpid fpidOctets
  simp only [bitsAt_beBytes _ _ _ _ hlt, length_beBytes, Nat.reduceEqDiff, if_true, if_false, ne_eq, not_true_eq_false,
    or_self, Nat.reduceMul]
  rw [if_pos hm]
  have e1 : 32 - 0 - (32 - m) = m := by omega
  have e2 : 32 - (32 - m) - m = 0 := by omega
  rw [e2, e1, Nat.pow_zero, Nat.div_one]
  have a1 : (sbn * 2 ^ m + esi) / 2 ^ m = sbn := by
    rw [Nat.add_comm, Nat.add_mul_div_right _ _ (Nat.pow_pos (by decide)), Nat.div_eq_of_lt h2, Nat.zero_add]
  have a2 : (sbn * 2 ^ m + esi) % 2 ^ m = esi := by
    rw [Nat.add_comm, Nat.add_mul_mod_self_right, Nat.mod_eq_of_lt h2]
  rw [a1, a2, Nat.mod_eq_of_lt h1]

theorem decodeExtFdt_encode (v id : Nat) (hv : v < 2^4) (hid : id < 2^20) :
    decodeExtFdt (Spec.encode (extFdtDiagram v id)) = some (v, id) := by
  spec_bytes
  simp only [Nat.reducePow] at hv hid
  have hX : 192 * 16777216 + (v * 1048576 + id) < 256 ^ 4 := by simp only [Nat.reducePow]; omega
  unfold decodeExtFdt
  simp only [bitsAt_beBytes _ _ _ _ hX, length_beBytes, HET_FDT, Nat.reduceMul, Nat.reduceSub, Nat.reducePow, true_and,
    Nat.pow_zero, Nat.div_one]
  rw [if_pos (by omega)]
  simp only [Option.some.injEq, Prod.mk.injEq]
  constructor <;> omega

theorem decodeExtCenc_encode (c : Nat) (hc : c < 2^8) :
    decodeExtCenc (Spec.encode (extCencDiagram c)) = some c := by
  spec_bytes
  simp only [Nat.reducePow] at hc
  have hX : 3238002688 + c * 65536 < 256 ^ 4 := by simp only [Nat.reducePow]; omega
  unfold decodeExtCenc
  simp only [bitsAt_beBytes _ _ _ _ hX, length_beBytes, HET_CENC, Nat.reduceMul, Nat.reduceSub, Nat.reducePow, true_and]
  rw [if_pos (by omega)]
  simp only [Option.some.injEq]
  omega

theorem decodeExtTimeSct_core (X secs frac : Nat) (hX : X < 256 ^ 12) (h0 : X / 2^88 % 2^8 = 2) (h1 : X / 2^80 % 2^8 = 3)
    (h2 : X / 2^79 % 2 = 1) (h3 : X / 2^78 % 2 = 1) (h4 : X / 2^77 % 2 = 0) (h5 : X / 2^76 % 2 = 0)
    (h6 : X / 2^32 % 2^32 = secs) (h7 : X % 2^32 = frac) :
    decodeExtTimeSct (beBytes 12 X) = some (secs, frac) := by
  unfold decodeExtTimeSct
  simp only [bitsAt_beBytes _ _ _ _ hX, length_beBytes, HET_TIME, Nat.reduceMul, Nat.reduceSub, Nat.reduceLT, Nat.pow_one,
    h0, h1, h2, h3, h4, h5, h6, h7, ne_eq, not_true_eq_false, or_self, if_false, Nat.reduceAdd, Nat.pow_zero, Nat.div_one,
    Nat.reduceEqDiff, if_true]

theorem decodeExtTimeSct_encode (secs frac : Nat) (h1 : secs < 2^32) (h2 : frac < 2^32) :
    decodeExtTimeSct (Spec.encode (extTimeSctDiagram secs frac)) = some (secs, frac) := by
  spec_bytes
  simp only [Nat.reducePow] at h1 h2
  apply decodeExtTimeSct_core <;> simp only [Nat.reducePow] <;> omega
end Flute.Spec

namespace Flute.Alc
open Flute Flute.Bytes Flute.Lct Flute.Fti Flute.Alc Flute.Spec Flute.Ntp

theorem extOfBytes_canon (w : List Nat) : (extOfBytes w).Canon := by
  unfold extOfBytes Ext.Canon
  split
  · intro h; simp only [] at h; omega
  · intro _; rfl

theorem optExt_canon (c : Prop) [Decidable c] (w : List Nat) : ∀ e ∈ optExt c w, e.Canon := by
  intro e he
  unfold optExt at he
  split at he
  · simp only [List.mem_singleton] at he; rw [he]; exact extOfBytes_canon w
  · simp at he

theorem pktHeader_canon (oti : Oti) (cci tsi : Nat) (pkt : Pkt) (rfc3926 : Bool) (ntp id : Nat) (wfti : List Nat) :
    ∀ e ∈ (pktHeader oti cci tsi pkt rfc3926 ntp id wfti).exts, e.Canon := by
  intro e he
  simp only [pktHeader, List.nil_append, List.mem_append] at he
  rcases he with ((he | he) | he) | he <;> exact optExt_canon _ _ e he

theorem fdtBytes_eq_spec (version id : Nat) (hv : version < 16) :
    fdtBytes version id = Spec.encode (extFdtDiagram version (id % 2^20)) := by
  have hid : id % 2^20 < 2^20 := Nat.mod_lt _ (by decide)
  unfold fdtBytes
  rewrite [fdt_word version _ hv hid]
  generalize id % 2^20 = i at hid
  spec_bytes
  rw [Nat.add_assoc]

theorem cencBytes_eq_spec (cenc : Nat) : cencBytes cenc = Spec.encode (extCencDiagram cenc) := by
  unfold cencBytes
  spec_bytes

theorem sctBytes_eq_spec (ntp : Nat) (h : ntp < 2^64) :
    sctBytes ntp = Spec.encode (extTimeSctDiagram (ntp / 2^32) (ntp % 2^32)) := by
  rw [sctBytes_eq ntp h]
  simp only [Nat.reducePow] at h ⊢
  spec_bytes
  rewrite [Nat.div_add_mod' ntp 4294967296]
  apply beBytes_congr; simp only [Nat.reducePow]; omega
end Flute.Alc

namespace Flute.Alc
open Flute Flute.Bytes Flute.Lct Flute.Fti Flute.Alc Flute.Spec Flute.Ntp

/-- the octets of a list of 32-bit time values -/
def timeBytes : List Nat → List Nat
  | [] => []
  | v :: r => beBytes 4 v ++ timeBytes r

theorem length_timeBytes (vals : List Nat) : (timeBytes vals).length = 4 * vals.length := by
  induction vals with
  | nil => rfl
  | cons v r ih => simp only [timeBytes, List.length_append, length_beBytes, ih, List.length_cons]; omega

theorem width_vals (vals : List Nat) : width (vals.map fun v => ((32:Nat), v)) = 32 * vals.length := by
  induction vals with
  | nil => rfl
  | cons v r ih => simp only [List.map_cons, width, ih, List.length_cons]; omega

theorem fieldsOk_vals (vals : List Nat) (h : ∀ v ∈ vals, v < 2^32) : FieldsOk (vals.map fun v => ((32:Nat), v)) := by
  induction vals with
  | nil => trivial
  | cons v r ih => exact ⟨h v (by simp), ih (fun x hx => h x (by simp [hx]))⟩

theorem encode_vals (vals : List Nat) (h : ∀ v ∈ vals, v < 2^32) :
    Spec.encode (vals.map fun v => ((32:Nat), v)) = timeBytes vals := by
  induction vals with
  | nil => rfl
  | cons v r ih =>
    have hr : ∀ x ∈ r, x < 2^32 := fun x hx => h x (by simp [hx])
    have : (v :: r).map (fun v => ((32:Nat), v)) = [((32:Nat), v)] ++ r.map (fun v => ((32:Nat), v)) := rfl
    rw [this, encode_append _ _ (by simp [width]) (by rw [width_vals]; omega) (fieldsOk_vals r hr), ih hr]
    have e : Spec.encode [((32:Nat), v)] = beBytes 4 v := encode_single 4 v
    rw [e]; rfl

theorem use_bits (hi lo ert slc resv : Nat) (hhi : hi < 2) (hlo : lo < 2) (hert : ert < 2) (hslc : slc < 2)
    (hresv : resv < 16) :
    (hi * 128 + lo * 64 + ert * 32 + slc * 16 + resv) / 128 % 2 = hi ∧
    (hi * 128 + lo * 64 + ert * 32 + slc * 16 + resv) / 64 % 2 = lo ∧
    (hi * 128 + lo * 64 + ert * 32 + slc * 16 + resv) / 32 % 2 = ert ∧
    (hi * 128 + lo * 64 + ert * 32 + slc * 16 + resv) / 16 % 2 = slc := by
  refine ⟨?_, ?_, ?_, ?_⟩ <;> omega

theorem time_first_word (n hi lo ert slc resv pi : Nat) (hn : n < 255) (hhi : hi < 2) (hlo : lo < 2) (hert : ert < 2)
    (hslc : slc < 2) (hresv : resv < 16) (hpi : pi < 256) :
    Spec.encode [(8, HET_TIME), (8, 1 + n), (1, hi), (1, lo), (1, ert), (1, slc), (4, resv), (8, pi)] =
      [2, 1 + n, hi * 128 + lo * 64 + ert * 32 + slc * 16 + resv, pi] := by
  rw [spec_encode_eq]
  simp only [width, pack, HET_TIME, Nat.reduceAdd, Nat.reduceDiv, Nat.reducePow, beBytes, Nat.pow_zero, Nat.div_one,
    Nat.mul_one, Nat.add_zero]
  refine cons_congr (by omega) (cons_congr (by omega) (cons_congr (by omega) (cons_congr (by omega) rfl)))

/-- `parse_sct` on an EXT_TIME given by its first word and its time values -/
theorem parseSct_general (hi lo ert slc resv pi : Nat) (vals : List Nat) (hhi : hi < 2) (hlo : lo < 2) (hert : ert < 2)
    (hslc : slc < 2) (hresv : resv < 16) (hn : vals.length = hi + lo + ert + slc) (hv : ∀ v ∈ vals, v < 2^32) :
    parseSct ([2, 1 + vals.length, hi * 128 + lo * 64 + ert * 32 + slc * 16 + resv, pi] ++ timeBytes vals) =
      if hi = 0 then .ok none else
      (ntpToSystemTime (vals.headD 0 * 2^32 + (if lo = 1 then (vals.drop 1).headD 0 else 0))).bind fun t => .ok (some t) := by
  have hl := length_timeBytes vals
  obtain ⟨u1, u2, u3, u4⟩ := use_bits hi lo ert slc resv hhi hlo hert hslc hresv
  generalize hi * 128 + lo * 64 + ert * 32 + slc * 16 + resv = u at u1 u2 u3 u4 ⊢
  unfold parseSct
  rw [if_neg (by simp only [List.length_append, List.length_cons, List.length_nil]; omega)]
  have g2 : idx ([2, 1 + vals.length, u, pi] ++ timeBytes vals) 2 = .ok u := rfl
  rw [g2, Out.bind_ok]
  simp only [u1, u2, u3, u4]
  rw [if_neg (by simp only [List.length_append, List.length_cons, List.length_nil, hl, ne_eq]; omega)]
  by_cases h0 : hi = 0
  · rw [if_pos h0, if_pos h0]
  · rw [if_neg h0, if_neg h0]
    have hi1 : hi = 1 := by omega
    match vals, hn, hv, hl with
    | v0 :: r, hn, hv, hl =>
      have hv0 : v0 < 256 ^ 4 := by have := hv v0 (by simp); simpa using this
      have f1 : fld ([2, 1 + (v0 :: r).length, u, pi] ++ timeBytes (v0 :: r)) 4 8 = .ok v0 := by
        unfold fld
        rw [show timeBytes (v0 :: r) = beBytes 4 v0 ++ timeBytes r from rfl,
          slice_mid _ _ _ 4 8 (by simp) (by simp), Out.bind_ok, beVal_beBytes_of_lt hv0]
      rw [f1, Out.bind_ok]
      by_cases hl1 : lo = 1
      · rw [if_pos hl1, if_pos hl1]
        match r, hn, hv, hl with
        | v1 :: r', hn, hv, hl =>
          have hv1 : v1 < 256 ^ 4 := by have := hv v1 (by simp); simpa using this
          have f2 : fld ([2, 1 + (v0 :: v1 :: r').length, u, pi] ++ timeBytes (v0 :: v1 :: r')) 8 12 = .ok v1 := by
            unfold fld
            rw [show [2, 1 + (v0 :: v1 :: r').length, u, pi] ++ timeBytes (v0 :: v1 :: r') =
                ([2, 1 + (v0 :: v1 :: r').length, u, pi] ++ beBytes 4 v0) ++ (beBytes 4 v1 ++ timeBytes r') by
              simp only [timeBytes, List.append_assoc],
              slice_mid _ _ _ 8 12 (by simp) (by simp), Out.bind_ok, beVal_beBytes_of_lt hv1]
          rw [f2, Out.bind_ok]; rfl
        | [], hn, _, _ => simp only [List.length_cons, List.length_nil] at hn; omega
      · rw [if_neg hl1, if_neg hl1, Out.bind_ok]; rfl
    | [], hn, _, _ => simp only [List.length_nil] at hn; omega

end Flute.Alc
