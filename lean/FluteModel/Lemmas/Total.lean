import FluteModel.Lemmas.Bytes
import FluteModel.Alc
/- totality (no panic, no hang) of the packet parser model: helper lemmas (core Lean only) -/
namespace Flute
open Flute.Bytes Flute.Lct Flute.Fti Flute.Alc Flute.Ntp

namespace Bytes

theorem idx_ok (d : List Nat) (i : Nat) (h : i < d.length) : idx d i = .ok d[i] := by
  unfold idx; rw [List.getElem?_eq_getElem h]

theorem slice_ok (d : List Nat) (i j : Nat) (h1 : i ≤ j) (h2 : j ≤ d.length) :
    slice d i j = .ok ((d.drop i).take (j - i)) := by
  unfold slice; rw [if_pos ⟨h1, h2⟩]

theorem length_slice (d : List Nat) (i j : Nat) (h1 : i ≤ j) (h2 : j ≤ d.length) :
    ((d.drop i).take (j - i)).length = j - i := by
  simp only [List.length_take, List.length_drop]; omega

end Bytes

namespace Out

theorem isPanic_bind {α β} (x : Out α) (f : α → Out β) (hx : x.isPanic = false)
    (hf : ∀ v, x = .ok v → (f v).isPanic = false) : (x.bind f).isPanic = false := by
  cases x with
  | ok v => exact hf v rfl
  | err => rfl
  | panic w => simp at hx

end Out

namespace Lct

/-- what `parse_lct_header` guarantees about an accepted header -/
structure HdrInv (d : List Nat) (l : LctHeader) : Prop where
  ext_le_len : l.headerExtOffset ≤ l.len
  len_le : l.len ≤ d.length
  four_le : 4 ≤ d.length
  len_mod : l.len % 4 = 0
  ext_mod : l.headerExtOffset % 4 = 0
  ext_ge : 4 ≤ l.headerExtOffset

theorem parseLctHeader_cases (d : List Nat) :
    parseLctHeader d = .err ∨ ∃ l, parseLctHeader d = .ok l ∧ HdrInv d l := by
  unfold parseLctHeader
  split
  · exact .inl rfl
  · rename_i v hv
    simp only []
    split
    · exact .inl rfl
    · rename_i h1
      have h4 : 4 ≤ d.length := by omega
      rw [idx_ok d 3 (by omega), idx_ok d 0 (by omega), idx_ok d 1 (by omega)]
      simp only [Out.bind_ok]
      split
      · exact .inl rfl
      · split
        · exact .inl rfl
        · split
          · exact .inl rfl
          · rename_i h2 h3
            rw [slice_ok _ _ _ (by omega) (by omega), slice_ok _ _ _ (by omega) (by omega),
                slice_ok _ _ _ (by omega) (by omega)]
            simp only [Out.bind_ok]
            refine .inr ⟨_, rfl, ?_⟩
            constructor <;> first | omega | (dsimp only; omega)

theorem parseLctHeader_total (d : List Nat) : (parseLctHeader d).isPanic = false := by
  rcases parseLctHeader_cases d with h | ⟨l, h, _⟩ <;> rw [h] <;> rfl

/-- what `get_ext` guarantees about a returned extension -/
structure ExtInv (e : List Nat) (ext : Nat) (r : List Nat) : Prop where
  sub : ∀ b ∈ r, b ∈ e
  four_le : 4 ≤ r.length
  mod4 : r.length % 4 = 0
  het : r[0]? = some ext
  len : r.length = if ext ≥ 128 then 4 else 4 * r[1]?.getD 0

theorem getExtLoop_cases (fuel : Nat) (e : List Nat) (ext : Nat) (hf : e.length ≤ fuel) :
    getExtLoop fuel e ext = .err ∨ getExtLoop fuel e ext = .ok none ∨
    ∃ r, getExtLoop fuel e ext = .ok (some r) ∧ ExtInv e ext r := by
  induction fuel generalizing e with
  | zero =>
    unfold getExtLoop
    rw [if_neg (by omega)]; exact .inr (.inl rfl)
  | succ fuel ih =>
    unfold getExtLoop
    split
    · rename_i h4
      rw [idx_ok e 0 (by omega)]
      simp only [Out.bind_ok]
      split
      · -- het ≥ 128
        rename_i hhet
        simp only [Out.bind_ok]
        split
        · exact .inl rfl
        · rename_i hhel
          split
          · rename_i heq
            rw [slice_ok _ _ _ (by omega) (by omega)]
            simp only [Out.bind_ok]
            refine .inr (.inr ⟨_, rfl, ?_⟩)
            have hl : ((e.drop 0).take (4 - 0)).length = 4 := by
              simp only [List.length_take, List.length_drop]; omega
            constructor
            · intro b hb; exact List.mem_of_mem_drop (List.mem_of_mem_take hb)
            · omega
            · omega
            · simp only [List.drop_zero, Nat.sub_zero]
              rw [List.getElem?_take_of_lt (by omega), List.getElem?_eq_getElem (by omega), heq]
            · rw [hl, if_pos (by omega)]
          · rw [slice_ok _ _ _ (by omega) (by omega)]
            simp only [Out.bind_ok]
            rcases ih (List.take (e.length - 4) (List.drop 4 e))
              (by simp only [List.length_take, List.length_drop]; omega) with h | h | ⟨r, h, hr⟩
            · exact .inl h
            · exact .inr (.inl h)
            · exact .inr (.inr ⟨r, h, ⟨fun b hb => List.mem_of_mem_drop (List.mem_of_mem_take (hr.sub b hb)),
                hr.four_le, hr.mod4, hr.het, hr.len⟩⟩)
      · rename_i hhet
        rw [idx_ok e 1 (by omega)]
        simp only [Out.bind_ok]
        split
        · exact .inl rfl
        · rename_i hhel
          split
          · rename_i heq
            rw [slice_ok _ _ _ (by omega) (by omega)]
            simp only [Out.bind_ok]
            refine .inr (.inr ⟨_, rfl, ?_⟩)
            have hl : ((e.drop 0).take (e[1] * 4 - 0)).length = e[1] * 4 := by
              simp only [List.length_take, List.length_drop]; omega
            constructor
            · intro b hb; exact List.mem_of_mem_drop (List.mem_of_mem_take hb)
            · omega
            · omega
            · simp only [List.drop_zero, Nat.sub_zero]
              rw [List.getElem?_take_of_lt (by omega), List.getElem?_eq_getElem (by omega), heq]
            · rw [hl, if_neg (by omega)]
              simp only [List.drop_zero, Nat.sub_zero]
              rw [List.getElem?_take_of_lt (by omega), List.getElem?_eq_getElem (by omega)]
              simp only [Option.getD_some]; omega
          · rw [slice_ok _ _ _ (by omega) (by omega)]
            simp only [Out.bind_ok]
            rcases ih (List.take (e.length - (e[1] * 4)) (List.drop (e[1] * 4) e))
              (by simp only [List.length_take, List.length_drop]; omega) with h | h | ⟨r, h, hr⟩
            · exact .inl h
            · exact .inr (.inl h)
            · exact .inr (.inr ⟨r, h, ⟨fun b hb => List.mem_of_mem_drop (List.mem_of_mem_take (hr.sub b hb)),
                hr.four_le, hr.mod4, hr.het, hr.len⟩⟩)
    · exact .inr (.inl rfl)

theorem getExt_cases (d : List Nat) (l : LctHeader) (ext : Nat) (h : HdrInv d l) :
    getExt d l ext = .err ∨ getExt d l ext = .ok none ∨ ∃ r, getExt d l ext = .ok (some r) ∧ ExtInv d ext r := by
  unfold getExt
  rw [slice_ok _ _ _ h.ext_le_len h.len_le]
  simp only [Out.bind_ok]
  rcases getExtLoop_cases _ _ ext (Nat.le_refl _) with h | h | ⟨r, h, hr⟩
  · exact .inl h
  · exact .inr (.inl h)
  · exact .inr (.inr ⟨r, h, ⟨fun b hb => List.mem_of_mem_drop (List.mem_of_mem_take (hr.sub b hb)),
      hr.four_le, hr.mod4, hr.het, hr.len⟩⟩)

theorem getExt_total (d : List Nat) (l : LctHeader) (ext : Nat) (h : HdrInv d l) :
    (getExt d l ext).isPanic = false := by
  rcases getExt_cases d l ext h with h | h | ⟨r, h, _⟩ <;> rw [h] <;> rfl

end Lct
end Flute

namespace Flute
open Flute.Bytes Flute.Lct Flute.Fti Flute.Alc Flute.Ntp

namespace Fti

theorem fld_ok (fti : List Nat) (i j : Nat) (h1 : i ≤ j) (h2 : j ≤ fti.length) :
    fld fti i j = .ok (beVal ((fti.drop i).take (j - i))) := by
  unfold fld; rw [slice_ok _ _ _ h1 h2]; rfl

theorem getFtiNoCode_total (fti : List Nat) : (getFtiNoCode fti).isPanic = false := by
  unfold getFtiNoCode
  split
  · rfl
  · rename_i h
    rw [idx_ok fti 1 (by omega)]; simp only [Out.bind_ok]
    split
    · rfl
    · rw [fld_ok _ _ _ (by omega) (by omega), fld_ok _ _ _ (by omega) (by omega),
          fld_ok _ _ _ (by omega) (by omega)]; rfl

theorem getFtiRs28_total (fti : List Nat) : (getFtiRs28 fti).isPanic = false := by
  unfold getFtiRs28
  split
  · rfl
  · rename_i h
    rw [idx_ok fti 1 (by omega)]; simp only [Out.bind_ok]
    split
    · rfl
    · rw [fld_ok _ _ _ (by omega) (by omega), fld_ok _ _ _ (by omega) (by omega),
          idx_ok fti 10 (by omega), idx_ok fti 11 (by omega)]; rfl

theorem getFtiRs28Us_total (fti : List Nat) : (getFtiRs28Us fti).isPanic = false := by
  unfold getFtiRs28Us
  split
  · rfl
  · rename_i h
    rw [idx_ok fti 1 (by omega)]; simp only [Out.bind_ok]
    split
    · rfl
    · rw [fld_ok _ _ _ (by omega) (by omega), fld_ok _ _ _ (by omega) (by omega),
          fld_ok _ _ _ (by omega) (by omega), fld_ok _ _ _ (by omega) (by omega),
          fld_ok _ _ _ (by omega) (by omega)]; rfl

theorem getFtiRs2m_total (fti : List Nat) : (getFtiRs2m fti).isPanic = false := by
  unfold getFtiRs2m
  split
  · rfl
  · rename_i h
    rw [idx_ok fti 1 (by omega)]; simp only [Out.bind_ok]
    split
    · rfl
    · rw [fld_ok _ _ _ (by omega) (by omega), idx_ok fti 8 (by omega), idx_ok fti 9 (by omega),
          fld_ok _ _ _ (by omega) (by omega), fld_ok _ _ _ (by omega) (by omega),
          fld_ok _ _ _ (by omega) (by omega)]; rfl

theorem getFtiRaptorQ_total (fti : List Nat) : (getFtiRaptorQ fti).isPanic = false := by
  unfold getFtiRaptorQ
  split
  · rfl
  · rename_i h
    rw [fld_ok _ _ _ (by omega) (by omega), fld_ok _ _ _ (by omega) (by omega), idx_ok fti 10 (by omega),
        fld_ok _ _ _ (by omega) (by omega), idx_ok fti 13 (by omega)]
    simp only [Out.bind_ok]
    repeat' split
    all_goals rfl

theorem getFtiRaptor_total (fti : List Nat) : (getFtiRaptor fti).isPanic = false := by
  unfold getFtiRaptor
  split
  · rfl
  · rename_i h
    rw [fld_ok _ _ _ (by omega) (by omega), fld_ok _ _ _ (by omega) (by omega),
        fld_ok _ _ _ (by omega) (by omega), idx_ok fti 14 (by omega), idx_ok fti 15 (by omega)]
    simp only [Out.bind_ok]
    repeat' split
    all_goals rfl

theorem getFtiBytes_total (fec : Nat) (fti : List Nat) (hk : knownFec fec = true) :
    (getFtiBytes fec fti).isPanic = false := by
  unfold getFtiBytes
  repeat' split
  · exact getFtiNoCode_total _
  · exact getFtiRs28_total _
  · exact getFtiRs28Us_total _
  · exact getFtiRs2m_total _
  · exact getFtiRaptorQ_total _
  · exact getFtiRaptor_total _
  · simp only [knownFec, NOCODE, RS28, RS28US, RS2M, RAPTORQ, RAPTOR, decide_eq_true_eq] at *
    omega

theorem getFti_total (fec : Nat) (d : List Nat) (l : LctHeader) (h : HdrInv d l) (hk : knownFec fec = true) :
    (getFti fec d l).isPanic = false := by
  unfold getFti
  apply Out.isPanic_bind _ _ (getExt_total d l _ h)
  intro r _
  cases r with
  | none => rfl
  | some fti =>
    apply Out.isPanic_bind _ _ (getFtiBytes_total fec fti hk)
    intro v _; rfl

theorem pidOfBytes_total (oti : Oti) (p : List Nat) (hk : knownFec oti.fecId = true) :
    (pidOfBytes oti p).isPanic = false := by
  simp only [knownFec, decide_eq_true_eq] at hk
  unfold pidOfBytes
  simp only [NOCODE, RS28, RS28US, RS2M, RAPTORQ, RAPTOR]
  rcases hk with h | h | h | h | h | h <;> rw [h] <;> simp only [Nat.reduceEqDiff, if_true, if_false] <;>
    repeat' split
  all_goals rfl

theorem getPayloadId_total (oti : Oti) (d : List Nat) (a p : Nat) (h1 : a ≤ p) (h2 : p ≤ d.length)
    (hk : knownFec oti.fecId = true) : (getPayloadId oti d a p).isPanic = false := by
  unfold getPayloadId
  rw [slice_ok _ _ _ h1 h2, Out.bind_ok]
  exact pidOfBytes_total oti _ hk

end Fti

namespace Alc

theorem ntpToSystemTime_total (n : Nat) (h : n < 18446744073709551616) : (ntpToSystemTime n).isPanic = false := by
  unfold ntpToSystemTime
  simp only [Nat.reducePow]
  split
  · rfl
  · split
    · rfl
    · rename_i h1 h2
      exfalso; apply h2; omega

theorem fld_lt (fti : List Nat) (hw : Wf fti) (i j : Nat) (h1 : i ≤ j) (h2 : j ≤ fti.length) :
    ∃ v, fld fti i j = .ok v ∧ v < 256 ^ (j - i) := by
  refine ⟨_, fld_ok fti i j h1 h2, ?_⟩
  have := beVal_lt _ (wf_take (wf_drop hw i) (j - i))
  rwa [length_slice _ _ _ h1 h2] at this

theorem parseSct_total (ext : List Nat) (hw : Wf ext) (h : 4 ≤ ext.length) : (parseSct ext).isPanic = false := by
  unfold parseSct
  rw [if_neg (by omega), idx_ok ext 2 (by omega)]
  simp only [Out.bind_ok]
  split
  · rfl
  · rename_i hl
    split
    · rfl
    · rename_i hhi
      obtain ⟨secs, hs, hsl⟩ := fld_lt ext hw 4 8 (by omega) (by omega)
      simp only [Nat.reducePow, Nat.reduceSub] at hsl
      rw [hs, Out.bind_ok]
      split
      · rename_i hlo
        obtain ⟨frac, hf, hfl⟩ := fld_lt ext hw 8 12 (by omega) (by omega)
        simp only [Nat.reducePow, Nat.reduceSub] at hfl
        rw [hf, Out.bind_ok]
        apply Out.isPanic_bind
        · apply ntpToSystemTime_total; omega
        · intro v _; rfl
      · rw [Out.bind_ok]
        apply Out.isPanic_bind
        · apply ntpToSystemTime_total; omega
        · intro v _; rfl

theorem parseExtFdt_total (ext : List Nat) : (parseExtFdt ext).isPanic = false := by
  unfold parseExtFdt; split <;> rfl

theorem parseCenc_total (ext : List Nat) : (parseCenc ext).isPanic = false := by
  unfold parseCenc
  split
  · rfl
  · rename_i h
    rw [idx_ok ext 1 (by omega), Out.bind_ok]
    split <;> rfl

theorem cencOf_total (c : Option (List Nat)) : (cencOf c).isPanic = false := by
  unfold cencOf
  cases c with
  | none => rfl
  | some ext =>
    have := parseCenc_total ext
    simp only []
    split
    · rfl
    · rfl
    · rename_i w hw; rw [hw] at this; simp at this

theorem fdtInfoOf_total (d : List Nat) (l : LctHeader) (h : HdrInv d l) : (fdtInfoOf d l).isPanic = false := by
  unfold fdtInfoOf
  split
  · apply Out.isPanic_bind _ _ (getExt_total d l _ h)
    intro r _
    cases r with
    | none => rfl
    | some ext => exact parseExtFdt_total ext
  · rfl

/-- an accepted packet: the header invariant and the payload-id window lie inside the datagram -/
structure PktInv (d : List Nat) (p : AlcPkt) : Prop where
  hdr : HdrInv d p.lct
  known : knownFec p.lct.cp = true
  off_le : p.alcHeaderOffset ≤ p.payloadOffset
  pay_le : p.payloadOffset ≤ d.length
  alc_eq : p.alcHeaderOffset = p.lct.len
  pay_eq : p.payloadOffset = payloadIdLen p.lct.cp + p.lct.len
  /-- provenance of the fields -/
  lct_eq : parseLctHeader d = .ok p.lct
  fti_eq : ∃ fti, getFti p.lct.cp d p.lct = .ok fti ∧ p.oti = fti.map (fun x => x.1) ∧ p.transferLength = fti.map (fun x => x.2)
  cenc_eq : ∃ ce, getExt d p.lct EXT_CENC = .ok ce ∧ cencOf ce = .ok p.cenc
  fdt_eq : fdtInfoOf d p.lct = .ok p.fdtInfo

theorem parseAlcPkt_cases (d : List Nat) :
    parseAlcPkt d = .err ∨ ∃ p, parseAlcPkt d = .ok p ∧ PktInv d p := by
  unfold parseAlcPkt
  rcases parseLctHeader_cases d with h | ⟨l, h, hinv⟩
  · rw [h]; exact .inl rfl
  · rw [h, Out.bind_ok]
    split
    · exact .inl rfl
    · rename_i hk
      simp only [Bool.not_eq_true, Bool.not_eq_false] at hk
      simp only []
      split
      · exact .inl rfl
      · rename_i hlen
        have h1 := getFti_total l.cp d l hinv hk
        cases hf : getFti l.cp d l with
        | panic w => rw [hf] at h1; simp at h1
        | err => exact .inl rfl
        | ok fti =>
          rw [Out.bind_ok]
          have h2 := getExt_total d l EXT_CENC hinv
          cases hc : getExt d l EXT_CENC with
          | panic w => rw [hc] at h2; simp at h2
          | err => exact .inl rfl
          | ok cencExt =>
            rw [Out.bind_ok]
            have h3 := cencOf_total cencExt
            cases hcc : cencOf cencExt with
            | panic w => rw [hcc] at h3; simp at h3
            | err => exact .inl rfl
            | ok cenc =>
              rw [Out.bind_ok]
              have h4 := fdtInfoOf_total d l hinv
              cases hfd : fdtInfoOf d l with
              | panic w => rw [hfd] at h4; simp at h4
              | err => exact .inl rfl
              | ok fdtInfo =>
                rw [Out.bind_ok]
                refine .inr ⟨_, rfl, ?_⟩
                constructor
                · exact hinv
                · exact hk
                · dsimp only; omega
                · dsimp only; omega
                · rfl
                · rfl
                · exact h
                · exact ⟨fti, hf, rfl, rfl⟩
                · exact ⟨cencExt, hc, hcc⟩
                · exact hfd

theorem getSenderCurrentTime_total (d : List Nat) (hw : Wf d) (p : AlcPkt) (h : PktInv d p) :
    (getSenderCurrentTime d p).isPanic = false := by
  unfold getSenderCurrentTime
  rcases getExt_cases d p.lct EXT_TIME h.hdr with he | he | ⟨r, he, hr⟩
  · rw [he]; rfl
  · rw [he]; rfl
  · rw [he, Out.bind_ok]
    -- the extension is a slice of the datagram, hence made of bytes
    exact parseSct_total r (fun b hb => hw b (hr.sub b hb)) hr.four_le

end Alc
end Flute
