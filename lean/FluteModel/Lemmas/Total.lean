import FluteModel.Lemmas.Bytes
import FluteModel.Alc
/- totality (no panic, no hang) of the packet parser model: helper lemmas (core Lean only) -/
namespace Flute
open Flute.Bytes Flute.Lct Flute.Fti Flute.Alc Flute.Ntp

namespace Bytes

theorem idx_ok (d : List Nat) (i : Nat) (h : i < d.length) : idx d i = .ok d[i] := by
  unfold idx; rw [List.getElem?_eq_getElem h]

theorem slice_ok (d : List Nat) (i j : Nat) (h1 : i ≤ j) (h2 : j ≤ d.length) :
    slice d i j = .ok ((d.drop i).take (j - i)) := by
  unfold slice; rw [if_pos ⟨h1, h2⟩]

theorem length_slice (d : List Nat) (i j : Nat) (h1 : i ≤ j) (h2 : j ≤ d.length) :
    ((d.drop i).take (j - i)).length = j - i := by
  simp only [List.length_take, List.length_drop]; omega

end Bytes

namespace Out

theorem isPanic_bind {α β} (x : Out α) (f : α → Out β) (hx : x.isPanic = false)
    (hf : ∀ v, x = .ok v → (f v).isPanic = false) : (x.bind f).isPanic = false := by
  cases x with
  | ok v => exact hf v rfl
  | err => rfl
  | panic w => simp at hx

end Out

namespace Lct

/-- what `parse_lct_header` guarantees about an accepted header -/
structure HdrInv (d : List Nat) (l : LctHeader) : Prop where
  ext_le_len : l.headerExtOffset ≤ l.len
  len_le : l.len ≤ d.length
  four_le : 4 ≤ d.length
  len_mod : l.len % 4 = 0
  ext_mod : l.headerExtOffset % 4 = 0

theorem parseLctHeader_cases (d : List Nat) :
    parseLctHeader d = .err ∨ ∃ l, parseLctHeader d = .ok l ∧ HdrInv d l := by
  unfold parseLctHeader
  split
  · exact .inl rfl
  · rename_i v hv
    simp only []
    split
    · exact .inl rfl
    · rename_i h1
      have h4 : 4 ≤ d.length := by omega
      rw [idx_ok d 3 (by omega), idx_ok d 0 (by omega), idx_ok d 1 (by omega)]
      simp only [Out.bind_ok]
      split
      · exact .inl rfl
      · split
        · exact .inl rfl
        · split
          · exact .inl rfl
          · rename_i h2 h3
            rw [slice_ok _ _ _ (by omega) (by omega), slice_ok _ _ _ (by omega) (by omega),
                slice_ok _ _ _ (by omega) (by omega)]
            simp only [Out.bind_ok]
            refine .inr ⟨_, rfl, ?_⟩
            constructor <;> first | omega | (dsimp only; omega)

theorem parseLctHeader_total (d : List Nat) : (parseLctHeader d).isPanic = false := by
  rcases parseLctHeader_cases d with h | ⟨l, h, _⟩ <;> rw [h] <;> rfl

/-- what `get_ext` guarantees about a returned extension -/
structure ExtInv (ext : Nat) (r : List Nat) : Prop where
  four_le : 4 ≤ r.length
  mod4 : r.length % 4 = 0
  het : r[0]? = some ext
  len : r.length = if ext ≥ 128 then 4 else 4 * r[1]?.getD 0

theorem getExtLoop_cases (fuel : Nat) (e : List Nat) (ext : Nat) (hf : e.length ≤ fuel) :
    getExtLoop fuel e ext = .err ∨ getExtLoop fuel e ext = .ok none ∨
    ∃ r, getExtLoop fuel e ext = .ok (some r) ∧ ExtInv ext r := by
  induction fuel generalizing e with
  | zero =>
    unfold getExtLoop
    rw [if_neg (by omega)]; exact .inr (.inl rfl)
  | succ fuel ih =>
    unfold getExtLoop
    split
    · rename_i h4
      rw [idx_ok e 0 (by omega)]
      simp only [Out.bind_ok]
      split
      · -- het ≥ 128
        rename_i hhet
        simp only [Out.bind_ok]
        split
        · exact .inl rfl
        · rename_i hhel
          split
          · rename_i heq
            rw [slice_ok _ _ _ (by omega) (by omega)]
            simp only [Out.bind_ok]
            refine .inr (.inr ⟨_, rfl, ?_⟩)
            have hl : ((e.drop 0).take (4 - 0)).length = 4 := by
              simp only [List.length_take, List.length_drop]; omega
            constructor
            · omega
            · omega
            · simp only [List.drop_zero, Nat.sub_zero]
              rw [List.getElem?_take_of_lt (by omega), List.getElem?_eq_getElem (by omega), heq]
            · rw [hl, if_pos (by omega)]
          · rw [slice_ok _ _ _ (by omega) (by omega)]
            simp only [Out.bind_ok]
            apply ih
            simp only [List.length_take, List.length_drop]; omega
      · rename_i hhet
        rw [idx_ok e 1 (by omega)]
        simp only [Out.bind_ok]
        split
        · exact .inl rfl
        · rename_i hhel
          split
          · rename_i heq
            rw [slice_ok _ _ _ (by omega) (by omega)]
            simp only [Out.bind_ok]
            refine .inr (.inr ⟨_, rfl, ?_⟩)
            have hl : ((e.drop 0).take (e[1] * 4 - 0)).length = e[1] * 4 := by
              simp only [List.length_take, List.length_drop]; omega
            constructor
            · omega
            · omega
            · simp only [List.drop_zero, Nat.sub_zero]
              rw [List.getElem?_take_of_lt (by omega), List.getElem?_eq_getElem (by omega), heq]
            · rw [hl, if_neg (by omega)]
              simp only [List.drop_zero, Nat.sub_zero]
              rw [List.getElem?_take_of_lt (by omega), List.getElem?_eq_getElem (by omega)]
              simp only [Option.getD_some]; omega
          · rw [slice_ok _ _ _ (by omega) (by omega)]
            simp only [Out.bind_ok]
            apply ih
            simp only [List.length_take, List.length_drop]; omega
    · exact .inr (.inl rfl)

theorem getExt_cases (d : List Nat) (l : LctHeader) (ext : Nat) (h : HdrInv d l) :
    getExt d l ext = .err ∨ getExt d l ext = .ok none ∨ ∃ r, getExt d l ext = .ok (some r) ∧ ExtInv ext r := by
  unfold getExt
  rw [slice_ok _ _ _ h.ext_le_len h.len_le]
  simp only [Out.bind_ok]
  exact getExtLoop_cases _ _ _ (Nat.le_refl _)

theorem getExt_total (d : List Nat) (l : LctHeader) (ext : Nat) (h : HdrInv d l) :
    (getExt d l ext).isPanic = false := by
  rcases getExt_cases d l ext h with h | h | ⟨r, h, _⟩ <;> rw [h] <;> rfl

end Lct
end Flute

namespace Flute
open Flute.Bytes Flute.Lct Flute.Fti Flute.Alc Flute.Ntp

namespace Fti

theorem fld_ok (fti : List Nat) (i j : Nat) (h1 : i ≤ j) (h2 : j ≤ fti.length) :
    fld fti i j = .ok (beVal ((fti.drop i).take (j - i))) := by
  unfold fld; rw [slice_ok _ _ _ h1 h2]; rfl

theorem getFtiNoCode_total (fti : List Nat) : (getFtiNoCode fti).isPanic = false := by
  unfold getFtiNoCode
  split
  · rfl
  · rename_i h
    rw [idx_ok fti 1 (by omega)]; simp only [Out.bind_ok]
    split
    · rfl
    · rw [fld_ok _ _ _ (by omega) (by omega), fld_ok _ _ _ (by omega) (by omega),
          fld_ok _ _ _ (by omega) (by omega)]; rfl

theorem getFtiRs28_total (fti : List Nat) : (getFtiRs28 fti).isPanic = false := by
  unfold getFtiRs28
  split
  · rfl
  · rename_i h
    rw [idx_ok fti 1 (by omega)]; simp only [Out.bind_ok]
    split
    · rfl
    · rw [fld_ok _ _ _ (by omega) (by omega), fld_ok _ _ _ (by omega) (by omega),
          idx_ok fti 10 (by omega), idx_ok fti 11 (by omega)]; rfl

theorem getFtiRs28Us_total (fti : List Nat) : (getFtiRs28Us fti).isPanic = false := by
  unfold getFtiRs28Us
  split
  · rfl
  · rename_i h
    rw [idx_ok fti 1 (by omega)]; simp only [Out.bind_ok]
    split
    · rfl
    · rw [fld_ok _ _ _ (by omega) (by omega), fld_ok _ _ _ (by omega) (by omega),
          fld_ok _ _ _ (by omega) (by omega), fld_ok _ _ _ (by omega) (by omega),
          fld_ok _ _ _ (by omega) (by omega)]; rfl

theorem getFtiRs2m_total (fti : List Nat) : (getFtiRs2m fti).isPanic = false := by
  unfold getFtiRs2m
  split
  · rfl
  · rename_i h
    rw [idx_ok fti 1 (by omega)]; simp only [Out.bind_ok]
    split
    · rfl
    · rw [fld_ok _ _ _ (by omega) (by omega), idx_ok fti 8 (by omega), idx_ok fti 9 (by omega),
          fld_ok _ _ _ (by omega) (by omega), fld_ok _ _ _ (by omega) (by omega),
          fld_ok _ _ _ (by omega) (by omega)]; rfl

theorem getFtiRaptorQ_total (fti : List Nat) : (getFtiRaptorQ fti).isPanic = false := by
  unfold getFtiRaptorQ
  split
  · rfl
  · rename_i h
    rw [fld_ok _ _ _ (by omega) (by omega), fld_ok _ _ _ (by omega) (by omega), idx_ok fti 10 (by omega),
        fld_ok _ _ _ (by omega) (by omega), idx_ok fti 13 (by omega)]
    simp only [Out.bind_ok]
    repeat' split
    all_goals rfl

theorem getFtiRaptor_total (fti : List Nat) : (getFtiRaptor fti).isPanic = false := by
  unfold getFtiRaptor
  split
  · rfl
  · rename_i h
    rw [fld_ok _ _ _ (by omega) (by omega), fld_ok _ _ _ (by omega) (by omega),
        fld_ok _ _ _ (by omega) (by omega), idx_ok fti 14 (by omega), idx_ok fti 15 (by omega)]
    simp only [Out.bind_ok]
    repeat' split
    all_goals rfl

theorem getFtiBytes_total (fec : Nat) (fti : List Nat) (hk : knownFec fec = true) :
    (getFtiBytes fec fti).isPanic = false := by
  unfold getFtiBytes
  repeat' split
  · exact getFtiNoCode_total _
  · exact getFtiRs28_total _
  · exact getFtiRs28Us_total _
  · exact getFtiRs2m_total _
  · exact getFtiRaptorQ_total _
  · exact getFtiRaptor_total _
  · simp only [knownFec, NOCODE, RS28, RS28US, RS2M, RAPTORQ, RAPTOR, decide_eq_true_eq] at *
    omega

theorem getFti_total (fec : Nat) (d : List Nat) (l : LctHeader) (h : HdrInv d l) (hk : knownFec fec = true) :
    (getFti fec d l).isPanic = false := by
  unfold getFti
  apply Out.isPanic_bind _ _ (getExt_total d l _ h)
  intro r _
  cases r with
  | none => rfl
  | some fti =>
    apply Out.isPanic_bind _ _ (getFtiBytes_total fec fti hk)
    intro v _; rfl

theorem getPayloadId_total (oti : Oti) (d : List Nat) (a p : Nat) (h1 : a ≤ p) (h2 : p ≤ d.length)
    (hk : knownFec oti.fecId = true) : (getPayloadId oti d a p).isPanic = false := by
  unfold getPayloadId
  rw [slice_ok _ _ _ h1 h2]; simp only [Out.bind_ok]
  repeat' split
  all_goals first | rfl | skip
  simp only [knownFec, NOCODE, RS28, RS28US, RS2M, RAPTORQ, RAPTOR, decide_eq_true_eq] at *
  omega

end Fti

end Flute
