import FluteModel.Lemmas.RecvRun
/-
  C19 `skew_invariant`: running the receiver with every receiver time shifted by δ on a history whose
  FDT packets all carry a sender-current-time yields the same results and events; the states differ
  only in the stored clock offsets, which are shifted by δ (`shiftS`).
-/
namespace Flute.Recv
variable {σ : Type}

/-- realistic receiver clock: 1970 ≤ t < 1970 + 2^62 µs (≈ 146 000 years) -/
def TimeSane (t : Int) : Prop := 0 ≤ t ∧ t < 4611686018427387904

/-- signed clock offset `now − sct` stored in `(sender_current_time_offset, sender_current_time_late)` -/
def FdtRecv.signedOffset (f : FdtRecv σ) : Option Int :=
  match f.offset with
  | none => none
  | some off => some (if f.late then (off : Int) else -(off : Int))

/-- the stored `(late, offset)` pair for the signed offset increased by δ -/
def shiftClock (δ : Int) (late : Bool) (off : Nat) : Bool × Nat :=
  let so : Int := (if late then (off : Int) else -(off : Int)) + δ
  if so > 0 then (true, so.toNat) else (false, (-so).toNat)

/-- the instance as it would be had every receiver time been δ later -/
def shiftF (δ : Int) (f : FdtRecv σ) : FdtRecv σ :=
  match f.offset with
  | none => f
  | some off => { f with late := (shiftClock δ f.late off).1, offset := some (shiftClock δ f.late off).2 }

def shiftS (δ : Int) (s : State σ) : State σ :=
  { s with fdtReceivers := s.fdtReceivers.map (fun kf => (kf.1, shiftF δ kf.2)),
           fdtCurrent := s.fdtCurrent.map (shiftF δ) }

def shiftOp (δ : Int) : Op → Op
  | .data d now ans => .data d (now + δ) ans
  | .cleanup now stale => .cleanup (now + δ) stale

/-- bound on stored offsets under which no time arithmetic can overflow -/
def offB : Int := 9223372036854775808

/-- the clock part of an instance is fit for the skew argument: either it observed an SCT (offset
    within bounds, also after the shift), or it is a fresh instance that was never pushed -/
def SkewOK (δ : Int) (f : FdtRecv σ) : Prop :=
  (∃ so, f.signedOffset = some so ∧ -offB < so ∧ so < offB ∧ -offB < so + δ ∧ so + δ < offB) ∨
  (f.offset = none ∧ f.st = .receiving)

@[simp] theorem shiftF_fdtId (δ : Int) (f : FdtRecv σ) : (shiftF δ f).fdtId = f.fdtId := by
  unfold shiftF; split <;> rfl
@[simp] theorem shiftF_st (δ : Int) (f : FdtRecv σ) : (shiftF δ f).st = f.st := by
  unfold shiftF; split <;> rfl
@[simp] theorem shiftF_inst (δ : Int) (f : FdtRecv σ) : (shiftF δ f).inst = f.inst := by
  unfold shiftF; split <;> rfl
@[simp] theorem shiftF_expires (δ : Int) (f : FdtRecv σ) : (shiftF δ f).expires = f.expires := by
  unfold shiftF; split <;> rfl
@[simp] theorem shiftF_utf8 (δ : Int) (f : FdtRecv σ) : (shiftF δ f).utf8 = f.utf8 := by
  unfold shiftF; split <;> rfl
@[simp] theorem shiftF_hasMeta (δ : Int) (f : FdtRecv σ) : (shiftF δ f).hasMeta = f.hasMeta := by
  unfold shiftF; split <;> rfl
@[simp] theorem shiftF_check (δ : Int) (f : FdtRecv σ) : (shiftF δ f).check = f.check := by
  unfold shiftF; split <;> rfl
@[simp] theorem shiftF_obj (δ : Int) (f : FdtRecv σ) : (shiftF δ f).obj = f.obj := by
  unfold shiftF; split <;> rfl

theorem shiftF_none (δ : Int) (f : FdtRecv σ) (h : f.offset = none) : shiftF δ f = f := by
  unfold shiftF; rw [h]

theorem signedOffset_shiftF (δ : Int) (f : FdtRecv σ) :
    (shiftF δ f).signedOffset = f.signedOffset.map (· + δ) := by
  unfold shiftF FdtRecv.signedOffset
  cases hoff : f.offset with
  | none => simp [hoff]
  | some off =>
    simp only [Option.map_some, Option.some.injEq]
    unfold shiftClock
    simp only []
    by_cases hl : f.late = true <;> simp only [hl, Bool.false_eq_true, ↓reduceIte] <;> split <;> simp <;> omega

theorem serverTime_of_signed (f : FdtRecv σ) (now so : Int) (h : f.signedOffset = some so)
    (h1 : -offB < so) (h2 : so < offB) (hn : TimeSane now) : f.serverTime now = .ok (now - so) := by
  unfold FdtRecv.signedOffset at h
  unfold FdtRecv.serverTime
  unfold TimeSane at hn
  unfold offB at h1 h2
  cases hoff : f.offset with
  | none => rw [hoff] at h; cases h
  | some off =>
    rw [hoff] at h
    simp only [Option.some.injEq] at h
    simp only []
    by_cases hl : f.late = true
    · simp only [hl, ↓reduceIte] at h ⊢
      unfold sysSub sysLimit
      rw [if_pos (by omega)]; rw [h]
    · simp only [hl, Bool.false_eq_true, ↓reduceIte] at h ⊢
      unfold sysAdd sysLimit
      rw [if_pos (by omega)]
      congr 1; omega

/-- the estimate of the sender clock does not see the skew -/
theorem serverTime_shiftF (δ : Int) (f : FdtRecv σ) (now : Int) (hn : TimeSane now)
    (hn' : TimeSane (now + δ))
    (hok : ∃ so, f.signedOffset = some so ∧ -offB < so ∧ so < offB ∧ -offB < so + δ ∧ so + δ < offB) :
    (shiftF δ f).serverTime (now + δ) = f.serverTime now := by
  obtain ⟨so, hso, h1, h2, h3, h4⟩ := hok
  rw [serverTime_of_signed f now so hso h1 h2 hn]
  have hs := signedOffset_shiftF δ f
  rw [hso] at hs
  simp only [Option.map_some] at hs
  rw [serverTime_of_signed (shiftF δ f) (now + δ) (so + δ) hs h3 h4 hn']
  congr 1; omega

theorem isExpired_shiftF (δ : Int) (f : FdtRecv σ) (now : Int) (hn : TimeSane now)
    (hn' : TimeSane (now + δ))
    (hok : ∃ so, f.signedOffset = some so ∧ -offB < so ∧ so < offB ∧ -offB < so + δ ∧ so + δ < offB) :
    (shiftF δ f).isExpired (now + δ) = f.isExpired now := by
  unfold FdtRecv.isExpired
  rw [shiftF_expires, serverTime_shiftF δ f now hn hn' hok]

theorem shiftF_setSt (δ : Int) (f : FdtRecv σ) (st : FdtState) :
    shiftF δ { f with st := st } = { shiftF δ f with st := st } := by
  cases f with
  | mk fdtId obj st0 expires inst utf8 offset late check hasMeta bytes =>
    cases offset <;> rfl

theorem updateExpired_pos (f : FdtRecv σ) (now : Int) (h : f.st = .complete ∧ f.check = true) :
    f.updateExpired now =
      (match f.isExpired now with
       | .error w => .error w
       | .ok true => .ok { f with st := .expired }
       | .ok false => .ok f) := by
  unfold FdtRecv.updateExpired
  rw [if_neg (by simp [h.1]), if_pos h.2]
  cases f.isExpired now with
  | error w => rfl
  | ok b => cases b <;> rfl

theorem updateExpired_neg (f : FdtRecv σ) (now : Int) (h : ¬ (f.st = .complete ∧ f.check = true)) :
    f.updateExpired now = .ok f := by
  unfold FdtRecv.updateExpired
  by_cases hst : f.st = .complete
  · rw [if_neg (by simp [hst]), if_neg (fun hc => h ⟨hst, hc⟩)]
  · rw [if_pos hst]

theorem updateExpired_shiftF (δ : Int) (f : FdtRecv σ) (now : Int) (hn : TimeSane now)
    (hn' : TimeSane (now + δ)) (hok : SkewOK δ f) :
    (shiftF δ f).updateExpired (now + δ) =
      (match f.updateExpired now with | .ok f' => .ok (shiftF δ f') | .error w => .error w) := by
  by_cases hcond : f.st = .complete ∧ f.check = true
  · have hcond' : (shiftF δ f).st = .complete ∧ (shiftF δ f).check = true := by
      rw [shiftF_st, shiftF_check]; exact hcond
    rcases hok with hok | ⟨_, hrecv⟩
    · rw [updateExpired_pos _ _ hcond', updateExpired_pos _ _ hcond, isExpired_shiftF δ f now hn hn' hok]
      cases f.isExpired now with
      | error w => rfl
      | ok b =>
        cases b
        · rfl
        · exact congrArg Except.ok (shiftF_setSt δ f .expired).symm
    · rw [hrecv] at hcond; simp at hcond
  · have hcond' : ¬ ((shiftF δ f).st = .complete ∧ (shiftF δ f).check = true) := by
      rw [shiftF_st, shiftF_check]; exact hcond
    rw [updateExpired_neg _ _ hcond', updateExpired_neg _ _ hcond]


/-! ### `FdtReceiver::push` commutes with the shift -/

theorem shiftF_bytes (δ : Int) (f : FdtRecv σ) : (shiftF δ f).bytes = f.bytes := by
  unfold shiftF; split <;> rfl

theorem shiftF_applyWEv (δ : Int) (ans : FdtAns) (g : FdtRecv σ) (e : WEv) :
    shiftF δ (g.applyWEv ans e) = (shiftF δ g).applyWEv ans e := by
  cases e with
  | complete =>
    simp only [FdtRecv.applyWEv, shiftF_st]
    by_cases h : g.st = .error
    · rw [if_pos h, if_pos h]
    · rw [if_neg h, if_neg h]
      cases g with
      | mk fdtId obj st0 expires inst utf8 offset late check hasMeta bytes =>
        cases offset <;> cases ans <;> rfl
  | write sbn len =>
    simp only [FdtRecv.applyWEv, shiftF_bytes]
    by_cases h : g.bytes + len > maxFdtSize
    · rw [if_pos h, if_pos h]
      cases g with
      | mk fdtId obj st0 expires inst utf8 offset late check hasMeta bytes => cases offset <;> rfl
    · rw [if_neg h, if_neg h]
      cases g with
      | mk fdtId obj st0 expires inst utf8 offset late check hasMeta bytes => cases offset <;> rfl
  | _ =>
    cases g with
    | mk fdtId obj st0 expires inst utf8 offset late check hasMeta bytes => cases offset <;> rfl

theorem shiftF_applyWEvs (δ : Int) (ans : FdtAns) (g : FdtRecv σ) (evs : List WEv) :
    shiftF δ (g.applyWEvs ans evs) = (shiftF δ g).applyWEvs ans evs := by
  induction evs generalizing g with
  | nil => rfl
  | cons e r ih =>
    simp only [FdtRecv.applyWEvs, List.foldl_cons] at ih ⊢
    rw [ih, shiftF_applyWEv]

theorem shiftF_setObj (δ : Int) (g : FdtRecv σ) (x : Option σ) :
    shiftF δ { g with obj := x } = { shiftF δ g with obj := x } := by
  cases g with
  | mk fdtId obj st0 expires inst utf8 offset late check hasMeta bytes => cases offset <;> rfl

theorem shiftF_setMetaObj (δ : Int) (g : FdtRecv σ) :
    shiftF δ ({ g with hasMeta := true, obj := none } : FdtRecv σ) =
      ({ shiftF δ g with hasMeta := true, obj := none } : FdtRecv σ) := by
  cases g with
  | mk fdtId obj st0 expires inst utf8 offset late check hasMeta bytes => cases offset <;> rfl

theorem shiftF_setObjSt (δ : Int) (g : FdtRecv σ) (x : Option σ) (st : FdtState) :
    shiftF δ { g with obj := x, st := st } = { shiftF δ g with obj := x, st := st } := by
  cases g with
  | mk fdtId obj st0 expires inst utf8 offset late check hasMeta bytes => cases offset <;> rfl

/-- `FdtReceiver::push` after the EXT_TIME part -/
def pushRest (I : ObjIface σ) (g : FdtRecv σ) (p : Pkt) (ans : FdtAns) : FdtRecv σ :=
  match g.obj with
  | none => g
  | some o =>
    match I.state (I.push o p).1 with
    | .receiving => { g.applyWEvs ans (I.push o p).2 with obj := some (I.push o p).1 }
    | .completed =>
      ({ g.applyWEvs ans (I.push o p).2 with hasMeta := true, obj := none } : FdtRecv σ).applyWEvs ans (I.drop (I.push o p).1)
    | .interrupted => { g.applyWEvs ans (I.push o p).2 with obj := some (I.push o p).1, st := .error }
    | .error => { g.applyWEvs ans (I.push o p).2 with obj := some (I.push o p).1, st := .error }

theorem push_eq_pushRest (I : ObjIface σ) (f : FdtRecv σ) (p : Pkt) (now : Int) (ans : FdtAns) :
    f.push I p now ans = pushRest I (f.observeSct p.sct now) p ans := by
  unfold FdtRecv.push pushRest
  simp only []
  cases (f.observeSct p.sct now).obj with
  | none => rfl
  | some o =>
    simp only []
    cases I.state (I.push o p).1 <;> rfl

theorem shiftF_pushRest (δ : Int) (I : ObjIface σ) (g : FdtRecv σ) (p : Pkt) (ans : FdtAns) :
    shiftF δ (pushRest I g p ans) = pushRest I (shiftF δ g) p ans := by
  unfold pushRest
  rw [shiftF_obj]
  cases g.obj with
  | none => rfl
  | some o =>
    simp only []
    cases I.state (I.push o p).1 with
    | receiving =>
      simp only []
      exact (shiftF_setObj δ _ _).trans (by rw [shiftF_applyWEvs])
    | completed =>
      simp only []
      refine (shiftF_applyWEvs δ ans _ _).trans ?_
      congr 1
      exact (shiftF_setMetaObj δ _).trans (by rw [shiftF_applyWEvs])
    | interrupted =>
      simp only []
      exact (shiftF_setObjSt δ _ _ _).trans (by rw [shiftF_applyWEvs])
    | error =>
      simp only []
      exact (shiftF_setObjSt δ _ _ _).trans (by rw [shiftF_applyWEvs])

theorem shiftF_observeSct (δ : Int) (f : FdtRecv σ) (res now : Int) :
    shiftF δ (f.observeSct (some res) now) = (shiftF δ f).observeSct (some res) (now + δ) := by
  cases f with
  | mk fdtId obj st0 expires inst utf8 offset late check hasMeta bytes =>
    unfold FdtRecv.observeSct
    simp only []
    by_cases h1 : res < now
    · rw [if_pos h1]
      by_cases h2 : res < now + δ
      · rw [if_pos h2]
        cases offset <;>
        · simp only [shiftF, shiftClock, ↓reduceIte]
          rw [if_pos (by omega)]
          simp only [FdtRecv.mk.injEq, true_and, and_true, Option.some.injEq]
          omega
      · rw [if_neg h2]
        cases offset <;>
        · simp only [shiftF, shiftClock, ↓reduceIte]
          rw [if_neg (by omega)]
          simp only [FdtRecv.mk.injEq, true_and, and_true, Option.some.injEq]
          omega
    · rw [if_neg h1]
      by_cases h2 : res < now + δ
      · rw [if_pos h2]
        cases offset <;>
        · simp only [shiftF, shiftClock, Bool.false_eq_true, ↓reduceIte]
          rw [if_pos (by omega)]
          simp only [FdtRecv.mk.injEq, true_and, and_true, Option.some.injEq]
          omega
      · rw [if_neg h2]
        cases offset <;>
        · simp only [shiftF, shiftClock, Bool.false_eq_true, ↓reduceIte]
          rw [if_neg (by omega)]
          simp only [FdtRecv.mk.injEq, true_and, and_true, Option.some.injEq]
          omega

/-- a push of a packet that carries a sender-current-time commutes with the shift -/
theorem shiftF_push (δ : Int) (I : ObjIface σ) (f : FdtRecv σ) (p : Pkt) (now : Int) (ans : FdtAns)
    (res : Int) (hs : p.sct = some res) :
    shiftF δ (f.push I p now ans) = (shiftF δ f).push I p (now + δ) ans := by
  rw [push_eq_pushRest, push_eq_pushRest, hs, shiftF_pushRest, shiftF_observeSct]

end Flute.Recv
