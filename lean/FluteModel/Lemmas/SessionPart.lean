import FluteModel.Lemmas.Partition
import FluteModel.Lemmas.SessionEmit
/-
  Phase-2 tie to C07 (partition): the block structure `ks` the session theorems quantify over
  is, for a real object, the RFC 5052 partition computed by `block_partitioning`; it always meets
  the side conditions of the sender / receiver theorems (non-empty, every block has a source symbol,
  at most B of them).
-/
namespace Flute.Lemmas.Session
open Flute Flute.Session Flute.Partition Flute.Lemmas.Partition

/-- source symbols per block, as the model driver derives them from the partition quadruple -/
def ksOf (aL aS nL n : Nat) : Array Nat := ((List.range n).map (fun s => if s < nL then aL else aS)).toArray

theorem ksOf_get (aL aS nL n s k : Nat) (h : (ksOf aL aS nL n)[s]? = some k) :
    s < n ∧ k = (if s < nL then aL else aS) := by
  unfold ksOf at h
  simp only [List.getElem?_toArray, List.getElem?_map] at h
  cases hs : (List.range n)[s]? with
  | none => simp [hs] at h
  | some v =>
    have := List.getElem?_eq_some_iff.mp hs
    obtain ⟨h1, h2⟩ := this
    simp only [List.length_range] at h1
    simp only [List.getElem_range] at h2
    subst h2
    simp only [hs, Option.map_some, Option.some.injEq] at h
    exact ⟨h1, h.symm⟩

theorem ksOf_get' (aL aS nL n s : Nat) (h : s < n) :
    (ksOf aL aS nL n)[s]? = some (if s < nL then aL else aS) := by
  unfold ksOf
  simp only [List.getElem?_toArray, List.getElem?_map]
  have : (List.range n)[s]? = some s := by
    rw [List.getElem?_eq_some_iff]; exact ⟨by simpa using h, by simp⟩
  rw [this]; rfl

/-- **C07 ⇒ side conditions of C01/C02/C16.**  For every non-empty object (L > 0), symbol size E > 0 and
    block size B > 0 (L < 2^64), the partition `block_partitioning(B, L, E)` yields at least one block and
    every block has between 1 and B source symbols. -/
theorem partition_blocks_ok (b l e aL aS nL n : Nat) (hb : 0 < b) (he : 0 < e) (hl0 : 0 < l) (hl : l < 2^64)
    (h : blockPartitioning b l e = .ok (aL, aS, nL, n)) :
    (ksOf aL aS nL n).isEmpty = false ∧
    ∀ (s k : Nat), (ksOf aL aS nL n)[s]? = some k → 1 ≤ k ∧ k ≤ b := by
  have hshape := bp_shape b l e hb he hl0 hl
  rw [hshape] at h
  simp only [Except.ok.injEq, Prod.mk.injEq] at h
  obtain ⟨h1, h2, h3, h4⟩ := h
  have hT : 0 < divCeil l e := divCeil_pos l e he hl0
  have ⟨hN, hNT, _⟩ := nblocks_bounds (divCeil l e) b hT hb
  have ⟨hq, _, hAL⟩ := quad_shape (divCeil l e) (divCeil (divCeil l e) b) hN hNT
  have hALB := aLarge_le_B (divCeil l e) b hT hb
  rw [hAL] at hALB
  constructor
  · unfold ksOf
    have : 0 < n := by omega
    cases hn : n with
    | zero => omega
    | succ m => simp [List.range_succ]
  · intro s k hk
    obtain ⟨_, rfl⟩ := ksOf_get aL aS nL n s k hk
    split
    · rw [← h1]; split <;> constructor <;> (try omega)
      all_goals (first | omega | (split at hALB <;> omega))
    · rw [← h2]; constructor
      · exact hq
      · split at hALB <;> omega

theorem divCeil_le (a b m : Nat) (hb : 0 < b) (h : a ≤ m * b) : divCeil a b ≤ m := by
  unfold divCeil
  have hq : a / b ≤ m := Nat.div_le_of_le_mul (by rw [Nat.mul_comm]; exact h)
  split
  · exact hq
  · rename_i hr
    have hdm := Nat.div_add_mod a b
    by_cases hlt : a / b < m
    · omega
    · have heq : a / b = m := by omega
      rw [heq] at hdm
      have : b * m = m * b := Nat.mul_comm _ _
      omega


end Flute.Lemmas.Session
