import FluteModel.Lemmas.SessionNoCode
/-
  The codec contract `Link.CodecDec` for REED-SOLOMON (FEC Encoding IDs 5 / 129, `Dec.rs`): it follows from a contract on the two
  external calls of the Reed-Solomon decoder only - the constructor succeeds (`rsNewOk`) and `reconstruct` succeeds whenever at least k
  shards are present and then returns a table whose first k shards are present (`RsTotal`) - with `Setting.dec =
  Session.canDecodeOf .rs` ("at least k distinct ESIs below k + p are held").  The bookkeeping of `RSGalois8Codec` (table of k + p
  slots, `nb_source_symbols_received`, `nb_encoding_symbols_received`) is concrete in the model and handled here.
-/
namespace Flute.Link
open Flute Flute.FecDec Flute.ObjRecv

/-! ### counting the filled slots -/

theorem countP_someIdx (l : List (Option Bytes)) (i : Nat) :
    (List.range' i l.length).countP (fun j => (someIdx l i).contains j) = (someIdx l i).length := by
  induction l generalizing i with
  | nil => simp [someIdx]
  | cons a r ih =>
    have hstep : List.range' i (a :: r).length = i :: List.range' (i + 1) r.length := by
      simp [List.range'_succ]
    rw [hstep, List.countP_cons]
    cases a with
    | none =>
      simp only [someIdx]
      have hni : (someIdx r (i + 1)).contains i = false := by
        apply Bool.eq_false_iff.mpr
        intro hc
        have := (mem_someIdx r (i + 1) i).mp (by simpa using hc)
        omega
      simp only [hni, Bool.false_eq_true, if_false, Nat.add_zero]
      exact ih (i + 1)
    | some v =>
      simp only [someIdx, List.length_cons]
      have hi : (i :: someIdx r (i + 1)).contains i = true := by simp
      simp only [hi, if_true]
      have hcongr : (List.range' (i + 1) r.length).countP (fun j => (i :: someIdx r (i + 1)).contains j) =
          (List.range' (i + 1) r.length).countP (fun j => (someIdx r (i + 1)).contains j) := by
        apply List.countP_congr
        intro x hx
        have hx1 : i + 1 ≤ x := (List.mem_range'_1.mp hx).1
        simp only [List.contains_eq_mem, List.mem_cons, decide_eq_true_eq]
        constructor
        · rintro (h | h)
          · omega
          · exact h
        · exact .inr
      rw [hcongr, ih (i + 1)]

/-- `countDistinctBelow` over the ESIs of a table of `n` slots is the number of filled slots -/
theorem countDistinct_someIdx (l : List (Option Bytes)) :
    Session.countDistinctBelow l.length (someIdx l 0) = (someIdx l 0).length := by
  unfold Session.countDistinctBelow
  rw [List.range_eq_range']
  exact countP_someIdx l 0

theorem isSomeAt_take (l : List (Option Bytes)) (k j : Nat) (hj : j < k) : isSomeAt (l.take k) j = isSomeAt l j := by
  unfold isSomeAt
  rw [List.getElem?_take_of_lt hj]

theorem concat_first (k : Nat) : ∀ (l : List (Option Bytes)), (∀ j, j < k → isSomeAt l j = true) →
    ∃ out, concatShards k l = some out := by
  induction k with
  | zero => intro l _; exact ⟨[], by simp [concatShards]⟩
  | succ k ih =>
    intro l h
    cases l with
    | nil => have := h 0 (by omega); rw [isSomeAt_nil] at this; cases this
    | cons a r =>
      cases a with
      | none => have := h 0 (by omega); rw [isSomeAt_none_zero] at this; cases this
      | some v =>
        obtain ⟨t, ht⟩ := ih r (fun j hj => by have := h (j + 1) (by omega); rw [isSomeAt_cons_succ] at this; exact this)
        exact ⟨v ++ t, by simp [concatShards, ht]⟩

/-! ### the reachable states of a Reed-Solomon block decoder -/

/-- contract on `reed_solomon_erasure::reconstruct`: with at least k of the k + p shards present it succeeds and the first k shards
    of the returned table are present -/
structure RsTotal (c : Codec) : Prop where
  recon : ∀ (k p : Nat) (shards : List (Option Bytes)), shards.length = k + p → k ≤ (someIdx shards 0).length →
    ∃ shards', c.rsReconstruct k p shards = some shards' ∧ ∀ j, j < k → isSomeAt shards' j = true

/-- invariant of a Reed-Solomon decoder of a block with `k` source and `p` parity symbols -/
def RsInv (k p : Nat) (blk : Block) : Prop :=
  ∃ shards block nbSrc nbEnc, blk.dec = some (.rs k p shards block nbSrc nbEnc) ∧ shards.length = k + p ∧
    nbEnc = (someIdx shards 0).length ∧ nbSrc = (someIdx (shards.take k) 0).length ∧
    blk.completed = decide (k ≤ (someIdx shards 0).length) ∧ blk.completed = block.isSome

/-- with k shards present `decode` succeeds -/
theorem rs_decode_ok (c : Codec) (R : RsTotal c) (k p : Nat) (shards : List (Option Bytes)) (nbSrc nbEnc : Nat)
    (hlen : shards.length = k + p) (hk : k ≤ (someIdx shards 0).length) (hsrc : nbSrc = (someIdx (shards.take k) 0).length) :
    ∃ out, Dec.decode c (.rs k p shards none nbSrc nbEnc) = (.rs k p shards (some out) nbSrc nbEnc, true) := by
  simp only [Dec.decode, Option.isSome_none, Bool.false_eq_true, if_false]
  by_cases hlt : nbSrc < k
  · obtain ⟨s2, h2, hall⟩ := R.recon k p shards hlen hk
    obtain ⟨out, hout⟩ := concat_first k s2 hall
    exact ⟨out, by simp only [hlt, if_true, h2, hout]⟩
  · have htl : (shards.take k).length = k := by rw [List.length_take, hlen]; omega
    have hle := length_someIdx_le (shards.take k) 0
    have hfull : (someIdx (shards.take k) 0).length = (shards.take k).length := by omega
    have hall : ∀ j, j < k → isSomeAt shards j = true := by
      intro j hj
      have := (someIdx_full (shards.take k) 0).mp hfull j (by rw [htl]; exact hj)
      rw [isSomeAt_take shards k j hj] at this; exact this
    obtain ⟨out, hout⟩ := concat_first k shards hall
    exact ⟨out, by simp only [hlt, if_false, hout]⟩

theorem rsinv_push (c : Codec) (R : RsTotal c) (k p : Nat) (blk blk' : Block) (sym : Bytes) (esi : Nat) (he : esi < k + p)
    (hI : RsInv k p blk) (h : blk.push c sym esi = some blk') :
    RsInv k p blk' ∧ (blk.completed = false → ∀ x, x ∈ blkEsis blk' ↔ x = esi ∨ x ∈ blkEsis blk) := by
  obtain ⟨shards, block, nbSrc, nbEnc, hd, hlen, hnb, hsrc, hcomp, hdat⟩ := hI
  unfold Block.push at h
  by_cases hc : blk.completed = true
  · rw [if_pos hc] at h
    cases h
    exact ⟨⟨shards, block, nbSrc, nbEnc, hd, hlen, hnb, hsrc, hcomp, hdat⟩, fun hf => by rw [hc] at hf; cases hf⟩
  · rw [if_neg hc] at h
    have hc' : blk.completed = false := by simpa using hc
    have hbn : block = none := by
      rw [hc'] at hdat
      cases block with
      | none => rfl
      | some x => cases hdat
    subst hbn
    have hnotk : ¬ k ≤ (someIdx shards 0).length := by
      rw [hc'] at hcomp
      simpa using hcomp.symm
    rw [hd] at h
    simp only [Dec.wrongLength, Bool.false_eq_true, if_false] at h
    have hesis : blkEsis blk = someIdx shards 0 := by simp [blkEsis, hd, decEsis]
    have key : ∀ (shards' : List (Option Bytes)) (ns ne : Nat),
        Dec.pushSymbol c (.rs k p shards none nbSrc nbEnc) sym esi = .rs k p shards' none ns ne → shards'.length = k + p →
        ne = (someIdx shards' 0).length → ns = (someIdx (shards'.take k) 0).length →
        (∀ x, x ∈ someIdx shards' 0 ↔ x = esi ∨ x ∈ someIdx shards 0) →
        RsInv k p blk' ∧ (blk.completed = false → ∀ x, x ∈ blkEsis blk' ↔ x = esi ∨ x ∈ blkEsis blk) := by
      intro shards' ns ne hps hlen' hne' hns' hmem
      rw [hps] at h
      by_cases hcd0 : Dec.canDecode c (.rs k p shards' none ns ne) = true
      · rw [if_pos hcd0] at h
        have hcd : k ≤ ne := by simpa [Dec.canDecode] using hcd0
        obtain ⟨out, hout⟩ := rs_decode_ok c R k p shards' ns ne hlen' (by rw [← hne']; exact hcd) hns'
        rw [hout] at h
        simp only at h
        cases h
        refine ⟨⟨shards', some out, ns, ne, rfl, hlen', hne', hns', ?_, rfl⟩, ?_⟩
        · show true = _
          rw [← hne']; simpa using hcd
        · intro _ x
          rw [hesis]
          show x ∈ blkEsis { blk with dec := some (.rs k p shards' (some out) ns ne), completed := true } ↔ _
          simp only [blkEsis, decEsis]
          exact hmem x
      · rw [if_neg hcd0] at h
        have hcd : ¬ k ≤ ne := by simpa [Dec.canDecode] using hcd0
        cases h
        refine ⟨⟨shards', none, ns, ne, rfl, hlen', hne', hns', ?_, by show blk.completed = _; rw [hc']; rfl⟩, ?_⟩
        · show blk.completed = _
          rw [hc', ← hne']; simpa using hcd
        · intro _ x
          rw [hesis]
          show x ∈ blkEsis { blk with dec := some (.rs k p shards' none ns ne) } ↔ _
          simp only [blkEsis, decEsis]
          exact hmem x
    by_cases hs : isSomeAt shards esi = true
    · -- a duplicate
      refine key shards nbSrc nbEnc ?_ hlen hnb hsrc ?_
      · simp [Dec.pushSymbol, hlen, hs]
      · intro x
        constructor
        · exact .inr
        · rintro (hx | hx)
          · subst hx; exact (mem_someIdx shards 0 x).mpr ⟨Nat.zero_le _, by simpa using hs⟩
          · exact hx
    · have hs' : isSomeAt shards esi = false := by simpa using hs
      refine key (shards.set esi (some sym)) (if esi < k then nbSrc + 1 else nbSrc) (nbEnc + 1) ?_ (by simp [hlen]) ?_ ?_ ?_
      · simp [Dec.pushSymbol, hlen, hs']
        omega
      · rw [length_someIdx_set shards 0 esi sym (by omega) hs', hnb]
      · rw [List.take_set]
        by_cases hek : esi < k
        · rw [if_pos hek, length_someIdx_set (shards.take k) 0 esi sym (by rw [List.length_take, hlen]; omega)
            (by rw [isSomeAt_take shards k esi hek]; exact hs'), hsrc]
        · rw [if_neg hek, List.set_eq_of_length_le (by rw [List.length_take]; omega), hsrc]
      · intro x
        rw [mem_someIdx, mem_someIdx, Nat.sub_zero, isSomeAt_set]
        constructor
        · rintro ⟨_, (⟨h1, _⟩ | h1)⟩
          · exact .inl h1
          · exact .inr ⟨Nat.zero_le _, h1⟩
        · rintro (h1 | ⟨_, h1⟩)
          · exact ⟨Nat.zero_le _, .inl ⟨h1, by omega⟩⟩
          · exact ⟨Nat.zero_le _, .inr h1⟩

/-! ### `CodecDec` for Reed-Solomon -/

/-- a Reed-Solomon setting: scheme, decodability predicate, the decoder constructor accepts the block sizes, `reconstruct` is total
    on decodable tables -/
structure RsSetting (Z : Setting) : Prop where
  scheme : Z.S.o.scheme = .rs28 ∨ Z.S.o.scheme = .rs28us
  oscheme : Z.oc.scheme = .rs ∨ Z.oc.scheme = .rsus
  dec : Z.dec = Session.canDecodeOf .rs
  ks : ∀ b, b < Z.S.n → Z.oc.ks[b]? = some (Z.S.K b)
  par : Z.oc.p = Z.S.o.parity
  k : ∀ b, b < Z.S.n → 0 < Z.S.K b
  newOk : ∀ b, b < Z.S.n → Z.P.codec.rsNewOk (Z.S.K b) Z.S.o.parity = true
  total : RsTotal Z.P.codec

theorem stored_lt_rs (Z : Setting) (N : RsSetting Z) (b esi : Nat) (hb : b < Z.S.n) (h : StoredEsi Z b esi) :
    esi < Z.S.K b + Z.S.o.parity := by
  unfold StoredEsi at h
  rw [N.ks b hb] at h
  rw [← N.par]
  rcases N.oscheme with hs | hs <;> simpa [hs, Session.shardsOf] using h

theorem rs_init (c : Codec) (o : Oti) (hs : o.scheme = .rs28 ∨ o.scheme = .rs28us) (k bs sbn : Nat) (hk0 : 0 < k)
    (hnew : c.rsNewOk k o.parity = true) (blk : Block) (hini : blk.initialized = false) :
    blk.init c o k bs sbn =
      .ok { blk with dec := some (.rs k o.parity (List.replicate (k + o.parity) none) none 0 0), initialized := true, blockSize := bs } := by
  unfold Block.init
  rcases hs with hs | hs
  · rw [if_neg (by simp [hini]), if_neg (by simp [tooManySymbols, hs])]
    simp only [hs, hnew, if_true]
  · rw [if_neg (by simp [hini]), if_neg (by simp [tooManySymbols, hs])]
    simp only [hs, hnew, if_true]

theorem rsinv_of_init (k p bs : Nat) (hk0 : 0 < k) (blk : Block) (hc : blk.completed = false) :
    RsInv k p { blk with dec := some (.rs k p (List.replicate (k + p) none) none 0 0), initialized := true, blockSize := bs } := by
  refine ⟨List.replicate (k + p) none, none, 0, 0, rfl, by simp, by rw [someIdx_replicate_none]; rfl, ?_, ?_, by simp [hc]⟩
  · rw [List.take_replicate, someIdx_replicate_none]; rfl
  · show blk.completed = _
    rw [hc, someIdx_replicate_none]
    simp; omega

theorem reach_rsinv (Z : Setting) (N : RsSetting Z) (b : Nat) (hb : b < Z.S.n) (blk : Block) (h : ReachBlk Z b blk) :
    RsInv (Z.S.K b) Z.S.o.parity blk := by
  induction h with
  | init blk0 b' bs hini hc hinit =>
    rw [rs_init Z.P.codec Z.S.o N.scheme _ bs b (N.k b hb) (N.newOk b hb) blk0 hini] at hinit
    cases hinit
    exact rsinv_of_init _ _ bs (N.k b hb) blk0 hc
  | push blk0 blk' esi _ hst hpush ih =>
    exact (rsinv_push Z.P.codec N.total _ _ blk0 blk' _ esi (stored_lt_rs Z N b esi hb hst) ih hpush).1

/-- THE CODEC CONTRACT OF THE LINK HOLDS for Reed-Solomon, from the contract `RsTotal` on `reconstruct` alone -/
theorem codecDec_rs (Z : Setting) (N : RsSetting Z) : CodecDec Z := by
  refine ⟨?_, ?_⟩
  · intro blk b bs hb hini
    refine ⟨_, rs_init Z.P.codec Z.S.o N.scheme _ bs b (N.k b hb) (N.newOk b hb) blk hini, ?_⟩
    simp [blkEsis, decEsis, someIdx_replicate_none]
  · intro blk blk' b esi hb hr hc hst hpush
    have hI := reach_rsinv Z N b hb blk hr
    obtain ⟨hI', hmem⟩ := rsinv_push Z.P.codec N.total _ _ blk blk' _ esi (stored_lt_rs Z N b esi hb hst) hI hpush
    obtain ⟨shards, block, nbSrc, nbEnc, hd, hlen, _, _, hcomp, hdat⟩ := hI'
    have hesis : blkEsis blk' = someIdx shards 0 := by simp [blkEsis, hd, decEsis]
    refine ⟨hmem hc, ?_, ?_⟩
    · rw [hesis, N.dec, hcomp]
      show _ = decide (Z.S.K b ≤ Session.countDistinctBelow (Z.S.K b + Z.oc.p) (someIdx shards 0))
      rw [N.par, ← hlen, countDistinct_someIdx]
    · intro hct
      rw [hct] at hdat
      simp [Block.sourceBlock, hd, Dec.sourceBlock, ← hdat]

end Flute.Link
