import FluteModel.Lemmas.Lct
import FluteModel.Lemmas.Spec
import FluteModel.Spec.Lct
/- the RFC 5651 spec encoder in byte form, and flute's extension walk on spec-built extension areas -/
namespace Flute.Spec
open Flute Flute.Bytes Flute.Lct

theorem encode_first_word (v c psi s o h a b hl cp : Nat)
    (hv : v < 16) (hc : c < 4) (hpsi : psi < 4) (hs : s < 2) (ho : o < 4) (hh : h < 2) (ha : a < 2) (hb : b < 2)
    (hhl : hl < 256) (hcp : cp < 256) :
    encode [(4, v), (2, c), (2, psi), (1, s), (2, o), (1, h), (2, 0), (1, a), (1, b), (8, hl), (8, cp)] =
      [v * 16 + c * 4 + psi, s * 128 + o * 32 + h * 16 + 0 * 4 + a * 2 + b, hl, cp] := by
  unfold encode
  rw [octets_eq_beBytes]
  simp only [width, pack, Nat.reduceAdd, Nat.reduceDiv, Nat.reducePow, beBytes, Nat.pow_zero, Nat.div_one,
    Nat.zero_mul, Nat.add_zero, Nat.mul_one]
  congr 1
  · omega
  congr 1
  · omega
  congr 1
  · omega
  congr 1
  · omega

theorem LctFields.encode_diagram (f : LctFields) (hv : f.Valid) :
    Spec.encode f.diagram =
      [f.v * 16 + f.c * 4 + f.psi, f.s * 128 + f.o * 32 + f.h * 16 + 0 * 4 + f.a * 2 + f.b, f.hdrLen, f.cp]
        ++ (beBytes ((f.c + 1) * 4) f.cci ++ (beBytes (f.s * 4 + f.h * 2) f.tsi ++ beBytes (f.o * 4 + f.h * 2) f.toi)) := by
  obtain ⟨h1, hc, hpsi, hs, ho, hh, ha, hb, hcp, hcci, htsi, htoi, hhl, _⟩ := hv
  have e1 : f.cciBits = 8 * ((f.c + 1) * 4) := by unfold LctFields.cciBits; omega
  have e2 : f.tsiBits = 8 * (f.s * 4 + f.h * 2) := by unfold LctFields.tsiBits; omega
  have e3 : f.toiBits = 8 * (f.o * 4 + f.h * 2) := by unfold LctFields.toiBits; omega
  have split : f.diagram =
      [(4, f.v), (2, f.c), (2, f.psi), (1, f.s), (2, f.o), (1, f.h), (2, 0), (1, f.a), (1, f.b), (8, f.hdrLen), (8, f.cp)]
        ++ ([(f.cciBits, f.cci)] ++ ([(f.tsiBits, f.tsi)] ++ [(f.toiBits, f.toi)])) := rfl
  rw [split]
  rw [encode_append _ _ (by simp [width]) (by simp only [List.cons_append, List.nil_append, width]; omega)
        (by simp only [List.cons_append, List.nil_append, FieldsOk]; exact ⟨hcci, htsi, htoi, trivial⟩)]
  rw [encode_append _ _ (by simp only [width]; omega) (by simp only [List.cons_append, List.nil_append, width]; omega)
        (by simp only [List.cons_append, List.nil_append, FieldsOk]; exact ⟨htsi, htoi, trivial⟩)]
  rw [encode_append _ _ (by simp only [width]; omega) (by simp only [width]; omega)
        (by simp only [FieldsOk]; exact ⟨htoi, trivial⟩)]
  rw [encode_first_word _ _ _ _ _ _ _ _ _ _ (by omega) hc hpsi hs ho hh ha hb (by omega) hcp]
  rw [e1, e2, e3, encode_single, encode_single, encode_single]

theorem Ext.encode_eq (e : Ext) (hv : e.Valid) :
    e.encode = if e.het < 128 then e.het :: e.hel :: e.body else e.het :: e.body := by
  unfold Ext.encode
  obtain ⟨_, hv⟩ := hv
  split
  · rename_i h
    rw [if_pos h] at hv
    have : Spec.encode [(8, e.het), (8, e.hel)] = [e.het, e.hel] := by
      unfold Spec.encode; rw [octets_eq_beBytes]
      simp only [width, pack, Nat.reduceAdd, Nat.reduceDiv, Nat.reducePow, beBytes, Nat.pow_zero, Nat.div_one,
        Nat.mul_one, Nat.add_zero]
      congr 1
      · omega
      congr 1
      · omega
    rw [this]; rfl
  · rename_i h
    rw [if_neg h] at hv
    have : Spec.encode [(8, e.het)] = [e.het] := by
      unfold Spec.encode; rw [octets_eq_beBytes]
      simp only [width, pack, Nat.reduceAdd, Nat.reduceDiv, Nat.reducePow, beBytes, Nat.pow_zero, Nat.div_one,
        Nat.mul_one, Nat.add_zero]
      congr 1
      omega
    rw [this]; rfl

theorem Ext.length_encode (e : Ext) (hv : e.Valid) : e.encode.length = 4 * e.words := by
  rw [Ext.encode_eq e hv]
  unfold Ext.words
  obtain ⟨_, hv⟩ := hv
  split
  · rename_i h; rw [if_pos h] at hv; simp only [List.length_cons]; omega
  · rename_i h; rw [if_neg h] at hv; simp only [List.length_cons]; omega

theorem length_encodeExts (exts : List Ext) (hv : ∀ e ∈ exts, e.Valid) :
    (encodeExts exts).length = 4 * extsWords exts := by
  induction exts with
  | nil => rfl
  | cons e r ih =>
    simp only [encodeExts, extsWords, List.length_append]
    rw [Ext.length_encode e (hv e (by simp)), ih (fun x hx => hv x (by simp [hx]))]
    omega

/-- flute's extension walk on a spec-built extension area returns what the spec's receiver finds -/
theorem getExtLoop_encodeExts (exts : List Ext) (hv : ∀ e ∈ exts, e.Valid) (het fuel : Nat)
    (hf : (encodeExts exts).length ≤ fuel) :
    getExtLoop fuel (encodeExts exts) het = .ok ((findExt exts het).map Ext.encode) := by
  induction exts generalizing fuel with
  | nil =>
    cases fuel <;> simp [getExtLoop, encodeExts, findExt]
  | cons e r ih =>
    have hve := hv e (by simp)
    have hvr : ∀ x ∈ r, x.Valid := fun x hx => hv x (by simp [hx])
    have hle := Ext.length_encode e hve
    have hwords : 1 ≤ e.words := by
      unfold Ext.words; obtain ⟨_, h⟩ := hve; split
      · rename_i h'; rw [if_pos h'] at h; omega
      · omega
    simp only [encodeExts, List.length_append] at hf ⊢
    cases fuel with
    | zero => omega
    | succ fuel =>
      generalize hR : encodeExts r = R at *
      generalize hE : e.encode = E at *
      have hlen4 : (E ++ R).length ≥ 4 := by simp only [List.length_append]; omega
      have hE0 : (E ++ R)[0]? = some e.het := by
        rw [← hE, Ext.encode_eq e hve]; split <;> rfl
      have g0 : idx (E ++ R) 0 = .ok e.het := by unfold idx; rw [hE0]
      unfold getExtLoop
      rw [if_pos hlen4, g0, Out.bind_ok]
      have sE : slice (E ++ R) 0 E.length = .ok E := by
        have := slice_mid [] E R 0 E.length rfl (by simp)
        simpa using this
      have sR : slice (E ++ R) E.length (E ++ R).length = .ok R := by
        have := slice_mid E R [] E.length (E ++ R).length rfl (by simp)
        simpa using this
      have hfind : findExt (e :: r) het = if e.het = het then some e else findExt r het := by
        unfold findExt; simp only [List.find?_cons]
        by_cases h : e.het = het
        · simp [h]
        · simp [h]
      rw [hfind]
      have hgo : ∀ hel, hel = E.length →
          (if hel = 0 ∨ hel > (E ++ R).length then (Out.err : Out (Option (List Nat))) else
            if e.het = het then (slice (E ++ R) 0 hel).bind fun r => .ok (some r)
            else (slice (E ++ R) hel (E ++ R).length).bind fun rest => getExtLoop fuel rest het) =
          .ok ((if e.het = het then some e else findExt r het).map Ext.encode) := by
        intro hel hhel
        subst hhel
        rw [if_neg (by simp only [List.length_append]; omega)]
        split
        · rw [sE, Out.bind_ok, Option.map_some, hE]
        · rw [sR, Out.bind_ok]
          exact ih hvr fuel (by omega)
      by_cases h128 : e.het ≥ 128
      · rw [if_pos h128, Out.bind_ok]
        apply hgo
        have : e.words = 1 := by unfold Ext.words; rw [if_neg (by omega)]
        omega
      · rw [if_neg h128]
        have hE1 : (E ++ R)[1]? = some e.hel := by
          rw [← hE, Ext.encode_eq e hve, if_pos (by omega)]; rfl
        have g1 : idx (E ++ R) 1 = .ok e.hel := by unfold idx; rw [hE1]
        rw [g1, Out.bind_ok, Out.bind_ok]
        apply hgo
        have : e.words = e.hel := by unfold Ext.words; rw [if_pos (by omega)]
        omega

end Flute.Spec

namespace Flute.Lct
open Flute Flute.Bytes Flute.Spec

/-- the RFC header a `push_lct_header` call is supposed to produce: the given values, version 1,
    the width flags flute chose, no extension -/
def specOfBuild (psi cci tsi toi cp : Nat) (closeObject closeSession : Bool) : LctFields :=
  let w := widthFlags cci tsi toi
  { c := w.1, psi := psi, s := w.2.1, o := w.2.2.1, h := w.2.2.2, a := b2n closeSession, b := b2n closeObject,
    cp := cp, cci := cci, tsi := tsi, toi := toi, exts := [] }

/-- what flute's parser must return for the RFC header `f` -/
def parsedOf (f : LctFields) : LctHeader :=
  { len := 4 * f.hdrLen, cci := f.cci, tsi := f.tsi, toi := f.toi, cp := f.cp,
    closeObject := decide (f.b = 1), closeSession := decide (f.a = 1),
    headerExtOffset := 4 * (1 + (f.c + 1) + (f.s + f.o + f.h)) }

theorem pushLctHeader_eq_spec (psi cci tsi toi cp : Nat) (co cs : Bool)
    (hpsi : psi < 4) (hcp : cp < 256) (hcci : cci < 2^128) (htsi : tsi < 2^48) (htoi : toi < 2^112) :
    (specOfBuild psi cci tsi toi cp co cs).Valid ∧
    pushLctHeader psi cci tsi toi cp co cs = (specOfBuild psi cci tsi toi cp co cs).encode := by
  obtain ⟨hc, hcv⟩ := cOf_spec cci hcci
  obtain ⟨hs, ho, hh, htv, hov⟩ := soh_spec tsi toi htsi htoi
  have hb1 : b2n co < 2 := by unfold b2n; split <;> omega
  have hb2 : b2n cs < 2 := by unfold b2n; split <;> omega
  have hvalid : (specOfBuild psi cci tsi toi cp co cs).Valid := by
    unfold specOfBuild
    rw [widthFlags_eq]
    refine ⟨rfl, hc, hpsi, hs, ho, hh, hb2, hb1, hcp, ?_, ?_, ?_, ?_, ?_⟩
    · simp only [LctFields.cciBits]
      have : 32 * (cOf (nbBytes128 cci 0) + 1) = 8 * ((cOf (nbBytes128 cci 0) + 1) * 4) := by omega
      rw [this, Nat.pow_mul]; exact hcv
    · simp only [LctFields.tsiBits]
      have : 32 * sOf (nbBytes64 tsi 2) + 16 * hOf (nbBytes64 tsi 2) (nbBytes128 toi 2) =
          8 * (sOf (nbBytes64 tsi 2) * 4 + hOf (nbBytes64 tsi 2) (nbBytes128 toi 2) * 2) := by omega
      rw [this, Nat.pow_mul]; exact htv
    · simp only [LctFields.toiBits]
      have : 32 * oOf (nbBytes128 toi 2) + 16 * hOf (nbBytes64 tsi 2) (nbBytes128 toi 2) =
          8 * (oOf (nbBytes128 toi 2) * 4 + hOf (nbBytes64 tsi 2) (nbBytes128 toi 2) * 2) := by omega
      rw [this, Nat.pow_mul]; exact hov
    · simp only [LctFields.hdrLen, extsWords]; omega
    · intro e he; simp at he
  refine ⟨hvalid, ?_⟩
  rw [pushLctHeader_layout psi cci tsi toi cp co cs hpsi hcp hcci htsi htoi]
  unfold LctFields.encode
  rw [LctFields.encode_diagram _ hvalid]
  simp only [specOfBuild, widthFlags_eq, encodeExts, List.append_nil, LctFields.hdrLen, extsWords]
  simp only [Nat.one_mul, Nat.zero_mul, Nat.add_zero]
  have : 2 + oOf (nbBytes128 toi 2) + sOf (nbBytes64 tsi 2) + hOf (nbBytes64 tsi 2) (nbBytes128 toi 2) +
      cOf (nbBytes128 cci 0) = 1 + (cOf (nbBytes128 cci 0) + 1) +
      (sOf (nbBytes64 tsi 2) + oOf (nbBytes128 toi 2) + hOf (nbBytes64 tsi 2) (nbBytes128 toi 2)) := by omega
  rw [this]

theorem parseLctHeader_encode (f : LctFields) (hv : f.Valid) (payload : List Nat) :
    parseLctHeader (f.encode ++ payload) = .ok (parsedOf f) := by
  have hv' := hv
  obtain ⟨h1, hc, hpsi, hs, ho, hh, ha, hb, hcp, hcci, htsi, htoi, hhl, hexts⟩ := hv'
  unfold LctFields.encode
  rw [LctFields.encode_diagram f hv, h1]
  have hle := length_encodeExts f.exts hexts
  have hcci' : f.cci < 256 ^ ((f.c + 1) * 4) := by
    have : f.cciBits = 8 * ((f.c + 1) * 4) := by unfold LctFields.cciBits; omega
    rw [this, Nat.pow_mul] at hcci; exact hcci
  have htsi' : f.tsi < 256 ^ (f.s * 4 + f.h * 2) := by
    have : f.tsiBits = 8 * (f.s * 4 + f.h * 2) := by unfold LctFields.tsiBits; omega
    rw [this, Nat.pow_mul] at htsi; exact htsi
  have htoi' : f.toi < 256 ^ (f.o * 4 + f.h * 2) := by
    have : f.toiBits = 8 * (f.o * 4 + f.h * 2) := by unfold LctFields.toiBits; omega
    rw [this, Nat.pow_mul] at htoi; exact htoi
  have := parse_layout 1 f.c f.psi f.s f.o f.h 0 f.a f.b f.hdrLen f.cp f.cci f.tsi f.toi (encodeExts f.exts ++ payload)
    (.inl rfl) hc hpsi hs ho hh (by omega) ha hb hcci' htsi' htoi'
    (by unfold LctFields.hdrLen; omega)
    (by simp only [List.length_append, hle]; unfold LctFields.hdrLen; omega)
  simp only [List.append_assoc] at this ⊢
  rw [this]
  unfold parsedOf
  congr 2
  · omega
  · apply decide_eq_decide.mpr; omega
  · apply decide_eq_decide.mpr; omega
  · omega

theorem getExt_encode (f : LctFields) (hv : f.Valid) (payload : List Nat) (het : Nat) :
    getExt (f.encode ++ payload) (parsedOf f) het = .ok ((findExt f.exts het).map Ext.encode) := by
  have hexts := hv.2.2.2.2.2.2.2.2.2.2.2.2.2
  have hle := length_encodeExts f.exts hexts
  unfold getExt LctFields.encode
  have hfixed : (Spec.encode f.diagram).length = 4 * (1 + (f.c + 1) + (f.s + f.o + f.h)) := by
    rw [LctFields.encode_diagram f hv]
    simp only [List.length_append, List.length_cons, List.length_nil, length_beBytes]; omega
  have hs : slice (Spec.encode f.diagram ++ encodeExts f.exts ++ payload) (parsedOf f).headerExtOffset (parsedOf f).len =
      .ok (encodeExts f.exts) := by
    rw [List.append_assoc]
    apply slice_mid
    · rw [hfixed]; rfl
    · rw [hfixed, hle]; unfold parsedOf LctFields.hdrLen; simp only []; omega
  rw [hs, Out.bind_ok]
  exact getExtLoop_encodeExts f.exts hexts het _ (Nat.le_refl _)

/-- a header with non-minimal widths (TSI 5 in 48 bits, TOI 7 in 80 bits, CCI in 64 bits), an unknown
    variable-length extension of 64 words (HEL = 64, the first value the 8-bit shift wrapped on before D7 was
    repaired), an unknown fixed-length one and EXT_CENC -/
def sampleHeader : LctFields :=
  { c := 1, psi := 0, s := 1, o := 2, h := 1, a := 0, b := 1, cp := 0, cci := 9, tsi := 5, toi := 7,
    exts := [{ het := 65, hel := 64, body := List.replicate 254 0xAB }, { het := 200, hel := 0, body := [1, 2, 3] },
             { het := 193, hel := 0, body := [2, 0, 0] }] }


end Flute.Lct
