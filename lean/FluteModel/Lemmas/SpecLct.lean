import FluteModel.Lemmas.Lct
import FluteModel.Lemmas.Spec
import FluteModel.Spec.Lct
/- the RFC 5651 spec encoder in byte form, and flute's extension walk on spec-built extension areas -/
namespace Flute.Spec
open Flute Flute.Bytes Flute.Lct

theorem encode_first_word (v c psi s o h a b hl cp : Nat)
    (hv : v < 16) (hc : c < 4) (hpsi : psi < 4) (hs : s < 2) (ho : o < 4) (hh : h < 2) (ha : a < 2) (hb : b < 2)
    (hhl : hl < 256) (hcp : cp < 256) :
    encode [(4, v), (2, c), (2, psi), (1, s), (2, o), (1, h), (2, 0), (1, a), (1, b), (8, hl), (8, cp)] =
      [v * 16 + c * 4 + psi, s * 128 + o * 32 + h * 16 + 0 * 4 + a * 2 + b, hl, cp] := by
  unfold encode
  rw [octets_eq_beBytes]
  simp only [width, pack, Nat.reduceAdd, Nat.reduceDiv, Nat.reducePow, beBytes, Nat.pow_zero, Nat.div_one,
    Nat.zero_mul, Nat.add_zero, Nat.mul_one]
  congr 1
  · omega
  congr 1
  · omega
  congr 1
  · omega
  congr 1
  · omega

theorem LctFields.encode_diagram (f : LctFields) (hv : f.Valid) :
    Spec.encode f.diagram =
      [f.v * 16 + f.c * 4 + f.psi, f.s * 128 + f.o * 32 + f.h * 16 + 0 * 4 + f.a * 2 + f.b, f.hdrLen, f.cp]
        ++ (beBytes ((f.c + 1) * 4) f.cci ++ (beBytes (f.s * 4 + f.h * 2) f.tsi ++ beBytes (f.o * 4 + f.h * 2) f.toi)) := by
  obtain ⟨h1, hc, hpsi, hs, ho, hh, ha, hb, hcp, hcci, htsi, htoi, hhl, _⟩ := hv
  have e1 : f.cciBits = 8 * ((f.c + 1) * 4) := by unfold LctFields.cciBits; omega
  have e2 : f.tsiBits = 8 * (f.s * 4 + f.h * 2) := by unfold LctFields.tsiBits; omega
  have e3 : f.toiBits = 8 * (f.o * 4 + f.h * 2) := by unfold LctFields.toiBits; omega
  have split : f.diagram =
      [(4, f.v), (2, f.c), (2, f.psi), (1, f.s), (2, f.o), (1, f.h), (2, 0), (1, f.a), (1, f.b), (8, f.hdrLen), (8, f.cp)]
        ++ ([(f.cciBits, f.cci)] ++ ([(f.tsiBits, f.tsi)] ++ [(f.toiBits, f.toi)])) := rfl
  rw [split]
  rw [encode_append _ _ (by simp [width]) (by simp only [List.cons_append, List.nil_append, width]; omega)
        (by simp only [List.cons_append, List.nil_append, FieldsOk]; exact ⟨hcci, htsi, htoi, trivial⟩)]
  rw [encode_append _ _ (by simp only [width]; omega) (by simp only [List.cons_append, List.nil_append, width]; omega)
        (by simp only [List.cons_append, List.nil_append, FieldsOk]; exact ⟨htsi, htoi, trivial⟩)]
  rw [encode_append _ _ (by simp only [width]; omega) (by simp only [width]; omega)
        (by simp only [FieldsOk]; exact ⟨htoi, trivial⟩)]
  rw [encode_first_word _ _ _ _ _ _ _ _ _ _ (by omega) hc hpsi hs ho hh ha hb (by omega) hcp]
  rw [e1, e2, e3, encode_single, encode_single, encode_single]

theorem Ext.encode_eq (e : Ext) (hv : e.Valid) :
    e.encode = if e.het < 128 then e.het :: e.hel :: e.body else e.het :: e.body := by
  unfold Ext.encode
  obtain ⟨_, hv⟩ := hv
  split
  · rename_i h
    rw [if_pos h] at hv
    have : Spec.encode [(8, e.het), (8, e.hel)] = [e.het, e.hel] := by
      unfold Spec.encode; rw [octets_eq_beBytes]
      simp only [width, pack, Nat.reduceAdd, Nat.reduceDiv, Nat.reducePow, beBytes, Nat.pow_zero, Nat.div_one,
        Nat.mul_one, Nat.add_zero]
      congr 1
      · omega
      congr 1
      · omega
    rw [this]; rfl
  · rename_i h
    rw [if_neg h] at hv
    have : Spec.encode [(8, e.het)] = [e.het] := by
      unfold Spec.encode; rw [octets_eq_beBytes]
      simp only [width, pack, Nat.reduceAdd, Nat.reduceDiv, Nat.reducePow, beBytes, Nat.pow_zero, Nat.div_one,
        Nat.mul_one, Nat.add_zero]
      congr 1
      omega
    rw [this]; rfl

theorem Ext.length_encode (e : Ext) (hv : e.Valid) : e.encode.length = 4 * e.words := by
  rw [Ext.encode_eq e hv]
  unfold Ext.words
  obtain ⟨_, hv⟩ := hv
  split
  · rename_i h; rw [if_pos h] at hv; simp only [List.length_cons]; omega
  · rename_i h; rw [if_neg h] at hv; simp only [List.length_cons]; omega

theorem length_encodeExts (exts : List Ext) (hv : ∀ e ∈ exts, e.Valid) :
    (encodeExts exts).length = 4 * extsWords exts := by
  induction exts with
  | nil => rfl
  | cons e r ih =>
    simp only [encodeExts, extsWords, List.length_append]
    rw [Ext.length_encode e (hv e (by simp)), ih (fun x hx => hv x (by simp [hx]))]
    omega

/-- flute's extension walk on a spec-built extension area returns what the spec's receiver finds -/
theorem getExtLoop_encodeExts (exts : List Ext) (hv : ∀ e ∈ exts, e.Valid) (het fuel : Nat)
    (hf : (encodeExts exts).length ≤ fuel) :
    getExtLoop fuel (encodeExts exts) het = .ok ((findExt exts het).map Ext.encode) := by
  induction exts generalizing fuel with
  | nil =>
    cases fuel <;> simp [getExtLoop, encodeExts, findExt]
  | cons e r ih =>
    have hve := hv e (by simp)
    have hvr : ∀ x ∈ r, x.Valid := fun x hx => hv x (by simp [hx])
    have hle := Ext.length_encode e hve
    have hwords : 1 ≤ e.words := by
      unfold Ext.words; obtain ⟨_, h⟩ := hve; split
      · rename_i h'; rw [if_pos h'] at h; omega
      · omega
    simp only [encodeExts, List.length_append] at hf ⊢
    cases fuel with
    | zero => omega
    | succ fuel =>
      generalize hR : encodeExts r = R at *
      generalize hE : e.encode = E at *
      have hlen4 : (E ++ R).length ≥ 4 := by simp only [List.length_append]; omega
      have hE0 : (E ++ R)[0]? = some e.het := by
        rw [← hE, Ext.encode_eq e hve]; split <;> rfl
      have g0 : idx (E ++ R) 0 = .ok e.het := by unfold idx; rw [hE0]
      unfold getExtLoop
      rw [if_pos hlen4, g0, Out.bind_ok]
      have sE : slice (E ++ R) 0 E.length = .ok E := by
        have := slice_mid [] E R 0 E.length rfl (by simp)
        simpa using this
      have sR : slice (E ++ R) E.length (E ++ R).length = .ok R := by
        have := slice_mid E R [] E.length (E ++ R).length rfl (by simp)
        simpa using this
      have hfind : findExt (e :: r) het = if e.het = het then some e else findExt r het := by
        unfold findExt; simp only [List.find?_cons]
        by_cases h : e.het = het
        · simp [h]
        · simp [h]
      rw [hfind]
      have hgo : ∀ hel, hel = E.length →
          (if hel = 0 ∨ hel > (E ++ R).length then (Out.err : Out (Option (List Nat))) else
            if e.het = het then (slice (E ++ R) 0 hel).bind fun r => .ok (some r)
            else (slice (E ++ R) hel (E ++ R).length).bind fun rest => getExtLoop fuel rest het) =
          .ok ((if e.het = het then some e else findExt r het).map Ext.encode) := by
        intro hel hhel
        subst hhel
        rw [if_neg (by simp only [List.length_append]; omega)]
        split
        · rw [sE, Out.bind_ok, Option.map_some, hE]
        · rw [sR, Out.bind_ok]
          exact ih hvr fuel (by omega)
      by_cases h128 : e.het ≥ 128
      · rw [if_pos h128, Out.bind_ok]
        apply hgo
        have : e.words = 1 := by unfold Ext.words; rw [if_neg (by omega)]
        omega
      · rw [if_neg h128]
        have hE1 : (E ++ R)[1]? = some e.hel := by
          rw [← hE, Ext.encode_eq e hve, if_pos (by omega)]; rfl
        have g1 : idx (E ++ R) 1 = .ok e.hel := by unfold idx; rw [hE1]
        rw [g1, Out.bind_ok, Out.bind_ok]
        apply hgo
        have : e.words = e.hel := by unfold Ext.words; rw [if_pos (by omega)]
        omega

end Flute.Spec

namespace Flute.Lct
open Flute Flute.Spec

/-- the RFC header a `push_lct_header` call is supposed to produce: the given values, version 1,
    the width flags flute chose, no extension -/
def specOfBuild (psi cci tsi toi cp : Nat) (closeObject closeSession : Bool) : LctFields :=
  let w := widthFlags cci tsi toi
  { c := w.1, psi := psi, s := w.2.1, o := w.2.2.1, h := w.2.2.2, a := b2n closeSession, b := b2n closeObject,
    cp := cp, cci := cci, tsi := tsi, toi := toi, exts := [] }

/-- what flute's parser must return for the RFC header `f` -/
def parsedOf (f : LctFields) : LctHeader :=
  { len := 4 * f.hdrLen, cci := f.cci, tsi := f.tsi, toi := f.toi, cp := f.cp,
    closeObject := decide (f.b = 1), closeSession := decide (f.a = 1),
    headerExtOffset := 4 * (1 + (f.c + 1) + (f.s + f.o + f.h)) }

/-- a header with non-minimal widths (TSI 5 in 48 bits, TOI 7 in 80 bits, CCI in 64 bits), an unknown
    variable-length extension of 64 words (HEL = 64, the first value the 8-bit shift wrapped on before D7 was
    repaired), an unknown fixed-length one and EXT_CENC -/
def sampleHeader : LctFields :=
  { c := 1, psi := 0, s := 1, o := 2, h := 1, a := 0, b := 1, cp := 0, cci := 9, tsi := 5, toi := 7,
    exts := [{ het := 65, hel := 64, body := List.replicate 254 0xAB }, { het := 200, hel := 0, body := [1, 2, 3] },
             { het := 193, hel := 0, body := [2, 0, 0] }] }


end Flute.Lct
