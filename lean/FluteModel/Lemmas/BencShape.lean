import FluteModel.Lemmas.BencTrace
/-
  What the shards of a block are: ESIs, number of repair symbols, source payloads as slices of the object
  at the RFC 5052 offsets.
-/
namespace Flute.BencShape
open Flute Flute.Fec Flute.BlockEnc Flute.BencArith Flute.BencBlocks Flute.BencInv Flute.BencTrace

variable {P : Params} {c : Bytes} {aL aS nL n : Nat}

/-- the ESIs of the shards `encode` returns are `0, 1, …, k + r - 1` with `r ≤ p` -/
theorem encode_esis (cd : Codec) (e p : Nat) (buf : Bytes) (sh : List Shard) (he : 0 < e)
    (h : cd.encode e p buf = some sh) :
    ∃ r, r ≤ p ∧ sh.map (·.esi) = List.range (divCeil buf.length e + r) := by
  obtain ⟨r, hr, hlen, hesi, _⟩ := encode_shape cd e p buf sh he h
  refine ⟨r, hr, ?_⟩
  apply List.ext_getElem?
  intro i
  rw [List.getElem?_map]
  by_cases hi : i < sh.length
  · obtain ⟨s, hs, hs2⟩ := hesi i hi
    rw [hs, List.getElem?_range (by omega)]
    simp [hs2]
  · have h1 : sh[i]? = none := List.getElem?_eq_none_iff.mpr (by omega)
    have h2 : (List.range (divCeil buf.length e + r))[i]? = none :=
      List.getElem?_eq_none_iff.mpr (by simp; omega)
    rw [h1, h2]; rfl

/-- block `k` of the object: its shards and its source block length -/
theorem blockAt_shape (hS : Setup P c aL aS nL n) {k : Nat} (hk : k < n) {b0 : Block}
    (h : blockAt P c aL aS nL k = some b0) :
    b0.nbSource = A aL aS nL k ∧
    P.codec.encode P.e P.p (bufAt P c aL aS nL k) = some b0.shards := by
  unfold blockAt Block.new at h
  have he : ¬ P.e = 0 := by have := hS.e_pos; omega
  simp only [he, if_false] at h
  split at h
  · cases h
  · rename_i sh hsh
    simp only [Option.some.injEq] at h
    subst h
    exact ⟨bufAt_nsym hS hk, hsh⟩

/-- the `i`-th `E`-byte chunk of block `k` is the `E`-byte slice of the object at symbol `cum k + i` -/
theorem chunkAt_bufAt (hS : Setup P c aL aS nL n) {k i : Nat} (hk : k < n) (hi : i < A aL aS nL k) :
    chunkAt P.e (bufAt P c aL aS nL k) i = (c.drop ((cum aL aS nL k + i) * P.e)).take P.e := by
  have hk1 := (off_lt hS hk).1
  have hlen := bufAt_length hS hk (c := c)
  unfold chunkAt bufAt
  rw [List.drop_take, List.drop_drop, List.take_take, hk1, Nat.add_mul]
  generalize hm : off P aL aS nL (k + 1) - cum aL aS nL k * P.e = m
  by_cases hfull : k + 1 < n
  · -- full block: m = A k · e
    have h2 := (off_lt hS hfull).1
    rw [h2, cum_succ, Nat.add_mul, Nat.add_sub_cancel_left] at hm
    have : (i + 1) * P.e ≤ A aL aS nL k * P.e := Nat.mul_le_mul_right _ (by omega)
    rw [Nat.add_mul, Nat.one_mul] at this
    have : min P.e (m - i * P.e) = P.e := by omega
    rw [this]
  · -- last block: the object ends where the block ends
    have hn : k + 1 = n := by omega
    rw [hn, off_n hS] at hm
    by_cases hle : P.e ≤ m - i * P.e
    · have : min P.e (m - i * P.e) = P.e := by omega
      rw [this]
    · have : min P.e (m - i * P.e) = m - i * P.e := by omega
      rw [this]
      have hl : (c.drop (cum aL aS nL k * P.e + i * P.e)).length ≤ m - i * P.e := by
        rw [List.length_drop, ← hS.len_eq]; omega
      rw [List.take_of_length_le hl, List.take_of_length_le (by omega)]

/-- ESIs of the packets of block `k` in a complete transfer -/
theorem block_esis (hS : Setup P c aL aS nL n) {k : Nat} (hk : k < n) {b0 : Block}
    (h : blockAt P c aL aS nL k = some b0) :
    ∃ r, r ≤ P.p ∧ (b0.shards.map sview).map (·.1) = List.range (A aL aS nL k + r) := by
  obtain ⟨h1, h2⟩ := blockAt_shape hS hk h
  obtain ⟨r, hr, hesi⟩ := encode_esis _ _ _ _ _ hS.e_pos h2
  refine ⟨r, hr, ?_⟩
  rw [bufAt_nsym hS hk] at hesi
  rw [← hesi]
  simp [sview]

/-- payload of source symbol `i` of block `k` -/
theorem block_payload (hS : Setup P c aL aS nL n) {pad : Bool} (hsl : P.codec.Slices pad)
    {k i : Nat} (hk : k < n) (hi : i < A aL aS nL k) {b0 : Block}
    (h : blockAt P c aL aS nL k = some b0) :
    (b0.shards.map sview)[i]? = some (i,
      if pad then padTo P.e ((c.drop ((cum aL aS nL k + i) * P.e)).take P.e)
      else (c.drop ((cum aL aS nL k + i) * P.e)).take P.e) := by
  obtain ⟨_, h2⟩ := blockAt_shape hS hk h
  obtain ⟨r, _, _, hesi, hsrc⟩ := encode_shape _ _ _ _ _ hS.e_pos h2
  have hK := bufAt_nsym hS hk (c := c)
  obtain ⟨s, hs, hd⟩ := hsrc i (by rw [hK]; exact hi)
  obtain ⟨s', hs', he'⟩ := hesi i (by rw [List.getElem?_eq_some_iff] at hs; exact hs.1)
  rw [hs] at hs'; cases hs'
  rw [List.getElem?_map, hs]
  simp only [Option.map_some, sview, he']
  congr 2
  rw [hsl P.e _ hS.e_pos] at hd
  have hir : i < divCeil (bufAt P c aL aS nL k).length P.e := by rw [hK]; exact hi
  cases pad with
  | false =>
    simp only [Bool.false_eq_true, if_false] at hd ⊢
    simp only [chunks, List.getElem?_map, List.getElem?_range hir, Option.map_some, Option.some.injEq] at hd
    rw [← hd, chunkAt_bufAt hS hk hi]
  | true =>
    simp only [if_true] at hd ⊢
    simp only [chunksPadded, chunks, List.getElem?_map, List.getElem?_range hir, Option.map_some, Option.some.injEq] at hd
    rw [← hd, chunkAt_bufAt hS hk hi]

/-- an RFC-only receiver: the `E`-byte slices at symbol offsets `0..T-1`, concatenated, are the object -/
theorem slices_rebuild (e : Nat) (d : Bytes) (he : 0 < e) :
    ∀ t, ((List.range t).map (fun g => (d.drop (g * e)).take e)).flatten = d.take (t * e) := by
  intro t
  induction t with
  | zero => simp
  | succ t ih =>
    rw [List.range_succ, List.map_append, List.flatten_append, ih]
    simp only [List.map_cons, List.map_nil, List.flatten_cons, List.flatten_nil, List.append_nil]
    rw [Nat.add_mul, Nat.one_mul, List.take_add]

theorem accepts_of_total (hS : Setup P c aL aS nL n) (h : ∀ e k p, P.codec.accepts e k p = true) :
    Accepts P c aL aS nL n := by
  intro k _
  unfold blockAt Block.new Codec.encode
  have he : ¬ P.e = 0 := by have := hS.e_pos; omega
  simp [he, h]

/-- Reed-Solomon (FEC ID 5 and 129): what the repaired `add_object` checks (`FileDesc::new`: parity ≥ 1, D21;
    `a_large + parity ≤ 256`, D25) implies that every block of the object is accepted (lemma by the reviewer) -/
theorem rs_accepts (rep) (hS : Setup P c aL aS nL n) (hc : P.codec = reedSolomon rep) (hp : 1 ≤ P.p) (hk : aL + P.p ≤ 256) :
    Accepts P c aL aS nL n := by
  intro k hkn
  unfold blockAt Block.new Codec.encode
  have he : ¬ P.e = 0 := by have := hS.e_pos; omega
  have h1 := bufAt_nsym hS hkn (c := c)
  have h2 := A_pos aL aS nL k hS.good.aS_pos hS.good.aS_le
  have h3 : A aL aS nL k ≤ aL := by unfold A; split; exact Nat.le_refl _; exact hS.good.aS_le
  simp only [he, if_false, h1, hc, reedSolomon]
  have : decide (1 ≤ A aL aS nL k ∧ 1 ≤ P.p ∧ A aL aS nL k + P.p ≤ 256) = true := by
    simp; omega
  simp [this]

/-- Raptor (FEC ID 1) as the crate is: accepted iff no block has 2 or 3 source symbols -/
theorem raptor_accepts (rep) (hS : Setup P c aL aS nL n) (hc : P.codec = raptorLegacy rep)
    (hk : ∀ k, k < n → A aL aS nL k ≠ 2 ∧ A aL aS nL k ≠ 3) : Accepts P c aL aS nL n := by
  intro k hkn
  unfold blockAt Block.new Codec.encode
  have he : ¬ P.e = 0 := by have := hS.e_pos; omega
  have h1 := bufAt_nsym hS hkn (c := c)
  obtain ⟨h2, h3⟩ := hk k hkn
  simp only [he, if_false, h1, hc, raptorLegacy]
  have : decide (A aL aS nL k ≠ 2 ∧ A aL aS nL k ≠ 3) = true := by simp [h2, h3]
  simp [this]

end Flute.BencShape

namespace Flute.BencShape
open Flute Flute.Fec Flute.BlockEnc Flute.BencArith Flute.BencBlocks Flute.BencInv Flute.BencTrace

/-- a transfer of the object `c` (buffer source) under parameters `P`: a fresh encoder, then the run `tr`
    of successful reads reaching `s` -/
structure Run (P : Params) (c : Bytes) (aL aS nL n : Nat) (closable : Bool) (tr : List (Bool × Pkt)) (s : Enc) : Prop where
  notLegacy : P.legacy = false
  e_pos : 0 < P.e
  b_pos : 0 < P.b
  len_eq : P.len = c.length
  l_pos : 0 < c.length
  window_pos : 1 ≤ P.window
  part : Partition.blockPartitioning P.b P.len P.e = .ok (aL, aS, nL, n)
  accepts : Accepts P c aL aS nL n
  reads : ∃ s0, Enc.new P (.buffer c) closable = .ok s0 ∧ Reads P s0 tr s

variable {P : Params} {c : Bytes} {aL aS nL n : Nat} {closable : Bool} {tr : List (Bool × Pkt)} {s : Enc}

theorem Run.setup (h : Run P c aL aS nL n closable tr s) : Setup P c aL aS nL n :=
  ⟨h.notLegacy, h.e_pos, h.len_eq, by rw [h.len_eq]; exact h.l_pos,
   good_of_partition P.b P.len P.e aL aS nL n h.b_pos h.e_pos (by rw [h.len_eq]; exact h.l_pos) h.part⟩

/-- the invariants hold in the state a run has reached -/
theorem Run.inv (h : Run P c aL aS nL n closable tr s) :
    Inv P c aL aS nL n s ∧ TInv P c aL aS nL (pkts tr) s ∧ s.closable = closable ∧
    (s.stopped = true ↔ ∃ x, x ∈ tr ∧ x.1 = true) := by
  obtain ⟨s0, hnew, hr⟩ := h.reads
  have hs0 := new_state h.part hnew
  obtain ⟨hI0, hT0⟩ := inv_init h.setup closable
  rw [← hs0] at hI0 hT0
  have := reach h.setup h.accepts hI0 hT0 (by rw [hs0]) hr
  rw [hs0] at this
  exact this

/-- executable: read (unforced) until something that is not a packet -/
def runAll (P : Params) : Nat → Enc → List Pkt
  | 0, _ => []
  | fuel + 1, s =>
    match BlockEnc.read P s false with
    | (.pkt p, s') => p :: runAll P fuel s'
    | _ => []

theorem Reads.cons {P : Params} {s s' s'' : Enc} {f : Bool} {p : Pkt} {tr : List (Bool × Pkt)}
    (h : BlockEnc.read P s f = (.pkt p, s')) (hr : Reads P s' tr s'') : Reads P s ((f, p) :: tr) s'' := by
  induction hr with
  | nil => exact Reads.snoc (Reads.nil s) h
  | snoc _ hstep ih => have := Reads.snoc ih hstep; simpa using this

/-- executable: the run of unforced reads until something that is not a packet, with the state reached -/
def runPairs (P : Params) : Nat → Enc → List (Bool × Pkt) × Enc
  | 0, s => ([], s)
  | fuel + 1, s =>
    match BlockEnc.read P s false with
    | (.pkt p, s') => ((false, p) :: (runPairs P fuel s').1, (runPairs P fuel s').2)
    | _ => ([], s)

theorem reads_runPairs (P : Params) : ∀ fuel s, Reads P s (runPairs P fuel s).1 (runPairs P fuel s).2 := by
  intro fuel
  induction fuel with
  | zero => intro s; exact Reads.nil s
  | succ fuel ih =>
    intro s
    unfold runPairs
    split
    · rename_i p s' h; exact Reads.cons h (ih s')
    · exact Reads.nil s

theorem runPairs_unforced (P : Params) : ∀ fuel s x, x ∈ (runPairs P fuel s).1 → x.1 = false := by
  intro fuel
  induction fuel with
  | zero => intro s x hx; cases hx
  | succ fuel ih =>
    intro s x hx
    unfold runPairs at hx
    split at hx
    · rcases List.mem_cons.mp hx with h | h
      · subst h; rfl
      · exact ih _ x h
    · cases hx

/-- executable: the B flags of the packets a one-object session returns until something that is not a packet -/
def sessionFlags : Nat → Session → List Bool
  | 0, _ => []
  | k + 1, x =>
    match x.read with
    | (.pkt p, x') => p.closeObject :: sessionFlags k x'
    | _ => []

end Flute.BencShape
