import FluteModel.Lemmas.SchedClock
/-
  Round robin inside one priority queue (`Sender::read_priority_queue`): if slot `j` holds a transfer whose packet
  is due, a call either returns THAT packet, or returns the packet of a slot polled before `j` - and then the
  round-robin index has moved strictly closer to `j`, whose transfer is untouched and still due - or the queue
  yields because an FDT instance is pending.  Hence a due slot is served after at most `n - 1` packets of its
  peers: the slots alternate.
-/
namespace Flute.Sched

/-- `runFile` on a slot that does not hold `k`: whatever it returns, `k` is untouched; a returned packet is not `k`'s -/
theorem runFile_other_all {k : Nat} {f : FileDesc} {P : Prop} (ht : f.info.transferring = true) :
    ∀ fuel (s : State) prio (cur : Option Cur) now ticks, Kept k f P s → (∀ c, cur = some c → c.key ≠ k) →
    let r := runFile fuel s prio cur now ticks
    Kept k f P r.1 ∧ (∀ c, r.2.1 = some c → c.key ≠ k) ∧ (∀ p t i b, r.2.2 = Out.pkt p t i b → t ≠ k) := by
  intro fuel
  induction fuel with
  | zero => intro s prio cur now ticks h hc; exact ⟨h, hc, fun _ _ _ _ e => (by cases e)⟩
  | succ n ih =>
    intro s prio cur now ticks h hc
    have key : ∀ (fr : Bool) (s1 : State) (cur1 : Option Cur), Kept k f P s1 → (∀ c, cur1 = some c → c.key ≠ k) →
        let r := (if !s1.fdtQueue.isEmpty then (s1, cur1, Out.none) else
          match cur1 with
          | none => (s1, none, Out.none)
          | some c =>
            match getF s1.objs c.key with
            | none => (s1, cur1, Out.none)
            | some f =>
              if gateBlocked f now then (s1, cur1, Out.none) else
              match encRead f.nSym c.enc (canStop f && !s1.files.contains c.key) with
              | (none, _) =>

                if fr then (transferDoneFile s1 c.key now, none, Out.none)

                else runFile n (transferDoneFile s1 c.key now) prio none now ticks
              | (some (idx, b), e) => (pktStep s1 prio c.key now idx b, some { c with enc := e }, Out.pkt prio c.key idx b))
        Kept k f P r.1 ∧ (∀ c, r.2.1 = some c → c.key ≠ k) ∧ (∀ p t i b, r.2.2 = Out.pkt p t i b → t ≠ k) := by
      intro fr s1 cur1 h1 hc1
      simp only []
      split
      · exact ⟨h1, hc1, fun _ _ _ _ e => (by cases e)⟩
      · cases cur1 with
        | none => exact ⟨h1, hc1, fun _ _ _ _ e => (by cases e)⟩
        | some c =>
          simp only []
          split
          · exact ⟨h1, hc1, fun _ _ _ _ e => (by cases e)⟩
          · split
            · exact ⟨h1, hc1, fun _ _ _ _ e => (by cases e)⟩
            · split
              · cases fr with
                | true =>
                  simp only [if_true]
                  exact ⟨h1.done c.key now (hc1 c rfl), fun _ e => (by cases e), fun _ _ _ _ e => (by cases e)⟩
                | false =>
                  simp only [Bool.false_eq_true, if_false]
                  exact ih _ prio none now ticks (h1.done c.key now (hc1 c rfl)) (fun _ e => by cases e)
              · refine ⟨h1.updOther c.key tickInfo (fun _ => rfl) (hc1 c rfl) rfl Iff.rfl, ?_, ?_⟩
                · intro c' e'
                  simp only [Option.some.injEq] at e'
                  rw [← e']; exact hc1 c rfl
                · intro p t i b e'
                  simp only [Out.pkt.injEq] at e'
                  rw [← e'.2.1]; exact hc1 c rfl
    unfold runFile
    cases cur with
    | some c => exact key false s (some c) h hc
    | none =>
      simp only []
      cases hg : getNextFile s prio now ticks with
      | mk s' r =>
        cases r with
        | none =>
          have : s' = s := by
            unfold getNextFile at hg
            split at hg
            · simp at hg; exact hg.symm
            · simp at hg
          subst this
          exact key true s' none h (fun _ e => by cases e)
        | some t =>
          obtain ⟨h1, hne⟩ := h.getNextFile ht hg
          simp only []
          cases ho : openFailed true s' (some (startCur s' t)) with
          | none =>
            exact key true s' (some (startCur s' t)) h1 (fun c e => by
              simp only [Option.some.injEq] at e; rw [← e]; exact hne)
          | some kf =>
            obtain ⟨k', f'⟩ := kf
            obtain ⟨_, c, e1, e2, _, _⟩ := openFailed_some ho
            simp only [Option.some.injEq] at e1
            subst e1
            have hk : k' = t := e2.symm
            subst hk
            simp only []
            exact ⟨h1.done k' now hne, fun _ e => (by cases e), fun _ _ _ _ e => (by cases e)⟩

/-- round robin progress -/
theorem readQueue_rr {k : Nat} {f : FileDesc} {P : Prop} (ht : f.info.transferring = true) (c : Cur) (j n : Nat)
    (hk : c.key = k) (now : Nat) (hg : gateBlocked f now = false) (hs : c.enc.stopped = false)
    (hlt : c.enc.sent < f.nPk) (hj : j < n) :
    ∀ steps (s : State) (q : QSess) ticks, Kept k f P s → q.slots.length = n → q.index < n →
    q.slots[j]? = some (some c) →
    (∀ i c0, i ≠ j → q.slots[i]? = some (some c0) → c0.key ≠ k) →
    rrDist q.index j n < steps →
    ∀ p t i b, (readQueue steps s q now ticks).2.2 = Out.pkt p t i b →
      t = k ∨
      (t ≠ k ∧ rrDist (readQueue steps s q now ticks).2.1.index j n < rrDist q.index j n ∧
        (readQueue steps s q now ticks).2.1.slots[j]? = some (some c) ∧ Kept k f P (readQueue steps s q now ticks).1) := by
  intro steps
  induction steps with
  | zero => intro s q ticks _ _ _ _ _ hd; exact absurd hd (Nat.not_lt_zero _)
  | succ m ih =>
    intro s q ticks h hn hidx hjs hoth hd
    unfold readQueue
    split
    · rename_i hnone
      rw [List.getElem?_eq_none_iff] at hnone
      omega
    · rename_i cur hcur
      by_cases hij : q.index = j
      · rw [hij, hjs] at hcur
        simp only [Option.some.injEq] at hcur
        subst hcur
        have e : runFuel = 3 + 1 := rfl
        have hr := runFile_due 3 s q.prio c now ticks h hk hg hs hlt
        rw [e]
        generalize runFile (3 + 1) s q.prio (some c) now ticks = r at hr
        obtain ⟨s', cur', out⟩ := r
        simp only [] at hr ⊢
        rcases hr with ⟨i, b, hr⟩ | ⟨hr1, hr2⟩
        · subst hr
          intro p t i' b' e'
          simp only [Out.pkt.injEq] at e'
          exact Or.inl e'.2.1.symm
        · subst hr1
          simp only []
          intro p t i b e'
          rw [(readQueue_pending m s' _ now ticks hr2).1] at e'
          cases e'
      · have hne : ∀ c0, cur = some c0 → c0.key ≠ k := by
          intro c0 e; subst e
          exact hoth q.index c0 hij hcur
        have hr := runFile_other_all ht runFuel s q.prio cur now ticks h hne
        generalize runFile runFuel s q.prio cur now ticks = r at hr
        obtain ⟨s', cur', out⟩ := r
        simp only [] at hr ⊢
        obtain ⟨hk', hcur', hpk⟩ := hr
        have hidx' : (if q.index + 1 = q.slots.length then 0 else q.index + 1) < n := by split <;> omega
        have hjs' : (q.slots.set q.index cur')[j]? = some (some c) := by
          rw [List.getElem?_set_ne hij]; exact hjs
        have hoth' : ∀ i c0, i ≠ j → (q.slots.set q.index cur')[i]? = some (some c0) → c0.key ≠ k := by
          intro i c0 hi hget
          by_cases hiq : q.index = i
          · subst hiq
            rw [List.getElem?_set_self (by omega)] at hget
            simp only [Option.some.injEq] at hget
            exact hcur' c0 hget
          · rw [List.getElem?_set_ne hiq] at hget
            exact hoth i c0 hi hget
        have hdist : rrDist (if q.index + 1 = q.slots.length then 0 else q.index + 1) j n + 1 = rrDist q.index j n := by
          unfold rrDist
          rw [hn]
          split <;> split <;> split <;> omega
        cases out with
        | none =>
          simp only []
          intro p t i b e'
          have := ih s' _ ticks hk' (by simp [hn]) hidx' hjs' hoth'
            (by show rrDist (if q.index + 1 = q.slots.length then 0 else q.index + 1) j n < m; omega) p t i b e'
          rcases this with h1 | ⟨h1, h2, h3, h4⟩
          · exact Or.inl h1
          · exact Or.inr ⟨h1, by
              have h2' : rrDist (readQueue m s' _ now ticks).2.1.index j n <
                  rrDist (if q.index + 1 = q.slots.length then 0 else q.index + 1) j n := h2
              omega, h3, h4⟩
        | hang => intro p t i b e'; cases e'
        | pkt a b' c' d =>
          intro p t i b e'
          simp only [Out.pkt.injEq] at e'
          right
          refine ⟨by rw [← e'.2.1]; exact hpk a b' c' d rfl, ?_, hjs', hk'⟩
          show rrDist (if q.index + 1 = q.slots.length then 0 else q.index + 1) j n < _
          omega
        | fdt a b' c' => intro p t i b e'; cases e'

end Flute.Sched
