import FluteModel.Lemmas.SchedWf
import FluteModel.Spec.Announce
/-
  C11 part of the scheduler invariant: relation between the model state and the specification monitor
  `Spec.Announce.Mon` run over the log (DESIGN §9 (i)-(iv)).
-/
namespace Flute.Sched
open Flute.Spec.Announce

/-- packets of the `k`-th published instance (what the FTI transfer length says) -/
def npkOf (tbl : List Nat) (k : Nat) : Nat := if tblGet tbl k = 0 then 1 else tblGet tbl k

abbrev mon (s : State) : Mon := Mon.run (npkOf s.fdtPkts) s.log

def AnnP : Mon → Nat → Prop := fun m t => Announced m t ∧ NoPending m

structure AnnInv (s : State) (L : Held) : Prop where
  pubsFdt : ∀ k files, (k, files) ∈ (mon s).pubs → ∃ f, getF s.fdts k = some f
  fdtPubs : ∀ k f, getF s.fdts k = some f → (k, f.content) ∈ (mon s).pubs
  progress : ∀ k f, getF s.fdts k = some f →
    k ∈ (mon s).done ∨ k ∈ s.fdtQueue ∨ (s.curFdt = some k ∧ s.fdtSess.isSome = true)
  cur : (mon s).cur =
    match s.fdtSess with
    | some c => if 0 < c.enc.sent ∧ c.enc.sent < npkOf s.fdtPkts c.key then some (c.key, c.enc.sent) else none
    | none => none
  sessDone : ∀ c, s.fdtSess = some c → npkOf s.fdtPkts c.key ≤ c.enc.sent → c.key ∈ (mon s).done
  listed : ∀ pc ∈ L, ∃ k f, getF s.fdts k = some f ∧ pc.2.key ∈ f.content
  pubListed : s.cfg.mode = .full → ∀ g ∈ s.objs, g.published = true →
    ∃ k f, getF s.fdts k = some f ∧ g.key ∈ f.content
  holds : Holds (npkOf s.fdtPkts) AnnP s.log
  /-- admission: in `ObjectsBeingTransferred` mode the automatic publication at transfer start must not be
      refused (otherwise the object goes out unannounced: finding sched-3) -/
  fits : s.cfg.mode = .being → s.cfg.fdtFits = true

/-- transfer of the invariant to a state that differs only in parts the invariant does not read -/
theorem AnnInv.of_same {s s' : State} {L L' : Held} (h : AnnInv s L)
    (htbl : s'.fdtPkts = s.fdtPkts)
    (hmon : Mon.run (npkOf s.fdtPkts) s'.log = Mon.run (npkOf s.fdtPkts) s.log)
    (hholds : Holds (npkOf s.fdtPkts) AnnP s'.log)
    (hfdts : s'.fdts = s.fdts) (hq : s'.fdtQueue = s.fdtQueue) (hc : s'.curFdt = s.curFdt)
    (hs : s'.fdtSess = s.fdtSess) (hcfg : s'.cfg = s.cfg)
    (hobjs : ∀ g' ∈ s'.objs, g'.published = true → ∃ g ∈ s.objs, g.key = g'.key ∧ g.published = true)
    (hL : ∀ pc' ∈ L', ∃ pc ∈ L, pc.2.key = pc'.2.key) : AnnInv s' L' := by
  have hm : mon s' = mon s := by show Mon.run _ _ = Mon.run _ _; rw [htbl, hmon]
  exact
  { pubsFdt := by rw [hm, hfdts]; exact h.pubsFdt
    fdtPubs := by rw [hm, hfdts]; exact h.fdtPubs
    progress := by rw [hm, hfdts, hq, hc, hs]; exact h.progress
    cur := by rw [hm, hs, htbl]; exact h.cur
    sessDone := by rw [hm, hs, htbl]; exact h.sessDone
    listed := fun pc' hpc' => by
      obtain ⟨pc, hpc, e⟩ := hL pc' hpc'
      rw [hfdts, ← e]; exact h.listed pc hpc
    pubListed := fun hmode g' hg' hp => by
      obtain ⟨g, hg, e, hgp⟩ := hobjs g' hg' hp
      rw [hfdts, ← e]; exact h.pubListed (hcfg ▸ hmode) g hg hgp
    holds := by rw [htbl]; exact hholds
    fits := by rw [hcfg]; exact h.fits }

def Neutral : Ev → Prop
  | .pub .. => False
  | .fdt .. => False
  | .pkt .. => False
  | _ => True

theorem run_neutral (npk : Nat → Nat) {e : Ev} (l : List Ev) (h : Neutral e) :
    Mon.run npk (e :: l) = Mon.run npk l := by
  cases e <;> first | rfl | exact absurd h (by simp [Neutral])

theorem holds_neutral {npk : Nat → Nat} {P : Mon → Nat → Prop} {e : Ev} {l : List Ev} (h : Neutral e)
    (hl : Holds npk P l) : Holds npk P (e :: l) := by
  cases e <;> first | exact ⟨hl, trivial⟩ | exact absurd h (by simp [Neutral])

theorem transferDoneFile_fdts (s : State) (t now : Nat) : (transferDoneFile s t now).fdts = s.fdts := by
  rw [transferDoneFile_eq]; split
  · rfl
  · split
    · split <;> rfl
    · rfl

theorem transferDoneFile_fdtQueue (s : State) (t now : Nat) : (transferDoneFile s t now).fdtQueue = s.fdtQueue := by
  rw [transferDoneFile_eq]; split
  · rfl
  · split
    · split <;> rfl
    · rfl

theorem transferDoneFile_curFdt (s : State) (t now : Nat) : (transferDoneFile s t now).curFdt = s.curFdt := by
  rw [transferDoneFile_eq]; split
  · rfl
  · split
    · split <;> rfl
    · rfl

theorem transferDoneFile_fdtSess (s : State) (t now : Nat) : (transferDoneFile s t now).fdtSess = s.fdtSess := by
  rw [transferDoneFile_eq]; split
  · rfl
  · split
    · split <;> rfl
    · rfl

theorem transferDoneFile_cfg (s : State) (t now : Nat) : (transferDoneFile s t now).cfg = s.cfg := by
  rw [transferDoneFile_eq]; split
  · rfl
  · split
    · split <;> rfl
    · rfl

theorem transferDoneFile_fdtPkts (s : State) (t now : Nat) : (transferDoneFile s t now).fdtPkts = s.fdtPkts := by
  rw [transferDoneFile_eq]; split
  · rfl
  · split
    · split <;> rfl
    · rfl

theorem transferDoneFile_nextToi (s : State) (t now : Nat) : (transferDoneFile s t now).nextToi = s.nextToi := by
  rw [transferDoneFile_eq]; split
  · rfl
  · split
    · split <;> rfl
    · rfl

theorem transferDoneFile_log (s : State) (t now : Nat) : (transferDoneFile s t now).log = Ev.stop now t :: s.log := by
  rw [transferDoneFile_eq]; split
  · rfl
  · split
    · split <;> rfl
    · rfl

theorem transferDoneFile_objs (s : State) (t now : Nat) :
    (transferDoneFile s t now).objs = updF s.objs t (fun f => transferDoneInfo f now) := by
  rw [transferDoneFile_eq]; split
  · rfl
  · split
    · split <;> rfl
    · rfl

/-- a primitive that appends one neutral event and otherwise only touches object descriptors
    (keeping `published`), slots, flags -/
theorem AnnInv.neutral {s s' : State} {L L' : Held} {e : Ev} (h : AnnInv s L) (hn : Neutral e)
    (hlog : s'.log = e :: s.log) (htbl : s'.fdtPkts = s.fdtPkts)
    (hfdts : s'.fdts = s.fdts) (hq : s'.fdtQueue = s.fdtQueue) (hc : s'.curFdt = s.curFdt)
    (hs : s'.fdtSess = s.fdtSess) (hcfg : s'.cfg = s.cfg)
    (hobjs : ∀ g' ∈ s'.objs, g'.published = true → ∃ g ∈ s.objs, g.key = g'.key ∧ g.published = true)
    (hL : ∀ pc' ∈ L', ∃ pc ∈ L, pc.2.key = pc'.2.key) : AnnInv s' L' :=
  h.of_same htbl (by rw [hlog]; exact run_neutral _ _ hn) (by rw [hlog]; exact holds_neutral hn h.holds)
    hfdts hq hc hs hcfg hobjs hL

theorem mem_updF_published {l : List FileDesc} {k : Nat} {g : FileDesc → FileDesc}
    (hg : ∀ f, (g f).key = f.key ∧ (g f).published = f.published) :
    ∀ f' ∈ updF l k g, f'.published = true → ∃ f ∈ l, f.key = f'.key ∧ f.published = true := by
  intro f' hf' hp
  obtain ⟨f0, hf0, rfl⟩ := mem_updF hf'
  split at hp
  · rename_i hk; refine ⟨f0, hf0, ?_, ?_⟩
    · simp [hk, (hg f0).1]
    · rw [(hg f0).2] at hp; exact hp
  · rename_i hk; exact ⟨f0, hf0, by simp [hk], hp⟩

theorem getF_updF_fwd {l : List FileDesc} {k0 k : Nat} {g : FileDesc → FileDesc} {f' : FileDesc}
    (hk : ∀ f, (g f).key = f.key) (hc : ∀ f, (g f).content = f.content)
    (h : getF (updF l k0 g) k = some f') : ∃ f, getF l k = some f ∧ f'.content = f.content := by
  rw [getF_updF _ _ _ _ hk] at h
  split at h
  · cases hf : getF l k with
    | none => rw [hf] at h; cases h
    | some f => rw [hf] at h; simp only [Option.map_some, Option.some.injEq] at h; exact ⟨f, rfl, by rw [← h, hc]⟩
  · exact ⟨f', h, rfl⟩

theorem getF_updF_bwd {l : List FileDesc} {k0 k : Nat} {g : FileDesc → FileDesc} {f : FileDesc}
    (hk : ∀ f, (g f).key = f.key) (hc : ∀ f, (g f).content = f.content)
    (h : getF l k = some f) : ∃ f', getF (updF l k0 g) k = some f' ∧ f'.content = f.content := by
  rw [getF_updF _ _ _ _ hk]
  split
  · exact ⟨g f, by rw [h]; rfl, hc f⟩
  · exact ⟨f, h, rfl⟩

theorem npkOf_pos (tbl : List Nat) (k : Nat) : 0 < npkOf tbl k := by
  unfold npkOf; split <;> omega

theorem nPk_of_shape {tbl : List Nat} {f : FileDesc} (h : FdtShape tbl f) : f.nPk = npkOf tbl f.key := by
  unfold FileDesc.nPk npkOf; rw [h.nSym]

theorem fresh_should_transfer {tbl : List Nat} {f : FileDesc} (hs : FdtShape tbl f) (hf : Fresh f)
    (mode : Mode) (now : Nat) : shouldTransferNow f 0 mode now = true := by
  unfold shouldTransferNow beforeStart
  simp [hs.prio, hs.published, hs.startTime, hf.1, hf.2.1, hs.maxCount]

theorem publish_getF_fdts (s : State) (now k : Nat) :
    getF (publish s now).fdts k =
      match getF s.fdts k with
      | some f => some f
      | none => if s.fdts.length = k then some (pubDesc s) else none := by
  rw [publish_fdts]
  cases h : getF s.fdts k with
  | some f => exact getF_append_some h
  | none => rw [getF_append_none h, getF_single]; rfl

theorem publish_log (s : State) (now : Nat) :
    (publish s now).log = Ev.pub now s.fdts.length (pubDesc s).content :: s.log := rfl

theorem AnnInv.ofPublish {s : State} {L : Held} (now : Nat) (h : AnnInv s L)
    (hnew : getF s.fdts s.fdts.length = none) : AnnInv (publish s now) L := by
  have hm : mon (publish s now) = { mon s with pubs := (s.fdts.length, (pubDesc s).content) :: (mon s).pubs } := rfl
  have hold : ∀ k f, getF s.fdts k = some f → getF (publish s now).fdts k = some f := by
    intro k f hf; rw [publish_getF_fdts, hf]
  have hnewd : getF (publish s now).fdts s.fdts.length = some (pubDesc s) := by
    rw [publish_getF_fdts, hnew]; simp
  have hinv : ∀ k f, getF (publish s now).fdts k = some f →
      getF s.fdts k = some f ∨ (k = s.fdts.length ∧ f = pubDesc s) := by
    intro k f hf
    rw [publish_getF_fdts] at hf
    cases hg : getF s.fdts k with
    | some f0 => rw [hg] at hf; left; exact hf
    | none =>
      rw [hg] at hf
      simp only [] at hf
      split at hf
      · rename_i e; right; exact ⟨e.symm, (Option.some.inj hf).symm⟩
      · cases hf
  exact
  { pubsFdt := fun k files hk => by
      rw [hm] at hk
      rcases List.mem_cons.mp hk with e | hk
      · simp only [Prod.mk.injEq] at e; rw [e.1]; exact ⟨_, hnewd⟩
      · obtain ⟨f, hf⟩ := h.pubsFdt k files hk; exact ⟨f, hold k f hf⟩
    fdtPubs := fun k f hf => by
      rw [hm]
      rcases hinv k f hf with hf | ⟨e1, e2⟩
      · exact List.mem_cons_of_mem _ (h.fdtPubs k f hf)
      · rw [e1, e2]; exact List.mem_cons_self
    progress := fun k f hf => by
      rw [hm]
      show k ∈ (mon s).done ∨ k ∈ s.fdtQueue ++ [s.fdts.length] ∨ _
      rcases hinv k f hf with hf | ⟨e1, _⟩
      · rcases h.progress k f hf with h1 | h1 | h1
        · exact Or.inl h1
        · exact Or.inr (Or.inl (List.mem_append_left _ h1))
        · exact Or.inr (Or.inr h1)
      · exact Or.inr (Or.inl (by rw [e1]; simp))
    cur := by rw [hm]; exact h.cur
    sessDone := by rw [hm]; exact h.sessDone
    listed := fun pc hpc => by
      obtain ⟨k, f, hf, hc⟩ := h.listed pc hpc
      exact ⟨k, f, hold k f hf, hc⟩
    pubListed := fun hmode g' hg' hp => by
      have hmode' : s.cfg.mode = .full := hmode
      rw [publish_objs, List.mem_map] at hg'
      obtain ⟨g0, hg0, rfl⟩ := hg'
      by_cases hcont : s.files.contains g0.key = true
      · refine ⟨s.fdts.length, pubDesc s, hnewd, ?_⟩
        simp only [pubMark_key]
        show g0.key ∈ (match s.cfg.mode with | .full => s.files | .being => s.files.filter (isTransferring s))
        rw [hmode']; simpa using hcont
      · have : pubMark s.files g0 = g0 := by unfold pubMark; rw [if_neg hcont]
        rw [this] at hp ⊢
        obtain ⟨k, f, hf, hc⟩ := h.pubListed hmode' g0 hg0 hp
        exact ⟨k, f, hold k f hf, hc⟩
    holds := by
      show Holds _ AnnP (Ev.pub _ _ _ :: s.log)
      exact ⟨h.holds, trivial⟩
    fits := h.fits }

theorem fdtPop_fdts (s : State) : (fdtPop s).fdts = s.fdts := by unfold fdtPop; split <;> rfl
theorem fdtPop_log (s : State) : (fdtPop s).log = s.log := by unfold fdtPop; split <;> rfl
theorem fdtPop_fdtPkts (s : State) : (fdtPop s).fdtPkts = s.fdtPkts := by unfold fdtPop; split <;> rfl
theorem fdtPop_cfg (s : State) : (fdtPop s).cfg = s.cfg := by unfold fdtPop; split <;> rfl
theorem fdtPop_objs (s : State) : (fdtPop s).objs = s.objs := by unfold fdtPop; split <;> rfl

theorem AnnInv.ofFdtAdvance {s : State} {L : Held} (now : Nat) (hw : Wf s L) (h : AnnInv s L)
    (hs : s.fdtSess = none) : AnnInv (fdtAdvance s now) L := by
  rcases fdtAdvance_cases s now with ⟨e, hnone⟩ | ⟨k, f, hk, hf, _, e⟩
  · -- nothing started: then nothing was popped either (a popped instance is fresh and starts)
    rw [e]
    cases hq : s.fdtQueue with
    | nil =>
      have : fdtPop s = s := by unfold fdtPop; rw [hq]
      rw [this]; exact h
    | cons k rest =>
      exfalso
      obtain ⟨f, hf, hfr⟩ := hw.fdtQueue k (by rw [hq]; simp)
      have hsh := (hw.fdtKeys f (getF_mem hf)).2
      have hpop : fdtPop s = { s with curFdt := some k, fdtQueue := rest } := by unfold fdtPop; rw [hq]
      rw [hpop] at hnone
      unfold fdtTryStart at hnone
      simp only [hf, fresh_should_transfer hsh hfr, if_true] at hnone
      cases hnone
  · rw [e]
    have hkey : ∀ g : FileDesc, (transferInit g now 0).key = g.key := fun _ => rfl
    have hcont : ∀ g : FileDesc, (transferInit g now 0).content = g.content := fun _ => rfl
    rw [fdtPop_fdts] at hf
    -- which instance is current after the pop
    have hcur : (s.fdtQueue = [] ∧ s.curFdt = some k) ∨ (∃ rest, s.fdtQueue = k :: rest) := by
      cases hq : s.fdtQueue with
      | nil =>
        left; refine ⟨rfl, ?_⟩
        have : fdtPop s = s := by unfold fdtPop; rw [hq]
        rw [this] at hk; exact hk
      | cons k0 rest =>
        right
        have : (fdtPop s).curFdt = some k0 := by unfold fdtPop; rw [hq]
        rw [this] at hk; cases hk; exact ⟨rest, rfl⟩
    have hqsub : ∀ k', k' ∈ s.fdtQueue → k' = k ∨ k' ∈ (fdtPop s).fdtQueue := by
      intro k' hk'
      rcases hcur with ⟨hq, _⟩ | ⟨rest, hq⟩
      · rw [hq] at hk'; cases hk'
      · have : (fdtPop s).fdtQueue = rest := by unfold fdtPop; rw [hq]
        rw [this]; rw [hq] at hk'
        rcases List.mem_cons.mp hk' with rfl | h1
        · left; rfl
        · right; exact h1
    have hmon : mon ({ fdtStartStep (fdtPop s) k now with fdtSess := some (startFdtCur k) } : State) = mon s := by
      show Mon.run (npkOf (fdtPop s).fdtPkts) (Ev.fdtStart now k :: (fdtPop s).log) = _
      rw [fdtPop_fdtPkts, fdtPop_log]; rfl
    exact
    { pubsFdt := fun k' files hk' => by
        rw [hmon] at hk'
        obtain ⟨f0, hf0⟩ := h.pubsFdt k' files hk'
        obtain ⟨f', hf', _⟩ := getF_updF_bwd (k0 := k) hkey hcont hf0
        exact ⟨f', by show getF (updF (fdtPop s).fdts k _) k' = _; rw [fdtPop_fdts]; exact hf'⟩
      fdtPubs := fun k' f' hf' => by
        rw [hmon]
        have hf'' : getF (updF s.fdts k (fun g => transferInit g now 0)) k' = some f' := by
          have : getF (updF (fdtPop s).fdts k (fun g => transferInit g now 0)) k' = some f' := hf'
          rw [fdtPop_fdts] at this; exact this
        obtain ⟨f0, hf0, ec⟩ := getF_updF_fwd hkey hcont hf''
        rw [ec]; exact h.fdtPubs k' f0 hf0
      progress := fun k' f' hf' => by
        rw [hmon]
        have hf'' : getF (updF s.fdts k (fun g => transferInit g now 0)) k' = some f' := by
          have : getF (updF (fdtPop s).fdts k (fun g => transferInit g now 0)) k' = some f' := hf'
          rw [fdtPop_fdts] at this; exact this
        obtain ⟨f0, hf0, _⟩ := getF_updF_fwd hkey hcont hf''
        show k' ∈ (mon s).done ∨ k' ∈ (fdtPop s).fdtQueue ∨ ((fdtPop s).curFdt = some k' ∧ _)
        rcases h.progress k' f0 hf0 with h1 | h1 | h1
        · exact Or.inl h1
        · rcases hqsub k' h1 with rfl | h2
          · exact Or.inr (Or.inr ⟨hk, rfl⟩)
          · exact Or.inr (Or.inl h2)
        · rw [hs] at h1; simp at h1
      cur := by
        rw [hmon, h.cur, hs]
        show none = if 0 < 0 ∧ _ then _ else none
        simp
      sessDone := fun c hc hle => by
        have : c = startFdtCur k := by
          have : some (startFdtCur k) = some c := hc
          exact (Option.some.inj this).symm
        subst this
        have := npkOf_pos (fdtPop s).fdtPkts k
        have hle' : npkOf (fdtPop s).fdtPkts k ≤ 0 := hle
        omega
      listed := fun pc hpc => by
        obtain ⟨k', f0, hf0, hc⟩ := h.listed pc hpc
        obtain ⟨f', hf', ec⟩ := getF_updF_bwd (k0 := k) hkey hcont hf0
        exact ⟨k', f', by show getF (updF (fdtPop s).fdts k _) k' = _; rw [fdtPop_fdts]; exact hf', by rw [ec]; exact hc⟩
      pubListed := fun hmode g hg hp => by
        have hmode' : s.cfg.mode = .full := by
          have : (fdtPop s).cfg.mode = .full := hmode
          rw [fdtPop_cfg] at this; exact this
        have hg' : g ∈ s.objs := by
          have : g ∈ (fdtPop s).objs := hg
          rw [fdtPop_objs] at this; exact this
        obtain ⟨k', f0, hf0, hc⟩ := h.pubListed hmode' g hg' hp
        obtain ⟨f', hf', ec⟩ := getF_updF_bwd (k0 := k) hkey hcont hf0
        exact ⟨k', f', by show getF (updF (fdtPop s).fdts k _) k' = _; rw [fdtPop_fdts]; exact hf', by rw [ec]; exact hc⟩
      holds := by
        show Holds (npkOf (fdtPop s).fdtPkts) AnnP (Ev.fdtStart now k :: (fdtPop s).log)
        rw [fdtPop_fdtPkts, fdtPop_log]
        exact ⟨h.holds, trivial⟩
      fits := by
        show (fdtPop s).cfg.mode = .being → (fdtPop s).cfg.fdtFits = true
        rw [fdtPop_cfg]; exact h.fits }

theorem AnnInv.ofFdtPkt {s : State} {L : Held} {c : Cur} {f : FileDesc} {now idx : Nat} {b : Bool} {e : Enc}
    (hw : Wf s L) (h : AnnInv s L) (hc : s.fdtSess = some c) (hf : getF s.fdts c.key = some f)
    (he : encRead f.nSym c.enc false = (some (idx, b), e)) :
    AnnInv (fdtStep s c e f.fdtId now idx) L := by
  obtain ⟨_, h2, f', hf', _, _⟩ := hw.fdtSessSome c hc
  rw [hf] at hf'; cases hf'
  obtain ⟨e1, e2, e3⟩ := encRead_false_some he h2
  have hsh := (hw.fdtKeys f (getF_mem hf)).2
  have hnpk : (if f.nSym = 0 then 1 else f.nSym) = npkOf s.fdtPkts c.key := by
    have := nPk_of_shape hsh
    rw [getF_key hf] at this
    exact this
  rw [hnpk] at e3
  have hfd : (fdtStep s c e f.fdtId now idx).fdts = s.fdts := updF_tick_fdts hw c.key
  -- the monitor accepts the packet as the next one of the running transfer
  have hcond : idx = 0 ∨ (mon s).cur = some (c.key, idx) := by
    rw [h.cur, hc]
    by_cases h0 : c.enc.sent = 0
    · left; rw [e1, h0]
    · right
      simp only []
      rw [if_pos ⟨by omega, e3⟩, e1]
  have hm : mon (fdtStep s c e f.fdtId now idx) =
      if idx + 1 = npkOf s.fdtPkts c.key then { mon s with done := c.key :: (mon s).done, cur := none }
      else { mon s with cur := some (c.key, idx + 1) } := by
    show Mon.step _ (mon s) (Ev.fdt now c.key f.fdtId idx) = _
    unfold Mon.step
    simp only []
    rw [if_pos hcond]
    rfl
  have hsub : ∀ k, k ∈ (mon s).done → k ∈ (mon (fdtStep s c e f.fdtId now idx)).done := by
    intro k hk; rw [hm]; split
    · exact List.mem_cons_of_mem _ hk
    · exact hk
  have hpubs : (mon (fdtStep s c e f.fdtId now idx)).pubs = (mon s).pubs := by
    rw [hm]; split <;> rfl
  exact
  { pubsFdt := by rw [hpubs, hfd]; exact h.pubsFdt
    fdtPubs := by rw [hpubs, hfd]; exact h.fdtPubs
    progress := fun k f0 hf0 => by
      rw [hfd] at hf0
      rcases h.progress k f0 hf0 with h1 | h1 | h1
      · exact Or.inl (hsub k h1)
      · exact Or.inr (Or.inl h1)
      · exact Or.inr (Or.inr ⟨h1.1, rfl⟩)
    cur := by
      rw [hm]
      show _ = if 0 < e.sent ∧ e.sent < npkOf s.fdtPkts c.key then some (c.key, e.sent) else none
      rw [e2]; simp only []
      rw [← e1]
      by_cases hlast : idx + 1 = npkOf s.fdtPkts c.key
      · rw [if_pos hlast, if_neg (by omega)]
      · rw [if_neg hlast, if_pos ⟨by omega, by omega⟩]
    sessDone := fun c' hc' hle => by
      have : c' = { c with enc := e } := by
        have : some ({ c with enc := e } : Cur) = some c' := hc'
        exact (Option.some.inj this).symm
      subst this
      have hle' : npkOf s.fdtPkts c.key ≤ e.sent := hle
      rw [e2] at hle'; simp only [] at hle'
      rw [hm, if_pos (by omega)]
      exact List.mem_cons_self
    listed := by rw [hfd]; exact h.listed
    pubListed := by rw [hfd]; exact h.pubListed
    holds := by
      show Holds _ AnnP (Ev.fdt _ _ _ _ :: s.log)
      exact ⟨h.holds, trivial⟩
    fits := h.fits }

theorem fdtRelease_eq {s : State} {L : Held} {c : Cur} (now : Nat) (hw : Wf s L) (hc : s.fdtSess = some c) :
    fdtRelease s c.key now =
      { s with fdts := updF s.fdts c.key (fun f => transferDoneInfo f now),
               log := Ev.fdtStop now c.key :: s.log, fdtSess := none } := by
  obtain ⟨_, _, f, hf, _, _⟩ := hw.fdtSessSome c hc
  have hkey : ∀ g : FileDesc, (transferDoneInfo g now).key = g.key := fun _ => rfl
  have hsh := (hw.fdtKeys f (getF_mem hf)).2
  have hget : getF (updF s.fdts c.key (fun f => transferDoneInfo f now)) c.key = some (transferDoneInfo f now) := by
    rw [getF_updF _ _ _ _ hkey, if_pos rfl, hf]; rfl
  unfold fdtRelease transferDoneFdt emit
  simp only [hget, isExpired_of_shape (doneInfo_shape hsh now)]
  rfl

theorem AnnInv.ofFdtDone {s : State} {L : Held} {c : Cur} {f : FileDesc} {now : Nat} {e : Enc}
    (hw : Wf s L) (h : AnnInv s L) (hc : s.fdtSess = some c) (hf : getF s.fdts c.key = some f)
    (he : encRead f.nSym c.enc false = (none, e)) :
    AnnInv (fdtRelease s c.key now) L := by
  obtain ⟨hcur, h2, f', hf', _, _⟩ := hw.fdtSessSome c hc
  rw [hf] at hf'; cases hf'
  have e3 := encRead_false_none he h2
  have hsh := (hw.fdtKeys f (getF_mem hf)).2
  have hnpk : (if f.nSym = 0 then 1 else f.nSym) = npkOf s.fdtPkts c.key := by
    have := nPk_of_shape hsh
    rw [getF_key hf] at this
    exact this
  rw [hnpk] at e3
  have hdone : c.key ∈ (mon s).done := h.sessDone c hc e3
  rw [fdtRelease_eq now hw hc]
  have hkey : ∀ g : FileDesc, (transferDoneInfo g now).key = g.key := fun _ => rfl
  have hcont : ∀ g : FileDesc, (transferDoneInfo g now).content = g.content := fun _ => rfl
  have hmon0 : ∀ s' : State, s'.log = Ev.fdtStop now c.key :: s.log → s'.fdtPkts = s.fdtPkts → mon s' = mon s := by
    intro s' h1 h2; show Mon.run _ _ = _; rw [h1, h2]; rfl
  have hmon := hmon0 _ (rfl : ({ s with fdts := updF s.fdts c.key (fun f => transferDoneInfo f now), log := Ev.fdtStop now c.key :: s.log, fdtSess := none } : State).log = _) rfl
  exact
  { pubsFdt := fun k files hk => by
      rw [hmon] at hk
      obtain ⟨f0, hf0⟩ := h.pubsFdt k files hk
      obtain ⟨f', hf', _⟩ := getF_updF_bwd (k0 := c.key) hkey hcont hf0
      exact ⟨f', hf'⟩
    fdtPubs := fun k f' hf' => by
      rw [hmon]
      obtain ⟨f0, hf0, ec⟩ := getF_updF_fwd hkey hcont hf'
      rw [ec]; exact h.fdtPubs k f0 hf0
    progress := fun k f' hf' => by
      rw [hmon]
      obtain ⟨f0, hf0, _⟩ := getF_updF_fwd hkey hcont hf'
      rcases h.progress k f0 hf0 with h1 | h1 | h1
      · exact Or.inl h1
      · exact Or.inr (Or.inl h1)
      · left
        have : k = c.key := by
          have := h1.1; rw [hcur] at this; exact (Option.some.inj this).symm
        rw [this]; exact hdone
    cur := by
      rw [hmon, h.cur, hc]
      simp only []
      rw [if_neg (by omega)]
    sessDone := fun c' hc' => by cases hc'
    listed := fun pc hpc => by
      obtain ⟨k', f0, hf0, hcc⟩ := h.listed pc hpc
      obtain ⟨f', hf', ec⟩ := getF_updF_bwd (k0 := c.key) hkey hcont hf0
      exact ⟨k', f', hf', by rw [ec]; exact hcc⟩
    pubListed := fun hmode g hg hp => by
      obtain ⟨k', f0, hf0, hcc⟩ := h.pubListed hmode g hg hp
      obtain ⟨f', hf', ec⟩ := getF_updF_bwd (k0 := c.key) hkey hcont hf0
      exact ⟨k', f', hf', by rw [ec]; exact hcc⟩
    holds := by
      show Holds _ AnnP (Ev.fdtStop _ _ :: s.log)
      exact ⟨h.holds, trivial⟩
    fits := h.fits }

theorem AnnInv.ofFileStart {s : State} {L : Held} {prio now t : Nat} (tk : Nat) (hw : Wf s L) (h : AnnInv s L)
    (hfn : findNext s prio now s.queue = some t) :
    AnnInv (autoPublish (fileStartStep s t now tk) now)
      ((prio, startCur (autoPublish (fileStartStep s t now tk) now) t) :: L) := by
  obtain ⟨pre, post, hq, _, g, hg, hst⟩ := findNext_spec s prio now s.queue t hfn
  have htq : t ∈ s.queue := by rw [hq]; simp
  obtain ⟨_, _, hpub, _⟩ := shouldTransferNow_true hst
  have hkey : ∀ f : FileDesc, (transferInit f now tk).key = f.key := fun _ => rfl
  -- step 1: the transfer is started (waiting queue, event, transfer_started)
  have h1 : AnnInv (fileStartStep s t now tk) L :=
    h.neutral (e := Ev.start now t _ _) trivial rfl rfl rfl rfl rfl rfl rfl
      (mem_updF_published (fun f => ⟨rfl, rfl⟩)) (fun pc hpc => ⟨pc, hpc, rfl⟩)
  have hw1 := Wf.fileStartStep tk (startCur (autoPublish (fileStartStep s t now tk) now) t) rfl hw hfn
  unfold autoPublish at hw1 ⊢
  cases hmode : (fileStartStep s t now tk).cfg.mode with
  | full =>
    simp only []
    have hmode' : s.cfg.mode = .full := hmode
    obtain ⟨k, f, hf, hc⟩ := h.pubListed hmode' g (getF_mem hg) (hpub hmode')
    rw [getF_key hg] at hc
    exact
    { h1 with
      listed := fun pc hpc => by
        rcases List.mem_cons.mp hpc with rfl | hpc
        · exact ⟨k, f, hf, hc⟩
        · exact h1.listed pc hpc }
  | being =>
    simp only []
    have hfit : (fileStartStep s t now tk).cfg.fdtFits = true := h1.fits hmode
    have hpt : publishTry (fileStartStep s t now tk) now = publish (fileStartStep s t now tk) now := by
      unfold publishTry; rw [if_pos hfit]
    rw [hpt]
    have hnew : getF (fileStartStep s t now tk).fdts (fileStartStep s t now tk).fdts.length = none :=
      hw1.getF_new
    have h2 := h1.ofPublish now hnew
    have hnewd : getF (publish (fileStartStep s t now tk) now).fdts (fileStartStep s t now tk).fdts.length
        = some (pubDesc (fileStartStep s t now tk)) := by
      rw [publish_getF_fdts, hnew]; simp
    exact
    { h2 with
      listed := fun pc hpc => by
        rcases List.mem_cons.mp hpc with rfl | hpc
        · refine ⟨_, _, hnewd, ?_⟩
          show t ∈ (match (fileStartStep s t now tk).cfg.mode with
            | .full => (fileStartStep s t now tk).files
            | .being => (fileStartStep s t now tk).files.filter (isTransferring (fileStartStep s t now tk)))
          rw [hmode]
          simp only [List.mem_filter]
          refine ⟨hw.queueFiles t htq, ?_⟩
          unfold isTransferring
          have : getF (fileStartStep s t now tk).objs t = some (transferInit g now tk) := by
            show getF (updF s.objs t _) t = _
            rw [getF_updF _ _ _ _ hkey, if_pos rfl, hg]; rfl
          rw [this]; rfl
        · exact h2.listed pc hpc }

theorem AnnInv.ofPkt {s : State} {L : Held} {prio : Nat} {c : Cur} (now idx : Nat) (b : Bool) (e : Enc)
    (hw : Wf s ((prio, c) :: L)) (h : AnnInv s ((prio, c) :: L))
    (hq : s.quiet = true) (hfq : s.fdtQueue.isEmpty = true) :
    AnnInv (pktStep s prio c.key now idx b) ((prio, { c with enc := e }) :: L) := by
  have hsess : s.fdtSess = none := hw.quiet hq
  have hqe : s.fdtQueue = [] := by simpa using hfq
  have hdone : ∀ k f, getF s.fdts k = some f → k ∈ (mon s).done := by
    intro k f hf
    rcases h.progress k f hf with h1 | h1 | h1
    · exact h1
    · rw [hqe] at h1; cases h1
    · rw [hsess] at h1; simp at h1
  have hP : AnnP (mon s) c.key := by
    constructor
    · obtain ⟨k, f, hf, hc⟩ := h.listed (prio, c) List.mem_cons_self
      exact ⟨k, f.content, h.fdtPubs k f hf, hc, hdone k f hf⟩
    · constructor
      · intro k files hk
        obtain ⟨f, hf⟩ := h.pubsFdt k files hk
        exact hdone k f hf
      · rw [h.cur, hsess]
  refine h.of_same rfl rfl ⟨h.holds, hP⟩ rfl rfl rfl rfl rfl
    (mem_updF_published (fun f => ⟨rfl, rfl⟩)) ?_
  intro pc' hpc'
  rcases List.mem_cons.mp hpc' with rfl | hpc'
  · exact ⟨(prio, c), List.mem_cons_self, rfl⟩
  · exact ⟨pc', List.mem_cons_of_mem _ hpc', rfl⟩

theorem AnnInv.ofDone {s : State} {L : Held} {prio : Nat} {c : Cur} (now : Nat)
    (h : AnnInv s ((prio, c) :: L)) : AnnInv (transferDoneFile s c.key now) L :=
  h.neutral (e := Ev.stop now c.key) trivial (transferDoneFile_log s c.key now)
    (transferDoneFile_fdtPkts s c.key now) (transferDoneFile_fdts s c.key now)
    (transferDoneFile_fdtQueue s c.key now) (transferDoneFile_curFdt s c.key now)
    (transferDoneFile_fdtSess s c.key now) (transferDoneFile_cfg s c.key now)
    (by rw [transferDoneFile_objs]; exact mem_updF_published (fun f => ⟨rfl, rfl⟩))
    (fun pc hpc => ⟨pc, List.mem_cons_of_mem _ hpc, rfl⟩)

theorem AnnInv.ofEmit {s : State} {L : Held} {e : Ev} (hn : Neutral e) (h : AnnInv s L) : AnnInv (emit s e) L :=
  h.neutral hn rfl rfl rfl rfl rfl rfl rfl (fun g hg hp => ⟨g, hg, rfl, hp⟩) (fun pc hpc => ⟨pc, hpc, rfl⟩)

theorem AnnInv.closed : Closed Wf AnnInv where
  perm := fun _ _ _ p h =>
    h.of_same rfl rfl h.holds rfl rfl rfl rfl rfl (fun g hg hp => ⟨g, hg, rfl, hp⟩)
      (fun pc hpc => ⟨pc, p.mem_iff.mpr hpc, rfl⟩)
  leaveFiles := fun _ _ _ h =>
    h.of_same rfl rfl h.holds rfl rfl rfl rfl rfl (fun g hg hp => ⟨g, hg, rfl, hp⟩) (fun pc hpc => ⟨pc, hpc, rfl⟩)
  enterFiles := fun _ _ _ _ h _ _ =>
    h.of_same rfl rfl h.holds rfl rfl rfl rfl rfl (fun g hg hp => ⟨g, hg, rfl, hp⟩) (fun pc hpc => ⟨pc, hpc, rfl⟩)
  emitRead := fun _ _ _ _ h _ => h.ofEmit trivial
  emitIdle := fun _ _ _ _ h _ => h.ofEmit trivial
  publish := fun _ _ now hw h _ => h.ofPublish now hw.getF_new
  fdtAdvance := fun _ _ now hw h _ hs => h.ofFdtAdvance now hw hs
  fileStart := fun _ _ _ _ tk _ hw h _ hfn => h.ofFileStart tk hw hfn
  pkt := fun _ _ _ _ now _ idx b e hw h hq _ hfq _ _ => h.ofPkt now idx b e hw hq hfq
  done := fun _ _ _ _ now _ _ _ h _ _ _ => h.ofDone now
  fdtPkt := fun _ _ _ _ _ _ _ _ hw h _ hc hf _ he => h.ofFdtPkt hw hc hf he
  fdtDone := fun _ _ _ _ _ _ hw h _ hc hf _ he => h.ofFdtDone hw hc hf he

theorem AnnInv.closedOps : ClosedOps Wf AnnInv where
  add := fun s _ a _ h => by
    unfold addObject
    simp only []
    have hfail : ∀ e : Ev, Neutral e → AnnInv (emit { s with nextToi := s.nextToi + 1 } e) _ := fun e hn =>
      h.neutral hn rfl rfl rfl rfl rfl rfl rfl (fun g hg hp => ⟨g, hg, rfl, hp⟩) (fun pc hpc => ⟨pc, hpc, rfl⟩)
    split
    · exact hfail _ trivial
    · split
      · exact hfail _ trivial
      · refine h.neutral (e := Ev.opAdd s.nextToi a true) trivial rfl rfl rfl rfl rfl rfl rfl ?_
          (fun pc hpc => ⟨pc, hpc, rfl⟩)
        intro g hg hp
        rcases List.mem_append.mp hg with hg | hg
        · exact ⟨g, hg, rfl, hp⟩
        · simp only [List.mem_singleton] at hg; subst hg; cases hp
  remove := fun s _ t _ h => by
    unfold removeObject
    split
    · exact h.ofEmit trivial
    · exact h.neutral (e := Ev.opRemove t true) trivial rfl rfl rfl rfl rfl rfl rfl
        (fun g hg hp => ⟨g, hg, rfl, hp⟩) (fun pc hpc => ⟨pc, hpc, rfl⟩)
  trigger := fun s _ t ts _ h => by
    unfold triggerTransferAt
    split
    · exact h.ofEmit trivial
    · split
      · exact h.ofEmit trivial
      · exact h.neutral (e := Ev.opTrigger t ts true) trivial rfl rfl rfl rfl rfl rfl rfl
          (mem_updF_published (fun f => ⟨rfl, rfl⟩)) (fun pc hpc => ⟨pc, hpc, rfl⟩)
  publishOp := fun s L now hw h =>
    publishTry_elim (P := fun x => AnnInv x L) _ now
      ((h.ofEmit (e := Ev.opPublish now) trivial).ofPublish now (Wf.emit (Ev.opPublish now) hw).getF_new)
      (h.ofEmit trivial)
  complete := fun _ _ _ h =>
    h.of_same rfl rfl h.holds rfl rfl rfl rfl rfl (fun g hg hp => ⟨g, hg, rfl, hp⟩) (fun pc hpc => ⟨pc, hpc, rfl⟩)

theorem AnnInv.init (cfg : Cfg) (tbl : List Nat) (hfit : cfg.mode = .being → cfg.fdtFits = true) :
    AnnInv (Sched.init cfg tbl) [] where
  pubsFdt := fun k files hk => by simp [mon, Sched.init, Mon.run] at hk
  fdtPubs := fun k f hf => by simp [Sched.init, getF] at hf
  progress := fun k f hf => by simp [Sched.init, getF] at hf
  cur := rfl
  sessDone := fun c hc => by simp [Sched.init] at hc
  listed := fun pc hpc => by simp at hpc
  pubListed := fun _ g hg => by simp [Sched.init] at hg
  holds := trivial
  fits := hfit

/-- `Wf ∧ AnnInv` after every operation history -/
theorem ann_run (cfg : Cfg) (tbl : List Nat) (ops : List Op) (hfit : cfg.mode = .being → cfg.fdtFits = true) :
    And2 Wf AnnInv (run (Sched.init cfg tbl) ops) (heldOf (run (Sched.init cfg tbl) ops)) :=
  inv_run (Closed.and Wf.closed AnnInv.closed) (ClosedOps.and Wf.closedOps AnnInv.closedOps) cfg tbl
    ⟨Wf.init cfg tbl, AnnInv.init cfg tbl hfit⟩ ops

end Flute.Sched
