import FluteModel.Lemmas.SchedBenc
import FluteModel.Lemmas.SchedWf
import FluteModel.Lemmas.SchedAnnounce
import FluteModel.Lemmas.SchedShape
/-
  The scheduler side of the composition `Sched` ∘ `BlockEnc`.

  `SlotReplay`: in every state of every operation history, the abstract encoder `Cur.enc` of EVERY busy object slot is
  the result of replaying some sequence of force flags on `Sched.encRead f.nSym` from a fresh abstract encoder
  (`sent = 0`) - i.e. the model never manipulates a `Cur.enc` other than by `startCur` and `encRead` (proved through the
  invariant frame of `Lemmas/SchedFrame.lean`, over the UNCHANGED state type: the replay is existentially quantified,
  so no `BlockEnc.Enc` has to be stored beside the slot).

  `slot_is_run` (the product, object by object): give the object of a slot a byte-level description (`BlockEnc`
  parameters + bytes whose complete transfer has `f.nSym` packets, for both values of `closable`); then the slot's
  abstract encoder is `absEnc` of a GENUINE `BlockEncoder` run (`SchedBenc.replay_realised`) - unless it is the
  never-started attempt of a faulty source - and the interleave window holds in that run's state.
-/
namespace Flute.Sched
open Flute.SchedBenc (absReplay absStep foldl_absStep_none)

/-- the abstract encoder state `enc` is reachable from a fresh one by `encRead N` calls that all returned a packet -/
def Reach (N : Nat) (enc : Enc) : Prop :=
  ∃ fs out st cl, absReplay N fs { sent := 0, stopped := st, closable := cl } = some (out, enc)

/-- objects keep their packet count -/
def NSame (s' s : State) : Prop :=
  ∀ k f', getF s'.objs k = some f' → ∃ f, getF s.objs k = some f ∧ f'.nSym = f.nSym

theorem NSame.refl {s' s : State} (h : s'.objs = s.objs) : NSame s' s := by
  intro k f' hf; rw [h] at hf; exact ⟨f', hf, rfl⟩

theorem NSame.trans {s2 s1 s0 : State} (h2 : NSame s2 s1) (h1 : NSame s1 s0) : NSame s2 s0 := by
  intro k f2 hf2
  obtain ⟨f1, g1, e1⟩ := h2 k f2 hf2
  obtain ⟨f0, g0, e0⟩ := h1 k f1 g1
  exact ⟨f0, g0, by rw [e1, e0]⟩

theorem NSame.map {s' s : State} (g : FileDesc → FileDesc) (hk : ∀ f, (g f).key = f.key)
    (hn : ∀ f, (g f).nSym = f.nSym) (h : s'.objs = s.objs.map g) : NSame s' s := by
  intro k f' hf
  rw [h, getF_map _ _ hk] at hf
  cases hg : getF s.objs k with
  | none => rw [hg] at hf; cases hf
  | some f =>
    rw [hg] at hf
    simp only [Option.map_some, Option.some.injEq] at hf
    exact ⟨f, rfl, by rw [← hf, hn]⟩

theorem NSame.updF {s' s : State} (k0 : Nat) (g : FileDesc → FileDesc) (hk : ∀ f, (g f).key = f.key)
    (hn : ∀ f, (g f).nSym = f.nSym) (h : s'.objs = Sched.updF s.objs k0 g) : NSame s' s := by
  intro k f' hf
  rw [h, getF_updF _ _ _ _ hk] at hf
  cases hg : getF s.objs k with
  | none => rw [hg] at hf; split at hf <;> cases hf
  | some f =>
    rw [hg] at hf
    split at hf
    · simp only [Option.map_some, Option.some.injEq] at hf
      exact ⟨f, rfl, by rw [← hf, hn]⟩
    · simp only [Option.some.injEq] at hf
      exact ⟨f, rfl, by rw [hf]⟩

theorem pubMark_nSym (fs : List Nat) (f : FileDesc) : (pubMark fs f).nSym = f.nSym := by
  unfold pubMark; split <;> rfl

theorem NSame.publish (s : State) (now : Nat) : NSame (Sched.publish s now) s :=
  NSame.map (pubMark s.files) (pubMark_key _) (pubMark_nSym _) (publish_objs s now)

theorem NSame.publishTry (s : State) (now : Nat) : NSame (Sched.publishTry s now) s :=
  publishTry_elim (P := fun x => NSame x s) s now (NSame.publish s now) (NSame.refl rfl)

theorem fdtTryStart_objs (s : State) (now : Nat) : (fdtTryStart s now).1.objs = s.objs := by
  unfold fdtTryStart
  split
  · rfl
  · split
    · rfl
    · split <;> rfl

theorem fdtAdvance_objs (s : State) (now : Nat) : (fdtAdvance s now).objs = s.objs := by
  unfold fdtAdvance
  have h := fdtTryStart_objs (fdtPop s) now
  rw [fdtPop_objs] at h
  split
  · rename_i s' k heq
    rw [heq] at h; exact h
  · rename_i s' heq
    rw [heq] at h; exact h

/-- THE INVARIANT: every busy slot's abstract encoder is a replay of `encRead` over its object's packet count -/
def SlotReplay (s : State) (L : Held) : Prop :=
  ∀ pc ∈ L, ∀ f, getF s.objs pc.2.key = some f → Reach f.nSym pc.2.enc

theorem SlotReplay.mono {s' s : State} {L L' : Held} (hn : NSame s' s) (hL : ∀ pc ∈ L', pc ∈ L)
    (h : SlotReplay s L) : SlotReplay s' L' := by
  intro pc hpc f' hf'
  obtain ⟨f, hf, e⟩ := hn _ f' hf'
  rw [e]; exact h pc (hL pc hpc) f hf

theorem Reach.fresh (N : Nat) (st cl : Bool) : Reach N { sent := 0, stopped := st, closable := cl } :=
  ⟨[], [], st, cl, rfl⟩

theorem Reach.step {N : Nat} {enc e : Enc} {force : Bool} {idx : Nat} {b : Bool} (h : Reach N enc)
    (he : encRead N enc force = (some (idx, b), e)) : Reach N e := by
  obtain ⟨fs, out, st, cl, hr⟩ := h
  refine ⟨fs ++ [force], out ++ [(idx, b)], st, cl, ?_⟩
  unfold absReplay at hr ⊢
  rw [List.foldl_append, hr]
  simp only [List.foldl_cons, List.foldl_nil, absStep, he]

theorem SlotReplay.closed : Closed Wf SlotReplay where
  perm := fun _ _ _ p h => h.mono (NSame.refl rfl) (fun pc hpc => p.mem_iff.mpr hpc)
  leaveFiles := fun _ _ _ h => h.mono (NSame.refl rfl) (fun _ hpc => hpc)
  enterFiles := fun _ _ _ _ h _ _ => h.mono (NSame.refl rfl) (fun _ hpc => hpc)
  emitRead := fun _ _ _ _ h _ => h.mono (NSame.refl rfl) (fun _ hpc => hpc)
  emitIdle := fun _ _ _ _ h _ => h.mono (NSame.refl rfl) (fun _ hpc => hpc)
  publish := fun s _ now _ h _ => h.mono (NSame.publish s now) (fun _ hpc => hpc)
  fdtAdvance := fun s _ now _ h _ _ => h.mono (NSame.refl (fdtAdvance_objs s now)) (fun _ hpc => hpc)
  fileStart := fun s L prio now tk t _ h _ _ => by
    have hn1 : NSame (fileStartStep s t now tk) s :=
      NSame.updF t (fun f => transferInit f now tk) (fun _ => rfl) (fun _ => rfl) rfl
    have hn : NSame (autoPublish (fileStartStep s t now tk) now) s := by
      unfold autoPublish
      split
      · exact (NSame.publishTry _ now).trans hn1
      · exact hn1
    intro pc hpc f' hf'
    rcases List.mem_cons.mp hpc with rfl | hpc
    · exact Reach.fresh _ _ _
    · exact h.mono hn (fun _ h => h) pc hpc f' hf'
  pkt := fun s L prio c now f idx b e _ h _ hf _ _ he => by
    have hn : NSame (pktStep s prio c.key now idx b) s :=
      NSame.updF c.key tickInfo tickInfo_key tickInfo_nSym rfl
    intro pc hpc f' hf'
    rcases List.mem_cons.mp hpc with rfl | hpc
    · obtain ⟨f0, hf0, e0⟩ := hn _ f' hf'
      have : f0 = f := by
        have h1 : getF s.objs c.key = some f0 := hf0
        rw [hf] at h1; exact (Option.some.inj h1).symm
      subst this
      rw [e0]
      exact (h (prio, c) (by simp) f0 hf).step he
    · exact h.mono hn (fun pc hpc => List.mem_cons_of_mem _ hpc) pc hpc f' hf'
  done := fun s L prio c now f e _ h _ _ _ =>
    h.mono (NSame.updF c.key (fun f => transferDoneInfo f now) (fun _ => rfl) (fun _ => rfl)
      (transferDoneFile_objs s c.key now)) (fun pc hpc => List.mem_cons_of_mem _ hpc)
  fdtPkt := fun _ _ _ _ _ _ _ _ _ h _ _ _ _ _ => h.mono (NSame.refl rfl) (fun _ hpc => hpc)
  fdtDone := fun s _ c _ now _ _ h _ _ _ _ _ =>
    h.mono (NSame.refl (by show (transferDoneFdt s c.key now).objs = s.objs; exact transferDoneFdt_objs s c.key now))
      (fun _ hpc => hpc)

theorem SlotReplay.closedOps : ClosedOps Wf SlotReplay where
  add := fun s L a hw h => by
    intro pc hpc f' hf'
    obtain ⟨f, hf, _, _⟩ := hw.heldObj pc hpc
    have : getF (addObject s a).1.objs pc.2.key = some f := by
      unfold addObject
      simp only
      split
      · exact hf
      · split
        · exact hf
        · exact getF_append_some hf
    rw [this] at hf'
    have hff : f = f' := Option.some.inj hf'
    rw [← hff]
    exact h pc hpc f hf
  remove := fun s _ t _ h => h.mono (NSame.refl (by unfold removeObject; split <;> rfl)) (fun _ hpc => hpc)
  trigger := fun s _ t ts _ h => by
    refine h.mono ?_ (fun _ hpc => hpc)
    unfold triggerTransferAt
    split
    · exact NSame.refl rfl
    · split
      · exact NSame.refl rfl
      · exact NSame.updF t (fun f => resetLastTransfer f ts) (fun _ => rfl) (fun _ => rfl) rfl
  publishOp := fun s _ now _ h => h.mono ((NSame.publishTry _ now).trans (NSame.refl rfl)) (fun _ hpc => hpc)
  complete := fun _ _ _ h => h.mono (NSame.refl rfl) (fun _ hpc => hpc)

/-- **after every operation history**: the structural invariant and the slot-replay invariant -/
theorem slot_replay_run (cfg : Cfg) (tbl : List Nat) (ops : List Op) :
    And2 Wf SlotReplay (run (Sched.init cfg tbl) ops) (heldOf (run (Sched.init cfg tbl) ops)) :=
  inv_run (Closed.and Wf.closed SlotReplay.closed) (ClosedOps.and Wf.closedOps SlotReplay.closedOps) cfg tbl
    ⟨Wf.init cfg tbl, fun pc hpc => by cases hpc⟩ ops

end Flute.Sched

namespace Flute.SchedBenc
open Flute Flute.Fec Flute.BlockEnc Flute.BencBlocks Flute.BencInv Flute.BencTrace Flute.BencShape Flute.BencPsi

/-- a byte-level description of a scheduler object whose transfers have `N` packets: `BlockEnc` parameters and bytes
    (non-empty buffer object, codec with source symbols ≤ E) whose complete unforced transfer - created closable or
    not - has `N` packets and ends, when closable, with a packet carrying B (`complete_of_link` / `complete_nocode`
    give `Complete` and `LastB`; `N` is the model's `nSym` input) -/
structure Describes (P : Params) (c : Bytes) (aL aS nL n : Nat) (N : Nat) : Prop where
  symLe : SymLe P.codec
  transfer : ∀ cl : Bool, ∃ s0 trC, Run P c aL aS nL n cl [] s0 ∧ Complete P c cl trC ∧ LastB cl trC ∧ trC.length = N

/-- a fresh abstract encoder that is stopped (attempt of a faulty source that failed to start) never returns a packet -/
theorem replay_stopped (N : Nat) (fs : List Bool) (out : List (Nat × Bool)) (cl : Bool) (enc : Sched.Enc)
    (h : absReplay N fs { sent := 0, stopped := true, closable := cl } = some (out, enc)) :
    enc = { sent := 0, stopped := true, closable := cl } := by
  cases fs with
  | nil =>
    simp only [absReplay, List.foldl_nil, Option.some.injEq, Prod.mk.injEq] at h
    exact h.2.symm
  | cons f fs =>
    exfalso
    unfold absReplay at h
    rw [List.foldl_cons] at h
    have : absStep N (some ([], ({ sent := 0, stopped := true, closable := cl } : Sched.Enc))) f = none := by
      simp [absStep, Sched.encRead]
    rw [this, foldl_absStep_none] at h
    cases h

/-- **THE PRODUCT, slot by slot.**  After ANY operation history of the scheduler model (add / publish / remove /
    trigger / read / set_complete), for EVERY busy object slot `(prio, cur)` and every byte-level description of its
    object (`Describes … f.nSym`): either the slot holds the never-started attempt of a faulty stream source
    (`sent = 0`, stopped: it yields no packet), or its abstract encoder `cur.enc` IS `absEnc e` of a genuine
    `BlockEncoder` run `e` (benc's model, `closable = cur.enc.closable`, as many packets returned as `cur.enc.sent`) -
    and in that state, by `Props.C08.window_bound`, at most `interleave_blocks` blocks are open, in increasing SBN, all
    of them cut already, no packet of a block not yet cut, at most `interleave_blocks` blocks partially sent. -/
theorem slot_is_run (cfg : Sched.Cfg) (tbl : List Nat) (ops : List Sched.Op) {pc : Nat × Sched.Cur}
    (hpc : pc ∈ Sched.heldOf (Sched.run (Sched.init cfg tbl) ops)) {f : Sched.FileDesc}
    (hf : Sched.getF (Sched.run (Sched.init cfg tbl) ops).objs pc.2.key = some f)
    {P : Params} {c : Bytes} {aL aS nL n : Nat} (hd : Describes P c aL aS nL n f.nSym) :
    (pc.2.enc.sent = 0 ∧ pc.2.enc.stopped = true) ∨
    ∃ tr e, Run P c aL aS nL n pc.2.enc.closable tr e ∧ absEnc e = pc.2.enc ∧ tr.length = pc.2.enc.sent ∧
      e.blocks.length ≤ P.window ∧ (e.blocks.map (·.sbn)).Pairwise (· < ·) ∧
      (∀ b, b ∈ e.blocks → b.sbn < e.sbn) ∧
      (∀ k, e.sbn ≤ k → proj (pkts tr) k = []) ∧
      (∀ ks : List Nat, ks.Nodup → (∀ k, k ∈ ks → PartiallySent P c aL aS nL (pkts tr) k) → ks.length ≤ P.window) := by
  obtain ⟨_, hsr⟩ := Sched.slot_replay_run cfg tbl ops
  obtain ⟨fs, out, st, cl, hr⟩ := hsr pc hpc f hf
  cases st with
  | true =>
    left
    have := replay_stopped _ fs out cl _ hr
    rw [this]; exact ⟨rfl, rfl⟩
  | false =>
    right
    obtain ⟨s0, trC, h0, hC, hlast, hN⟩ := hd.transfer cl
    rw [← hN] at hr
    obtain ⟨tr, e, hrun, _, g2, _, _⟩ := replay_realised h0 hd.symLe hC hlast fs out _ hr
    have hcl : pc.2.enc.closable = cl := by
      rw [← g2]; exact hrun.inv.2.2.1
    have hsent : tr.length = pc.2.enc.sent := by
      rw [← g2]; exact (nbPkt_run hrun).symm
    obtain ⟨w1, w2, w3, w4, _, w6⟩ := interleave_window_run hrun
    rw [hcl]
    exact ⟨tr, e, hrun, g2, hsent, w1, w2, w3, w4, w6⟩

end Flute.SchedBenc

/-! ### `closable` only changes the B flag: the packet count of a transfer does not depend on it -/

namespace Flute.SchedBenc
open Flute Flute.Fec Flute.BlockEnc Flute.BencBlocks Flute.BencInv Flute.BencTrace Flute.BencShape Flute.BencPsi

variable {P : Params}

/-- `closable := b` (kept folded) -/
def scl (b : Bool) (s : Enc) : Enc := { s with closable := b }

theorem rbBuffer_closable (s : Enc) (b : Bool) (c : Bytes) :
    readBlockBuffer P { s with closable := b } c = (readBlockBuffer P s c).map (fun s' => { s' with closable := b }) := by
  unfold readBlockBuffer
  simp only [Enc.blockLength]
  split <;> simp_all

theorem rbStream_closable (s : Enc) (b : Bool) (st : BlockEnc.Stream) :
    readBlockStream P { s with closable := b } st = (readBlockStream P s st).map (fun s' => { s' with closable := b }) := by
  unfold readBlockStream
  simp only [Enc.blockLength]
  repeat' split
  all_goals simp_all

theorem rbFaulty_closable (s : Enc) (b : Bool) (st : BlockEnc.Stream) (k : Nat) (once : Bool) :
    readBlockFaulty P { s with closable := b } st k once =
      (readBlockFaulty P s st k once).map (fun s' => { s' with closable := b }) := by
  unfold readBlockFaulty
  simp only [Enc.blockLength]
  repeat' split
  all_goals simp_all

theorem readBlock_closable (s : Enc) (b : Bool) : readBlock P (scl b s) = scl b (readBlock P s) := by
  unfold scl readBlock
  have e1 : ∀ c, readBlockBuffer P { s with closable := b } c = _ := fun c => rbBuffer_closable s b c
  have e2 : ∀ st, readBlockStream P { s with closable := b } st = _ := fun st => rbStream_closable s b st
  have e3 : ∀ st k once, readBlockFaulty P { s with closable := b } st k once = _ := fun st k once => rbFaulty_closable s b st k once
  simp only [e1, e2, e3]
  cases s.src with
  | buffer c => simp only; cases readBlockBuffer P s c <;> rfl
  | stream st => simp only; cases readBlockStream P s st <;> rfl
  | faulty st k once => simp only; cases readBlockFaulty P s st k once <;> rfl

theorem readWindowAux_closable (b : Bool) : ∀ (m : Nat) (s : Enc),
    readWindowAux P m (scl b s) = scl b (readWindowAux P m s) := by
  intro m
  induction m with
  | zero => intro s; rfl
  | succ m ih =>
    intro s
    unfold readWindowAux
    have r1 : (scl b s).readEnd = s.readEnd := rfl
    have r2 : (scl b s).blocks = s.blocks := rfl
    rw [r1, r2]
    by_cases h1 : s.readEnd = true
    · rw [if_pos h1, if_pos h1]
    · rw [if_neg h1, if_neg h1]
      by_cases h2 : s.blocks.length < P.window
      · rw [if_pos h2, if_pos h2, readBlock_closable, ih]
      · rw [if_neg h2, if_neg h2]

/-- packet / `None` / panic / hang -/
def kind : BlockEnc.Out → Nat
  | .pkt _ => 0
  | .none => 1
  | .panic => 2
  | .hang => 3

theorem readLoop_closable (b f : Bool) : ∀ (F : Nat) (s : Enc),
    kind (readLoop P f F (scl b s)).1 = kind (readLoop P f F s).1 ∧
    (readLoop P f F (scl b s)).2 = scl b (readLoop P f F s).2 := by
  intro F
  induction F with
  | zero => intro s; exact ⟨rfl, rfl⟩
  | succ F ih =>
    intro s
    unfold readLoop
    have hw : readWindow P (scl b s) = scl b (readWindow P s) := by
      unfold readWindow; exact readWindowAux_closable b _ _
    simp only [hw]
    generalize readWindow P s = w
    have r1 : (scl b w).blocks = w.blocks := rfl
    have r2 : (scl b w).nbPkt = w.nbPkt := rfl
    have r3 : (scl b w).idx = w.idx := rfl
    rw [r1, r2, r3]
    by_cases h1 : w.blocks.isEmpty = true
    · rw [if_pos h1, if_pos h1]
      by_cases h2 : w.nbPkt = 0
      · rw [if_pos h2, if_pos h2]
        by_cases h3 : P.len ≠ 0
        · rw [if_pos h3, if_pos h3]; exact ⟨rfl, rfl⟩
        · rw [if_neg h3, if_neg h3]; exact ⟨rfl, rfl⟩
      · rw [if_neg h2, if_neg h2]; exact ⟨rfl, rfl⟩
    · rw [if_neg h1, if_neg h1]
      generalize (if w.idx ≥ w.blocks.length then 0 else w.idx) = idx
      cases hg : w.blocks[idx]? with
      | none => exact ⟨rfl, rfl⟩
      | some blk =>
        simp only
        cases hb : blk.read with
        | mk o blk' =>
          cases o with
          | none => simp only; exact ih { w with idx := idx, blocks := w.blocks.eraseIdx idx }
          | some t =>
            obtain ⟨sh, isSrc, isLast⟩ := t
            exact ⟨rfl, rfl⟩

theorem read_closable (b f : Bool) (s : Enc) :
    kind (BlockEnc.read P (scl b s) f).1 = kind (BlockEnc.read P s f).1 ∧
    (BlockEnc.read P (scl b s) f).2 = scl b (BlockEnc.read P s f).2 := by
  unfold BlockEnc.read
  have r1 : (scl b s).stopped = s.stopped := rfl
  rw [r1]
  by_cases hs : s.stopped = true
  · rw [if_pos hs, if_pos hs]; exact ⟨rfl, rfl⟩
  · rw [if_neg hs, if_neg hs]
    cases f with
    | true => exact readLoop_closable b true _ { s with stopped := true }
    | false => exact readLoop_closable b false _ s

theorem reads_closable (b : Bool) {s0 e : Enc} {tr : List (Bool × Pkt)} (hr : Reads P s0 tr e) :
    ∃ tr', Reads P (scl b s0) tr' (scl b e) ∧ tr'.map (·.1) = tr.map (·.1) := by
  induction hr with
  | nil => exact ⟨[], Reads.nil _, rfl⟩
  | @snoc s s' tr f p hr hstep ih =>
    obtain ⟨tr', g1, g2⟩ := ih
    obtain ⟨k1, k2⟩ := read_closable (P := P) b f s
    rw [hstep] at k1 k2
    generalize hres : BlockEnc.read P (scl b s) f = res at k1 k2
    obtain ⟨o, e'⟩ := res
    simp only at k1 k2
    cases o with
    | pkt p' =>
      subst k2
      exact ⟨tr' ++ [(f, p')], Reads.snoc g1 hres, by simp [g2]⟩
    | none => cases k1
    | panic => cases k1
    | hang => cases k1

theorem new_closable (b : Bool) {c : Bytes} {cl : Bool} {s0 : Enc} (h : Enc.new P (.buffer c) cl = .ok s0) :
    Enc.new P (.buffer c) b = .ok (scl b s0) := by
  unfold Enc.new at h ⊢
  cases hq : Partition.blockPartitioning P.b P.len P.e with
  | error w => rw [hq] at h; cases h
  | ok t =>
    obtain ⟨aL, aS, nL, nB⟩ := t
    rw [hq] at h
    simp only [Except.ok.injEq] at h ⊢
    rw [← h]; rfl

/-- the complete transfer created with the other `closable` has the same number of packets -/
theorem complete_closable (b : Bool) {c : Bytes} {cl : Bool} {trC : List (Bool × Pkt)} (hC : Complete P c cl trC) :
    ∃ trC', Complete P c b trC' ∧ trC'.length = trC.length := by
  obtain ⟨s0, sC, hnew, hr, hend⟩ := hC.run
  obtain ⟨tr', g1, g2⟩ := reads_closable b hr
  refine ⟨tr', ⟨⟨scl b s0, scl b sC, new_closable b hnew, g1, ?_⟩, ?_⟩, ?_⟩
  · have := (read_closable (P := P) b false sC).1
    generalize BlockEnc.read P (scl b sC) false = r1 at this ⊢
    generalize BlockEnc.read P sC false = r2 at this hend
    obtain ⟨o1, _⟩ := r1
    obtain ⟨o2, _⟩ := r2
    simp only at this hend ⊢
    subst hend
    cases o1 <;> first | rfl | cases this
  · intro x hx
    have : x.1 ∈ tr'.map (·.1) := List.mem_map_of_mem hx
    rw [g2] at this
    obtain ⟨y, hy, e⟩ := List.mem_map.mp this
    rw [← e]; exact hC.unforced y hy
  · have := congrArg List.length g2
    simpa using this

/-- two complete transfers of the same encoder have the same length (unforced reads are deterministic) -/
theorem complete_unique_length {c : Bytes} {cl : Bool} {t1 t2 : List (Bool × Pkt)}
    (h1 : Complete P c cl t1) (h2 : Complete P c cl t2) : t1.length = t2.length := by
  obtain ⟨s1, e1, n1, r1, d1⟩ := h1.run
  obtain ⟨s2, e2, n2, r2, d2⟩ := h2.run
  have : s2 = s1 := by rw [n1] at n2; cases n2; rfl
  subst this
  obtain ⟨x, hx, _⟩ := reads_prefix r1 h1.unforced d1 r2 h2.unforced
  obtain ⟨y, hy, _⟩ := reads_prefix r2 h2.unforced d2 r1 h1.unforced
  have a := congrArg List.length hx
  have b := congrArg List.length hy
  simp only [List.length_append] at a b
  omega

/-- **every FEC No-Code object is described**: from a fresh encoder of a non-empty buffer object (either `closable`)
    there is ONE packet count `N ≥ 1` with `Describes … N` - the hypothesis of `slot_is_run` /
    `Props.C13.interleave_window_composed` for an object with `nSym = N` -/
theorem describes_nocode {c : Bytes} {aL aS nL n : Nat} {cl0 : Bool} {s0 : Enc}
    (h0 : Run P c aL aS nL n cl0 [] s0) (hc : P.codec = noCode) : ∃ N, 1 ≤ N ∧ Describes P c aL aS nL n N := by
  obtain ⟨trC, hC, _⟩ := complete_nocode h0 hc
  refine ⟨trC.length, List.length_pos_iff.mpr (complete_ne_nil h0 hC), ⟨by rw [hc]; exact noCode_symLe, fun cl => ?_⟩⟩
  obtain ⟨s0', hnew, _⟩ := h0.reads
  have hrun : Run P c aL aS nL n cl [] (scl cl s0') :=
    { notLegacy := h0.notLegacy, e_pos := h0.e_pos, b_pos := h0.b_pos, len_eq := h0.len_eq, l_pos := h0.l_pos,
      window_pos := h0.window_pos, part := h0.part, accepts := h0.accepts,
      reads := ⟨scl cl s0', new_closable cl hnew, Reads.nil _⟩ }
  obtain ⟨t2, hC2, hl2⟩ := complete_nocode hrun hc
  obtain ⟨t3, hC3, hlen3⟩ := complete_closable cl hC
  refine ⟨scl cl s0', t2, hrun, hC2, hl2, ?_⟩
  rw [complete_unique_length hC2 hC3, hlen3]

end Flute.SchedBenc
