import FluteModel.Lemmas.RecvRun
/-
  C17 helper lemmas: the registries of the session-level receiver are bounded by configuration.
-/
namespace Flute.Recv
variable {σ : Type}

/-! ### `objects_error` never exceeds `max_objects_error` after a call -/

def ErrInv (s : State σ) : Prop := s.errors.length ≤ s.cfg.maxObjectsError

theorem sinsert_length (x : Nat) (l : List Nat) : (sinsert x l).length ≤ l.length + 1 := by
  induction l with
  | nil => simp [sinsert]
  | cons y r ih =>
    unfold sinsert
    split
    · simp
    · split
      · simp
      · simp only [List.length_cons]; omega

theorem removeObject_errors (I : ObjIface σ) (s : State σ) (t : Nat) :
    (removeObject I s t).1.errors = s.errors ∧ (removeObject I s t).1.cfg = s.cfg := by
  unfold removeObject
  split <;> simp

theorem gcObjectError_bound (I : ObjIface σ) (fuel : Nat) (s : State σ)
    (h : s.errors.length ≤ fuel + s.cfg.maxObjectsError) :
    (gcObjectError I fuel s).1.errors.length ≤ s.cfg.maxObjectsError ∧
    (gcObjectError I fuel s).1.cfg = s.cfg := by
  induction fuel generalizing s with
  | zero => simp only [gcObjectError]; exact ⟨by omega, trivial⟩
  | succ n ih =>
    unfold gcObjectError
    split
    · split
      · rename_i hnil; rw [hnil] at h ⊢; simp
      · rename_i toi rest hcons
        have h1 := removeObject_errors I { s with errors := rest } toi
        simp only [] at h1
        have hlen : (removeObject I { s with errors := rest } toi).1.errors.length ≤
            n + (removeObject I { s with errors := rest } toi).1.cfg.maxObjectsError := by
          rw [h1.1, h1.2]; rw [hcons] at h; simp only [List.length_cons] at h; omega
        have h2 := ih _ hlen
        rw [h1.2] at h2
        exact h2
    · rename_i hle
      exact ⟨by simp only []; omega, rfl⟩

theorem checkObjectState_err (I : ObjIface σ) (s : State σ) (t : Nat) (h : ErrInv s) :
    ErrInv (checkObjectState I s t).1 := by
  unfold ErrInv at h ⊢
  unfold checkObjectState
  split
  · exact h
  · split
    · exact h
    · rename_i o _ _ _
      have : ∀ X : State σ, X.errors = s.errors → X.cfg = s.cfg →
          (removeObject I X t).1.errors.length ≤ (removeObject I X t).1.cfg.maxObjectsError := by
        intro X h1 h2
        have h3 := removeObject_errors I X t
        rw [h3.1, h3.2, h1, h2]; exact h
      apply this <;> (split <;> rfl)
    all_goals
      have h2 := gcObjectError_bound I (sinsert t s.errors).length { s with errors := sinsert t s.errors }
        (by simp only []; omega)
      have h3 := removeObject_errors I (gcObjectError I (sinsert t s.errors).length { s with errors := sinsert t s.errors }).1 t
      simp only [] at h2 h3 ⊢
      rw [h3.1, h3.2, h2.2]
      exact h2.1

theorem checkObjectStates_err (I : ObjIface σ) (s : State σ) (l : List Nat) (h : ErrInv s) :
    ErrInv (checkObjectStates I s l).1 := by
  induction l generalizing s with
  | nil => exact h
  | cons t ts ih =>
    simp only [checkObjectStates]
    exact ih _ (checkObjectState_err I s t h)

theorem attachLatest_err (I : ObjIface σ) (s : State σ) (h : ErrInv s) : ErrInv (attachLatest I s).1 := by
  unfold attachLatest
  split
  · exact h
  · split
    · exact h
    · simp only []
      exact checkObjectStates_err I _ _ h

theorem gcObjectCompleted_errors (s : State σ) :
    (gcObjectCompleted s).errors = s.errors ∧ (gcObjectCompleted s).cfg = s.cfg := by
  unfold gcObjectCompleted
  split
  · simp
  · split
    · simp
    · split <;> simp

theorem updateCompletedCc_errors (s : State σ) :
    (updateCompletedCc s).1.errors = s.errors ∧ (updateCompletedCc s).1.cfg = s.cfg := by
  unfold updateCompletedCc
  split
  · simp
  · split
    · simp
    · split <;> simp

theorem createObj_errors (I : ObjIface σ) (s s' : State σ) (toi : Nat) (now : Int) (evs : List Ev)
    (h : createObj I s toi now = .ok (s', evs)) : s'.errors = s.errors ∧ s'.cfg = s.cfg := by
  unfold createObj at h
  split at h
  · cases h
  · simp only [Except.ok.injEq, Prod.mk.injEq] at h
    obtain ⟨rfl, _⟩ := h
    exact ⟨rfl, rfl⟩

theorem pushObjCore_err (I : ObjIface σ) (s s' : State σ) (p : Pkt) (now : Int) (r : Res) (evs : List Ev)
    (h : pushObjCore I s p now = .ok (s', r, evs)) (hinv : ErrInv s) : ErrInv s' := by
  unfold pushObjCore at h
  simp only [] at h
  split at h
  · cases h
  · rename_i s1 e0 hc
    have hs1 : ErrInv s1 := by
      split at hc
      · have := createObj_errors I _ _ _ _ _ hc
        unfold ErrInv at hinv ⊢; rw [this.1, this.2]; exact hinv
      · simp only [Except.ok.injEq, Prod.mk.injEq] at hc
        obtain ⟨rfl, _⟩ := hc; exact hinv
    split at h
    · simp only [Except.ok.injEq, Prod.mk.injEq] at h
      obtain ⟨rfl, _, _⟩ := h; exact hs1
    · rename_i o ho
      simp only [Except.ok.injEq, Prod.mk.injEq] at h
      obtain ⟨rfl, _, _⟩ := h
      exact checkObjectState_err I _ _ hs1

theorem gateCompleted_errors {s s1 : State σ} {p : Pkt} (h : gateCompleted s p = .inl s1) :
    s1.errors = s.errors ∧ s1.cfg = s.cfg := by
  unfold gateCompleted at h
  split at h
  · split at h
    · cases h
    · split at h
      · cases h
      · split at h
        · injection h with h; subst h; simp
        · cases h
  · injection h with h; subst h; simp

theorem gateError_err {s s1 : State σ} {p : Pkt} (h : gateError s p = .inl s1) (hinv : ErrInv s) :
    ErrInv s1 := by
  unfold gateError at h
  split at h
  · split at h
    · cases h
    · split at h
      · injection h with h; subst h
        unfold ErrInv at hinv ⊢
        simp only []
        exact Nat.le_trans (List.length_filter_le _ _) hinv
      · cases h
  · injection h with h; subst h; exact hinv

theorem pushObj_err (I : ObjIface σ) (s s' : State σ) (p : Pkt) (now : Int) (r : Res) (evs : List Ev)
    (h : pushObj I s p now = .ok (s', r, evs)) (hinv : ErrInv s) : ErrInv s' := by
  unfold pushObj at h
  split at h
  · simp only [Except.ok.injEq, Prod.mk.injEq] at h
    obtain ⟨rfl, _, _⟩ := h; exact hinv
  · rename_i s1 hg1
    have h1 : ErrInv s1 := by
      have := gateCompleted_errors hg1
      unfold ErrInv at hinv ⊢; rw [this.1, this.2]; exact hinv
    split at h
    · simp only [Except.ok.injEq, Prod.mk.injEq] at h
      obtain ⟨rfl, _, _⟩ := h; exact h1
    · rename_i s2 hg2
      exact pushObjCore_err I s2 s' p now r evs h (gateError_err hg2 h1)

theorem fdtCompleted_err (I : ObjIface σ) (s s' : State σ) (id : Nat) (r : Res) (evs : List Ev)
    (h : fdtCompleted I s id = .ok (s', r, evs)) (hinv : ErrInv s) : ErrInv s' := by
  unfold fdtCompleted at h
  split at h
  · cases h
  · split at h
    · simp only [Except.ok.injEq, Prod.mk.injEq] at h
      obtain ⟨rfl, _, _⟩ := h; exact hinv
    · rename_i f hf
      simp only [] at h
      split at h
      · cases h
      · simp only [Except.ok.injEq, Prod.mk.injEq] at h
        obtain ⟨rfl, _, _⟩ := h
        generalize hs0 : ({ s with fdtReceivers := aerase id s.fdtReceivers, fdtCurrent := f :: s.fdtCurrent } : State σ) = s0
        have h0 : ErrInv s0 := by subst hs0; exact hinv
        have h1 := attachLatest_err I s0 h0
        have h2 := gcObjectCompleted_errors (attachLatest I s0).1
        have h3 := updateCompletedCc_errors (gcObjectCompleted (attachLatest I s0).1)
        have h4 : ErrInv (updateCompletedCc (gcObjectCompleted (attachLatest I s0).1)).1 := by
          unfold ErrInv at h1 ⊢; rw [h3.1, h3.2, h2.1, h2.2]; exact h1
        split
        · exact h4
        · exact h4

theorem fdtDispatch_err (I : ObjIface σ) (s s' : State σ) (id : Nat) (f : FdtRecv σ) (now : Int)
    (r : Res) (evs : List Ev) (h : fdtDispatch I s id f now = .ok (s', r, evs)) (hinv : ErrInv s) :
    ErrInv s' := by
  unfold fdtDispatch at h
  split at h
  · simp only [Except.ok.injEq, Prod.mk.injEq] at h
    obtain ⟨rfl, _, _⟩ := h; exact hinv
  · simp only [Except.ok.injEq, Prod.mk.injEq] at h
    obtain ⟨rfl, _, _⟩ := h; exact hinv
  · split at h
    · cases h
    · split at h
      · cases h
      · split at h
        · cases h
        · simp only [Except.ok.injEq, Prod.mk.injEq] at h
          obtain ⟨rfl, _, _⟩ := h; exact hinv
  · exact fdtCompleted_err I s s' id r evs h hinv

theorem fdtEntry_errors (I : ObjIface σ) (s : State σ) (id : Nat) (p : Pkt) :
    (fdtEntry I s id p).1.errors = s.errors ∧ (fdtEntry I s id p).1.cfg = s.cfg := by
  unfold fdtEntry
  split <;> simp

theorem pushFdtObjP_err (I : ObjIface σ) (s s' : State σ) (p : Pkt) (now : Int) (ans : FdtAns)
    (r : Res) (evs : List Ev) (h : pushFdtObj' I s p now ans = .ok (s', r, evs)) (hinv : ErrInv s) :
    ErrInv s' := by
  unfold pushFdtObj' at h
  split at h
  · split at h
    · simp only [Except.ok.injEq, Prod.mk.injEq] at h
      obtain ⟨rfl, _, _⟩ := h; exact hinv
    · split at h <;>
      · simp only [Except.ok.injEq, Prod.mk.injEq] at h
        obtain ⟨rfl, _, _⟩ := h; exact hinv
  · rename_i id _
    have he := fdtEntry_errors I s id p
    have hinv1 : ErrInv (fdtEntry I s id p).1 := by
      unfold ErrInv at hinv ⊢; rw [he.1, he.2]; exact hinv
    split at h
    · simp only [Except.ok.injEq, Prod.mk.injEq] at h
      obtain ⟨rfl, _, _⟩ := h; exact hinv
    · simp only [] at h
      split at h
      · simp only [Except.ok.injEq, Prod.mk.injEq] at h
        obtain ⟨rfl, _, _⟩ := h; exact hinv1
      · split at h
        · cases h
        · exact fdtDispatch_err I _ s' id _ now r evs h hinv1

theorem pushFdtObj_err (I : ObjIface σ) (s s' : State σ) (p : Pkt) (now : Int) (ans : FdtAns)
    (r : Res) (evs : List Ev) (h : pushFdtObj I s p now ans = .ok (s', r, evs)) (hinv : ErrInv s) :
    ErrInv s' := by
  refine pushFdtObjP_err I (dropConflict s p) s' p now ans r evs h ?_
  have hf := dropConflict_frame s p
  unfold ErrInv at hinv ⊢; rw [hf.2.2.1, hf.2.2.2.2.1]; exact hinv

theorem removeObjects_err (I : ObjIface σ) (s : State σ) (l : List Nat) (h : ErrInv s) :
    ErrInv (removeObjects I s l).1 := by
  induction l generalizing s with
  | nil => exact h
  | cons t ts ih =>
    simp only [removeObjects]
    apply ih
    have h1 := removeObject_errors I { s with errors := s.errors.filter (· ≠ t) } t
    unfold ErrInv at h ⊢
    rw [h1.1, h1.2]
    simp only []
    exact Nat.le_trans (List.length_filter_le _ _) h

theorem cleanup_err (I : ObjIface σ) (s s' : State σ) (now : Int) (stale : Stale) (evs : List Ev)
    (h : cleanup I s now stale = .ok (s', evs)) (hinv : ErrInv s) : ErrInv s' := by
  unfold cleanup at h
  simp only [] at h
  split at h
  · cases h
  · rename_i s2 hc
    simp only [Except.ok.injEq, Prod.mk.injEq] at h
    obtain ⟨rfl, _⟩ := h
    have h1 : ErrInv (cleanupObjects I s stale.obj).1 := by
      unfold cleanupObjects
      split
      · exact hinv
      · exact removeObjects_err I s _ hinv
    unfold cleanupFdt at hc
    split at hc
    · cases hc
    · injection hc with hc; subst hc; exact h1

/-- one call preserves `|objects_error| ≤ max_objects_error` -/
theorem step_err (I : ObjIface σ) (s s' : State σ) (op : Op) (r : Res) (evs : List Ev)
    (h : step I s op = .ok (s', r, evs)) (hinv : ErrInv s) : ErrInv s' := by
  cases op with
  | data d now ans =>
    simp only [step, pushData] at h
    split at h
    · simp only [Except.ok.injEq, Prod.mk.injEq] at h
      obtain ⟨rfl, _, _⟩ := h; exact hinv
    · simp only [Except.ok.injEq, Prod.mk.injEq] at h
      obtain ⟨rfl, _, _⟩ := h; exact hinv
    · rename_i p
      unfold push at h
      simp only [] at h
      have hinv' : ErrInv (if p.closeSession then { s with closedImminent := true } else s) := by
        split <;> exact hinv
      split at h
      · exact pushFdtObj_err I _ s' p now ans r evs h hinv'
      · exact pushObj_err I _ s' p now r evs h hinv'
  | cleanup now stale =>
    simp only [step] at h
    split at h
    · cases h
    · rename_i s1 ev hc
      simp only [Except.ok.injEq, Prod.mk.injEq] at h
      obtain ⟨rfl, _, _⟩ := h
      exact cleanup_err I s _ now stale _ hc hinv


/-! ### `fdt_current` holds at most 10 instances after a call -/

def CurInv (s : State σ) : Prop := s.fdtCurrent.length ≤ 10

theorem createScan_length (I : ObjIface σ) (toi : Nat) (now : Int) :
    ∀ (l : List (FdtRecv σ)) (o o' : σ) (l' : List (FdtRecv σ)) (evs : List Ev),
      createScan I toi now o l = .ok (o', l', evs) → l'.length = l.length := by
  intro l
  induction l with
  | nil =>
    intro o o' l' evs h
    simp [createScan] at h
    obtain ⟨_, rfl, _⟩ := h; rfl
  | cons g r ih =>
    intro o o' l' evs h
    unfold createScan at h
    split at h
    · cases h
    · simp only [] at h
      split at h
      · simp only [Except.ok.injEq, Prod.mk.injEq] at h
        obtain ⟨_, rfl, _⟩ := h; simp
      · split at h
        · cases h
        · rename_i o2 r2 ev2 hrec
          simp only [Except.ok.injEq, Prod.mk.injEq] at h
          obtain ⟨_, rfl, _⟩ := h
          simp only [List.length_cons]; rw [ih _ _ _ _ hrec]
      · split at h
        · cases h
        · rename_i o2 r2 ev2 hrec
          simp only [Except.ok.injEq, Prod.mk.injEq] at h
          obtain ⟨_, rfl, _⟩ := h
          simp only [List.length_cons]; rw [ih _ _ _ _ hrec]

theorem pushObjCore_cur (I : ObjIface σ) (s s' : State σ) (p : Pkt) (now : Int) (r : Res) (evs : List Ev)
    (h : pushObjCore I s p now = .ok (s', r, evs)) : s'.fdtCurrent.length = s.fdtCurrent.length := by
  unfold pushObjCore at h
  simp only [] at h
  split at h
  · cases h
  · rename_i s1 e0 hc
    have hs1 : s1.fdtCurrent.length = s.fdtCurrent.length := by
      split at hc
      · unfold createObj at hc
        split at hc
        · cases hc
        · rename_i o cur ev hscan
          simp only [Except.ok.injEq, Prod.mk.injEq] at hc
          obtain ⟨rfl, _⟩ := hc
          exact createScan_length I _ _ _ _ _ _ _ hscan
      · simp only [Except.ok.injEq, Prod.mk.injEq] at hc
        obtain ⟨rfl, _⟩ := hc; rfl
    split at h
    · simp only [Except.ok.injEq, Prod.mk.injEq] at h
      obtain ⟨rfl, _, _⟩ := h; exact hs1
    · rename_i o ho
      simp only [Except.ok.injEq, Prod.mk.injEq] at h
      obtain ⟨rfl, _, _⟩ := h
      have hfr := checkObjectState_fdt I { s1 with objects := ainsert p.toi (I.push o p).1 s1.objects } p.toi
      simp only [] at hfr
      rw [hfr.1]; exact hs1

theorem pushObj_cur (I : ObjIface σ) (s s' : State σ) (p : Pkt) (now : Int) (r : Res) (evs : List Ev)
    (h : pushObj I s p now = .ok (s', r, evs)) : s'.fdtCurrent.length = s.fdtCurrent.length := by
  unfold pushObj at h
  split at h
  · simp only [Except.ok.injEq, Prod.mk.injEq] at h
    obtain ⟨rfl, _, _⟩ := h; rfl
  · rename_i s1 hg1
    split at h
    · simp only [Except.ok.injEq, Prod.mk.injEq] at h
      obtain ⟨rfl, _, _⟩ := h; rw [(gateCompleted_fdt hg1).1]
    · rename_i s2 hg2
      rw [pushObjCore_cur I s2 s' p now r evs h, (gateError_fdt hg2).1, (gateCompleted_fdt hg1).1]

theorem length_dropLast' {α} (l : List α) : l.dropLast.length = l.length - 1 := by
  induction l with
  | nil => rfl
  | cons a r ih =>
    cases r with
    | nil => rfl
    | cons b t => simp only [List.dropLast_cons_cons, List.length_cons] at ih ⊢; omega

theorem fdtCompleted_cur (I : ObjIface σ) (s s' : State σ) (id : Nat) (r : Res) (evs : List Ev)
    (h : fdtCompleted I s id = .ok (s', r, evs)) (hinv : CurInv s) : CurInv s' := by
  unfold fdtCompleted at h
  split at h
  · cases h
  · split at h
    · simp only [Except.ok.injEq, Prod.mk.injEq] at h
      obtain ⟨rfl, _, _⟩ := h; exact hinv
    · rename_i f hf
      simp only [] at h
      split at h
      · cases h
      · simp only [Except.ok.injEq, Prod.mk.injEq] at h
        obtain ⟨rfl, _, _⟩ := h
        generalize hs0 : ({ s with fdtReceivers := aerase id s.fdtReceivers, fdtCurrent := f :: s.fdtCurrent } : State σ) = s0
        have hcur0 : s0.fdtCurrent = f :: s.fdtCurrent := by subst hs0; rfl
        have h1 := attachLatest_fdt I s0
        have h2 := gcObjectCompleted_fdt (attachLatest I s0).1
        have h3 := updateCompletedCc_fdt (gcObjectCompleted (attachLatest I s0).1)
        have hcur3 : (updateCompletedCc (gcObjectCompleted (attachLatest I s0).1)).1.fdtCurrent = f :: s.fdtCurrent := by
          rw [h3.1, h2.1, h1.1, hcur0]
        unfold CurInv at hinv ⊢
        split
        · simp only []
          rw [length_dropLast', hcur3]
          simp only [List.length_cons]; omega
        · rename_i hlen
          rw [hcur3] at hlen ⊢
          simp only [List.length_cons] at hlen ⊢; omega

theorem fdtDispatch_cur (I : ObjIface σ) (s s' : State σ) (id : Nat) (f : FdtRecv σ) (now : Int)
    (r : Res) (evs : List Ev) (h : fdtDispatch I s id f now = .ok (s', r, evs)) (hinv : CurInv s) :
    CurInv s' := by
  unfold fdtDispatch at h
  split at h
  · simp only [Except.ok.injEq, Prod.mk.injEq] at h
    obtain ⟨rfl, _, _⟩ := h; exact hinv
  · simp only [Except.ok.injEq, Prod.mk.injEq] at h
    obtain ⟨rfl, _, _⟩ := h; exact hinv
  · split at h
    · cases h
    · split at h
      · cases h
      · split at h
        · cases h
        · simp only [Except.ok.injEq, Prod.mk.injEq] at h
          obtain ⟨rfl, _, _⟩ := h; exact hinv
  · exact fdtCompleted_cur I s s' id r evs h hinv

theorem fdtEntry_cur (I : ObjIface σ) (s : State σ) (id : Nat) (p : Pkt) :
    (fdtEntry I s id p).1.fdtCurrent = s.fdtCurrent := by
  unfold fdtEntry
  split <;> rfl

theorem pushFdtObjP_cur (I : ObjIface σ) (s s' : State σ) (p : Pkt) (now : Int) (ans : FdtAns)
    (r : Res) (evs : List Ev) (h : pushFdtObj' I s p now ans = .ok (s', r, evs)) (hinv : CurInv s) :
    CurInv s' := by
  unfold pushFdtObj' at h
  split at h
  · split at h
    · simp only [Except.ok.injEq, Prod.mk.injEq] at h
      obtain ⟨rfl, _, _⟩ := h; exact hinv
    · split at h <;>
      · simp only [Except.ok.injEq, Prod.mk.injEq] at h
        obtain ⟨rfl, _, _⟩ := h; exact hinv
  · rename_i id _
    have hinv1 : CurInv (fdtEntry I s id p).1 := by
      unfold CurInv at hinv ⊢; rw [fdtEntry_cur]; exact hinv
    split at h
    · simp only [Except.ok.injEq, Prod.mk.injEq] at h
      obtain ⟨rfl, _, _⟩ := h; exact hinv
    · simp only [] at h
      split at h
      · simp only [Except.ok.injEq, Prod.mk.injEq] at h
        obtain ⟨rfl, _, _⟩ := h; exact hinv1
      · split at h
        · cases h
        · exact fdtDispatch_cur I _ s' id _ now r evs h hinv1

theorem pushFdtObj_cur (I : ObjIface σ) (s s' : State σ) (p : Pkt) (now : Int) (ans : FdtAns)
    (r : Res) (evs : List Ev) (h : pushFdtObj I s p now ans = .ok (s', r, evs)) (hinv : CurInv s) :
    CurInv s' := by
  refine pushFdtObjP_cur I (dropConflict s p) s' p now ans r evs h ?_
  have hf := dropConflict_frame s p
  unfold CurInv at hinv ⊢; rw [hf.2.2.2.1]; exact hinv

/-- one call preserves `|fdt_current| ≤ 10` -/
theorem step_cur (I : ObjIface σ) (s s' : State σ) (op : Op) (r : Res) (evs : List Ev)
    (h : step I s op = .ok (s', r, evs)) (hinv : CurInv s) : CurInv s' := by
  cases op with
  | data d now ans =>
    simp only [step, pushData] at h
    split at h
    · simp only [Except.ok.injEq, Prod.mk.injEq] at h
      obtain ⟨rfl, _, _⟩ := h; exact hinv
    · simp only [Except.ok.injEq, Prod.mk.injEq] at h
      obtain ⟨rfl, _, _⟩ := h; exact hinv
    · rename_i p
      unfold push at h
      simp only [] at h
      have hinv' : CurInv (if p.closeSession then { s with closedImminent := true } else s) := by
        split <;> exact hinv
      split at h
      · exact pushFdtObj_cur I _ s' p now ans r evs h hinv'
      · unfold CurInv at hinv' ⊢
        rw [pushObj_cur I _ s' p now r evs h]; exact hinv'
  | cleanup now stale =>
    simp only [step] at h
    split at h
    · cases h
    · rename_i s1 ev hc
      simp only [Except.ok.injEq, Prod.mk.injEq] at h
      obtain ⟨rfl, _, _⟩ := h
      unfold cleanup at hc
      simp only [] at hc
      split at hc
      · cases hc
      · rename_i s2 hc2
        simp only [Except.ok.injEq, Prod.mk.injEq] at hc
        obtain ⟨rfl, _⟩ := hc
        unfold cleanupFdt at hc2
        split at hc2
        · cases hc2
        · injection hc2 with hc2; subst hc2
          unfold CurInv at hinv ⊢
          simp only []
          rw [(cleanupObjects_fdt I s stale.obj).1]; exact hinv


/-! ### `objects_completed` ⊆ TOIs of the latest FDT after each FDT completion -/

theorem updateCcLoop_keys (e : Option Int) (fs : List FileAbs) (c : List (Nat × CacheControl)) :
    ∀ kc ∈ (updateCcLoop e fs c).1, ∃ v, (kc.1, v) ∈ c := by
  induction fs generalizing c with
  | nil => intro kc h; simp only [updateCcLoop] at h; exact ⟨kc.2, h⟩
  | cons x xs ih =>
    intro kc h
    unfold updateCcLoop at h
    simp only [] at h
    split at h
    · rename_i old hold
      split at h
      · simp only [] at h
        obtain ⟨v, hv⟩ := ih _ kc h
        rcases mem_ainsert hv with hv | hv
        · injection hv with h1 _
          exact ⟨old, by rw [h1]; exact alookup_mem hold⟩
        · exact ⟨v, hv⟩
      · exact ih _ kc h
    · exact ih _ kc h

theorem fdtCompleted_completed (I : ObjIface σ) (s s' : State σ) (id : Nat) (r : Res) (evs : List Ev)
    (f : FdtRecv σ) (inst : FdtAbs) (files : List FileAbs)
    (hf : alookup id s.fdtReceivers = some f) (hi : f.inst = some inst) (hfl : inst.files = some files)
    (h : fdtCompleted I s id = .ok (s', r, evs)) :
    ∀ kc ∈ s'.completed, kc.1 ∈ files.map FileAbs.toiParsed := by
  unfold fdtCompleted at h
  split at h
  · cases h
  · rw [hf] at h
    simp only [] at h
    split at h
    · cases h
    · simp only [Except.ok.injEq, Prod.mk.injEq] at h
      obtain ⟨rfl, _, _⟩ := h
      generalize hs0 : ({ s with fdtReceivers := aerase id s.fdtReceivers, fdtCurrent := f :: s.fdtCurrent } : State σ) = s0
      have hcur0 : s0.fdtCurrent = f :: s.fdtCurrent := by subst hs0; rfl
      have h1 := attachLatest_fdt I s0
      generalize hs1 : (attachLatest I s0).1 = s1 at h1 ⊢
      have hcur1 : s1.fdtCurrent = f :: s.fdtCurrent := by rw [h1.1, hcur0]
      -- gc: only listed TOIs survive
      have hgc : ∀ kc ∈ (gcObjectCompleted s1).completed, kc.1 ∈ files.map FileAbs.toiParsed := by
        intro kc hkc
        simp only [gcObjectCompleted, hcur1, hi, hfl] at hkc
        have := (List.mem_filter.mp hkc).2
        simpa using this
      have hcur2 : (gcObjectCompleted s1).fdtCurrent = f :: s.fdtCurrent := by
        rw [(gcObjectCompleted_fdt s1).1, hcur1]
      have hupd : ∀ kc ∈ (updateCompletedCc (gcObjectCompleted s1)).1.completed,
          kc.1 ∈ files.map FileAbs.toiParsed := by
        intro kc hkc
        simp only [updateCompletedCc, hcur2, hi, hfl] at hkc
        obtain ⟨v, hv⟩ := updateCcLoop_keys _ _ _ kc hkc
        exact hgc (kc.1, v) hv
      intro kc hkc
      split at hkc
      · exact hupd kc hkc
      · exact hupd kc hkc

/-! ### cleanup releases what has timed out -/

theorem mem_aerase_ne {α} {k : Nat} {l : List (Nat × α)} {x : Nat × α} (h : x ∈ aerase k l) : x.1 ≠ k := by
  induction l with
  | nil => simp [aerase] at h
  | cons a r ih =>
    obtain ⟨k', v'⟩ := a
    by_cases hk : k' = k
    · simp [aerase, hk] at h; exact ih h
    · simp [aerase, hk] at h
      rcases h with h | h
      · rw [h]; exact hk
      · exact ih h

theorem removeObject_objects (I : ObjIface σ) (s : State σ) (t : Nat) :
    ∀ x ∈ (removeObject I s t).1.objects, x ∈ s.objects ∧ x.1 ≠ t := by
  intro x hx
  unfold removeObject at hx
  split at hx
  · rename_i hnone
    refine ⟨hx, fun h => ?_⟩
    -- the key is not in the list at all
    have : ∀ (l : List (Nat × σ)), alookup t l = none → x ∈ l → x.1 ≠ t := by
      intro l
      induction l with
      | nil => intro _ hm; simp at hm
      | cons a r ih =>
        obtain ⟨k', v'⟩ := a
        intro hn hm
        by_cases hk : k' = t
        · simp [alookup, hk] at hn
        · simp [alookup, hk] at hn
          rcases List.mem_cons.mp hm with hm | hm
          · rw [hm]; exact hk
          · exact ih hn hm
    exact this _ hnone hx h
  · exact ⟨mem_aerase hx, mem_aerase_ne hx⟩

theorem removeObjects_objects (I : ObjIface σ) (s : State σ) (l : List Nat) :
    ∀ x ∈ (removeObjects I s l).1.objects, x ∈ s.objects ∧ x.1 ∉ l := by
  induction l generalizing s with
  | nil => intro x hx; exact ⟨hx, by simp⟩
  | cons t ts ih =>
    intro x hx
    simp only [removeObjects] at hx
    obtain ⟨h1, h2⟩ := ih _ x hx
    obtain ⟨h3, h4⟩ := removeObject_objects I { s with errors := s.errors.filter (· ≠ t) } t x h1
    exact ⟨h3, by simp only [List.mem_cons, not_or]; exact ⟨h4, h2⟩⟩

/-- after `cleanup` with an object time-out configured no stalled object is left -/
theorem cleanup_objects_released (I : ObjIface σ) (s s' : State σ) (now : Int) (stale : Stale)
    (evs : List Ev) (h : cleanup I s now stale = .ok (s', evs)) (ht : s.cfg.objectTimeout = true) :
    ∀ x ∈ s'.objects, stale.obj x.1 = false := by
  unfold cleanup at h
  simp only [] at h
  split at h
  · cases h
  · rename_i s2 hc
    simp only [Except.ok.injEq, Prod.mk.injEq] at h
    obtain ⟨rfl, _⟩ := h
    unfold cleanupFdt at hc
    split at hc
    · cases hc
    · injection hc with hc; subst hc
      intro x hx
      simp only [] at hx
      unfold cleanupObjects at hx
      simp only [ht, not_true_eq_false, ↓reduceIte] at hx
      obtain ⟨h1, h2⟩ := removeObjects_objects I s _ x hx
      cases hst : stale.obj x.1 with
      | false => rfl
      | true =>
        exfalso
        apply h2
        simp only [List.mem_filter, akeys, List.mem_map]
        exact ⟨⟨x, h1, rfl⟩, hst⟩

/-- after `cleanup` only `Complete` instances and `Receiving` instances that have not timed out are
    left in `fdt_receivers` -/
theorem cleanup_fdt_released (I : ObjIface σ) (s s' : State σ) (now : Int) (stale : Stale)
    (evs : List Ev) (h : cleanup I s now stale = .ok (s', evs)) :
    ∀ kf ∈ s'.fdtReceivers, kf.2.st = .complete ∨
      (kf.2.st = .receiving ∧ ¬ (s.cfg.objectTimeout = true ∧ kf.2.obj.isSome = true ∧ stale.fdt kf.1 = true)) := by
  unfold cleanup at h
  simp only [] at h
  split at h
  · cases h
  · rename_i s2 hc
    simp only [Except.ok.injEq, Prod.mk.injEq] at h
    obtain ⟨rfl, _⟩ := h
    unfold cleanupFdt at hc
    split at hc
    · cases hc
    · injection hc with hc; subst hc
      intro kf hkf
      simp only [] at hkf
      have := (List.mem_filter.mp hkf).2
      rw [(cleanupObjects_fdt I s stale.obj).2.2] at this
      exact of_decide_eq_true this

/-! ### D16: the `cleanup_fdt` of the unrepaired tree -/

/-- `cleanup_fdt` before the repair (commit 6bdd56c): every `Receiving` instance is kept -/
def cleanupFdtUnrepaired (s : State σ) (now : Int) : Rs (State σ) :=
  match updateExpiredAll now s.fdtReceivers with
  | .error w => .error w
  | .ok l => .ok { s with fdtReceivers := l.filter (fun kf => kf.2.st = .complete ∨ kf.2.st = .receiving) }

theorem updateExpiredAll_receiving (now : Int) :
    ∀ (l l' : List (Nat × FdtRecv σ)), updateExpiredAll now l = .ok l' →
      ∀ kf ∈ l, kf.2.st = .receiving → kf ∈ l' := by
  intro l
  induction l with
  | nil => intro l' _ kf hkf; simp at hkf
  | cons a r ih =>
    intro l' h kf hkf hst
    obtain ⟨k, f⟩ := a
    unfold updateExpiredAll at h
    split at h
    · cases h
    · rename_i f' hf'
      split at h
      · cases h
      · rename_i r' hr'
        injection h with h; subst h
        rcases List.mem_cons.mp hkf with hkf | hkf
        · subst hkf
          simp only [] at hst
          have : f.updateExpired now = .ok f := by
            unfold FdtRecv.updateExpired
            rw [if_pos (by rw [hst]; simp)]
          rw [this] at hf'
          injection hf' with hf'; subst hf'
          simp
        · exact List.mem_cons_of_mem _ (ih r' hr' kf hkf hst)

end Flute.Recv
