import FluteModel.ObjSess
import FluteModel.Lemmas.ObjRecvExact
import FluteModel.Lemmas.ObjRecvAttach
/-
  Session level of C03: the invariants of one ObjectReceiver (`Inv`, `JInv`, `GInv`) hold for EVERY object the session shell
  (`ObjSess`: completed / error gates, re-download on (SBN 0, ESI 0), create + attach to the first FDT listing the TOI, FDT completion,
  check_object_state + Drop, time-out sweep, Drop of the receiver) ever creates, and every chunk of writer calls the session reports
  belongs to such an object.
-/
namespace Flute.ObjSess
open Flute Flute.FecDec Flute.ObjRecv

structure GoodSt (PP : SParams) (cont : Nat → GSess) (toi base : Nat) (st : St) : Prop where
  toiEq : st.toi = toi
  inv : Inv st
  jinv : JInv (PP.forObj toi base) st
  ginv : GInv (cont toi) st

abbrev GoodObj (PP : SParams) (cont : Nat → GSess) (o : Obj) : Prop := GoodSt PP cont o.toi o.base o.st

/-- a reported chunk whose object trace contains `complete` carries exactly the content of its TOI -/
def LogOK (cont : Nat → GSess) (c : Chunk) : Prop :=
  ¬ noComplete c.all.reverse → writtenOf c.all.reverse = (cont c.toi).T

/-- every File entry of the instance describes the content of its TOI -/
def FdtOK (cont : Nat → GSess) (f : Fdt) : Prop := ∀ te ∈ f.files, GenFile (cont te.1) te.2

structure SInv (PP : SParams) (cont : Nat → GSess) (S : Sess) : Prop where
  objs : ∀ o ∈ S.objects, GoodObj PP cont o
  fdts : ∀ f ∈ S.fdts, FdtOK cont f
  log : ∀ c ∈ S.log, LogOK cont c

variable {PP : SParams} {cont : Nat → GSess}

theorem GoodSt.exact {toi base : Nat} {st : St} (h : GoodSt PP cont toi base st) (hc : ¬ noComplete st.out) :
    st.written = (cont toi).T := by
  cases hw : st.writer with
  | none => exact absurd (h.jinv.none_ hw).2 hc
  | some ws =>
    cases ws with
    | idle => exact absurd hw h.inv.noIdle
    | opened => exact absurd (h.jinv.opened hw).nc hc
    | error => exact absurd (h.jinv.error hw) hc
    | closed => exact h.ginv.closed hw

theorem goodSt_new (toi base m : Nat) : GoodSt PP cont toi base (St.new toi m) :=
  ⟨rfl, inv_new toi m, jinv_new _ toi m, ginv_new _ toi m⟩

theorem goodSt_drop {toi base : Nat} {st : St} (h : GoodSt PP cont toi base st) : GoodSt PP cont toi base (drop st) :=
  ⟨(drop_grows st).1.trans h.toiEq, (inv_drop st h.inv).1, jinv_drop st h.inv h.jinv, ginv_drop st h.inv h.ginv⟩

theorem goodSt_push (L : ∀ t, (cont t).Laws PP.codec) {toi base : Nat} {st st' : St} (p : Pkt)
    (h : GoodSt PP cont toi base st) (hp : GenPkt (cont toi) p) (hr : push (PP.forObj toi base) st p = .ok st') :
    GoodSt PP cont toi base st' :=
  ⟨(push_grows _ _ _ hr).1.trans h.toiEq, inv_push _ _ _ h.inv hr, jinv_push _ _ _ h.inv h.jinv hr,
   ginv_push _ _ (L toi) _ _ h.inv h.jinv h.ginv hp hr⟩

theorem goodSt_attach (L : ∀ t, (cont t).Laws PP.codec) {toi base : Nat} {st st' : St} {b : Bool} (f : Fdt)
    (h : GoodSt PP cont toi base st) (hf : FdtOK cont f)
    (hr : attachFdt (PP.forObj toi base) st f.id ((f.files.find? (·.1 == toi)).map (·.2)) = .ok (st', b)) :
    GoodSt PP cont toi base st' := by
  have hop : GenOp (cont toi) (.attach f.id ((f.files.find? (·.1 == toi)).map (·.2))) := by
    cases hfind : f.files.find? (·.1 == toi) with
    | none => simp [GenOp]
    | some te =>
      have hm := List.mem_of_find?_eq_some hfind
      have he := List.find?_some hfind
      have : te.1 = toi := by simpa using he
      simp only [Option.map, GenOp]
      rw [← this]; exact hf te hm
  exact ⟨(attach_grows _ _ _ _ hr).1.trans h.toiEq, inv_attachFdt _ _ _ _ h.inv hr, jinv_attachFdt _ _ _ _ h.inv h.jinv hr,
         ginv_attachFdt _ _ (L toi) _ _ _ h.inv h.jinv h.ginv hop hr⟩

theorem goodSt_attachFirst (L : ∀ t, (cont t).Laws PP.codec) {toi base : Nat} (fdts : List Fdt) (hf : ∀ f ∈ fdts, FdtOK cont f) :
    ∀ {st st' : St}, GoodSt PP cont toi base st → attachFirst (PP.forObj toi base) fdts st = .ok st' →
      GoodSt PP cont toi base st' := by
  induction fdts with
  | nil => intro st st' h hr; simp [attachFirst] at hr; rw [← hr]; exact h
  | cons f r ih =>
    intro st st' h hr
    unfold attachFirst at hr
    rw [h.toiEq] at hr
    split at hr
    · cases hr
    · rename_i heq; simp at hr; rw [← hr]
      exact goodSt_attach L f h (hf f (List.mem_cons_self ..)) heq
    · rename_i heq
      exact ih (fun g hg => hf g (List.mem_cons_of_mem _ hg)) (goodSt_attach L f h (hf f (List.mem_cons_self ..)) heq) hr

/-! ### the session shell -/

theorem sinv_flush {S : Sess} {o : Obj} (hS : SInv PP cont S) (ho : GoodObj PP cont o) :
    SInv PP cont (S.flush o).1 ∧ GoodObj PP cont (S.flush o).2 ∧ (S.flush o).2.toi = o.toi := by
  unfold Sess.flush
  dsimp only
  split
  · exact ⟨hS, ho, rfl⟩
  · refine ⟨⟨hS.objs, hS.fdts, ?_⟩, ho, rfl⟩
    intro c hc
    simp only [List.mem_cons] at hc
    cases hc with
    | inr h => exact hS.log c h
    | inl h =>
      subst h
      intro hnc
      simp only [List.reverse_reverse] at hnc ⊢
      exact ho.exact hnc

theorem sinv_putObj {S : Sess} {o : Obj} (hS : SInv PP cont S) (ho : GoodObj PP cont o) : SInv PP cont (S.putObj o) := by
  refine ⟨?_, hS.fdts, hS.log⟩
  intro x hx
  simp only [Sess.putObj, List.mem_cons, List.mem_filter] at hx
  cases hx with
  | inl h => subst h; exact ho
  | inr h => exact hS.objs x h.1

theorem sinv_removeObj {S : Sess} (toi : Nat) (hS : SInv PP cont S) : SInv PP cont (S.removeObj toi) := by
  unfold Sess.removeObj
  split
  · exact hS
  · rename_i o hfind
    have hm : o ∈ S.objects := List.mem_of_find?_eq_some hfind
    have ho : GoodObj PP cont { o with st := drop o.st } := goodSt_drop (hS.objs o hm)
    have hfl := (sinv_flush hS ho).1
    dsimp only
    refine ⟨?_, hfl.fdts, hfl.log⟩
    intro x hx
    simp only [List.mem_filter] at hx
    exact hfl.objs x hx.1

theorem sinv_checkObjectState {S : Sess} (toi : Nat) (hS : SInv PP cont S) : SInv PP cont (S.checkObjectState toi) := by
  unfold Sess.checkObjectState
  split
  · exact hS
  · split
    · exact hS
    · dsimp only
      apply sinv_removeObj
      split
      · exact hS
      · exact ⟨hS.objs, hS.fdts, hS.log⟩
    · dsimp only
      apply sinv_removeObj
      exact ⟨hS.objs, hS.fdts, hS.log⟩

theorem good_mkObj (L : ∀ t, (cont t).Laws PP.codec) {S : Sess} (toi : Nat) {o : Obj} (hS : SInv PP cont S)
    (h : S.mkObj PP toi = .ok o) : GoodObj PP cont o ∧ o.toi = toi := by
  unfold Sess.mkObj at h
  split at h
  · rename_i o' hfind
    simp at h; subst h
    have he := List.find?_some hfind
    exact ⟨hS.objs _ (List.mem_of_find?_eq_some hfind), by simpa using he⟩
  · dsimp only at h
    split at h
    · cases h
    · rename_i st heq
      simp at h; subst h
      exact ⟨goodSt_attachFirst L S.fdts hS.fdts (goodSt_new toi _ _) heq, rfl⟩

theorem sinv_pushCore (L : ∀ t, (cont t).Laws PP.codec) {S S' : Sess} (p : Pkt) (hp : GenPkt (cont p.toi) p)
    (hS : SInv PP cont S) (h : S.pushCore PP p = .ok S') : SInv PP cont S' := by
  unfold Sess.pushCore at h
  split at h
  · cases h
  · rename_i o hmk
    obtain ⟨ho, htoi⟩ := good_mkObj L p.toi hS hmk
    split at h
    · cases h
    · rename_i st hpush
      simp at h; subst h
      have ho' : GoodObj PP cont { o with st := st } := goodSt_push L p ho (by rw [htoi]; exact hp) hpush
      obtain ⟨h1, h2, _⟩ := sinv_flush hS ho'
      exact sinv_checkObjectState _ (sinv_putObj h1 h2)

theorem sinv_gate {p : Pkt} {b : Bool} {S S' : Sess} {rm : Sess → Sess} {k : Sess → Rx Sess}
    (hrm : ∀ S, SInv PP cont S → SInv PP cont (rm S))
    (hk : ∀ S S', SInv PP cont S → k S = .ok S' → SInv PP cont S')
    (hS : SInv PP cont S) (h : gate p b S rm k = .ok S') : SInv PP cont S' := by
  unfold gate at h
  split at h
  · exact hk _ _ hS h
  · split at h
    · simp at h; subst h; exact hS
    · split at h
      · exact hk _ _ (hrm _ hS) h
      · simp at h; subst h; exact hS

theorem sinv_pushObj (L : ∀ t, (cont t).Laws PP.codec) {S S' : Sess} (p : Pkt) (hp : GenPkt (cont p.toi) p)
    (hS : SInv PP cont S) (h : S.pushObj PP p = .ok S') : SInv PP cont S' := by
  unfold Sess.pushObj at h
  split at h
  · simp at h; subst h; exact hS
  · refine sinv_gate ?_ ?_ hS h
    · exact fun S hS => ⟨hS.objs, hS.fdts, hS.log⟩
    intro S1 S2 hS1 h1
    refine sinv_gate ?_ ?_ hS1 h1
    · exact fun S hS => ⟨hS.objs, hS.fdts, hS.log⟩
    intro S3 S4 hS3 h3
    exact sinv_pushCore L p hp hS3 h3

theorem sinv_go (L : ∀ t, (cont t).Laws PP.codec) (f : Fdt) (hf : FdtOK cont f) :
    ∀ (objs : List Obj) {S S' : Sess}, (∀ o ∈ objs, GoodObj PP cont o) → SInv PP cont S →
      Sess.fdtComplete.go PP f objs S = .ok S' → SInv PP cont S' := by
  intro objs
  induction objs with
  | nil => intro S S' _ hS h; simp [Sess.fdtComplete.go] at h; subst h; exact hS
  | cons o r ih =>
    intro S S' ho hS h
    unfold Sess.fdtComplete.go at h
    split at h
    · cases h
    · rename_i st ok heq
      have hgo : GoodObj PP cont { o with st := st } := goodSt_attach L f (ho o (List.mem_cons_self ..)) hf heq
      obtain ⟨h1, h2, _⟩ := sinv_flush hS hgo
      have h3 := sinv_putObj h1 h2
      dsimp only at h
      apply ih (fun x hx => ho x (List.mem_cons_of_mem _ hx)) _ h
      split
      · exact sinv_checkObjectState _ h3
      · exact h3

theorem sinv_fdtComplete (L : ∀ t, (cont t).Laws PP.codec) {S S' : Sess} (f : Fdt) (hf : FdtOK cont f)
    (hS : SInv PP cont S) (h : S.fdtComplete PP f = .ok S') : SInv PP cont S' := by
  unfold Sess.fdtComplete at h
  dsimp only at h
  split at h
  · cases h
  · rename_i S1 hgo
    have hS0 : SInv PP cont { S with fdts := f :: S.fdts } := by
      refine ⟨hS.objs, ?_, hS.log⟩
      intro g hg
      simp only [List.mem_cons] at hg
      cases hg with
      | inl e => subst e; exact hf
      | inr e => exact hS.fdts g e
    have h1 := sinv_go L f hf S.objects hS.objs hS0 hgo
    simp at h; subst h
    refine ⟨?_, ?_, ?_⟩
    · intro o ho; split at ho <;> exact h1.objs o ho
    · intro g hg
      have : g ∈ S1.fdts := by
        split at hg
        · exact List.mem_of_mem_take hg
        · exact List.mem_of_mem_take hg
      exact h1.fdts g this
    · intro c hc; split at hc <;> exact h1.log c hc

theorem sinv_foldl (g : Sess → Obj → Sess) (hg : ∀ S o, SInv PP cont S → SInv PP cont (g S o)) :
    ∀ (l : List Obj) (S : Sess), SInv PP cont S → SInv PP cont (l.foldl g S) := by
  intro l
  induction l with
  | nil => intro S h; exact h
  | cons o r ih => intro S h; exact ih _ (hg _ _ h)

theorem sinv_dropAll {S : Sess} (hS : SInv PP cont S) : SInv PP cont S.dropAll :=
  sinv_foldl _ (fun _ o h => sinv_removeObj o.toi h) _ _ hS

theorem sinv_cleanupAll {S : Sess} (hS : SInv PP cont S) : SInv PP cont S.cleanupAll := by
  unfold Sess.cleanupAll
  apply sinv_foldl _ _ _ _ hS
  intro S o h
  exact sinv_removeObj o.toi ⟨h.objs, h.fdts, h.log⟩

/-- a session op is genuine: data packets carry symbols / EXT_FTI of the content of their TOI, FDT entries describe the content of
    their TOI -/
def SGenOp (cont : Nat → GSess) : SOp → Prop
  | .pkt p => GenPkt (cont p.toi) p
  | .fdt f => FdtOK cont f
  | .cleanup => True
  | .dropAll => True

theorem sinv_run (L : ∀ t, (cont t).Laws PP.codec) (ops : List SOp) :
    ∀ {S S' : Sess}, (∀ op ∈ ops, SGenOp cont op) → SInv PP cont S → Sess.run PP S ops = .ok S' → SInv PP cont S' := by
  induction ops with
  | nil => intro S S' _ hS h; simp [Sess.run] at h; subst h; exact hS
  | cons op r ih =>
    intro S S' hops hS h
    unfold Sess.run at h
    split at h
    · cases h
    · rename_i S1 hstep
      apply ih (fun x hx => hops x (List.mem_cons_of_mem _ hx)) _ h
      have hop := hops op (List.mem_cons_self ..)
      cases op with
      | pkt p => exact sinv_pushObj L p hop hS (by simpa [Sess.step] using hstep)
      | fdt f => exact sinv_fdtComplete L f hop hS (by simpa [Sess.step] using hstep)
      | cleanup => simp [Sess.step] at hstep; subst hstep; exact sinv_cleanupAll hS
      | dropAll => simp [Sess.step] at hstep; subst hstep; exact sinv_dropAll hS

end Flute.ObjSess
