import FluteModel.Lemmas.SessionCycle
import FluteModel.Lemmas.SessionBuild
/-
  The carousel shape of the model's own merged stream: whatever the schedule, the packets a carousel
  source contributes to `buildStream srcs sched` are its transfer listing over and over
  (`tr ++ tr ++ … ++ prefix of tr`), hence the packets between two consecutive (0,0) packets of the source
  are exactly one listing - the hypothesis `SegsOK` of the C16 theorem `late_join_within_two_cycles`.
-/
namespace Flute.Lemmas.Session
open Flute.Session

def rep (n : Nat) (tr : List Sym) : List Sym := (List.replicate n tr).flatten

theorem rep_succ (n : Nat) (tr : List Sym) : rep (n + 1) tr = tr ++ rep n tr := by
  simp [rep, List.replicate_succ]

/-- what a carousel source whose current transfer still has `rest` to emit contributes: a prefix of
    `rest`, or `rest`, whole listings, and a prefix of the listing -/
def CarSeq (tr rest L : List Sym) : Prop :=
  (∃ l2, rest = L ++ l2) ∨ (∃ n pre post, L = rest ++ rep n tr ++ pre ∧ pre ++ post = tr)

theorem toSym_mkPkt (k : Slot) (sy : Sym) : toSym (mkPkt k sy) = sy := by
  cases k <;> rfl

theorem pull_slot (y y' : Src) (sy : Sym) (h : y.pull = some (sy, y')) : y'.slot = y.slot := by
  unfold Src.pull at h
  split at h
  · simp only [Option.some.injEq, Prod.mk.injEq] at h; rw [← h.2]
  · split at h
    · simp only [Option.some.injEq, Prod.mk.injEq] at h; rw [← h.2]
    · simp at h

/-- one pull of a carousel source -/
theorem pull_carousel_seq (x x' : Src) (q : Sym) (hc : x.carousel = true) (h : x.pull = some (q, x')) :
    x'.carousel = true ∧ x'.tr = x.tr ∧
    ((x.rest = q :: x'.rest) ∨ (x.rest = [] ∧ x.tr = q :: x'.rest)) := by
  unfold Src.pull at h
  cases hrest : x.rest with
  | cons a r =>
    simp only [hrest, Option.some.injEq, Prod.mk.injEq] at h
    obtain ⟨rfl, rfl⟩ := h
    exact ⟨hc, rfl, Or.inl rfl⟩
  | nil =>
    simp only [hrest] at h
    unfold Src.listing at h
    simp only [hc, ↓reduceIte] at h
    cases htr : x.tr with
    | nil => simp [htr] at h
    | cons a r =>
      simp only [htr, Option.some.injEq, Prod.mk.injEq] at h
      obtain ⟨rfl, rfl⟩ := h
      exact ⟨rfl, rfl, Or.inr ⟨rfl, rfl⟩⟩

/-- **the scheduler only interleaves, carousel sources**: in the merged stream the packets of a carousel
    source are its listing repeated - whatever the schedule -/
theorem buildStream_carousel (k : Slot) (sel : Pkt → Bool) (hsel : ∀ sy, sel (mkPkt k sy) = true) (tr : List Sym) :
    ∀ (sched : List Slot) (srcs : List Src) (stream : List Pkt) (x : Src),
    (∀ k', k' ∈ sched → k' ≠ k → ∀ sy, sel (mkPkt k' sy) = false) →
    buildStream srcs sched = some stream → findSrc srcs k = some x → x.carousel = true → x.tr = tr →
    CarSeq tr x.rest ((stream.filter sel).map toSym) := by
  intro sched
  induction sched with
  | nil =>
    intro srcs stream x _ h _ _ _
    simp only [buildStream, Option.some.injEq] at h
    subst h
    exact Or.inl ⟨x.rest, by simp⟩
  | cons k' rest ih =>
    intro srcs stream x hoth h hx hc htr
    unfold buildStream at h
    cases hp : pullFrom srcs k' with
    | none => simp [hp] at h
    | some r =>
      obtain ⟨sy, srcs'⟩ := r
      simp only [hp] at h
      cases hb : buildStream srcs' rest with
      | none => simp [hb] at h
      | some ps =>
        simp only [hb, Option.map_some, Option.some.injEq] at h
        subst h
        obtain ⟨y, y', hy1, hy2, hy3⟩ := pullFrom_spec srcs srcs' k' sy hp
        have hoth' : ∀ k'', k'' ∈ rest → k'' ≠ k → ∀ sy, sel (mkPkt k'' sy) = false :=
          fun k'' hk'' => hoth k'' (List.mem_cons_of_mem _ hk'')
        have hsl := pull_slot y y' sy hy2
        obtain ⟨z1, z2⟩ := hy3 hsl
        by_cases hk : k' = k
        · subst hk
          rw [hx] at hy1; cases hy1
          obtain ⟨c1, c2, c3⟩ := pull_carousel_seq x y' sy hc hy2
          have hih := ih srcs' ps y' hoth' hb z1 c1 (by rw [c2]; exact htr)
          have e : ((mkPkt k' sy :: ps).filter sel).map toSym = sy :: (ps.filter sel).map toSym := by
            rw [List.filter_cons, hsel]; simp [toSym_mkPkt]
          rw [e]
          rcases c3 with c3 | ⟨c3, c4⟩
          · rw [c3]
            rcases hih with ⟨l2, hl2⟩ | ⟨n, pre, post, hL, hpp⟩
            · exact Or.inl ⟨l2, by rw [hl2]; rfl⟩
            · exact Or.inr ⟨n, pre, post, by rw [hL]; simp, hpp⟩
          · rw [c3]
            rw [htr] at c4
            rcases hih with ⟨l2, hl2⟩ | ⟨n, pre, post, hL, hpp⟩
            · refine Or.inr ⟨0, sy :: (ps.filter sel).map toSym, l2, by simp [rep], ?_⟩
              rw [c4, hl2]; rfl
            · refine Or.inr ⟨n + 1, pre, post, ?_, hpp⟩
              rw [hL, rep_succ, c4]; simp
        · have hx2 : findSrc srcs' k = some x := by rw [z2 _ (fun h => hk h.symm)]; exact hx
          have hih := ih srcs' ps x hoth' hb hx2 hc htr
          have e : ((mkPkt k' sy :: ps).filter sel).map toSym = (ps.filter sel).map toSym := by
            rw [List.filter_cons, hoth k' (List.mem_cons_self ..) hk sy]; simp
          rw [e]; exact hih

/-! ### between two consecutive starts lies one listing -/

def isStartS (q : Sym) : Bool := q.sbn == 0 && q.esi == 0

theorem isStart_toSym (p : Pkt) : p.isStart = isStartS (toSym p) := rfl

/-- a listing: begins with a (0,0) packet and holds no other -/
def OneStart (tr : List Sym) : Prop :=
  ∃ s0 tail, tr = s0 :: tail ∧ isStartS s0 = true ∧ ∀ q, q ∈ tail → isStartS q = false

theorem seg_in_prefix (tr : List Sym) (h1 : OneStart tr) (pre post : List Sym) (hp : pre ++ post = tr)
    (A : List Sym) (x0 : Sym) (M : List Sym) (x1 : Sym) (R : List Sym)
    (hL : pre = A ++ x0 :: (M ++ x1 :: R)) (h0 : isStartS x0 = true) (hx1 : isStartS x1 = true) : False := by
  obtain ⟨s0, tail, htr, hs0, htail⟩ := h1
  rw [hL, htr] at hp
  cases A with
  | nil =>
    simp only [List.nil_append, List.cons_append, List.cons.injEq] at hp
    have : x1 ∈ tail := by rw [← hp.2]; simp
    have := htail x1 this
    rw [hx1] at this; exact absurd this (by simp)
  | cons a A' =>
    simp only [List.cons_append, List.cons.injEq] at hp
    have : x0 ∈ tail := by rw [← hp.2]; simp
    have := htail x0 this
    rw [h0] at this; exact absurd this (by simp)

/-- the head of `rep n tr ++ pre` (a prefix `pre` of `tr`), if any, is a start -/
theorem head_start (tr : List Sym) (h1 : OneStart tr) (n : Nat) (pre post : List Sym) (hp : pre ++ post = tr)
    (a : Sym) (l : List Sym) (h : rep n tr ++ pre = a :: l) : isStartS a = true := by
  obtain ⟨s0, tail, htr, hs0, _⟩ := h1
  cases n with
  | zero =>
    simp only [rep, List.replicate_zero, List.flatten_nil, List.nil_append] at h
    rw [h, htr] at hp
    simp only [List.cons_append, List.cons.injEq] at hp
    rw [hp.1]; exact hs0
  | succ n =>
    rw [rep_succ, htr] at h
    simp only [List.cons_append, List.cons.injEq] at h
    rw [← h.1]; exact hs0

theorem seg_is_listing (tr : List Sym) (h1 : OneStart tr) : ∀ (n : Nat) (pre post : List Sym), pre ++ post = tr →
    ∀ (A : List Sym) (x0 : Sym) (M : List Sym) (x1 : Sym) (R : List Sym),
    rep n tr ++ pre = A ++ x0 :: (M ++ x1 :: R) → isStartS x0 = true → isStartS x1 = true →
    (∀ q, q ∈ M → isStartS q = false) → x0 :: M = tr := by
  intro n
  induction n with
  | zero =>
    intro pre post hp A x0 M x1 R hL h0 hx1 _
    simp only [rep, List.replicate_zero, List.flatten_nil, List.nil_append] at hL
    exact absurd (seg_in_prefix tr h1 pre post hp A x0 M x1 R hL h0 hx1) (by simp)
  | succ n ih =>
    intro pre post hp A x0 M x1 R hL h0 hx1 hM
    obtain ⟨s0, tail, htr, hs0, htail⟩ := h1
    rw [rep_succ, List.append_assoc] at hL
    -- `tr ++ L' = A ++ x0 :: …`
    generalize hL' : rep n tr ++ pre = L' at hL
    have hhead : ∀ a l, L' = a :: l → isStartS a = true := by
      intro a l hal
      exact head_start tr ⟨s0, tail, htr, hs0, htail⟩ n pre post hp a l (by rw [hL', hal])
    cases A with
    | nil =>
      rw [htr] at hL
      simp only [List.nil_append, List.cons_append, List.cons.injEq] at hL
      obtain ⟨hx0, hrest⟩ := hL
      -- tail ++ L' = M ++ x1 :: R, no start in tail nor in M
      rcases List.append_eq_append_iff.mp hrest with ⟨a', ha1, ha2⟩ | ⟨c', hc1, hc2⟩
      · -- M = tail ++ a', L' = a' ++ x1 :: R
        cases a' with
        | nil => simp only [List.append_nil] at ha1; rw [htr, ← hx0, ha1]
        | cons b bs =>
          have hb : isStartS b = true := hhead b (bs ++ x1 :: R) (by rw [ha2]; rfl)
          have : b ∈ M := by rw [ha1]; simp
          have := hM b this
          rw [hb] at this; exact absurd this (by simp)
      · -- tail = M ++ c', x1 :: R = c' ++ L'
        cases c' with
        | nil => simp only [List.append_nil] at hc1; rw [htr, ← hx0, hc1]
        | cons b bs =>
          simp only [List.cons_append, List.cons.injEq] at hc2
          have : x1 ∈ tail := by rw [hc1, hc2.1]; simp
          have := htail x1 this
          rw [hx1] at this; exact absurd this (by simp)
    | cons a A' =>
      rw [htr] at hL
      simp only [List.cons_append, List.cons.injEq] at hL
      obtain ⟨_, hrest⟩ := hL
      -- tail ++ L' = A' ++ x0 :: …
      rcases List.append_eq_append_iff.mp hrest with ⟨a', ha1, ha2⟩ | ⟨c', hc1, hc2⟩
      · -- A' = tail ++ a', L' = a' ++ x0 :: …
        exact ih pre post hp a' x0 M x1 R (by rw [hL', ha2]) h0 hx1 hM
      · cases c' with
        | nil =>
          simp only [List.nil_append] at hc2
          exact ih pre post hp [] x0 M x1 R (by rw [hL', ← hc2]; rfl) h0 hx1 hM
        | cons b bs =>
          simp only [List.cons_append, List.cons.injEq] at hc2
          have : x0 ∈ tail := by rw [hc1, hc2.1]; simp
          have := htail x0 this
          rw [h0] at this; exact absurd this (by simp)

/-- **`SegsOK` for a carousel source of the merged stream, for EVERY schedule.** -/
theorem carousel_segsOK (k : Slot) (sel : Pkt → Bool) (hsel : ∀ sy, sel (mkPkt k sy) = true) (tr : List Sym)
    (h1 : OneStart tr) (sched : List Slot) (srcs : List Src) (stream : List Pkt)
    (hoth : ∀ k', k' ∈ sched → k' ≠ k → ∀ sy, sel (mkPkt k' sy) = false)
    (hb : buildStream srcs sched = some stream)
    (x : Src) (hx : findSrc srcs k = some x) (hc : x.carousel = true) (htr : x.tr = tr) (hr : x.rest = []) :
    SegsOK sel (fun L => L.map toSym = tr) stream := by
  have hseq := buildStream_carousel k sel hsel tr sched srcs stream x hoth hb hx hc htr
  rw [hr] at hseq
  intro A p0 M p1 R hst hp0 hs0 hp1 hs1 hM
  have hfil : (stream.filter sel).map toSym =
      (A.filter sel).map toSym ++ toSym p0 :: ((M.filter sel).map toSym ++ toSym p1 :: (R.filter sel).map toSym) := by
    rw [hst]
    simp [List.filter_append, List.filter_cons, hp0, hp1]
  have hMs : ∀ q, q ∈ (M.filter sel).map toSym → isStartS q = false := by
    intro q hq
    obtain ⟨p, hp, rfl⟩ := List.mem_map.mp hq
    obtain ⟨hpm, hps⟩ := List.mem_filter.mp hp
    rw [← isStart_toSym]; exact hM p hpm hps
  have goal : ((p0 :: M).filter sel).map toSym = toSym p0 :: (M.filter sel).map toSym := by
    simp [List.filter_cons, hp0]
  rw [goal]
  rcases hseq with ⟨l2, hl2⟩ | ⟨n, pre, post, hL, hpp⟩
  · -- nothing emitted
    have : (stream.filter sel).map toSym = [] := by
      cases hh : (stream.filter sel).map toSym with
      | nil => rfl
      | cons a l => rw [hh] at hl2; simp at hl2
    rw [this] at hfil
    cases hA : (A.filter sel).map toSym <;> simp [hA] at hfil
  · simp only [List.nil_append] at hL
    rw [hfil] at hL
    exact seg_is_listing tr h1 n pre post hpp _ _ _ _ _ hL.symm (by rw [← isStart_toSym]; exact hs0)
      (by rw [← isStart_toSym]; exact hs1) hMs

theorem mem_rep (tr : List Sym) (q : Sym) : ∀ n, q ∈ rep n tr → q ∈ tr := by
  intro n
  induction n with
  | zero => intro h; simp [rep] at h
  | succ n ih =>
    intro h
    rw [rep_succ] at h
    rcases List.mem_append.mp h with h | h
    · exact h
    · exact ih h

/-- every packet a carousel source contributes belongs to its listing -/
theorem carousel_mem (k : Slot) (sel : Pkt → Bool) (hsel : ∀ sy, sel (mkPkt k sy) = true) (tr : List Sym)
    (sched : List Slot) (srcs : List Src) (stream : List Pkt)
    (hoth : ∀ k', k' ∈ sched → k' ≠ k → ∀ sy, sel (mkPkt k' sy) = false)
    (hb : buildStream srcs sched = some stream)
    (x : Src) (hx : findSrc srcs k = some x) (hc : x.carousel = true) (htr : x.tr = tr) (hr : x.rest = []) :
    ∀ q, q ∈ (stream.filter sel).map toSym → q ∈ tr := by
  have hseq := buildStream_carousel k sel hsel tr sched srcs stream x hoth hb hx hc htr
  rw [hr] at hseq
  intro q hq
  rcases hseq with ⟨l2, hl2⟩ | ⟨n, pre, post, hL, hpp⟩
  · cases hh : (stream.filter sel).map toSym with
    | nil => rw [hh] at hq; simp at hq
    | cons a l => rw [hh] at hl2; simp at hl2
  · rw [hL] at hq
    simp only [List.nil_append] at hq
    rcases List.mem_append.mp hq with h | h
    · exact mem_rep tr q n h
    · rw [← hpp]; exact List.mem_append_left _ h

/-- every packet of the merged stream comes from a slot of the schedule -/
theorem buildStream_mem : ∀ (sched : List Slot) (srcs : List Src) (stream : List Pkt),
    buildStream srcs sched = some stream → ∀ p, p ∈ stream → ∃ k sy, k ∈ sched ∧ p = mkPkt k sy := by
  intro sched
  induction sched with
  | nil => intro srcs stream h p hp; simp only [buildStream, Option.some.injEq] at h; subst h; simp at hp
  | cons k rest ih =>
    intro srcs stream h p hp
    unfold buildStream at h
    cases hpf : pullFrom srcs k with
    | none => simp [hpf] at h
    | some r =>
      obtain ⟨sy, srcs'⟩ := r
      simp only [hpf] at h
      cases hb : buildStream srcs' rest with
      | none => simp [hb] at h
      | some ps =>
        simp only [hb, Option.map_some, Option.some.injEq] at h
        subst h
        rcases List.mem_cons.mp hp with rfl | hp
        · exact ⟨k, sy, List.mem_cons_self .., rfl⟩
        · obtain ⟨k', sy', hk', hp'⟩ := ih srcs' ps hb p hp
          exact ⟨k', sy', List.mem_cons_of_mem _ hk', hp'⟩

end Flute.Lemmas.Session
