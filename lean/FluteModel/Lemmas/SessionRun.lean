import FluteModel.Lemmas.Session
/-
  Run-level lemmas: the invariant `Good` along an event list, attachment tracking, the
  close-object packet, and the core of C02 (`recoverable_core`).
-/
namespace Flute.Lemmas.Session
open Flute.Session

variable (c : Codec)

/-- symbols of the packet events, in order -/
def pktSyms : List Ev → List Sym
  | [] => []
  | .fdt _ :: es => pktSyms es
  | .pkt s :: es => s :: pktSyms es

theorem mem_pktSyms {es : List Ev} {s : Sym} : s ∈ pktSyms es ↔ Ev.pkt s ∈ es := by
  induction es with
  | nil => simp [pktSyms]
  | cons e es ih =>
    cases e with
    | fdt l => simp [pktSyms, ih]
    | pkt t =>
      simp only [pktSyms, List.mem_cons, ih, Ev.pkt.injEq]

theorem pktSyms_append (a b : List Ev) : pktSyms (a ++ b) = pktSyms a ++ pktSyms b := by
  induction a with
  | nil => simp [pktSyms]
  | cons e es ih => cases e <;> simp [pktSyms, ih]

/-- every close-object packet is processed only after (with itself) decodable symbols of every
    block have been processed -/
def CloseOK (o : ObjCfg) : List Sym → List Ev → Prop
  | _, [] => True
  | P, .fdt _ :: es => CloseOK o P es
  | P, .pkt s :: es => (s.close = true → AllDec c o (s :: P)) ∧ CloseOK o (s :: P) es

/-- an attached live object, or an attachable one (a complete FDT instance listing the TOI is
    among the last 10) -/
def Good2 (o : ObjCfg) (P : List Sym) (st : OState) : Prop :=
  1 ≤ st.completes ∨ (Inv c o P st ∧ ∃ rx, st.obj = some rx ∧ rx.attached = true)

theorem good2_good (o : ObjCfg) (P : List Sym) (st : OState) (h : Good2 c o P st) : Good c o P st := by
  rcases h with h | h
  · exact Or.inl h
  · exact Or.inr h.1

/-! ### flags -/

theorem pushCore_attached (rc : RxCfg) (o : ObjCfg) (rx : ORx) (s : Sym) :
    (pushCore c.canDecode rc o rx s).rx.attached = rx.attached := by
  unfold pushCore
  split
  · rfl
  · split
    · rfl
    · split
      · rfl
      · split
        · rfl
        · dsimp only
          split
          · rfl
          · exact (settle_flags c o _).1

theorem pushSym_attached (rc : RxCfg) (o : ObjCfg) (rx : ORx) (s : Sym) :
    (pushSym c.canDecode rc o rx s).rx.attached = rx.attached := by
  unfold pushSym
  dsimp only
  split
  · exact pushCore_attached c rc o rx s
  · exact pushCore_attached c rc o rx s

theorem finish_obj_some (o : ObjCfg) (st : OState) (r : PushRes) (x : ORx) (h : (finish o st r).obj = some x) :
    x = r.rx := by
  unfold finish at h
  split at h <;> simp at h
  exact h.symm

theorem pushObj_obj_attached (rc : RxCfg) (o : ObjCfg) (st : OState) (rx : ORx) (s : Sym) (x : ORx)
    (h : (pushObj c.canDecode rc o st rx s).obj = some x) : x.attached = rx.attached := by
  unfold pushObj at h
  dsimp only at h
  have e1 : (if (!rx.otiKnown && o.inbandFti) = true then ({ rx with otiKnown := true } : ORx) else rx).attached = rx.attached := by
    split <;> rfl
  generalize (if (!rx.otiKnown && o.inbandFti) = true then ({ rx with otiKnown := true } : ORx) else rx) = rx' at h e1
  by_cases hk : (!rx'.otiKnown) = true
  · rw [if_pos hk] at h
    have := finish_obj_some o st _ x h
    rw [this]; exact e1
  · rw [if_neg hk] at h
    have := finish_obj_some o st _ x h
    rw [this, pushSym_attached]; exact e1

/-! ### the run without close-object packets -/

theorem good_init (o : ObjCfg) : Good c o [] {} := by
  right
  exact ⟨rfl, rfl⟩

theorem stepObj_pkt_good (rc : RxCfg) (o : ObjCfg) (hN : o.ks.isEmpty = false) (hfit : Fits rc o)
    (st : OState) (s : Sym) (P : List Sym) (hgen : Genuine o s) (hnc : s.close = false) (h : Good c o P st) :
    Good c o (s :: P) (stepObj c.canDecode rc o st (.pkt s)) := by
  rcases h with h | h
  · exact Or.inl (Nat.le_trans h (stepObj_completes_ge c rc o st _))
  · have hnd := h.notDone
    simp only [stepObj, hnd, Bool.false_eq_true, ↓reduceIte]
    exact pushNew_good c rc o hN hfit st s P hgen hnc h

theorem stepObj_fdt_good (rc : RxCfg) (o : ObjCfg) (hN : o.ks.isEmpty = false) (hfit : Fits rc o)
    (st : OState) (l : Bool) (P : List Sym) (h : Good c o P st) :
    Good c o P (stepObj c.canDecode rc o st (.fdt l)) := by
  rcases h with h | h
  · exact Or.inl (Nat.le_trans h (stepObj_completes_ge c rc o st _))
  · simp only [stepObj]
    exact fdtEv_good c rc o hN hfit st l P h

theorem run_noclose (rc : RxCfg) (o : ObjCfg) (hN : o.ks.isEmpty = false) (hfit : Fits rc o) :
    ∀ (es : List Ev) (st : OState) (P : List Sym),
      (∀ s, Ev.pkt s ∈ es → Genuine o s ∧ s.close = false) → Good c o P st →
      Good c o ((pktSyms es).reverse ++ P) (runObj c.canDecode rc o st es) := by
  intro es
  induction es with
  | nil => intro st P _ h; simpa [pktSyms, runObj] using h
  | cons e es ih =>
    intro st P hes h
    unfold runObj
    cases e with
    | fdt l =>
      simp only [pktSyms]
      exact ih _ P (fun s hs => hes s (List.mem_cons_of_mem _ hs)) (stepObj_fdt_good c rc o hN hfit st l P h)
    | pkt s =>
      have hs := hes s (List.mem_cons_self ..)
      have := ih _ (s :: P) (fun q hq => hes q (List.mem_cons_of_mem _ hq))
        (stepObj_pkt_good c rc o hN hfit st s P hs.1 hs.2 h)
      simpa [pktSyms, List.reverse_cons, List.append_assoc] using this

/-! ### an attached object stays attached -/

theorem stepObj_pkt_good2 (rc : RxCfg) (o : ObjCfg) (hN : o.ks.isEmpty = false) (hfit : Fits rc o)
    (st : OState) (s : Sym) (P : List Sym) (hgen : Genuine o s) (hnc : s.close = false) (h : Good2 c o P st) :
    Good2 c o (s :: P) (stepObj c.canDecode rc o st (.pkt s)) := by
  have hg := stepObj_pkt_good c rc o hN hfit st s P hgen hnc (good2_good c o P st h)
  rcases h with h | ⟨hinv, rx, hobj, hatt⟩
  · exact Or.inl (Nat.le_trans h (stepObj_completes_ge c rc o st _))
  · rcases hg with hg | hg
    · exact Or.inl hg
    · right
      refine ⟨hg, ?_⟩
      have hnd := hinv.notDone
      have hob := hg.obj
      simp only [stepObj, hnd, Bool.false_eq_true, ↓reduceIte, pushNew, hobj] at hob ⊢
      cases hx : (pushObj c.canDecode rc o st rx s).obj with
      | none => rw [hx] at hob; simp at hob
      | some x =>
        exact ⟨x, rfl, by rw [pushObj_obj_attached c rc o st rx s x hx]; exact hatt⟩

theorem stepObj_fdt_good2 (rc : RxCfg) (o : ObjCfg)
    (st : OState) (l : Bool) (P : List Sym) (h : Good2 c o P st) :
    Good2 c o P (stepObj c.canDecode rc o st (.fdt l)) := by
  rcases h with h | ⟨hinv, rx, hobj, hatt⟩
  · exact Or.inl (Nat.le_trans h (stepObj_completes_ge c rc o st _))
  · right
    have hnd := hinv.notDone
    have hob := hinv.obj
    simp only [stepObj, fdtEv, hobj, hatt, Bool.not_true, Bool.and_false, Bool.false_eq_true, ↓reduceIte]
    refine ⟨⟨by simp [hnd], ?_⟩, rx, rfl, hatt⟩
    simp only [hobj] at hob ⊢
    exact hob

/-- the close-object packet: an attached (or attachable) object whose blocks are all decodable
    with this packet completes -/
theorem stepObj_close (rc : RxCfg) (o : ObjCfg) (hN : o.ks.isEmpty = false) (hfit : Fits rc o)
    (st : OState) (s : Sym) (P : List Sym) (hgen : Genuine o s)
    (hinv : Inv c o P st)
    (hattd : (∃ rx, st.obj = some rx ∧ rx.attached = true) ∨ (st.obj = none ∧ st.age.isSome = true))
    (hdec : AllDec c o (s :: P)) :
    1 ≤ (stepObj c.canDecode rc o st (.pkt s)).completes := by
  have hnd := hinv.notDone
  have hob := hinv.obj
  simp only [stepObj, hnd, Bool.false_eq_true, ↓reduceIte, pushNew]
  rcases hattd with ⟨rx, hobj, hatt⟩ | ⟨hobj, hage⟩
  · simp only [hobj] at hob ⊢
    obtain ⟨Pb, hcov, hmem, hcache, hai, hknown⟩ := hob
    have hk := (hknown hatt).1
    have hce := (hknown hatt).2
    unfold pushObj
    simp only [hk, Bool.not_true, Bool.false_and, Bool.false_eq_true, ↓reduceIte]
    have hdec' : AllDec c o (s :: Pb) := by
      apply allDec_mono c o _ _ _ hdec
      intro q hq
      rcases List.mem_cons.mp hq with rfl | hq
      · exact List.mem_cons_self ..
      · rcases hmem q hq with h | h
        · rw [hce] at h; simp at h
        · exact List.mem_cons_of_mem _ h
    have := pushSym_close c rc o rx s Pb hN hgen hfit hcov hai hatt hdec'
    rw [finish_completed o st _ this.1 this.2]; omega
  · simp only [hobj] at hob ⊢
    subst hob
    simp only [hage, ↓reduceIte]
    have ha := attach_spec c rc o hN hfit rx0 [] (by intro q hq; simp [rx0] at hq) (by intro q hq; simp at hq) _ rfl
    obtain ⟨h1, h2, h3, h4⟩ := ha
    rcases h1 with h1 | h1
    · simp only [h1, bne_self_eq_false, Bool.false_eq_true, ↓reduceIte]
      obtain ⟨hc, hai, hce⟩ := h4 h1
      unfold pushObj
      simp only [h3, Bool.not_true, Bool.false_and, Bool.false_eq_true, ↓reduceIte]
      have hdec' : AllDec c o (s :: (rx0.cache ++ [])) := by
        apply allDec_mono c o _ _ _ hdec
        intro q hq
        rcases List.mem_cons.mp hq with rfl | hq
        · exact List.mem_cons_self ..
        · simp at hq
      have := pushSym_close c rc o _ s _ hN hgen hfit hc hai h2 hdec'
      rw [finish_completed o _ _ this.1 this.2]; simp
    · have hne : ((attach c.canDecode rc o rx0).term != Term.receiving) = true := by rw [h1]; rfl
      simp only [hne, ↓reduceIte]
      rw [finish_completed o _ _ h1 h2]; simp

/-- the run of an attached object, close-object packets included -/
theorem run_good2 (rc : RxCfg) (o : ObjCfg) (hN : o.ks.isEmpty = false) (hfit : Fits rc o) :
    ∀ (es : List Ev) (st : OState) (P : List Sym),
      (∀ s, Ev.pkt s ∈ es → Genuine o s) → CloseOK c o P es → Good2 c o P st →
      Good2 c o ((pktSyms es).reverse ++ P) (runObj c.canDecode rc o st es) := by
  intro es
  induction es with
  | nil => intro st P _ _ h; simpa [pktSyms, runObj] using h
  | cons e es ih =>
    intro st P hes hcl h
    unfold runObj
    cases e with
    | fdt l =>
      simp only [pktSyms]
      exact ih _ P (fun s hs => hes s (List.mem_cons_of_mem _ hs)) hcl (stepObj_fdt_good2 c rc o st l P h)
    | pkt s =>
      have hs := hes s (List.mem_cons_self ..)
      obtain ⟨hc1, hc2⟩ := hcl
      have hstep : Good2 c o (s :: P) (stepObj c.canDecode rc o st (.pkt s)) := by
        by_cases hclose : s.close = true
        · rcases h with h | ⟨hinv, hrx⟩
          · exact Or.inl (Nat.le_trans h (stepObj_completes_ge c rc o st _))
          · exact Or.inl (stepObj_close c rc o hN hfit st s P hs hinv (Or.inl hrx) (hc1 hclose))
        · exact stepObj_pkt_good2 c rc o hN hfit st s P hs (by simpa using hclose) h
      have := ih _ (s :: P) (fun q hq => hes q (List.mem_cons_of_mem _ hq)) hc2 hstep
      simpa [pktSyms, List.reverse_cons, List.append_assoc] using this

/-- at the end: an attached object holding decodable symbols of every block has completed -/
theorem good2_end (o : ObjCfg) (P : List Sym) (st : OState) (h : Good2 c o P st) (hdec : AllDec c o P) :
    1 ≤ st.completes := by
  rcases h with h | ⟨hinv, rx, hobj, hatt⟩
  · exact h
  · exfalso
    have hob := hinv.obj
    simp only [hobj] at hob
    obtain ⟨Pb, hcov, hmem, _, hai, hknown⟩ := hob
    have hce := (hknown hatt).2
    apply not_stuck c o rx Pb hcov hatt hai
    apply allDec_mono c o _ _ _ hdec
    intro q hq
    rcases hmem q hq with h | h
    · rw [hce] at h; simp at h
    · exact h

end Flute.Lemmas.Session
