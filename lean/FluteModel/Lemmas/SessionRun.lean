import FluteModel.Lemmas.Session
/-
  Run-level lemmas: the invariant `Good` along an event list, attachment tracking, the
  close-object packet, and the core of C02 (`recoverable_core`).
-/
namespace Flute.Lemmas.Session
open Flute.Session

variable (c : Codec)

/-- symbols of the packet events, in order -/
def pktSyms : List Ev → List Sym
  | [] => []
  | .fdt _ :: es => pktSyms es
  | .pkt s :: es => s :: pktSyms es

theorem mem_pktSyms {es : List Ev} {s : Sym} : s ∈ pktSyms es ↔ Ev.pkt s ∈ es := by
  induction es with
  | nil => simp [pktSyms]
  | cons e es ih =>
    cases e with
    | fdt l => simp [pktSyms, ih]
    | pkt t =>
      simp only [pktSyms, List.mem_cons, ih, Ev.pkt.injEq]

theorem pktSyms_append (a b : List Ev) : pktSyms (a ++ b) = pktSyms a ++ pktSyms b := by
  induction a with
  | nil => simp [pktSyms]
  | cons e es ih => cases e <;> simp [pktSyms, ih]

/-- every close-object packet is processed only after (with itself) decodable symbols of every
    block have been processed -/
def CloseOK (o : ObjCfg) : List Sym → List Ev → Prop
  | _, [] => True
  | P, .fdt _ :: es => CloseOK o P es
  | P, .pkt s :: es => (s.close = true → AllDec c o (s :: P)) ∧ CloseOK o (s :: P) es

/-- an attached live object, or an attachable one (a complete FDT instance listing the TOI is
    among the last 10) -/
def Good2 (o : ObjCfg) (P : List Sym) (st : OState) : Prop :=
  1 ≤ st.completes ∨ (Inv c o P st ∧ ∃ rx, st.obj = some rx ∧ rx.attached = true)

theorem good2_good (o : ObjCfg) (P : List Sym) (st : OState) (h : Good2 c o P st) : Good c o P st := by
  rcases h with h | h
  · exact Or.inl h
  · exact Or.inr h.1

/-! ### flags -/

theorem pushCore_attached (rc : RxCfg) (o : ObjCfg) (rx : ORx) (s : Sym) :
    (pushCore c.canDecode rc o rx s).rx.attached = rx.attached := by
  unfold pushCore
  split
  · rfl
  · split
    · rfl
    · split
      · rfl
      · split
        · rfl
        · dsimp only
          split
          · rfl
          · exact (settle_flags c o _).1

theorem pushSym_attached (rc : RxCfg) (o : ObjCfg) (rx : ORx) (s : Sym) :
    (pushSym c.canDecode rc o rx s).rx.attached = rx.attached := by
  unfold pushSym
  dsimp only
  split
  · exact pushCore_attached c rc o rx s
  · exact pushCore_attached c rc o rx s

theorem finish_obj_some (o : ObjCfg) (st : OState) (r : PushRes) (x : ORx) (h : (finish o st r).obj = some x) :
    x = r.rx := by
  unfold finish at h
  split at h <;> simp at h
  exact h.symm

theorem pushObj_obj_attached (rc : RxCfg) (o : ObjCfg) (st : OState) (rx : ORx) (s : Sym) (x : ORx)
    (h : (pushObj c.canDecode rc o st rx s).obj = some x) : x.attached = rx.attached := by
  unfold pushObj at h
  dsimp only at h
  have e1 : (if (!rx.otiKnown && o.inbandFti) = true then ({ rx with otiKnown := true } : ORx) else rx).attached = rx.attached := by
    split <;> rfl
  generalize (if (!rx.otiKnown && o.inbandFti) = true then ({ rx with otiKnown := true } : ORx) else rx) = rx' at h e1
  by_cases hk : (!rx'.otiKnown) = true
  · rw [if_pos hk] at h
    split at h
    · have := finish_obj_some o st _ x h
      rw [this]; exact e1
    · have := finish_obj_some o st _ x h
      rw [this]; exact e1
  · rw [if_neg hk] at h
    have := finish_obj_some o st _ x h
    rw [this, pushSym_attached]; exact e1

/-! ### the run without close-object packets -/

theorem good_init (o : ObjCfg) : Good c o [] {} := by
  right
  exact ⟨rfl, rfl⟩

theorem stepObj_pkt_good (rc : RxCfg) (o : ObjCfg) (hN : o.ks.isEmpty = false) (hfit : Fits rc o)
    (st : OState) (s : Sym) (P : List Sym) (hgen : Genuine o s) (hnc : s.close = false) (h : Good c o P st) :
    Good c o (s :: P) (stepObj c.canDecode rc o st (.pkt s)) := by
  rcases h with h | h
  · exact Or.inl (Nat.le_trans h (stepObj_completes_ge c rc o st _))
  · have hnd := h.notDone
    simp only [stepObj, hnd, Bool.false_eq_true, ↓reduceIte]
    exact pushNew_good c rc o hN hfit st s P hgen hnc h

theorem stepObj_fdt_good (rc : RxCfg) (o : ObjCfg) (hN : o.ks.isEmpty = false) (hfit : Fits rc o)
    (st : OState) (l : Bool) (P : List Sym) (h : Good c o P st) :
    Good c o P (stepObj c.canDecode rc o st (.fdt l)) := by
  rcases h with h | h
  · exact Or.inl (Nat.le_trans h (stepObj_completes_ge c rc o st _))
  · simp only [stepObj]
    exact fdtEv_good c rc o hN hfit st l P h

theorem run_noclose (rc : RxCfg) (o : ObjCfg) (hN : o.ks.isEmpty = false) (hfit : Fits rc o) :
    ∀ (es : List Ev) (st : OState) (P : List Sym),
      (∀ s, Ev.pkt s ∈ es → Genuine o s ∧ s.close = false) → Good c o P st →
      Good c o ((pktSyms es).reverse ++ P) (runObj c.canDecode rc o st es) := by
  intro es
  induction es with
  | nil => intro st P _ h; simpa [pktSyms, runObj] using h
  | cons e es ih =>
    intro st P hes h
    unfold runObj
    cases e with
    | fdt l =>
      simp only [pktSyms]
      exact ih _ P (fun s hs => hes s (List.mem_cons_of_mem _ hs)) (stepObj_fdt_good c rc o hN hfit st l P h)
    | pkt s =>
      have hs := hes s (List.mem_cons_self ..)
      have := ih _ (s :: P) (fun q hq => hes q (List.mem_cons_of_mem _ hq))
        (stepObj_pkt_good c rc o hN hfit st s P hs.1 hs.2 h)
      simpa [pktSyms, List.reverse_cons, List.append_assoc] using this

/-! ### an attached object stays attached -/

theorem stepObj_pkt_good2 (rc : RxCfg) (o : ObjCfg) (hN : o.ks.isEmpty = false) (hfit : Fits rc o)
    (st : OState) (s : Sym) (P : List Sym) (hgen : Genuine o s) (hnc : s.close = false) (h : Good2 c o P st) :
    Good2 c o (s :: P) (stepObj c.canDecode rc o st (.pkt s)) := by
  have hg := stepObj_pkt_good c rc o hN hfit st s P hgen hnc (good2_good c o P st h)
  rcases h with h | ⟨hinv, rx, hobj, hatt⟩
  · exact Or.inl (Nat.le_trans h (stepObj_completes_ge c rc o st _))
  · rcases hg with hg | hg
    · exact Or.inl hg
    · right
      refine ⟨hg, ?_⟩
      have hnd := hinv.notDone
      have hob := hg.obj
      simp only [stepObj, hnd, Bool.false_eq_true, ↓reduceIte, pushNew, hobj] at hob ⊢
      cases hx : (pushObj c.canDecode rc o st rx s).obj with
      | none => rw [hx] at hob; simp at hob
      | some x =>
        exact ⟨x, rfl, by rw [pushObj_obj_attached c rc o st rx s x hx]; exact hatt⟩

theorem stepObj_fdt_good2 (rc : RxCfg) (o : ObjCfg)
    (st : OState) (l : Bool) (P : List Sym) (h : Good2 c o P st) :
    Good2 c o P (stepObj c.canDecode rc o st (.fdt l)) := by
  rcases h with h | ⟨hinv, rx, hobj, hatt⟩
  · exact Or.inl (Nat.le_trans h (stepObj_completes_ge c rc o st _))
  · right
    have hnd := hinv.notDone
    have hob := hinv.obj
    simp only [stepObj, fdtEv, hobj, hatt, Bool.not_true, Bool.and_false, Bool.false_eq_true, ↓reduceIte]
    refine ⟨⟨by simp [hnd], ?_⟩, rx, rfl, hatt⟩
    simp only [hobj] at hob ⊢
    exact hob

/-- the close-object packet: an attached (or attachable) object whose blocks are all decodable
    with this packet completes -/
theorem stepObj_close (rc : RxCfg) (o : ObjCfg) (hN : o.ks.isEmpty = false) (hfit : Fits rc o)
    (st : OState) (s : Sym) (P : List Sym) (hgen : Genuine o s)
    (hinv : Inv c o P st)
    (hattd : (∃ rx, st.obj = some rx ∧ rx.attached = true) ∨ (st.obj = none ∧ st.age.isSome = true))
    (hdec : AllDec c o (s :: P)) :
    1 ≤ (stepObj c.canDecode rc o st (.pkt s)).completes := by
  have hnd := hinv.notDone
  have hob := hinv.obj
  simp only [stepObj, hnd, Bool.false_eq_true, ↓reduceIte, pushNew]
  rcases hattd with ⟨rx, hobj, hatt⟩ | ⟨hobj, hage⟩
  · simp only [hobj] at hob ⊢
    obtain ⟨Pb, hcov, hmem, hcache, hai, hknown⟩ := hob
    have hk := (hknown hatt).1
    have hce := (hknown hatt).2
    unfold pushObj
    simp only [hk, Bool.not_true, Bool.false_and, Bool.false_eq_true, ↓reduceIte]
    have hdec' : AllDec c o (s :: Pb) := by
      apply allDec_mono c o _ _ _ hdec
      intro q hq
      rcases List.mem_cons.mp hq with rfl | hq
      · exact List.mem_cons_self ..
      · rcases hmem q hq with h | h
        · rw [hce] at h; simp at h
        · exact List.mem_cons_of_mem _ h
    have := pushSym_close c rc o rx s Pb hN hgen hfit hcov hai hatt hdec'
    rw [finish_completed o st _ this.1 this.2]; omega
  · simp only [hobj] at hob ⊢
    subst hob
    simp only [hage, ↓reduceIte]
    have ha := attach_spec c rc o hN hfit rx0 [] (by intro q hq; simp [rx0] at hq) (by intro q hq; simp at hq) _ rfl
    obtain ⟨h1, h2, h3, h4⟩ := ha
    rcases h1 with h1 | h1
    · simp only [h1, bne_self_eq_false, Bool.false_eq_true, ↓reduceIte]
      obtain ⟨hc, hai, hce⟩ := h4 h1
      unfold pushObj
      simp only [h3, Bool.not_true, Bool.false_and, Bool.false_eq_true, ↓reduceIte]
      have hdec' : AllDec c o (s :: (rx0.cache ++ [])) := by
        apply allDec_mono c o _ _ _ hdec
        intro q hq
        rcases List.mem_cons.mp hq with rfl | hq
        · exact List.mem_cons_self ..
        · simp at hq
      have := pushSym_close c rc o _ s _ hN hgen hfit hc hai h2 hdec'
      rw [finish_completed o _ _ this.1 this.2]; simp
    · have hne : ((attach c.canDecode rc o rx0).term != Term.receiving) = true := by rw [h1]; rfl
      simp only [hne, ↓reduceIte]
      rw [finish_completed o _ _ h1 h2]; simp

/-- the run of an attached object, close-object packets included -/
theorem run_good2 (rc : RxCfg) (o : ObjCfg) (hN : o.ks.isEmpty = false) (hfit : Fits rc o) :
    ∀ (es : List Ev) (st : OState) (P : List Sym),
      (∀ s, Ev.pkt s ∈ es → Genuine o s) → CloseOK c o P es → Good2 c o P st →
      Good2 c o ((pktSyms es).reverse ++ P) (runObj c.canDecode rc o st es) := by
  intro es
  induction es with
  | nil => intro st P _ _ h; simpa [pktSyms, runObj] using h
  | cons e es ih =>
    intro st P hes hcl h
    unfold runObj
    cases e with
    | fdt l =>
      simp only [pktSyms]
      exact ih _ P (fun s hs => hes s (List.mem_cons_of_mem _ hs)) hcl (stepObj_fdt_good2 c rc o st l P h)
    | pkt s =>
      have hs := hes s (List.mem_cons_self ..)
      obtain ⟨hc1, hc2⟩ := hcl
      have hstep : Good2 c o (s :: P) (stepObj c.canDecode rc o st (.pkt s)) := by
        by_cases hclose : s.close = true
        · rcases h with h | ⟨hinv, hrx⟩
          · exact Or.inl (Nat.le_trans h (stepObj_completes_ge c rc o st _))
          · exact Or.inl (stepObj_close c rc o hN hfit st s P hs hinv (Or.inl hrx) (hc1 hclose))
        · exact stepObj_pkt_good2 c rc o hN hfit st s P hs (by simpa using hclose) h
      have := ih _ (s :: P) (fun q hq => hes q (List.mem_cons_of_mem _ hq)) hc2 hstep
      simpa [pktSyms, List.reverse_cons, List.append_assoc] using this

/-- at the end: an attached object holding decodable symbols of every block has completed -/
theorem good2_end (o : ObjCfg) (P : List Sym) (st : OState) (h : Good2 c o P st) (hdec : AllDec c o P) :
    1 ≤ st.completes := by
  rcases h with h | ⟨hinv, rx, hobj, hatt⟩
  · exact h
  · exfalso
    have hob := hinv.obj
    simp only [hobj] at hob
    obtain ⟨Pb, hcov, hmem, _, hai, hknown⟩ := hob
    have hce := (hknown hatt).2
    apply not_stuck c o rx Pb hcov hatt hai
    apply allDec_mono c o _ _ _ hdec
    intro q hq
    rcases hmem q hq with h | h
    · rw [hce] at h; simp at h
    · exact h

theorem closeOK_of_noclose (c : Codec) (o : ObjCfg) : ∀ (es : List Ev) (P : List Sym),
    (∀ s, Ev.pkt s ∈ es → s.close = false) → CloseOK c o P es := by
  intro es
  induction es with
  | nil => intro P _; trivial
  | cons e es ih =>
    intro P h
    cases e with
    | fdt l => exact ih P (fun s hs => h s (List.mem_cons_of_mem _ hs))
    | pkt s =>
      refine ⟨?_, ih _ (fun q hq => h q (List.mem_cons_of_mem _ hq))⟩
      intro hs
      rw [h s (List.mem_cons_self ..)] at hs
      exact absurd hs (by simp)


theorem runObj_append (rc : RxCfg) (o : ObjCfg) : ∀ (a b : List Ev) (st : OState),
    runObj c.canDecode rc o st (a ++ b) = runObj c.canDecode rc o (runObj c.canDecode rc o st a) b := by
  intro a
  induction a with
  | nil => intro b st; simp [runObj]
  | cons e es ih => intro b st; simp only [List.cons_append, runObj]; exact ih b _

/-- the FDT instance listing the object completes while the object is alive: it gets attached -/
theorem fdt_attaches (rc : RxCfg) (o : ObjCfg) (hN : o.ks.isEmpty = false) (hfit : Fits rc o)
    (st : OState) (P : List Sym) (rx : ORx) (hinv : Inv c o P st) (hobj : st.obj = some rx) :
    Good2 c o P (stepObj c.canDecode rc o st (.fdt true)) := by
  by_cases hatt : rx.attached = true
  · exact stepObj_fdt_good2 c rc o st true P (Or.inr ⟨hinv, rx, hobj, hatt⟩)
  · have hatt' : rx.attached = false := by simpa using hatt
    obtain ⟨hnd, hob⟩ := hinv
    simp only [hobj] at hob
    obtain ⟨Pb, hcov, hmem, hcache, hai, hknown⟩ := hob
    simp only [stepObj, fdtEv, hobj, hatt', Bool.not_false, Bool.and_self, ↓reduceIte]
    have ha := attach_spec c rc o hN hfit rx Pb hcache hcov _ rfl
    obtain ⟨h1, h2, h3, h4⟩ := ha
    rcases h1 with h1 | h1
    · right
      rw [finish_receiving o _ _ h1]
      obtain ⟨hc, hai', hce⟩ := h4 h1
      refine ⟨⟨by simp [hnd], ?_⟩, _, rfl, h2⟩
      simp only
      refine ⟨rx.cache ++ Pb, hc, ?_, ?_, hai', fun _ => ⟨h3, hce⟩⟩
      · intro q hq
        right
        rcases hmem q hq with h | h
        · exact List.mem_append_left _ h
        · exact List.mem_append_right _ h
      · intro q hq; rw [hce] at hq; simp at hq
    · left
      simp only
      rw [finish_completed o _ _ h1 h2]; simp

/-- the run of FDT completions `fs` leaves a listing instance among the last 10 of `fdt_current`:
    fewer than 10 completions, or all of them list the object -/
def KeepsAge (a : Nat) (fs : List Ev) : Prop := a + fs.length < 10 ∨ ∀ e, e ∈ fs → e = Ev.fdt true

/-- no object yet: FDT instances only age the attachable one -/
theorem run_fdts_none (rc : RxCfg) (o : ObjCfg) : ∀ (fs : List Ev) (st : OState) (a : Nat),
    (∀ e, e ∈ fs → ∃ l, e = Ev.fdt l) → Inv c o [] st → st.obj = none → st.age = some a → KeepsAge a fs →
    Inv c o [] (runObj c.canDecode rc o st fs) ∧ (runObj c.canDecode rc o st fs).obj = none ∧
      (runObj c.canDecode rc o st fs).age.isSome = true ∧
      (runObj c.canDecode rc o st fs).completes = st.completes := by
  intro fs
  induction fs with
  | nil => intro st a _ hinv hobj hage _; simp [runObj, hinv, hobj, hage]
  | cons e es ih =>
    intro st a hfs hinv hobj hage hkeep
    obtain ⟨l, rfl⟩ := hfs e (List.mem_cons_self ..)
    unfold runObj
    have hst : stepObj c.canDecode rc o st (.fdt l) =
        { st with completed := st.completed && l, age := ageStep st.age l } := by
      simp only [stepObj, fdtEv, hobj]
    rw [hst]
    have hage' : ∃ a', ageStep st.age l = some a' ∧ KeepsAge a' es := by
      rw [hage]; unfold ageStep
      rcases hkeep with hlen | hall
      · simp only [List.length_cons] at hlen
        by_cases hl : l = true
        · exact ⟨0, by simp [hl], Or.inl (by omega)⟩
        · have : a + 1 < 10 := by omega
          exact ⟨a + 1, by simp [hl, this], Or.inl (by omega)⟩
      · have hl : l = true := by
          have := hall (Ev.fdt l) (List.mem_cons_self ..)
          simpa using this
        exact ⟨0, by simp [hl], Or.inr (fun e he => hall e (List.mem_cons_of_mem _ he))⟩
    obtain ⟨a', ha', hkeep'⟩ := hage'
    have := ih { st with completed := st.completed && l, age := ageStep st.age l } a'
      (fun e he => hfs e (List.mem_cons_of_mem _ he))
      ⟨by simp [hinv.notDone], by simp [hobj]⟩ (by simp [hobj]) ha' hkeep'
    simpa using this

/-- the object's first packet finds an attachable FDT instance: it is created attached -/
theorem created_attached (rc : RxCfg) (o : ObjCfg) (hN : o.ks.isEmpty = false) (hfit : Fits rc o)
    (st : OState) (s : Sym) (hgen : Genuine o s) (hnc : s.close = false)
    (hinv : Inv c o [] st) (hobj : st.obj = none) (hage : st.age.isSome = true) :
    Good2 c o [s] (stepObj c.canDecode rc o st (.pkt s)) := by
  have hg := stepObj_pkt_good c rc o hN hfit st s [] hgen hnc (Or.inr hinv)
  rcases hg with hg | hg
  · exact Or.inl hg
  · right
    refine ⟨hg, ?_⟩
    have hnd := hinv.notDone
    have hob := hg.obj
    simp only [stepObj, hnd, Bool.false_eq_true, ↓reduceIte, pushNew, hobj, hage] at hob ⊢
    have ha := attach_spec c rc o hN hfit rx0 [] (by intro q hq; simp [rx0] at hq) (by intro q hq; simp at hq) _ rfl
    obtain ⟨h1, h2, h3, h4⟩ := ha
    rcases h1 with h1 | h1
    · simp only [h1, bne_self_eq_false, Bool.false_eq_true, ↓reduceIte] at hob ⊢
      split at hob
      · simp at hob
      · rename_i x hx
        exact ⟨x, hx, by rw [pushObj_obj_attached c rc o _ _ s x hx]; exact h2⟩
    · have hne : ((attach c.canDecode rc o rx0).term != Term.receiving) = true := by rw [h1]; rfl
      simp only [hne, ↓reduceIte] at hob
      unfold finish at hob
      simp [h1] at hob

theorem closeOK_fdts (o : ObjCfg) (P : List Sym) : ∀ (fs rest : List Ev),
    (∀ e, e ∈ fs → ∃ l, e = Ev.fdt l) → CloseOK c o P (fs ++ rest) → CloseOK c o P rest := by
  intro fs
  induction fs with
  | nil => intro rest _ h; simpa using h
  | cons e es ih =>
    intro rest hfs h
    obtain ⟨l, rfl⟩ := hfs e (List.mem_cons_self ..)
    exact ih rest (fun e he => hfs e (List.mem_cons_of_mem _ he)) h

theorem pktSyms_fdts : ∀ (fs : List Ev), (∀ e, e ∈ fs → ∃ l, e = Ev.fdt l) → pktSyms fs = [] := by
  intro fs
  induction fs with
  | nil => intro _; rfl
  | cons e es ih =>
    intro hfs
    obtain ⟨l, rfl⟩ := hfs e (List.mem_cons_self ..)
    simp only [pktSyms]
    exact ih (fun e he => hfs e (List.mem_cons_of_mem _ he))

/-- **Core of C02.**  `h` = what one object sees: its packets (any sub-multiset of what the sender
    emitted, order preserved) and the completions of FDT instances.  If an FDT instance listing
    the object completes at a point where the object can be attached, every close-object packet
    comes after decodable symbols of every block, and in the end every block has decodable
    symbols, then the object writer gets `complete`. -/
theorem recoverable_core (rc : RxCfg) (o : ObjCfg) (hN : o.ks.isEmpty = false) (hfit : Fits rc o)
    (pre post : List Ev)
    (hgen : ∀ s, Ev.pkt s ∈ pre ++ Ev.fdt true :: post → Genuine o s)
    (hpre : ∀ s, Ev.pkt s ∈ pre → s.close = false)
    (hatt : (∃ s, Ev.pkt s ∈ pre) ∨
      ∃ fs rest, post = fs ++ rest ∧ (∀ e, e ∈ fs → ∃ l, e = Ev.fdt l) ∧ KeepsAge 0 fs ∧
        ∃ s rest', rest = Ev.pkt s :: rest')
    (hclose : CloseOK c o (pktSyms pre).reverse post)
    (hend : AllDec c o (pktSyms (pre ++ Ev.fdt true :: post))) :
    1 ≤ (runObj c.canDecode rc o {} (pre ++ Ev.fdt true :: post)).completes := by
  rw [runObj_append]
  simp only [runObj]
  have h1 := run_noclose c rc o hN hfit pre {} []
    (fun s hs => ⟨hgen s (List.mem_append_left _ hs), hpre s hs⟩) (good_init c o)
  simp only [List.append_nil] at h1
  have hgen_post : ∀ s, Ev.pkt s ∈ post → Genuine o s :=
    fun s hs => hgen s (List.mem_append_right _ (List.mem_cons_of_mem _ hs))
  have hend' : AllDec c o ((pktSyms post).reverse ++ (pktSyms pre).reverse) := by
    apply allDec_mono c o _ _ _ hend
    intro q hq
    rw [pktSyms_append] at hq
    simp only [pktSyms, List.mem_append] at hq
    simp only [List.mem_append, List.mem_reverse]
    rcases hq with h | h
    · exact Or.inr h
    · exact Or.inl h
  rcases h1 with h1 | h1
  · exact Nat.le_trans (Nat.le_trans h1 (stepObj_completes_ge c rc o _ _)) (runObj_completes_ge c rc o _ _)
  · cases hobj : (runObj c.canDecode rc o {} pre).obj with
    | some rx =>
      have h2 := fdt_attaches c rc o hN hfit _ _ rx h1 hobj
      have h3 := run_good2 c rc o hN hfit post _ _ hgen_post hclose h2
      exact good2_end c o _ _ h3 hend'
    | none =>
      have hP : (pktSyms pre).reverse = [] := by
        have := h1.obj; simpa [hobj] using this
      have hnopre : ∀ s, ¬ Ev.pkt s ∈ pre := by
        intro s hs
        have : s ∈ (pktSyms pre).reverse := by simp [mem_pktSyms, hs]
        rw [hP] at this; simp at this
      rcases hatt with ⟨s, hs⟩ | ⟨fs, rest, hpost, hfs, hlen, s, rest', hrest⟩
      · exact absurd hs (hnopre s)
      · rw [hP] at h1 hclose hend'
        -- state after the FDT event: no object, attachable
        have hst : stepObj c.canDecode rc o (runObj c.canDecode rc o {} pre) (.fdt true) =
            { (runObj c.canDecode rc o {} pre) with
                completed := (runObj c.canDecode rc o {} pre).completed && true,
                age := ageStep (runObj c.canDecode rc o {} pre).age true } := by
          simp only [stepObj, fdtEv, hobj]
        rw [hst, hpost, runObj_append]
        have hphase := run_fdts_none c rc o fs
          { (runObj c.canDecode rc o {} pre) with
              completed := (runObj c.canDecode rc o {} pre).completed && true,
              age := ageStep (runObj c.canDecode rc o {} pre).age true } 0 hfs
          ⟨by simp [h1.notDone], by simp [hobj]⟩ (by simp [hobj]) (by simp [ageStep]) hlen
        obtain ⟨p1, p2, p3, _⟩ := hphase
        have hcl2 : CloseOK c o [] rest := closeOK_fdts c o [] fs rest hfs (by rw [← hpost]; exact hclose)
        subst hrest
        obtain ⟨hc1, hc2⟩ := hcl2
        have hgs : Genuine o s := hgen_post s (by rw [hpost]; simp)
        have hgr : ∀ q, Ev.pkt q ∈ rest' → Genuine o q := fun q hq => hgen_post q (by rw [hpost]; simp [hq])
        have hend2 : AllDec c o ((pktSyms rest').reverse ++ [s]) := by
          apply allDec_mono c o _ _ _ hend'
          intro q hq
          rw [hpost, pktSyms_append, pktSyms_fdts fs hfs] at hq
          simpa [pktSyms, or_comm] using hq
        simp only [runObj]
        by_cases hclose_s : s.close = true
        · have := stepObj_close c rc o hN hfit _ s [] hgs p1 (Or.inr ⟨p2, p3⟩) (hc1 hclose_s)
          exact Nat.le_trans this (runObj_completes_ge c rc o _ _)
        · have h2 := created_attached c rc o hN hfit _ s hgs (by simpa using hclose_s) p1 p2 p3
          have h3 := run_good2 c rc o hN hfit rest' _ _ hgr hc2 h2
          exact good2_end c o _ _ h3 hend2

end Flute.Lemmas.Session
