import FluteModel.Lemmas.RecvSkew
/-
  C19 `skew_invariant`, state level: every function of the receiver model commutes with `shiftS`.
-/
namespace Flute.Recv
variable {σ : Type}

/-! ### association lists under a map on the values -/

theorem alookup_map {α β} (g : α → β) (k : Nat) (l : List (Nat × α)) :
    alookup k (l.map (fun kf => (kf.1, g kf.2))) = (alookup k l).map g := by
  induction l with
  | nil => rfl
  | cons a r ih =>
    obtain ⟨k', v⟩ := a
    by_cases h : k' = k <;> simp [alookup, h, ih]

theorem ainsert_map {α β} (g : α → β) (k : Nat) (v : α) (l : List (Nat × α)) :
    ainsert k (g v) (l.map (fun kf => (kf.1, g kf.2))) = (ainsert k v l).map (fun kf => (kf.1, g kf.2)) := by
  induction l with
  | nil => rfl
  | cons a r ih =>
    obtain ⟨k', v'⟩ := a
    by_cases h : k' = k <;> simp [ainsert, h, ih]

theorem aerase_map {α β} (g : α → β) (k : Nat) (l : List (Nat × α)) :
    aerase k (l.map (fun kf => (kf.1, g kf.2))) = (aerase k l).map (fun kf => (kf.1, g kf.2)) := by
  induction l with
  | nil => rfl
  | cons a r ih =>
    obtain ⟨k', v'⟩ := a
    by_cases h : k' = k <;> simp [aerase, h, ih]

/-! ### functions that ignore the FDT registries -/

/-- two states agree on everything but the FDT registries -/
structure CoreEq (s s2 : State σ) : Prop where
  cfg : s2.cfg = s.cfg
  objects : s2.objects = s.objects
  completed : s2.completed = s.completed
  errors : s2.errors = s.errors
  ci : s2.closedImminent = s.closedImminent

theorem State.ext' {s s2 : State σ} (h : CoreEq s s2) (h1 : s2.fdtReceivers = s.fdtReceivers)
    (h2 : s2.fdtCurrent = s.fdtCurrent) : s2 = s := by
  obtain ⟨a1, a2, a3, a4, a5, a6, a7⟩ := s
  obtain ⟨b1, b2, b3, b4, b5, b6, b7⟩ := s2
  obtain ⟨c1, c2, c3, c4, c5⟩ := h
  simp only [] at c1 c2 c3 c4 c5 h1 h2
  subst c1 c2 c3 c4 c5 h1 h2
  rfl

theorem removeObject_core (I : ObjIface σ) {s s2 : State σ} (t : Nat) (h : CoreEq s s2) :
    CoreEq (removeObject I s t).1 (removeObject I s2 t).1 ∧ (removeObject I s2 t).2 = (removeObject I s t).2 := by
  obtain ⟨a1, a2, a3, a4, a5, a6, a7⟩ := s
  obtain ⟨b1, b2, b3, b4, b5, b6, b7⟩ := s2
  obtain ⟨c1, c2, c3, c4, c5⟩ := h
  simp only [] at c1 c2 c3 c4 c5
  subst c1 c2 c3 c4 c5
  simp only [removeObject]
  cases alookup t b2 <;> exact ⟨⟨rfl, rfl, rfl, rfl, rfl⟩, rfl⟩

theorem gcObjectError_core (I : ObjIface σ) (fuel : Nat) {s s2 : State σ} (h : CoreEq s s2) :
    CoreEq (gcObjectError I fuel s).1 (gcObjectError I fuel s2).1 ∧
      (gcObjectError I fuel s2).2 = (gcObjectError I fuel s).2 := by
  induction fuel generalizing s s2 with
  | zero => exact ⟨h, rfl⟩
  | succ n ih =>
    obtain ⟨a1, a2, a3, a4, a5, a6, a7⟩ := s
    obtain ⟨b1, b2, b3, b4, b5, b6, b7⟩ := s2
    obtain ⟨c1, c2, c3, c4, c5⟩ := h
    simp only [] at c1 c2 c3 c4 c5
    subst c1 c2 c3 c4 c5
    cases b4 with
    | nil =>
      simp only [gcObjectError]
      split <;> exact ⟨⟨rfl, rfl, rfl, rfl, rfl⟩, rfl⟩
    | cons toi rest =>
      simp only [gcObjectError]
      split
      · have h1 := removeObject_core I (s := ⟨b1, b2, b3, rest, a5, a6, b7⟩) (s2 := ⟨b1, b2, b3, rest, b5, b6, b7⟩) toi
          ⟨rfl, rfl, rfl, rfl, rfl⟩
        have h2 := ih h1.1
        exact ⟨h2.1, by rw [h1.2, h2.2]⟩
      · exact ⟨⟨rfl, rfl, rfl, rfl, rfl⟩, rfl⟩

theorem checkObjectState_core (I : ObjIface σ) {s s2 : State σ} (t : Nat) (h : CoreEq s s2) :
    CoreEq (checkObjectState I s t).1 (checkObjectState I s2 t).1 ∧
      (checkObjectState I s2 t).2 = (checkObjectState I s t).2 := by
  obtain ⟨a1, a2, a3, a4, a5, a6, a7⟩ := s
  obtain ⟨b1, b2, b3, b4, b5, b6, b7⟩ := s2
  obtain ⟨c1, c2, c3, c4, c5⟩ := h
  simp only [] at c1 c2 c3 c4 c5
  subst c1 c2 c3 c4 c5
  simp only [checkObjectState]
  cases alookup t b2 with
  | none => exact ⟨⟨rfl, rfl, rfl, rfl, rfl⟩, rfl⟩
  | some o =>
    simp only []
    cases I.state o with
    | receiving => exact ⟨⟨rfl, rfl, rfl, rfl, rfl⟩, rfl⟩
    | completed =>
      simp only []
      apply removeObject_core
      split <;> exact ⟨rfl, rfl, rfl, rfl, rfl⟩
    | interrupted =>
      simp only []
      have h2 := gcObjectError_core I (sinsert t b4).length
        (s := ⟨b1, b2, b3, sinsert t b4, a5, a6, b7⟩) (s2 := ⟨b1, b2, b3, sinsert t b4, b5, b6, b7⟩)
        ⟨rfl, rfl, rfl, rfl, rfl⟩
      have h3 := removeObject_core I t h2.1
      exact ⟨h3.1, by rw [h2.2, h3.2]⟩
    | error =>
      simp only []
      have h2 := gcObjectError_core I (sinsert t b4).length
        (s := ⟨b1, b2, b3, sinsert t b4, a5, a6, b7⟩) (s2 := ⟨b1, b2, b3, sinsert t b4, b5, b6, b7⟩)
        ⟨rfl, rfl, rfl, rfl, rfl⟩
      have h3 := removeObject_core I t h2.1
      exact ⟨h3.1, by rw [h2.2, h3.2]⟩

theorem checkObjectStates_core (I : ObjIface σ) (l : List Nat) {s s2 : State σ} (h : CoreEq s s2) :
    CoreEq (checkObjectStates I s l).1 (checkObjectStates I s2 l).1 ∧
      (checkObjectStates I s2 l).2 = (checkObjectStates I s l).2 := by
  induction l generalizing s s2 with
  | nil => exact ⟨h, rfl⟩
  | cons t ts ih =>
    simp only [checkObjectStates]
    have h1 := checkObjectState_core I t h
    have h2 := ih h1.1
    exact ⟨h2.1, by rw [h1.2, h2.2]⟩

theorem removeObjects_core (I : ObjIface σ) (l : List Nat) {s s2 : State σ} (h : CoreEq s s2) :
    CoreEq (removeObjects I s l).1 (removeObjects I s2 l).1 ∧
      (removeObjects I s2 l).2 = (removeObjects I s l).2 := by
  induction l generalizing s s2 with
  | nil => exact ⟨h, rfl⟩
  | cons t ts ih =>
    obtain ⟨a1, a2, a3, a4, a5, a6, a7⟩ := s
    obtain ⟨b1, b2, b3, b4, b5, b6, b7⟩ := s2
    obtain ⟨c1, c2, c3, c4, c5⟩ := h
    simp only [] at c1 c2 c3 c4 c5
    subst c1 c2 c3 c4 c5
    simp only [removeObjects]
    have h1 := removeObject_core I (s := ⟨b1, b2, b3, b4.filter (· ≠ t), a5, a6, b7⟩)
      (s2 := ⟨b1, b2, b3, b4.filter (· ≠ t), b5, b6, b7⟩) t ⟨rfl, rfl, rfl, rfl, rfl⟩
    have h2 := ih h1.1
    exact ⟨h2.1, by rw [h1.2, h2.2]⟩

theorem cleanupObjects_core (I : ObjIface σ) (stale : Nat → Bool) {s s2 : State σ} (h : CoreEq s s2) :
    CoreEq (cleanupObjects I s stale).1 (cleanupObjects I s2 stale).1 ∧
      (cleanupObjects I s2 stale).2 = (cleanupObjects I s stale).2 := by
  have hc := h.cfg
  have ho := h.objects
  unfold cleanupObjects
  rw [hc, ho]
  by_cases ht : ¬ s.cfg.objectTimeout = true
  · rw [if_pos ht, if_pos ht]; exact ⟨h, rfl⟩
  · rw [if_neg ht, if_neg ht]; exact removeObjects_core I _ h

theorem coreEq_shiftS (δ : Int) (s : State σ) : CoreEq s (shiftS δ s) := ⟨rfl, rfl, rfl, rfl, rfl⟩

/-- a function that ignores and preserves the FDT registries commutes with the shift -/
theorem shift_of_frame (δ : Int) (s : State σ) (F : State σ → State σ × List Ev)
    (hcore : ∀ s s2 : State σ, CoreEq s s2 → CoreEq (F s).1 (F s2).1 ∧ (F s2).2 = (F s).2)
    (hfr : ∀ s : State σ, (F s).1.fdtCurrent = s.fdtCurrent ∧ (F s).1.fdtReceivers = s.fdtReceivers) :
    F (shiftS δ s) = (shiftS δ (F s).1, (F s).2) := by
  have h := hcore s (shiftS δ s) (coreEq_shiftS δ s)
  have h1 := hfr (shiftS δ s)
  have h0 := hfr s
  apply Prod.ext
  · simp only []
    apply State.ext'
    · exact ⟨by rw [h.1.cfg]; rfl, by rw [h.1.objects]; rfl, by rw [h.1.completed]; rfl,
        by rw [h.1.errors]; rfl, by rw [h.1.ci]; rfl⟩
    · rw [h1.2]; simp only [shiftS]; rw [h0.2]
    · rw [h1.1]; simp only [shiftS]; rw [h0.1]
  · exact h.2


/-! ### functions that read `fdt_current` -/

theorem attachLatest_shift (δ : Int) (I : ObjIface σ) (s : State σ) :
    attachLatest I (shiftS δ s) = (shiftS δ (attachLatest I s).1, (attachLatest I s).2) := by
  cases hcur : s.fdtCurrent with
  | nil =>
    have h1 : (shiftS δ s).fdtCurrent = [] := by simp [shiftS, hcur]
    simp only [attachLatest, hcur, h1]
  | cons f r =>
    have h1 : (shiftS δ s).fdtCurrent = shiftF δ f :: r.map (shiftF δ) := by simp [shiftS, hcur]
    cases hinst : f.inst with
    | none =>
      have h2 : (shiftF δ f).inst = none := by rw [shiftF_inst, hinst]
      simp only [attachLatest, hcur, h1, hinst, h2]
    | some inst =>
      have h2 : (shiftF δ f).inst = some inst := by rw [shiftF_inst, hinst]
      simp only [attachLatest, hcur, h1, hinst, h2, shiftF_fdtId]
      have key := shift_of_frame δ { s with objects := (attachAll I f.fdtId inst s.objects).1, fdtCurrent := f :: r }
        (fun st => checkObjectStates I st (attachAll I f.fdtId inst s.objects).2.1)
        (fun a b h => checkObjectStates_core I _ h)
        (fun a => ⟨(checkObjectStates_fdt I a _).1, (checkObjectStates_fdt I a _).2.1⟩)
      show ((checkObjectStates I (shiftS δ { s with objects := (attachAll I f.fdtId inst s.objects).1, fdtCurrent := f :: r })
              (attachAll I f.fdtId inst s.objects).2.1).1,
            (attachAll I f.fdtId inst s.objects).2.2 ++
              (checkObjectStates I (shiftS δ { s with objects := (attachAll I f.fdtId inst s.objects).1, fdtCurrent := f :: r })
                (attachAll I f.fdtId inst s.objects).2.1).2) = _
      rw [key]

theorem gcObjectCompleted_shift (δ : Int) (s : State σ) :
    gcObjectCompleted (shiftS δ s) = shiftS δ (gcObjectCompleted s) := by
  cases hcur : s.fdtCurrent with
  | nil =>
    have h1 : (shiftS δ s).fdtCurrent = [] := by simp [shiftS, hcur]
    simp only [gcObjectCompleted, hcur, h1]
  | cons f r =>
    have h1 : (shiftS δ s).fdtCurrent = shiftF δ f :: r.map (shiftF δ) := by simp [shiftS, hcur]
    cases hinst : f.inst with
    | none =>
      have h2 : (shiftF δ f).inst = none := by rw [shiftF_inst, hinst]
      simp only [gcObjectCompleted, hcur, h1, hinst, h2]
    | some inst =>
      have h2 : (shiftF δ f).inst = some inst := by rw [shiftF_inst, hinst]
      simp only [gcObjectCompleted, hcur, h1, hinst, h2]
      cases inst.files <;> rfl

theorem updateCompletedCc_shift (δ : Int) (s : State σ) :
    updateCompletedCc (shiftS δ s) = (shiftS δ (updateCompletedCc s).1, (updateCompletedCc s).2) := by
  cases hcur : s.fdtCurrent with
  | nil =>
    have h1 : (shiftS δ s).fdtCurrent = [] := by simp [shiftS, hcur]
    simp only [updateCompletedCc, hcur, h1]
  | cons f r =>
    have h1 : (shiftS δ s).fdtCurrent = shiftF δ f :: r.map (shiftF δ) := by simp [shiftS, hcur]
    cases hinst : f.inst with
    | none =>
      have h2 : (shiftF δ f).inst = none := by rw [shiftF_inst, hinst]
      simp only [updateCompletedCc, hcur, h1, hinst, h2]
    | some inst =>
      have h2 : (shiftF δ f).inst = some inst := by rw [shiftF_inst, hinst]
      simp only [updateCompletedCc, hcur, h1, hinst, h2]
      cases inst.files <;> rfl

/-- result of a call with the state shifted -/
def mapRes (δ : Int) : Rs (State σ × Res × List Ev) → Rs (State σ × Res × List Ev)
  | .ok (s, r, e) => .ok (shiftS δ s, r, e)
  | .error w => .error w

theorem createScan_shift (δ : Int) (I : ObjIface σ) (toi : Nat) (now : Int) (hn : TimeSane now)
    (hn' : TimeSane (now + δ)) :
    ∀ (l : List (FdtRecv σ)) (o : σ), (∀ f ∈ l, SkewOK δ f) →
      createScan I toi (now + δ) o (l.map (shiftF δ)) =
        (match createScan I toi now o l with
         | .ok (o', l', ev) => .ok (o', l'.map (shiftF δ), ev)
         | .error w => .error w) := by
  intro l
  induction l with
  | nil => intro o _; rfl
  | cons f r ih =>
    intro o hall
    have hf := hall f (by simp)
    have hr : ∀ g ∈ r, SkewOK δ g := fun g hg => hall g (List.mem_cons_of_mem _ hg)
    simp only [List.map_cons]
    unfold createScan
    rw [updateExpired_shiftF δ f now hn hn' hf]
    cases f.updateExpired now with
    | error w => rfl
    | ok f' =>
      simp only [shiftF_st, shiftF_inst, shiftF_fdtId]
      cases hatt : (if f'.st = FdtState.complete then
          match f'.inst with
          | some inst => some (I.attachFdt o f'.fdtId inst)
          | none => none
        else none) with
      | none =>
        simp only []
        rw [ih o hr]
        cases createScan I toi now o r with
        | error w => rfl
        | ok x => obtain ⟨o2, r2, e2⟩ := x; rfl
      | some x =>
        obtain ⟨o1, b, evs1⟩ := x
        cases b with
        | true => simp only [List.map_cons]
        | false =>
          simp only []
          rw [ih o1 hr]
          cases createScan I toi now o1 r with
          | error w => rfl
          | ok x => obtain ⟨o2, r2, e2⟩ := x; rfl


theorem createObj_shift (δ : Int) (I : ObjIface σ) (s : State σ) (toi : Nat) (now : Int)
    (hn : TimeSane now) (hn' : TimeSane (now + δ)) (hall : ∀ f ∈ s.fdtCurrent, SkewOK δ f) :
    createObj I (shiftS δ s) toi (now + δ) =
      (match createObj I s toi now with
       | .ok (s', ev) => .ok (shiftS δ s', ev)
       | .error w => .error w) := by
  unfold createObj
  have h1 : (shiftS δ s).fdtCurrent = s.fdtCurrent.map (shiftF δ) := rfl
  have h2 : (shiftS δ s).cfg = s.cfg := rfl
  rw [h1, h2, createScan_shift δ I toi now hn hn' s.fdtCurrent _ hall]
  cases createScan I toi now (I.new toi s.cfg.maxCache) s.fdtCurrent with
  | error w => rfl
  | ok x => obtain ⟨o, cur, evs⟩ := x; rfl

theorem pushObjCore_shift (δ : Int) (I : ObjIface σ) (s : State σ) (p : Pkt) (now : Int)
    (hn : TimeSane now) (hn' : TimeSane (now + δ)) (hall : ∀ f ∈ s.fdtCurrent, SkewOK δ f) :
    pushObjCore I (shiftS δ s) p (now + δ) = mapRes δ (pushObjCore I s p now) := by
  unfold pushObjCore
  simp only []
  have h1 : (shiftS δ s).objects = s.objects := rfl
  rw [h1]
  have hcreated : (if (alookup p.toi s.objects).isNone = true then createObj I (shiftS δ s) p.toi (now + δ)
        else Except.ok (shiftS δ s, [])) =
      (match (if (alookup p.toi s.objects).isNone = true then createObj I s p.toi now else Except.ok (s, [])) with
       | .ok (s', ev) => .ok (shiftS δ s', ev)
       | .error w => .error w) := by
    split
    · exact createObj_shift δ I s p.toi now hn hn' hall
    · rfl
  rw [hcreated]
  cases (if (alookup p.toi s.objects).isNone = true then createObj I s p.toi now else Except.ok (s, [])) with
  | error w => rfl
  | ok x =>
    obtain ⟨s1, e0⟩ := x
    simp only []
    have h2 : (shiftS δ s1).objects = s1.objects := rfl
    rw [h2]
    cases alookup p.toi s1.objects with
    | none => rfl
    | some o =>
      simp only []
      have key := shift_of_frame δ { s1 with objects := ainsert p.toi (I.push o p).1 s1.objects }
        (fun st => checkObjectState I st p.toi)
        (fun a b h => checkObjectState_core I _ h)
        (fun a => ⟨(checkObjectState_fdt I a _).1, (checkObjectState_fdt I a _).2.1⟩)
      show (Except.ok ((checkObjectState I (shiftS δ { s1 with objects := ainsert p.toi (I.push o p).1 s1.objects }) p.toi).1, Res.ok,
          e0 ++ wevs p.toi (I.push o p).2 ++
            (checkObjectState I (shiftS δ { s1 with objects := ainsert p.toi (I.push o p).1 s1.objects }) p.toi).2) : Rs _) = _
      rw [key]
      rfl

theorem gateCompleted_shift (δ : Int) (s : State σ) (p : Pkt) :
    gateCompleted (shiftS δ s) p =
      (match gateCompleted s p with | .inl s1 => .inl (shiftS δ s1) | .inr r => .inr r) := by
  unfold gateCompleted
  have h1 : (shiftS δ s).completed = s.completed := rfl
  have h2 : (shiftS δ s).cfg = s.cfg := rfl
  rw [h1, h2]
  split
  · split
    · rfl
    · cases p.pid with
      | none => rfl
      | some x =>
        obtain ⟨sbn, esi⟩ := x
        simp only []
        split <;> rfl
  · rfl

theorem gateError_shift (δ : Int) (s : State σ) (p : Pkt) :
    gateError (shiftS δ s) p =
      (match gateError s p with | .inl s1 => .inl (shiftS δ s1) | .inr r => .inr r) := by
  unfold gateError
  have h1 : (shiftS δ s).errors = s.errors := rfl
  rw [h1]
  split
  · cases p.pid with
    | none => rfl
    | some x =>
      obtain ⟨sbn, esi⟩ := x
      simp only []
      split <;> rfl
  · rfl

theorem pushObj_shift (δ : Int) (I : ObjIface σ) (s : State σ) (p : Pkt) (now : Int)
    (hn : TimeSane now) (hn' : TimeSane (now + δ)) (hall : ∀ f ∈ s.fdtCurrent, SkewOK δ f) :
    pushObj I (shiftS δ s) p (now + δ) = mapRes δ (pushObj I s p now) := by
  unfold pushObj
  rw [gateCompleted_shift]
  cases hg1 : gateCompleted s p with
  | inr r => rfl
  | inl s1 =>
    simp only []
    rw [gateError_shift]
    cases hg2 : gateError s1 p with
    | inr r => rfl
    | inl s2 =>
      simp only []
      have hc : s2.fdtCurrent = s.fdtCurrent := by
        rw [(gateError_fdt hg2).1, (gateCompleted_fdt hg1).1]
      exact pushObjCore_shift δ I s2 p now hn hn' (by rw [hc]; exact hall)

theorem chronoConv_sane (t : Int) (h : -4611686018427387904 ≤ t ∧ t < 4611686018427387904 + 4294967296000000) :
    chronoConv t = .ok () := by
  unfold chronoConv chronoLimit
  rw [if_pos (by omega)]

theorem shiftF_new (δ : Int) (I : ObjIface σ) (id : Nat) (chk : Bool) :
    shiftF δ (FdtRecv.new I id chk) = FdtRecv.new I id chk := rfl

theorem shiftF_fti (δ : Int) (f : FdtRecv σ) : (shiftF δ f).fti = f.fti := by
  unfold shiftF; split <;> rfl

theorem shiftF_noteFti (δ : Int) (f : FdtRecv σ) (v : Option Fti) :
    shiftF δ (f.noteFti v) = (shiftF δ f).noteFti v := by
  cases f with
  | mk fdtId obj st0 expires inst utf8 offset late check hasMeta bytes fti =>
    cases fti <;> cases offset <;> rfl

theorem skewOK_noteFti (δ : Int) (f : FdtRecv σ) (v : Option Fti) (h : SkewOK δ f) :
    SkewOK δ (f.noteFti v) := by
  have hf := noteFti_fields f v
  rcases h with ⟨so, hso, hb⟩ | ⟨hnone, hrecv⟩
  · left
    refine ⟨so, ?_, hb⟩
    unfold FdtRecv.signedOffset at hso ⊢
    rw [hf.2.2.2.2.2.2.1, hf.2.2.2.2.2.2.2.1]; exact hso
  · right
    exact ⟨by rw [hf.2.2.2.2.2.2.1]; exact hnone, by rw [hf.2.2.1]; exact hrecv⟩

theorem fdtEntry_shift (δ : Int) (I : ObjIface σ) (s : State σ) (id : Nat) (p : Pkt) :
    fdtEntry I (shiftS δ s) id p = (shiftS δ (fdtEntry I s id p).1, shiftF δ (fdtEntry I s id p).2) := by
  unfold fdtEntry
  have h1 : (shiftS δ s).fdtReceivers = s.fdtReceivers.map (fun kf => (kf.1, shiftF δ kf.2)) := rfl
  have h2 : (shiftS δ s).cfg = s.cfg := rfl
  rw [h1, h2, alookup_map]
  cases alookup id s.fdtReceivers with
  | some f =>
    simp only [Option.map_some]
    rw [shiftF_noteFti]
  | none =>
    simp only [Option.map_none]
    rw [shiftF_noteFti, shiftF_new, ← shiftF_new δ I id s.cfg.expCheck, ainsert_map]
    rfl

theorem dropConflict_shift (δ : Int) (s : State σ) (p : Pkt) :
    dropConflict (shiftS δ s) p = shiftS δ (dropConflict s p) := by
  unfold dropConflict
  cases p.fdtId with
  | none => rfl
  | some id =>
    simp only []
    have h1 : (shiftS δ s).fdtReceivers = s.fdtReceivers.map (fun kf => (kf.1, shiftF δ kf.2)) := rfl
    rw [h1, alookup_map]
    cases alookup id s.fdtReceivers with
    | none => rfl
    | some f =>
      simp only [Option.map_some]
      have hc : (shiftF δ f).ftiConflicts p = f.ftiConflicts p := by
        unfold FdtRecv.ftiConflicts; rw [shiftF_fti]
      rw [shiftF_st, hc]
      split
      · simp only [shiftS, aerase_map]
      · rfl


theorem map_dropLast' {α β} (g : α → β) (l : List α) : (l.map g).dropLast = l.dropLast.map g := by
  induction l with
  | nil => rfl
  | cons a r ih =>
    cases r with
    | nil => rfl
    | cons b t => simp only [List.map_cons, List.dropLast_cons_cons] at ih ⊢; rw [ih]

theorem prevIdCheck_shift (δ : Int) (l : List (FdtRecv σ)) :
    prevIdCheck (l.map (shiftF δ)) = prevIdCheck l := by
  cases l with
  | nil => rfl
  | cons a r => simp only [List.map_cons, prevIdCheck, shiftF_fdtId]

theorem fdtCb_shift (δ : Int) (f : FdtRecv σ) (id : Nat) : fdtCb (shiftF δ f) id = fdtCb f id := by
  unfold fdtCb
  rw [shiftF_utf8, shiftF_hasMeta]

theorem fdtCompleted_shift (δ : Int) (I : ObjIface σ) (s : State σ) (id : Nat) :
    fdtCompleted I (shiftS δ s) id = mapRes δ (fdtCompleted I s id) := by
  unfold fdtCompleted
  have h1 : (shiftS δ s).fdtCurrent = s.fdtCurrent.map (shiftF δ) := rfl
  have h2 : (shiftS δ s).fdtReceivers = s.fdtReceivers.map (fun kf => (kf.1, shiftF δ kf.2)) := rfl
  rw [h1, prevIdCheck_shift]
  cases prevIdCheck s.fdtCurrent with
  | error w => rfl
  | ok _ =>
    simp only []
    rw [h2, alookup_map]
    cases alookup id s.fdtReceivers with
    | none => rfl
    | some f =>
      simp only [Option.map_some]
      rw [fdtCb_shift]
      cases fdtCb f id with
      | error w => rfl
      | ok e0 =>
        simp only []
        have hs0 : ({ shiftS δ s with
              fdtReceivers := aerase id (s.fdtReceivers.map (fun kf => (kf.1, shiftF δ kf.2))),
              fdtCurrent := shiftF δ f :: s.fdtCurrent.map (shiftF δ) } : State σ) =
            shiftS δ { s with fdtReceivers := aerase id s.fdtReceivers, fdtCurrent := f :: s.fdtCurrent } := by
          simp only [shiftS, aerase_map, List.map_cons]
        rw [hs0, attachLatest_shift]
        simp only []
        rw [gcObjectCompleted_shift, updateCompletedCc_shift]
        simp only []
        have hlen : (shiftS δ (updateCompletedCc (gcObjectCompleted (attachLatest I
              { s with fdtReceivers := aerase id s.fdtReceivers, fdtCurrent := f :: s.fdtCurrent }).1)).1).fdtCurrent.length =
            (updateCompletedCc (gcObjectCompleted (attachLatest I
              { s with fdtReceivers := aerase id s.fdtReceivers, fdtCurrent := f :: s.fdtCurrent }).1)).1.fdtCurrent.length := by
          simp [shiftS]
        rw [hlen]
        split
        · simp only [mapRes, shiftS, map_dropLast']
        · rfl

theorem fdtDispatch_shift (δ : Int) (I : ObjIface σ) (s : State σ) (id : Nat) (f : FdtRecv σ)
    (now : Int) (hn : TimeSane now) (hn' : TimeSane (now + δ)) (hok : SkewOK δ f) :
    fdtDispatch I (shiftS δ s) id (shiftF δ f) (now + δ) = mapRes δ (fdtDispatch I s id f now) := by
  unfold fdtDispatch
  rw [shiftF_st]
  have her : ({ shiftS δ s with fdtReceivers := aerase id (shiftS δ s).fdtReceivers } : State σ) =
      shiftS δ { s with fdtReceivers := aerase id s.fdtReceivers } := by
    simp only [shiftS, aerase_map]
  cases hst : f.st with
  | receiving => rfl
  | error => simp only []; rw [her]; rfl
  | complete => exact fdtCompleted_shift δ I s id
  | expired =>
    simp only []
    rcases hok with hok | ⟨_, hrecv⟩
    · rw [serverTime_shiftF δ f now hn hn' hok, shiftF_expires]
      obtain ⟨so, hso, h1, h2, h3, h4⟩ := hok
      rw [serverTime_of_signed f now so hso h1 h2 hn]
      simp only []
      have e1 : chronoConv (f.expires.getD (now + δ)) = chronoConv (f.expires.getD now) := by
        cases hexp : f.expires with
        | some e => rfl
        | none =>
          simp only [Option.getD_none]
          unfold TimeSane at hn hn'
          rw [chronoConv_sane _ (by omega), chronoConv_sane _ (by omega)]
      rw [e1]
      cases chronoConv (f.expires.getD now) with
      | error w => rfl
      | ok _ =>
        simp only []
        cases chronoConv (now - so) with
        | error w => rfl
        | ok _ => simp only []; rw [her]; rfl
    · rw [hrecv] at hst; cases hst

/-- packets of FDT instances carry a sane sender-current-time -/
def SctOK (p : Pkt) : Prop :=
  p.toi = 0 → ∀ id, p.fdtId = some id → ∃ res, p.sct = some res ∧ 0 ≤ res ∧ res < 4294967296000000

theorem signedOffset_congr (f g : FdtRecv σ) (ho : g.offset = f.offset) (hl : g.late = f.late) :
    g.signedOffset = f.signedOffset := by
  unfold FdtRecv.signedOffset
  rw [ho, hl]

theorem signedOffset_observe (f : FdtRecv σ) (res now : Int) :
    (f.observeSct (some res) now).signedOffset = some (now - res) := by
  unfold FdtRecv.observeSct
  simp only []
  by_cases h : res < now
  · rw [if_pos h]
    simp only [FdtRecv.signedOffset, ↓reduceIte, Option.some.injEq]
    omega
  · rw [if_neg h]
    simp only [FdtRecv.signedOffset, Bool.false_eq_true, ↓reduceIte, Option.some.injEq]
    omega

theorem skewOK_push (δ : Int) (I : ObjIface σ) (f : FdtRecv σ) (p : Pkt) (now : Int) (ans : FdtAns)
    (res : Int) (hs : p.sct = some res) (hr : 0 ≤ res ∧ res < 4294967296000000)
    (hn : TimeSane now) (hn' : TimeSane (now + δ)) : SkewOK δ (f.push I p now ans) := by
  left
  have hp := push_fields I f p now ans
  refine ⟨now - res, ?_, ?_⟩
  · rw [signedOffset_congr _ _ hp.1 hp.2.1, hs, signedOffset_observe]
  · unfold TimeSane at hn hn'
    unfold offB
    omega

theorem skewOK_updateExpired (δ : Int) (f f' : FdtRecv σ) (now : Int) (h : SkewOK δ f)
    (hu : f.updateExpired now = .ok f') : SkewOK δ f' := by
  have hf := updateExpired_fields hu
  rcases h with ⟨so, hso, hb⟩ | ⟨hnone, hrecv⟩
  · left
    refine ⟨so, ?_, hb⟩
    unfold FdtRecv.signedOffset at hso ⊢
    rw [hf.2.2.2.2.1, hf.2.2.2.2.2.1]; exact hso
  · right
    have : ¬ (f.st = .complete ∧ f.check = true) := by rw [hrecv]; simp
    rw [updateExpired_neg f now this] at hu
    injection hu with hu; subst hu
    exact ⟨hnone, hrecv⟩

theorem pushFdtObjP_shift (δ : Int) (I : ObjIface σ) (s : State σ) (p : Pkt) (now : Int) (ans : FdtAns)
    (hn : TimeSane now) (hn' : TimeSane (now + δ))
    (hsct : ∀ id, p.fdtId = some id → ∃ res, p.sct = some res ∧ 0 ≤ res ∧ res < 4294967296000000) :
    pushFdtObj' I (shiftS δ s) p (now + δ) ans = mapRes δ (pushFdtObj' I s p now ans) := by
  unfold pushFdtObj'
  cases hid : p.fdtId with
  | none =>
    simp only []
    split
    · rfl
    · split <;> rfl
  | some id =>
    simp only []
    obtain ⟨res, hs, hr⟩ := hsct id hid
    have hany : (shiftS δ s).fdtCurrent.any (fun f => decide (f.fdtId = id)) =
        s.fdtCurrent.any (fun f => decide (f.fdtId = id)) := by
      simp only [shiftS, List.any_map]
      congr 1
      funext f
      simp only [Function.comp, shiftF_fdtId]
    have hcfg : (shiftS δ s).cfg = s.cfg := rfl
    rw [hany, hcfg]
    split
    · rfl
    · rw [fdtEntry_shift]
      simp only [shiftF_st]
      split
      · rfl
      · rw [← shiftF_push δ I _ p now ans res hs, shiftF_st]
        have hok : SkewOK δ ((fdtEntry I s id p).2.push I p now ans) :=
          skewOK_push δ I _ p now ans res hs hr hn hn'
        have hupd : (if ((fdtEntry I s id p).2.push I p now ans).st = FdtState.complete then
              (shiftF δ ((fdtEntry I s id p).2.push I p now ans)).updateExpired (now + δ)
            else Except.ok (shiftF δ ((fdtEntry I s id p).2.push I p now ans))) =
            (match (if ((fdtEntry I s id p).2.push I p now ans).st = FdtState.complete then
              ((fdtEntry I s id p).2.push I p now ans).updateExpired now
              else Except.ok ((fdtEntry I s id p).2.push I p now ans)) with
             | .ok f' => .ok (shiftF δ f') | .error w => .error w) := by
          split
          · exact updateExpired_shiftF δ _ now hn hn' hok
          · rfl
        rw [hupd]
        cases hu : (if ((fdtEntry I s id p).2.push I p now ans).st = FdtState.complete then
              ((fdtEntry I s id p).2.push I p now ans).updateExpired now
              else Except.ok ((fdtEntry I s id p).2.push I p now ans)) with
        | error w => rfl
        | ok f' =>
          simp only []
          have hok' : SkewOK δ f' := by
            split at hu
            · exact skewOK_updateExpired δ _ f' now hok hu
            · injection hu with hu; subst hu; exact hok
          have hst : ({ shiftS δ (fdtEntry I s id p).1 with
                fdtReceivers := ainsert id (shiftF δ f') (shiftS δ (fdtEntry I s id p).1).fdtReceivers } : State σ) =
              shiftS δ { (fdtEntry I s id p).1 with fdtReceivers := ainsert id f' (fdtEntry I s id p).1.fdtReceivers } := by
            simp only [shiftS, ainsert_map]
          rw [hst]
          exact fdtDispatch_shift δ I _ id f' now hn hn' hok'


theorem pushFdtObj_shift (δ : Int) (I : ObjIface σ) (s : State σ) (p : Pkt) (now : Int) (ans : FdtAns)
    (hn : TimeSane now) (hn' : TimeSane (now + δ))
    (hsct : ∀ id, p.fdtId = some id → ∃ res, p.sct = some res ∧ 0 ≤ res ∧ res < 4294967296000000) :
    pushFdtObj I (shiftS δ s) p (now + δ) ans = mapRes δ (pushFdtObj I s p now ans) := by
  unfold pushFdtObj
  rw [dropConflict_shift]
  exact pushFdtObjP_shift δ I _ p now ans hn hn' hsct

theorem updateExpiredAll_shift (δ : Int) (now : Int) (hn : TimeSane now) (hn' : TimeSane (now + δ)) :
    ∀ (l : List (Nat × FdtRecv σ)), (∀ kf ∈ l, SkewOK δ kf.2) →
      updateExpiredAll (now + δ) (l.map (fun kf => (kf.1, shiftF δ kf.2))) =
        (match updateExpiredAll now l with
         | .ok l' => .ok (l'.map (fun kf => (kf.1, shiftF δ kf.2)))
         | .error w => .error w) := by
  intro l
  induction l with
  | nil => intro _; rfl
  | cons a r ih =>
    intro hall
    obtain ⟨k, f⟩ := a
    simp only [List.map_cons]
    unfold updateExpiredAll
    rw [updateExpired_shiftF δ f now hn hn' (hall (k, f) (by simp))]
    cases f.updateExpired now with
    | error w => rfl
    | ok f' =>
      simp only []
      rw [ih (fun x hx => hall x (List.mem_cons_of_mem _ hx))]
      cases updateExpiredAll now r with
      | error w => rfl
      | ok r' => rfl

theorem filter_map_shift (δ : Int) (c : Bool) (st : Nat → Bool) (l : List (Nat × FdtRecv σ)) :
    (l.map (fun kf => (kf.1, shiftF δ kf.2))).filter
        (fun kf => decide (kf.2.st = FdtState.complete ∨
          (kf.2.st = FdtState.receiving ∧ ¬ (c = true ∧ kf.2.obj.isSome = true ∧ st kf.1 = true)))) =
      (l.filter (fun kf => decide (kf.2.st = FdtState.complete ∨
          (kf.2.st = FdtState.receiving ∧ ¬ (c = true ∧ kf.2.obj.isSome = true ∧ st kf.1 = true))))).map
        (fun kf => (kf.1, shiftF δ kf.2)) := by
  induction l with
  | nil => rfl
  | cons a r ih =>
    simp only [List.map_cons, List.filter_cons, shiftF_st, shiftF_obj]
    split
    · simp only [List.map_cons]; rw [ih]
    · exact ih

theorem cleanupFdt_shift (δ : Int) (s : State σ) (now : Int) (st : Nat → Bool) (hn : TimeSane now)
    (hn' : TimeSane (now + δ)) (hall : ∀ kf ∈ s.fdtReceivers, SkewOK δ kf.2) :
    cleanupFdt (shiftS δ s) (now + δ) st =
      (match cleanupFdt s now st with | .ok s' => .ok (shiftS δ s') | .error w => .error w) := by
  unfold cleanupFdt
  have h2 : (shiftS δ s).fdtReceivers = s.fdtReceivers.map (fun kf => (kf.1, shiftF δ kf.2)) := rfl
  have h3 : (shiftS δ s).cfg = s.cfg := rfl
  rw [h2, h3, updateExpiredAll_shift δ now hn hn' _ hall]
  cases updateExpiredAll now s.fdtReceivers with
  | error w => rfl
  | ok l =>
    simp only []
    rw [filter_map_shift]
    rfl

theorem cleanup_shift (δ : Int) (I : ObjIface σ) (s : State σ) (now : Int) (stale : Stale)
    (hn : TimeSane now) (hn' : TimeSane (now + δ)) (hall : ∀ kf ∈ s.fdtReceivers, SkewOK δ kf.2) :
    cleanup I (shiftS δ s) (now + δ) stale =
      (match cleanup I s now stale with | .ok (s', ev) => .ok (shiftS δ s', ev) | .error w => .error w) := by
  unfold cleanup
  have key := shift_of_frame δ s (fun st => cleanupObjects I st stale.obj)
    (fun a b h => cleanupObjects_core I stale.obj h)
    (fun a => ⟨(cleanupObjects_fdt I a stale.obj).1, (cleanupObjects_fdt I a stale.obj).2.1⟩)
  simp only [] at key ⊢
  rw [key]
  simp only []
  rw [cleanupFdt_shift δ _ now stale.fdt hn hn' (by rw [(cleanupObjects_fdt I s stale.obj).2.1]; exact hall)]
  cases cleanupFdt (cleanupObjects I s stale.obj).1 now stale.fdt with
  | error w => rfl
  | ok s2 => rfl

/-- what the skew theorem asks of one call of the history -/
def SkewHyp (δ : Int) (op : Op) : Prop :=
  TimeSane op.now ∧ TimeSane (op.now + δ) ∧
  ∀ p now ans, op = Op.data (.pkt p) now ans → SctOK p

/-- One call commutes with the shift of the receiver clock. -/
theorem step_shift (δ : Int) (I : ObjIface σ) (s : State σ) (op : Op) (hop : SkewHyp δ op)
    (hall : AllFdt (SkewOK δ) s) :
    step I (shiftS δ s) (shiftOp δ op) = mapRes δ (step I s op) := by
  obtain ⟨hn, hn', hsct⟩ := hop
  cases op with
  | data d now ans =>
    simp only [Op.now] at hn hn'
    simp only [shiftOp, step, pushData]
    cases d with
    | reject => rfl
    | otherTsi => rfl
    | pkt p =>
      simp only []
      unfold push
      simp only []
      have hcs : (if p.closeSession = true then ({ shiftS δ s with closedImminent := true } : State σ) else shiftS δ s) =
          shiftS δ (if p.closeSession = true then { s with closedImminent := true } else s) := by
        split <;> rfl
      rw [hcs]
      have hall' : AllFdt (SkewOK δ) (if p.closeSession = true then { s with closedImminent := true } else s) := by
        split <;> exact hall
      split
      · rename_i htoi
        exact pushFdtObj_shift δ I _ p now ans hn hn' (hsct p now ans rfl htoi)
      · exact pushObj_shift δ I _ p now hn hn' hall'.1
  | cleanup now stale =>
    simp only [Op.now] at hn hn'
    simp only [shiftOp, step]
    rw [cleanup_shift δ I s now stale hn hn' hall.2]
    cases cleanup I s now stale with
    | error w => rfl
    | ok x => obtain ⟨s', ev⟩ := x; rfl

/-- the invariant of the skew argument is preserved by every call -/
theorem step_skewOK (δ : Int) (I : ObjIface σ) (s s' : State σ) (op : Op) (r : Res) (evs : List Ev)
    (hop : SkewHyp δ op) (h : step I s op = .ok (s', r, evs)) (hall : AllFdt (SkewOK δ) s) :
    AllFdt (SkewOK δ) s' := by
  obtain ⟨hn, hn', hsct⟩ := hop
  refine (step_all I (SkewOK δ) s s' op r evs (skewOK_noteFti δ) ?_ ?_ ?_ h hall).1
  · intro p now ans id _ _
    right
    exact ⟨rfl, rfl⟩
  · intro p now ans hop htoi id hid f _
    obtain ⟨res, hs, hr⟩ := hsct p now ans hop htoi id hid
    subst hop
    exact skewOK_push δ I f p now ans res hs hr hn hn'
  · intro f f' hf hu
    exact skewOK_updateExpired δ f f' _ hf hu

/-- Histories: the run under the shifted clock is the shifted run. -/
theorem run_shift (δ : Int) (I : ObjIface σ) :
    ∀ (ops : List Op) (s : State σ), (∀ op ∈ ops, SkewHyp δ op) → AllFdt (SkewOK δ) s →
      run I (shiftS δ s) (ops.map (shiftOp δ)) =
        (match run I s ops with
         | some (s', out) => some (shiftS δ s', out)
         | none => none) := by
  intro ops
  induction ops with
  | nil => intro s _ _; rfl
  | cons op ops ih =>
    intro s hops hall
    have hop := hops op (by simp)
    simp only [List.map_cons, run]
    rw [step_shift δ I s op hop hall]
    cases hs : step I s op with
    | error w => rfl
    | ok x =>
      obtain ⟨s', r, ev⟩ := x
      simp only [mapRes]
      rw [ih s' (fun o ho => hops o (List.mem_cons_of_mem _ ho)) (step_skewOK δ I s s' op r ev hop hs hall)]
      cases run I s' ops with
      | none => rfl
      | some y => obtain ⟨s'', out⟩ := y; rfl

end Flute.Recv
