import FluteModel.Lemmas.RecvSkew
/-
  C19 `skew_invariant`, state level: every function of the receiver model commutes with `shiftS`.
-/
namespace Flute.Recv
variable {σ : Type}

/-! ### association lists under a map on the values -/

theorem alookup_map {α β} (g : α → β) (k : Nat) (l : List (Nat × α)) :
    alookup k (l.map (fun kf => (kf.1, g kf.2))) = (alookup k l).map g := by
  induction l with
  | nil => rfl
  | cons a r ih =>
    obtain ⟨k', v⟩ := a
    by_cases h : k' = k <;> simp [alookup, h, ih]

theorem ainsert_map {α β} (g : α → β) (k : Nat) (v : α) (l : List (Nat × α)) :
    ainsert k (g v) (l.map (fun kf => (kf.1, g kf.2))) = (ainsert k v l).map (fun kf => (kf.1, g kf.2)) := by
  induction l with
  | nil => rfl
  | cons a r ih =>
    obtain ⟨k', v'⟩ := a
    by_cases h : k' = k <;> simp [ainsert, h, ih]

theorem aerase_map {α β} (g : α → β) (k : Nat) (l : List (Nat × α)) :
    aerase k (l.map (fun kf => (kf.1, g kf.2))) = (aerase k l).map (fun kf => (kf.1, g kf.2)) := by
  induction l with
  | nil => rfl
  | cons a r ih =>
    obtain ⟨k', v'⟩ := a
    by_cases h : k' = k <;> simp [aerase, h, ih]

/-! ### functions that ignore the FDT registries -/

/-- two states agree on everything but the FDT registries -/
structure CoreEq (s s2 : State σ) : Prop where
  cfg : s2.cfg = s.cfg
  objects : s2.objects = s.objects
  completed : s2.completed = s.completed
  errors : s2.errors = s.errors
  ci : s2.closedImminent = s.closedImminent

theorem State.ext' {s s2 : State σ} (h : CoreEq s s2) (h1 : s2.fdtReceivers = s.fdtReceivers)
    (h2 : s2.fdtCurrent = s.fdtCurrent) : s2 = s := by
  obtain ⟨a1, a2, a3, a4, a5, a6, a7⟩ := s
  obtain ⟨b1, b2, b3, b4, b5, b6, b7⟩ := s2
  obtain ⟨c1, c2, c3, c4, c5⟩ := h
  simp only [] at c1 c2 c3 c4 c5 h1 h2
  subst c1 c2 c3 c4 c5 h1 h2
  rfl

theorem removeObject_core (I : ObjIface σ) {s s2 : State σ} (t : Nat) (h : CoreEq s s2) :
    CoreEq (removeObject I s t).1 (removeObject I s2 t).1 ∧ (removeObject I s2 t).2 = (removeObject I s t).2 := by
  unfold removeObject
  rw [h.objects]
  cases alookup t s.objects with
  | none => exact ⟨h, rfl⟩
  | some o => exact ⟨⟨h.cfg, by simp only []; rw [h.objects], h.completed, h.errors, h.ci⟩, rfl⟩

theorem gcObjectError_core (I : ObjIface σ) (fuel : Nat) {s s2 : State σ} (h : CoreEq s s2) :
    CoreEq (gcObjectError I fuel s).1 (gcObjectError I fuel s2).1 ∧
      (gcObjectError I fuel s2).2 = (gcObjectError I fuel s).2 := by
  induction fuel generalizing s s2 with
  | zero => exact ⟨h, rfl⟩
  | succ n ih =>
    unfold gcObjectError
    rw [h.errors, h.cfg]
    by_cases hlen : s.errors.length > s.cfg.maxObjectsError
    · rw [if_pos hlen, if_pos hlen]
      cases s.errors with
      | nil => exact ⟨h, rfl⟩
      | cons toi rest =>
        simp only []
        have h1 := removeObject_core I (s := { s with errors := rest }) (s2 := { s2 with errors := rest }) toi
          ⟨h.cfg, h.objects, h.completed, rfl, h.ci⟩
        have h2 := ih h1.1
        exact ⟨h2.1, by rw [h1.2, h2.2]⟩
    · rw [if_neg hlen, if_neg hlen]; exact ⟨h, rfl⟩

theorem checkObjectState_core (I : ObjIface σ) {s s2 : State σ} (t : Nat) (h : CoreEq s s2) :
    CoreEq (checkObjectState I s t).1 (checkObjectState I s2 t).1 ∧
      (checkObjectState I s2 t).2 = (checkObjectState I s t).2 := by
  unfold checkObjectState
  rw [h.objects]
  cases alookup t s.objects with
  | none => exact ⟨h, rfl⟩
  | some o =>
    simp only []
    cases I.state o with
    | receiving => exact ⟨h, rfl⟩
    | completed =>
      simp only []
      apply removeObject_core
      by_cases hcc : I.cacheControl o ≠ some CacheControl.noCache
      · rw [if_pos hcc, if_pos hcc]
        exact ⟨h.cfg, h.objects, by simp only []; rw [h.completed], h.errors, h.ci⟩
      · rw [if_neg hcc, if_neg hcc]; exact h
    | interrupted =>
      simp only []
      rw [h.errors]
      have h2 := gcObjectError_core I (sinsert t s.errors).length
        (s := { s with errors := sinsert t s.errors }) (s2 := { s2 with errors := sinsert t s.errors })
        ⟨h.cfg, h.objects, h.completed, rfl, h.ci⟩
      have h3 := removeObject_core I t h2.1
      exact ⟨h3.1, by rw [h2.2, h3.2]⟩
    | error =>
      simp only []
      rw [h.errors]
      have h2 := gcObjectError_core I (sinsert t s.errors).length
        (s := { s with errors := sinsert t s.errors }) (s2 := { s2 with errors := sinsert t s.errors })
        ⟨h.cfg, h.objects, h.completed, rfl, h.ci⟩
      have h3 := removeObject_core I t h2.1
      exact ⟨h3.1, by rw [h2.2, h3.2]⟩

theorem checkObjectStates_core (I : ObjIface σ) (l : List Nat) {s s2 : State σ} (h : CoreEq s s2) :
    CoreEq (checkObjectStates I s l).1 (checkObjectStates I s2 l).1 ∧
      (checkObjectStates I s2 l).2 = (checkObjectStates I s l).2 := by
  induction l generalizing s s2 with
  | nil => exact ⟨h, rfl⟩
  | cons t ts ih =>
    simp only [checkObjectStates]
    have h1 := checkObjectState_core I t h
    have h2 := ih h1.1
    exact ⟨h2.1, by rw [h1.2, h2.2]⟩

theorem removeObjects_core (I : ObjIface σ) (l : List Nat) {s s2 : State σ} (h : CoreEq s s2) :
    CoreEq (removeObjects I s l).1 (removeObjects I s2 l).1 ∧
      (removeObjects I s2 l).2 = (removeObjects I s l).2 := by
  induction l generalizing s s2 with
  | nil => exact ⟨h, rfl⟩
  | cons t ts ih =>
    simp only [removeObjects]
    have h1 := removeObject_core I (s := { s with errors := s.errors.filter (· ≠ t) })
      (s2 := { s2 with errors := s2.errors.filter (· ≠ t) }) t
      ⟨h.cfg, h.objects, h.completed, by simp only []; rw [h.errors], h.ci⟩
    have h2 := ih h1.1
    exact ⟨h2.1, by rw [h1.2, h2.2]⟩

theorem cleanupObjects_core (I : ObjIface σ) (stale : Nat → Bool) {s s2 : State σ} (h : CoreEq s s2) :
    CoreEq (cleanupObjects I s stale).1 (cleanupObjects I s2 stale).1 ∧
      (cleanupObjects I s2 stale).2 = (cleanupObjects I s stale).2 := by
  unfold cleanupObjects
  rw [h.cfg, h.objects]
  by_cases ht : ¬ s.cfg.objectTimeout = true
  · rw [if_pos ht, if_pos ht]; exact ⟨h, rfl⟩
  · rw [if_neg ht, if_neg ht]; exact removeObjects_core I _ h

theorem coreEq_shiftS (δ : Int) (s : State σ) : CoreEq s (shiftS δ s) := ⟨rfl, rfl, rfl, rfl, rfl⟩

/-- a function that ignores and preserves the FDT registries commutes with the shift -/
theorem shift_of_frame (δ : Int) (s : State σ) (F : State σ → State σ × List Ev)
    (hcore : ∀ s s2 : State σ, CoreEq s s2 → CoreEq (F s).1 (F s2).1 ∧ (F s2).2 = (F s).2)
    (hfr : ∀ s : State σ, (F s).1.fdtCurrent = s.fdtCurrent ∧ (F s).1.fdtReceivers = s.fdtReceivers) :
    F (shiftS δ s) = (shiftS δ (F s).1, (F s).2) := by
  have h := hcore s (shiftS δ s) (coreEq_shiftS δ s)
  have h1 := hfr (shiftS δ s)
  have h0 := hfr s
  apply Prod.ext
  · simp only []
    apply State.ext'
    · exact ⟨by rw [h.1.cfg]; rfl, by rw [h.1.objects]; rfl, by rw [h.1.completed]; rfl,
        by rw [h.1.errors]; rfl, by rw [h.1.ci]; rfl⟩
    · rw [h1.2]; simp only [shiftS]; rw [h0.2]
    · rw [h1.1]; simp only [shiftS]; rw [h0.1]
  · exact h.2

end Flute.Recv
