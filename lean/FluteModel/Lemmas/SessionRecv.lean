import FluteModel.Recv
import FluteModel.Lemmas.RecvBasic
import FluteModel.Lemmas.SessionStream
/-
  The session-level half of the receiver tie: the Session model's event extraction (`eventsFor`, `stepFdt`,
  `countFdt`) and per-object slice (`stepObj`, registries) versus agent recv's model of receiver.rs /
  fdtreceiver.rs (`Flute.Recv`, generic in the object interface `ObjIface`).

  The Session model's own object machine (`ORx`, `pushSym`, `attach`) is packaged as an `ObjIface`
  (`sobj`): `Recv.push` instantiated with it is then a second, independent description of what the receiver
  does with a packet stream - registries as association lists over ALL objects, the `create_obj` scan over
  `fdt_current`, `attach_latest_fdt_to_objects` over all objects, the `objects_completed` / `objects_error`
  gates, `gc_object_completed`, the `FdtReceiver` life cycle - against which the per-object projections of
  Session.lean are compared.
-/
namespace Flute.Lemmas.SessionRecv
open Flute Flute.Session Flute.Lemmas.Session

/-! ## the Session model's object as an `ObjIface` -/

/-- what an object implementation knows from outside the session-level model: the decoders, the receiver
    configuration, and what FTI / FDT say about each TOI (`obj`) and about each FDT instance id (`fdt`) -/
structure Env where
  decF : (k p : Nat) → List Nat → Bool
  decO : (k p : Nat) → List Nat → Bool
  rc : RxCfg
  obj : Nat → Option ObjCfg
  fdt : Nat → Option ObjCfg

structure SObj where
  toi : Nat
  /-- the object's description; for the object of an `FdtReceiver` (TOI 0) it is learnt from the instance id
      of the first packet -/
  cfg : Option ObjCfg
  rx : ORx
  term : Term

/-- `ObjectReceiver::push` without the session-level bookkeeping (`finish`) -/
def pushObjR (dec : (k p : Nat) → List Nat → Bool) (rc : RxCfg) (o : ObjCfg) (rx : ORx) (s : Sym) : PushRes :=
  let rx := if !rx.otiKnown && o.inbandFti then { rx with otiKnown := true } else rx
  if !rx.otiKnown then
    if cacheFull rc o rx.cache then { rx := rx, term := .error }
    else { rx := { rx with cache := s :: rx.cache }, term := .receiving }
  else pushSym dec rc o rx s

theorem pushObj_eq (dec : (k p : Nat) → List Nat → Bool) (rc : RxCfg) (o : ObjCfg) (st : OState) (rx : ORx) (s : Sym) :
    pushObj dec rc o st rx s = finish o st (pushObjR dec rc o rx s) := by
  unfold pushObj pushObjR
  dsimp only
  generalize (if (!rx.otiKnown && o.inbandFti) = true then ({ rx with otiKnown := true } : ORx) else rx) = rx'
  by_cases h : (!rx'.otiKnown) = true
  · rw [if_pos h, if_pos h]
    by_cases hc : cacheFull rc o rx'.cache = true
    · rw [if_pos hc, if_pos hc]
    · rw [if_neg hc, if_neg hc]
  · rw [if_neg h, if_neg h]

/-- the writer calls a terminal state causes (only an attached object has a writer) -/
def termEvs (attached : Bool) : Term → List Recv.WEv
  | .receiving => []
  | .completed => if attached then [.complete] else []
  | .interrupted => if attached then [.interrupted] else []
  | .error => if attached then [.error] else []

def stateOf : Term → Recv.ObjState
  | .receiving => .receiving
  | .completed => .completed
  | .interrupted => .interrupted
  | .error => .error

def symOf (p : Recv.Pkt) : Sym :=
  { sbn := (p.pid.getD (0, 0)).1, esi := (p.pid.getD (0, 0)).2, close := p.closeObject }

def sobj (E : Env) : Recv.ObjIface SObj where
  new toi _ :=
    { toi := toi, cfg := if toi = 0 then none else E.obj toi,
      rx := if toi = 0 then fdtFresh else rx0, term := .receiving }
  push σ p :=
    if σ.term ≠ .receiving then (σ, []) else
    let cfg := if σ.toi = 0 then (match σ.cfg with | some c => some c | none => p.fdtId.bind E.fdt) else σ.cfg
    match cfg with
    | none => (σ, [])
    | some o =>
      let r :=
        if σ.toi = 0 then pushSym E.decF { E.rc with maxSize := 1024 * 1024, pktCap := none } o σ.rx (symOf p)
        else pushObjR E.decO E.rc o σ.rx (symOf p)
      ({ σ with cfg := some o, rx := r.rx, term := r.term }, termEvs r.rx.attached r.term)
  attachFdt σ _ inst :=
    if σ.term ≠ .receiving ∨ σ.rx.attached = true then (σ, false, []) else
    match σ.cfg, inst.getFile σ.toi with
    | some o, some _ =>
      let r := attach E.decO E.rc o σ.rx
      ({ σ with rx := r.rx, term := r.term }, true,
        [.new (if o.noCache then .noCache else .maxStale), .opened] ++ termEvs r.rx.attached r.term)
    | _, _ => (σ, false, [])
  state σ := stateOf σ.term
  cacheControl σ :=
    if σ.rx.attached then (match σ.cfg with
      | some o => some (if o.noCache then .noCache else .maxStale)
      | none => none) else none
  drop _ := []

/-! ## feeding a Session packet stream to `Recv` -/

/-- the FDT instance as the XML parser hands it over: the File list (TOIs as decimal strings) -/
def fdtAbsOf (f : FdtCfg) : Recv.FdtAbs :=
  { expires := "4000000000",
    files := if f.files.isEmpty then none else
      some (f.files.map (fun t => { toi := toString t, cc := none, tlen := 0, oti := none })) }

def toRecvPkt (p : Pkt) : Recv.Pkt :=
  { toi := p.toi, closeObject := p.close, closeSession := false,
    fdtId := if p.toi = 0 then some p.fdtId else none, sct := none, fti := none,
    pid := some (p.sbn, p.esi), plen := 0, dlen := 0 }

def ansOf (s : SessCfg) (p : Pkt) : Recv.FdtAns :=
  match s.fdts.find? (fun x => x.id == p.fdtId) with
  | some f => .ok (fdtAbsOf f) true
  | none => .err

def envOf (decF decO : (k p : Nat) → List Nat → Bool) (rc : RxCfg) (s : SessCfg) : Env :=
  { decF := decF, decO := decO, rc := rc,
    obj := fun t => s.objs.find? (fun o => o.toi == t),
    fdt := fun id => (s.fdts.find? (fun x => x.id == id)).map (fdtObj s) }

def recvCfg (rc : RxCfg) : Recv.Config :=
  { maxObjectsError := 0, sessionTimeout := false, objectTimeout := false, maxCache := rc.maxSize,
    receiveOnce := rc.receiveOnce, expCheck := false }

/-- run `Recv.push` over the stream; `none` = a (modelled) Rust panic -/
def recvRun (E : Env) (s : SessCfg) : Recv.State SObj → List Pkt → Option (Recv.State SObj × List Recv.Ev)
  | st, [] => some (st, [])
  | st, p :: ps =>
    match Recv.push (sobj E) st (toRecvPkt p) 0 (ansOf s p) with
    | .error _ => none
    | .ok (st', _, evs) =>
      match recvRun E s st' ps with
      | none => none
      | some (st'', evs') => some (st'', evs ++ evs')

def countW (t : Nat) (w : Recv.WEv) (evs : List Recv.Ev) : Nat :=
  evs.countP (fun e => e == Recv.Ev.w t w)

def countFdtReceived (evs : List Recv.Ev) : Nat :=
  evs.countP (fun e => match e with | .fdtReceived _ => true | _ => false)

/-- the four writer-call counters of TOI `t` and the number of `fdt_received` callbacks, as `Recv` produces them -/
def recvObserve (decF decO : (k p : Nat) → List Nat → Bool) (rc : RxCfg) (s : SessCfg) (t : Nat) (ps : List Pkt) :
    Option (Nat × Nat × Nat × Nat × Nat) :=
  match recvRun (envOf decF decO rc s) s (Recv.State.init (recvCfg rc)) ps with
  | none => none
  | some (_, evs) =>
    some (countW t .opened evs, countW t .complete evs, countW t .error evs, countW t .interrupted evs,
          countFdtReceived evs)

/-- the same five numbers from the Session model -/
def sessObserve (decF decO : (k p : Nat) → List Nat → Bool) (rc : RxCfg) (s : SessCfg) (o : ObjCfg) (ps : List Pkt) :
    Nat × Nat × Nat × Nat × Nat :=
  let st := observe decF decO rc s o ps
  (st.opens, st.completes, st.errors, st.interrupts, countFdt decF rc s fdtRx0 ps)

end Flute.Lemmas.SessionRecv

namespace Flute.Lemmas.SessionRecv
open Flute Flute.Session Flute.Lemmas.Session
open Flute.Recv (alookup ainsert aerase sinsert)

/-! ## association lists -/

theorem alookup_aerase_self {α} (k : Nat) (l : List (Nat × α)) : alookup k (aerase k l) = none := by
  induction l with
  | nil => rfl
  | cons a r ih =>
    obtain ⟨k', v⟩ := a
    by_cases h : k' = k <;> simp [aerase, alookup, h, ih]

theorem alookup_aerase_ne {α} (k k' : Nat) (l : List (Nat × α)) (h : k' ≠ k) :
    alookup k (aerase k' l) = alookup k l := by
  induction l with
  | nil => rfl
  | cons a r ih =>
    obtain ⟨k2, v⟩ := a
    by_cases h2 : k2 = k'
    · have : k2 ≠ k := by rw [h2]; exact h
      simp [aerase, alookup, h2, ih, h]
    · by_cases h3 : k2 = k
      · subst h3; simp [aerase, alookup, h2]
      · simp [aerase, alookup, h2, h3, ih]

theorem alookup_ainsert_ne {α} (k k' : Nat) (v : α) (l : List (Nat × α)) (h : k' ≠ k) :
    alookup k (ainsert k' v l) = alookup k l := by
  induction l with
  | nil => simp [ainsert, alookup, h]
  | cons a r ih =>
    obtain ⟨k2, v2⟩ := a
    by_cases h2 : k2 = k'
    · have : k2 ≠ k := by rw [h2]; exact h
      simp [ainsert, alookup, h2, h]
    · by_cases h3 : k2 = k
      · subst h3; simp [ainsert, alookup, h2]
      · simp [ainsert, alookup, h2, h3, ih]

theorem aerase_idem {α} (k : Nat) (l : List (Nat × α)) : aerase k (aerase k l) = aerase k l := by
  induction l with
  | nil => rfl
  | cons a r ih =>
    obtain ⟨k', v⟩ := a
    by_cases h : k' = k <;> simp [aerase, h, ih]

theorem sobj_state (E : Env) (σ : SObj) : (sobj E).state σ = stateOf σ.term := rfl
theorem sobj_drop (E : Env) (σ : SObj) : (sobj E).drop σ = [] := rfl
/-- `cache_control` of the Session object -/
def ccOf (σ : SObj) : Option Recv.CacheControl :=
  if σ.rx.attached then (match σ.cfg with
    | some o => some (if o.noCache then .noCache else .maxStale)
    | none => none) else none
theorem sobj_cc (E : Env) (σ : SObj) : (sobj E).cacheControl σ = ccOf σ := rfl

/-! ## `check_object_state` with `max_objects_error = 0`: closed form -/

theorem removeObject_sobj (E : Env) (S : Recv.State SObj) (t : Nat) :
    Recv.removeObject (sobj E) S t = ({ S with objects := aerase t S.objects }, []) := by
  unfold Recv.removeObject
  cases h : alookup t S.objects with
  | none =>
    have : aerase t S.objects = S.objects := by
      have : ∀ l : List (Nat × SObj), alookup t l = none → aerase t l = l := by
        intro l
        induction l with
        | nil => intro _; rfl
        | cons a r ih =>
          obtain ⟨k, v⟩ := a
          intro hl
          by_cases hk : k = t
          · simp [alookup, hk] at hl
          · simp [alookup, hk] at hl; simp [aerase, hk, ih hl]
      exact this _ h
    simp [this]
  | some o => simp [Recv.wevs, sobj_drop]

theorem check_spec (E : Env) (S : Recv.State SObj) (t : Nat) (he : S.errors = []) (hm : S.cfg.maxObjectsError = 0) :
    Recv.checkObjectState (sobj E) S t =
      match alookup t S.objects with
      | none => (S, [])
      | some σ =>
        match σ.term with
        | .receiving => (S, [])
        | .completed =>
          ({ S with
              completed := if ccOf σ ≠ some .noCache
                then ainsert t ((ccOf σ).getD .noCache) S.completed else S.completed,
              objects := aerase t S.objects }, [])
        | _ => ({ S with objects := aerase t S.objects }, []) := by
  unfold Recv.checkObjectState
  cases h : alookup t S.objects with
  | none => rfl
  | some σ =>
    dsimp only
    cases ht : σ.term with
    | receiving => simp [sobj_state, stateOf, ht]
    | completed =>
      simp only [sobj_state, sobj_cc, stateOf, ht]
      rw [removeObject_sobj]
      by_cases hc : ccOf σ ≠ some Recv.CacheControl.noCache
      · simp [hc]
      · have hc' : ccOf σ = some Recv.CacheControl.noCache := by simpa using hc
        simp [hc']
    | interrupted =>
      simp only [sobj_state, stateOf, ht]
      obtain ⟨cfg, objects, completed, errors, fdtReceivers, fdtCurrent, closedImminent⟩ := S
      simp only at he hm h ⊢
      subst he
      simp only [sinsert, List.length_singleton, Recv.gcObjectError, List.length_cons, List.length_nil, hm,
        Nat.zero_add, Nat.lt_irrefl, gt_iff_lt, Nat.zero_lt_one, ↓reduceIte, removeObject_sobj, List.append_nil, aerase_idem]
    | error =>
      simp only [sobj_state, stateOf, ht]
      obtain ⟨cfg, objects, completed, errors, fdtReceivers, fdtCurrent, closedImminent⟩ := S
      simp only at he hm h ⊢
      subst he
      simp only [sinsert, List.length_singleton, Recv.gcObjectError, List.length_cons, List.length_nil, hm,
        Nat.zero_add, Nat.lt_irrefl, gt_iff_lt, Nat.zero_lt_one, ↓reduceIte, removeObject_sobj, List.append_nil, aerase_idem]

/-! ## `create_obj`: the scan over `fdt_current` -/

/-- `createScan` without the expiry bookkeeping (no instance expires: `enable_expired_check` is off) -/
def scanS (E : Env) (t : Nat) : SObj → List (Recv.FdtRecv SObj) → SObj × List Recv.Ev
  | σ, [] => (σ, [])
  | σ, f :: r =>
    if f.st = .complete then
      match f.inst with
      | some inst =>
        match (sobj E).attachFdt σ f.fdtId inst with
        | (σ', true, evs) => (σ', Recv.wevs t evs ++ [Recv.Ev.attach t f.fdtId])
        | (σ', false, evs) => ((scanS E t σ' r).1, Recv.wevs t evs ++ (scanS E t σ' r).2)
      | none => scanS E t σ r
    else scanS E t σ r

theorem updateExpired_nocheck (f : Recv.FdtRecv SObj) (now : Int) (h : f.check = false) :
    f.updateExpired now = .ok f := by
  unfold Recv.FdtRecv.updateExpired
  split
  · rfl
  · simp [h]

theorem createScan_spec (E : Env) (t : Nat) : ∀ (cur : List (Recv.FdtRecv SObj)) (σ : SObj),
    (∀ f, f ∈ cur → f.check = false) →
    Recv.createScan (sobj E) t 0 σ cur = .ok ((scanS E t σ cur).1, cur, (scanS E t σ cur).2) := by
  intro cur
  induction cur with
  | nil => intro σ _; rfl
  | cons f r ih =>
    intro σ hc
    have hf := hc f (List.mem_cons_self ..)
    have hr : ∀ g, g ∈ r → g.check = false := fun g hg => hc g (List.mem_cons_of_mem _ hg)
    unfold Recv.createScan scanS
    rw [updateExpired_nocheck f 0 hf]
    dsimp only
    by_cases hst : f.st = .complete
    · simp only [hst, ↓reduceIte]
      cases hi : f.inst with
      | none => simp only [ih σ hr]
      | some inst =>
        dsimp only
        rcases hatt : (sobj E).attachFdt σ f.fdtId inst with ⟨σ', ok, evs⟩
        cases ok with
        | true => rfl
        | false => simp only [ih σ' hr]
    · simp only [hst, ↓reduceIte, ih σ hr]

/-! ## `push_obj`: closed form -/

theorem ainsert_ainsert {α} (k : Nat) (v v' : α) (l : List (Nat × α)) :
    ainsert k v (ainsert k v' l) = ainsert k v l := by
  induction l with
  | nil => simp [ainsert]
  | cons a r ih =>
    obtain ⟨k2, v2⟩ := a
    by_cases h : k2 = k <;> simp [ainsert, h, ih]

theorem aerase_ainsert {α} (k : Nat) (v : α) (l : List (Nat × α)) : aerase k (ainsert k v l) = aerase k l := by
  induction l with
  | nil => simp [ainsert, aerase]
  | cons a r ih =>
    obtain ⟨k2, v2⟩ := a
    by_cases h : k2 = k <;> simp [ainsert, aerase, h, ih]

/-- the object the packet is pushed to: the registered one, or a new one after the `create_obj` scan -/
def targetS (E : Env) (S : Recv.State SObj) (t : Nat) : SObj × List Recv.Ev :=
  match alookup t S.objects with
  | some σ => (σ, [])
  | none => scanS E t ((sobj E).new t S.cfg.maxCache) S.fdtCurrent

/-- `check_object_state` on the object just pushed -/
def settleS (S : Recv.State SObj) (t : Nat) (σ1 : SObj) : Recv.State SObj :=
  match σ1.term with
  | .receiving => { S with objects := ainsert t σ1 S.objects }
  | .completed =>
    { S with
        completed := if ccOf σ1 ≠ some .noCache then ainsert t ((ccOf σ1).getD .noCache) S.completed else S.completed,
        objects := aerase t S.objects }
  | _ => { S with objects := aerase t S.objects }

/-- hypotheses under which the closed forms hold: `max_objects_error = 0`, nothing in the error registry
    between two calls, no expiry check -/
structure Quiet (S : Recv.State SObj) : Prop where
  maxErr : S.cfg.maxObjectsError = 0
  errors : S.errors = []
  nocheck : ∀ f, f ∈ S.fdtCurrent → f.check = false

theorem check_spec_objs (E : Env) (S : Recv.State SObj) (t : Nat) (objs : List (Nat × SObj)) (hq : Quiet S) :
    Recv.checkObjectState (sobj E) { S with objects := objs } t =
      match alookup t objs with
      | none => ({ S with objects := objs }, [])
      | some σ =>
        match σ.term with
        | .receiving => ({ S with objects := objs }, [])
        | .completed =>
          ({ S with
              completed := if ccOf σ ≠ some .noCache
                then ainsert t ((ccOf σ).getD .noCache) S.completed else S.completed,
              objects := aerase t objs }, [])
        | _ => ({ S with objects := aerase t objs }, []) :=
  check_spec E { S with objects := objs } t hq.errors hq.maxErr

theorem pushObjCore_spec (E : Env) (S : Recv.State SObj) (p : Recv.Pkt) (hq : Quiet S) :
    Recv.pushObjCore (sobj E) S p 0 =
      .ok (settleS S p.toi ((sobj E).push (targetS E S p.toi).1 p).1, .ok,
           (targetS E S p.toi).2 ++ Recv.wevs p.toi ((sobj E).push (targetS E S p.toi).1 p).2) := by
  unfold Recv.pushObjCore targetS
  cases hl : alookup p.toi S.objects with
  | some σ =>
    simp only [Option.isNone_some, Bool.false_eq_true, ↓reduceIte, hl, List.nil_append]
    rw [check_spec_objs E S p.toi _ hq]
    simp only [Recv.alookup_ainsert_self]
    unfold settleS
    cases ht : ((sobj E).push σ p).1.term <;> simp [aerase_ainsert]
  | none =>
    simp only [Option.isNone_none, ↓reduceIte]
    unfold Recv.createObj
    rw [createScan_spec E p.toi S.fdtCurrent _ hq.nocheck]
    simp only [Recv.alookup_ainsert_self]
    rw [check_spec_objs E S p.toi _ hq]
    simp only [Recv.alookup_ainsert_self, ainsert_ainsert]
    unfold settleS
    cases ht : ((sobj E).push (scanS E p.toi ((sobj E).new p.toi S.cfg.maxCache) S.fdtCurrent).1 p).1.term <;>
      simp [aerase_ainsert, List.append_assoc]

/-! ## the tracked object: `push_obj` versus `stepObj` -/

theorem gateError_quiet (S : Recv.State SObj) (p : Recv.Pkt) (he : S.errors = []) : Recv.gateError S p = .inl S := by
  unfold Recv.gateError
  simp [he]

/-- the four writer-call counters of TOI `t` in an event list -/
def cntO (t : Nat) (evs : List Recv.Ev) : Nat := countW t .opened evs
def cntC (t : Nat) (evs : List Recv.Ev) : Nat := countW t .complete evs
def cntE (t : Nat) (evs : List Recv.Ev) : Nat := countW t .error evs
def cntI (t : Nat) (evs : List Recv.Ev) : Nat := countW t .interrupted evs

/-- the events account for the difference of the Session counters -/
def Acc (t : Nat) (st st' : OState) (evs : List Recv.Ev) : Prop :=
  st'.opens = st.opens + cntO t evs ∧ st'.completes = st.completes + cntC t evs ∧
  st'.errors = st.errors + cntE t evs ∧ st'.interrupts = st.interrupts + cntI t evs

theorem countW_append (t : Nat) (w : Recv.WEv) (a b : List Recv.Ev) : countW t w (a ++ b) = countW t w a + countW t w b := by
  simp [countW, List.countP_append]

theorem cntO_append (t : Nat) (a b : List Recv.Ev) : cntO t (a ++ b) = cntO t a + cntO t b := countW_append t _ a b
theorem cntC_append (t : Nat) (a b : List Recv.Ev) : cntC t (a ++ b) = cntC t a + cntC t b := countW_append t _ a b
theorem cntE_append (t : Nat) (a b : List Recv.Ev) : cntE t (a ++ b) = cntE t a + cntE t b := countW_append t _ a b
theorem cntI_append (t : Nat) (a b : List Recv.Ev) : cntI t (a ++ b) = cntI t a + cntI t b := countW_append t _ a b
theorem cnt_nil (t : Nat) : cntO t [] = 0 ∧ cntC t [] = 0 ∧ cntE t [] = 0 ∧ cntI t [] = 0 := by
  simp [cntO, cntC, cntE, cntI, countW]

theorem Acc.trans {t : Nat} {a b c : OState} {e1 e2 : List Recv.Ev} (h1 : Acc t a b e1) (h2 : Acc t b c e2) :
    Acc t a c (e1 ++ e2) := by
  obtain ⟨a1, a2, a3, a4⟩ := h1
  obtain ⟨b1, b2, b3, b4⟩ := h2
  simp only [Acc, cntO, cntC, cntE, cntI, countW_append] at *
  omega

theorem Acc.nil (t : Nat) (st : OState) : Acc t st st [] := by simp [Acc, cntO, cntC, cntE, cntI, countW]

section tracked
variable (E : Env) (o : ObjCfg)

/-- the registered object of the tracked TOI -/
def mk (rx : ORx) : SObj := { toi := o.toi, cfg := some o, rx := rx, term := .receiving }

/-- a complete instance of `fdt_current` that lists the TOI -/
def listsF (t : Nat) (f : Recv.FdtRecv SObj) : Bool :=
  decide (f.st = .complete) && (match f.inst with | some i => (i.getFile t).isSome | none => false)

/-- index of the first element satisfying `p` -/
def firstIdx {α} (p : α → Bool) : List α → Option Nat
  | [] => none
  | a :: l => if p a then some 0 else (firstIdx p l).map (· + 1)

theorem firstIdx_isSome {α} (p : α → Bool) (l : List α) : (firstIdx p l).isSome = l.any p := by
  induction l with
  | nil => rfl
  | cons a r ih =>
    simp only [firstIdx, List.any_cons]
    cases p a <;> simp [ih]

/-- the tracked object's slice of the `Receiver` state -/
structure RelObj (S : Recv.State SObj) (st : OState) : Prop where
  obj : alookup o.toi S.objects = st.obj.map (mk o)
  comp : (alookup o.toi S.completed).isSome = st.completed
  ageIdx : st.age = firstIdx (listsF o.toi) S.fdtCurrent
  /-- an object under reception is not in the completed registry -/
  live : st.obj.isSome = true → st.completed = false

theorem RelObj.age {S : Recv.State SObj} {st : OState} (h : RelObj o S st) :
    st.age.isSome = S.fdtCurrent.any (listsF o.toi) := by
  rw [h.ageIdx, firstIdx_isSome]

theorem push_mk (ht : o.toi ≠ 0) (rx : ORx) (p : Recv.Pkt) :
    (sobj E).push (mk o rx) p =
      ({ toi := o.toi, cfg := some o, rx := (pushObjR E.decO E.rc o rx (symOf p)).rx,
         term := (pushObjR E.decO E.rc o rx (symOf p)).term },
       termEvs (pushObjR E.decO E.rc o rx (symOf p)).rx.attached (pushObjR E.decO E.rc o rx (symOf p)).term) := by
  simp [sobj, mk, ht]

theorem cnt_wevs_termEvs (t : Nat) (att : Bool) (tm : Term) :
    cntO t (Recv.wevs t (termEvs att tm)) = 0 ∧
    cntC t (Recv.wevs t (termEvs att tm)) = (if tm = .completed ∧ att = true then 1 else 0) ∧
    cntE t (Recv.wevs t (termEvs att tm)) = (if tm = .error ∧ att = true then 1 else 0) ∧
    cntI t (Recv.wevs t (termEvs att tm)) = (if tm = .interrupted ∧ att = true then 1 else 0) := by
  cases tm <;> cases att <;> simp [termEvs, Recv.wevs, cntO, cntC, cntE, cntI, countW]

/-- `check_object_state` on the pushed object is `finish` -/
theorem settle_finish (S : Recv.State SObj) (st : OState) (r : PushRes) (hR : RelObj o S st) (hnd : st.completed = false) :
    RelObj o (settleS S o.toi { toi := o.toi, cfg := some o, rx := r.rx, term := r.term }) (finish o st r) ∧
    Acc o.toi st (finish o st r) (Recv.wevs o.toi (termEvs r.rx.attached r.term)) := by
  obtain ⟨h1, h2, h3, _⟩ := hR
  have hc := cnt_wevs_termEvs o.toi r.rx.attached r.term
  unfold settleS finish
  cases ht : r.term with
  | receiving =>
    simp only [ht] at hc ⊢
    refine ⟨⟨by simp [Recv.alookup_ainsert_self, mk, ht], h2, h3, fun _ => hnd⟩, ?_⟩
    simp [Acc, hc]
  | completed =>
    simp only [ht] at hc ⊢
    refine ⟨⟨by simp [alookup_aerase_self], ?_, h3, fun h => by simp at h⟩, ?_⟩
    · simp only [ccOf]
      cases ha : r.rx.attached <;> cases hn : o.noCache <;>
        simp [ha, hn, Recv.alookup_ainsert_self, ← h2, hnd]
      all_goals (rw [hnd] at h2; simpa using h2)
    · cases ha : r.rx.attached <;> rw [ha] at hc <;> simp [Acc, hc]
  | interrupted =>
    simp only [ht] at hc ⊢
    refine ⟨⟨by simp [alookup_aerase_self], h2, h3, fun h => by simp at h⟩, ?_⟩
    cases ha : r.rx.attached <;> rw [ha] at hc <;> simp [Acc, hc]
  | error =>
    simp only [ht] at hc ⊢
    refine ⟨⟨by simp [alookup_aerase_self], h2, h3, fun h => by simp at h⟩, ?_⟩
    cases ha : r.rx.attached <;> rw [ha] at hc <;> simp [Acc, hc]

theorem new_mk (ht : o.toi ≠ 0) (hE : E.obj o.toi = some o) (mc : Nat) : (sobj E).new o.toi mc = mk o rx0 := by
  simp [sobj, mk, ht, hE]

/-- the object after `attach_fdt` at creation -/
def preObj : SObj :=
  { toi := o.toi, cfg := some o, rx := (attach E.decO E.rc o rx0).rx, term := (attach E.decO E.rc o rx0).term }

def preEvs : List Recv.WEv :=
  [.new (if o.noCache then .noCache else .maxStale), .opened] ++
    termEvs (attach E.decO E.rc o rx0).rx.attached (attach E.decO E.rc o rx0).term

theorem attach_mk_rx0 (id : Nat) (inst : Recv.FdtAbs) :
    (sobj E).attachFdt (mk o rx0) id inst =
      if (inst.getFile o.toi).isSome then (preObj E o, true, preEvs E o) else (mk o rx0, false, []) := by
  cases h : inst.getFile o.toi <;> simp [sobj, mk, rx0, h, preObj, preEvs]

/-- the `create_obj` scan for the tracked TOI: attached to the first complete instance listing it, if any -/
theorem scan_mk : ∀ (cur : List (Recv.FdtRecv SObj)),
    (cur.any (listsF o.toi) = false → scanS E o.toi (mk o rx0) cur = (mk o rx0, [])) ∧
    (cur.any (listsF o.toi) = true → ∃ id, scanS E o.toi (mk o rx0) cur =
      (preObj E o, Recv.wevs o.toi (preEvs E o) ++ [Recv.Ev.attach o.toi id])) := by
  intro cur
  induction cur with
  | nil => exact ⟨fun _ => rfl, fun h => by simp at h⟩
  | cons f r ih =>
    unfold scanS
    by_cases hst : f.st = .complete
    · simp only [hst, ↓reduceIte]
      cases hi : f.inst with
      | none =>
        have hl : listsF o.toi f = false := by simp [listsF, hi]
        simp only [List.any_cons, hl, Bool.false_or]
        exact ih
      | some inst =>
        dsimp only
        rw [attach_mk_rx0]
        by_cases hg : (inst.getFile o.toi).isSome = true
        · have hl : listsF o.toi f = true := by simp [listsF, hst, hi, hg]
          simp only [hg, ↓reduceIte, List.any_cons, hl, Bool.true_or]
          exact ⟨fun h => by simp at h, fun _ => ⟨f.fdtId, rfl⟩⟩
        · have hg' : (inst.getFile o.toi).isSome = false := by simpa using hg
          have hl : listsF o.toi f = false := by simp [listsF, hi, hg']
          simp only [hg', Bool.false_eq_true, ↓reduceIte, List.any_cons, hl, Bool.false_or, Recv.wevs, List.map_nil,
            List.nil_append]
          exact ih
    · have hl : listsF o.toi f = false := by simp [listsF, hst]
      simp only [hst, ↓reduceIte, List.any_cons, hl, Bool.false_or]
      exact ih

theorem cnt_preEvs (id : Nat) :
    cntO o.toi (Recv.wevs o.toi (preEvs E o) ++ [Recv.Ev.attach o.toi id]) = 1 ∧
    cntC o.toi (Recv.wevs o.toi (preEvs E o) ++ [Recv.Ev.attach o.toi id]) =
      cntC o.toi (Recv.wevs o.toi (termEvs (attach E.decO E.rc o rx0).rx.attached (attach E.decO E.rc o rx0).term)) ∧
    cntE o.toi (Recv.wevs o.toi (preEvs E o) ++ [Recv.Ev.attach o.toi id]) =
      cntE o.toi (Recv.wevs o.toi (termEvs (attach E.decO E.rc o rx0).rx.attached (attach E.decO E.rc o rx0).term)) ∧
    cntI o.toi (Recv.wevs o.toi (preEvs E o) ++ [Recv.Ev.attach o.toi id]) =
      cntI o.toi (Recv.wevs o.toi (termEvs (attach E.decO E.rc o rx0).rx.attached (attach E.decO E.rc o rx0).term)) := by
  have h0 := cnt_wevs_termEvs o.toi (attach E.decO E.rc o rx0).rx.attached (attach E.decO E.rc o rx0).term
  simp only [preEvs, Recv.wevs, List.map_append, List.map_cons, List.map_nil, cntO, cntC, cntE, cntI, countW,
    List.countP_append, List.countP_cons, List.countP_nil] at h0 ⊢
  simp [h0]

theorem relObj_opens (S : Recv.State SObj) (st : OState) (n : Nat) (h : RelObj o S st) :
    RelObj o S { st with opens := n } := ⟨h.obj, h.comp, h.ageIdx, h.live⟩

/-- **`push_obj` past the gates is `pushNew`** for the tracked TOI -/
theorem core_pushNew (ht : o.toi ≠ 0) (hE : E.obj o.toi = some o) (S : Recv.State SObj) (st : OState) (p : Recv.Pkt)
    (hR : RelObj o S st) (hnd : st.completed = false) :
    RelObj o (settleS S o.toi ((sobj E).push (targetS E S o.toi).1 p).1) (pushNew E.decO E.rc o st (symOf p)) ∧
    Acc o.toi st (pushNew E.decO E.rc o st (symOf p))
      ((targetS E S o.toi).2 ++ Recv.wevs o.toi ((sobj E).push (targetS E S o.toi).1 p).2) := by
  unfold pushNew targetS
  cases hobj : st.obj with
  | some rx =>
    have hl : alookup o.toi S.objects = some (mk o rx) := by rw [hR.obj, hobj]; rfl
    simp only [hl, List.nil_append]
    rw [push_mk E o ht, pushObj_eq]
    exact settle_finish o S st _ hR hnd
  | none =>
    have hl : alookup o.toi S.objects = none := by rw [hR.obj, hobj]; rfl
    simp only [hl]
    rw [new_mk E o ht hE]
    obtain ⟨sc1, sc2⟩ := scan_mk E o S.fdtCurrent
    cases hage : st.age.isSome with
    | false =>
      have := sc1 (by rw [← hR.age, hage])
      rw [this]
      simp only [Bool.false_eq_true, ↓reduceIte, List.nil_append]
      rw [push_mk E o ht, pushObj_eq]
      exact settle_finish o S st _ hR hnd
    | true =>
      obtain ⟨id, hsc⟩ := sc2 (by rw [← hR.age, hage])
      rw [hsc]
      simp only [↓reduceIte]
      have hc := cnt_preEvs E o id
      have hR1 := relObj_opens o S st (st.opens + 1) hR
      by_cases hterm : (attach E.decO E.rc o rx0).term = .receiving
      · -- attached and still receiving: the packet is pushed
        have hpre : preObj E o = mk o (attach E.decO E.rc o rx0).rx := by simp [preObj, mk, hterm]
        have hne : ((attach E.decO E.rc o rx0).term != Term.receiving) = false := by simp [hterm]
        simp only [hne, Bool.false_eq_true, ↓reduceIte]
        rw [hpre, push_mk E o ht, pushObj_eq]
        obtain ⟨r1, r2⟩ := settle_finish o S { st with opens := st.opens + 1 }
          (pushObjR E.decO E.rc o (attach E.decO E.rc o rx0).rx (symOf p)) hR1 hnd
        simp only [hobj] at r1 r2
        refine ⟨r1, ?_⟩
        have h0 := cnt_wevs_termEvs o.toi (attach E.decO E.rc o rx0).rx.attached (attach E.decO E.rc o rx0).term
        rw [hterm] at h0
        obtain ⟨a1, a2, a3, a4⟩ := r2
        obtain ⟨c1, c2, c3, c4⟩ := hc
        obtain ⟨z1, z2, z3, z4⟩ := h0
        dsimp only at a1 a2 a3 a4 ⊢
        rw [hterm] at c2 c3 c4
        simp only [reduceCtorEq, false_and, ↓reduceIte] at z2 z3 z4
        refine ⟨?_, ?_, ?_, ?_⟩
        · rw [cntO_append, c1, a1]; omega
        · rw [cntC_append, c2, z2, a2]; omega
        · rw [cntE_append, c3, z3, a3]; omega
        · rw [cntI_append, c4, z4, a4]; omega
      · -- the attach ended the object (everything cached was there): nothing is pushed
        have hne : ((attach E.decO E.rc o rx0).term != Term.receiving) = true := by simp [hterm]
        simp only [hne, ↓reduceIte]
        have hpush : (sobj E).push (preObj E o) p = (preObj E o, []) := by
          simp [sobj, preObj, hterm]
        rw [hpush]
        obtain ⟨r1, r2⟩ := settle_finish o S { st with opens := st.opens + 1 } (attach E.decO E.rc o rx0) hR1 hnd
        simp only [hobj] at r1 r2
        refine ⟨r1, ?_⟩
        obtain ⟨a1, a2, a3, a4⟩ := r2
        obtain ⟨c1, c2, c3, c4⟩ := hc
        obtain ⟨n1, n2, n3, n4⟩ := cnt_nil o.toi
        dsimp only at a1 a2 a3 a4
        have hw : Recv.wevs o.toi ([] : List Recv.WEv) = [] := rfl
        rw [hw]
        refine ⟨?_, ?_, ?_, ?_⟩
        · rw [cntO_append, c1, n1, a1]
          have := (cnt_wevs_termEvs o.toi (attach E.decO E.rc o rx0).rx.attached (attach E.decO E.rc o rx0).term).1
          omega
        · rw [cntC_append, c2, n2, a2]; omega
        · rw [cntE_append, c3, n3, a3]; omega
        · rw [cntI_append, c4, n4, a4]; omega

end tracked

/-! ## frame: a packet of TOI `k` touches nothing of the other TOIs -/

/-- no writer call of TOI `t` among the events -/
def NoEv (t : Nat) (evs : List Recv.Ev) : Prop := cntO t evs = 0 ∧ cntC t evs = 0 ∧ cntE t evs = 0 ∧ cntI t evs = 0

theorem NoEv.nil (t : Nat) : NoEv t [] := cnt_nil t

theorem NoEv.append {t : Nat} {a b : List Recv.Ev} (ha : NoEv t a) (hb : NoEv t b) : NoEv t (a ++ b) := by
  obtain ⟨a1, a2, a3, a4⟩ := ha
  obtain ⟨b1, b2, b3, b4⟩ := hb
  refine ⟨?_, ?_, ?_, ?_⟩
  · rw [cntO_append, a1, b1]
  · rw [cntC_append, a2, b2]
  · rw [cntE_append, a3, b3]
  · rw [cntI_append, a4, b4]

theorem noEv_wevs (t k : Nat) (h : t ≠ k) (l : List Recv.WEv) : NoEv t (Recv.wevs k l) := by
  have : ∀ w, countW t w (Recv.wevs k l) = 0 := by
    intro w
    simp only [countW, Recv.wevs, List.countP_map, List.countP_eq_zero]
    intro x _
    simp only [Function.comp, beq_iff_eq, Recv.Ev.w.injEq, not_and]
    intro hk
    exact absurd hk.symm h
  exact ⟨this _, this _, this _, this _⟩

theorem noEv_attach (t k id : Nat) : NoEv t [Recv.Ev.attach k id] := by
  simp [NoEv, cntO, cntC, cntE, cntI, countW]

theorem noEv_scanS (E : Env) (t k : Nat) (h : t ≠ k) : ∀ (cur : List (Recv.FdtRecv SObj)) (σ : SObj),
    NoEv t (scanS E k σ cur).2 := by
  intro cur
  induction cur with
  | nil => intro σ; exact NoEv.nil t
  | cons f r ih =>
    intro σ
    unfold scanS
    split
    · split
      · rename_i inst _
        rcases hatt : (sobj E).attachFdt σ f.fdtId inst with ⟨σ', ok, evs⟩
        cases ok with
        | true => exact NoEv.append (noEv_wevs t k h _) (noEv_attach t k _)
        | false => exact NoEv.append (noEv_wevs t k h _) (ih σ')
      · exact ih σ
    · exact ih σ

/-- number of entries with key `t` -/
def cntKey {α} (t : Nat) (l : List (Nat × α)) : Nat := (l.filter (fun x => x.1 == t)).length

theorem cntKey_ainsert_ne {α} (t k : Nat) (v : α) (l : List (Nat × α)) (h : k ≠ t) :
    cntKey t (ainsert k v l) = cntKey t l := by
  induction l with
  | nil => simp [ainsert, cntKey, h]
  | cons a r ih =>
    obtain ⟨k2, v2⟩ := a
    by_cases h2 : k2 = k
    · subst h2; simp [ainsert, cntKey, h]
    · simp only [ainsert, h2, ↓reduceIte]
      simp only [cntKey, List.filter_cons] at ih ⊢
      split <;> simp [ih]

theorem cntKey_ainsert_self {α} (t : Nat) (v : α) (l : List (Nat × α)) :
    cntKey t (ainsert t v l) = max 1 (cntKey t l) := by
  induction l with
  | nil => simp [ainsert, cntKey]
  | cons a r ih =>
    obtain ⟨k2, v2⟩ := a
    by_cases h2 : k2 = t
    · subst h2; simp [ainsert, cntKey]
    · have hb : (k2 == t) = false := beq_false_of_ne h2
      simp only [ainsert, h2, ↓reduceIte]
      simp only [cntKey, List.filter_cons, hb] at ih ⊢
      simpa using ih

theorem cntKey_aerase_le {α} (t k : Nat) (l : List (Nat × α)) : cntKey t (aerase k l) ≤ cntKey t l := by
  induction l with
  | nil => simp [aerase, cntKey]
  | cons a r ih =>
    obtain ⟨k2, v2⟩ := a
    by_cases h2 : k2 = k
    · simp only [aerase, h2, ↓reduceIte]
      simp only [cntKey, List.filter_cons] at ih ⊢
      split
      · simp only [List.length_cons]; omega
      · exact ih
    · simp only [aerase, h2, ↓reduceIte]
      simp only [cntKey, List.filter_cons] at ih ⊢
      split
      · simp only [List.length_cons]; omega
      · exact ih

theorem alookup_none_of_cntKey {α} (t : Nat) (l : List (Nat × α)) (h : cntKey t l = 0) : alookup t l = none := by
  induction l with
  | nil => rfl
  | cons a r ih =>
    obtain ⟨k2, v2⟩ := a
    by_cases h2 : k2 = t
    · subst h2; simp [cntKey] at h
    · have hb : (k2 == t) = false := beq_false_of_ne h2
      simp only [cntKey, List.filter_cons, hb] at h
      simp [alookup, h2, ih (by simpa [cntKey] using h)]

theorem cfr_append (a b : List Recv.Ev) : countFdtReceived (a ++ b) = countFdtReceived a + countFdtReceived b := by
  simp [countFdtReceived, List.countP_append]

theorem cfr_wevs (k : Nat) (l : List Recv.WEv) : countFdtReceived (Recv.wevs k l) = 0 := by
  simp [countFdtReceived, Recv.wevs, List.countP_map, List.countP_eq_zero]

theorem cfr_scanS (E : Env) (k : Nat) : ∀ (cur : List (Recv.FdtRecv SObj)) (σ : SObj),
    countFdtReceived (scanS E k σ cur).2 = 0 := by
  intro cur
  induction cur with
  | nil => intro σ; rfl
  | cons f r ih =>
    intro σ
    unfold scanS
    split
    · split
      · rename_i inst _
        rcases hatt : (sobj E).attachFdt σ f.fdtId inst with ⟨σ', ok, evs⟩
        cases ok with
        | true =>
          show countFdtReceived (Recv.wevs k evs ++ [Recv.Ev.attach k f.fdtId]) = 0
          rw [cfr_append, cfr_wevs]; rfl
        | false =>
          show countFdtReceived (Recv.wevs k evs ++ (scanS E k σ' r).2) = 0
          rw [cfr_append, cfr_wevs, ih σ']
      · exact ih σ
    · exact ih σ

/-- what a `push_obj` of TOI `k` leaves untouched -/
structure FrameK (k : Nat) (S S' : Recv.State SObj) (evs : List Recv.Ev) : Prop where
  quiet : Quiet S'
  fdtC : S'.fdtCurrent = S.fdtCurrent
  fdtR : S'.fdtReceivers = S.fdtReceivers
  cfg : S'.cfg = S.cfg
  objs : ∀ t, t ≠ k → alookup t S'.objects = alookup t S.objects
  comp : ∀ t, t ≠ k → alookup t S'.completed = alookup t S.completed
  noev : ∀ t, t ≠ k → NoEv t evs
  keys : ∀ t, cntKey t S.objects ≤ 1 → cntKey t S'.objects ≤ 1
  nofdt : countFdtReceived evs = 0

theorem frame_settleS (S : Recv.State SObj) (k : Nat) (σ1 : SObj) (evs : List Recv.Ev) (hq : Quiet S)
    (hev : ∀ t, t ≠ k → NoEv t evs) (hnf : countFdtReceived evs = 0) : FrameK k S (settleS S k σ1) evs := by
  unfold settleS
  cases σ1.term with
  | receiving =>
    refine ⟨⟨hq.maxErr, hq.errors, hq.nocheck⟩, rfl, rfl, rfl,
      fun t ht => alookup_ainsert_ne t k _ _ (fun h => ht h.symm), fun _ _ => rfl, hev, ?_, hnf⟩
    intro t h1
    by_cases htk : k = t
    · subst htk; rw [cntKey_ainsert_self]; omega
    · rw [cntKey_ainsert_ne t k _ _ htk]; exact h1
  | completed =>
    refine ⟨⟨hq.maxErr, hq.errors, hq.nocheck⟩, rfl, rfl, rfl,
      fun t ht => alookup_aerase_ne t k _ (fun h => ht h.symm), ?_, hev,
      fun t h1 => Nat.le_trans (cntKey_aerase_le t k _) h1, hnf⟩
    intro t ht
    dsimp only
    split
    · exact alookup_ainsert_ne t k _ _ (fun h => ht h.symm)
    · rfl
  | interrupted =>
    exact ⟨⟨hq.maxErr, hq.errors, hq.nocheck⟩, rfl, rfl, rfl,
      fun t ht => alookup_aerase_ne t k _ (fun h => ht h.symm), fun _ _ => rfl, hev,
      fun t h1 => Nat.le_trans (cntKey_aerase_le t k _) h1, hnf⟩
  | error =>
    exact ⟨⟨hq.maxErr, hq.errors, hq.nocheck⟩, rfl, rfl, rfl,
      fun t ht => alookup_aerase_ne t k _ (fun h => ht h.symm), fun _ _ => rfl, hev,
      fun t h1 => Nat.le_trans (cntKey_aerase_le t k _) h1, hnf⟩

theorem frame_refl (k : Nat) (S : Recv.State SObj) (hq : Quiet S) : FrameK k S S [] :=
  ⟨hq, rfl, rfl, rfl, fun _ _ => rfl, fun _ _ => rfl, fun t _ => NoEv.nil t, fun _ h => h, rfl⟩

/-- **`push_obj` never fails and touches only its own TOI** (any object, any packet with a payload ID) -/
theorem pushObj_frame (E : Env) (S : Recv.State SObj) (p : Recv.Pkt) (sbn esi : Nat) (hpid : p.pid = some (sbn, esi))
    (hq : Quiet S) :
    ∃ S' r evs, Recv.pushObj (sobj E) S p 0 = .ok (S', r, evs) ∧ FrameK p.toi S S' evs := by
  have hcore : ∀ S1 : Recv.State SObj, Quiet S1 →
      ∃ S' r evs, Recv.pushObjCore (sobj E) S1 p 0 = .ok (S', r, evs) ∧ FrameK p.toi S1 S' evs := by
    intro S1 h1
    refine ⟨_, _, _, pushObjCore_spec E S1 p h1, ?_⟩
    apply frame_settleS S1 p.toi _ _ h1
    · intro t ht
      refine NoEv.append ?_ (noEv_wevs t p.toi ht _)
      unfold targetS
      split
      · exact NoEv.nil t
      · exact noEv_scanS E t p.toi ht _ _
    · rw [cfr_append, cfr_wevs]
      unfold targetS
      split
      · rfl
      · rw [cfr_scanS]
  unfold Recv.pushObj Recv.gateCompleted
  by_cases hc : (alookup p.toi S.completed).isSome = true
  · simp only [hc, ↓reduceIte, hpid]
    by_cases hro : S.cfg.receiveOnce = true
    · simp only [hro, ↓reduceIte]
      exact ⟨S, .ok, [], rfl, frame_refl _ S hq⟩
    · simp only [hro, Bool.false_eq_true, ↓reduceIte]
      by_cases h00 : sbn = 0 ∧ esi = 0
      · simp only [h00, and_self, ↓reduceIte]
        have hq1 : Quiet { S with completed := aerase p.toi S.completed } := ⟨hq.maxErr, hq.errors, hq.nocheck⟩
        rw [gateError_quiet { S with completed := aerase p.toi S.completed } p hq.errors]
        obtain ⟨S', r, evs, h1, h2⟩ := hcore _ hq1
        refine ⟨S', r, evs, h1, ⟨h2.quiet, h2.fdtC, h2.fdtR, h2.cfg, h2.objs, ?_, h2.noev, h2.keys, h2.nofdt⟩⟩
        intro t ht
        rw [h2.comp t ht]
        exact alookup_aerase_ne t p.toi _ (fun h => ht h.symm)
      · simp only [h00, ↓reduceIte]
        exact ⟨S, .ok, [], rfl, frame_refl _ S hq⟩
  · simp only [hc, Bool.false_eq_true, ↓reduceIte]
    rw [gateError_quiet _ p hq.errors]
    exact hcore S hq

/-- **`push_obj` is `stepObj (.pkt _)`** on the tracked TOI's slice: the `objects_completed` gate (receive-once,
    restart on (SBN 0, ESI 0)), find-or-create with the `fdt_current` scan, push, `check_object_state` -/
theorem pushObj_stepObj (E : Env) (o : ObjCfg) (ht : o.toi ≠ 0) (hE : E.obj o.toi = some o)
    (S : Recv.State SObj) (st : OState) (p : Recv.Pkt) (sbn esi : Nat) (hp : p.toi = o.toi)
    (hpid : p.pid = some (sbn, esi)) (hq : Quiet S) (hro : S.cfg.receiveOnce = E.rc.receiveOnce)
    (hR : RelObj o S st) :
    ∃ S' r evs, Recv.pushObj (sobj E) S p 0 = .ok (S', r, evs) ∧
      RelObj o S' (stepObj E.decO E.rc o st (.pkt (symOf p))) ∧
      Acc o.toi st (stepObj E.decO E.rc o st (.pkt (symOf p))) evs := by
  have hsym : (symOf p).sbn = sbn ∧ (symOf p).esi = esi := by simp [symOf, hpid]
  have hcore : ∀ (S1 : Recv.State SObj) (st1 : OState), Quiet S1 → RelObj o S1 st1 → st1.completed = false →
      ∃ S' r evs, Recv.pushObjCore (sobj E) S1 p 0 = .ok (S', r, evs) ∧
        RelObj o S' (pushNew E.decO E.rc o st1 (symOf p)) ∧ Acc o.toi st1 (pushNew E.decO E.rc o st1 (symOf p)) evs := by
    intro S1 st1 h1 hR1 hnd
    have := core_pushNew E o ht hE S1 st1 p hR1 hnd
    refine ⟨_, _, _, pushObjCore_spec E S1 p h1, ?_⟩
    rw [hp]
    exact this
  unfold Recv.pushObj Recv.gateCompleted
  simp only [stepObj]
  rw [hp]
  by_cases hc : st.completed = true
  · have hc' : (alookup o.toi S.completed).isSome = true := by rw [hR.comp]; exact hc
    simp only [hc', ↓reduceIte, hpid, hc, hro]
    by_cases hr : E.rc.receiveOnce = true
    · simp only [hr, ↓reduceIte]
      exact ⟨S, .ok, [], rfl, hR, Acc.nil _ _⟩
    · simp only [hr, Bool.false_eq_true, ↓reduceIte]
      by_cases h00 : sbn = 0 ∧ esi = 0
      · have hb : ((symOf p).sbn == 0 && (symOf p).esi == 0) = true := by simp [hsym, h00]
        simp only [h00, and_self, ↓reduceIte, hb]
        rw [gateError_quiet { S with completed := aerase o.toi S.completed } p hq.errors]
        have hq1 : Quiet { S with completed := aerase o.toi S.completed } := ⟨hq.maxErr, hq.errors, hq.nocheck⟩
        have hR1 : RelObj o { S with completed := aerase o.toi S.completed } { st with completed := false } :=
          ⟨hR.obj, by simp [alookup_aerase_self], hR.ageIdx, fun _ => rfl⟩
        obtain ⟨S', r, evs, e1, e2, e3⟩ := hcore _ _ hq1 hR1 rfl
        exact ⟨S', r, evs, e1, e2, e3⟩
      · have hb : ((symOf p).sbn == 0 && (symOf p).esi == 0) = false := by
          rw [hsym.1, hsym.2]
          cases h1 : (sbn == 0) <;> cases h2 : (esi == 0) <;> simp_all
        simp only [h00, ↓reduceIte, hb, Bool.false_eq_true]
        exact ⟨S, .ok, [], rfl, hR, Acc.nil _ _⟩
  · have hc1 : st.completed = false := by simpa using hc
    have hc' : (alookup o.toi S.completed).isSome = false := by rw [hR.comp]; exact hc1
    simp only [hc', Bool.false_eq_true, ↓reduceIte, hc1]
    rw [gateError_quiet _ p hq.errors]
    exact hcore S st hq hR hc1

/-! ## an FDT instance completes: `attach_latest_fdt_to_objects` over ALL objects -/

section attachAll
variable (E : Env) (id : Nat) (inst : Recv.FdtAbs)

/-- the loop of `attach_latest_fdt_to_objects`, seen from TOI `t`: its (only) entry gets `attach_fdt`; the events of
    TOI `t` are those of that call -/
theorem attachAll_spec (t : Nat) : ∀ (L : List (Nat × SObj)), cntKey t L ≤ 1 →
    alookup t (Recv.attachAll (sobj E) id inst L).1 =
      (alookup t L).map (fun σ => ((sobj E).attachFdt σ id inst).1) ∧
    cntKey t (Recv.attachAll (sobj E) id inst L).1 = cntKey t L ∧
    (t ∈ (Recv.attachAll (sobj E) id inst L).2.1 ↔
      ∃ σ, alookup t L = some σ ∧ ((sobj E).attachFdt σ id inst).2.1 = true) ∧
    (match alookup t L with
      | none => NoEv t (Recv.attachAll (sobj E) id inst L).2.2
      | some σ =>
        cntO t (Recv.attachAll (sobj E) id inst L).2.2 = cntO t (Recv.wevs t ((sobj E).attachFdt σ id inst).2.2) ∧
        cntC t (Recv.attachAll (sobj E) id inst L).2.2 = cntC t (Recv.wevs t ((sobj E).attachFdt σ id inst).2.2) ∧
        cntE t (Recv.attachAll (sobj E) id inst L).2.2 = cntE t (Recv.wevs t ((sobj E).attachFdt σ id inst).2.2) ∧
        cntI t (Recv.attachAll (sobj E) id inst L).2.2 = cntI t (Recv.wevs t ((sobj E).attachFdt σ id inst).2.2)) := by
  intro L
  induction L with
  | nil => intro _; exact ⟨rfl, rfl, by simp [Recv.attachAll, alookup], NoEv.nil t⟩
  | cons a r ih =>
    obtain ⟨k, σ⟩ := a
    intro hcnt
    unfold Recv.attachAll
    rcases hatt : (sobj E).attachFdt σ id inst with ⟨σ', ok, evs⟩
    dsimp only
    by_cases hk : k = t
    · subst hk
      -- the entry of TOI `k`; no other entry has this key
      have hr0 : cntKey k r = 0 := by simp [cntKey] at hcnt ⊢; omega
      have hnone : alookup k r = none := alookup_none_of_cntKey k r hr0
      obtain ⟨i1, i2, i3, i4⟩ := ih (by omega)
      rw [hnone] at i1 i3 i4
      simp only at i4
      have hmarker : NoEv k (if ok = true then [Recv.Ev.attach k id] else []) := by
        split
        · exact noEv_attach k k id
        · exact NoEv.nil k
      have hrest := NoEv.append hmarker i4
      refine ⟨by simp [alookup, hatt], ?_, ?_, ?_⟩
      · simp only [cntKey, List.filter_cons, beq_self_eq_true, ↓reduceIte, List.length_cons] at i2 ⊢
        simpa [cntKey] using i2
      · simp only [alookup, ↓reduceIte, Option.some.injEq, exists_eq_left', hatt]
        constructor
        · intro hm
          cases ok with
          | true => rfl
          | false =>
            simp only [Bool.false_eq_true, ↓reduceIte] at hm
            have := i3.mp hm
            simp at this
        · intro hok
          simp [hok]
      · simp only [alookup, ↓reduceIte, hatt]
        obtain ⟨n1, n2, n3, n4⟩ := hrest
        refine ⟨?_, ?_, ?_, ?_⟩
        · rw [List.append_assoc, cntO_append, n1]; rfl
        · rw [List.append_assoc, cntC_append, n2]; rfl
        · rw [List.append_assoc, cntE_append, n3]; rfl
        · rw [List.append_assoc, cntI_append, n4]; rfl
    · have hb : (k == t) = false := beq_false_of_ne hk
      have hcnt' : cntKey t r ≤ 1 := by simpa [cntKey, List.filter_cons, hb] using hcnt
      obtain ⟨i1, i2, i3, i4⟩ := ih hcnt'
      have hmarker : NoEv t (if ok = true then [Recv.Ev.attach k id] else []) := by
        split
        · exact noEv_attach t k id
        · exact NoEv.nil t
      have hpre : NoEv t (Recv.wevs k evs ++ (if ok = true then [Recv.Ev.attach k id] else [])) :=
        NoEv.append (noEv_wevs t k (fun h => hk h.symm) evs) hmarker
      refine ⟨by simp [alookup, hk, i1], ?_, ?_, ?_⟩
      · simpa [cntKey, List.filter_cons, hb] using i2
      · simp only [alookup, hk, ↓reduceIte]
        rw [← i3]
        cases ok with
        | true =>
          simp only [↓reduceIte, List.mem_cons]
          constructor
          · intro h
            rcases h with h | h
            · exact absurd h.symm hk
            · exact h
          · intro h; exact Or.inr h
        | false => simp
      · simp only [alookup, hk, ↓reduceIte]
        obtain ⟨n1, n2, n3, n4⟩ := hpre
        cases hl : alookup t r with
        | none =>
          rw [hl] at i4
          exact NoEv.append ⟨n1, n2, n3, n4⟩ i4
        | some σt =>
          rw [hl] at i4
          obtain ⟨j1, j2, j3, j4⟩ := i4
          refine ⟨?_, ?_, ?_, ?_⟩
          · rw [cntO_append, n1, j1]; omega
          · rw [cntC_append, n2, j2]; omega
          · rw [cntE_append, n3, j3]; omega
          · rw [cntI_append, n4, j4]; omega

end attachAll

/-! ## `check_object_state` over the attached objects -/

/-- TOI `t`'s entries in `objects` / `objects_completed` -/
def sliceOf (t : Nat) (S : Recv.State SObj) : Option SObj × Option Recv.CacheControl :=
  (alookup t S.objects, alookup t S.completed)

/-- what `check_object_state(t)` does to them -/
def afterS (x : Option SObj × Option Recv.CacheControl) : Option SObj × Option Recv.CacheControl :=
  match x.1 with
  | none => x
  | some σ =>
    match σ.term with
    | .receiving => x
    | .completed => (none, if ccOf σ ≠ some .noCache then some ((ccOf σ).getD .noCache) else x.2)
    | _ => (none, x.2)

theorem afterS_idem (x : Option SObj × Option Recv.CacheControl) : afterS (afterS x) = afterS x := by
  obtain ⟨a, b⟩ := x
  cases a with
  | none => rfl
  | some σ =>
    cases ht : σ.term <;> simp [afterS, ht]

/-- one `check_object_state(k)`: TOI `k`'s slice gets `afterS`, every other slice and everything else is untouched,
    no writer call -/
theorem check_slice (E : Env) (S : Recv.State SObj) (k : Nat) (hq : Quiet S) :
    (Recv.checkObjectState (sobj E) S k).2 = [] ∧ Quiet (Recv.checkObjectState (sobj E) S k).1 ∧
    (Recv.checkObjectState (sobj E) S k).1.fdtCurrent = S.fdtCurrent ∧
    (Recv.checkObjectState (sobj E) S k).1.fdtReceivers = S.fdtReceivers ∧
    (Recv.checkObjectState (sobj E) S k).1.cfg = S.cfg ∧
    (∀ t, cntKey t (Recv.checkObjectState (sobj E) S k).1.objects ≤ cntKey t S.objects) ∧
    sliceOf k (Recv.checkObjectState (sobj E) S k).1 = afterS (sliceOf k S) ∧
    (∀ t, t ≠ k → sliceOf t (Recv.checkObjectState (sobj E) S k).1 = sliceOf t S) := by
  rw [check_spec E S k hq.errors hq.maxErr]
  unfold sliceOf afterS
  cases hl : alookup k S.objects with
  | none => exact ⟨rfl, hq, rfl, rfl, rfl, fun _ => Nat.le_refl _, by simp [hl], fun _ _ => rfl⟩
  | some σ =>
    dsimp only
    cases ht : σ.term with
    | receiving => exact ⟨rfl, hq, rfl, rfl, rfl, fun _ => Nat.le_refl _, by simp [hl, ht], fun _ _ => rfl⟩
    | completed =>
      refine ⟨rfl, ⟨hq.maxErr, hq.errors, hq.nocheck⟩, rfl, rfl, rfl, fun t => cntKey_aerase_le t k _, ?_, ?_⟩
      · simp only [alookup_aerase_self, hl, ht]
        by_cases hc : ccOf σ ≠ some Recv.CacheControl.noCache
        · simp [hc, Recv.alookup_ainsert_self]
        · have hc' : ccOf σ = some Recv.CacheControl.noCache := by simpa using hc
          simp [hc']
      · intro t htk
        simp only [alookup_aerase_ne t k _ (fun h => htk h.symm)]
        by_cases hc : ccOf σ ≠ some Recv.CacheControl.noCache
        · simp [hc, alookup_ainsert_ne t k _ _ (fun h => htk h.symm)]
        · have hc' : ccOf σ = some Recv.CacheControl.noCache := by simpa using hc
          simp [hc']
    | interrupted =>
      refine ⟨rfl, ⟨hq.maxErr, hq.errors, hq.nocheck⟩, rfl, rfl, rfl, fun t => cntKey_aerase_le t k _, ?_, ?_⟩
      · simp [alookup_aerase_self, hl, ht]
      · intro t htk; simp [alookup_aerase_ne t k _ (fun h => htk h.symm)]
    | error =>
      refine ⟨rfl, ⟨hq.maxErr, hq.errors, hq.nocheck⟩, rfl, rfl, rfl, fun t => cntKey_aerase_le t k _, ?_, ?_⟩
      · simp [alookup_aerase_self, hl, ht]
      · intro t htk; simp [alookup_aerase_ne t k _ (fun h => htk h.symm)]

theorem checkStates_slice (E : Env) (t : Nat) : ∀ (succ : List Nat) (S : Recv.State SObj), Quiet S →
    (Recv.checkObjectStates (sobj E) S succ).2 = [] ∧ Quiet (Recv.checkObjectStates (sobj E) S succ).1 ∧
    (Recv.checkObjectStates (sobj E) S succ).1.fdtCurrent = S.fdtCurrent ∧
    (Recv.checkObjectStates (sobj E) S succ).1.fdtReceivers = S.fdtReceivers ∧
    (Recv.checkObjectStates (sobj E) S succ).1.cfg = S.cfg ∧
    cntKey t (Recv.checkObjectStates (sobj E) S succ).1.objects ≤ cntKey t S.objects ∧
    sliceOf t (Recv.checkObjectStates (sobj E) S succ).1 = (if t ∈ succ then afterS (sliceOf t S) else sliceOf t S) := by
  intro succ
  induction succ with
  | nil => intro S hq; exact ⟨rfl, hq, rfl, rfl, rfl, Nat.le_refl _, by simp [Recv.checkObjectStates]⟩
  | cons k ks ih =>
    intro S hq
    simp only [Recv.checkObjectStates]
    obtain ⟨c1, c2, c3, c4, c5, c6, c7, c8⟩ := check_slice E S k hq
    obtain ⟨i1, i2, i3, i4, i5, i6, i7⟩ := ih (Recv.checkObjectState (sobj E) S k).1 c2
    refine ⟨by rw [c1, i1]; rfl, i2, by rw [i3, c3], by rw [i4, c4], by rw [i5, c5], Nat.le_trans i6 (c6 t), ?_⟩
    rw [i7]
    by_cases hk : t = k
    · subst hk
      rw [c7]
      by_cases hm : t ∈ ks <;> simp [hm, afterS_idem]
    · rw [c8 t hk]
      by_cases hm : t ∈ ks <;> simp [hm, hk]

/-! ## `push_fdt_obj`: the `FdtReceiver` life cycle -/

section fdt
variable (cF : Codec) (E : Env)

/-- the object inside the `FdtReceiver` of instance `id` -/
def fobj (id : Nat) (rx : ORx) : SObj := { toi := 0, cfg := E.fdt id, rx := rx, term := .receiving }

/-- an `FdtReceiver` under reception -/
def mkF (id : Nat) (rx : ORx) : Recv.FdtRecv SObj :=
  { fdtId := id, obj := some (fobj E id rx), st := .receiving, expires := none, inst := none, utf8 := false,
    offset := none, late := true, check := false, hasMeta := false, bytes := 0, fti := none }

/-- a new one (`FdtReceiver::new`): its object does not know the instance yet -/
def newF (id : Nat) : Recv.FdtRecv SObj :=
  { fdtId := id, obj := some { toi := 0, cfg := none, rx := fdtFresh, term := .receiving }, st := .receiving,
    expires := none, inst := none, utf8 := false, offset := none, late := true, check := false, hasMeta := false,
    bytes := 0, fti := none }

/-- a completed one -/
def doneF (id : Nat) (fc : FdtCfg) : Recv.FdtRecv SObj :=
  { fdtId := id, obj := none, st := .complete, expires := (fdtAbsOf fc).writerExpires, inst := some (fdtAbsOf fc),
    utf8 := true, offset := none, late := true, check := false, hasMeta := true, bytes := 0, fti := none }

/-- a failed one -/
def errF (id : Nat) (σ : SObj) : Recv.FdtRecv SObj :=
  { fdtId := id, obj := some σ, st := .error, expires := none, inst := none, utf8 := false,
    offset := none, late := true, check := false, hasMeta := false, bytes := 0, fti := none }

/-- FDT packets of the stream: instance id in EXT_FDT, no EXT_TIME, (the FTI is not looked at by `sobj`) -/
structure FdtPkt (p : Recv.Pkt) (id sbn esi : Nat) : Prop where
  toi : p.toi = 0
  fdtId : p.fdtId = some id
  sct : p.sct = none
  fti : p.fti = none
  pid : p.pid = some (sbn, esi)

theorem fdt_attached (fo : ObjCfg) (rx : ORx) (sy : Sym) (rcF : RxCfg) (h : rx.attached = true) :
    (pushSym cF.canDecode rcF fo rx sy).rx.attached = true := by
  rw [pushSym_attached]; exact h

/-- `FdtReceiver::push` on an instance under reception (or a new one): by the outcome of the symbol push -/
theorem fdtPush_spec (hdec : E.decF = cF.canDecode) (s : SessCfg) (p : Recv.Pkt) (id sbn esi : Nat)
    (hp : FdtPkt p id sbn esi) (fc : FdtCfg) (hfc : E.fdt id = some (fdtObj s fc)) (rx : ORx) (cfg0 : Option ObjCfg)
    (hcfg : cfg0 = none ∨ cfg0 = E.fdt id) (hatt : rx.attached = true) :
    let F0 : Recv.FdtRecv SObj := { mkF E id rx with obj := some { toi := 0, cfg := cfg0, rx := rx, term := .receiving } }
    let r := pushSym cF.canDecode { E.rc with maxSize := 1024 * 1024, pktCap := none } (fdtObj s fc) rx (symOf p)
    F0.push (sobj E) p 0 (.ok (fdtAbsOf fc) true) =
      match r.term with
      | .receiving => mkF E id r.rx
      | .completed => doneF id fc
      | _ => errF id { toi := 0, cfg := some (fdtObj s fc), rx := r.rx, term := r.term } := by
  intro F0 r
  have hra : r.rx.attached = true := fdt_attached cF _ _ _ _ hatt
  have hpush : (sobj E).push { toi := 0, cfg := cfg0, rx := rx, term := .receiving } p =
      ({ toi := 0, cfg := some (fdtObj s fc), rx := r.rx, term := r.term }, termEvs r.rx.attached r.term) := by
    rcases hcfg with h | h
    · subst h
      simp only [sobj, ne_eq, not_true_eq_false, ↓reduceIte, hp.fdtId, Option.bind_some, hfc, hdec]
      rfl
    · subst h
      simp only [sobj, ne_eq, not_true_eq_false, ↓reduceIte, hfc, hdec]
      rfl
  unfold Recv.FdtRecv.push Recv.FdtRecv.observeSct
  rw [hp.sct]
  show (match (sobj E).push { toi := 0, cfg := cfg0, rx := rx, term := .receiving } p with
    | (o', evs) =>
      let f := F0.applyWEvs (.ok (fdtAbsOf fc) true) evs
      match (sobj E).state o' with
      | .receiving => { f with obj := some o' }
      | .completed =>
        Recv.FdtRecv.applyWEvs (.ok (fdtAbsOf fc) true) { f with hasMeta := true, obj := none } ((sobj E).drop o')
      | .interrupted => { f with obj := some o', st := .error }
      | .error => { f with obj := some o', st := .error }) = _
  rw [hpush]
  dsimp only
  rw [hra]
  cases ht : r.term with
  | receiving =>
    simp only [termEvs, Recv.FdtRecv.applyWEvs, List.foldl_nil, sobj_state, stateOf, mkF, fobj, hfc]
    rfl
  | completed =>
    simp only [termEvs, ↓reduceIte, Recv.FdtRecv.applyWEvs, List.foldl_cons, List.foldl_nil, Recv.FdtRecv.applyWEv,
      sobj_state, stateOf, sobj_drop, mkF, doneF]
    rfl
  | interrupted =>
    simp only [termEvs, ↓reduceIte, Recv.FdtRecv.applyWEvs, List.foldl_cons, List.foldl_nil, Recv.FdtRecv.applyWEv,
      sobj_state, stateOf, mkF, errF]
    rfl
  | error =>
    simp only [termEvs, ↓reduceIte, Recv.FdtRecv.applyWEvs, List.foldl_cons, List.foldl_nil, Recv.FdtRecv.applyWEv,
      sobj_state, stateOf, mkF, errF]
    rfl

/-- the FDT layer of the `Receiver` state versus `FdtRx` -/
structure RelFdt (s : SessCfg) (S : Recv.State SObj) (F : FdtRx) : Prop where
  recv : ∀ id', alookup id' S.fdtReceivers = (F.receiving.find? (fun x => x.1 == id')).map (fun x => mkF E id' x.2)
  att : ∀ x, x ∈ F.receiving → x.2.attached = true
  cur : S.fdtCurrent.map (·.fdtId) = F.current
  curOk : ∀ FR, FR ∈ S.fdtCurrent → ∃ fc, s.fdts.find? (fun x => x.id == FR.fdtId) = some fc ∧
    FR = doneF FR.fdtId fc ∧ FR.fdtId + 1 < 2 ^ 32
  len : S.fdtCurrent.length ≤ 10

theorem any_fdtId (l : List (Recv.FdtRecv SObj)) (id : Nat) :
    l.any (fun f => decide (f.fdtId = id)) = (l.map (·.fdtId)).contains id := by
  induction l with
  | nil => rfl
  | cons a r ih =>
    simp only [List.any_cons, List.map_cons, List.contains_cons, ih]
    congr 1
    by_cases h : a.fdtId = id
    · simp [h]
    · have : ¬ id = a.fdtId := fun h' => h h'.symm
      simp [h, this]

theorem dropConflict_nofti (S : Recv.State SObj) (p : Recv.Pkt) (h : p.fti = none) : Recv.dropConflict S p = S := by
  unfold Recv.dropConflict Recv.FdtRecv.ftiConflicts
  cases p.fdtId with
  | none => rfl
  | some id =>
    dsimp only
    cases alookup id S.fdtReceivers with
    | none => rfl
    | some f =>
      dsimp only
      rw [h]
      cases f.fti <;> simp

theorem fdtLookup_attached (F : FdtRx) (id : Nat) (h : ∀ x, x ∈ F.receiving → x.2.attached = true) :
    (fdtLookup F id).attached = true := by
  unfold fdtLookup
  cases hf : F.receiving.find? (fun x => x.1 == id) with
  | none => rfl
  | some x => exact h x (List.mem_of_find?_eq_some hf)

/-- **`push_fdt_obj`, closed form** on a genuine FDT packet of instance `id` -/
theorem pushFdt_spec (hdec : E.decF = cF.canDecode) (s : SessCfg) (S : Recv.State SObj) (F : FdtRx) (p : Recv.Pkt)
    (id sbn esi : Nat) (hp : FdtPkt p id sbn esi) (fc : FdtCfg) (hfc : E.fdt id = some (fdtObj s fc))
    (hro : S.cfg.receiveOnce = E.rc.receiveOnce) (hexp : S.cfg.expCheck = false) (hR : RelFdt E s S F) :
    Recv.pushFdtObj (sobj E) S p 0 (.ok (fdtAbsOf fc) true) =
      if (E.rc.receiveOnce && F.current.contains id) = true then .ok (S, .ok, []) else
      match (pushSym cF.canDecode { E.rc with maxSize := 1024 * 1024, pktCap := none } (fdtObj s fc)
              (fdtLookup F id) (symOf p)).term with
      | .receiving =>
        .ok ({ S with fdtReceivers := ainsert id (mkF E id (pushSym cF.canDecode { E.rc with maxSize := 1024 * 1024, pktCap := none }
              (fdtObj s fc) (fdtLookup F id) (symOf p)).rx) S.fdtReceivers }, .ok, [])
      | .completed => Recv.fdtCompleted (sobj E) { S with fdtReceivers := ainsert id (doneF id fc) S.fdtReceivers } id
      | _ => .ok ({ S with fdtReceivers := aerase id S.fdtReceivers }, .err, []) := by
  unfold Recv.pushFdtObj
  rw [dropConflict_nofti S p hp.fti]
  unfold Recv.pushFdtObj'
  simp only [hp.fdtId]
  have hany : S.fdtCurrent.any (fun f => decide (f.fdtId = id)) = F.current.contains id := by
    rw [← hR.cur]
    exact any_fdtId S.fdtCurrent id
  by_cases hgate : (E.rc.receiveOnce && F.current.contains id) = true
  · have : S.cfg.receiveOnce = true ∧ S.fdtCurrent.any (fun f => decide (f.fdtId = id)) = true := by
      rw [hro, hany]; simpa using hgate
    simp only [this, and_self, ↓reduceIte, hgate]
  · have : ¬ (S.cfg.receiveOnce = true ∧ S.fdtCurrent.any (fun f => decide (f.fdtId = id)) = true) := by
      rw [hro, hany]; simpa using hgate
    simp only [this, ↓reduceIte, hgate, Bool.false_eq_true]
    have hatt := fdtLookup_attached F id hR.att
    have hlook := hR.recv id
    unfold Recv.fdtEntry
    cases hfind : F.receiving.find? (fun x => x.1 == id) with
    | some x =>
      rw [hfind] at hlook
      simp only [Option.map_some] at hlook
      have hfl : fdtLookup F id = x.2 := by simp [fdtLookup, hfind]
      rw [hfl] at hatt ⊢
      simp only [hlook]
      have hnote : (mkF E id x.2).noteFti p.fti = mkF E id x.2 := by rw [hp.fti]; rfl
      rw [hnote]
      have hst : (mkF E id x.2).st = .receiving := rfl
      simp only [hst, ne_eq, not_true_eq_false, ↓reduceIte]
      have hpush := fdtPush_spec cF E hdec s p id sbn esi hp fc hfc x.2 (E.fdt id) (Or.inr rfl) hatt
      simp only at hpush
      have hF0 : ({ mkF E id x.2 with obj := some { toi := 0, cfg := E.fdt id, rx := x.2, term := .receiving } } :
          Recv.FdtRecv SObj) = mkF E id x.2 := rfl
      rw [hF0] at hpush
      rw [hpush]
      cases ht : (pushSym cF.canDecode { E.rc with maxSize := 1024 * 1024, pktCap := none } (fdtObj s fc) x.2 (symOf p)).term with
      | receiving => simp only [mkF, Recv.fdtDispatch]; rfl
      | completed =>
        have hd : (doneF id fc).st = .complete := rfl
        simp only [hd, ↓reduceIte, updateExpired_nocheck (doneF id fc) 0 rfl, Recv.fdtDispatch]
      | interrupted => simp only [errF, Recv.fdtDispatch, aerase_ainsert]; rfl
      | error => simp only [errF, Recv.fdtDispatch, aerase_ainsert]; rfl
    | none =>
      rw [hfind] at hlook
      simp only [Option.map_none] at hlook
      have hfl : fdtLookup F id = fdtFresh := by simp [fdtLookup, hfind]
      rw [hfl] at hatt ⊢
      simp only [hlook]
      have hnew : (Recv.FdtRecv.new (sobj E) id S.cfg.expCheck).noteFti p.fti = newF id := by
        rw [hp.fti, hexp]; rfl
      rw [hnew]
      have hst0 : (newF id).st = .receiving := rfl
      simp only [hst0, ne_eq, not_true_eq_false, ↓reduceIte]
      have hpush := fdtPush_spec cF E hdec s p id sbn esi hp fc hfc fdtFresh none (Or.inl rfl) hatt
      simp only at hpush
      have hF0 : ({ mkF E id fdtFresh with obj := some { toi := 0, cfg := none, rx := fdtFresh, term := .receiving } } :
          Recv.FdtRecv SObj) = newF id := rfl
      rw [hF0] at hpush
      rw [hpush]
      cases ht : (pushSym cF.canDecode { E.rc with maxSize := 1024 * 1024, pktCap := none } (fdtObj s fc) fdtFresh (symOf p)).term with
      | receiving => simp only [mkF, Recv.fdtDispatch, ainsert_ainsert]; rfl
      | completed =>
        have hd : (doneF id fc).st = .complete := rfl
        simp only [hd, ↓reduceIte, updateExpired_nocheck (doneF id fc) 0 rfl, Recv.fdtDispatch, ainsert_ainsert]
      | interrupted => simp only [errF, Recv.fdtDispatch, aerase_ainsert, ainsert_ainsert]; rfl
      | error => simp only [errF, Recv.fdtDispatch, aerase_ainsert, ainsert_ainsert]; rfl

end fdt

/-! ## an FDT instance completes: registries and `fdt_current` -/

theorem alookup_filter {α} (P : Nat → Bool) (t : Nat) (l : List (Nat × α)) :
    alookup t (l.filter (fun c => P c.1)) = if P t then alookup t l else none := by
  induction l with
  | nil => simp [alookup]
  | cons a r ih =>
    obtain ⟨k, v⟩ := a
    simp only [List.filter_cons]
    by_cases hk : k = t
    · subst hk
      cases hp : P k <;> simp [alookup, hp, ih]
    · cases hp : P k <;> simp [alookup, hk, ih]

theorem updateCcLoop_isSome (exp : Option Int) (t : Nat) : ∀ (files : List Recv.FileAbs) (c : List (Nat × Recv.CacheControl)),
    (alookup t (Recv.updateCcLoop exp files c).1).isSome = (alookup t c).isSome := by
  intro files
  induction files with
  | nil => intro c; rfl
  | cons x xs ih =>
    intro c
    unfold Recv.updateCcLoop
    dsimp only
    cases hl : alookup x.toiParsed c with
    | none => exact ih c
    | some old =>
      dsimp only
      split
      · dsimp only
        rw [ih]
        by_cases hk : x.toiParsed = t
        · rw [← hk, Recv.alookup_ainsert_self, hl]; rfl
        · rw [alookup_ainsert_ne t _ _ _ hk]
      · exact ih c

theorem trunc10 {α} (l : List α) (h : l.length ≤ 11) : (if l.length > 10 then l.dropLast else l) = l.take 10 := by
  split
  · rename_i h1
    have : l.length = 11 := by omega
    rw [List.dropLast_eq_take, this]
  · rename_i h1
    rw [List.take_of_length_le (by omega)]

theorem firstIdx_take {α} (p : α → Bool) : ∀ (n : Nat) (l : List α),
    firstIdx p (l.take n) = (firstIdx p l).bind (fun a => if a < n then some a else none) := by
  intro n
  induction n with
  | zero => intro l; cases h : firstIdx p l <;> simp [firstIdx]
  | succ n ih =>
    intro l
    cases l with
    | nil => rfl
    | cons a r =>
      simp only [List.take_succ_cons, firstIdx]
      cases hp : p a with
      | true => simp
      | false =>
        simp only [Bool.false_eq_true, ↓reduceIte, ih r]
        cases h : firstIdx p r with
        | none => rfl
        | some i =>
          simp only [Option.bind_some, Option.map_some]
          by_cases hi : i < n
          · have : i + 1 < n + 1 := by omega
            simp [hi, this]
          · have : ¬ i + 1 < n + 1 := by omega
            simp [hi, this]

/-- `fdt_current.push_front(f)` + truncation to 10 is `ageStep` -/
theorem age_step {α} (p : α → Bool) (f : α) (cur : List α) (hlen : cur.length ≤ 10) :
    firstIdx p ((f :: cur).take 10) = ageStep (firstIdx p cur) (p f) := by
  rw [firstIdx_take]
  simp only [firstIdx, ageStep]
  cases hp : p f with
  | true => simp
  | false =>
    simp only [Bool.false_eq_true, ↓reduceIte]
    cases h : firstIdx p cur with
    | none => rfl
    | some i => simp

/-- the File list of the instance, rendered as decimal strings by `fdtAbsOf`, names exactly the TOIs of `fc.files`
    as far as TOI `t` is concerned (true for every TOI below 2^128; checked by evaluation on instances) -/
structure NameOK (fc : FdtCfg) (t : Nat) : Prop where
  nonempty : fc.files.isEmpty = false
  getFile : ((fdtAbsOf fc).getFile t).isSome = fc.files.contains t
  parsed : ((fc.files.map (fun k => ({ toi := toString k, cc := none, tlen := 0, oti := none } : Recv.FileAbs))).map
      Recv.FileAbs.toiParsed).contains t = fc.files.contains t

section completed
variable (E : Env) (S : Recv.State SObj) (id : Nat) (fc : FdtCfg)

/-- the stages of `push_fdt_obj` after an instance was found `Complete` -/
def stA : List (Nat × SObj) × List Nat × List Recv.Ev := Recv.attachAll (sobj E) id (fdtAbsOf fc) S.objects
def stX : Recv.State SObj :=
  { S with objects := (stA E S id fc).1, fdtReceivers := aerase id S.fdtReceivers, fdtCurrent := doneF id fc :: S.fdtCurrent }
def stC : Recv.State SObj × List Recv.Ev := Recv.checkObjectStates (sobj E) (stX E S id fc) (stA E S id fc).2.1
def stG : Recv.State SObj := Recv.gcObjectCompleted (stC E S id fc).1
def stU : Recv.State SObj × List Recv.Ev := Recv.updateCompletedCc (stG E S id fc)
def stT : Recv.State SObj :=
  if (stU E S id fc).1.fdtCurrent.length > 10 then
    { (stU E S id fc).1 with fdtCurrent := (stU E S id fc).1.fdtCurrent.dropLast }
  else (stU E S id fc).1

theorem fdtCompleted_eq (hprev : Recv.prevIdCheck S.fdtCurrent = .ok ()) :
    Recv.fdtCompleted (sobj E) { S with fdtReceivers := ainsert id (doneF id fc) S.fdtReceivers } id =
      .ok (stT E S id fc, .ok,
        [Recv.Ev.fdtReceived id] ++ ((stA E S id fc).2.2 ++ (stC E S id fc).2) ++ (stU E S id fc).2) := by
  unfold Recv.fdtCompleted
  simp only [hprev, Recv.alookup_ainsert_self, aerase_ainsert]
  have hcb : Recv.fdtCb (doneF id fc) id = .ok [Recv.Ev.fdtReceived id] := rfl
  simp only [hcb]
  rfl

/-- the File elements `fdtAbsOf` renders -/
def filesOf : List Recv.FileAbs :=
  fc.files.map (fun k => ({ toi := toString k, cc := none, tlen := 0, oti := none } : Recv.FileAbs))

/-- `gc_object_completed` keeps the entries whose TOI the instance lists -/
def keepF (c : Nat × Recv.CacheControl) : Bool := ((filesOf fc).map Recv.FileAbs.toiParsed).contains c.1

theorem gc_spec (X : Recv.State SObj) (cur : List (Recv.FdtRecv SObj)) (h : X.fdtCurrent = doneF id fc :: cur)
    (hne : fc.files.isEmpty = false) :
    Recv.gcObjectCompleted X = { X with completed := X.completed.filter (keepF fc) } := by
  unfold Recv.gcObjectCompleted
  rw [h]
  simp only [doneF, fdtAbsOf, hne, Bool.false_eq_true, ↓reduceIte, filesOf, keepF]
  rfl

theorem upd_spec (X : Recv.State SObj) (cur : List (Recv.FdtRecv SObj)) (h : X.fdtCurrent = doneF id fc :: cur)
    (hne : fc.files.isEmpty = false) :
    Recv.updateCompletedCc X =
      ({ X with completed := (Recv.updateCcLoop (fdtAbsOf fc).expirationDate (filesOf fc) X.completed).1 },
       (Recv.updateCcLoop (fdtAbsOf fc).expirationDate (filesOf fc) X.completed).2) := by
  unfold Recv.updateCompletedCc
  rw [h]
  simp only [doneF]
  have : (fdtAbsOf fc).files = some (filesOf fc) := by simp [fdtAbsOf, hne, filesOf]
  rw [this]

theorem noEv_updateCcLoop (exp : Option Int) (t : Nat) : ∀ (files : List Recv.FileAbs) (c : List (Nat × Recv.CacheControl)),
    NoEv t (Recv.updateCcLoop exp files c).2 ∧ countFdtReceived (Recv.updateCcLoop exp files c).2 = 0 := by
  intro files
  induction files with
  | nil => intro c; exact ⟨NoEv.nil t, rfl⟩
  | cons x xs ih =>
    intro c
    unfold Recv.updateCcLoop
    dsimp only
    cases alookup x.toiParsed c with
    | none => exact ih c
    | some old =>
      dsimp only
      split
      · dsimp only
        obtain ⟨h1, h2⟩ := ih (ainsert x.toiParsed (x.cacheControl exp) c)
        refine ⟨?_, ?_⟩
        · have : NoEv t [Recv.Ev.updateCc x.toiParsed (x.cacheControl exp)] := by
            simp [NoEv, cntO, cntC, cntE, cntI, countW]
          exact NoEv.append this h1
        · simpa [countFdtReceived, List.countP_cons] using h2
      · exact ih c

theorem attach_mk (o : ObjCfg) (rx : ORx) (inst : Recv.FdtAbs) :
    (sobj E).attachFdt (mk o rx) id inst =
      if rx.attached = true then (mk o rx, false, []) else
      if (inst.getFile o.toi).isSome = true then
        ({ toi := o.toi, cfg := some o, rx := (attach E.decO E.rc o rx).rx, term := (attach E.decO E.rc o rx).term }, true,
          [.new (if o.noCache then .noCache else .maxStale), .opened] ++
            termEvs (attach E.decO E.rc o rx).rx.attached (attach E.decO E.rc o rx).term)
      else (mk o rx, false, []) := by
  cases ha : rx.attached <;> cases hg : inst.getFile o.toi <;> simp [sobj, mk, ha, hg]

/-- `afterS` on the object just attached is `finish` -/
theorem after_finish (o : ObjCfg) (comp : Option Recv.CacheControl) (st : OState) (r : PushRes)
    (hcomp : comp.isSome = st.completed) (hnd : st.completed = false) :
    (afterS (some { toi := o.toi, cfg := some o, rx := r.rx, term := r.term }, comp)).1 = (finish o st r).obj.map (mk o) ∧
    (afterS (some { toi := o.toi, cfg := some o, rx := r.rx, term := r.term }, comp)).2.isSome = (finish o st r).completed ∧
    (finish o st r).age = st.age ∧ ((finish o st r).obj.isSome = true → (finish o st r).completed = false) ∧
    Acc o.toi st (finish o st r) (Recv.wevs o.toi (termEvs r.rx.attached r.term)) := by
  have hc := cnt_wevs_termEvs o.toi r.rx.attached r.term
  unfold afterS finish
  cases ht : r.term with
  | receiving =>
    simp only [ht] at hc ⊢
    refine ⟨by simp [mk], hcomp, trivial, fun _ => hnd, ?_⟩
    simp [Acc, hc]
  | completed =>
    simp only [ht] at hc ⊢
    refine ⟨rfl, ?_, trivial, fun h => by simp at h, ?_⟩
    · simp only [ccOf]
      cases ha : r.rx.attached <;> cases hn : o.noCache <;> simp [hcomp, hnd]
    · cases ha : r.rx.attached <;> rw [ha] at hc <;> simp [Acc, hc]
  | interrupted =>
    simp only [ht] at hc ⊢
    refine ⟨rfl, hcomp, trivial, fun h => by simp at h, ?_⟩
    cases ha : r.rx.attached <;> rw [ha] at hc <;> simp [Acc, hc]
  | error =>
    simp only [ht] at hc ⊢
    refine ⟨rfl, hcomp, trivial, fun h => by simp at h, ?_⟩
    cases ha : r.rx.attached <;> rw [ha] at hc <;> simp [Acc, hc]

theorem stT_fields :
    (stT E S id fc).objects = (stU E S id fc).1.objects ∧ (stT E S id fc).completed = (stU E S id fc).1.completed ∧
    (stT E S id fc).errors = (stU E S id fc).1.errors ∧ (stT E S id fc).cfg = (stU E S id fc).1.cfg ∧
    (stT E S id fc).fdtReceivers = (stU E S id fc).1.fdtReceivers ∧
    (stT E S id fc).fdtCurrent = (if (stU E S id fc).1.fdtCurrent.length > 10 then (stU E S id fc).1.fdtCurrent.dropLast
      else (stU E S id fc).1.fdtCurrent) := by
  unfold stT
  split <;> exact ⟨rfl, rfl, rfl, rfl, rfl, rfl⟩

/-- **an FDT instance completes: `attach_latest_fdt_to_objects` + `gc_object_completed` + the `fdt_current` window
    is `fdtEv`** on the tracked TOI's slice -/
theorem completed_fdtEv (o : ObjCfg) (st : OState) (hq : Quiet S) (hlen : S.fdtCurrent.length ≤ 10)
    (hR : RelObj o S st) (hkey : cntKey o.toi S.objects ≤ 1) (hn : NameOK fc o.toi) :
    Quiet (stT E S id fc) ∧ (stT E S id fc).cfg = S.cfg ∧ (stT E S id fc).fdtReceivers = aerase id S.fdtReceivers ∧
    (stT E S id fc).fdtCurrent = (doneF id fc :: S.fdtCurrent).take 10 ∧ cntKey o.toi (stT E S id fc).objects ≤ 1 ∧
    RelObj o (stT E S id fc) (fdtEv E.decO E.rc o st (fc.files.contains o.toi)) ∧
    Acc o.toi st (fdtEv E.decO E.rc o st (fc.files.contains o.toi))
      ([Recv.Ev.fdtReceived id] ++ ((stA E S id fc).2.2 ++ (stC E S id fc).2) ++ (stU E S id fc).2) ∧
    countFdtReceived (stU E S id fc).2 = 0 := by
  -- stage A
  obtain ⟨a1, a2, a3, a4⟩ := attachAll_spec E id (fdtAbsOf fc) o.toi S.objects hkey
  -- stage X / C
  have hqX : Quiet (stX E S id fc) := by
    refine ⟨hq.maxErr, hq.errors, ?_⟩
    intro f hf
    simp only [stX, List.mem_cons] at hf
    rcases hf with rfl | hf
    · rfl
    · exact hq.nocheck f hf
  obtain ⟨c1, c2, c3, c4, c5, c6, c7⟩ := checkStates_slice E o.toi (stA E S id fc).2.1 (stX E S id fc) hqX
  have c3' : (stC E S id fc).1.fdtCurrent = doneF id fc :: S.fdtCurrent := c3
  -- stage G / U
  have hG : stG E S id fc = { (stC E S id fc).1 with completed := (stC E S id fc).1.completed.filter (keepF fc) } :=
    gc_spec id fc (stC E S id fc).1 S.fdtCurrent c3' hn.nonempty
  have hGcur : (stG E S id fc).fdtCurrent = doneF id fc :: S.fdtCurrent := by rw [hG]; exact c3'
  have hU := upd_spec id fc (stG E S id fc) S.fdtCurrent hGcur hn.nonempty
  have hU1 : (stU E S id fc).1 =
      { stG E S id fc with completed := (Recv.updateCcLoop (fdtAbsOf fc).expirationDate (filesOf fc) (stG E S id fc).completed).1 } := by
    unfold stU; rw [hU]
  have hU2 : (stU E S id fc).2 = (Recv.updateCcLoop (fdtAbsOf fc).expirationDate (filesOf fc) (stG E S id fc).completed).2 := by
    unfold stU; rw [hU]
  obtain ⟨t1, t2, t3, t4, t5, t6⟩ := stT_fields E S id fc
  have hobj : (stT E S id fc).objects = (stC E S id fc).1.objects := by rw [t1, hU1, hG]
  have herr : (stT E S id fc).errors = [] := by rw [t3, hU1, hG]; exact c2.errors
  have hcfg : (stT E S id fc).cfg = S.cfg := by rw [t4, hU1, hG]; exact c5
  have hfr : (stT E S id fc).fdtReceivers = aerase id S.fdtReceivers := by rw [t5, hU1, hG]; exact c4
  have hcur : (stT E S id fc).fdtCurrent = (doneF id fc :: S.fdtCurrent).take 10 := by
    rw [t6, hU1]
    show (if (stG E S id fc).fdtCurrent.length > 10 then (stG E S id fc).fdtCurrent.dropLast else (stG E S id fc).fdtCurrent) = _
    rw [hGcur]
    exact trunc10 _ (by simp only [List.length_cons]; omega)
  have hcompS : ∀ t, (alookup t (stT E S id fc).completed).isSome =
      (if ((filesOf fc).map Recv.FileAbs.toiParsed).contains t then (alookup t (stC E S id fc).1.completed).isSome else false) := by
    intro t
    rw [t2, hU1]
    show (alookup t (Recv.updateCcLoop _ _ (stG E S id fc).completed).1).isSome = _
    rw [updateCcLoop_isSome, hG]
    show (alookup t ((stC E S id fc).1.completed.filter (fun c => (fun k => ((filesOf fc).map Recv.FileAbs.toiParsed).contains k) c.1))).isSome = _
    rw [alookup_filter (fun k => ((filesOf fc).map Recv.FileAbs.toiParsed).contains k)]
    split <;> rfl
  have hparsed : ((filesOf fc).map Recv.FileAbs.toiParsed).contains o.toi = fc.files.contains o.toi := hn.parsed
  have hquiet : Quiet (stT E S id fc) := by
    refine ⟨by rw [hcfg]; exact hq.maxErr, herr, ?_⟩
    intro f hf
    rw [hcur] at hf
    have := List.mem_of_mem_take hf
    rcases List.mem_cons.mp this with rfl | h
    · rfl
    · exact hq.nocheck f h
  have hkeyT : cntKey o.toi (stT E S id fc).objects ≤ 1 := by
    rw [hobj]
    have h1 : cntKey o.toi (stX E S id fc).objects = cntKey o.toi S.objects := a2
    have h2 : cntKey o.toi (stC E S id fc).1.objects ≤ cntKey o.toi (stX E S id fc).objects := c6
    omega
  -- the slice
  have hslice : sliceOf o.toi (stC E S id fc).1 =
      (if o.toi ∈ (stA E S id fc).2.1 then afterS (sliceOf o.toi (stX E S id fc)) else sliceOf o.toi (stX E S id fc)) := c7
  have hsX : sliceOf o.toi (stX E S id fc) =
      ((alookup o.toi S.objects).map (fun σ => ((sobj E).attachFdt σ id (fdtAbsOf fc)).1), alookup o.toi S.completed) := by
    unfold sliceOf stX
    simp only
    rw [show (stA E S id fc).1 = (Recv.attachAll (sobj E) id (fdtAbsOf fc) S.objects).1 from rfl, a1]
  have hage : firstIdx (listsF o.toi) (stT E S id fc).fdtCurrent =
      ageStep st.age (fc.files.contains o.toi) := by
    rw [hcur, age_step (listsF o.toi) (doneF id fc) S.fdtCurrent hlen, ← hR.ageIdx]
    congr 1
    simp only [listsF, doneF, decide_true, Bool.true_and]
    exact hn.getFile
  have hnoU : NoEv o.toi (stU E S id fc).2 ∧ countFdtReceived (stU E S id fc).2 = 0 := by
    rw [hU2]; exact noEv_updateCcLoop _ o.toi _ _
  have hnoFdt : NoEv o.toi [Recv.Ev.fdtReceived id] := by simp [NoEv, cntO, cntC, cntE, cntI, countW]
  -- events of TOI t: those of the attach call
  have hevs : ∀ (evA : List Recv.Ev) (st' : OState), Acc o.toi st st' evA → NoEv o.toi (stC E S id fc).2 →
      Acc o.toi st st' ([Recv.Ev.fdtReceived id] ++ (evA ++ (stC E S id fc).2) ++ (stU E S id fc).2) := by
    intro evA st' hA hC
    obtain ⟨x1, x2, x3, x4⟩ := hA
    obtain ⟨y1, y2, y3, y4⟩ := hC
    obtain ⟨z1, z2, z3, z4⟩ := hnoU.1
    obtain ⟨w1, w2, w3, w4⟩ := hnoFdt
    refine ⟨?_, ?_, ?_, ?_⟩
    · rw [cntO_append, cntO_append, cntO_append, w1, y1, z1, x1]; omega
    · rw [cntC_append, cntC_append, cntC_append, w2, y2, z2, x2]; omega
    · rw [cntE_append, cntE_append, cntE_append, w3, y3, z3, x3]; omega
    · rw [cntI_append, cntI_append, cntI_append, w4, y4, z4, x4]; omega
  have hCno : NoEv o.toi (stC E S id fc).2 := by rw [show (stC E S id fc).2 = [] from c1]; exact NoEv.nil _
  -- how the registries of TOI t end up, given its slice after `check_object_state`
  have hfinal : ∀ (A : Option SObj) (B : Option Recv.CacheControl) (st' : OState),
      sliceOf o.toi (stC E S id fc).1 = (A, B) → A = st'.obj.map (mk o) →
      (if fc.files.contains o.toi then B.isSome else false) = st'.completed → st'.age = ageStep st.age (fc.files.contains o.toi) →
      (st'.obj.isSome = true → st'.completed = false) → RelObj o (stT E S id fc) st' := by
    intro A B st' hs hA hB hag hlive
    have h1 : alookup o.toi (stC E S id fc).1.objects = A := congrArg Prod.fst hs
    have h2 : alookup o.toi (stC E S id fc).1.completed = B := congrArg Prod.snd hs
    refine ⟨by rw [hobj, h1, hA], ?_, by rw [hag, hage], hlive⟩
    rw [hcompS, hparsed, h2]; exact hB
  unfold fdtEv
  cases hobjst : st.obj with
  | none =>
    have hl : alookup o.toi S.objects = none := by rw [hR.obj, hobjst]; rfl
    have hnot : o.toi ∉ (stA E S id fc).2.1 := by
      intro h
      obtain ⟨σ, hσ, _⟩ := a3.mp h
      rw [hl] at hσ; cases hσ
    have hs : sliceOf o.toi (stC E S id fc).1 = (none, alookup o.toi S.completed) := by
      rw [hslice, if_neg hnot, hsX, hl]; rfl
    rw [hl] at a4
    refine ⟨hquiet, hcfg, hfr, hcur, hkeyT, ?_, ?_, hnoU.2⟩
    · apply hfinal _ _ _ hs
      · simp [hobjst]
      · simp only [hR.comp]
        cases fc.files.contains o.toi <;> simp
      · rfl
      · intro h; simp [hobjst] at h
    · apply hevs _ _ _ hCno
      obtain ⟨n1, n2, n3, n4⟩ := a4
      exact ⟨by rw [show cntO o.toi (stA E S id fc).2.2 = 0 from n1]; rfl,
             by rw [show cntC o.toi (stA E S id fc).2.2 = 0 from n2]; rfl,
             by rw [show cntE o.toi (stA E S id fc).2.2 = 0 from n3]; rfl,
             by rw [show cntI o.toi (stA E S id fc).2.2 = 0 from n4]; rfl⟩
  | some rx =>
    have hl : alookup o.toi S.objects = some (mk o rx) := by rw [hR.obj, hobjst]; rfl
    have hnd : st.completed = false := hR.live (by simp [hobjst])
    rw [hl] at a4
    simp only at a4
    have hatt := attach_mk E id o rx (fdtAbsOf fc)
    rw [hn.getFile] at hatt
    by_cases hgo : (fc.files.contains o.toi && !rx.attached) = true
    · -- attached now
      have hlists : fc.files.contains o.toi = true := by
        cases h : fc.files.contains o.toi with
        | true => rfl
        | false => rw [h] at hgo; simp at hgo
      have hna : rx.attached = false := by
        cases h : rx.attached with
        | false => rfl
        | true => rw [h, hlists] at hgo; simp at hgo
      simp only [hna, Bool.false_eq_true, ↓reduceIte, hlists] at hatt
      have hin : o.toi ∈ (stA E S id fc).2.1 := a3.mpr ⟨mk o rx, hl, by rw [hatt]⟩
      have hs : sliceOf o.toi (stC E S id fc).1 =
          afterS (some { toi := o.toi, cfg := some o, rx := (attach E.decO E.rc o rx).rx, term := (attach E.decO E.rc o rx).term },
            alookup o.toi S.completed) := by
        rw [hslice, if_pos hin, hsX, hl]
        simp only [Option.map_some, hatt]
      obtain ⟨f1, f2, f3, f4, f5⟩ := after_finish o (alookup o.toi S.completed) { st with opens := st.opens + 1 }
        (attach E.decO E.rc o rx) hR.comp hnd
      simp only [hgo, ↓reduceIte]
      refine ⟨hquiet, hcfg, hfr, hcur, hkeyT, ?_, ?_, hnoU.2⟩
      · apply hfinal _ _ _ hs
        · exact f1
        · rw [hlists]; simp only [↓reduceIte, Bool.and_true]; exact f2
        · show ageStep (finish o { st with opens := st.opens + 1 } (attach E.decO E.rc o rx)).age _ = _
          rw [f3]
        · intro h
          have := f4 h
          show ((finish o { st with opens := st.opens + 1 } (attach E.decO E.rc o rx)).completed && _) = false
          rw [this]; rfl
      · apply hevs _ _ _ hCno
        rw [hatt] at a4
        obtain ⟨n1, n2, n3, n4⟩ := a4
        obtain ⟨g1, g2, g3, g4⟩ := f5
        have hw : Recv.wevs o.toi ([Recv.WEv.new (if o.noCache = true then Recv.CacheControl.noCache else Recv.CacheControl.maxStale),
            Recv.WEv.opened] ++ termEvs (attach E.decO E.rc o rx).rx.attached (attach E.decO E.rc o rx).term) =
            [Recv.Ev.w o.toi (.new (if o.noCache = true then Recv.CacheControl.noCache else Recv.CacheControl.maxStale)),
             Recv.Ev.w o.toi .opened] ++
            Recv.wevs o.toi (termEvs (attach E.decO E.rc o rx).rx.attached (attach E.decO E.rc o rx).term) := by
          simp [Recv.wevs]
        have hpre : cntO o.toi [Recv.Ev.w o.toi (.new (if o.noCache = true then Recv.CacheControl.noCache else Recv.CacheControl.maxStale)),
             Recv.Ev.w o.toi .opened] = 1 ∧
            cntC o.toi [Recv.Ev.w o.toi (.new (if o.noCache = true then Recv.CacheControl.noCache else Recv.CacheControl.maxStale)),
             Recv.Ev.w o.toi .opened] = 0 ∧
            cntE o.toi [Recv.Ev.w o.toi (.new (if o.noCache = true then Recv.CacheControl.noCache else Recv.CacheControl.maxStale)),
             Recv.Ev.w o.toi .opened] = 0 ∧
            cntI o.toi [Recv.Ev.w o.toi (.new (if o.noCache = true then Recv.CacheControl.noCache else Recv.CacheControl.maxStale)),
             Recv.Ev.w o.toi .opened] = 0 := by
          simp [cntO, cntC, cntE, cntI, countW]
        obtain ⟨p1, p2, p3, p4⟩ := hpre
        dsimp only at n1 n2 n3 n4 g1 g2 g3 g4
        rw [hw] at n1 n2 n3 n4
        rw [cntO_append, p1] at n1
        rw [cntC_append, p2] at n2
        rw [cntE_append, p3] at n3
        rw [cntI_append, p4] at n4
        show Acc o.toi st (finish o { st with opens := st.opens + 1 } (attach E.decO E.rc o rx)) (stA E S id fc).2.2
        refine ⟨?_, ?_, ?_, ?_⟩
        · rw [show cntO o.toi (stA E S id fc).2.2 = _ from n1, g1]; omega
        · rw [show cntC o.toi (stA E S id fc).2.2 = _ from n2, g2]; omega
        · rw [show cntE o.toi (stA E S id fc).2.2 = _ from n3, g3]; omega
        · rw [show cntI o.toi (stA E S id fc).2.2 = _ from n4, g4]; omega
    · -- nothing to attach: not listed, or attached already
      have hgo' : (fc.files.contains o.toi && !rx.attached) = false := by simpa using hgo
      have hattF : (sobj E).attachFdt (mk o rx) id (fdtAbsOf fc) = (mk o rx, false, []) := by
        rw [hatt]
        cases ha : rx.attached with
        | false =>
          have : fc.files.contains o.toi = false := by simpa [ha] using hgo'
          simp only [Bool.false_eq_true, ↓reduceIte, this]
        | true => simp only [↓reduceIte]
      have hnot : o.toi ∉ (stA E S id fc).2.1 := by
        intro h
        obtain ⟨σ, hσ, hok⟩ := a3.mp h
        rw [hl] at hσ; cases hσ
        rw [hattF] at hok; cases hok
      have hs : sliceOf o.toi (stC E S id fc).1 = (some (mk o rx), alookup o.toi S.completed) := by
        rw [hslice, if_neg hnot, hsX, hl]
        simp only [Option.map_some, hattF]
      simp only [hgo', Bool.false_eq_true, ↓reduceIte]
      refine ⟨hquiet, hcfg, hfr, hcur, hkeyT, ?_, ?_, hnoU.2⟩
      · apply hfinal _ _ _ hs
        · simp [hobjst]
        · simp only [hR.comp, hnd]; cases fc.files.contains o.toi <;> simp
        · rfl
        · intro _; simp [hnd]
      · apply hevs _ _ _ hCno
        rw [hattF] at a4
        obtain ⟨n1, n2, n3, n4⟩ := a4
        obtain ⟨e1, e2, e3, e4⟩ := cnt_nil o.toi
        have hw : Recv.wevs o.toi ([] : List Recv.WEv) = [] := rfl
        dsimp only at n1 n2 n3 n4
        rw [hw] at n1 n2 n3 n4
        exact ⟨by rw [show cntO o.toi (stA E S id fc).2.2 = _ from n1, e1]; rfl,
               by rw [show cntC o.toi (stA E S id fc).2.2 = _ from n2, e2]; rfl,
               by rw [show cntE o.toi (stA E S id fc).2.2 = _ from n3, e3]; rfl,
               by rw [show cntI o.toi (stA E S id fc).2.2 = _ from n4, e4]; rfl⟩

end completed

/-! ## the FDT layer relation is preserved -/

theorem find_filter_ne {α} (l : List (Nat × α)) (id id' : Nat) (h : id' ≠ id) :
    (l.filter (fun x => x.1 != id)).find? (fun x => x.1 == id') = l.find? (fun x => x.1 == id') := by
  induction l with
  | nil => rfl
  | cons a r ih =>
    by_cases h1 : a.1 = id
    · have hc : (a.1 == id') = false := by rw [h1]; exact beq_false_of_ne (fun e => h e.symm)
      have hb : (a.1 != id) = false := by simp [h1]
      simp only [List.filter_cons, hb, Bool.false_eq_true, ↓reduceIte, List.find?_cons, hc, ih]
    · have hb : (a.1 != id) = true := by simp [h1]
      simp only [List.filter_cons, hb, ↓reduceIte, List.find?_cons, ih]

theorem find_filter_self {α} (l : List (Nat × α)) (id : Nat) :
    (l.filter (fun x => x.1 != id)).find? (fun x => x.1 == id) = none := by
  induction l with
  | nil => rfl
  | cons a r ih =>
    by_cases h1 : a.1 = id
    · have hb : (a.1 != id) = false := by simp [h1]
      simp only [List.filter_cons, hb, Bool.false_eq_true, ↓reduceIte, ih]
    · have hb : (a.1 != id) = true := by simp [h1]
      have hc : (a.1 == id) = false := beq_false_of_ne h1
      simp only [List.filter_cons, hb, ↓reduceIte, List.find?_cons, hc, ih]

section relfdt
variable (E : Env) (s : SessCfg) (S : Recv.State SObj) (F : FdtRx)

theorem relFdt_receiving (hR : RelFdt E s S F) (id : Nat) (rx : ORx) (hatt : rx.attached = true) :
    RelFdt E s { S with fdtReceivers := ainsert id (mkF E id rx) S.fdtReceivers }
      { F with receiving := (id, rx) :: F.receiving.filter (fun x => x.1 != id) } := by
  refine ⟨?_, ?_, hR.cur, hR.curOk, hR.len⟩
  · intro id'
    by_cases h : id' = id
    · subst h
      simp [Recv.alookup_ainsert_self, List.find?_cons]
    · have hb : (id == id') = false := beq_false_of_ne (fun e => h e.symm)
      simp only [alookup_ainsert_ne id' id _ _ (fun e => h e.symm), List.find?_cons, hb, find_filter_ne _ id id' h]
      exact hR.recv id'
  · intro x hx
    rcases List.mem_cons.mp hx with rfl | hx
    · exact hatt
    · exact hR.att x ((List.mem_filter.mp hx).1)

theorem relFdt_dropped (hR : RelFdt E s S F) (id : Nat) :
    RelFdt E s { S with fdtReceivers := aerase id S.fdtReceivers }
      { F with receiving := F.receiving.filter (fun x => x.1 != id) } := by
  refine ⟨?_, fun x hx => hR.att x ((List.mem_filter.mp hx).1), hR.cur, hR.curOk, hR.len⟩
  intro id'
  by_cases h : id' = id
  · subst h
    rw [alookup_aerase_self, find_filter_self]; rfl
  · simp only [alookup_aerase_ne id' id _ (fun e => h e.symm), find_filter_ne _ id id' h]
    exact hR.recv id'

/-- after an instance completed (`S'` = the state `completed_fdtEv` describes) -/
theorem relFdt_completed (hR : RelFdt E s S F) (id : Nat) (fc : FdtCfg) (S' : Recv.State SObj)
    (hfc : s.fdts.find? (fun x => x.id == id) = some fc) (hid : id + 1 < 2 ^ 32)
    (h1 : S'.fdtReceivers = aerase id S.fdtReceivers) (h2 : S'.fdtCurrent = (doneF id fc :: S.fdtCurrent).take 10) :
    RelFdt E s S' { receiving := F.receiving.filter (fun x => x.1 != id), current := (id :: F.current).take 10 } := by
  have hd := relFdt_dropped E s S F hR id
  refine ⟨?_, hd.att, ?_, ?_, ?_⟩
  · intro id'; rw [h1]; exact hd.recv id'
  · rw [h2, List.map_take]; simp only [List.map_cons, hR.cur]; rfl
  · intro FR hFR
    rw [h2] at hFR
    rcases List.mem_cons.mp (List.mem_of_mem_take hFR) with rfl | h
    · exact ⟨fc, hfc, rfl, hid⟩
    · exact hR.curOk FR h
  · rw [h2]; simp only [List.length_take]; omega

end relfdt

/-! ## the whole stream -/

section main
variable (cF cO : Codec) (rc : RxCfg) (s : SessCfg) (o : ObjCfg)

/-- the simulation invariant -/
structure SInv (S : Recv.State SObj) (F : FdtRx) (st : OState) : Prop where
  quiet : Quiet S
  cfg : S.cfg = recvCfg rc
  fdt : RelFdt (envOf cF.canDecode cO.canDecode rc s) s S F
  obj : RelObj o S st
  key : cntKey o.toi S.objects ≤ 1

/-- what is asked of a packet of the stream: an FDT packet belongs to an instance of the session whose File list
    is not empty and names its TOIs (`NameOK`), with an instance id the `u32` arithmetic of `push_fdt_obj` survives -/
def PktOK (p : Pkt) : Prop :=
  p.toi = 0 → ∃ fc, s.fdts.find? (fun x => x.id == p.fdtId) = some fc ∧ NameOK fc o.toi ∧ p.fdtId + 1 < 2 ^ 32

/-- the Session model's step on the pair (FDT layer, object slice) -/
def sessStep (F : FdtRx) (st : OState) (p : Pkt) : FdtRx × OState × Nat :=
  if p.toi == 0 then
    match stepFdt cF.canDecode rc s F p with
    | (F', some f) => (F', stepObj cO.canDecode rc o st (.fdt (f.files.contains o.toi)), 1)
    | (F', none) => (F', st, 0)
  else if p.toi == o.toi then (F, stepObj cO.canDecode rc o st (.pkt (toSym p)), 0)
  else (F, st, 0)

theorem prevId_ok (E : Env) (S : Recv.State SObj) (F : FdtRx) (h : RelFdt E s S F) :
    Recv.prevIdCheck S.fdtCurrent = .ok () := by
  unfold Recv.prevIdCheck
  cases hc : S.fdtCurrent with
  | nil => rfl
  | cons prev r =>
    obtain ⟨_, _, _, hlt⟩ := h.curOk prev (by rw [hc]; exact List.mem_cons_self ..)
    simp [Recv.u32add, hlt]

/-- **one packet: `Receiver::push` and the Session model agree** -/
theorem step_sim (ht : o.toi ≠ 0) (hfind : s.objs.find? (fun x => x.toi == o.toi) = some o)
    (S : Recv.State SObj) (F : FdtRx) (st : OState) (p : Pkt) (hI : SInv cF cO rc s o S F st) (hp : PktOK s o p) :
    ∃ S' r evs, Recv.push (sobj (envOf cF.canDecode cO.canDecode rc s)) S (toRecvPkt p) 0 (ansOf s p) = .ok (S', r, evs) ∧
      SInv cF cO rc s o S' (sessStep cF cO rc s o F st p).1 (sessStep cF cO rc s o F st p).2.1 ∧
      Acc o.toi st (sessStep cF cO rc s o F st p).2.1 evs ∧
      countFdtReceived evs = (sessStep cF cO rc s o F st p).2.2 := by
  have hE : (envOf cF.canDecode cO.canDecode rc s).obj o.toi = some o := hfind
  have hro : S.cfg.receiveOnce = (envOf cF.canDecode cO.canDecode rc s).rc.receiveOnce := by rw [hI.cfg]; rfl
  have hexp : S.cfg.expCheck = false := by rw [hI.cfg]; rfl
  unfold Recv.push sessStep
  have hcs : (toRecvPkt p).closeSession = false := rfl
  simp only [hcs, Bool.false_eq_true, ↓reduceIte]
  have htoi : (toRecvPkt p).toi = p.toi := rfl
  by_cases h0 : p.toi = 0
  · -- an FDT packet
    obtain ⟨fc, hfc, hname, hid⟩ := hp h0
    have hb0 : (p.toi == 0) = true := by simp [h0]
    simp only [htoi, h0, ↓reduceIte, hb0]
    have hpk : FdtPkt (toRecvPkt p) p.fdtId p.sbn p.esi := ⟨h0, by simp [toRecvPkt, h0], rfl, rfl, rfl⟩
    have hEf : (envOf cF.canDecode cO.canDecode rc s).fdt p.fdtId = some (fdtObj s fc) := by simp [envOf, hfc]
    have hans : ansOf s p = .ok (fdtAbsOf fc) true := by simp [ansOf, hfc]
    rw [hans, pushFdt_spec cF _ rfl s S F (toRecvPkt p) p.fdtId p.sbn p.esi hpk fc hEf hro hexp hI.fdt]
    unfold stepFdt
    have hsym : symOf (toRecvPkt p) = { sbn := p.sbn, esi := p.esi, close := p.close } := rfl
    have hrc : (envOf cF.canDecode cO.canDecode rc s).rc = rc := rfl
    simp only [hrc, hsym, hfc]
    by_cases hgate : (rc.receiveOnce && F.current.contains p.fdtId) = true
    · simp only [hgate, ↓reduceIte]
      exact ⟨S, .ok, [], rfl, hI, Acc.nil _ _, rfl⟩
    · simp only [hgate, Bool.false_eq_true, ↓reduceIte]
      have hla := fdtLookup_attached F p.fdtId hI.fdt.att
      have hra : (pushSym cF.canDecode { rc with maxSize := 1024 * 1024, pktCap := none } (fdtObj s fc) (fdtLookup F p.fdtId)
          { sbn := p.sbn, esi := p.esi, close := p.close }).rx.attached = true := fdt_attached cF _ _ _ _ hla
      unfold fdtFinish
      cases hterm : (pushSym cF.canDecode { rc with maxSize := 1024 * 1024, pktCap := none } (fdtObj s fc) (fdtLookup F p.fdtId)
          { sbn := p.sbn, esi := p.esi, close := p.close }).term with
      | receiving =>
        refine ⟨_, .ok, [], rfl, ?_, Acc.nil _ _, rfl⟩
        exact ⟨⟨hI.quiet.maxErr, hI.quiet.errors, hI.quiet.nocheck⟩, hI.cfg,
          relFdt_receiving _ s S F hI.fdt p.fdtId _ hra,
          ⟨hI.obj.obj, hI.obj.comp, hI.obj.ageIdx, hI.obj.live⟩, hI.key⟩
      | completed =>
        simp only
        rw [fdtCompleted_eq _ S p.fdtId fc (prevId_ok s _ S F hI.fdt)]
        obtain ⟨k1, k2, k3, k4, k5, k6, k7, k8⟩ := completed_fdtEv (envOf cF.canDecode cO.canDecode rc s) S p.fdtId fc o st
          hI.quiet hI.fdt.len hI.obj hI.key hname
        refine ⟨_, .ok, _, rfl, ?_, k7, ?_⟩
        · exact ⟨k1, by rw [k2]; exact hI.cfg, relFdt_completed _ s S F hI.fdt p.fdtId fc _ hfc hid k3 k4, k6, k5⟩
        · have hA : countFdtReceived (stA (envOf cF.canDecode cO.canDecode rc s) S p.fdtId fc).2.2 = 0 := by
            have : ∀ (L : List (Nat × SObj)), countFdtReceived (Recv.attachAll (sobj (envOf cF.canDecode cO.canDecode rc s))
                p.fdtId (fdtAbsOf fc) L).2.2 = 0 := by
              intro L
              induction L with
              | nil => rfl
              | cons a r ih =>
                obtain ⟨k, σ⟩ := a
                unfold Recv.attachAll
                rcases hatt : (sobj (envOf cF.canDecode cO.canDecode rc s)).attachFdt σ p.fdtId (fdtAbsOf fc) with ⟨σ', ok, evs⟩
                dsimp only
                rw [cfr_append, cfr_append, cfr_wevs, ih]
                cases ok <;> rfl
            exact this S.objects
          have hC : (stC (envOf cF.canDecode cO.canDecode rc s) S p.fdtId fc).2 = [] :=
            (checkStates_slice _ o.toi _ _ (by
              refine ⟨hI.quiet.maxErr, hI.quiet.errors, ?_⟩
              intro f hf
              simp only [stX, List.mem_cons] at hf
              rcases hf with rfl | hf
              · rfl
              · exact hI.quiet.nocheck f hf)).1
          rw [cfr_append, cfr_append, cfr_append, hA, hC, k8]
          rfl
      | interrupted =>
        refine ⟨_, .err, [], rfl, ?_, Acc.nil _ _, rfl⟩
        exact ⟨⟨hI.quiet.maxErr, hI.quiet.errors, hI.quiet.nocheck⟩, hI.cfg,
          relFdt_dropped _ s S F hI.fdt p.fdtId,
          ⟨hI.obj.obj, hI.obj.comp, hI.obj.ageIdx, hI.obj.live⟩, hI.key⟩
      | error =>
        refine ⟨_, .err, [], rfl, ?_, Acc.nil _ _, rfl⟩
        exact ⟨⟨hI.quiet.maxErr, hI.quiet.errors, hI.quiet.nocheck⟩, hI.cfg,
          relFdt_dropped _ s S F hI.fdt p.fdtId,
          ⟨hI.obj.obj, hI.obj.comp, hI.obj.ageIdx, hI.obj.live⟩, hI.key⟩
  · -- an object packet
    have hb0 : (p.toi == 0) = false := beq_false_of_ne h0
    simp only [htoi, h0, ↓reduceIte, hb0, Bool.false_eq_true]
    have hpid : (toRecvPkt p).pid = some (p.sbn, p.esi) := rfl
    obtain ⟨S', r, evs, e1, fr⟩ := pushObj_frame (envOf cF.canDecode cO.canDecode rc s) S (toRecvPkt p) p.sbn p.esi hpid hI.quiet
    have hfdt : RelFdt (envOf cF.canDecode cO.canDecode rc s) s S' F :=
      ⟨by rw [fr.fdtR]; exact hI.fdt.recv, hI.fdt.att, by rw [fr.fdtC]; exact hI.fdt.cur,
        by rw [fr.fdtC]; exact hI.fdt.curOk, by rw [fr.fdtC]; exact hI.fdt.len⟩
    by_cases ho : p.toi = o.toi
    · have hbo : (p.toi == o.toi) = true := by simp [ho]
      simp only [hbo, ↓reduceIte]
      obtain ⟨S2, r2, evs2, e2, q1, q2⟩ := pushObj_stepObj (envOf cF.canDecode cO.canDecode rc s) o ht hE S st (toRecvPkt p)
        p.sbn p.esi ho hpid hI.quiet hro hI.obj
      rw [e1] at e2
      simp only [Except.ok.injEq, Prod.mk.injEq] at e2
      obtain ⟨rfl, rfl, rfl⟩ := e2
      exact ⟨S', r, evs, e1, ⟨fr.quiet, by rw [fr.cfg]; exact hI.cfg, hfdt, q1, fr.keys _ hI.key⟩, q2, fr.nofdt⟩
    · have hbo : (p.toi == o.toi) = false := beq_false_of_ne ho
      simp only [hbo, Bool.false_eq_true, ↓reduceIte]
      have hne : o.toi ≠ (toRecvPkt p).toi := fun h => ho h.symm
      refine ⟨S', r, evs, e1, ⟨fr.quiet, by rw [fr.cfg]; exact hI.cfg, hfdt, ?_, fr.keys _ hI.key⟩, ?_, fr.nofdt⟩
      · exact ⟨by rw [fr.objs _ hne]; exact hI.obj.obj, by rw [fr.comp _ hne]; exact hI.obj.comp,
          by rw [fr.fdtC]; exact hI.obj.ageIdx, hI.obj.live⟩
      · obtain ⟨n1, n2, n3, n4⟩ := fr.noev _ hne
        exact ⟨by rw [n1]; rfl, by rw [n2]; rfl, by rw [n3]; rfl, by rw [n4]; rfl⟩

/-- the Session model run packet by packet -/
def sessRun : FdtRx → OState → List Pkt → FdtRx × OState × Nat
  | F, st, [] => (F, st, 0)
  | F, st, p :: ps =>
    let r := sessStep cF cO rc s o F st p
    let r' := sessRun r.1 r.2.1 ps
    (r'.1, r'.2.1, r.2.2 + r'.2.2)

/-- ... is `fdtState` / `runObj ∘ eventsFor` / `countFdt` -/
theorem sessRun_eq : ∀ (ps : List Pkt) (F : FdtRx) (st : OState),
    sessRun cF cO rc s o F st ps =
      (fdtState cF.canDecode rc s F ps, runObj cO.canDecode rc o st (eventsFor cF.canDecode rc s o F ps),
       countFdt cF.canDecode rc s F ps) := by
  intro ps
  induction ps with
  | nil => intro F st; rfl
  | cons p ps ih =>
    intro F st
    unfold sessRun sessStep
    by_cases h0 : (p.toi == 0) = true
    · simp only [h0, ↓reduceIte]
      unfold fdtState eventsFor countFdt
      simp only [h0, ↓reduceIte]
      rcases hst : stepFdt cF.canDecode rc s F p with ⟨F', done⟩
      cases done with
      | none => simp only [ih, runObj, Option.isSome_none, Bool.false_eq_true, ↓reduceIte, Nat.zero_add]
      | some f => simp only [ih, runObj, Option.isSome_some, ↓reduceIte]
    · have h0' : (p.toi == 0) = false := by simpa using h0
      simp only [h0', Bool.false_eq_true, ↓reduceIte]
      unfold fdtState eventsFor countFdt
      simp only [h0', Bool.false_eq_true, ↓reduceIte]
      by_cases ho : (p.toi == o.toi) = true
      · simp only [ho, ↓reduceIte, ih, runObj, Nat.zero_add]
        rfl
      · have ho' : (p.toi == o.toi) = false := by simpa using ho
        simp only [ho', Bool.false_eq_true, ↓reduceIte, ih, Nat.zero_add]

/-- **the whole stream: `Receiver::push` (recv's model, Session object plugged in) and the Session model agree** -/
theorem run_sim (ht : o.toi ≠ 0) (hfind : s.objs.find? (fun x => x.toi == o.toi) = some o) :
    ∀ (ps : List Pkt) (S : Recv.State SObj) (F : FdtRx) (st : OState), SInv cF cO rc s o S F st →
      (∀ p, p ∈ ps → PktOK s o p) →
      ∃ S' evs, recvRun (envOf cF.canDecode cO.canDecode rc s) s S ps = some (S', evs) ∧
        SInv cF cO rc s o S' (sessRun cF cO rc s o F st ps).1 (sessRun cF cO rc s o F st ps).2.1 ∧
        Acc o.toi st (sessRun cF cO rc s o F st ps).2.1 evs ∧
        countFdtReceived evs = (sessRun cF cO rc s o F st ps).2.2 := by
  intro ps
  induction ps with
  | nil => intro S F st hI _; exact ⟨S, [], rfl, hI, Acc.nil _ _, rfl⟩
  | cons p ps ih =>
    intro S F st hI hps
    obtain ⟨S1, r, e1, h1, h2, h3, h4⟩ := step_sim cF cO rc s o ht hfind S F st p hI (hps p (List.mem_cons_self ..))
    obtain ⟨S2, e2, g1, g2, g3, g4⟩ := ih S1 _ _ h2 (fun q hq => hps q (List.mem_cons_of_mem _ hq))
    refine ⟨S2, e1 ++ e2, ?_, g2, Acc.trans h3 g3, ?_⟩
    · unfold recvRun
      rw [h1]
      simp only [g1]
    · rw [cfr_append, h4, g4]; rfl

theorem sInv_init : SInv cF cO rc s o (Recv.State.init (recvCfg rc)) fdtRx0 {} := by
  refine ⟨⟨rfl, rfl, fun f hf => by simp [Recv.State.init] at hf⟩, rfl, ?_, ?_, by simp [Recv.State.init, cntKey]⟩
  · exact ⟨fun _ => rfl, fun x hx => by simp [fdtRx0] at hx, rfl, fun f hf => by simp [Recv.State.init] at hf,
      by simp [Recv.State.init]⟩
  · exact ⟨rfl, rfl, rfl, fun h => by simp at h⟩

/-- **Session level tie.**  For every packet stream `ps` whose FDT packets belong to instances of the session with a
    non-empty, well-named File list: recv's model of `Receiver::push` / `FdtReceiver` (all objects, association-list
    registries, `create_obj` scan, `attach_latest_fdt_to_objects`, `gc_object_completed`, receive-once gates), run
    with the Session model's object as `ObjIface`, makes exactly the writer calls `open` / `complete` / `error` /
    `interrupted` on TOI `o.toi` and exactly the `fdt_received` callbacks that the Session model's per-object
    projection (`observe` = `runObj ∘ eventsFor`, `countFdt`) counts - and it never panics. -/
theorem recv_agrees_with_session (ht : o.toi ≠ 0) (hfind : s.objs.find? (fun x => x.toi == o.toi) = some o)
    (ps : List Pkt) (hps : ∀ p, p ∈ ps → PktOK s o p) :
    recvObserve cF.canDecode cO.canDecode rc s o.toi ps = some (sessObserve cF.canDecode cO.canDecode rc s o ps) := by
  obtain ⟨S', evs, h1, _, h3, h4⟩ := run_sim cF cO rc s o ht hfind ps _ _ _ (sInv_init cF cO rc s o) hps
  rw [sessRun_eq] at h3 h4
  unfold recvObserve sessObserve observe
  rw [h1]
  obtain ⟨a1, a2, a3, a4⟩ := h3
  simp only [cntO, cntC, cntE, cntI] at a1 a2 a3 a4
  simp only at a1 a2 a3 a4 h4
  simp only [a1, a2, a3, a4, h4, Nat.zero_add]

end main

end Flute.Lemmas.SessionRecv
