import FluteModel.Lemmas.SchedOut
/-
  An explicit measure bounding the OBJECT packets `read` can return at one fixed instant `N`
  (first half of C12 `read_terminates`): `phiA N s L` = for every object in a slot the packets left in its
  transfer plus the transfers it can still start at `N` once that one is done, for every waiting object the
  transfers it can start at `N`; a carousel object cannot pass its gap test twice at one instant because
  `last_transfer_end_time = last_transfer_start_time = N` after a transfer at `N`.
-/
namespace Flute.Sched

/-- `gapElapsed` on explicit fields -/
def gapC (car : Option Carousel) (lastEnd lastStart : Option Nat) (N : Nat) : Bool :=
  match car, lastEnd, lastStart with
  | some (.delay d), some le, some _ => decide (N - le > d)
  | some (.interval d), some _, some ls => decide (N - ls > d)
  | _, _, _ => true

def burstC (maxCount : Nat) : Nat := if maxCount = 0 then 1 else maxCount

/-- transfer starts still possible at instant `N` for a descriptor that is not in transfer (upper bound),
    on explicit fields -/
def tNc (N : Nat) (car : Option Carousel) (maxCount count total : Nat) (lastEnd lastStart : Option Nat) : Nat :=
  match car with
  | none => burstC maxCount - total
  | some _ =>
    if count < maxCount then maxCount - count
    else if gapC car lastEnd lastStart N then burstC maxCount else 0

def tN (N : Nat) (f : FileDesc) : Nat :=
  tNc N f.carousel f.maxCount f.info.count f.info.total f.info.lastEnd f.info.lastStart

theorem gapElapsed_eq (f : FileDesc) (N : Nat) : gapElapsed f N = gapC f.carousel f.info.lastEnd f.info.lastStart N := rfl
theorem burstF_eq (f : FileDesc) : burstF f = burstC f.maxCount := rfl

theorem tN_done (N : Nat) (f : FileDesc) :
    tN N (transferDoneInfo f N) =
      tNc N f.carousel f.maxCount (f.info.count + 1) (f.info.total + 1) (some N) f.info.lastStart := rfl

def heldW (N : Nat) (f : FileDesc) (L : Held) : Nat :=
  ((L.filter (fun pc => pc.2.key == f.key)).map
    (fun pc => (f.nPk - pc.2.enc.sent) + tN N (transferDoneInfo f N) * f.nPk)).sum

def wObj (N : Nat) (queue : List Nat) (L : Held) (f : FileDesc) : Nat :=
  if L.any (fun pc => pc.2.key == f.key) then heldW N f L
  else if queue.contains f.key then tN N f * f.nPk else 0

def phiA (N : Nat) (s : State) (L : Held) : Nat := (s.objs.map (wObj N s.queue L)).sum

def okEv (N : Nat) : Ev → Bool
  | .opRead n => n == N
  | .pub n _ _ => n == N
  | .start n _ _ _ => n == N
  | .stop n _ => n == N
  | .fdtStart n _ => n == N
  | .fdtStop n _ => n == N
  | .pkt n _ _ _ _ => n == N
  | .fdt n _ _ _ => n == N
  | .idle n => n == N
  | _ => false

def isObjPk : Ev → Bool
  | .pkt .. => true
  | _ => false

def cntObj (l : List Ev) : Nat := (l.filter isObjPk).length

/-- since the log was `log0`: either something other than reads at `N` happened, or the measure accounts for
    every object packet emitted since -/
def MInv (N c : Nat) (log0 : List Ev) : State → Held → Prop := fun s L =>
  ∃ new, s.log = new ++ log0 ∧ ((∃ e ∈ new, okEv N e = false) ∨ phiA N s L + cntObj new ≤ c)

theorem cntObj_cons (e : Ev) (l : List Ev) : cntObj (e :: l) = (if isObjPk e then 1 else 0) + cntObj l := by
  unfold cntObj
  rw [List.filter_cons]
  split <;> simp <;> omega

/-- one event appended: tainted, or the measure pays for it -/
theorem MInv.event {N c : Nat} {log0 : List Ev} {s s' : State} {L L' : Held} (h : MInv N c log0 s L) (e : Ev)
    (hlog : s'.log = e :: s.log)
    (hok : okEv N e = true → phiA N s' L' + (if isObjPk e then 1 else 0) ≤ phiA N s L) : MInv N c log0 s' L' := by
  obtain ⟨new, e1, h1⟩ := h
  refine ⟨e :: new, by rw [hlog, e1]; rfl, ?_⟩
  rcases h1 with ⟨x, hx, hbad⟩ | h1
  · exact Or.inl ⟨x, List.mem_cons_of_mem _ hx, hbad⟩
  · cases hk : okEv N e with
    | false => exact Or.inl ⟨e, List.mem_cons_self, hk⟩
    | true =>
      right
      have := hok hk
      rw [cntObj_cons]
      omega

theorem MInv.silent {N c : Nat} {log0 : List Ev} {s s' : State} {L L' : Held} (h : MInv N c log0 s L)
    (hlog : s'.log = s.log) (hphi : phiA N s' L' ≤ phiA N s L) : MInv N c log0 s' L' := by
  obtain ⟨new, e1, h1⟩ := h
  refine ⟨new, by rw [hlog, e1], ?_⟩
  rcases h1 with h1 | h1
  · exact Or.inl h1
  · exact Or.inr (by omega)

theorem phiA_congr {N : Nat} {s s' : State} {L : Held} (ho : s'.objs = s.objs) (hq : s'.queue = s.queue) :
    phiA N s' L = phiA N s L := by unfold phiA; rw [ho, hq]

/-! ### sums -/

theorem sum_map_le {α : Type} (g h : α → Nat) : ∀ (l : List α), (∀ x ∈ l, g x ≤ h x) → (l.map g).sum ≤ (l.map h).sum := by
  intro l
  induction l with
  | nil => intro _; exact Nat.le_refl _
  | cons a r ih =>
    intro hl
    simp only [List.map_cons, List.sum_cons]
    have := hl a List.mem_cons_self
    have := ih (fun x hx => hl x (List.mem_cons_of_mem _ hx))
    omega

theorem sum_map_lt {α : Type} (g h : α → Nat) : ∀ (l : List α), (∀ x ∈ l, g x ≤ h x) → (∃ x ∈ l, g x + 1 ≤ h x) →
    (l.map g).sum + 1 ≤ (l.map h).sum := by
  intro l
  induction l with
  | nil => intro _ ⟨x, hx, _⟩; cases hx
  | cons a r ih =>
    intro hl ⟨x, hx, hlt⟩
    simp only [List.map_cons, List.sum_cons]
    have ha := hl a List.mem_cons_self
    have hr := sum_map_le g h r (fun y hy => hl y (List.mem_cons_of_mem _ hy))
    rcases List.mem_cons.mp hx with rfl | hx
    · omega
    · have := ih (fun y hy => hl y (List.mem_cons_of_mem _ hy)) ⟨x, hx, hlt⟩
      omega

/-! ### the weight of one object under the changes of `L` -/

theorem any_key_false {L : Held} {k : Nat} (h : ∀ pc ∈ L, pc.2.key ≠ k) : L.any (fun pc => pc.2.key == k) = false := by
  rw [List.any_eq_false]
  intro pc hpc
  simpa using h pc hpc

theorem filter_key_nil {L : Held} {k : Nat} (h : ∀ pc ∈ L, pc.2.key ≠ k) : L.filter (fun pc => pc.2.key == k) = [] := by
  rw [List.filter_eq_nil_iff]
  intro pc hpc
  simpa using h pc hpc

/-- weight of an object held at the head of `L` (no other entry has its key) -/
theorem wObj_head {N : Nat} {queue : List Nat} {L : Held} {p : Nat} {c : Cur} {f : FileDesc} (hk : c.key = f.key)
    (hne : ∀ pc ∈ L, pc.2.key ≠ f.key) :
    wObj N queue ((p, c) :: L) f = (f.nPk - c.enc.sent) + tN N (transferDoneInfo f N) * f.nPk := by
  unfold wObj heldW
  simp only [List.any_cons, List.filter_cons, hk, beq_self_eq_true, Bool.true_or, if_true]
  rw [filter_key_nil hne]
  simp

/-- an entry with another key does not matter -/
theorem wObj_cons_other {N : Nat} {queue : List Nat} {L : Held} {p : Nat} {c : Cur} {f : FileDesc} (hk : c.key ≠ f.key) :
    wObj N queue ((p, c) :: L) f = wObj N queue L f := by
  unfold wObj heldW
  have : (c.key == f.key) = false := by simpa using hk
  simp only [List.any_cons, List.filter_cons, this, Bool.false_or, Bool.false_eq_true, if_false]

theorem wObj_not_held {N : Nat} {queue : List Nat} {L : Held} {f : FileDesc} (hne : ∀ pc ∈ L, pc.2.key ≠ f.key) :
    wObj N queue L f = if queue.contains f.key then tN N f * f.nPk else 0 := by
  unfold wObj
  rw [any_key_false hne]
  simp

/-- `wObj` reads only these fields of the descriptor -/
theorem wObj_congr {N : Nat} {queue : List Nat} {L : Held} {f f' : FileDesc} (hk : f'.key = f.key)
    (hi : f'.info.count = f.info.count ∧ f'.info.total = f.info.total ∧ f'.info.lastEnd = f.info.lastEnd ∧
      f'.info.lastStart = f.info.lastStart)
    (hs : f'.nSym = f.nSym ∧ f'.maxCount = f.maxCount ∧ f'.carousel = f.carousel) :
    wObj N queue L f' = wObj N queue L f := by
  have hn : f'.nPk = f.nPk := by unfold FileDesc.nPk; rw [hs.1]
  have ht : tN N f' = tN N f := by
    unfold tN
    rw [hs.2.2, hi.1, hi.2.1, hi.2.2.1, hi.2.2.2, hs.2.1]
  have ht2 : tN N (transferDoneInfo f' N) = tN N (transferDoneInfo f N) := by
    rw [tN_done, tN_done, hs.2.2, hi.1, hi.2.1, hi.2.2.2, hs.2.1]
  unfold wObj heldW
  rw [hk, hn, ht, ht2]

end Flute.Sched

namespace Flute.Sched

theorem Closed.weaken {B A : State → Held → Prop} (h : Closed0 A) : Closed B A where
  perm := h.perm
  leaveFiles := h.leaveFiles
  enterFiles := fun s L now _ => h.enterFiles s L now trivial
  emitRead := fun s L now _ => h.emitRead s L now trivial
  emitIdle := fun s L now _ => h.emitIdle s L now trivial
  publish := fun s L now _ => h.publish s L now trivial
  fdtAdvance := fun s L now _ => h.fdtAdvance s L now trivial
  fileStart := fun s L prio now tk t _ => h.fileStart s L prio now tk t trivial
  pkt := fun s L prio c now f idx b e _ => h.pkt s L prio c now f idx b e trivial
  done := fun s L prio c now f e _ => h.done s L prio c now f e trivial
  fdtPkt := fun s L c f now idx b e _ => h.fdtPkt s L c f now idx b e trivial
  fdtDone := fun s L c f now e _ => h.fdtDone s L c f now e trivial

theorem ClosedOps.weaken {B A : State → Held → Prop} (h : ClosedOps0 A) : ClosedOps B A where
  add := fun s L a _ => h.add s L a trivial
  remove := fun s L t _ => h.remove s L t trivial
  trigger := fun s L t ts _ => h.trigger s L t ts trivial
  publishOp := fun s L now _ => h.publishOp s L now trivial
  complete := fun s L _ => h.complete s L trivial

abbrev MBase : State → Held → Prop := And2 (And2 Wf LifeInv) KeysInv

theorem MBase.closed : Closed0 MBase := Closed.and (Closed.and Wf.closed LifeInv.closed) (Closed.weaken KeysInv.closed)
theorem MBase.closedOps : ClosedOps0 MBase :=
  ClosedOps.and (ClosedOps.and Wf.closedOps LifeInv.closedOps) (ClosedOps.weaken KeysInv.closedOps)

/-! ### arithmetic of one transfer start at `N` -/

theorem gapC_now (cm : Carousel) (N : Nat) : gapC (some cm) (some N) (some N) N = false := by
  cases cm <;> simp [gapC]

theorem tN_start {N tk prio : Nat} {mode : Mode} {f : FileDesc} (hst : shouldTransferNow f prio mode N = true)
    (hnc : f.carousel = none → f.info.total < burstF f) :
    1 + tN N (transferDoneInfo (transferInit f N tk) N) ≤ tN N f := by
  rw [tN_done]
  show 1 + tNc N f.carousel f.maxCount
      ((if f.info.count == f.maxCount && f.carousel.isSome then 0 else f.info.count) + 1) (f.info.total + 1) (some N) (some N)
    ≤ tNc N f.carousel f.maxCount f.info.count f.info.total f.info.lastEnd f.info.lastStart
  cases hc : f.carousel with
  | none =>
    have := hnc hc
    rw [burstF_eq] at this
    simp only [tNc]
    omega
  | some cm =>
    simp only [tNc, gapC_now, Bool.false_eq_true, if_false, Option.isSome_some, Bool.and_true]
    by_cases hlt : f.info.count < f.maxCount
    · have hne : (f.info.count == f.maxCount) = false := by simp; omega
      rw [hne]
      simp only [Bool.false_eq_true, if_false, if_pos hlt]
      split <;> omega
    · have hgap := shouldTransferNow_gap hst (by omega)
      rw [gapElapsed_eq, hc] at hgap
      rw [if_neg hlt, hgap]
      simp only [if_true]
      unfold burstC
      by_cases heq : f.info.count = f.maxCount
      · have : (f.info.count == f.maxCount) = true := by simp [heq]
        rw [this]
        simp only [if_true]
        split <;> split <;> omega
      · have : (f.info.count == f.maxCount) = false := by simp [heq]
        rw [this]
        simp only [Bool.false_eq_true, if_false]
        split <;> split <;> omega

/-! ### closure -/

theorem wObj_perm {N : Nat} {queue : List Nat} {L L' : Held} (p : L.Perm L') (f : FileDesc) :
    wObj N queue L' f = wObj N queue L f := by
  unfold wObj heldW
  rw [p.any_eq, ((p.filter _).map _).sum_nat]

theorem phiA_perm {N : Nat} {s : State} {L L' : Held} (p : L.Perm L') : phiA N s L' = phiA N s L := by
  unfold phiA
  congr 1
  apply List.map_congr_left
  intro f _
  exact wObj_perm p f

theorem phiA_pubMark {N : Nat} (s : State) (now : Nat) (L : Held) : phiA N (publish s now) L = phiA N s L := by
  unfold phiA
  rw [publish_objs, List.map_map]
  show (s.objs.map (wObj N s.queue L ∘ pubMark s.files)).sum = _
  congr 1
  apply List.map_congr_left
  intro f _
  simp only [Function.comp]
  apply wObj_congr (pubMark_key _ f)
  · rw [pubMark_info]; exact ⟨rfl, rfl, rfl, rfl⟩
  · unfold pubMark; split <;> exact ⟨rfl, rfl, rfl⟩

theorem MInv.ofPublish {N c : Nat} {log0 : List Ev} {s : State} {L : Held} (now : Nat) (h : MInv N c log0 s L) :
    MInv N c log0 (publish s now) L :=
  h.event (Ev.pub now s.fdts.length (pubDesc s).content) (publish_log s now)
    (fun _ => by rw [phiA_pubMark]; simp [isObjPk])

theorem MInv.ofPublishTry {N c : Nat} {log0 : List Ev} {s : State} {L : Held} (now : Nat) (h : MInv N c log0 s L) :
    MInv N c log0 (publishTry s now) L :=
  publishTry_elim (P := fun x => MInv N c log0 x L) s now (h.ofPublish now) h

theorem MInv.ofFileStart {N c : Nat} {log0 : List Ev} {s : State} {L : Held} {prio now t : Nat} (tk : Nat) (cur : Cur)
    (hck : cur.key = t) (hc0 : cur.enc.sent = 0) (hb : MBase s L) (h : MInv N c log0 s L)
    (hfn : findNext s prio now s.queue = some t) :
    MInv N c log0 (autoPublish (fileStartStep s t now tk) now) ((prio, cur) :: L) := by
  obtain ⟨⟨hw, hl⟩, hkeys⟩ := hb
  obtain ⟨pre, post, hq, _, g, hg, hst⟩ := findNext_spec s prio now s.queue t hfn
  have htq : t ∈ s.queue := by rw [hq]; simp
  obtain ⟨_, hgt, _, _⟩ := shouldTransferNow_true hst
  have hne : ∀ pc ∈ L, pc.2.key ≠ t := by
    intro pc hpc e
    obtain ⟨g', hg', hgt', _⟩ := hw.heldObj pc hpc
    rw [e, hg] at hg'; cases hg'
    rw [hgt] at hgt'; cases hgt'
  have hlog : (fileStartStep s t now tk).log = Ev.start now t g.info.startTime (if wantsTick g then some tk else none) :: s.log := by
    show Ev.start now t _ _ :: s.log = _
    rw [hg]
  have h1 : MInv N c log0 (fileStartStep s t now tk) ((prio, cur) :: L) := by
    refine h.event _ hlog ?_
    intro hok
    have hnow : now = N := by simpa [okEv] using hok
    subst hnow
    simp only [isObjPk, Bool.false_eq_true, if_false, Nat.add_zero]
    -- pointwise comparison over the objects
    unfold phiA
    show ((updF s.objs t (fun f => transferInit f now tk)).map
        (wObj now (s.queue.erase t) ((prio, cur) :: L))).sum ≤ _
    unfold updF
    rw [List.map_map]
    apply sum_map_le
    intro f hf
    simp only [Function.comp]
    by_cases hk : f.key = t
    · -- the object that starts
      have hfg : f = g := by
        have := getF_of_mem_nodup s.objs hkeys.1 f hf
        rw [hk, hg] at this
        exact (Option.some.inj this).symm
      subst hfg
      simp only [hk, beq_self_eq_true, if_true]
      have hne' : ∀ pc ∈ L, pc.2.key ≠ (transferInit f now tk).key := by
        intro pc hpc; show pc.2.key ≠ f.key; rw [hk]; exact hne pc hpc
      rw [wObj_head (f := transferInit f now tk) (by show cur.key = f.key; rw [hck, hk]) hne']
      rw [wObj_not_held (f := f) (by rw [hk]; exact hne)]
      have hcont : s.queue.contains f.key = true := by rw [hk]; simpa using htq
      rw [hcont, hc0]
      simp only [if_true, Nat.sub_zero]
      have hnc : f.carousel = none → f.info.total < burstF f := by
        intro hcar
        have r := hl.rel t f hg
        exact (r.count hcar).2.2 (Or.inl (hw.queueFiles t htq))
      have := tN_start (tk := tk) hst hnc
      have hnpk : (transferInit f now tk).nPk = f.nPk := rfl
      rw [hnpk]
      calc f.nPk + tN now (transferDoneInfo (transferInit f now tk) now) * f.nPk
          = (1 + tN now (transferDoneInfo (transferInit f now tk) now)) * f.nPk := by
            rw [Nat.add_mul, Nat.one_mul]
        _ ≤ tN now f * f.nPk := Nat.mul_le_mul_right _ this
    · -- the others are untouched
      have hk' : (f.key == t) = false := by simpa using hk
      simp only [hk', Bool.false_eq_true, if_false]
      rw [wObj_cons_other (by rw [hck]; exact fun e => hk e.symm)]
      unfold wObj
      have : (s.queue.erase t).contains f.key = s.queue.contains f.key := by
        have h1 : f.key ∈ s.queue.erase t ↔ f.key ∈ s.queue := List.mem_erase_of_ne hk
        cases h2 : s.queue.contains f.key <;> simp_all
      rw [this]
      exact Nat.le_refl _
  unfold autoPublish
  split
  · exact h1.ofPublishTry now
  · exact h1

end Flute.Sched

namespace Flute.Sched

theorem tickInfo_fields (f : FileDesc) :
    (tickInfo f).info.count = f.info.count ∧ (tickInfo f).info.total = f.info.total ∧
    (tickInfo f).info.lastEnd = f.info.lastEnd ∧ (tickInfo f).info.lastStart = f.info.lastStart := by
  unfold tickInfo FileDesc.updInfo
  simp only []
  split <;> exact ⟨rfl, rfl, rfl, rfl⟩

theorem MInv.ofPkt {N c0 : Nat} {log0 : List Ev} {s : State} {L : Held} {prio : Nat} {c : Cur} {f : FileDesc}
    {now idx : Nat} {b : Bool} {e : Enc} {force : Bool}
    (hb : MBase s ((prio, c) :: L)) (h : MInv N c0 log0 s ((prio, c) :: L)) (hf : getF s.objs c.key = some f)
    (he : encRead f.nSym c.enc force = (some (idx, b), e)) :
    MInv N c0 log0 (pktStep s prio c.key now idx b) ((prio, { c with enc := e }) :: L) := by
  obtain ⟨⟨hw, _⟩, hkeys⟩ := hb
  obtain ⟨_, _, e3, e4, _, _⟩ := encRead_some he
  have e3' : c.enc.sent < f.nPk := e3
  have hnd := hw.heldNodup
  simp only [List.map_cons, List.nodup_cons] at hnd
  have hne : ∀ pc ∈ L, pc.2.key ≠ c.key := fun pc hpc e => hnd.1 (List.mem_map.mpr ⟨pc, hpc, e⟩)
  refine h.event (Ev.pkt now prio c.key idx b) rfl ?_
  intro hok
  have hnow : now = N := by simpa [okEv] using hok
  subst hnow
  simp only [isObjPk, if_true]
  unfold phiA
  show ((updF s.objs c.key tickInfo).map (wObj now s.queue ((prio, { c with enc := e }) :: L))).sum + 1 ≤ _
  unfold updF
  rw [List.map_map]
  apply sum_map_lt
  · intro f0 hf0
    simp only [Function.comp]
    by_cases hk : f0.key = c.key
    · have hfg : f0 = f := by
        have := getF_of_mem_nodup s.objs hkeys.1 f0 hf0
        rw [hk, hf] at this
        exact (Option.some.inj this).symm
      subst hfg
      simp only [hk, beq_self_eq_true, if_true]
      rw [wObj_head (f := tickInfo f0) (by show c.key = f0.key; exact hk.symm) (by
        intro pc hpc; show pc.2.key ≠ f0.key; rw [hk]; exact hne pc hpc)]
      rw [wObj_head (f := f0) hk.symm (by rw [hk]; exact hne)]
      have ht : tN now (transferDoneInfo (tickInfo f0) now) = tN now (transferDoneInfo f0 now) := by
        rw [tN_done, tN_done]
        obtain ⟨h1, h2, _, h4⟩ := tickInfo_fields f0
        rw [h1, h2, h4]; rfl
      have hn : (tickInfo f0).nPk = f0.nPk := rfl
      rw [ht, hn]
      show f0.nPk - e.sent + _ ≤ _
      rw [e4]; omega
    · have hk' : (f0.key == c.key) = false := by simpa using hk
      simp only [hk', Bool.false_eq_true, if_false]
      rw [wObj_cons_other (by show c.key ≠ f0.key; exact fun e => hk e.symm),
          wObj_cons_other (by exact fun e => hk e.symm)]
      exact Nat.le_refl _
  · refine ⟨f, getF_mem hf, ?_⟩
    have hk := getF_key hf
    simp only [Function.comp, hk, beq_self_eq_true, if_true]
    rw [wObj_head (f := tickInfo f) (by show c.key = f.key; exact hk.symm) (by
      intro pc hpc; show pc.2.key ≠ f.key; rw [hk]; exact hne pc hpc)]
    rw [wObj_head (f := f) hk.symm (by rw [hk]; exact hne)]
    have ht : tN now (transferDoneInfo (tickInfo f) now) = tN now (transferDoneInfo f now) := by
      rw [tN_done, tN_done]
      obtain ⟨h1, h2, _, h4⟩ := tickInfo_fields f
      rw [h1, h2, h4]; rfl
    have hn : (tickInfo f).nPk = f.nPk := rfl
    rw [ht, hn]
    show f.nPk - e.sent + _ + 1 ≤ _
    rw [e4]; omega

theorem transferDoneFile_queue_contains (s : State) (t now k : Nat) (hk : k ≠ t) :
    (transferDoneFile s t now).queue.contains k = s.queue.contains k := by
  rw [transferDoneFile_eq]
  split
  · rfl
  · split
    · split
      · show (s.queue ++ [t]).contains k = _
        have : k ∈ s.queue ++ [t] ↔ k ∈ s.queue := by simp [hk]
        cases h2 : s.queue.contains k <;> simp_all
      · rfl
    · rfl

theorem MInv.ofDone {N c0 : Nat} {log0 : List Ev} {s : State} {L : Held} {prio : Nat} {c : Cur} {f : FileDesc}
    (now : Nat) (hb : MBase s ((prio, c) :: L)) (h : MInv N c0 log0 s ((prio, c) :: L))
    (hf : getF s.objs c.key = some f) : MInv N c0 log0 (transferDoneFile s c.key now) L := by
  obtain ⟨⟨hw, _⟩, hkeys⟩ := hb
  have hnd := hw.heldNodup
  simp only [List.map_cons, List.nodup_cons] at hnd
  have hne : ∀ pc ∈ L, pc.2.key ≠ c.key := fun pc hpc e => hnd.1 (List.mem_map.mpr ⟨pc, hpc, e⟩)
  refine h.event (Ev.stop now c.key) (transferDoneFile_log s c.key now) ?_
  intro hok
  have hnow : now = N := by simpa [okEv] using hok
  subst hnow
  simp only [isObjPk, Bool.false_eq_true, if_false, Nat.add_zero]
  unfold phiA
  rw [transferDoneFile_objs]
  unfold updF
  rw [List.map_map]
  apply sum_map_le
  intro f0 hf0
  simp only [Function.comp]
  by_cases hk : f0.key = c.key
  · have hfg : f0 = f := by
      have := getF_of_mem_nodup s.objs hkeys.1 f0 hf0
      rw [hk, hf] at this
      exact (Option.some.inj this).symm
    subst hfg
    simp only [hk, beq_self_eq_true, if_true]
    rw [wObj_not_held (f := transferDoneInfo f0 now) (by
      intro pc hpc; show pc.2.key ≠ f0.key; rw [hk]; exact hne pc hpc)]
    rw [wObj_head (f := f0) hk.symm (by rw [hk]; exact hne)]
    have hn : (transferDoneInfo f0 now).nPk = f0.nPk := rfl
    rw [hn]
    split <;> omega
  · have hk' : (f0.key == c.key) = false := by simpa using hk
    simp only [hk', Bool.false_eq_true, if_false]
    rw [wObj_cons_other (by exact fun e => hk e.symm)]
    unfold wObj
    rw [transferDoneFile_queue_contains s c.key now f0.key hk]
    exact Nat.le_refl _

theorem MInv.closed (N c0 : Nat) (log0 : List Ev) : Closed MBase (MInv N c0 log0) where
  perm := fun s L L' p h => by
    obtain ⟨new, e1, h1⟩ := h
    exact ⟨new, e1, by rw [phiA_perm p]; exact h1⟩
  leaveFiles := fun _ _ _ h => h.silent rfl (Nat.le_of_eq (phiA_congr rfl rfl))
  enterFiles := fun _ _ _ _ h _ _ => h.silent rfl (Nat.le_of_eq (phiA_congr rfl rfl))
  emitRead := fun _ _ now _ h _ => h.event (Ev.opRead now) rfl (fun _ => by
    simp only [isObjPk, Bool.false_eq_true, if_false, Nat.add_zero]; exact Nat.le_of_eq (phiA_congr rfl rfl))
  emitIdle := fun _ _ now _ h _ => h.event (Ev.idle now) rfl (fun _ => by
    simp only [isObjPk, Bool.false_eq_true, if_false, Nat.add_zero]; exact Nat.le_of_eq (phiA_congr rfl rfl))
  publish := fun _ _ now _ h _ => h.ofPublish now
  fdtAdvance := fun s L now _ h _ _ => by
    have h1 : MInv N c0 log0 (fdtPop s) L :=
      h.silent (fdtPop_log s) (Nat.le_of_eq (phiA_congr (fdtPop_objs s) (fdtPop_queue s)))
    rcases fdtAdvance_cases s now with ⟨e, _⟩ | ⟨k, f, _, _, _, e⟩
    · rw [e]; exact h1
    · rw [e]
      exact h1.event (Ev.fdtStart now k) rfl (fun _ => by
        simp only [isObjPk, Bool.false_eq_true, if_false, Nat.add_zero]
        exact Nat.le_of_eq (phiA_congr rfl rfl))
  fileStart := fun _ _ _ _ tk _ hb h _ hfn => MInv.ofFileStart tk _ rfl rfl hb h hfn
  pkt := fun _ _ _ _ _ _ _ _ _ hb h _ hf _ _ he => h.ofPkt hb hf he
  done := fun _ _ _ _ now _ _ hb h _ hf _ => h.ofDone now hb hf
  fdtPkt := fun _ _ c f now idx _ e _ h _ _ _ _ _ => h.event (Ev.fdt now c.key f.fdtId idx) rfl (fun _ => by
    simp only [isObjPk, Bool.false_eq_true, if_false, Nat.add_zero]
    exact Nat.le_of_eq (phiA_congr rfl rfl))
  fdtDone := fun s _ c _ now _ _ h _ _ _ _ _ =>
    h.event (Ev.fdtStop now c.key) (by unfold fdtRelease; exact transferDoneFdt_log s c.key now) (fun _ => by
      simp only [isObjPk, Bool.false_eq_true, if_false, Nat.add_zero]
      exact Nat.le_of_eq (phiA_congr (by unfold fdtRelease; exact transferDoneFdt_objs s c.key now)
        (by unfold fdtRelease; exact transferDoneFdt_queue s c.key now)))

theorem MInv.closedOps (N c0 : Nat) (log0 : List Ev) : ClosedOps MBase (MInv N c0 log0) where
  add := fun s _ a _ h => by
    unfold addObject; simp only []
    split
    · exact h.event (Ev.opAdd s.nextToi a false) rfl (fun hk => by simp [okEv] at hk)
    · split
      · exact h.event (Ev.opAdd s.nextToi a false) rfl (fun hk => by simp [okEv] at hk)
      · exact h.event (Ev.opAdd s.nextToi a true) rfl (fun hk => by simp [okEv] at hk)
  remove := fun s _ t _ h => by
    unfold removeObject
    split
    · exact h.event (Ev.opRemove t false) rfl (fun hk => by simp [okEv] at hk)
    · exact h.event (Ev.opRemove t true) rfl (fun hk => by simp [okEv] at hk)
  trigger := fun s _ t ts _ h => by
    unfold triggerTransferAt
    split
    · exact h.event (Ev.opTrigger t ts false) rfl (fun hk => by simp [okEv] at hk)
    · split
      · exact h.event (Ev.opTrigger t ts false) rfl (fun hk => by simp [okEv] at hk)
      · exact h.event (Ev.opTrigger t ts true) rfl (fun hk => by simp [okEv] at hk)
  publishOp := fun s L now _ h =>
    (h.event (s' := emit s (.opPublish now)) (L' := L) (Ev.opPublish now) rfl (fun hk => by simp [okEv] at hk)).ofPublishTry now
  complete := fun _ _ _ h => h.silent rfl (Nat.le_of_eq (phiA_congr rfl rfl))

end Flute.Sched

namespace Flute.Sched

/-! ### everything a `read` at `N` appends carries the instant `N` -/

def Ext (N : Nat) (s s' : State) : Prop := ∃ new, s'.log = new ++ s.log ∧ ∀ e ∈ new, okEv N e = true

theorem Ext.refl (N : Nat) (s : State) : Ext N s s := ⟨[], rfl, fun _ h => by cases h⟩
theorem Ext.of_log {N : Nat} {s s' : State} (h : s'.log = s.log) : Ext N s s' := ⟨[], by rw [h]; rfl, fun _ h => by cases h⟩
theorem Ext.cons {N : Nat} {s s' : State} {e : Ev} (he : okEv N e = true) (h : s'.log = e :: s.log) : Ext N s s' :=
  ⟨[e], by rw [h]; rfl, fun x hx => by simp only [List.mem_singleton] at hx; rw [hx]; exact he⟩
theorem Ext.trans {N : Nat} {a b c : State} (h1 : Ext N a b) (h2 : Ext N b c) : Ext N a c := by
  obtain ⟨n1, e1, c1⟩ := h1
  obtain ⟨n2, e2, c2⟩ := h2
  refine ⟨n2 ++ n1, by rw [e2, e1, List.append_assoc], ?_⟩
  intro e he
  rcases List.mem_append.mp he with h | h
  · exact c2 e h
  · exact c1 e h

theorem okN (N : Nat) : (N == N) = true := by simp

theorem ext_publishTry (N : Nat) (s : State) : Ext N s (publishTry s N) :=
  publishTry_elim (P := fun x => Ext N s x) s N (Ext.cons (by simp [okEv]) (publish_log s N)) (Ext.refl N s)

theorem ext_fdtGetNext (N : Nat) (s : State) : Ext N s (fdtGetNext s N) := by
  unfold fdtGetNext
  split
  · exact Ext.refl N s
  · have h1 : Ext N s (fdtMaybePublish s N) := by
      unfold fdtMaybePublish; split
      · exact ext_publishTry N s
      · exact Ext.refl N s
    refine h1.trans ?_
    rcases fdtAdvance_cases (fdtMaybePublish s N) N with ⟨e, _⟩ | ⟨k, f, _, _, _, e⟩
    · rw [e]; exact Ext.of_log (fdtPop_log _)
    · rw [e]
      exact (Ext.of_log (fdtPop_log _)).trans (Ext.cons (e := Ev.fdtStart N k) (by simp [okEv]) rfl)

theorem ext_getNextFile {N : Nat} {s s' : State} {prio : Nat} {ticks : List (Nat × Nat)} {r : Option Nat}
    (hg : getNextFile s prio N ticks = (s', r)) : Ext N s s' := by
  unfold getNextFile at hg
  split at hg
  · simp only [Prod.mk.injEq] at hg; rw [← hg.1]; exact Ext.refl N s
  · rename_i t _
    simp only [Prod.mk.injEq] at hg
    rw [← hg.1]
    have h1 : Ext N s (fileStartStep s t N (tkGet ticks t)) := Ext.cons (e := Ev.start N t _ _) (by simp [okEv]) rfl
    unfold autoPublish
    split
    · exact h1.trans (ext_publishTry N _)
    · exact h1

theorem runFdt_ext (N : Nat) : ∀ fuel s, Ext N s (runFdt fuel s N).1 := by
  intro fuel
  induction fuel with
  | zero => intro s; exact Ext.refl N s
  | succ n ih =>
    intro s
    unfold runFdt
    have key : ∀ s1 : State, Ext N s s1 →
        Ext N s (match s1.fdtSess with
          | none => (s1, Out.none)
          | some c =>
            match getF s1.fdts c.key with
            | none => (s1, Out.none)
            | some f =>
              if gateBlocked f N then (s1, Out.none) else
              match encRead f.nSym c.enc false with
              | (none, _) => runFdt n (fdtRelease s1 c.key N) N
              | (some (idx, _), e) => (fdtStep s1 c e f.fdtId N idx, Out.fdt c.key f.fdtId idx)).1 := by
      intro s1 h1
      split
      · exact h1
      · rename_i c _
        split
        · exact h1
        · split
          · exact h1
          · split
            · exact (h1.trans (Ext.cons (e := Ev.fdtStop N c.key) (by simp [okEv])
                (by unfold fdtRelease; exact transferDoneFdt_log s1 c.key N))).trans (ih _)
            · exact h1.trans (Ext.cons (e := Ev.fdt N c.key _ _) (by simp [okEv]) rfl)
    cases hs : s.fdtSess with
    | some c => simp only []; exact key s (Ext.refl N s)
    | none => simp only []; exact key _ (ext_fdtGetNext N s)

theorem runFile_ext (N : Nat) : ∀ fuel s prio cur ticks, Ext N s (runFile fuel s prio cur N ticks).1 := by
  intro fuel
  induction fuel with
  | zero => intro s prio cur ticks; exact Ext.refl N s
  | succ n ih =>
    intro s prio cur ticks
    have key : ∀ (fr : Bool) (s1 : State) (cur1 : Option Cur), Ext N s s1 →
        Ext N s (if !s1.fdtQueue.isEmpty then (s1, cur1, Out.none) else
          match cur1 with
          | none => (s1, none, Out.none)
          | some c =>
            match getF s1.objs c.key with
            | none => (s1, cur1, Out.none)
            | some f =>
              if gateBlocked f N then (s1, cur1, Out.none) else
              match encRead f.nSym c.enc (canStop f && !s1.files.contains c.key) with
              | (none, _) =>
                if fr then (transferDoneFile s1 c.key N, none, Out.none)
                else runFile n (transferDoneFile s1 c.key N) prio none N ticks
              | (some (idx, b), e) => (pktStep s1 prio c.key N idx b, some { c with enc := e }, Out.pkt prio c.key idx b)).1 := by
      intro fr s1 cur1 h1
      split
      · exact h1
      · cases cur1 with
        | none => exact h1
        | some c =>
          simp only []
          split
          · exact h1
          · split
            · exact h1
            · split
              · cases fr with
                | true =>
                  simp only [if_true]
                  exact h1.trans (Ext.cons (e := Ev.stop N c.key) (by simp [okEv]) (transferDoneFile_log s1 c.key N))
                | false =>
                  simp only [Bool.false_eq_true, if_false]
                  exact (h1.trans (Ext.cons (e := Ev.stop N c.key) (by simp [okEv]) (transferDoneFile_log s1 c.key N))).trans
                    (ih _ prio none ticks)
              · exact h1.trans (Ext.cons (e := Ev.pkt N prio c.key _ _) (by simp [okEv]) rfl)
    unfold runFile
    cases cur with
    | some c => exact key false s (some c) (Ext.refl N s)
    | none =>
      simp only []
      cases hg : getNextFile s prio N ticks with
      | mk s' r =>
        have hq := ext_getNextFile hg
        cases r with
        | none => exact key true s' none hq
        | some t =>
          simp only []
          cases ho : openFailed true s' (some (startCur s' t)) with
          | none => exact key true s' (some (startCur s' t)) hq
          | some kf =>
            obtain ⟨k', f'⟩ := kf
            simp only []
            exact hq.trans (Ext.cons (e := Ev.stop N k') (by simp [okEv]) (transferDoneFile_log s' k' N))

theorem readQueue_ext (N : Nat) : ∀ k s q ticks, Ext N s (readQueue k s q N ticks).1 := by
  intro k
  induction k with
  | zero => intro s q ticks; exact Ext.refl N s
  | succ n ih =>
    intro s q ticks
    unfold readQueue
    split
    · exact Ext.refl N s
    · rename_i cur _
      have h := runFile_ext N runFuel s q.prio cur ticks
      generalize runFile runFuel s q.prio cur N ticks = r at h
      obtain ⟨s', cur', out⟩ := r
      simp only [] at h ⊢
      cases out with
      | none => exact h.trans (ih _ _ _)
      | hang => exact h
      | pkt a b c d => exact h
      | fdt a b c => exact h

theorem readQueues_ext (N : Nat) : ∀ qs s ticks, Ext N s (readQueues s qs N ticks).1 := by
  intro qs
  induction qs with
  | nil => intro s ticks; exact Ext.refl N s
  | cons q rest ih =>
    intro s ticks
    unfold readQueues
    have h := readQueue_ext N q.slots.length s q ticks
    generalize readQueue q.slots.length s q N ticks = r at h
    obtain ⟨s', q', out⟩ := r
    simp only [] at h ⊢
    cases out with
    | none =>
      simp only []
      have h2 := ih s' ticks
      generalize readQueues s' rest N ticks = r2 at h2
      obtain ⟨s2, rest2, out2⟩ := r2
      exact h.trans h2
    | hang => exact h
    | pkt a b c d => exact h
    | fdt a b c => exact h

theorem read_ext (N : Nat) (s : State) (ticks : List (Nat × Nat)) : Ext N s (read s N ticks).1 := by
  unfold read
  have h0 : Ext N s (emit s (.opRead N)) := Ext.cons (by simp [okEv]) rfl
  have h1 := runFdt_ext N runFuel (emit s (.opRead N))
  generalize runFdt runFuel (emit s (.opRead N)) N = r1 at h1
  obtain ⟨s1, o1⟩ := r1
  have h1' : Ext N s s1 := h0.trans h1
  cases o1 with
  | hang => exact h1'
  | pkt a b c d => exact h1'
  | fdt a b c => exact h1'
  | none =>
    simp only []
    unfold readMid
    have h2 := readQueues_ext N s1.sessions { s1 with quiet := true } ticks
    generalize readQueues { s1 with quiet := true } s1.sessions N ticks = r2 at h2
    obtain ⟨s2, qs, o2⟩ := r2
    simp only [] at h2 ⊢
    have h2' : Ext N s ({ s2 with sessions := qs, quiet := false } : State) :=
      ((h1'.trans (Ext.of_log rfl)).trans h2).trans (Ext.of_log rfl)
    cases o2 with
    | hang => exact h2'
    | pkt a b c d => exact h2'
    | fdt a b c => exact h2'
    | none =>
      simp only []
      unfold readTail
      have h3 := runFdt_ext N runFuel ({ s2 with sessions := qs, quiet := false } : State)
      generalize runFdt runFuel ({ s2 with sessions := qs, quiet := false } : State) N = r3 at h3
      obtain ⟨s3, o3⟩ := r3
      cases o3 with
      | hang => exact h2'.trans h3
      | pkt a b c d => exact h2'.trans h3
      | fdt a b c => exact h2'.trans h3
      | none => exact (h2'.trans h3).trans (Ext.cons (e := Ev.idle N) (by simp [okEv]) rfl)

/-- a sequence of reads at the instant `N` -/
def readsAt (N : Nat) (tks : List (List (Nat × Nat))) : List Op := tks.map (fun tk => Op.read N tk)

theorem run_readsAt_ext (N : Nat) : ∀ (tks : List (List (Nat × Nat))) (s : State), Ext N s (run s (readsAt N tks)) := by
  intro tks
  induction tks with
  | nil => intro s; exact Ext.refl N s
  | cons tk rest ih =>
    intro s
    show Ext N s (run (read s N tk).1 (readsAt N rest))
    exact (read_ext N s tk).trans (ih _)

/-- number of reads of the sequence that return an object packet -/
def pktReads (N : Nat) : State → List (List (Nat × Nat)) → Nat
  | _, [] => 0
  | s, tk :: rest =>
    (match (read s N tk).2 with | .pkt .. => 1 | _ => 0) + pktReads N (read s N tk).1 rest

theorem cntObj_le_cntPk (l : List Ev) : cntObj l ≤ cntPk l := by
  induction l with
  | nil => exact Nat.le_refl _
  | cons e r ih =>
    rw [cntObj_cons, cntPk_cons]
    cases e <;> simp [isObjPk, isPk] <;> omega

theorem cntObj_append (a b : List Ev) : cntObj (a ++ b) = cntObj a + cntObj b := by
  simp [cntObj, List.filter_append]

theorem pktReads_eq (N : Nat) : ∀ (tks : List (List (Nat × Nat))) (s : State) (new : List Ev),
    (run s (readsAt N tks)).log = new ++ s.log → cntObj new = pktReads N s tks := by
  intro tks
  induction tks with
  | nil =>
    intro s new h
    have : new = [] := by
      have h' : s.log = new ++ s.log := h
      have hl := congrArg List.length h'
      rw [List.length_append] at hl
      exact List.eq_nil_of_length_eq_zero (by omega)
    rw [this]; rfl
  | cons tk rest ih =>
    intro s new h
    have hr := read_out_log s N tk
    obtain ⟨n2, e2, _⟩ := run_readsAt_ext N rest (read s N tk).1
    have h' : (run (read s N tk).1 (readsAt N rest)).log = new ++ s.log := h
    -- the first read's own extension
    have first : ∃ n1, (read s N tk).1.log = n1 ++ s.log ∧
        cntObj n1 = (match (read s N tk).2 with | .pkt .. => 1 | _ => 0) := by
      unfold ReadRes at hr
      cases ho : (read s N tk).2 with
      | hang => rw [ho] at hr; exact absurd hr id
      | none =>
        rw [ho] at hr; obtain ⟨n, e, c⟩ := hr
        exact ⟨Ev.idle N :: n, by rw [e]; rfl, by
          rw [cntObj_cons]; have := cntObj_le_cntPk n; simp [isObjPk]; omega⟩
      | pkt p t i b =>
        rw [ho] at hr; obtain ⟨n, e, c⟩ := hr
        exact ⟨Ev.pkt N p t i b :: n, by rw [e]; rfl, by
          rw [cntObj_cons]; have := cntObj_le_cntPk n; simp [isObjPk]; omega⟩
      | fdt k id i =>
        rw [ho] at hr; obtain ⟨n, e, c⟩ := hr
        exact ⟨Ev.fdt N k id i :: n, by rw [e]; rfl, by
          rw [cntObj_cons]; have := cntObj_le_cntPk n; simp [isObjPk]; omega⟩
    obtain ⟨n1, e1, c1⟩ := first
    have hnew : new = n2 ++ n1 := by
      rw [e2, e1, ← List.append_assoc] at h'
      exact (List.append_cancel_right h').symm
    rw [hnew, cntObj_append, c1, ih (read s N tk).1 n2 e2]
    show _ = _ + pktReads N (read s N tk).1 rest
    omega

/-- The measure bounds the object packets: after ANY operation history, among ANY sequence of reads at one
    instant `N` at most `phiA N s (heldOf s)` return an object packet. -/
theorem object_packets_bounded (cfg : Cfg) (tbl : List Nat) (ops : List Op) (N : Nat) (tks : List (List (Nat × Nat))) :
    pktReads N (run (init cfg tbl) ops) tks ≤ phiA N (run (init cfg tbl) ops) (heldOf (run (init cfg tbl) ops)) := by
  have hb := run_inv MBase.closed MBase.closedOps ops (init cfg tbl)
    (by rw [heldOf_init]; exact ⟨⟨Wf.init cfg tbl, LifeInv.init cfg tbl⟩, by simp [KeysInv, init]⟩) rfl
  generalize run (init cfg tbl) ops = s0 at hb
  obtain ⟨hb0, hq0⟩ := hb
  have hm0 : MInv N (phiA N s0 (heldOf s0)) s0.log s0 (heldOf s0) := ⟨[], rfl, Or.inr (by simp [cntObj])⟩
  have h1 := run_inv (Closed.and MBase.closed (MInv.closed N (phiA N s0 (heldOf s0)) s0.log))
    (ClosedOps.and MBase.closedOps (MInv.closedOps N (phiA N s0 (heldOf s0)) s0.log)) (readsAt N tks) s0
    ⟨hb0, hm0⟩ hq0
  obtain ⟨new, e, h2⟩ := h1.1.2
  obtain ⟨n2, e2, ok2⟩ := run_readsAt_ext N tks s0
  have hnn : new = n2 := by
    rw [e2] at e
    exact (List.append_cancel_right e).symm
  rcases h2 with ⟨x, hx, hbad⟩ | h2
  · rw [hnn] at hx
    rw [ok2 x hx] at hbad; cases hbad
  · rw [← pktReads_eq N tks s0 new e]
    omega

end Flute.Sched
