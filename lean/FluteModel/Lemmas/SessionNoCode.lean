import FluteModel.Lemmas.SessionBlock
import FluteModel.Lemmas.NoCodeSession
/-
  NON-VACUITY of the codec contract `Link.CodecDec`: it HOLDS for Compact No-Code (the decoder of the model `FecDec`, no external
  codec involved) with `Setting.dec = Session.canDecodeOf .nocode` ("all K source symbols are held"), whatever `Params.codec` is.
-/
namespace Flute.Link
open Flute Flute.FecDec Flute.ObjRecv

/-! ### the shard table -/

theorem isSomeAt_nil (j : Nat) : isSomeAt [] j = false := by simp [isSomeAt]
theorem isSomeAt_cons_succ (a : Option Bytes) (r : List (Option Bytes)) (j : Nat) : isSomeAt (a :: r) (j + 1) = isSomeAt r j := by
  simp [isSomeAt]
theorem isSomeAt_none_zero (r : List (Option Bytes)) : isSomeAt (none :: r) 0 = false := by simp [isSomeAt]
theorem isSomeAt_some_zero (v : Bytes) (r : List (Option Bytes)) : isSomeAt (some v :: r) 0 = true := by simp [isSomeAt]

theorem isSomeAt_lt (l : List (Option Bytes)) (j : Nat) (h : isSomeAt l j = true) : j < l.length := by
  induction l generalizing j with
  | nil => rw [isSomeAt_nil] at h; cases h
  | cons a r ih =>
    cases j with
    | zero => simp
    | succ j => rw [isSomeAt_cons_succ] at h; have := ih j h; simp; omega

theorem mem_someIdx (l : List (Option Bytes)) (i x : Nat) : x ∈ someIdx l i ↔ (i ≤ x ∧ isSomeAt l (x - i) = true) := by
  induction l generalizing i with
  | nil => simp [someIdx, isSomeAt_nil]
  | cons a r ih =>
    cases a with
    | none =>
      simp only [someIdx]
      rw [ih (i + 1)]
      constructor
      · rintro ⟨h1, h2⟩
        refine ⟨by omega, ?_⟩
        rw [show x - i = (x - (i + 1)) + 1 by omega, isSomeAt_cons_succ]; exact h2
      · rintro ⟨h1, h2⟩
        by_cases hx : x = i
        · subst hx; rw [Nat.sub_self, isSomeAt_none_zero] at h2; cases h2
        · refine ⟨by omega, ?_⟩
          rw [show x - i = (x - (i + 1)) + 1 by omega, isSomeAt_cons_succ] at h2; exact h2
    | some v =>
      simp only [someIdx, List.mem_cons]
      rw [ih (i + 1)]
      constructor
      · rintro (h | ⟨h1, h2⟩)
        · subst h; exact ⟨Nat.le_refl _, by rw [Nat.sub_self, isSomeAt_some_zero]⟩
        · refine ⟨by omega, ?_⟩
          rw [show x - i = (x - (i + 1)) + 1 by omega, isSomeAt_cons_succ]; exact h2
      · rintro ⟨h1, h2⟩
        by_cases hx : x = i
        · exact .inl hx
        · refine .inr ⟨by omega, ?_⟩
          rw [show x - i = (x - (i + 1)) + 1 by omega, isSomeAt_cons_succ] at h2; exact h2

theorem length_someIdx_le (l : List (Option Bytes)) (i : Nat) : (someIdx l i).length ≤ l.length := by
  induction l generalizing i with
  | nil => simp [someIdx]
  | cons a r ih =>
    cases a with
    | none => simp only [someIdx, List.length_cons]; have := ih (i + 1); omega
    | some v => simp only [someIdx, List.length_cons]; have := ih (i + 1); omega

/-- the table is full iff every slot is filled -/
theorem someIdx_full (l : List (Option Bytes)) (i : Nat) :
    (someIdx l i).length = l.length ↔ ∀ j, j < l.length → isSomeAt l j = true := by
  induction l generalizing i with
  | nil => simp [someIdx]
  | cons a r ih =>
    cases a with
    | none =>
      simp only [someIdx, List.length_cons]
      constructor
      · intro h; have := length_someIdx_le r (i + 1); omega
      · intro h; have := h 0 (by omega); rw [isSomeAt_none_zero] at this; cases this
    | some v =>
      simp only [someIdx, List.length_cons]
      rw [Nat.add_right_cancel_iff, ih (i + 1)]
      constructor
      · intro h j hj
        cases j with
        | zero => exact isSomeAt_some_zero v r
        | succ j => rw [isSomeAt_cons_succ]; exact h j (by omega)
      · intro h j hj
        have := h (j + 1) (by omega)
        rw [isSomeAt_cons_succ] at this; exact this

theorem concat_full (l : List (Option Bytes)) (h : ∀ j, j < l.length → isSomeAt l j = true) :
    ∃ out, concatShards l.length l = some out := by
  induction l with
  | nil => exact ⟨[], rfl⟩
  | cons a r ih =>
    cases a with
    | none => have := h 0 (by simp); rw [isSomeAt_none_zero] at this; cases this
    | some v =>
      obtain ⟨t, ht⟩ := ih (fun j hj => by have := h (j + 1) (by simp; omega); rw [isSomeAt_cons_succ] at this; exact this)
      exact ⟨v ++ t, by simp [concatShards, ht]⟩

theorem isSomeAt_set (l : List (Option Bytes)) (e j : Nat) (v : Bytes) :
    isSomeAt (l.set e (some v)) j = true ↔ ((j = e ∧ e < l.length) ∨ isSomeAt l j = true) := by
  induction l generalizing e j with
  | nil => simp [isSomeAt_nil]
  | cons a r ih =>
    cases e with
    | zero =>
      cases j with
      | zero => simp [isSomeAt]
      | succ j => simp [isSomeAt_cons_succ]
    | succ e =>
      cases j with
      | zero => cases a <;> simp [isSomeAt]
      | succ j => simp only [List.set_cons_succ, isSomeAt_cons_succ, List.length_cons]; rw [ih e j]; simp

theorem length_someIdx_set (l : List (Option Bytes)) (i e : Nat) (v : Bytes) (he : e < l.length) (hn : isSomeAt l e = false) :
    (someIdx (l.set e (some v)) i).length = (someIdx l i).length + 1 := by
  induction l generalizing i e with
  | nil => simp at he
  | cons a r ih =>
    cases e with
    | zero =>
      cases a with
      | none => simp [someIdx]
      | some w => rw [isSomeAt_some_zero] at hn; cases hn
    | succ e =>
      rw [isSomeAt_cons_succ] at hn
      have := ih (i + 1) e (by simpa using he) hn
      cases a with
      | none => simp only [List.set_cons_succ, someIdx]; exact this
      | some w => simp only [List.set_cons_succ, someIdx, List.length_cons]; omega

theorem someIdx_replicate_none (k i : Nat) : someIdx (List.replicate k none) i = [] := by
  induction k generalizing i with
  | zero => rfl
  | succ k ih => simp [List.replicate_succ, someIdx, ih]

theorem allBelow_iff (k : Nat) (l : List Nat) : Session.allBelow k l = true ↔ ∀ i, i < k → i ∈ l := by
  simp [Session.allBelow]

/-! ### the reachable states of a No-Code block decoder -/

/-- invariant of a No-Code decoder of a block with `k` source symbols -/
def NcInv (k : Nat) (blk : Block) : Prop :=
  ∃ shards nb data, blk.dec = some (.noCode shards nb data) ∧ shards.length = k ∧ nb = (someIdx shards 0).length ∧
    blk.completed = Session.allBelow k (someIdx shards 0) ∧ blk.completed = data.isSome

theorem full_iff (k : Nat) (shards : List (Option Bytes)) (hlen : shards.length = k) :
    Session.allBelow k (someIdx shards 0) = true ↔ (someIdx shards 0).length = k := by
  rw [allBelow_iff, ← hlen, someIdx_full]
  constructor
  · intro h j hj; have := (mem_someIdx shards 0 j).mp (h j hj); simpa using this.2
  · intro h i hi; exact (mem_someIdx shards 0 i).mpr ⟨Nat.zero_le _, by simpa using h i hi⟩

theorem ncinv_init (c : Codec) (o : Oti) (hs : o.scheme = .noCode) (k bs sbn : Nat) (hk0 : 0 < k) (hk : k ≤ 65536) (blk b' : Block)
    (hini : blk.initialized = false) (hc : blk.completed = false) (h : blk.init c o k bs sbn = .ok b') :
    NcInv k b' ∧ blkEsis b' = [] := by
  unfold Block.init at h
  rw [if_neg (by simp [hini]), if_neg (by simp [tooManySymbols, hs]; omega)] at h
  simp only [hs] at h
  cases h
  refine ⟨⟨List.replicate k none, 0, none, rfl, by simp, by rw [someIdx_replicate_none]; rfl, ?_, by simp [hc]⟩, ?_⟩
  · show blk.completed = _
    rw [hc, someIdx_replicate_none]
    symm
    apply Bool.eq_false_iff.mpr
    intro hh
    have := (allBelow_iff k []).mp hh 0 hk0
    cases this
  · show blkEsis { blk with dec := some (.noCode (List.replicate k none) 0 none), initialized := true, blockSize := bs } = []
    simp [blkEsis, decEsis, someIdx_replicate_none]

theorem ncinv_push (c : Codec) (k : Nat) (blk blk' : Block) (sym : Bytes) (esi : Nat) (he : esi < k) (hI : NcInv k blk)
    (h : blk.push c sym esi = some blk') :
    NcInv k blk' ∧ (blk.completed = false → ∀ x, x ∈ blkEsis blk' ↔ x = esi ∨ x ∈ blkEsis blk) := by
  obtain ⟨shards, nb, data, hd, hlen, hnb, hcomp, hdat⟩ := hI
  unfold Block.push at h
  by_cases hc : blk.completed = true
  · rw [if_pos hc] at h
    cases h
    exact ⟨⟨shards, nb, data, hd, hlen, hnb, hcomp, hdat⟩, fun hf => by rw [hc] at hf; cases hf⟩
  · rw [if_neg hc] at h
    have hc' : blk.completed = false := by simpa using hc
    have hdn : data = none := by
      rw [hc'] at hdat
      cases data with
      | none => rfl
      | some x => cases hdat
    subst hdn
    rw [hd] at h
    simp only [Dec.wrongLength, Bool.false_eq_true, if_false] at h
    have hesis : blkEsis blk = someIdx shards 0 := by simp [blkEsis, hd, decEsis]
    -- the new table
    have key : ∀ (shards' : List (Option Bytes)) (nb' : Nat),
        Dec.pushSymbol c (.noCode shards nb none) sym esi = .noCode shards' nb' none → shards'.length = k →
        nb' = (someIdx shards' 0).length → (∀ x, x ∈ someIdx shards' 0 ↔ x = esi ∨ x ∈ someIdx shards 0) →
        NcInv k blk' ∧ (blk.completed = false → ∀ x, x ∈ blkEsis blk' ↔ x = esi ∨ x ∈ blkEsis blk) := by
      intro shards' nb' hps hlen' hnb' hmem
      rw [hps] at h
      by_cases hcd0 : Dec.canDecode c (.noCode shards' nb' none) = true
      · rw [if_pos hcd0] at h
        have hcd : (nb' == shards'.length) = true := hcd0
        have hfull : (someIdx shards' 0).length = k := by rw [← hnb', ← hlen']; simpa using hcd
        have hall : ∀ j, j < shards'.length → isSomeAt shards' j = true := (someIdx_full shards' 0).mp (by rw [hfull, hlen'])
        obtain ⟨out, hout⟩ := concat_full shards' hall
        simp only [Dec.decode, Option.isSome_none, Bool.false_eq_true, if_false, hcd, Bool.not_true, hout] at h
        cases h
        refine ⟨⟨shards', nb', some out, rfl, hlen', hnb', ?_, rfl⟩, ?_⟩
        · show true = _
          exact ((full_iff k shards' hlen').mpr hfull).symm
        · intro _ x
          rw [hesis]
          show x ∈ blkEsis { blk with dec := some (.noCode shards' nb' (some out)), completed := true } ↔ _
          simp only [blkEsis, decEsis]
          exact hmem x
      · rw [if_neg hcd0] at h
        have hcd : ¬ (nb' == shards'.length) = true := hcd0
        cases h
        refine ⟨⟨shards', nb', none, rfl, hlen', hnb', ?_, by show blk.completed = _; rw [hc']; rfl⟩, ?_⟩
        · show blk.completed = _
          rw [hc']
          symm
          apply Bool.eq_false_iff.mpr
          intro hh
          have := (full_iff k shards' hlen').mp hh
          apply hcd
          rw [hnb', this, hlen']; simp
        · intro _ x
          rw [hesis]
          show x ∈ blkEsis { blk with dec := some (.noCode shards' nb' none) } ↔ _
          simp only [blkEsis, decEsis]
          exact hmem x
    by_cases hs : isSomeAt shards esi = true
    · -- a duplicate
      refine key shards nb ?_ hlen hnb ?_
      · simp [Dec.pushSymbol, hlen, hs]
      · intro x
        constructor
        · exact .inr
        · rintro (hx | hx)
          · subst hx; exact (mem_someIdx shards 0 x).mpr ⟨Nat.zero_le _, by simpa using hs⟩
          · exact hx
    · have hs' : isSomeAt shards esi = false := by simpa using hs
      refine key (shards.set esi (some sym)) (nb + 1) ?_ (by simp [hlen]) ?_ ?_
      · simp [Dec.pushSymbol, hlen, hs']
        exact he
      · rw [length_someIdx_set shards 0 esi sym (by omega) hs', hnb]
      · intro x
        rw [mem_someIdx, mem_someIdx, Nat.sub_zero, isSomeAt_set]
        constructor
        · rintro ⟨_, (⟨h1, _⟩ | h1)⟩
          · exact .inl h1
          · exact .inr ⟨Nat.zero_le _, h1⟩
        · rintro (h1 | ⟨_, h1⟩)
          · exact ⟨Nat.zero_le _, .inl ⟨h1, by omega⟩⟩
          · exact ⟨Nat.zero_le _, .inr h1⟩

/-! ### `CodecDec` for Compact No-Code -/

/-- a No-Code setting: scheme, decodability predicate, and source block sizes the decoder accepts (1 <= K <= 65536) -/
structure NoCodeSetting (Z : Setting) : Prop where
  scheme : Z.S.o.scheme = .noCode
  oscheme : Z.oc.scheme = .nocode
  dec : Z.dec = Session.canDecodeOf .nocode
  ks : ∀ b, b < Z.S.n → Z.oc.ks[b]? = some (Z.S.K b)
  k : ∀ b, b < Z.S.n → 0 < Z.S.K b ∧ Z.S.K b ≤ 65536

theorem stored_lt (Z : Setting) (N : NoCodeSetting Z) (b esi : Nat) (hb : b < Z.S.n) (h : StoredEsi Z b esi) : esi < Z.S.K b := by
  unfold StoredEsi at h
  rw [N.ks b hb] at h
  simpa [N.oscheme, Session.shardsOf] using h

theorem reach_ncinv (Z : Setting) (N : NoCodeSetting Z) (b : Nat) (hb : b < Z.S.n) (blk : Block) (h : ReachBlk Z b blk) :
    NcInv (Z.S.K b) blk := by
  induction h with
  | init blk0 b' bs hini hc hinit =>
    exact (ncinv_init Z.P.codec Z.S.o N.scheme _ bs b (N.k b hb).1 (N.k b hb).2 blk0 b' hini hc hinit).1
  | push blk0 blk' esi _ hst hpush ih =>
    exact (ncinv_push Z.P.codec _ blk0 blk' _ esi (stored_lt Z N b esi hb hst) ih hpush).1

/-- THE CODEC CONTRACT OF THE LINK HOLDS for Compact No-Code, for every `Params.codec` -/
theorem codecDec_noCode (Z : Setting) (N : NoCodeSetting Z) : CodecDec Z := by
  refine ⟨?_, ?_⟩
  · intro blk b bs hb hini
    refine ⟨{ blk with dec := some (.noCode (List.replicate (Z.S.K b) none) 0 none), initialized := true, blockSize := bs }, ?_, ?_⟩
    · unfold Block.init
      have := (N.k b hb).2
      rw [if_neg (by simp [hini]), if_neg (by simp [tooManySymbols, N.scheme]; omega)]
      simp only [N.scheme]
    · simp [blkEsis, decEsis, someIdx_replicate_none]
  · intro blk blk' b esi hb hr hc hst hpush
    have hI := reach_ncinv Z N b hb blk hr
    obtain ⟨hI', hmem⟩ := ncinv_push Z.P.codec _ blk blk' _ esi (stored_lt Z N b esi hb hst) hI hpush
    obtain ⟨shards, nb, data, hd, _, _, hcomp, hdat⟩ := hI'
    have hesis : blkEsis blk' = someIdx shards 0 := by simp [blkEsis, hd, decEsis]
    refine ⟨hmem hc, ?_, ?_⟩
    · rw [hesis, N.dec]; exact hcomp
    · intro hct
      rw [hct] at hdat
      simp [Block.sourceBlock, hd, Dec.sourceBlock, ← hdat]

end Flute.Link
